import ConduitModel.Proofs.MonSBase
import ConduitModel.Proofs.MonProc

/-!
# `ProcessorTask.Do` against the monitor, records may be split
-/
namespace Conduit.Funnel
open Conduit.Funnel.Mon

/-- the statement of `procDoP_effS` (Proofs/MonSProcEffect.lean), taken as a hypothesis here -/
def ProcEffStmt : Prop :=
  ∀ {h : Heap} {b : Batch}, b.WF h → (∃ rs, b.runs = some rs) → ∀ {out : List PR} {h' : Heap} {b' : Batch},
    procDoP h b out = .ok (h', b') → ProcEff h b (padOut b.nAct out) h' b' ∧ b'.WF h' ∧ ∃ rs', b'.runs = some rs'

/-! Helper lemmas live in the namespace `SProc` (so that they cannot clash with the general lemmas of
the sibling files). -/
namespace SProc

/-! ## lists of lists: offsets and parents -/

/-- the index in `kids.flatten` where the `p`-th list starts (`ls` = the lengths) -/
def off (ls : List Nat) (p : Nat) : Nat := (ls.take p).sum

/-- the list the `k`-th element of the flattened list belongs to -/
def parOf : List Nat → Nat → Nat
  | [], _ => 0
  | l :: ls, k => if k < l then 0 else parOf ls (k - l) + 1

theorem off_zero (ls : List Nat) : off ls 0 = 0 := by simp [off]

theorem off_cons_succ (l : Nat) (ls : List Nat) (p : Nat) : off (l :: ls) (p + 1) = l + off ls p := by
  simp [off, List.take_succ_cons, List.sum_cons]

theorem off_succ {ls : List Nat} {p : Nat} (hp : p < ls.length) : off ls (p + 1) = off ls p + ls[p] := by
  unfold off
  rw [take_succ_eq ls p hp, List.sum_append]
  simp

theorem off_ge_len {ls : List Nat} {p : Nat} (hp : ls.length ≤ p) : off ls p = ls.sum := by
  unfold off; rw [List.take_of_length_le hp]

theorem off_mono_add (ls : List Nat) (p : Nat) : ∀ n : Nat, off ls p ≤ off ls (p + n) := by
  intro n
  induction n with
  | zero => exact Nat.le_refl _
  | succ n ih =>
    by_cases hp : p + n < ls.length
    · rw [← Nat.add_assoc, off_succ hp]; omega
    · rw [off_ge_len (by omega : ls.length ≤ p + (n + 1))]
      rw [off_ge_len (by omega : ls.length ≤ p + n)] at ih
      exact ih

theorem off_mono (ls : List Nat) {p q : Nat} (h : p ≤ q) : off ls p ≤ off ls q := by
  obtain ⟨n, rfl⟩ := Nat.exists_eq_add_of_le h
  exact off_mono_add ls p n

theorem parOf_spec : ∀ (ls : List Nat) (k : Nat), k < ls.sum →
    parOf ls k < ls.length ∧ off ls (parOf ls k) ≤ k ∧ k < off ls (parOf ls k + 1) := by
  intro ls
  induction ls with
  | nil => intro k hk; simp at hk
  | cons l ls ih =>
    intro k hk
    rw [List.sum_cons] at hk
    unfold parOf
    by_cases h : k < l
    · simp only [h, if_true]
      refine ⟨by simp, by simp [off_zero], ?_⟩
      rw [off_cons_succ, off_zero]; omega
    · simp only [h, if_false]
      obtain ⟨a1, a2, a3⟩ := ih (k - l) (by omega)
      refine ⟨by simp; omega, ?_, ?_⟩
      · rw [off_cons_succ]; omega
      · rw [off_cons_succ]; omega

/-- the offsets determine the parent -/
theorem off_unique {ls : List Nat} {p p' k : Nat} (h1 : off ls p ≤ k) (h2 : k < off ls (p + 1))
    (h3 : off ls p' ≤ k) (h4 : k < off ls (p' + 1)) : p = p' := by
  rcases Nat.lt_trichotomy p p' with h | h | h
  · have := off_mono ls (by omega : p + 1 ≤ p'); omega
  · exact h
  · have := off_mono ls (by omega : p' + 1 ≤ p); omega

theorem parOf_off {ls : List Nat} {p j : Nat} (hp : p < ls.length) (hj : j < ls[p]) : parOf ls (off ls p + j) = p := by
  have h1 : off ls (p + 1) = off ls p + ls[p] := off_succ hp
  have h2 : off ls (p + 1) ≤ ls.sum := by
    rw [← off_ge_len (Nat.le_refl ls.length)]; exact off_mono ls (by omega)
  obtain ⟨_, a2, a3⟩ := parOf_spec ls (off ls p + j) (by omega)
  exact off_unique a2 a3 (by omega) (by omega)

theorem flatten_off {α} : ∀ (kids : List (List α)) (p j : Nat) (ks : List α) (x : α), kids[p]? = some ks → ks[j]? = some x →
    kids.flatten[off (kids.map List.length) p + j]? = some x := by
  intro kids
  induction kids with
  | nil => intro p j ks x h; simp at h
  | cons k0 kids ih =>
    intro p j ks x h1 h2
    cases p with
    | zero =>
      simp only [List.getElem?_cons_zero] at h1
      cases h1
      rw [off_zero, Nat.zero_add, List.flatten_cons, List.getElem?_append_left (List.getElem?_eq_some_iff.mp h2).1]
      exact h2
    | succ p =>
      simp only [List.getElem?_cons_succ] at h1
      rw [List.map_cons, off_cons_succ, List.flatten_cons, Nat.add_assoc, List.getElem?_append_right (by omega)]
      rw [show k0.length + (off (kids.map List.length) p + j) - k0.length = off (kids.map List.length) p + j by omega]
      exact ih p j ks x h1 h2

/-- decoding an index of the flattened list -/
theorem flatten_decode {α} (kids : List (List α)) {k : Nat} {x : α} (h : kids.flatten[k]? = some x) :
    ∃ (p j : Nat) (ks : List α), p = parOf (kids.map List.length) k ∧ kids[p]? = some ks ∧ ks[j]? = some x ∧
      k = off (kids.map List.length) p + j := by
  have hk : k < (kids.map List.length).sum := by
    rw [← List.length_flatten]; exact (List.getElem?_eq_some_iff.mp h).1
  obtain ⟨a1, a2, a3⟩ := parOf_spec _ k hk
  generalize parOf (kids.map List.length) k = p at a1 a2 a3
  rw [List.length_map] at a1
  rw [off_succ (by rw [List.length_map]; exact a1)] at a3
  simp only [List.getElem_map] at a3
  have hj : k - off (kids.map List.length) p < kids[p].length := by omega
  have := flatten_off kids p _ kids[p] _ (List.getElem?_eq_getElem a1) (List.getElem?_eq_getElem hj)
  rw [show off (kids.map List.length) p + (k - off (kids.map List.length) p) = k by omega, h] at this
  refine ⟨p, k - off (kids.map List.length) p, kids[p], rfl, List.getElem?_eq_getElem a1, ?_, by omega⟩
  rw [List.getElem?_eq_getElem hj]; exact this.symm

theorem off_ge_idx {ls : List Nat} (h1 : ∀ x ∈ ls, 1 ≤ x) : ∀ p : Nat, p ≤ ls.length → p ≤ off ls p := by
  intro p
  induction p with
  | zero => intro _; exact Nat.zero_le _
  | succ p ih =>
    intro hp
    have hlt : p < ls.length := by omega
    rw [off_succ hlt]
    have := h1 ls[p] (List.getElem_mem _)
    have := ih (by omega)
    omega

/-- consecutive elements of the flattened list: same list, or the last of one and the first of the next -/
theorem off_adj {ls : List Nat} (h1 : ∀ x ∈ ls, 1 ≤ x) {p p' j j' : Nat} (hp : p < ls.length) (hp' : p' < ls.length)
    (hj : j < ls[p]) (hj' : j' < ls[p']) (he : off ls p + j + 1 = off ls p' + j') :
    (p' = p ∧ j' = j + 1) ∨ (p' = p + 1 ∧ j' = 0 ∧ j + 1 = ls[p]) := by
  have e1 := off_succ hp
  have e2 := off_succ hp'
  rcases Nat.lt_trichotomy p p' with h | h | h
  · right
    have m1 := off_mono ls (by omega : p + 1 ≤ p')
    by_cases h2 : p' = p + 1
    · subst h2; omega
    · exfalso
      have hp1 : p + 1 < ls.length := by omega
      have e3 := off_succ hp1
      have := h1 ls[p+1] (List.getElem_mem _)
      have m2 := off_mono ls (by omega : p + 1 + 1 ≤ p')
      omega
  · subst h; left; omega
  · exfalso
    have m1 := off_mono ls (by omega : p' + 1 ≤ p)
    omega

/-- a later element belongs to a later (or the same) list -/
theorem off_le_par {ls : List Nat} {p p' j j' : Nat}
    (he : off ls p + j ≤ off ls p' + j') (hp' : p' < ls.length) (hj' : j' < ls[p']) : p ≤ p' := by
  apply Classical.byContradiction
  intro h
  have e2 := off_succ hp'
  have m1 := off_mono ls (by omega : p' + 1 ≤ p)
  omega

theorem sum_eq_zero_iff {ls : List Nat} (h1 : ∀ x ∈ ls, 1 ≤ x) : ls.sum = 0 ↔ ls.length = 0 := by
  constructor
  · intro h
    have := off_ge_idx h1 ls.length (Nat.le_refl _)
    rw [off_ge_len (Nat.le_refl _)] at this
    omega
  · intro h
    have : ls = [] := List.length_eq_zero_iff.mp h
    subst this; rfl


/-! ## general lemmas about the ledger invariant, rows and `SrcMap` -/

theorem tinv_sinv {h : Heap} {rest : Nat → Nat} {b : Batch} (ht : TInv h rest b 0) : SInv h rest b :=
  ⟨ht.wf, ht.ne, ht.runs, ht.nopos, by simpa using ht.acc, ht.restok, ht.shape, by simpa using ht.headless⟩

theorem rowKey_run {h : Heap} {row : Row} {rid : Nat} (hr : row.run = some rid) :
    rowKey h row = keyOf (h[rid]!).origPos := by
  unfold rowKey; rw [hr]

theorem rowKey_none {h : Heap} {row : Row} (hr : row.run = none) : rowKey h row = keyOf row.pos := by
  unfold rowKey; rw [hr]

/-- the run of a row of a well-formed batch is allocated -/
theorem row_run_lt {h : Heap} {b : Batch} {rs : List (Option Nat)} (hwf : b.WF h) (hvb : VB b rs) {k rid : Nat} {row : Row}
    (hk : b.rows[k]? = some row) (hr : row.run = some rid) : rid < h.size := by
  obtain ⟨_, _, _, h4⟩ := rows_fields hvb hk
  have hro := hwf.1.runs_ok
  rw [hvb.runs] at hro
  have := hro.2 _ (List.mem_of_getElem? h4)
  rw [hr] at this
  simpa [runIdOK] using this

/-- a run has a piece in the view iff a row carries it -/
theorem cnt_pos_of_row {b : Batch} {rs : List (Option Nat)} (hvb : VB b rs) {k rid : Nat} {row : Row}
    (hk : b.rows[k]? = some row) (hr : row.run = some rid) : 0 < cnt rid b.view := by
  unfold cnt
  rw [List.countP_pos_iff]
  exact ⟨(row.run, row.pos), List.mem_of_getElem? (rows_view hvb hk), by simp [hr]⟩

theorem row_of_cnt_pos {b : Batch} {rs : List (Option Nat)} (hvb : VB b rs) {rid : Nat} (hc : 0 < cnt rid b.view) :
    ∃ (k : Nat) (row : Row), b.rows[k]? = some row ∧ row.run = some rid := by
  unfold cnt at hc
  rw [List.countP_pos_iff] at hc
  obtain ⟨x, hx, hp⟩ := hc
  obtain ⟨k, hk⟩ := List.getElem?_of_mem hx
  obtain ⟨row, h1, h2, _⟩ := view_rows hvb hk
  exact ⟨k, row, h1, by rw [h2]; simpa using hp⟩

/-- every row has a source -/
theorem sm_src {G : Ctx} {h : Heap} {b : Batch} {sm : List Nat} (hm : SrcMap G h b sm) {k : Nat} {row : Row}
    (hk : b.rows[k]? = some row) :
    ∃ (q : Nat) (src : Rec), sm[k]? = some q ∧ G.all[q]? = some src ∧ rowKey h row = keyR src ∧ root row.r = root src := by
  have hlt : k < sm.length := by rw [hm.len]; exact (List.getElem?_eq_some_iff.mp hk).1
  obtain ⟨src, h1, h2, h3⟩ := hm.key k row sm[k] hk (List.getElem?_eq_getElem hlt)
  exact ⟨sm[k], src, List.getElem?_eq_getElem hlt, h1, h2, h3⟩

/-- every source index belongs to a row -/
theorem sm_row {G : Ctx} {h : Heap} {b : Batch} {sm : List Nat} (hm : SrcMap G h b sm) {k q : Nat} (hk : sm[k]? = some q) :
    ∃ row, b.rows[k]? = some row := by
  have hlt : k < b.rows.length := by rw [← hm.len]; exact (List.getElem?_eq_some_iff.mp hk).1
  exact ⟨_, List.getElem?_eq_getElem hlt⟩

/-- the source indices are non-decreasing -/
theorem sm_mono_add {G : Ctx} {h : Heap} {b : Batch} {sm : List Nat} (hm : SrcMap G h b sm) :
    ∀ (n k q q' : Nat), sm[k]? = some q → sm[k + n]? = some q' → q ≤ q' := by
  intro n
  induction n with
  | zero =>
    intro k q q' h1 h2
    rw [Nat.add_zero, h1] at h2
    cases h2; exact Nat.le_refl _
  | succ n ih =>
    intro k q q' h1 h2
    have hlt : k + n < sm.length := by
      have := (List.getElem?_eq_some_iff.mp h2).1
      omega
    have h3 : sm[k + n]? = some sm[k + n] := List.getElem?_eq_getElem hlt
    have := ih k q _ h1 h3
    have := hm.step (k + n) _ q' h3 (by rw [Nat.add_assoc]; exact h2)
    omega

theorem sm_mono {G : Ctx} {h : Heap} {b : Batch} {sm : List Nat} (hm : SrcMap G h b sm) {k k' q q' : Nat} (hk : k ≤ k')
    (h1 : sm[k]? = some q) (h2 : sm[k']? = some q') : q ≤ q' := by
  obtain ⟨n, rfl⟩ := Nat.exists_eq_add_of_le hk
  exact sm_mono_add hm n k q q' h1 h2

/-- two different rows with the same source share a run -/
theorem sm_same_run_add {G : Ctx} {h : Heap} {b : Batch} {sm : List Nat} (hm : SrcMap G h b sm) :
    ∀ (n k k' q : Nat) (row row' : Row), k' = k + n + 1 →
    sm[k]? = some q → sm[k']? = some q → b.rows[k]? = some row → b.rows[k']? = some row' →
    ∃ rid, row.run = some rid ∧ row'.run = some rid := by
  intro n
  induction n with
  | zero =>
    intro k k' q row row' hk h1 h2 h3 h4
    subst hk
    exact hm.same k row row' q h3 h4 h1 h2
  | succ n ih =>
    intro k k' q row row' hk h1 h2 h3 h4
    have hlt : k + 1 < sm.length := by
      have := (List.getElem?_eq_some_iff.mp h2).1
      omega
    have h5 : sm[k + 1]? = some sm[k + 1] := List.getElem?_eq_getElem hlt
    have ha := sm_mono hm (Nat.le_succ k) h1 h5
    have hb := sm_mono hm (by omega : k + 1 ≤ k') h5 h2
    have he : sm[k + 1] = q := by omega
    rw [he] at h5
    obtain ⟨row1, h6⟩ := sm_row hm h5
    obtain ⟨rid, r1, r2⟩ := hm.same k row row1 q h3 h6 h1 h5
    obtain ⟨rid', r3, r4⟩ := ih (k + 1) k' q row1 row' (by omega) h5 h2 h6 h4
    rw [r2] at r3
    cases r3
    exact ⟨rid, r1, r4⟩

theorem sm_same_run {G : Ctx} {h : Heap} {b : Batch} {sm : List Nat} (hm : SrcMap G h b sm) {k k' q : Nat} {row row' : Row}
    (hne : k ≠ k') (h1 : sm[k]? = some q) (h2 : sm[k']? = some q) (h3 : b.rows[k]? = some row) (h4 : b.rows[k']? = some row') :
    ∃ rid, row.run = some rid ∧ row'.run = some rid := by
  rcases Nat.lt_or_gt_of_ne hne with hlt | hlt
  · exact sm_same_run_add hm (k' - k - 1) k k' q row row' (by omega) h1 h2 h3 h4
  · obtain ⟨rid, r1, r2⟩ := sm_same_run_add hm (k - k' - 1) k' k q row' row (by omega) h2 h1 h4 h3
    exact ⟨rid, r2, r1⟩

/-- a row without run has a source of its own -/
theorem sm_own_src {G : Ctx} {h : Heap} {b : Batch} {sm : List Nat} (hm : SrcMap G h b sm) {k k' q : Nat} {row : Row}
    (hr : row.run = none) (h1 : sm[k]? = some q) (h2 : sm[k']? = some q) (h3 : b.rows[k]? = some row) : k = k' := by
  apply Classical.byContradiction
  intro hne
  obtain ⟨row', h4⟩ := sm_row hm h2
  obtain ⟨rid, r1, _⟩ := sm_same_run hm hne h1 h2 h3 h4
  rw [hr] at r1; cases r1

/-- a row of run `rid` stems from the source at the run's position -/
theorem sm_run_src {G : Ctx} {h : Heap} {b : Batch} {sm : List Nat} (hm : SrcMap G h b sm) (hs : Src G) (hl : HLin G h)
    {k q rid : Nat} {row : Row} {src : Rec}
    (hrid : rid < h.size) (h1 : sm[k]? = some q) (h3 : b.rows[k]? = some row) (hr : row.run = some rid)
    (hsrc : G.all[q]? = some src) : root (h[rid]!).origRec = root src := by
  obtain ⟨src', hmem, hk, hroot⟩ := hl rid hrid
  obtain ⟨q', hq'⟩ := List.getElem?_of_mem hmem
  obtain ⟨src2, g1, g2, _⟩ := hm.key k row q h3 h1
  rw [hsrc] at g1; cases g1
  rw [rowKey_run hr] at g2
  have := hs.idx_of_key hq' hsrc (by rw [hk, g2])
  subst this
  rw [hsrc] at hq'; cases hq'
  exact hroot

/-- the `j`-th active record is the record of an unfiltered row -/
theorem active_row {h : Heap} {b : Batch} {rs : List (Option Nat)} (hwf : b.WF h) (hvb : VB b rs) {j : Nat} {r : Rec}
    (hj : b.active[j]? = some r) :
    ∃ (p : Nat) (row : Row), (actList b.st)[j]? = some p ∧ b.rows[p]? = some row ∧ row.r = r ∧ row.st.flag ≠ .filter := by
  have hlen : b.active.length = b.nAct := active_length hwf.1.st_len hwf.2
  have hk : j < (actList b.st).length := by
    have := (List.getElem?_eq_some_iff.mp hj).1
    unfold Batch.nAct at hlen
    omega
  have hp : (actList b.st)[j]? = some (actList b.st)[j] := List.getElem?_eq_getElem hk
  have hr : b.recs[(actList b.st)[j]]? = some r := by rw [← active_getElem? hwf hp]; exact hj
  have hlt : (actList b.st)[j] < b.st.length := actList_lt hk
  have hrl : (actList b.st)[j] < b.rows.length := by rw [rows_length, ← hvb.slen]; exact hlt
  have hrow : b.rows[(actList b.st)[j]]? = some b.rows[(actList b.st)[j]] := List.getElem?_eq_getElem hrl
  obtain ⟨f1, f2, _, _⟩ := rows_fields hvb hrow
  refine ⟨_, _, hp, hrow, ?_, ?_⟩
  · rw [hr] at f1; exact (Option.some.inj f1).symm
  · have hnf := (notFilt_iff hlt).mp (mem_actList.mp (List.mem_of_getElem? hp)).2
    have : b.st[(actList b.st)[j]] = (b.rows[(actList b.st)[j]]).st := by
      rw [List.getElem?_eq_getElem hlt] at f2; exact Option.some.inj f2
    rw [← this]; exact hnf

/-- the row at an active index: its record is the active record, it is not filtered -/
theorem act_row {h : Heap} {b : Batch} {rs : List (Option Nat)} (hwf : b.WF h) (hvb : VB b rs) {a p : Nat} {row : Row}
    (ha : (actList b.st)[a]? = some p) (hp : b.rows[p]? = some row) :
    b.active[a]? = some row.r ∧ row.st.flag ≠ .filter := by
  obtain ⟨f1, f2, _, _⟩ := rows_fields hvb hp
  obtain ⟨hlt, hst⟩ := List.getElem?_eq_some_iff.mp f2
  refine ⟨by rw [active_getElem? hwf ha]; exact f1, ?_⟩
  have hnf := (notFilt_iff hlt).mp (mem_actList.mp (List.mem_of_getElem? ha)).2
  rw [hst] at hnf; exact hnf

/-- an unfiltered row is an active record -/
theorem row_act {b : Batch} {rs : List (Option Nat)} (hvb : VB b rs) {p : Nat} {row : Row}
    (hp : b.rows[p]? = some row) (hf : row.st.flag ≠ .filter) : ∃ a : Nat, (actList b.st)[a]? = some p := by
  obtain ⟨_, f2, _, _⟩ := rows_fields hvb hp
  obtain ⟨hlt, hst⟩ := List.getElem?_eq_some_iff.mp f2
  have hm : p ∈ actList b.st := mem_actList.mpr ⟨hlt, (notFilt_iff hlt).mpr (by rw [hst]; exact hf)⟩
  exact List.getElem?_of_mem hm

/-- a row outside the active list is filtered -/
theorem row_inact {b : Batch} {rs : List (Option Nat)} (hvb : VB b rs) {p : Nat} {row : Row}
    (hp : b.rows[p]? = some row) (hn : p ∉ actList b.st) : row.st.flag = .filter := by
  apply Classical.byContradiction
  intro hf
  obtain ⟨a, ha⟩ := row_act hvb hp hf
  exact hn (List.mem_of_getElem? ha)


/-! ## what is known about the kids of one row -/

/-- `rid` is a run allocated by the call for the run-less row `row` -/
def FreshRun (h h' : Heap) (split' : List (Nat × Rec)) (row : Row) (rid : Nat) : Prop :=
  h.size ≤ rid ∧ rid < h'.size ∧ row.pos ≠ none ∧ (h'[rid]!).origPos = row.pos ∧
    ((h'[rid]!).origRec = row.r ∨ ∃ e ∈ split', e.1 = keyOf row.pos ∧ (h'[rid]!).origRec = e.2) ∧
    (h'[rid]!).nacked = false ∧ (h'[rid]!).terminal = 0

/-- the kids `ks` of row `p` of batch `b` (reply `out`), in the form the monitor proof uses -/
structure KidF (h h' : Heap) (b : Batch) (out : List PR) (split' : List (Nat × Rec)) (p : Nat) (row : Row)
    (ks : List Row) : Prop where
  ne : ks ≠ []
  run : ∀ row' ∈ ks, row'.run = row.run ∨ ∃ rid, row'.run = some rid ∧ row.run = none ∧ FreshRun h h' split' row rid
  runs_same : 2 ≤ ks.length → ∃ rid, ∀ row' ∈ ks, row'.run = some rid
  pos : ∀ row' ∈ ks, row'.run = none → row'.pos = row.pos
  recs : ks.map (·.r) = [row.r] ∨ ∃ (a : Nat) (o : PR), (actList b.st)[a]? = some p ∧ out[a]? = some o ∧ ks.map (·.r) = outRecs o
  flag1 : ∀ row' ∈ ks, row'.st.flag ≠ .filter → row.st.flag ≠ .filter
  flag2 : ∀ row' ∈ ks, row'.st.flag = .filter → row.st.flag = .filter ∨
    ∃ (a : Nat) (o : PR), (actList b.st)[a]? = some p ∧ out[a]? = some o ∧ (o = .filter ∨ o = .multi [])
  err : ∀ (a : Nat) (e : Option Err), (actList b.st)[a]? = some p → out[a]? = some (.error e) →
    ∀ row' ∈ ks, row'.st.flag = .nack ∧ row'.run = row.run
  splitk : ∀ (a : Nat) (ms : List Rec), (actList b.st)[a]? = some p → out[a]? = some (.multi ms) → 2 ≤ ms.length →
    ∀ row' ∈ ks, ∃ rid, row'.run = some rid

theorem kidF_inactive {h h' : Heap} {b : Batch} {out : List PR} {split' : List (Nat × Rec)} {p : Nat} {row : Row}
    (hn : p ∉ actList b.st) : KidF h h' b out split' p row [row] := by
  have hm : ∀ row' ∈ [row], row' = row := fun row' h => List.mem_singleton.mp h
  refine ⟨by simp, ?_, ?_, ?_, Or.inl rfl, ?_, ?_, ?_, ?_⟩
  · intro row' h; rw [hm row' h]; exact Or.inl rfl
  · intro h; simp at h
  · intro row' h _; rw [hm row' h]
  · intro row' h hf; rw [hm row' h] at hf; exact hf
  · intro row' h hf; rw [hm row' h] at hf; exact Or.inl hf
  · intro a e ha; exact absurd (List.mem_of_getElem? ha) hn
  · intro a ms ha; exact absurd (List.mem_of_getElem? ha) hn

/-- a row that is replaced by one row with the same position and run -/
theorem kidF_one {h h' : Heap} {b : Batch} {out : List PR} {split' : List (Nat × Rec)} {p : Nat} {row : Row} {r' : Rec}
    {st' : Status} (hact : row.st.flag ≠ .filter)
    (hrecs : [r'] = [row.r] ∨ ∃ (a : Nat) (o : PR), (actList b.st)[a]? = some p ∧ out[a]? = some o ∧ [r'] = outRecs o)
    (hf2 : st'.flag = .filter → row.st.flag = .filter ∨
      ∃ (a : Nat) (o : PR), (actList b.st)[a]? = some p ∧ out[a]? = some o ∧ (o = .filter ∨ o = .multi []))
    (herr : ∀ (a : Nat) (e : Option Err), (actList b.st)[a]? = some p → out[a]? = some (.error e) → st'.flag = .nack)
    (hspl : ∀ (a : Nat) (ms : List Rec), (actList b.st)[a]? = some p → out[a]? = some (.multi ms) → 2 ≤ ms.length → False) :
    KidF h h' b out split' p row [{ row with r := r', st := st' }] := by
  have hm : ∀ row' ∈ [({ row with r := r', st := st' } : Row)], row' = { row with r := r', st := st' } :=
    fun row' h => List.mem_singleton.mp h
  refine ⟨by simp, ?_, ?_, ?_, ?_, ?_, ?_, ?_, ?_⟩
  · intro row' h; rw [hm row' h]; exact Or.inl rfl
  · intro h; simp at h
  · intro row' h _; rw [hm row' h]
  · exact hrecs
  · intro _ _ _; exact hact
  · intro row' h hf; rw [hm row' h] at hf; exact hf2 hf
  · intro a e ha ho row' h; rw [hm row' h]; exact ⟨herr a e ha ho, rfl⟩
  · intro a ms ha ho hl; exact (hspl a ms ha ho hl).elim

theorem pieceRows_length (row : Row) (rid : Nat) (ms : List Rec) (sts : List Status) :
    (pieceRows row rid ms sts).length = ms.length := by simp [pieceRows]

theorem pieceRows_get {row : Row} {rid : Nat} {ms : List Rec} {sts : List Status} {j : Nat} {row' : Row}
    (h : (pieceRows row rid ms sts)[j]? = some row') :
    j < ms.length ∧ row' = { r := ms[j]?.getD default, st := sts[j]?.getD default, pos := if j = 0 then row.pos else none, run := some rid } := by
  unfold pieceRows at h
  rw [List.getElem?_map] at h
  cases hj : (List.range ms.length)[j]? with
  | none => rw [hj] at h; cases h
  | some x =>
    rw [hj] at h
    obtain ⟨h1, h2⟩ := List.getElem?_eq_some_iff.mp hj
    simp at h1 h2
    subst h2
    exact ⟨h1, (Option.some.inj h).symm⟩

theorem pieceRows_recs (row : Row) (rid : Nat) (ms : List Rec) (sts : List Status) :
    (pieceRows row rid ms sts).map (·.r) = ms := by
  apply List.ext_getElem?
  intro j
  unfold pieceRows
  rw [List.map_map, List.getElem?_map]
  by_cases hj : j < ms.length
  · rw [List.getElem?_range hj]; simp [hj]
  · rw [List.getElem?_eq_none_iff.mpr (by simpa using hj), List.getElem?_eq_none_iff.mpr (by omega)]; rfl

/-- the kids of an active row -/
theorem kidF_active {h h' : Heap} {b : Batch} {rs : List (Option Nat)} {out : List PR} {split' : List (Nat × Rec)}
    {p a : Nat} {row : Row} {o : PR} {ks : List Row} (hwf : b.WF h) (hvb : VB b rs)
    (ha : (actList b.st)[a]? = some p) (hp : b.rows[p]? = some row) (ho : (padOut b.nAct out)[a]? = some o)
    (hk : KidsOK h h' split' row o ks) : KidF h h' b out split' p row ks := by
  have hact : row.st.flag ≠ .filter := (act_row hwf hvb ha hp).2
  -- the reply for `p`, as an entry of `out`
  have huniq : ∀ (a' : Nat) (o' : PR), (actList b.st)[a']? = some p → out[a']? = some o' → o' = o := by
    intro a' o' ha' ho'
    have := actList_inj ha' ha
    subst this
    rw [padOut_lt (List.getElem?_eq_some_iff.mp ho').1, ho'] at ho
    exact Option.some.inj ho
  have hout : o ≠ .nil → out[a]? = some o := fun hne => padOut_out ho hne
  cases o with
  | single r' =>
    obtain ⟨st', rfl, hfl⟩ := hk
    refine kidF_one hact (Or.inr ⟨a, _, ha, hout (by intro hh; cases hh), rfl⟩) ?_ ?_ ?_
    · intro hf
      rcases hfl with h1 | h1
      · left; rw [← h1]; exact hf
      · rw [h1] at hf; cases hf
    · intro a' e ha' ho'; cases huniq a' _ ha' ho'
    · intro a' ms ha' ho'; cases huniq a' _ ha' ho'
  | filter =>
    obtain ⟨st', rfl, hfl⟩ := hk
    refine kidF_one (r' := row.r) hact (Or.inl rfl) ?_ ?_ ?_
    · intro _; exact Or.inr ⟨a, _, ha, hout (by intro hh; cases hh), Or.inl rfl⟩
    · intro a' e ha' ho'; cases huniq a' _ ha' ho'
    · intro a' ms ha' ho'; cases huniq a' _ ha' ho'
  | error e =>
    obtain ⟨st', rfl, hfl⟩ := hk
    refine kidF_one (r' := row.r) hact (Or.inl rfl) ?_ ?_ ?_
    · intro hf; rw [hfl] at hf; cases hf
    · intro _ _ _ _; exact hfl
    · intro a' ms ha' ho'; cases huniq a' _ ha' ho'
  | nil =>
    obtain ⟨st', rfl, hfl⟩ := hk
    refine kidF_one (r' := row.r) hact (Or.inl rfl) ?_ ?_ ?_
    · intro hf; rcases hfl with h1 | h1 <;> rw [h1] at hf <;> cases hf
    · intro a' e ha' ho'; cases huniq a' _ ha' ho'
    · intro a' ms ha' ho'; cases huniq a' _ ha' ho'
  | multi m =>
    match m, hk, huniq, hout with
    | [], hk, huniq, hout =>
      obtain ⟨st', rfl, hfl⟩ := hk
      refine kidF_one (r' := row.r) hact (Or.inl rfl) ?_ ?_ ?_
      · intro _; exact Or.inr ⟨a, _, ha, hout (by intro hh; cases hh), Or.inr rfl⟩
      · intro a' e ha' ho'; cases huniq a' _ ha' ho'
      · intro a' ms ha' ho' hl
        have := huniq a' _ ha' ho'
        injection this with this
        subst this; simp at hl
    | [r'], hk, huniq, hout =>
      obtain ⟨st', rfl, hfl⟩ := hk
      refine kidF_one hact (Or.inr ⟨a, _, ha, hout (by intro hh; cases hh), rfl⟩) ?_ ?_ ?_
      · intro hf
        rcases hfl with h1 | h1
        · left; rw [← h1]; exact hf
        · rw [h1] at hf; cases hf
      · intro a' e ha' ho'; cases huniq a' _ ha' ho'
      · intro a' ms ha' ho' hl
        have := huniq a' _ ha' ho'
        injection this with this
        subst this; simp at hl
    | r1 :: r2 :: ms, hk, huniq, hout =>
      obtain ⟨rid, sts, hlen, rfl, hfl, hnew⟩ := hk
      have hrun : ∀ row' ∈ pieceRows row rid (r1 :: r2 :: ms) sts, row'.run = some rid := by
        intro row' hm
        obtain ⟨j, hj⟩ := List.getElem?_of_mem hm
        rw [(pieceRows_get hj).2]
      refine ⟨?_, ?_, fun _ => ⟨rid, hrun⟩, ?_, ?_, fun _ _ _ => hact, ?_, ?_, fun _ _ _ _ _ row' hm => ⟨rid, hrun row' hm⟩⟩
      · intro he
        have := congrArg List.length he
        rw [pieceRows_length] at this
        simp at this
      · intro row' hm
        rw [hrun row' hm]
        rcases hnew with ⟨h1, _⟩ | ⟨h1, h2, h3, h4, h5, h6, h7, h8, _⟩
        · exact Or.inl h1.symm
        · exact Or.inr ⟨rid, rfl, h1, h2, h3, h4, h5, h6, h7, h8⟩
      · intro row' hm hn; rw [hrun row' hm] at hn; cases hn
      · exact Or.inr ⟨a, _, ha, hout (by intro hh; cases hh), pieceRows_recs _ _ _ _⟩
      · intro row' hm hf
        obtain ⟨j, hj⟩ := List.getElem?_of_mem hm
        obtain ⟨hjl, hrow'⟩ := pieceRows_get hj
        have hjs : j < sts.length := by rw [hlen]; exact hjl
        have hst : row'.st = sts[j] := by rw [hrow']; simp [hjs]
        rw [hst] at hf
        rcases hfl j _ (List.getElem?_eq_getElem hjs) with h1 | h1
        · by_cases hj0 : j = 0
          · simp only [hj0, if_true] at h1
            left; rw [← h1]; simp only [hj0] at hf; exact hf
          · simp only [hj0, if_false] at h1
            rw [h1] at hf; cases hf
        · rw [h1] at hf; cases hf
      · intro a' e ha' ho'; cases huniq a' _ ha' ho'


/-! ## consequences of `KidF` -/

theorem KidF.keep {h h' : Heap} {b : Batch} {out : List PR} {split' : List (Nat × Rec)} {p : Nat} {row : Row} {ks : List Row}
    (hk : KidF h h' b out split' p row ks) {row' : Row} (hm : row' ∈ ks) {rid : Nat} (hr : row.run = some rid) :
    row'.run = some rid := by
  rcases hk.run row' hm with h1 | ⟨_, _, h2, _⟩
  · rw [h1]; exact hr
  · rw [hr] at h2; cases h2

theorem KidF.old {h h' : Heap} {b : Batch} {out : List PR} {split' : List (Nat × Rec)} {p : Nat} {row : Row} {ks : List Row}
    (hk : KidF h h' b out split' p row ks) {row' : Row} (hm : row' ∈ ks) {rid : Nat} (hr : row'.run = some rid)
    (hlt : rid < h.size) : row.run = some rid := by
  rcases hk.run row' hm with h1 | ⟨rid', h1, _, h3, _⟩
  · rw [← h1]; exact hr
  · rw [hr] at h1; cases h1; omega

theorem KidF.new {h h' : Heap} {b : Batch} {rs : List (Option Nat)} {out : List PR} {split' : List (Nat × Rec)} {p : Nat}
    {row : Row} {ks : List Row} (hwf : b.WF h) (hvb : VB b rs) (hp : b.rows[p]? = some row)
    (hk : KidF h h' b out split' p row ks) {row' : Row} (hm : row' ∈ ks) {rid : Nat} (hr : row'.run = some rid)
    (hge : h.size ≤ rid) : row.run = none ∧ FreshRun h h' split' row rid := by
  rcases hk.run row' hm with h1 | ⟨rid', h1, h2, h3⟩
  · rw [hr] at h1
    have := row_run_lt hwf hvb hp h1.symm
    omega
  · rw [hr] at h1; cases h1; exact ⟨h2, h3⟩

theorem KidF.none {h h' : Heap} {b : Batch} {out : List PR} {split' : List (Nat × Rec)} {p : Nat} {row : Row} {ks : List Row}
    (hk : KidF h h' b out split' p row ks) {row' : Row} (hm : row' ∈ ks) (hr : row'.run = none) :
    row.run = none ∧ row'.pos = row.pos := by
  refine ⟨?_, hk.pos row' hm hr⟩
  rcases hk.run row' hm with h1 | ⟨rid', h1, _⟩
  · rw [← h1]; exact hr
  · rw [hr] at h1; cases h1

/-- the outputs of a reply have the root of the input -/
theorem ok_outRecs {recs : List Rec} {out : List PR} (hok : pcallOK recs out = true) {a : Nat} {r : Rec} {o : PR}
    (h1 : recs[a]? = some r) (h2 : out[a]? = some o) : ∀ r' ∈ outRecs o, root r' = root r := by
  intro r' hm
  obtain ⟨g1, g2⟩ := pcallOK_get hok h1 h2
  cases o with
  | single x =>
    simp only [outRecs, List.mem_singleton] at hm
    subst hm; exact g1 _ rfl
  | multi m => exact g2 m rfl r' hm
  | filter => simp [outRecs] at hm
  | error e => simp [outRecs] at hm
  | nil => simp [outRecs] at hm

theorem mem_map_r {ks : List Row} {row' : Row} (hm : row' ∈ ks) : row'.r ∈ ks.map (·.r) :=
  List.mem_map.mpr ⟨row', hm, rfl⟩

theorem KidF.root {h h' : Heap} {b : Batch} {rs : List (Option Nat)} {out : List PR} {split' : List (Nat × Rec)} {p : Nat}
    {row : Row} {ks : List Row} (hwf : b.WF h) (hvb : VB b rs) (hp : b.rows[p]? = some row)
    (hok : pcallOK b.active out = true)
    (hk : KidF h h' b out split' p row ks) {row' : Row} (hm : row' ∈ ks) : Mon.root row'.r = Mon.root row.r := by
  have hmem := mem_map_r hm
  rcases hk.recs with h1 | ⟨a, o, ha, ho, h1⟩
  · rw [h1, List.mem_singleton] at hmem; rw [hmem]
  · rw [h1] at hmem
    exact ok_outRecs hok (act_row hwf hvb ha hp).1 ho _ hmem

/-- the new tags of one record of a processor call -/
def seg (x : Rec × PR) : List Nat := ((outRecs x.2).map (·.tag)).filter (· != x.1.tag)

theorem newTags_eq (recs : List Rec) (out : List PR) : newTags recs out = (recs.zip out).flatMap seg := rfl

theorem fresh_unpack {seen : List Nat} {recs : List Rec} {out : List PR} (h : pcallFresh seen recs out = true) :
    (∀ x ∈ recs.zip out, ((outRecs x.2).map (·.tag)).Nodup) ∧ (newTags recs out).Nodup ∧
      ∀ t ∈ newTags recs out, t ∉ seen := by
  unfold pcallFresh at h
  simp only [Bool.and_eq_true, List.all_eq_true, decide_eq_true_eq, Bool.not_eq_true', List.contains_eq_mem,
    decide_eq_false_iff_not] at h
  exact ⟨h.1.1, h.1.2, h.2⟩

theorem flatMap_disj {α β} {l : List α} {f : α → List β} (hn : (l.flatMap f).Nodup) {i j : Nat} {x y : α}
    (hi : l[i]? = some x) (hj : l[j]? = some y) (hne : i ≠ j) {t : β} (h1 : t ∈ f x) (h2 : t ∈ f y) : False := by
  unfold List.Nodup at hn
  rw [List.pairwise_flatMap] at hn
  have hp := List.pairwise_iff_getElem.mp hn.2
  obtain ⟨hi1, hi2⟩ := List.getElem?_eq_some_iff.mp hi
  obtain ⟨hj1, hj2⟩ := List.getElem?_eq_some_iff.mp hj
  rcases Nat.lt_or_gt_of_ne hne with hlt | hlt
  · exact hp i j hi1 hj1 hlt t (by rw [hi2]; exact h1) t (by rw [hj2]; exact h2) rfl
  · exact hp j i hj1 hi1 hlt t (by rw [hj2]; exact h2) t (by rw [hi2]; exact h1) rfl

/-- the tag of a kid: the parent's, or one of the new tags of the parent's reply -/
theorem KidF.tag {h h' : Heap} {b : Batch} {rs : List (Option Nat)} {out : List PR} {split' : List (Nat × Rec)} {p : Nat}
    {row : Row} {ks : List Row} (hwf : b.WF h) (hvb : VB b rs) (hp : b.rows[p]? = some row)
    (hk : KidF h h' b out split' p row ks) {row' : Row} (hm : row' ∈ ks) :
    row'.r.tag = row.r.tag ∨
      ∃ (a : Nat) (x : Rec × PR), (actList b.st)[a]? = some p ∧ (b.active.zip out)[a]? = some x ∧ row'.r.tag ∈ seg x ∧
        row'.r.tag ∈ outTags b.active out := by
  have hmem := mem_map_r hm
  rcases hk.recs with h1 | ⟨a, o, ha, ho, h1⟩
  · rw [h1, List.mem_singleton] at hmem; left; rw [hmem]
  · rw [h1] at hmem
    by_cases he : row'.r.tag = row.r.tag
    · exact Or.inl he
    · right
      have hz : (b.active.zip out)[a]? = some (row.r, o) :=
        List.getElem?_zip_eq_some.mpr ⟨(act_row hwf hvb ha hp).1, ho⟩
      have hmt : row'.r.tag ∈ (outRecs o).map (·.tag) := List.mem_map.mpr ⟨_, hmem, rfl⟩
      refine ⟨a, (row.r, o), ha, hz, ?_, ?_⟩
      · unfold seg
        rw [List.mem_filter]
        exact ⟨hmt, by simpa using he⟩
      · unfold outTags
        rw [List.mem_flatMap]
        exact ⟨(row.r, o), List.mem_of_getElem? hz, hmt⟩

theorem mem_newTags {recs : List Rec} {out : List PR} {a : Nat} {x : Rec × PR} {t : Nat} (hz : (recs.zip out)[a]? = some x)
    (ht : t ∈ seg x) : t ∈ newTags recs out := by
  rw [newTags_eq, List.mem_flatMap]
  exact ⟨x, List.mem_of_getElem? hz, ht⟩

/-- the kids of one row carry distinct tags -/
theorem KidF.tags_nodup {h h' : Heap} {b : Batch} {rs : List (Option Nat)} {out : List PR} {split' : List (Nat × Rec)}
    {p : Nat} {row : Row} {ks : List Row} {seen : List Nat} (hwf : b.WF h) (hvb : VB b rs) (hp : b.rows[p]? = some row)
    (hfr : pcallFresh seen b.active out = true)
    (hk : KidF h h' b out split' p row ks) : (ks.map (·.r.tag)).Nodup := by
  have e : ks.map (·.r.tag) = (ks.map (·.r)).map (·.tag) := by rw [List.map_map]; rfl
  rw [e]
  rcases hk.recs with h1 | ⟨a, o, ha, ho, h1⟩
  · rw [h1]; simp
  · rw [h1]
    have hz : (b.active.zip out)[a]? = some (row.r, o) :=
      List.getElem?_zip_eq_some.mpr ⟨(act_row hwf hvb ha hp).1, ho⟩
    exact (fresh_unpack hfr).1 _ (List.mem_of_getElem? hz)

/-! ## the parent map -/

/-- the parent-map form of `ProcEff.kids`: `kids[p]` = the kids of row `p` -/
structure PMap (h h' : Heap) (b b1 : Batch) (out : List PR) (kids : List (List Row)) : Prop where
  len : kids.length = b.rows.length
  flat : b1.rows = kids.flatten
  kid : ∀ (p : Nat) (row : Row), b.rows[p]? = some row →
    ∃ ks, kids[p]? = some ks ∧ KidF h h' b out b1.split p row ks

theorem pmap_of_eff {h h' : Heap} {b b1 : Batch} {rs : List (Option Nat)} {out : List PR} (hwf : b.WF h) (hvb : VB b rs)
    (hpe : ProcEff h b (padOut b.nAct out) h' b1) : ∃ kids, PMap h h' b b1 out kids := by
  obtain ⟨kids, hl, hfl, hin, hac⟩ := hpe.kids
  refine ⟨kids, by rw [hl, rows_length], hfl, ?_⟩
  intro p row hp
  by_cases hm : p ∈ actList b.st
  · obtain ⟨a, ha⟩ := List.getElem?_of_mem hm
    have hal : a < (padOut b.nAct out).length := by
      rw [hpe.padlen]; exact (List.getElem?_eq_some_iff.mp ha).1
    obtain ⟨ks, h1, h2⟩ := hac a p row _ ha hp (List.getElem?_eq_getElem hal)
    exact ⟨ks, h1, kidF_active hwf hvb ha hp (List.getElem?_eq_getElem hal) h2⟩
  · exact ⟨[row], hin p row hp hm, kidF_inactive hm⟩

/-- the new source map: every kid gets the source of its parent -/
def smOf (kids : List (List Row)) (sm : List Nat) : List Nat :=
  (List.range kids.flatten.length).map fun k => (sm[parOf (kids.map List.length) k]?).getD 0

theorem smOf_length (kids : List (List Row)) (sm : List Nat) : (smOf kids sm).length = kids.flatten.length := by
  simp [smOf]

namespace PMap
variable {h h' : Heap} {b b1 : Batch} {out : List PR} {kids : List (List Row)}

theorem lens_get (_hm : PMap h h' b b1 out kids) {p : Nat} {ks : List Row} (hk : kids[p]? = some ks) :
    ∃ hp : p < (kids.map List.length).length, (kids.map List.length)[p] = ks.length := by
  obtain ⟨h1, h2⟩ := List.getElem?_eq_some_iff.mp hk
  exact ⟨by rw [List.length_map]; exact h1, by rw [List.getElem_map, h2]⟩

theorem lens_pos (hm : PMap h h' b b1 out kids) : ∀ x ∈ kids.map List.length, 1 ≤ x := by
  intro x hx
  obtain ⟨ks, hks, rfl⟩ := List.mem_map.mp hx
  obtain ⟨p, hp⟩ := List.getElem?_of_mem hks
  have hlt : p < b.rows.length := by rw [← hm.len]; exact (List.getElem?_eq_some_iff.mp hp).1
  obtain ⟨ks', h1, h2⟩ := hm.kid p _ (List.getElem?_eq_getElem hlt)
  rw [hp] at h1; cases h1
  cases ks with
  | nil => exact absurd rfl h2.ne
  | cons _ _ => simp

/-- every row of the new batch is a kid -/
theorem decode (hm : PMap h h' b b1 out kids) {sm : List Nat} (hsl : sm.length = b.rows.length) {k : Nat} {row' : Row}
    (hk : b1.rows[k]? = some row') :
    ∃ (p j : Nat) (row : Row) (ks : List Row) (q : Nat), b.rows[p]? = some row ∧ kids[p]? = some ks ∧ ks[j]? = some row' ∧
      k = off (kids.map List.length) p + j ∧ sm[p]? = some q ∧ (smOf kids sm)[k]? = some q ∧
      KidF h h' b out b1.split p row ks := by
  have hkl : k < kids.flatten.length := by rw [← hm.flat]; exact (List.getElem?_eq_some_iff.mp hk).1
  rw [hm.flat] at hk
  obtain ⟨p, j, ks, hp, h1, h2, h3⟩ := flatten_decode kids hk
  have hlt : p < b.rows.length := by rw [← hm.len]; exact (List.getElem?_eq_some_iff.mp h1).1
  obtain ⟨ks', g1, g2⟩ := hm.kid p _ (List.getElem?_eq_getElem hlt)
  rw [h1] at g1; cases g1
  have hq : p < sm.length := by rw [hsl]; exact hlt
  refine ⟨p, j, _, ks, sm[p], List.getElem?_eq_getElem hlt, h1, h2, h3, List.getElem?_eq_getElem hq, ?_, g2⟩
  unfold smOf
  rw [List.getElem?_map, List.getElem?_range hkl, Option.map_some, ← hp, List.getElem?_eq_getElem hq]
  rfl

/-- every kid is a row of the new batch -/
theorem encode (hm : PMap h h' b b1 out kids) {p j : Nat} {ks : List Row} {row' : Row} (h1 : kids[p]? = some ks)
    (h2 : ks[j]? = some row') : b1.rows[off (kids.map List.length) p + j]? = some row' := by
  rw [hm.flat]; exact flatten_off kids p j ks row' h1 h2

theorem adj (hm : PMap h h' b b1 out kids) {p p' j j' : Nat} {ks ks' : List Row} (h1 : kids[p]? = some ks)
    (h2 : kids[p']? = some ks') (hj : j < ks.length) (hj' : j' < ks'.length)
    (he : off (kids.map List.length) p + j + 1 = off (kids.map List.length) p' + j') :
    (p' = p ∧ j' = j + 1) ∨ (p' = p + 1 ∧ j' = 0 ∧ j + 1 = ks.length) := by
  obtain ⟨a1, a2⟩ := hm.lens_get h1
  obtain ⟨b1', b2⟩ := hm.lens_get h2
  have := off_adj hm.lens_pos a1 b1' (by rw [a2]; exact hj) (by rw [b2]; exact hj') he
  rw [a2] at this; exact this

theorem le_par (hm : PMap h h' b b1 out kids) {p p' j j' : Nat} {ks' : List Row}
    (h2 : kids[p']? = some ks') (hj' : j' < ks'.length)
    (he : off (kids.map List.length) p + j ≤ off (kids.map List.length) p' + j') : p ≤ p' := by
  obtain ⟨b1', b2⟩ := hm.lens_get h2
  exact off_le_par he b1' (by rw [b2]; exact hj')

/-- the same kid index determines the parent -/
theorem par_unique (hm : PMap h h' b b1 out kids) {p p' j j' : Nat} {ks ks' : List Row} (h1 : kids[p]? = some ks)
    (h2 : kids[p']? = some ks') (hj : j < ks.length) (hj' : j' < ks'.length)
    (he : off (kids.map List.length) p + j = off (kids.map List.length) p' + j') : p = p' ∧ j = j' := by
  have a := hm.le_par h2 hj' (Nat.le_of_eq he)
  have c := hm.le_par h1 hj (Nat.le_of_eq he.symm)
  have : p = p' := by omega
  subst this
  exact ⟨rfl, by omega⟩

theorem first (hm : PMap h h' b b1 out kids) {p j : Nat} (he : 0 = off (kids.map List.length) p + j)
    (hp : p < kids.length) : p = 0 ∧ j = 0 := by
  have := off_ge_idx hm.lens_pos p (by rw [List.length_map]; omega)
  omega

/-- the last row of the new batch is a kid of the last row of the old one -/
theorem last (hm : PMap h h' b b1 out kids) {p j : Nat} {ks : List Row} (h1 : kids[p]? = some ks) (hj : j < ks.length)
    (he : b1.rows.length - 1 = off (kids.map List.length) p + j) : p = b.rows.length - 1 := by
  have hp : p < kids.length := (List.getElem?_eq_some_iff.mp h1).1
  apply Classical.byContradiction
  intro hne
  have hp1 : p + 1 < kids.length := by rw [hm.len] at hp ⊢; omega
  have hlt : p + 1 < b.rows.length := by rw [← hm.len]; exact hp1
  obtain ⟨ks', g1, g2⟩ := hm.kid (p + 1) _ (List.getElem?_eq_getElem hlt)
  have hne' : 0 < ks'.length := by
    cases ks' with
    | nil => exact absurd rfl g2.ne
    | cons _ _ => simp
  have := hm.encode g1 (List.getElem?_eq_getElem hne')
  have hl := (List.getElem?_eq_some_iff.mp this).1
  obtain ⟨a1, a2⟩ := hm.lens_get h1
  have := off_succ a1
  rw [a2] at this
  omega

end PMap


/-! ## the situation after the call -/

/-- every run allocated by the call has a piece in the new batch -/
def FreshRuns (h h' : Heap) (b1 : Batch) : Prop := ∀ rid : Nat, h.size ≤ rid → rid < h'.size → 0 < cnt rid b1.view

/-- everything that is known when `procDo` has returned `b1` (`kids` = the kids of the rows of `b`) -/
structure PC (G : Ctx) (s s' : PS) (pre sub : List Nat) (rest : Nat → Nat) (doom : Nat → Prop) (nx : Nat)
    (b : Batch) (sm : List Nat) (out : List PR) (b1 : Batch) (kids : List (List Row)) (rs rs1 : List (Option Nat)) : Prop where
  src : Src G
  fl : Flight G s pre pre True sub rest doom nx b sm 0
  haf : FlagsAF b
  vb : VB b rs
  vb1 : VB b1 rs1
  pstep : PStep (G.mu s) (G.mu s') b.active out
  ok : pcallOK b.active out = true
  fresh : pcallFresh (Seen G s) b.active out = true
  seen : Seen G s' = Seen G s ++ outTags b.active out
  na : nAcked s' = nAcked s
  ginv : GInv G s'
  pm : PMap s.heap s'.heap b b1 out kids
  ss : SStep s.heap b s'.heap b1 rest
  hold : ∀ rid : Nat, rid < s.heap.size →
    ∃ t : Nat, (s.heap[rid]!).total ≤ t ∧ s'.heap[rid]! = { (s.heap[rid]!) with total := t }
  split : ∀ e ∈ b1.split, e ∈ b.split ∨ ∃ row ∈ b.rows, row.run = none ∧ e = (keyOf row.pos, row.r)
  nosplit1 : NoSplitKey b1
  newrun : FreshRuns s.heap s'.heap b1
  taint : TaintC b → TaintC b1

theorem lt_of_get {α} {l : List α} {j : Nat} {x : α} (h : l[j]? = some x) : j < l.length :=
  (List.getElem?_eq_some_iff.mp h).1

namespace PC
variable {G : Ctx} {s s' : PS} {pre sub : List Nat} {rest : Nat → Nat} {doom : Nat → Prop} {nx : Nat}
  {b : Batch} {sm : List Nat} {out : List PR} {b1 : Batch} {kids : List (List Row)} {rs rs1 : List (Option Nat)}

theorem wf (C : PC G s s' pre sub rest doom nx b sm out b1 kids rs rs1) : b.WF s.heap := C.fl.tinv.wf

theorem wf1 (C : PC G s s' pre sub rest doom nx b sm out b1 kids rs rs1) : b1.WF s'.heap := C.ss.inv.wf

theorem smlen (C : PC G s s' pre sub rest doom nx b sm out b1 kids rs rs1) : sm.length = b.rows.length :=
  C.fl.srcmap.len

/-- an existing run only has its total raised -/
theorem old_run (C : PC G s s' pre sub rest doom nx b sm out b1 kids rs rs1) {rid : Nat} (hlt : rid < s.heap.size) :
    (s'.heap[rid]!).origPos = (s.heap[rid]!).origPos ∧ (s'.heap[rid]!).origRec = (s.heap[rid]!).origRec ∧
    (s'.heap[rid]!).terminal = (s.heap[rid]!).terminal ∧ (s'.heap[rid]!).nacked = (s.heap[rid]!).nacked := by
  obtain ⟨t, _, ht⟩ := C.hold rid hlt
  rw [ht]
  exact ⟨rfl, rfl, rfl, rfl⟩

theorem dec (C : PC G s s' pre sub rest doom nx b sm out b1 kids rs rs1) {k : Nat} {row' : Row}
    (hk : b1.rows[k]? = some row') :
    ∃ (p j : Nat) (row : Row) (ks : List Row) (q : Nat), b.rows[p]? = some row ∧ kids[p]? = some ks ∧ ks[j]? = some row' ∧
      k = off (kids.map List.length) p + j ∧ sm[p]? = some q ∧ (smOf kids sm)[k]? = some q ∧
      KidF s.heap s'.heap b out b1.split p row ks :=
  C.pm.decode C.smlen hk

theorem row1 (C : PC G s s' pre sub rest doom nx b sm out b1 kids rs rs1) {k q : Nat}
    (hq : (smOf kids sm)[k]? = some q) : ∃ row', b1.rows[k]? = some row' := by
  have := lt_of_get hq
  rw [smOf_length, ← C.pm.flat] at this
  exact ⟨_, List.getElem?_eq_getElem this⟩

/-- the key the ledger forwards for a kid is the parent's -/
theorem kid_key (C : PC G s s' pre sub rest doom nx b sm out b1 kids rs rs1) {p : Nat} {row row' : Row} {ks : List Row}
    (hp : b.rows[p]? = some row) (hk : KidF s.heap s'.heap b out b1.split p row ks) (hm : row' ∈ ks) :
    rowKey s'.heap row' = rowKey s.heap row := by
  rcases hk.run row' hm with h1 | ⟨rid, h1, h2, _, _, _, h6, _⟩
  · cases hr : row.run with
    | none =>
      rw [hr] at h1
      rw [rowKey_none h1, rowKey_none hr, hk.pos row' hm h1]
    | some rid =>
      rw [hr] at h1
      rw [rowKey_run h1, rowKey_run hr, (C.old_run (row_run_lt C.wf C.vb hp hr)).1]
  · rw [rowKey_run h1, rowKey_none h2, h6]

/-- the new source map -/
theorem srcmap1 (C : PC G s s' pre sub rest doom nx b sm out b1 kids rs rs1) :
    SrcMap G s'.heap b1 (smOf kids sm) := by
  have hm := C.fl.srcmap
  refine ⟨by rw [smOf_length, C.pm.flat], ?_, ?_, ?_⟩
  · intro k q q' h1 h2
    obtain ⟨row', hk⟩ := C.row1 h1
    obtain ⟨row'', hk1⟩ := C.row1 h2
    obtain ⟨p, j, row, ks, q0, a1, a2, a3, a4, a5, a6, a7⟩ := C.dec hk
    obtain ⟨p', j', rowp, ks', q1, c1, c2, c3, c4, c5, c6, c7⟩ := C.dec hk1
    rw [h1] at a6; cases a6
    rw [h2] at c6; cases c6
    rcases C.pm.adj a2 c2 (lt_of_get a3) (lt_of_get c3) (by omega) with ⟨e1, _⟩ | ⟨e1, _, _⟩
    · subst e1; rw [a5] at c5; cases c5; exact Or.inl rfl
    · subst e1; exact hm.step p q q' a5 c5
  · intro k row' q hk hq
    obtain ⟨p, j, row, ks, q0, a1, a2, a3, a4, a5, a6, a7⟩ := C.dec hk
    rw [hq] at a6; cases a6
    obtain ⟨src, g1, g2, g3⟩ := hm.key p row q a1 a5
    have hmem := List.mem_of_getElem? a3
    exact ⟨src, g1, by rw [C.kid_key a1 a7 hmem]; exact g2,
      by rw [a7.root C.wf C.vb a1 C.ok hmem]; exact g3⟩
  · intro k row' row'' q hk hk1 hq hq1
    obtain ⟨p, j, row, ks, q0, a1, a2, a3, a4, a5, a6, a7⟩ := C.dec hk
    obtain ⟨p', j', rowp, ks', q1, c1, c2, c3, c4, c5, c6, c7⟩ := C.dec hk1
    rw [hq] at a6; cases a6
    rw [hq1] at c6; cases c6
    rcases C.pm.adj a2 c2 (lt_of_get a3) (lt_of_get c3) (by omega) with ⟨e1, e2⟩ | ⟨e1, _, _⟩
    · subst e1
      rw [a2] at c2; cases c2
      have hl := lt_of_get c3
      obtain ⟨rid, hr⟩ := a7.runs_same (by omega)
      exact ⟨rid, hr _ (List.mem_of_getElem? a3), hr _ (List.mem_of_getElem? c3)⟩
    · subst e1
      obtain ⟨rid, r1, r2⟩ := hm.same p row rowp q a1 c1 a5 c5
      exact ⟨rid, a7.keep (List.mem_of_getElem? a3) r1, c7.keep (List.mem_of_getElem? c3) r2⟩

end PC


namespace PC
variable {G : Ctx} {s s' : PS} {pre sub : List Nat} {rest : Nat → Nat} {doom : Nat → Prop} {nx : Nat}
  {b : Batch} {sm : List Nat} {out : List PR} {b1 : Batch} {kids : List (List Row)} {rs rs1 : List (Option Nat)}

/-- the last row of the new batch is a kid of the last row of the old one -/
theorem last_kid (C : PC G s s' pre sub rest doom nx b sm out b1 kids rs rs1) {row' : Row}
    (h : b1.rows.getLast? = some row') :
    ∃ (p : Nat) (row : Row) (ks : List Row) (q : Nat), b.rows.getLast? = some row ∧ b.rows[p]? = some row ∧ row' ∈ ks ∧
      sm.getLast? = some q ∧ (smOf kids sm).getLast? = some q ∧ KidF s.heap s'.heap b out b1.split p row ks := by
  rw [List.getLast?_eq_getElem?] at h
  obtain ⟨p, j, row, ks, q, a1, a2, a3, a4, a5, a6, a7⟩ := C.dec h
  have hp := C.pm.last a2 (lt_of_get a3) a4
  refine ⟨p, row, ks, q, ?_, a1, List.mem_of_getElem? a3, ?_, ?_, a7⟩
  · rw [List.getLast?_eq_getElem?, ← hp]; exact a1
  · rw [List.getLast?_eq_getElem?, C.smlen, ← hp]; exact a5
  · rw [List.getLast?_eq_getElem?, smOf_length, ← C.pm.flat]; exact a6

theorem nextok1 (C : PC G s s' pre sub rest doom nx b sm out b1 kids rs rs1) : NextOK rest b1 (smOf kids sm) nx := by
  intro row' q hl hq
  obtain ⟨p, row, ks, q', g1, g2, g3, g4, g5, g6⟩ := C.last_kid hl
  rw [hq] at g5; cases g5
  rcases C.fl.nextok row q g1 g4 with ⟨e1, rid, e2, e3⟩ | ⟨e1, e2⟩
  · exact Or.inl ⟨e1, rid, g6.keep g3 e2, e3⟩
  · refine Or.inr ⟨e1, ?_⟩
    intro rid hr
    by_cases hlt : rid < s.heap.size
    · exact e2 rid (g6.old g3 hr hlt)
    · exact C.fl.tinv.restok rid (by omega)

theorem restlast1 (C : PC G s s' pre sub rest doom nx b sm out b1 kids rs rs1) : RestLast rest b1 := by
  intro rid hrest hcnt
  have hlt : rid < s.heap.size := by
    apply Classical.byContradiction
    intro hge
    have := C.fl.tinv.restok rid (by omega)
    omega
  obtain ⟨k, row', hk, hr⟩ := row_of_cnt_pos C.vb1 hcnt
  obtain ⟨p, j, row, ks, q, a1, a2, a3, a4, a5, a6, a7⟩ := C.dec hk
  have hrow := a7.old (List.mem_of_getElem? a3) hr hlt
  obtain ⟨rowL, hL, hLr⟩ := C.fl.restlast rid hrest (cnt_pos_of_row C.vb a1 hrow)
  have hne : b1.rows.length - 1 < b1.rows.length := by have := lt_of_get hk; omega
  have hl1 : b1.rows.getLast? = some b1.rows[b1.rows.length - 1] := by
    rw [List.getLast?_eq_getElem?]; exact List.getElem?_eq_getElem hne
  obtain ⟨pL, rowL', ksL, qL, g1, g2, g3, g4, g5, g6⟩ := C.last_kid hl1
  rw [hL] at g1; cases g1
  exact ⟨_, hl1, g6.keep g3 hLr⟩

theorem splitlin1 (C : PC G s s' pre sub rest doom nx b sm out b1 kids rs rs1) : SplitLin G b1 := by
  intro e he src hsrc hkey
  rcases C.split e he with h1 | ⟨row, hrow, hrun, rfl⟩
  · exact C.fl.splitlin e h1 src hsrc hkey
  · obtain ⟨p, hp⟩ := List.getElem?_of_mem hrow
    obtain ⟨q, src', g1, g2, g3, g4⟩ := sm_src C.fl.srcmap hp
    rw [rowKey_none hrun] at g3
    obtain ⟨i, hi⟩ := List.getElem?_of_mem hsrc
    have : i = q := C.src.idx_of_key hi g2 (by rw [hkey]; exact g3)
    subst this
    rw [hi] at g2; cases g2
    exact g4

theorem hlin1 (C : PC G s s' pre sub rest doom nx b sm out b1 kids rs rs1) : HLin G s'.heap := by
  intro rid hlt
  by_cases hold : rid < s.heap.size
  · obtain ⟨src, h1, h2, h3⟩ := C.fl.hlin rid hold
    obtain ⟨e1, e2, _⟩ := C.old_run hold
    exact ⟨src, h1, by rw [e1]; exact h2, by rw [e2]; exact h3⟩
  · obtain ⟨k, row', hk, hr⟩ := row_of_cnt_pos C.vb1 (C.newrun rid (by omega) hlt)
    obtain ⟨p, j, row, ks, q, a1, a2, a3, a4, a5, a6, a7⟩ := C.dec hk
    obtain ⟨hrun, _, _, _, hop, hor, _⟩ := a7.new C.wf C.vb a1 (List.mem_of_getElem? a3) hr (by omega)
    obtain ⟨q', src, g1, g2, g3, g4⟩ := sm_src C.fl.srcmap a1
    rw [rowKey_none hrun] at g3
    have hmem : src ∈ G.all := List.mem_of_getElem? g2
    refine ⟨src, hmem, by rw [hop]; exact g3.symm, ?_⟩
    rcases hor with h1 | ⟨e, he, h1, h2⟩
    · rw [h1]; exact g4
    · rw [h2]; exact C.splitlin1 e he src hmem (by rw [h1]; exact g3.symm)

theorem touch_mono (C : PC G s s' pre sub rest doom nx b sm out b1 kids rs rs1) {ρ : Nat}
    (h : Touch G.tree (G.mu s) ρ) : Touch G.tree (G.mu s') ρ := by
  intro d hd
  rcases h d hd with ⟨e, h1, h2⟩ | h1
  · exact Or.inl ⟨e, by rw [C.pstep.wr]; exact h1, h2⟩
  · exact Or.inr (by rw [C.pstep.fil]; exact List.mem_append_left _ h1)

theorem htouch1 (C : PC G s s' pre sub rest doom nx b sm out b1 kids rs rs1) : HTouch G (G.mu s') s'.heap := by
  intro rid hlt hterm hnack
  by_cases hold : rid < s.heap.size
  · obtain ⟨_, e2, e3, e4⟩ := C.old_run hold
    rw [e3] at hterm
    rw [e4] at hnack
    rw [e2]
    exact C.touch_mono (C.fl.htouch rid hold hterm hnack)
  · obtain ⟨k, row', hk, hr⟩ := row_of_cnt_pos C.vb1 (C.newrun rid (by omega) hlt)
    obtain ⟨p, j, row, ks, q, a1, a2, a3, a4, a5, a6, a7⟩ := C.dec hk
    obtain ⟨_, _, _, _, _, _, _, ht⟩ := a7.new C.wf C.vb a1 (List.mem_of_getElem? a3) hr (by omega)
    omega

end PC


theorem nodup_get_ne {α} {l : List α} (hn : l.Nodup) {i j : Nat} {x y : α} (hi : l[i]? = some x) (hj : l[j]? = some y)
    (hne : i ≠ j) : x ≠ y := by
  have hp := List.pairwise_iff_getElem.mp hn
  obtain ⟨hi1, hi2⟩ := List.getElem?_eq_some_iff.mp hi
  obtain ⟨hj1, hj2⟩ := List.getElem?_eq_some_iff.mp hj
  rcases Nat.lt_or_gt_of_ne hne with hlt | hlt
  · have := hp i j hi1 hj1 hlt; rw [hi2, hj2] at this; exact this
  · have := hp j i hj1 hi1 hlt; rw [hi2, hj2] at this; exact fun h => this h.symm

namespace PC
variable {G : Ctx} {s s' : PS} {pre sub : List Nat} {rest : Nat → Nat} {doom : Nat → Prop} {nx : Nat}
  {b : Batch} {sm : List Nat} {out : List PR} {b1 : Batch} {kids : List (List Row)} {rs rs1 : List (Option Nat)}

theorem row_af (C : PC G s s' pre sub rest doom nx b sm out b1 kids rs rs1) {p : Nat} {row : Row}
    (hp : b.rows[p]? = some row) : row.st.flag = .ack ∨ row.st.flag = .filter :=
  C.haf p row.st (rows_fields C.vb hp).2.1

/-- a root errored by the call is the root of the source of an active row answered by `.error` -/
theorem err_row (C : PC G s s' pre sub rest doom nx b sm out b1 kids rs rs1) {ρ : Nat}
    (h : ρ ∈ erroredBy b.active out) :
    ∃ (a pe : Nat) (e : Option Err) (rowe : Row) (qe : Nat) (srce : Rec), (actList b.st)[a]? = some pe ∧
      out[a]? = some (.error e) ∧ b.rows[pe]? = some rowe ∧ sm[pe]? = some qe ∧ G.all[qe]? = some srce ∧
      Mon.root srce = ρ := by
  obtain ⟨a, r, e, h1, h2, h3⟩ := mem_erroredBy h
  obtain ⟨pe, rowe, g1, g2, g3, _⟩ := active_row C.wf C.vb h1
  obtain ⟨qe, srce, f1, f2, _, f4⟩ := sm_src C.fl.srcmap g2
  exact ⟨a, pe, e, rowe, qe, srce, g1, h2, g2, f1, f2, by rw [h3, ← g3, f4]⟩

theorem ci1 (C : PC G s s' pre sub rest doom nx b sm out b1 kids rs rs1) : CI (G.mu s') s'.heap doom b1 0 := by
  intro rid hcnt hnc
  rw [List.drop_zero] at hcnt
  obtain ⟨k, row', hk, hr⟩ := row_of_cnt_pos C.vb1 hcnt
  obtain ⟨p, j, row, ks, q, a1, a2, a3, a4, a5, a6, a7⟩ := C.dec hk
  have hmem := List.mem_of_getElem? a3
  obtain ⟨src, g1, _, _⟩ := C.srcmap1.key k row' q hk a6
  have hρ : Mon.root (s'.heap[rid]!).origRec = Mon.root src :=
    sm_run_src C.srcmap1 C.src C.hlin1 (row_run_lt C.wf1 C.vb1 hk hr) a6 hk hr g1
  rw [hρ] at hnc
  by_cases herr : Mon.root src ∈ erroredBy b.active out
  · obtain ⟨a, pe, e, rowe, qe, srce, e1, e2, e3, e4, e5, e6⟩ := C.err_row herr
    have : qe = q := C.src.idx_of_root e5 g1 e6
    subst this
    by_cases hpe : pe = p
    · subst hpe
      exact Or.inr (Or.inr ⟨k, row', Nat.zero_le _, hk, hr, (a7.err a e e1 e2 row' hmem).1⟩)
    · obtain ⟨rid0, r1, r2⟩ := sm_same_run C.fl.srcmap hpe e4 a5 e3 a1
      have := a7.keep hmem r2
      rw [hr] at this; cases this
      obtain ⟨kse, f1, f2⟩ := C.pm.kid pe rowe e3
      have hne : 0 < kse.length := by
        cases kse with
        | nil => exact absurd rfl f2.ne
        | cons _ _ => simp
      have hk0 : kse[0]? = some kse[0] := List.getElem?_eq_getElem hne
      obtain ⟨n1, n2⟩ := f2.err a e e1 e2 _ (List.mem_of_getElem? hk0)
      exact Or.inr (Or.inr ⟨_, _, Nat.zero_le _, C.pm.encode f1 hk0, by rw [n2]; exact r1, n1⟩)
  · have hnc0 : ¬ Clean (G.mu s) (Mon.root src) := fun hc => hnc (C.pstep.clean hc herr)
    by_cases hlt : rid < s.heap.size
    · have hrow := a7.old hmem hr hlt
      obtain ⟨_, e2, _, e4⟩ := C.old_run hlt
      rw [← hρ, e2] at hnc0
      rcases C.fl.ci rid (by rw [List.drop_zero]; exact cnt_pos_of_row C.vb a1 hrow) hnc0 with h1 | h1 | ⟨k2, row2, _, h2, _, h4⟩
      · exact Or.inl (by rw [e4]; exact h1)
      · exact Or.inr (Or.inl h1)
      · rcases C.row_af h2 with h5 | h5 <;> rw [h4] at h5 <;> cases h5
    · obtain ⟨hrn, _⟩ := a7.new C.wf C.vb a1 hmem hr (by omega)
      have hfl : row.st.flag ≠ .nack := by
        intro h4
        rcases C.row_af a1 with h5 | h5 <;> rw [h4] at h5 <;> cases h5
      exact absurd (C.fl.facts.clean p row q src (Nat.zero_le _) a1 a5 g1 hrn hfl) hnc0

theorem reach_mono (C : PC G s s' pre sub rest doom nx b sm out b1 kids rs rs1) {ρ : Nat}
    (h : Reach (G.mu s) pre ρ) : Reach (G.mu s') pre ρ := by
  intro d hd
  obtain ⟨e, h1, h2⟩ := h d hd
  exact ⟨e, by rw [C.pstep.wr]; exact h1, h2⟩

/-- a kid that is not filtered has a parent flagged `ack` -/
theorem parent_ack (C : PC G s s' pre sub rest doom nx b sm out b1 kids rs rs1) {p : Nat} {row row' : Row} {ks : List Row}
    (hp : b.rows[p]? = some row) (hk : KidF s.heap s'.heap b out b1.split p row ks) (hm : row' ∈ ks)
    (hf : row'.st.flag ≠ .filter) : row.st.flag = .ack :=
  (C.row_af hp).resolve_right (hk.flag1 row' hm hf)

theorem facts1 (C : PC G s s' pre sub rest doom nx b sm out b1 kids rs rs1) :
    FactsS G (G.mu s') pre pre True b1 (smOf kids sm) 0 := by
  refine ⟨?_, ?_, ?_, ?_⟩
  · intro k row' q src _ hk hq hsrc hflag
    obtain ⟨p, j, row, ks, q0, a1, a2, a3, a4, a5, a6, a7⟩ := C.dec hk
    rw [hq] at a6; cases a6
    have hack := C.parent_ack a1 a7 (List.mem_of_getElem? a3) (by rw [hflag]; intro hh; cases hh)
    exact C.reach_mono (C.fl.facts.ack p row q src (Nat.zero_le _) a1 a5 hsrc hack)
  · intro k row' q src _ hk hq hsrc hflag
    obtain ⟨p, j, row, ks, q0, a1, a2, a3, a4, a5, a6, a7⟩ := C.dec hk
    rw [hq] at a6; cases a6
    rw [C.pstep.fil]
    rcases a7.flag2 row' (List.mem_of_getElem? a3) hflag with h1 | ⟨a, o, ha, ho, hoo⟩
    · exact List.mem_append_left _ (C.fl.facts.fil p row q src (Nat.zero_le _) a1 a5 hsrc h1)
    · obtain ⟨src', g1, _, g3⟩ := C.fl.srcmap.key p row q a1 a5
      rw [hsrc] at g1; cases g1
      rw [← g3]
      exact List.mem_append_right _ (filteredBy_mem (act_row C.wf C.vb ha a1).1 ho hoo)
  · intro k row' q src _ hk hq hsrc hflag
    obtain ⟨p, j, row, ks, q0, a1, a2, a3, a4, a5, a6, a7⟩ := C.dec hk
    rw [hq] at a6; cases a6
    have hack := C.parent_ack a1 a7 (List.mem_of_getElem? a3) (by rw [hflag]; intro hh; cases hh)
    exact ⟨C.reach_mono (C.fl.facts.ack p row q src (Nat.zero_le _) a1 a5 hsrc hack), trivial⟩
  · intro k row' q src _ hk hq hsrc hrun hflag
    obtain ⟨p, j, row, ks, q0, a1, a2, a3, a4, a5, a6, a7⟩ := C.dec hk
    rw [hq] at a6; cases a6
    have hmem := List.mem_of_getElem? a3
    obtain ⟨hrn, _⟩ := a7.none hmem hrun
    have hfl : row.st.flag ≠ .nack := by
      intro h4
      rcases C.row_af a1 with h5 | h5 <;> rw [h4] at h5 <;> cases h5
    refine C.pstep.clean (C.fl.facts.clean p row q src (Nat.zero_le _) a1 a5 hsrc hrn hfl) ?_
    intro herr
    obtain ⟨a, pe, e, rowe, qe, srce, e1, e2, e3, e4, e5, e6⟩ := C.err_row herr
    have : qe = q := C.src.idx_of_root e5 hsrc e6
    subst this
    have := sm_own_src C.fl.srcmap hrn a5 e4 a1
    subst this
    exact hflag (a7.err a e e1 e2 row' hmem).1

theorem tags1 (C : PC G s s' pre sub rest doom nx b sm out b1 kids rs rs1) : TagsF G s' sub b1 0 := by
  obtain ⟨_, hnd, hnew⟩ := fresh_unpack C.fresh
  refine ⟨?_, ?_, ?_⟩
  · apply List.pairwise_iff_getElem.mpr
    intro i j hi hj hij
    rw [List.length_map] at hi hj
    rw [List.getElem_map, List.getElem_map]
    obtain ⟨p, j1, row, ks, q, a1, a2, a3, a4, a5, a6, a7⟩ := C.dec (List.getElem?_eq_getElem hi)
    obtain ⟨p', j2, rowp, ks', q', c1, c2, c3, c4, c5, c6, c7⟩ := C.dec (List.getElem?_eq_getElem hj)
    generalize b1.rows[i] = x at a3 ⊢
    generalize b1.rows[j] = y at c3 ⊢
    by_cases hpp : p = p'
    · subst hpp
      rw [a2] at c2; cases c2
      have hne : j1 ≠ j2 := by omega
      have hn := a7.tags_nodup C.wf C.vb a1 C.fresh
      exact nodup_get_ne hn (by rw [List.getElem?_map, a3]; rfl) (by rw [List.getElem?_map, c3]; rfl) hne
    · have hold : row.r.tag ≠ rowp.r.tag :=
        nodup_get_ne C.fl.tags.nodup (by rw [List.getElem?_map, a1]; rfl) (by rw [List.getElem?_map, c1]; rfl) hpp
      have hs1 := C.fl.tags.seen p row (Nat.zero_le _) a1
      have hs2 := C.fl.tags.seen p' rowp (Nat.zero_le _) c1
      rcases a7.tag C.wf C.vb a1 (List.mem_of_getElem? a3) with t1 | ⟨a, x1, t1, t2, t3, _⟩ <;>
      rcases c7.tag C.wf C.vb c1 (List.mem_of_getElem? c3) with u1 | ⟨a', x2, u1, u2, u3, _⟩
      · rw [t1, u1]; exact hold
      · rw [t1]; intro he
        exact hnew _ (mem_newTags u2 u3) (by rw [← he]; exact hs1)
      · rw [u1]; intro he
        exact hnew _ (mem_newTags t2 t3) (by rw [he]; exact hs2)
      · intro he
        have hne : a ≠ a' := by
          intro h; subst h
          rw [t1] at u1; cases u1; exact hpp rfl
        rw [newTags_eq] at hnd
        exact flatMap_disj hnd t2 u2 hne t3 (by rw [he]; exact u3)
  · intro k row' _ hk
    obtain ⟨p, j, row, ks, q, a1, a2, a3, a4, a5, a6, a7⟩ := C.dec hk
    rw [C.seen]
    rcases a7.tag C.wf C.vb a1 (List.mem_of_getElem? a3) with t1 | ⟨a, x1, _, _, _, t4⟩
    · rw [t1]; exact List.mem_append_left _ (C.fl.tags.seen p row (Nat.zero_le _) a1)
    · exact List.mem_append_right _ t4
  · intro k row' _ hk hflag
    obtain ⟨p, j, row, ks, q, a1, a2, a3, a4, a5, a6, a7⟩ := C.dec hk
    have hmem := List.mem_of_getElem? a3
    intro e he hsub
    rw [C.pstep.wr] at he
    rcases a7.tag C.wf C.vb a1 hmem with t1 | ⟨a, x1, _, t2, t3, _⟩
    · rw [t1]
      have hack := C.parent_ack a1 a7 hmem (by rcases hflag with h | h <;> rw [h] <;> intro hh <;> cases hh)
      exact C.fl.tags.unw p row (Nat.zero_le _) a1 (Or.inl hack) e he hsub
    · intro heq
      exact hnew _ (mem_newTags t2 t3) (by rw [← heq]; exact C.fl.wseen e he)

theorem flagsAF1 (C : PC G s s' pre sub rest doom nx b sm out b1 kids rs rs1) (ht : b1.tainted = false) : FlagsAF b1 := by
  have hb : TaintC b := by
    intro st hst hf
    obtain ⟨q, hq⟩ := List.getElem?_of_mem hst
    rcases C.haf q st hq with h | h <;> rcases hf with h' | h' <;> rw [h] at h' <;> cases h'
  have h1 := C.taint hb
  intro q st hst
  have := h1 st (List.mem_of_getElem? hst)
  rw [ht] at this
  cases hf : st.flag with
  | ack => exact Or.inl rfl
  | filter => exact Or.inr rfl
  | nack => exact absurd (this (Or.inl hf)) (by simp)
  | retry => exact absurd (this (Or.inr hf)) (by simp)

/-- the roots of the active records are roots of sources of the batch -/
theorem active_root (C : PC G s s' pre sub rest doom nx b sm out b1 kids rs rs1) {a : Nat} {r : Rec}
    (h : b.active[a]? = some r) : RootsOf G sm 0 (Mon.root r) := by
  obtain ⟨p, row, _, g2, g3, _⟩ := active_row C.wf C.vb h
  obtain ⟨q, src, f1, f2, _, f4⟩ := sm_src C.fl.srcmap g2
  exact ⟨p, q, src, Nat.zero_le _, f1, f2, by rw [← f4, g3]⟩

theorem ext1 (C : PC G s s' pre sub rest doom nx b sm out b1 kids rs rs1) :
    Ext (RootsOf G sm 0) (G.mu s) (G.mu s') := by
  have hp := C.pstep
  refine ⟨?_, ?_, ?_, ?_, ?_, ?_, ?_, ?_, ?_, ?_⟩ <;> intro x hx
  · rw [hp.fil]; exact List.mem_append_left _ hx
  · rw [hp.fil] at hx
    rcases List.mem_append.mp hx with h1 | h1
    · exact Or.inl h1
    · obtain ⟨k, r, o, h1, _, h3⟩ := mem_filteredBy h1
      rw [h3]; exact Or.inr (C.active_root h1)
  · rw [hp.err]; exact List.mem_append_left _ hx
  · rw [hp.err] at hx
    rcases List.mem_append.mp hx with h1 | h1
    · exact Or.inl h1
    · obtain ⟨k, r, e, h1, _, h3⟩ := mem_erroredBy h1
      rw [h3]; exact Or.inr (C.active_root h1)
  · rw [hp.wr]; exact hx
  · rw [hp.wr] at hx; exact Or.inl hx
  · rw [hp.any]; exact hx
  · rw [hp.any] at hx; exact Or.inl hx
  · rw [hp.ok]; exact hx
  · rw [hp.ok] at hx; exact Or.inl hx

theorem steprel (C : PC G s s' pre sub rest doom nx b sm out b1 kids rs rs1) :
    StepRel G s b sm s' b1 (smOf kids sm) := by
  refine ⟨C.na, C.ext1, ?_, ?_, ?_, ?_, ?_, C.ss.hsize, C.ss.hframe, ?_, C.ss.mono⟩
  · rintro ρ ⟨k, q, src, _, h1, h2, h3⟩
    obtain ⟨row', hk⟩ := C.row1 h1
    obtain ⟨p, j, row, ks, q0, a1, a2, a3, a4, a5, a6, a7⟩ := C.dec hk
    rw [h1] at a6; cases a6
    exact ⟨p, q, src, Nat.zero_le _, a5, h2, h3⟩
  · rw [smOf_length, List.length_flatten, sum_eq_zero_iff C.pm.lens_pos, List.length_map, C.pm.len, C.smlen]
  · intro row' hm
    obtain ⟨k, hk⟩ := List.getElem?_of_mem hm
    obtain ⟨p, j, row, ks, q, a1, a2, a3, a4, a5, a6, a7⟩ := C.dec hk
    rcases a7.tag C.wf C.vb a1 (List.mem_of_getElem? a3) with t1 | ⟨a, x1, _, t2, t3, _⟩
    · exact Or.inl ⟨row, List.mem_of_getElem? a1, t1.symm⟩
    · exact Or.inr ((fresh_unpack C.fresh).2.2 _ (mem_newTags t2 t3))
  · intro e he
    rw [C.pstep.wr] at he; exact Or.inl he
  · intro x hx
    rw [C.seen]; exact List.mem_append_left _ hx
  · intro rid hlt
    obtain ⟨e1, e2, _⟩ := C.old_run hlt
    exact ⟨e1, e2⟩

theorem flight1 (C : PC G s s' pre sub rest doom nx b sm out b1 kids rs rs1) :
    Flight G s' pre pre True sub rest doom nx b1 (smOf kids sm) 0 where
  ginv := C.ginv
  wseen := by
    intro e he
    rw [C.pstep.wr] at he
    rw [C.seen]; exact List.mem_append_left _ (C.fl.wseen e he)
  tinv := C.ss.inv.tinv
  srcmap := C.srcmap1
  front := by
    intro q hq
    obtain ⟨row', hk⟩ := C.row1 hq
    obtain ⟨p, j, row, ks, q0, a1, a2, a3, a4, a5, a6, a7⟩ := C.dec hk
    rw [hq] at a6; cases a6
    obtain ⟨hp0, _⟩ := C.pm.first a4 (lt_of_get a2)
    subst hp0
    rw [C.na]; exact C.fl.front q a5
  nextok := C.nextok1
  restlast := C.restlast1
  hdoom := C.fl.hdoom
  hlin := C.hlin1
  htouch := C.htouch1
  ci := C.ci1
  splitlin := C.splitlin1
  nosplit := C.nosplit1
  facts := C.facts1
  tags := C.tags1
  below := by
    intro e he hsub
    rw [C.pstep.wr] at he
    rw [C.na]; exact C.fl.below e he hsub

end PC


/-! ## two facts about `procDoP` that `ProcEff` does not state

`ProcEff` says nothing about heap entries allocated by the call that no kid refers to, and its `split`
field does not say that the row of a new split-map entry was actually split. Both facts are needed
(`HLin` / `HTouch` quantify over the whole heap; `NoSplitKey` of the new batch), so they are proved here
directly from `procDoP`, by re-running the chain of `procDoP_srel` (Proofs/PassSTask.lean) with the
stronger step relation `NRel`. -/

/-- `SplitRecord`: a run allocated by the call has a piece in the new batch -/
theorem splitRecord_fresh {h h' : Heap} {b b' : Batch} {i : Nat} {recs : List Rec} {rest : Nat → Nat}
    (hi : SInv h rest b) (hr : b.splitRecord h i recs = .ok (h', b')) : FreshRuns h h' b' := by
  have hwf := hi.wf
  obtain ⟨rs, hruns⟩ := hi.runs
  have hin := splitRecord_inrange hwf hr
  have hphys := phys_ok hwf.2 hin
  have h2 : (actList b.st)[i] < b.st.length := actList_lt hin
  generalize (actList b.st)[i] = p at hphys h2
  have h1 : p < b.recs.length := by rw [← hwf.1.st_len]; exact h2
  have h3 : p < b.pos.length := by rw [hwf.1.pos_len]; exact h1
  have hro := hwf.1.runs_ok
  rw [hruns] at hro
  have hrl : rs.length = b.pos.length := by rw [hro.1, hwf.1.pos_len]
  have hp : p < rs.length := by omega
  have hdec := view_decomp b rs hruns hrl p hp
  cases hrp : rs[p] with
  | some rid =>
    have e3 := splitRecord_existing (h := h) (recs := recs) hphys h1 h2 h3 hruns
      (by rw [List.getElem?_eq_getElem hp, hrp])
    rw [e3] at hr
    have e4 : h' = (splitTail h b p rid recs).1 := by cases hr; rfl
    have hsz : h'.size = h.size := by
      rw [e4]; show (h.set! rid _).size = h.size
      rw [heap_set!_size]
    intro r hge hlt
    omega
  | none =>
    have hpos : b.pos[p]? ≠ some none := by
      have hmem : (rs[p], b.pos[p]) ∈ b.view := by rw [hdec]; simp
      have := hi.nopos _ hmem hrp
      rw [List.getElem?_eq_getElem h3]
      intro he; exact this (Option.some.inj he)
    have e3 := splitRecord_new (h := h) (recs := recs) hphys h1 h2 h3
      (fun rs' hrs' => by
        rw [hruns] at hrs'; cases hrs'
        exact ⟨hro.1, by rw [List.getElem?_eq_getElem hp, hrp]⟩) hpos
    rw [e3] at hr
    have e4 : h' = (splitTail (h.push (newRun b p)) (withNewRun b p h.size) p h.size recs).1 ∧
        b' = (splitTail (h.push (newRun b p)) (withNewRun b p h.size) p h.size recs).2 := by
      cases hr; exact ⟨rfl, rfl⟩
    obtain ⟨rfl, rfl⟩ := e4
    have hwr : (withNewRun b p h.size).runs = some (rs.set p (some h.size)) := by
      unfold withNewRun; simp [hruns]
    have hwp : (withNewRun b p h.size).pos = b.pos := rfl
    have hview := splitTail_view (h.push (newRun b p)) (withNewRun b p h.size) p h.size recs (rs.set p (some h.size))
      hwr (by rw [List.length_set, hwp]; exact hrl) (by rw [List.length_set]; exact hp)
    have hse : (rs.set p (some h.size))[p]'(by rw [List.length_set]; exact hp) = some h.size := by simp
    rw [hse] at hview
    have hsz : (splitTail (h.push (newRun b p)) (withNewRun b p h.size) p h.size recs).1.size = h.size + 1 := by
      show ((h.push (newRun b p)).set! h.size _).size = h.size + 1
      rw [heap_set!_size]; simp
    intro r hge hlt
    rw [hsz] at hlt
    have : r = h.size := by omega
    subst this
    rw [hview, cnt_append, cnt_cons_some]
    simp only [if_true]
    omega

/-! ### the split map and the rows without run -/

/-- the position keys of the pieces without run -/
def nkeys (l : List Piece) : List Nat :=
  l.filterMap fun x => match x.1 with | none => some (keyOf x.2) | some _ => none

theorem nkeys_append (l1 l2 : List Piece) : nkeys (l1 ++ l2) = nkeys l1 ++ nkeys l2 := by
  unfold nkeys; rw [List.filterMap_append]

theorem nkeys_cons_none (q : PosV) (t : List Piece) : nkeys ((none, q) :: t) = keyOf q :: nkeys t := by
  unfold nkeys; rw [List.filterMap_cons]

theorem nkeys_cons_some (r : Nat) (q : PosV) (t : List Piece) : nkeys ((some r, q) :: t) = nkeys t := by
  unfold nkeys; rw [List.filterMap_cons]

theorem nkeys_replicate (n r : Nat) (q : PosV) : nkeys (List.replicate n ((some r, q) : Piece)) = [] := by
  unfold nkeys; rw [List.filterMap_replicate]

theorem mem_nkeys {l : List Piece} {k : Nat} : k ∈ nkeys l ↔ ∃ x ∈ l, x.1 = none ∧ keyOf x.2 = k := by
  unfold nkeys
  rw [List.mem_filterMap]
  constructor
  · rintro ⟨x, hx, h⟩
    obtain ⟨ro, q⟩ := x
    cases ro with
    | none => exact ⟨_, hx, rfl, by simpa using h⟩
    | some r => simp at h
  · rintro ⟨x, hx, h1, h2⟩
    obtain ⟨ro, q⟩ := x
    simp only at h1 h2
    subst h1
    exact ⟨_, hx, by simp [h2]⟩

/-- the batch form of `NoSplitKey`, with "rows without run have distinct keys" -/
def NSK (c : Batch) : Prop := (∀ k ∈ nkeys c.view, lookup c.split k = none) ∧ (nkeys c.view).Nodup

theorem lookup_append_none {m : List (Nat × Rec)} {k k' : Nat} {r : Rec} (h : lookup m k = none) (hne : k' ≠ k) :
    lookup (m ++ [(k', r)]) k = none := by
  unfold lookup at h ⊢
  rw [Option.map_eq_none_iff] at h ⊢
  rw [List.find?_append, h]
  simp [hne]

/-- `SplitRecord` keeps `NSK` -/
theorem splitRecord_nsk {h h' : Heap} {b b' : Batch} {i : Nat} {recs : List Rec} {rest : Nat → Nat}
    (hi : SInv h rest b) (hr : b.splitRecord h i recs = .ok (h', b')) (hk : NSK b) : NSK b' := by
  have hwf := hi.wf
  obtain ⟨rs, hruns⟩ := hi.runs
  have hin := splitRecord_inrange hwf hr
  have hphys := phys_ok hwf.2 hin
  have h2 : (actList b.st)[i] < b.st.length := actList_lt hin
  generalize (actList b.st)[i] = p at hphys h2
  have h1 : p < b.recs.length := by rw [← hwf.1.st_len]; exact h2
  have h3 : p < b.pos.length := by rw [hwf.1.pos_len]; exact h1
  have hro := hwf.1.runs_ok
  rw [hruns] at hro
  have hrl : rs.length = b.pos.length := by rw [hro.1, hwf.1.pos_len]
  have hp : p < rs.length := by omega
  have hdec := view_decomp b rs hruns hrl p hp
  obtain ⟨hk1, hk2⟩ := hk
  cases hrp : rs[p] with
  | some rid =>
    have e3 := splitRecord_existing (h := h) (recs := recs) hphys h1 h2 h3 hruns
      (by rw [List.getElem?_eq_getElem hp, hrp])
    rw [e3] at hr
    have e4 : b' = (splitTail h b p rid recs).2 := by cases hr; rfl
    have hview := splitTail_view h b p rid recs rs hruns hrl hp
    rw [hrp] at hview hdec
    have hsp : b'.split = b.split := by rw [e4]; rfl
    have hnk : nkeys b'.view = nkeys b.view := by
      rw [e4, hview]
      conv => rhs; rw [hdec]
      simp only [nkeys_append, nkeys_cons_some, nkeys_replicate, List.nil_append]
    unfold NSK
    rw [hnk, hsp]
    exact ⟨hk1, hk2⟩
  | none =>
    have hpos : b.pos[p]? ≠ some none := by
      have hmem : (rs[p], b.pos[p]) ∈ b.view := by rw [hdec]; simp
      have := hi.nopos _ hmem hrp
      rw [List.getElem?_eq_getElem h3]
      intro he; exact this (Option.some.inj he)
    have e3 := splitRecord_new (h := h) (recs := recs) hphys h1 h2 h3
      (fun rs' hrs' => by
        rw [hruns] at hrs'; cases hrs'
        exact ⟨hro.1, by rw [List.getElem?_eq_getElem hp, hrp]⟩) hpos
    rw [e3] at hr
    have e4 : b' = (splitTail (h.push (newRun b p)) (withNewRun b p h.size) p h.size recs).2 := by
      cases hr; rfl
    have hwr : (withNewRun b p h.size).runs = some (rs.set p (some h.size)) := by
      unfold withNewRun; simp [hruns]
    have hwp : (withNewRun b p h.size).pos = b.pos := rfl
    have hview := splitTail_view (h.push (newRun b p)) (withNewRun b p h.size) p h.size recs (rs.set p (some h.size))
      hwr (by rw [List.length_set, hwp]; exact hrl) (by rw [List.length_set]; exact hp)
    have hwv := withNewRun_view b p h.size rs hruns hrl hp
    have hlenA : (b.view.take p).length = p := by simp [Batch.view, hruns]; omega
    obtain ⟨hA, hB⟩ := take_drop_decomp (b.view.take p) (b.view.drop (p+1)) ((some h.size, b.pos[p]) : Piece) p hlenA
    rw [hwv, hA, hB] at hview
    have hse : (rs.set p (some h.size))[p]'(by rw [List.length_set]; exact hp) = some h.size := by simp
    rw [hse] at hview
    rw [hrp] at hdec
    have hnk : nkeys b'.view = nkeys (b.view.take p) ++ nkeys (b.view.drop (p+1)) := by
      rw [e4, hview]
      simp only [nkeys_append, nkeys_cons_some, nkeys_replicate, List.nil_append]
    have hnk0 : nkeys b.view = nkeys (b.view.take p) ++ keyOf b.pos[p] :: nkeys (b.view.drop (p+1)) := by
      conv => lhs; rw [hdec]
      rw [nkeys_append, nkeys_cons_none]
    rw [hnk0] at hk1 hk2
    have hnd := List.nodup_append.mp hk2
    have hnc := List.nodup_cons.mp hnd.2.1
    have hkey : lookup b.split (keyOf b.pos[p]) = none := hk1 _ (by simp)
    have hsp : b'.split = b.split ++ [(keyOf b.pos[p], b.recs[p]?.getD default)] := by
      rw [e4]
      show (withNewRun b p h.size).split = _
      unfold withNewRun
      simp only [List.getElem?_eq_getElem h3, Option.getD_some, hkey, Option.isNone_none, if_true]
    unfold NSK
    rw [hnk, hsp]
    refine ⟨?_, ?_⟩
    · intro k hkm
      rcases List.mem_append.mp hkm with hm | hm
      · exact lookup_append_none (hk1 k (by simp [hm])) (fun he => hnd.2.2 k hm _ (by simp) he.symm)
      · exact lookup_append_none (hk1 k (by simp [hm])) (fun he => hnc.1 (by rw [he]; exact hm))
    · exact List.nodup_append.mpr ⟨hnd.1, hnc.2, fun a ha c hc => hnd.2.2 a ha c (List.mem_cons_of_mem _ hc)⟩

/-- a step relation: the ledger step `SRel`; the runs it allocates have pieces; `NSK` is kept -/
def NRel (x y : Heap × Batch) : Prop :=
  ∀ rest : Nat → Nat, SInv x.1 rest x.2 →
    SStep x.1 x.2 y.1 y.2 rest ∧ FreshRuns x.1 y.1 y.2 ∧ (NSK x.2 → NSK y.2)

theorem NRel.refl (x : Heap × Batch) : NRel x x :=
  fun rest hi => ⟨SRel.refl x rest hi, fun rid h1 h2 => by omega, id⟩

theorem NRel.trans (x y z : Heap × Batch) (h1 : NRel x y) (h2 : NRel y z) : NRel x z := by
  intro rest hi
  obtain ⟨s1, f1, k1⟩ := h1 rest hi
  obtain ⟨s2, f2, k2⟩ := h2 rest s1.inv
  refine ⟨SRel.trans x y z (fun r hr => (h1 r hr).1) (fun r hr => (h2 r hr).1) rest hi, ?_, fun hk => k2 (k1 hk)⟩
  intro rid hge hlt
  by_cases hy : rid < y.1.size
  · have := f1 rid hge hy
    have := s2.mono rid
    omega
  · exact f2 rid (by omega) hlt

/-- a mutator that keeps positions, runs, the split map and the heap -/
theorem NRel.of_fr {h : Heap} {b b' : Batch} (hf : Fr b b') (hwf : b.WF h → b'.WF h) : NRel (h, b) (h, b') := by
  intro rest hi
  have hv : b'.view = b.view := by unfold Batch.view; rw [hf.runs, hf.pos]
  refine ⟨SRel.of_fr' hf hwf rest hi, fun rid h1 h2 => by simp only at h1 h2; omega, ?_⟩
  intro hk
  show NSK b'
  unfold NSK
  rw [hv, hf.split]
  exact hk

theorem procMultiStep_nrel {from_ : Nat} {records : List PR} {hb hb' : Heap × Batch} {i : Nat}
    (h : procMultiStep from_ records hb i = .ok hb') : NRel hb hb' := by
  have hsrel := procMultiStep_srel h
  obtain ⟨hp, b⟩ := hb
  unfold procMultiStep at h
  split at h
  · rename_i m hm
    split at h
    · obtain ⟨b1, h1, h2⟩ := bind_ok h
      cases h2
      exact NRel.of_fr (filter1_fr h1) (fun hwf => C08_aligned_filter1 hwf h1)
    · obtain ⟨b1, h1, h2⟩ := bind_ok h
      cases h2
      exact NRel.of_fr (setRecords_fr h1) (fun hwf => (C08_aligned_setRecords hwf h1).1)
    · obtain ⟨h'', b''⟩ := hb'
      exact fun rest hi => ⟨hsrel rest hi, splitRecord_fresh hi h, splitRecord_nsk hi h⟩
  · cases h; exact NRel.refl _

theorem procMarkP_nrel {hb hb' : Heap × Batch} {from_ : Nat} {records : List PR}
    (h : procMarkP hb from_ records = .ok hb') : NRel hb hb' := by
  obtain ⟨hp, b⟩ := hb
  unfold procMarkP at h
  split at h
  · cases h; exact NRel.refl _
  · obtain ⟨b1, h1, h2⟩ := bind_ok h
    cases h2; exact NRel.of_fr (setRecords_fr h1) (fun hwf => (C08_aligned_setRecords hwf h1).1)
  · obtain ⟨b1, h1, h2⟩ := bind_ok h
    cases h2; exact NRel.of_fr (filterRange_fr h1) (fun hwf => C08_aligned_filterRange hwf h1)
  · obtain ⟨b1, h1, h2⟩ := bind_ok h
    cases h2
    refine NRel.of_fr (nack_fr' ?_ h1) (fun hwf => C08_aligned_nack hwf h1)
    intro e he
    rw [List.mem_filterMap] at he
    obtain ⟨pr, _, hpr⟩ := he
    cases pr <;> simp at hpr
    rw [← hpr]; rfl
  · exact foldlM_rel NRel NRel.refl NRel.trans _ _ (fun _ _ _ _ hst => procMultiStep_nrel hst) _ _ h
  · obtain ⟨b1, h1, h2⟩ := bind_ok h
    cases h2; exact NRel.of_fr (retry_fr h1) (fun hwf => C08_aligned_retry hwf h1)

theorem procGroupStep_nrel {out : List PR} {s s' : (Heap × Batch) × Nat} {i : Nat}
    (h : procGroupStep out s i = .ok s') : NRel s.1 s'.1 := by
  unfold procGroupStep at h
  dsimp only at h
  split at h
  · obtain ⟨hb, h1, h2⟩ := bind_ok h
    cases h2
    exact procMarkP_nrel h1
  · cases h; exact NRel.refl _

/-- NOT STATED BY `ProcEff`: every run allocated by the call has a piece in the new batch, and the
batch form of `NoSplitKey` is kept. -/
theorem procDoP_nrel {h h' : Heap} {b b' : Batch} {out : List PR}
    (hr : procDoP h b out = .ok (h', b')) : NRel (h, b) (h', b') := by
  by_cases h0 : out.length = 0
  · have : out = [] := List.length_eq_zero_iff.mp h0
    subst this
    rw [procDoP_empty] at hr; cases hr
  · by_cases h1 : out.length > b.active.length
    · rw [procDoP_too_many h b out h1] at hr; cases hr
    · rw [procDoP_eq h b out h0 h1] at hr
      obtain ⟨_, _, h2⟩ := bind_ok hr
      obtain ⟨s, h3, h4⟩ := bind_ok h2
      have h5 : s.1 = (h', b') := Except.ok.inj h4
      have := foldlM_rel (fun (x y : (Heap × Batch) × Nat) => NRel x.1 y.1) (fun x => NRel.refl x.1)
        (fun a b c => NRel.trans a.1 b.1 c.1) (procGroupStep (padOut b.active.length out)) _
        (fun _ _ _ _ hst => procGroupStep_nrel hst) _ _ h3
      rw [h5] at this
      exact this

/-- `NSK` of a batch in flight, from `NoSplitKey` and the source map -/
theorem nsk_of_flight {G : Ctx} (hs : Src G) {h : Heap} {b : Batch} {rs : List (Option Nat)} {sm : List Nat}
    (hvb : VB b rs) (hm : SrcMap G h b sm) (hn : NoSplitKey b) : NSK b := by
  refine ⟨?_, ?_⟩
  · intro k hk
    obtain ⟨x, hx, h1, h2⟩ := mem_nkeys.mp hk
    obtain ⟨i, hi⟩ := List.getElem?_of_mem hx
    obtain ⟨row, g1, g2, g3⟩ := view_rows hvb hi
    have := hn i row g1 (by rw [g2, h1])
    rw [g3, h2] at this
    exact this
  · unfold nkeys
    refine List.Pairwise.filterMap (R := fun x y => x.1 = none → y.1 = none → keyOf x.2 ≠ keyOf y.2) _ ?_ ?_
    · intro x y hR k hk k' hk'
      obtain ⟨ro, q⟩ := x
      obtain ⟨ro', q'⟩ := y
      cases ro with
      | some r => simp at hk
      | none =>
        cases ro' with
        | some r => simp at hk'
        | none =>
          simp only [Option.some.injEq] at hk hk'
          rw [← hk, ← hk']
          exact hR rfl rfl
    · apply List.pairwise_iff_getElem.mpr
      intro i j hi hj hij h1 h2 hke
      obtain ⟨row, g1, g2, g3⟩ := view_rows hvb (List.getElem?_eq_getElem hi)
      obtain ⟨row', f1, f2, f3⟩ := view_rows hvb (List.getElem?_eq_getElem hj)
      rw [← g2] at h1
      rw [← f2] at h2
      obtain ⟨q, src, a1, a2, a3, _⟩ := sm_src hm g1
      obtain ⟨q', src', c1, c2, c3, _⟩ := sm_src hm f1
      rw [rowKey_none h1, g3] at a3
      rw [rowKey_none h2, f3] at c3
      have : q = q' := hs.idx_of_key a2 c2 (by rw [← a3, ← c3]; exact hke)
      subst this
      have := sm_own_src hm h1 a1 c1 g1
      omega

theorem noSplitKey_of_nsk {b : Batch} {rs : List (Option Nat)} (hvb : VB b rs) (hk : NSK b) : NoSplitKey b := by
  intro k row hrow hrun
  apply hk.1
  rw [mem_nkeys]
  exact ⟨(row.run, row.pos), List.mem_of_getElem? (rows_view hvb hrow), hrun, rfl⟩


end SProc

/-- A processor task on a batch in flight whose reply keeps the roots (`RP`) and obeys the tag
discipline (`FT`): the `.pcall` event never makes the monitor fire; when the task returns a batch, it
is in flight again (with a source map `sm1` for its rows), and the step is framed by `StepRel`. -/
theorem procDo_monS (hE : ProcEffStmt) {G : Ctx} (hs : Src G) {s s' : PS} {r : Except Stop Batch} {b : Batch} {task : Nat}
    {pre sub : List Nat} {rest : Nat → Nat} {doom : Nat → Prop} {nx : Nat} {sm : List Nat}
    (hF : Flight G s pre pre True sub rest doom nx b sm 0)
    (hcl : b.tainted = false) (haf : FlagsAF b)
    (h : exec (procDo task b) s = (r, s')) (hrp : RP G s') (hft : FT G s') :
    (G.mu s').tv = [] ∧
    ∀ b1, r = .ok b1 →
      ∃ sm1, Flight G s' pre pre True sub rest doom nx b1 sm1 0 ∧ StepRel G s b sm s' b1 sm1 ∧
        (b1.tainted = false → FlagsAF b1) := by
  have _ := hcl
  have hI := hF.ginv
  have hsinv : SInv s.heap rest b := SProc.tinv_sinv hF.tinv
  obtain ⟨hq, hss⟩ := procDo_sspec task b s s' r rest hsinv h
  obtain ⟨hp, h1, h2⟩ := procDo_shape task b s
  rw [h1] at h
  obtain ⟨hr, hs'⟩ := Prod.mk.inj h
  have hlog : s'.log = s.log.push (.pcall task b.active) := by rw [← hs']
  have hscr : s'.scripts = popScripts s.scripts task := by rw [← hs']
  have hheap : s'.heap = hp := by rw [← hs']
  have hmu : G.mu s' = pcallT G.scripts (G.mu s) task b.active := mu_push G s s' _ hlog
  rw [pcallT_eq] at hmu
  have hok := hrp.pcall task b.active hlog
  have hfr := hft.pcall task b.active hlog
  have hseen := Seen.push_pcall (G := G) task b.active hlog
  rw [hI.sc.nextReply] at hr h2
  generalize procOut (replyOfCall G.scripts task (callNoL (G.mu s).calls task)) = out at hmu hok hfr hseen hr h2
  have hstep : PStep (G.mu s) (G.mu s') b.active out := by rw [hmu]; exact ⟨rfl, rfl, rfl, rfl, rfl⟩
  have hna : nAcked s' = nAcked s := by
    unfold nAcked
    rw [hlog, ackedKeys_push]
    simp [evKeys]
  have hwr : (G.mu s').written = (G.mu s).written := hstep.wr
  refine ⟨by rw [hmu]; exact hI.safe, ?_⟩
  intro b1 hb1
  have hginv : GInv G s' := by
    refine ⟨by rw [hmu]; exact hI.safe, hI.sc.event (.pcall task b.active) task rfl hlog hscr, ?_, ?_, ?_, ?_⟩
    · rw [hna, ← hI.acked, hlog, ackedKeys_push]
      simp [evKeys]
    · intro x hx
      rw [hstep.any] at hx
      rw [hna]; exact hI.dlqAny x hx
    · intro x hx
      rw [hstep.ok] at hx
      rw [hna]; exact hI.dlqOk x hx
    · intro e he
      rw [hwr] at he
      exact hI.wr e he
  have hss1 := hss b1 hb1
  cases hP : procDoP s.heap b out with
  | error e => rw [hP, hb1] at hr; cases hr
  | ok x =>
    obtain ⟨h', b''⟩ := x
    rw [hP, hb1] at hr
    have hbb : b'' = b1 := Except.ok.inj hr
    subst hbb
    have hh' : hp = h' := h2 h' b'' hP
    rw [hh'] at hheap
    rw [← hheap] at hP
    obtain ⟨hpe, _, _⟩ := hE hsinv.wf hsinv.runs hP
    obtain ⟨rs, hvb⟩ := hsinv.vb
    obtain ⟨rs1, hvb1⟩ := hss1.inv.vb
    obtain ⟨kids, hpm⟩ := SProc.pmap_of_eff hsinv.wf hvb hpe
    have hnr := SProc.procDoP_nrel hP rest hsinv
    have C : SProc.PC G s s' pre sub rest doom nx b sm out b'' kids rs rs1 :=
      { src := hs, fl := hF, haf := haf, vb := hvb, vb1 := hvb1, pstep := hstep, ok := hok, fresh := hfr, seen := hseen,
        na := hna, ginv := hginv, pm := hpm, ss := hss1, hold := hpe.hold,
        split := hpe.split, nosplit1 := SProc.noSplitKey_of_nsk hvb1 (hnr.2.2 (SProc.nsk_of_flight hs hvb hF.srcmap hF.nosplit)),
        newrun := hnr.2.1, taint := hpe.taint }
    exact ⟨SProc.smOf kids sm, C.flight1, C.steprel, C.flagsAF1⟩

end Conduit.Funnel
