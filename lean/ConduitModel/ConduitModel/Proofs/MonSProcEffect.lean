import ConduitModel.Proofs.MonSRows

/-!
# Exact effect of `ProcessorTask.Do` (pure core `procDoP`) on the rows of a batch, splits included
-/
namespace Conduit.Funnel

/-! ## generic list facts -/

/-- pointwise relation of two lists of the same length -/
def RelL {α} (R : α → α → Prop) (l l' : List α) : Prop :=
  l.length = l'.length ∧ ∀ (y : Nat) (a a' : α), l[y]? = some a → l'[y]? = some a' → R a a'

theorem RelL.refl {α} {R : α → α → Prop} (hR : ∀ a, R a a) (l : List α) : RelL R l l :=
  ⟨rfl, fun y a a' h1 h2 => by rw [h1] at h2; cases h2; exact hR a⟩

/-- a list pointwise related to a flattened list of lists has the same shape -/
theorem reshape {α} {R : α → α → Prop} (kids : List (List α)) : ∀ (l' : List α), RelL R kids.flatten l' →
    ∃ kids' : List (List α), l' = kids'.flatten ∧ kids'.length = kids.length ∧
      ∀ (j : Nat) (ks : List α), kids[j]? = some ks → ∃ ks', kids'[j]? = some ks' ∧ RelL R ks ks' := by
  induction kids with
  | nil =>
    intro l' h
    have h1 := h.1
    simp only [List.flatten_nil, List.length_nil] at h1
    refine ⟨[], ?_, rfl, by simp⟩
    simp only [List.flatten_nil]
    exact List.length_eq_zero_iff.mp h1.symm
  | cons ks rest ih =>
    intro l' h
    have hl : ks.length + rest.flatten.length = l'.length := by
      have := h.1
      simpa using this
    obtain ⟨kids', e1, e2, e3⟩ := ih (l'.drop ks.length) ⟨by simp only [List.length_drop]; omega, by
      intro y a a' h1 h2
      rw [List.getElem?_drop] at h2
      refine h.2 (ks.length + y) a a' ?_ h2
      simp only [List.flatten_cons]
      rw [List.getElem?_append_right (by omega)]
      rw [show ks.length + y - ks.length = y by omega]
      exact h1⟩
    refine ⟨l'.take ks.length :: kids', ?_, by simp [e2], ?_⟩
    · simp only [List.flatten_cons, ← e1, List.take_append_drop]
    · intro j ks0 hj
      cases j with
      | zero =>
        simp only [List.getElem?_cons_zero, Option.some.injEq] at hj
        subst hj
        refine ⟨_, rfl, by simp only [List.length_take]; omega, ?_⟩
        intro y a a' h1 h2
        rw [List.getElem?_take] at h2
        have hy : y < ks.length := (List.getElem?_eq_some_iff.mp h1).1
        simp only [hy, if_true] at h2
        refine h.2 y a a' ?_ h2
        simp only [List.flatten_cons]
        rw [List.getElem?_append_left hy]
        exact h1
      | succ j =>
        simp only [List.getElem?_cons_succ] at hj ⊢
        exact e3 j ks0 hj

/-- reading `l[:q] ++ m ++ l[q+1:]` -/
theorem splice1 {α} (L m : List α) (q : Nat) (hq : q < L.length) (x : Nat) :
    (L.take q ++ m ++ L.drop (q+1))[x]? =
      if x < q then L[x]? else if x < q + m.length then m[x - q]? else L[x + 1 - m.length]? := by
  have hl : (L.take q).length = q := by simp; omega
  rw [List.append_assoc, List.getElem?_append, hl]
  by_cases h1 : x < q
  · simp only [h1, if_true, List.getElem?_take]
  · simp only [h1, if_false]
    rw [List.getElem?_append]
    by_cases h2 : x < q + m.length
    · have : x - q < m.length := by omega
      simp only [this, h2, if_true]
    · have : ¬ x - q < m.length := by omega
      simp only [this, h2, if_false, List.getElem?_drop]
      congr 1; omega

/-- reading `l[:q+1] ++ replicate (n-1) d ++ l[q+1:]` -/
theorem splice2 {α} (L : List α) (d : α) (q n : Nat) (hq : q < L.length) (hn : 1 ≤ n) (x : Nat) :
    (L.take (q+1) ++ List.replicate (n - 1) d ++ L.drop (q+1))[x]? =
      if x < q then L[x]? else if x < q + n then some (if x = q then L[q] else d) else L[x + 1 - n]? := by
  rw [take_succ_eq L q hq]
  have : L.take q ++ [L[q]] ++ List.replicate (n - 1) d ++ L.drop (q+1) =
      L.take q ++ (L[q] :: List.replicate (n - 1) d) ++ L.drop (q+1) := by
    simp only [List.append_assoc, List.cons_append, List.nil_append]
  rw [this, splice1 L _ q hq]
  have hlen : (L[q] :: List.replicate (n - 1) d).length = n := by simp; omega
  rw [hlen]
  by_cases h1 : x < q
  · simp only [h1, if_true]
  · simp only [h1, if_false]
    by_cases h2 : x < q + n
    · simp only [h2, if_true]
      by_cases h3 : x = q
      · subst h3; simp
      · simp only [h3, if_false]
        have : x - q = (x - q - 1) + 1 := by omega
        rw [this, List.getElem?_cons_succ, List.getElem?_replicate]
        have : x - q - 1 < n - 1 := by omega
        simp only [this, if_true]
    · simp only [h2, if_false]

theorem lookup_some {m : List (Nat × Rec)} {k : Nat} {r : Rec} (h : lookup m k = some r) :
    ∃ e ∈ m, e.1 = k ∧ e.2 = r := by
  unfold lookup at h
  cases hf : m.find? (·.1 == k) with
  | none => rw [hf] at h; cases h
  | some e =>
    rw [hf] at h
    simp only [Option.map_some, Option.some.injEq] at h
    have h1 := List.find?_some hf
    have h2 := List.mem_of_find?_eq_some hf
    exact ⟨e, h2, by simpa using h1, h⟩

/-! ## rows -/

/-- the row at physical index `k` (defaults out of range) -/
def Batch.rowAt (c : Batch) (k : Nat) : Row :=
  { r := c.recs[k]?.getD default, st := c.st[k]?.getD default, pos := (c.pos[k]?).getD none, run := c.runAt k }

theorem rows_eq (c : Batch) : c.rows = (List.range c.recs.length).map c.rowAt := rfl

theorem length_rows (c : Batch) : c.rows.length = c.recs.length := by simp [rows_eq]

theorem getElem?_rows (c : Batch) (k : Nat) :
    c.rows[k]? = if k < c.recs.length then some (c.rowAt k) else none := by
  rw [rows_eq, List.getElem?_map]
  by_cases hk : k < c.recs.length
  · simp [hk]
  · simp [hk]

theorem rows_drop (c : Batch) {x : Nat} (hx : x < c.recs.length) :
    c.rows.drop x = c.rowAt x :: c.rows.drop (x+1) := by
  have hx' : x < c.rows.length := by rw [length_rows]; exact hx
  rw [List.drop_eq_getElem_cons hx']
  congr 1
  have := getElem?_rows c x
  rw [List.getElem?_eq_getElem hx'] at this
  simp only [hx, if_true, Option.some.injEq] at this
  exact this

/-- `row'` is `row` up to a nack that spread over it (never over a filtered row) -/
def NW (row row' : Row) : Prop :=
  row'.r = row.r ∧ row'.pos = row.pos ∧ row'.run = row.run ∧
    (row'.st = row.st ∨ (row.st.flag ≠ .filter ∧ row'.st.flag = .nack))

theorem NW.refl (row : Row) : NW row row := ⟨rfl, rfl, rfl, Or.inl rfl⟩

theorem NW.trans {a b c : Row} (h1 : NW a b) (h2 : NW b c) : NW a c := by
  obtain ⟨a1, a2, a3, a4⟩ := h1
  obtain ⟨b1, b2, b3, b4⟩ := h2
  refine ⟨b1.trans a1, b2.trans a2, b3.trans a3, ?_⟩
  rcases b4 with b4 | ⟨b4, b5⟩
  · rw [b4]; exact a4
  · rcases a4 with a4 | ⟨a4, a5⟩
    · rw [a4] at b4; exact Or.inr ⟨b4, b5⟩
    · exact Or.inr ⟨a4, b5⟩

theorem NW.eq_of_filter {a b : Row} (h : NW a b) (hf : a.st.flag = .filter) : b = a := by
  obtain ⟨a1, a2, a3, a4⟩ := h
  rcases a4 with a4 | ⟨a4, _⟩
  · cases a; cases b; simp_all
  · exact absurd hf a4

theorem NW.flagOK {a b : Row} (h : NW a b) {f : Flag} (hf : FlagOK f a.st) : FlagOK f b.st := by
  rcases h.2.2.2 with h1 | ⟨_, h1⟩
  · rw [h1]; exact hf
  · exact Or.inr h1

theorem NW.eq_with {a b : Row} (h : NW a b) : b = { a with st := b.st } := by
  obtain ⟨a1, a2, a3, _⟩ := h
  cases a; cases b; simp_all

theorem RelL.single {R : Row → Row → Prop} {x : Row} {ks' : List Row} (h : RelL R [x] ks') :
    ∃ x', ks' = [x'] ∧ R x x' := by
  have hl := h.1
  cases ks' with
  | nil => simp at hl
  | cons x' t =>
    cases t with
    | nil => exact ⟨x', rfl, h.2 0 x x' rfl rfl⟩
    | cons _ _ => simp at hl

/-! ## the heap only has totals raised -/

def HStep (h1 h2 : Heap) : Prop :=
  h1.size ≤ h2.size ∧
    ∀ rid : Nat, rid < h1.size → ∃ t : Nat, (h1[rid]!).total ≤ t ∧ h2[rid]! = { (h1[rid]!) with total := t }

theorem HStep.refl (h : Heap) : HStep h h := ⟨Nat.le_refl _, fun _ _ => ⟨_, Nat.le_refl _, rfl⟩⟩

theorem HStep.trans {h1 h2 h3 : Heap} (a : HStep h1 h2) (b : HStep h2 h3) : HStep h1 h3 := by
  refine ⟨Nat.le_trans a.1 b.1, fun rid hr => ?_⟩
  obtain ⟨t1, l1, e1⟩ := a.2 rid hr
  obtain ⟨t2, l2, e2⟩ := b.2 rid (Nat.lt_of_lt_of_le hr a.1)
  rw [e1] at e2 l2
  exact ⟨t2, Nat.le_trans l1 l2, e2⟩

theorem NewRun.mono {h h1 h2 : Heap} {s1 s2 : List (Nat × Rec)} {row : Row} {rid : Nat}
    (hn : NewRun h h1 s1 row rid) (hs : HStep h1 h2) (hsub : ∀ e ∈ s1, e ∈ s2) : NewRun h h2 s2 row rid := by
  rcases hn with hn | ⟨n1, n2, n3, n4, n5, n6, n7, n8, n9⟩
  · exact Or.inl hn
  · obtain ⟨t, _, ht⟩ := hs.2 rid n3
    refine Or.inr ⟨n1, n2, Nat.lt_of_lt_of_le n3 hs.1, n4, ?_, ?_, ?_, ?_, ?_⟩ <;> rw [ht]
    · exact n5
    · rcases n6 with n6 | ⟨e, he, g1, g2⟩
      · exact Or.inl n6
      · exact Or.inr ⟨e, hsub e he, g1, g2⟩
    · exact n7
    · exact n8
    · exact n9

theorem getElem?_pieceRows (row : Row) (rid : Nat) (ms : List Rec) (sts : List Status) (j : Nat) :
    (pieceRows row rid ms sts)[j]? = if j < ms.length then
      some { r := ms[j]?.getD default, st := sts[j]?.getD default, pos := if j = 0 then row.pos else none, run := some rid }
      else none := by
  unfold pieceRows
  rw [List.getElem?_map]
  by_cases hj : j < ms.length
  · simp [hj]
  · simp [hj]

theorem length_pieceRows (row : Row) (rid : Nat) (ms : List Rec) (sts : List Status) :
    (pieceRows row rid ms sts).length = ms.length := by simp [pieceRows]

theorem pieceRows_weaken {row : Row} {rid : Nat} {ms : List Rec} {sts : List Status} {ks' : List Row}
    (hl : sts.length = ms.length) (h : RelL NW (pieceRows row rid ms sts) ks') :
    ∃ sts' : List Status, sts'.length = ms.length ∧ ks' = pieceRows row rid ms sts' ∧
      ∀ (j : Nat) (st' : Status), sts'[j]? = some st' → ∃ st, sts[j]? = some st ∧
        (st' = st ∨ st'.flag = .nack) := by
  have hlen : ks'.length = ms.length := by rw [← h.1, length_pieceRows]
  refine ⟨ks'.map (·.st), by simp [hlen], ?_, ?_⟩
  · apply List.ext_getElem?
    intro j
    rw [getElem?_pieceRows]
    by_cases hj : j < ms.length
    · have hj' : j < ks'.length := by omega
      simp only [hj, if_true]
      rw [List.getElem?_eq_getElem hj']
      have hnw := h.2 j _ ks'[j] (by rw [getElem?_pieceRows, if_pos hj]) (List.getElem?_eq_getElem hj')
      obtain ⟨a1, a2, a3, _⟩ := hnw
      simp only at a1 a2 a3
      congr 1
      have : (List.map (fun x => x.st) ks')[j]?.getD default = ks'[j].st := by simp [hj']
      rw [this, ← a1, ← a2, ← a3]
    · simp only [hj, if_false]
      simp; omega
  · intro j st' hj
    rw [List.getElem?_map] at hj
    have hj' : j < ks'.length := by
      cases hx : ks'[j]? with
      | none => rw [hx] at hj; cases hj
      | some _ => exact (List.getElem?_eq_some_iff.mp hx).1
    rw [List.getElem?_eq_getElem hj'] at hj
    simp only [Option.map_some, Option.some.injEq] at hj
    have hjm : j < ms.length := by omega
    have hnw := h.2 j _ ks'[j] (by rw [getElem?_pieceRows, if_pos hjm]) (List.getElem?_eq_getElem hj')
    have hjs : j < sts.length := by omega
    refine ⟨sts[j], List.getElem?_eq_getElem hjs, ?_⟩
    rcases hnw.2.2.2 with h1 | ⟨_, h1⟩
    · left
      rw [← hj, h1]
      simp [hjs]
    · right; rw [← hj]; exact h1

/-- the kids of an active row stay kids when nacks spread over them, the heap has totals raised and
the split map grows -/
theorem KidsOK.weaken {h h1 h2 : Heap} {s1 s2 : List (Nat × Rec)} {row : Row} {o : PR} {ks ks' : List Row}
    (hk : KidsOK h h1 s1 row o ks) (hrel : RelL NW ks ks') (hs : HStep h1 h2) (hsub : ∀ e ∈ s1, e ∈ s2) :
    KidsOK h h2 s2 row o ks' := by
  cases o with
  | single r' =>
    obtain ⟨st', e, hf⟩ := hk
    subst e
    obtain ⟨x', rfl, hnw⟩ := hrel.single
    exact ⟨x'.st, by rw [hnw.eq_with], hnw.flagOK hf⟩
  | filter =>
    obtain ⟨st', e, hf⟩ := hk
    subst e
    obtain ⟨x', rfl, hnw⟩ := hrel.single
    have := hnw.eq_of_filter hf
    exact ⟨st', by rw [this], hf⟩
  | error e0 =>
    obtain ⟨st', e, hf⟩ := hk
    subst e
    obtain ⟨x', rfl, hnw⟩ := hrel.single
    refine ⟨x'.st, by rw [hnw.eq_with], ?_⟩
    rcases hnw.2.2.2 with h1 | ⟨_, h1⟩
    · rw [h1]; exact hf
    · exact h1
  | nil =>
    obtain ⟨st', e, hf⟩ := hk
    subst e
    obtain ⟨x', rfl, hnw⟩ := hrel.single
    exact ⟨x'.st, by rw [hnw.eq_with], hnw.flagOK hf⟩
  | multi rs =>
    match rs, hk with
    | [], hk =>
      obtain ⟨st', e, hf⟩ := hk
      subst e
      obtain ⟨x', rfl, hnw⟩ := hrel.single
      have := hnw.eq_of_filter hf
      exact ⟨st', by rw [this], hf⟩
    | [r'], hk =>
      obtain ⟨st', e, hf⟩ := hk
      subst e
      obtain ⟨x', rfl, hnw⟩ := hrel.single
      exact ⟨x'.st, by rw [hnw.eq_with], hnw.flagOK hf⟩
    | r1 :: r2 :: ms, hk =>
      obtain ⟨rid, sts, hl, e, hf, hn⟩ := hk
      subst e
      obtain ⟨sts', hl', e', hf'⟩ := pieceRows_weaken hl hrel
      refine ⟨rid, sts', hl', e', ?_, hn.mono hs hsub⟩
      intro j st' hj
      obtain ⟨st, g1, g2⟩ := hf' j st' hj
      rcases g2 with g2 | g2
      · rw [g2]; exact hf j st g1
      · exact Or.inr g2

/-! ## the kids of the rows from a physical index on -/

theorem rowAt_filter {b : Batch} (hl : b.st.length = b.recs.length) {p : Nat} (hp : p < b.recs.length)
    (hna : p ∉ actList b.st) : (b.rowAt p).st.flag = .filter := by
  have hp' : p < b.st.length := by omega
  have h1 : ¬ (notFilt b.st p = true) := fun hn => hna (mem_actList.mpr ⟨hp', hn⟩)
  rw [notFilt_iff hp'] at h1
  have h2 : (b.rowAt p).st = b.st[p] := by simp [Batch.rowAt, hp']
  rw [h2]
  exact Classical.byContradiction (fun hc => h1 hc)

theorem rowAt_notFilter {b : Batch} {p : Nat} (ha : p ∈ actList b.st) : (b.rowAt p).st.flag ≠ .filter := by
  obtain ⟨hp', hn⟩ := mem_actList.mp ha
  rw [notFilt_iff hp'] at hn
  have h2 : (b.rowAt p).st = b.st[p] := by simp [Batch.rowAt, hp']
  rw [h2]
  exact hn

/-- the rows from physical index `P` on are the kids of the rows of `b` from `P` on -/
def HiOK (b : Batch) (pad : List PR) (h hc : Heap) (spl : List (Nat × Rec)) (P : Nat) (rowsHi : List Row) : Prop :=
  ∃ hk : List (List Row), hk.length = b.recs.length - P ∧ rowsHi = hk.flatten ∧
    (∀ p : Nat, P ≤ p → p < b.recs.length → p ∉ actList b.st → hk[p - P]? = some [b.rowAt p]) ∧
    (∀ (a p : Nat) (o : PR), P ≤ p → (actList b.st)[a]? = some p → pad[a]? = some o →
       ∃ ks, hk[p - P]? = some ks ∧ KidsOK h hc spl (b.rowAt p) o ks)

theorem HiOK.cons {b : Batch} {pad : List PR} {h hc : Heap} {spl : List (Nat × Rec)} {P : Nat} {rowsHi : List Row}
    (hi : HiOK b pad h hc spl (P+1) rowsHi) (hP : P < b.recs.length) {ks : List Row}
    (h1 : P ∉ actList b.st → ks = [b.rowAt P])
    (h2 : ∀ (a : Nat) (o : PR), (actList b.st)[a]? = some P → pad[a]? = some o → KidsOK h hc spl (b.rowAt P) o ks) :
    HiOK b pad h hc spl P (ks ++ rowsHi) := by
  obtain ⟨hk, l, e, g1, g2⟩ := hi
  refine ⟨ks :: hk, by simp only [List.length_cons, l]; omega, by simp [e], ?_, ?_⟩
  · intro p hp hpN hna
    by_cases hpe : p = P
    · subst hpe; simp [h1 hna]
    · have : p - P = (p - (P+1)) + 1 := by omega
      rw [this, List.getElem?_cons_succ]
      exact g1 p (by omega) hpN hna
  · intro a p o hp ha ho
    by_cases hpe : p = P
    · subst hpe; exact ⟨ks, by simp, h2 a o ha ho⟩
    · have : p - P = (p - (P+1)) + 1 := by omega
      rw [this, List.getElem?_cons_succ]
      exact g2 a p o (by omega) ha ho

theorem HiOK.weaken {b : Batch} {pad : List PR} {h hc hc' : Heap} {spl spl' : List (Nat × Rec)} {P : Nat}
    {rowsHi rowsHi' : List Row} (hl : b.st.length = b.recs.length)
    (hi : HiOK b pad h hc spl P rowsHi) (hrel : RelL NW rowsHi rowsHi') (hs : HStep hc hc')
    (hsub : ∀ e ∈ spl, e ∈ spl') : HiOK b pad h hc' spl' P rowsHi' := by
  obtain ⟨hk, l, e, g1, g2⟩ := hi
  subst e
  obtain ⟨hk', e', l', g3⟩ := reshape hk rowsHi' hrel
  refine ⟨hk', l'.trans l, e', ?_, ?_⟩
  · intro p hp hpN hna
    obtain ⟨ks', k1, k2⟩ := g3 _ _ (g1 p hp hpN hna)
    obtain ⟨x', rfl, hnw⟩ := k2.single
    rw [k1, hnw.eq_of_filter (rowAt_filter hl hpN hna)]
  · intro a p o hp ha ho
    obtain ⟨ks, k1, k2⟩ := g2 a p o hp ha ho
    obtain ⟨ks', k3, k4⟩ := g3 _ _ k1
    exact ⟨ks', k3, k2.weaken k4 hs hsub⟩

theorem HiOK.extend {b : Batch} {pad : List PR} {h hc : Heap} {spl : List (Nat × Rec)} {L : List Row} {P : Nat}
    (hPL : P ≤ L.length) (hPN : P ≤ b.recs.length) (hi : HiOK b pad h hc spl P (L.drop P)) :
    ∀ (d : Nat), d ≤ P →
    (∀ (x : Nat) (row : Row), P - d ≤ x → x < P → L[x]? = some row →
       (x ∉ actList b.st → row = b.rowAt x) ∧
       (∀ (a : Nat) (o : PR), (actList b.st)[a]? = some x → pad[a]? = some o →
          KidsOK h hc spl (b.rowAt x) o [row])) →
    HiOK b pad h hc spl (P - d) (L.drop (P - d)) := by
  intro d
  induction d with
  | zero => intro _ _; exact hi
  | succ d ih =>
    intro hd hin
    have ih' := ih (by omega) (fun x row h1 h2 => hin x row (by omega) h2)
    have hx : P - (d+1) < L.length := by omega
    have e : L.drop (P - (d+1)) = [L[P - (d+1)]] ++ L.drop (P - d) := by
      rw [List.drop_eq_getElem_cons hx]
      simp only [List.cons_append, List.nil_append]
      congr 2; omega
    rw [e]
    have hh := hin (P - (d+1)) L[P-(d+1)] (Nat.le_refl _) (by omega) (List.getElem?_eq_getElem hx)
    have e2 : P - d = (P - (d+1)) + 1 := by omega
    rw [e2] at ih' ⊢
    exact HiOK.cons ih' (by omega) (fun hna => by rw [hh.1 hna]) hh.2

/-! ## the loop invariant -/

/-- row-level effect of a mutator call on the active indices `i … to-1` of `c` (no split) -/
structure StepN (i to : Nat) (T : Nat → Row → Row → Prop) (c c' : Batch) : Prop where
  split : c'.split = c.split
  recslen : c'.recs.length = c.recs.length
  act : ∀ k : Nat, k < i → (actList c'.st)[k]? = (actList c.st)[k]?
  tgt : ∀ (k q : Nat), i ≤ k → k < to → (actList c.st)[k]? = some q → T k (c.rowAt q) (c'.rowAt q)
  oth : ∀ x : Nat, (¬ ∃ k : Nat, i ≤ k ∧ k < to ∧ (actList c.st)[k]? = some x) → NW (c.rowAt x) (c'.rowAt x)
  taint : TaintC c → TaintC c'

/-- loop invariant of the end→start marking: the active indices below `to` (physical indices below
`P`) are untouched up to spread nacks, the rows from `P` on have been replaced by their kids -/
structure SI (b : Batch) (pad : List PR) (h : Heap) (to P : Nat) (hc : Heap) (c : Batch) : Prop where
  wf : c.WF hc
  runs : ∃ rs, c.runs = some rs
  hstep : HStep h hc
  leb : to ≤ b.nAct
  act : ∀ k : Nat, k < to → (actList c.st)[k]? = (actList b.st)[k]?
  Ple : P ≤ b.recs.length
  Pc : P ≤ c.recs.length
  lowA : ∀ k p : Nat, (actList b.st)[k]? = some p → (k < to ↔ p < P)
  low : ∀ p : Nat, p < P → NW (b.rowAt p) (c.rowAt p)
  hi : HiOK b pad h hc c.split P (c.rows.drop P)
  split : ∀ e ∈ c.split, e ∈ b.split ∨ ∃ row ∈ b.rows, row.run = none ∧ e = (keyOf row.pos, row.r)
  taint : TaintC b → TaintC c

theorem SI.le {b : Batch} {pad : List PR} {h : Heap} {to P : Nat} {hc : Heap} {c : Batch}
    (hinv : SI b pad h to P hc c) : to ≤ c.nAct := by
  cases to with
  | zero => omega
  | succ k =>
    have h1 := hinv.act k (by omega)
    have hk : k < (actList b.st).length := hinv.leb
    rw [List.getElem?_eq_getElem hk] at h1
    exact (List.getElem?_eq_some_iff.mp h1).1

theorem actList_lt_iff {st : List Status} {k1 k2 p1 p2 : Nat} (h1 : (actList st)[k1]? = some p1)
    (h2 : (actList st)[k2]? = some p2) : k1 < k2 ↔ p1 < p2 := by
  obtain ⟨a1, a2⟩ := List.getElem?_eq_some_iff.mp h1
  obtain ⟨b1, b2⟩ := List.getElem?_eq_some_iff.mp h2
  have hpw := List.pairwise_iff_getElem.mp (actList_pairwise st)
  constructor
  · intro hlt
    have := hpw k1 k2 a1 b1 hlt
    omega
  · intro hlt
    rcases Nat.lt_trichotomy k1 k2 with hk | hk | hk
    · exact hk
    · subst hk; omega
    · have := hpw k2 k1 b1 a1 hk
      omega

theorem SI.step {b : Batch} {pad : List PR} {h : Heap} {to P : Nat} {hc : Heap} {c c' : Batch} {i : Nat}
    {T : Nat → Row → Row → Prop} (hb : b.st.length = b.recs.length)
    (hinv : SI b pad h to P hc c) (hs : StepN i to T c c') (hwf : c'.WF hc) (hruns : c'.runs = c.runs)
    (hi : i < to) {q0 : Nat} (hq0 : (actList b.st)[i]? = some q0)
    (hT : ∀ (k x : Nat) (o : PR) (row row' : Row), i ≤ k → k < to → (actList b.st)[k]? = some x →
      pad[k]? = some o → NW (b.rowAt x) row → T k row row' → KidsOK h hc c.split (b.rowAt x) o [row']) :
    SI b pad h i q0 hc c' := by
  have hq0P : q0 < P := (hinv.lowA i q0 hq0).mp hi
  have hPc' : P ≤ c'.recs.length := by rw [hs.recslen]; exact hinv.Pc
  -- targets, in terms of `b`
  have htg : ∀ x : Nat, (∃ k : Nat, i ≤ k ∧ k < to ∧ (actList c.st)[k]? = some x) →
      ∃ k : Nat, i ≤ k ∧ k < to ∧ (actList b.st)[k]? = some x := by
    rintro x ⟨k, h1, h2, h3⟩
    exact ⟨k, h1, h2, (hinv.act k h2).symm.trans h3⟩
  have hnt_lo : ∀ x : Nat, x < q0 → NW (c.rowAt x) (c'.rowAt x) := by
    intro x hx
    apply hs.oth
    intro hc
    obtain ⟨k, h1, h2, h3⟩ := htg x hc
    rcases Nat.lt_or_ge i k with hik | hik
    · have := (actList_lt_iff hq0 h3).mp hik; omega
    · have : i = k := by omega
      subst this
      rw [hq0] at h3; cases h3; omega
  have hnt_hi : ∀ x : Nat, P ≤ x → NW (c.rowAt x) (c'.rowAt x) := by
    intro x hx
    apply hs.oth
    intro hc
    obtain ⟨k, h1, h2, h3⟩ := htg x hc
    have := (hinv.lowA k x h3).mp h2
    omega
  have hnt_in : ∀ x : Nat, x ∉ actList b.st → NW (c.rowAt x) (c'.rowAt x) := by
    intro x hx
    apply hs.oth
    intro hc
    obtain ⟨k, h1, h2, h3⟩ := htg x hc
    exact hx (List.mem_of_getElem? h3)
  refine ⟨hwf, by rw [hruns]; exact hinv.runs, hinv.hstep, by have := hinv.leb; omega, ?_, by have := hinv.Ple; omega,
    by omega, ?_, ?_, ?_, by rw [hs.split]; exact hinv.split, fun ht => hs.taint (hinv.taint ht)⟩
  · intro k hk
    exact (hs.act k hk).trans (hinv.act k (by omega))
  · intro k p hp
    rcases Nat.lt_trichotomy k i with hk | hk | hk
    · have := (actList_lt_iff hp hq0).mp hk
      constructor <;> intro <;> omega
    · subst hk
      rw [hq0] at hp; cases hp
      constructor <;> intro <;> omega
    · have := (actList_lt_iff hq0 hp).mp hk
      constructor <;> intro <;> omega
  · intro p hp
    exact (hinv.low p (by omega)).trans (hnt_lo p hp)
  · -- the kids
    have hrel : RelL NW (c.rows.drop P) (c'.rows.drop P) := by
      refine ⟨by simp only [List.length_drop, length_rows, hs.recslen], ?_⟩
      intro y a a' h1 h2
      rw [List.getElem?_drop, getElem?_rows] at h1 h2
      rw [hs.recslen] at h2
      by_cases hy : P + y < c.recs.length
      · simp only [hy, if_true, Option.some.injEq] at h1 h2
        subst h1; subst h2
        exact hnt_hi _ (by omega)
      · simp only [hy, if_false] at h1
        cases h1
    have hi1 : HiOK b pad h hc c'.split P (c'.rows.drop P) :=
      HiOK.weaken hb hinv.hi hrel (HStep.refl _) (by rw [hs.split]; exact fun _ he => he)
    have hext := HiOK.extend (L := c'.rows) (by rw [length_rows]; exact hPc') hinv.Ple hi1 (P - q0) (by omega) (by
      intro x row hx1 hx2 hrow
      rw [getElem?_rows] at hrow
      have hxl : x < c'.recs.length := by omega
      simp only [hxl, if_true, Option.some.injEq] at hrow
      subst hrow
      constructor
      · intro hna
        have h1 := (hinv.low x hx2).trans (hnt_in x hna)
        exact h1.eq_of_filter (rowAt_filter hb (by have := hinv.Ple; omega) hna)
      · intro a o ha ho
        have hia : i ≤ a := by
          rcases Nat.lt_or_ge a i with hlt | hge
          · have := (actList_lt_iff ha hq0).mp hlt; omega
          · exact hge
        have hato : a < to := (hinv.lowA a x ha).mpr hx2
        have htg := hs.tgt a x hia hato ((hinv.act a hato).trans ha)
        rw [hs.split]
        exact hT a x o _ _ hia hato ha ho (hinv.low x hx2) htg)
    have e : P - (P - q0) = q0 := by omega
    rw [e] at hext
    exact hext

/-! ## the mutators as `StepN` -/

theorem rowAt_congr {c c' : Batch} {q : Nat} (h1 : c'.recs[q]? = c.recs[q]?) (h2 : c'.st[q]? = c.st[q]?)
    (h3 : c'.pos = c.pos) (h4 : c'.runs = c.runs) : c'.rowAt q = c.rowAt q := by
  simp only [Batch.rowAt, Batch.runAt, h1, h2, h3, h4]

theorem StepE.toN {i to : Nat} {E : Nat → Rec → Status → Rec × Status} {tb : Bool} {c c' : Batch}
    (hs : StepE i to E tb c c') (hruns : c'.runs = c.runs) (hl : c.st.length = c.recs.length)
    (htaint : TaintC c → TaintC c') :
    StepN i to (fun k row row' => row' = { row with r := (E k row.r row.st).1, st := (E k row.r row.st).2 }) c c' := by
  refine ⟨hs.split, hs.recslen, hs.act, ?_, ?_, htaint⟩
  · intro k q h1 h2 hq
    have hq' : q < c.st.length := (mem_actList.mp (List.mem_of_getElem? hq)).1
    have hq'' : q < c.recs.length := by omega
    obtain ⟨a1, a2⟩ := hs.tgt k q c.recs[q] c.st[q] h1 h2 hq (List.getElem?_eq_getElem hq'')
      (List.getElem?_eq_getElem hq')
    simp only [Batch.rowAt, Batch.runAt, a1, a2, hs.pos, hruns, List.getElem?_eq_getElem hq',
      List.getElem?_eq_getElem hq'', Option.getD_some]
  · intro x hx
    obtain ⟨a1, a2⟩ := hs.oth x hx
    rw [rowAt_congr a1 a2 hs.pos hruns]; exact NW.refl _

theorem setRecords_stepN {h : Heap} {c : Batch} (hwf : c.WF h) {i : Nat} {recs : List Rec}
    (hi : i + recs.length ≤ c.nAct) :
    ∃ c' : Batch, c.setRecords i recs = .ok c' ∧ c'.WF h ∧ c'.runs = c.runs ∧
      StepN i (i + recs.length)
        (fun k row row' => row' = { row with r := recs[k - i]?.getD row.r, st := row.st }) c c' := by
  obtain ⟨c', e, wf', hs⟩ := setRecords_step hwf hi
  obtain ⟨c'', e', _, hst, _, hruns, _, _, htn, _⟩ := setRecords_WF hwf hi
  rw [e] at e'
  cases e'
  refine ⟨c', e, wf', hruns, hs.toN hruns hwf.1.st_len ?_⟩
  intro ht s hs' hf
  rw [htn]
  rw [hst] at hs'
  exact ht s hs' hf

theorem taint_flagged {c : Batch} {f : Flag} {i j : Nat} {t : Bool} {fc : Nat}
    (h : (f = .filter ∧ t = c.tainted) ∨ t = true) (ht : TaintC c) :
    TaintC { c with st := c.flagged f i j, tainted := t, filterCount := fc } := by
  intro s hs hflag
  show t = true
  rcases h with ⟨hf, htt⟩ | h
  · obtain ⟨q, hq⟩ := List.mem_iff_getElem?.mp hs
    have hq : (c.flagged f i j)[q]? = some s := hq
    rw [htt]
    by_cases hx : ∃ k : Nat, i ≤ k ∧ k < j ∧ (actList c.st)[k]? = some q
    · rw [(getElem?_flagged c f i j q).1 hx] at hq
      cases hs0 : c.st[q]? with
      | none => rw [hs0] at hq; cases hq
      | some s0 =>
        rw [hs0] at hq
        simp only [Option.map_some, Option.some.injEq] at hq
        subst hq
        subst hf
        rcases hflag with hflag | hflag <;> simp [setFlagP] at hflag
    · rw [(getElem?_flagged c f i j q).2 hx] at hq
      exact ht s (List.mem_of_getElem? hq) hflag
  · exact h

theorem flagged_stepN {h : Heap} {c : Batch} (hwf : c.WF h) {f : Flag} {i j : Nat} {t : Bool} {fc : Nat}
    (ht : (f = .filter ∧ t = c.tainted) ∨ t = true)
    (hact : ∀ k : Nat, k < i → (actList (c.flagged f i j))[k]? = (actList c.st)[k]?) :
    StepN i j (fun _ row row' => row' = { row with r := row.r, st := setFlagP f row.st }) c
      { c with st := c.flagged f i j, tainted := t, filterCount := fc } := by
  have hs : StepE i j (fun _ r st => (r, setFlagP f st)) (t && !c.tainted) c
      { c with st := c.flagged f i j, tainted := t, filterCount := fc } := by
    refine flagged_step rfl rfl rfl rfl ?_ hact
    show t = (c.tainted || (t && !c.tainted))
    rcases ht with ⟨_, ht⟩ | ht
    · rw [ht]; cases c.tainted <;> rfl
    · rw [ht]; cases c.tainted <;> rfl
  exact hs.toN rfl hwf.1.st_len (taint_flagged ht)

theorem nack_stepN {h : Heap} {c : Batch} (hwf : c.WF h) {i : Nat} {errs : List (Option Err)}
    (hi : i + errs.length ≤ c.nAct) :
    ∃ c' : Batch, c.nack i errs = .ok c' ∧ c'.WF h ∧ c'.runs = c.runs ∧
      StepN i (i + errs.length)
        (fun _ row row' => row'.r = row.r ∧ row'.pos = row.pos ∧ row'.run = row.run ∧ row'.st.flag = .nack) c c' := by
  obtain ⟨st', g1, g2, g3, g4, g5, g6, _⟩ := nack_ok hwf hi
  obtain ⟨c1, c2⟩ := countFilter_congr g2 g3
  have hrow : ∀ x : Nat, ({ c with st := st', tainted := true } : Batch).rowAt x =
      { c.rowAt x with st := st'[x]?.getD default } := fun x => rfl
  refine ⟨_, g1, ⟨hwf.1.with_st g2 true c.filterCount, ?_⟩, rfl, rfl, rfl, ?_, ?_, ?_, fun _ _ _ _ => rfl⟩
  · show c.filterCount = countFilter st'
    rw [c1]; exact hwf.2
  · intro k _
    show (actList st')[k]? = _
    rw [c2]
  · intro k q h1 h2 hq
    rw [hrow]
    refine ⟨rfl, rfl, rfl, ?_⟩
    obtain ⟨p, s, a1, a2, a3⟩ := g5 (k - i) (by omega)
    rw [show i + (k - i) = k by omega, hq] at a1
    cases a1
    show (st'[q]?.getD default).flag = _
    rw [a2]; exact a3
  · intro x _
    rw [hrow]
    refine ⟨rfl, rfl, rfl, ?_⟩
    show st'[x]?.getD default = c.st[x]?.getD default ∨ _
    by_cases hx : st'[x]? = c.st[x]?
    · left; rw [hx]
    · right
      obtain ⟨s, a1, a2, _⟩ := g6 x hx
      constructor
      · show (c.st[x]?.getD default).flag ≠ _
        cases hs0 : c.st[x]? with
        | none =>
          exfalso
          have : st'[x]? = none := by
            rw [List.getElem?_eq_none_iff] at hs0 ⊢; omega
          rw [this] at a1; cases a1
        | some s0 =>
          intro hf
          exact hx ((g4 x s0 hs0 hf).trans hs0.symm)
      · show (st'[x]?.getD default).flag = _
        rw [a1]; exact a2

theorem NW.with_r {rb row : Row} (hnw : NW rb row) (r' : Rec) (st' : Status) :
    ({ row with r := r', st := st' } : Row) = { rb with r := r', st := st' } := by
  obtain ⟨a1, a2, a3, _⟩ := hnw
  cases rb; cases row; simp_all

theorem NW.with_st {rb row : Row} (hnw : NW rb row) (st' : Status) :
    ({ row with r := row.r, st := st' } : Row) = { rb with st := st' } := by
  obtain ⟨a1, a2, a3, _⟩ := hnw
  cases rb; cases row; simp_all

/-! ## `SplitRecord` on the rows -/

theorem splitTail_rowAt (hh : Heap) (d : Batch) (q rid : Nat) (m : List Rec) (rs : List (Option Nat))
    (hruns : d.runs = some rs) (h1 : q < d.recs.length) (h2 : d.st.length = d.recs.length)
    (h3 : d.pos.length = d.recs.length) (h4 : rs.length = d.recs.length) (hrid : rs[q]? = some (some rid))
    (hm : 1 ≤ m.length) (x : Nat) :
    (splitTail hh d q rid m).2.rowAt x =
      if x < q then d.rowAt x else if x < q + m.length then
        { r := m[x - q]?.getD default, st := if x = q then (d.rowAt q).st else {},
          pos := if x = q then (d.rowAt q).pos else none, run := some rid }
      else d.rowAt (x + 1 - m.length) := by
  have hR : (splitTail hh d q rid m).2.recs[x]? = _ := splice1 d.recs m q h1 x
  have hS : (splitTail hh d q rid m).2.st[x]? = _ := splice2 d.st {} q m.length (by omega) hm x
  have hP : (splitTail hh d q rid m).2.pos[x]? = _ := splice2 d.pos none q m.length (by omega) hm x
  have hU : (splitTail hh d q rid m).2.runAt x =
      ((rs.take (q+1) ++ List.replicate (m.length - 1) (some rid) ++ rs.drop (q+1))[x]?).join := by
    simp only [Batch.runAt, splitTail, hruns, Option.getD_some]
  rw [splice2 rs (some rid) q m.length (by omega) hm x] at hU
  have hrq : rs[q]'(by omega) = some rid := by
    have := List.getElem?_eq_getElem (l := rs) (i := q) (by omega)
    rw [hrid] at this; exact (Option.some.inj this).symm
  have hD : ∀ y : Nat, d.runAt y = (rs[y]?).join := fun y => by simp only [Batch.runAt, hruns]
  unfold Batch.rowAt
  rw [hR, hS, hP, hU]
  by_cases c1 : x < q
  · simp only [c1, if_true, hD]
  · simp only [c1, if_false]
    by_cases c2 : x < q + m.length
    · simp only [c2, if_true]
      by_cases c3 : x = q
      · subst c3
        have hxs : x < d.st.length := by omega
        have hxp : x < d.pos.length := by omega
        simp [hrq, hxs, hxp]
      · simp [c3]
    · simp only [c2, if_false, hD]

theorem splitTail_recslen (hh : Heap) (d : Batch) (q rid : Nat) (m : List Rec) (h1 : q < d.recs.length) :
    (splitTail hh d q rid m).2.recs.length = d.recs.length + m.length - 1 := by
  show (d.recs.take q ++ m ++ d.recs.drop (q+1)).length = _
  simp only [List.length_append, List.length_take, List.length_drop]
  omega

theorem pieceRows_congr {row row' : Row} (hp : row.pos = row'.pos) (rid : Nat) (ms : List Rec) (sts : List Status) :
    pieceRows row rid ms sts = pieceRows row' rid ms sts := by
  simp only [pieceRows, hp]

/-- the rows after `SplitRecord` at physical index `q`, relative to a batch `c` that agrees with the
batch `d` the tail of `SplitRecord` ran on except for the run at `q` -/
theorem splitTail_rows (hh : Heap) (c d : Batch) (q rid : Nat) (m : List Rec) (rs : List (Option Nat))
    (hruns : d.runs = some rs) (h1 : q < d.recs.length) (h2 : d.st.length = d.recs.length)
    (h3 : d.pos.length = d.recs.length) (h4 : rs.length = d.recs.length) (hrid : rs[q]? = some (some rid))
    (hm : 1 ≤ m.length) (hlen : d.recs.length = c.recs.length)
    (hcd : ∀ x : Nat, x ≠ q → d.rowAt x = c.rowAt x) (hq1 : (d.rowAt q).st = (c.rowAt q).st)
    (hq2 : (d.rowAt q).pos = (c.rowAt q).pos) :
    (∀ x : Nat, x < q → (splitTail hh d q rid m).2.rowAt x = c.rowAt x) ∧
    (splitTail hh d q rid m).2.rows.drop q =
      pieceRows (c.rowAt q) rid m ((c.rowAt q).st :: List.replicate (m.length - 1) {}) ++ c.rows.drop (q+1) := by
  have hG := splitTail_rowAt hh d q rid m rs hruns h1 h2 h3 h4 hrid hm
  have hL := splitTail_recslen hh d q rid m h1
  constructor
  · intro x hx
    rw [hG x, if_pos hx]
    exact hcd x (by omega)
  · apply List.ext_getElem?
    intro y
    rw [List.getElem?_drop, getElem?_rows, hL, hG, List.getElem?_append, length_pieceRows]
    have c1 : ¬ q + y < q := by omega
    simp only [c1, if_false]
    by_cases hy : y < m.length
    · have c2 : q + y < q + m.length := by omega
      have c3 : q + y < d.recs.length + m.length - 1 := by omega
      simp only [c2, c3, hy, if_true]
      rw [getElem?_pieceRows, if_pos hy]
      congr 1
      have e1 : q + y - q = y := by omega
      rw [e1, hq1, hq2]
      by_cases hy0 : y = 0
      · subst hy0; simp
      · have c4 : ¬ q + y = q := by omega
        have e2 : y = (y - 1) + 1 := by omega
        simp only [c4, hy0, if_false]
        rw [e2, List.getElem?_cons_succ, List.getElem?_replicate]
        have : y - 1 < m.length - 1 := by omega
        simp [this]
    · have c2 : ¬ q + y < q + m.length := by omega
      simp only [c2, hy, if_false]
      rw [List.getElem?_drop, getElem?_rows]
      have e1 : q + y + 1 - m.length = q + 1 + (y - m.length) := by omega
      rw [e1, hcd _ (by omega), ← hlen]
      by_cases c3 : q + y < d.recs.length + m.length - 1
      · have c4 : q + 1 + (y - m.length) < d.recs.length := by omega
        simp only [c3, c4, if_true]
      · have c4 : ¬ q + 1 + (y - m.length) < d.recs.length := by omega
        simp only [c3, c4, if_false]

theorem runAt_lt {h : Heap} {b : Batch} (hwf : b.WF h) {q rid : Nat} (hr : b.runAt q = some rid) : rid < h.size := by
  unfold Batch.runAt at hr
  have hro := hwf.1.runs_ok
  cases hruns : b.runs with
  | none => rw [hruns] at hr; cases hr
  | some rs =>
    rw [hruns] at hr hro
    simp only at hr
    cases hx : rs[q]? with
    | none => rw [hx] at hr; cases hr
    | some o =>
      rw [hx] at hr
      simp only [Option.join_some] at hr
      subst hr
      have := hro.2 (some rid) (List.mem_of_getElem? hx)
      simpa [runIdOK] using this

theorem SI.split_core {b : Batch} {pad : List PR} {h : Heap} {k P : Nat} {hc hc' : Heap} {c c' : Batch}
    {m : List Rec} {q rid : Nat} (hb : b.st.length = b.recs.length) (hinv : SI b pad h (k+1) P hc c)
    (hqb : (actList b.st)[k]? = some q) (hm : 2 ≤ m.length) (hpad : pad[k]? = some (.multi m))
    (hwf : c'.WF hc') (hruns : ∃ rs, c'.runs = some rs) (hst : HStep hc hc') (hbelow : Below k c c')
    (hsub : ∀ e ∈ c.split, e ∈ c'.split)
    (hsplit : ∀ e ∈ c'.split, e ∈ c.split ∨
      ((c.rowAt q).run = none ∧ e = (keyOf (c.rowAt q).pos, (c.rowAt q).r)))
    (hnew : NewRun h hc' c'.split (b.rowAt q) rid)
    (hF1 : ∀ x : Nat, x < q → c'.rowAt x = c.rowAt x)
    (hF2 : c'.rows.drop q =
      pieceRows (c.rowAt q) rid m ((c.rowAt q).st :: List.replicate (m.length - 1) {}) ++ c.rows.drop (q+1))
    (hlen : c'.recs.length = c.recs.length + m.length - 1)
    (htaint : TaintC c → TaintC c') : SI b pad h k q hc' c' := by
  have hqP : q < P := (hinv.lowA k q hqb).mp (by omega)
  have hnwq := hinv.low q hqP
  have hPN := hinv.Ple
  have hPc := hinv.Pc
  refine ⟨hwf, hruns, hinv.hstep.trans hst, by have := hinv.leb; omega, ?_, by omega, by omega, ?_, ?_, ?_, ?_,
    fun ht => htaint (hinv.taint ht)⟩
  · intro k' hk'
    exact (hbelow.act k' hk').trans (hinv.act k' (by omega))
  · intro k' p hp
    rcases Nat.lt_trichotomy k' k with hk | hk | hk
    · have := (actList_lt_iff hp hqb).mp hk
      constructor <;> intro <;> omega
    · subst hk
      rw [hqb] at hp; cases hp
      constructor <;> intro <;> omega
    · have := (actList_lt_iff hqb hp).mp hk
      constructor <;> intro <;> omega
  · intro p hp
    rw [hF1 p hp]
    exact hinv.low p (by omega)
  · rw [hF2]
    have hi0 : HiOK b pad h hc' c'.split P (c.rows.drop P) :=
      HiOK.weaken hb hinv.hi (RelL.refl NW.refl _) hst hsub
    have hext := HiOK.extend (L := c.rows) (by rw [length_rows]; exact hPc) hPN hi0 (P - (q+1)) (by omega) (by
      intro x row hx1 hx2 hrow
      rw [getElem?_rows] at hrow
      have hxl : x < c.recs.length := by omega
      simp only [hxl, if_true, Option.some.injEq] at hrow
      subst hrow
      have hna : x ∉ actList b.st := by
        intro hmem
        obtain ⟨a, ha⟩ := List.mem_iff_getElem?.mp hmem
        have h1 : a < k + 1 := (hinv.lowA a x ha).mpr hx2
        rcases Nat.lt_or_ge a k with hlt | hge
        · have := (actList_lt_iff ha hqb).mp hlt; omega
        · have : a = k := by omega
          subst this
          rw [hqb] at ha; cases ha; omega
      constructor
      · intro _
        exact (hinv.low x hx2).eq_of_filter (rowAt_filter hb (by omega) hna)
      · intro a o ha _
        exact absurd (List.mem_of_getElem? ha) hna)
    have e : P - (P - (q+1)) = q + 1 := by omega
    rw [e] at hext
    refine HiOK.cons hext (by omega) (fun hna => absurd (List.mem_of_getElem? hqb) hna) ?_
    intro a o ha ho
    have hak : a = k := actList_inj ha hqb
    subst hak
    rw [hpad] at ho
    cases ho
    match m, hm, hF2, hlen with
    | r1 :: r2 :: ms, _, _, _ =>
      refine ⟨rid, _, by simp, pieceRows_congr hnwq.2.1 _ _ _, ?_, hnew⟩
      intro j st' hj
      cases j with
      | zero =>
        simp only [List.getElem?_cons_zero, Option.some.injEq] at hj
        subst hj
        simp only [if_true]
        exact hnwq.flagOK (Or.inl rfl)
      | succ j =>
        simp only [List.getElem?_cons_succ] at hj
        have := (List.getElem?_eq_some_iff.mp hj).2
        simp only [List.getElem_replicate] at this
        subst this
        exact Or.inl rfl
  · intro e he
    rcases hsplit e he with h1 | ⟨h1, h2⟩
    · exact hinv.split e h1
    · right
      refine ⟨b.rowAt q, ?_, ?_, ?_⟩
      · apply List.mem_of_getElem? (i := q)
        rw [getElem?_rows, if_pos (by omega)]
      · rw [← hnwq.2.2.1]; exact h1
      · rw [h2, hnwq.1, hnwq.2.1]

theorem taint_splitTail {c d : Batch} (hst : d.st = c.st) (ht : d.tainted = c.tainted) (hh : Heap) (q rid : Nat)
    (m : List Rec) (htc : TaintC c) : TaintC (splitTail hh d q rid m).2 := by
  intro s hs hf
  show d.tainted = true
  rw [ht]
  have hs : s ∈ d.st.take (q+1) ++ List.replicate (m.length - 1) ({} : Status) ++ d.st.drop (q+1) := hs
  rcases mem_ins.mp hs with h1 | h1
  · rw [hst] at h1; exact htc s h1 hf
  · rw [(List.mem_replicate.mp h1).2] at hf
    rcases hf with hf | hf <;> cases hf

theorem newHeap_facts (hc : Heap) (nr : SplitRun) (n : Nat) :
    ((hc.push nr).set! hc.size { ((hc.push nr)[hc.size]!) with total := ((hc.push nr)[hc.size]!).total + n - 1 }).size
        = hc.size + 1 ∧
    ((hc.push nr).set! hc.size { ((hc.push nr)[hc.size]!) with total := ((hc.push nr)[hc.size]!).total + n - 1 })[hc.size]!
        = { nr with total := nr.total + n - 1 } ∧
    ∀ r : Nat, r < hc.size →
      ((hc.push nr).set! hc.size { ((hc.push nr)[hc.size]!) with total := ((hc.push nr)[hc.size]!).total + n - 1 })[r]!
        = hc[r]! := by
  refine ⟨by rw [heap_set!_size]; simp, ?_, ?_⟩
  · rw [heap_set!_get _ _ _ (by simp), push_get_size]
  · intro r hr
    rw [heap_set!_other _ _ _ _ (by omega), push_get_lt hc _ hr]

theorem split_SI {b : Batch} {pad : List PR} {h : Heap} {k P : Nat} {hc hc' : Heap} {c c' : Batch} {m : List Rec}
    (hb : b.WF h) (hinv : SI b pad h (k+1) P hc c) (hm : 2 ≤ m.length) (hpad : pad[k]? = some (.multi m))
    (hr : c.splitRecord hc k m = .ok (hc', c')) : ∃ P' : Nat, SI b pad h k P' hc' c' := by
  have hwf := hinv.wf
  have hk : k < c.nAct := by have := hinv.le; omega
  have hphys := phys_ok hwf.2 hk
  have hs : c.splittableAt ((actList c.st)[k]'hk) = true := by
    cases hsp : c.splittableAt ((actList c.st)[k]'hk) with
    | true => rfl
    | false =>
      obtain ⟨mm, hmm⟩ := splitRecord_panics_of_not_splittable hwf hk (recs := m) hsp
      rw [hmm] at hr; cases hr
  have hq : (actList c.st)[k]? = some ((actList c.st)[k]'hk) := List.getElem?_eq_getElem hk
  have h2 : (actList c.st)[k] < c.st.length := actList_lt hk
  generalize (actList c.st)[k]'hk = q at hphys hs hq h2
  have hqb : (actList b.st)[k]? = some q := (hinv.act k (by omega)).symm.trans hq
  have h1 : q < c.recs.length := by rw [← hwf.1.st_len]; exact h2
  have h3 : q < c.pos.length := by rw [hwf.1.pos_len]; exact h1
  obtain ⟨rs, hruns⟩ := hinv.runs
  have hro := hwf.1.runs_ok
  rw [hruns] at hro
  have hp : q < rs.length := by rw [hro.1]; exact h1
  have hqP : q < P := (hinv.lowA k q hqb).mp (by omega)
  have hnwq := hinv.low q hqP
  have hcrun : (c.rowAt q).run = (rs[q]?).join := by simp only [Batch.rowAt, Batch.runAt, hruns]
  refine ⟨q, ?_⟩
  cases hrp : rs[q] with
  | some rid =>
    have hrs : rs[q]? = some (some rid) := by rw [List.getElem?_eq_getElem hp, hrp]
    have e3 := splitRecord_existing (h := hc) (recs := m) hphys h1 h2 h3 hruns hrs
    rw [e3] at hr
    have e4 : hc' = (splitTail hc c q rid m).1 ∧ c' = (splitTail hc c q rid m).2 := by cases hr; exact ⟨rfl, rfl⟩
    obtain ⟨rfl, rfl⟩ := e4
    have hridlt : rid < hc.size := by
      have := hro.2 (some rid) (List.mem_of_getElem? hrs)
      simpa [runIdOK] using this
    obtain ⟨w, _, _, _, _, _, _, bl, _⟩ := splitTail_post hwf hq hruns hridlt (recs := m) (by omega)
    obtain ⟨f1, f2⟩ := splitTail_rows hc c c q rid m rs hruns h1 hwf.1.st_len hwf.1.pos_len hro.1 hrs (by omega) rfl
      (fun _ _ => rfl) rfl rfl
    refine SI.split_core hb.1.st_len hinv hqb hm hpad w ⟨_, rfl⟩ ?_ bl (fun _ he => he) (fun _ he => Or.inl he) ?_ f1 f2
      (splitTail_recslen hc c q rid m h1) (taint_splitTail rfl rfl hc q rid m)
    · show HStep hc (hc.set! rid { (hc[rid]!) with total := (hc[rid]!).total + m.length - 1 })
      refine ⟨by rw [heap_set!_size]; exact Nat.le_refl _, fun r hrl => ?_⟩
      by_cases hre : r = rid
      · subst hre
        exact ⟨_, by omega, heap_set!_get _ _ _ hrl⟩
      · exact ⟨_, Nat.le_refl _, by rw [heap_set!_other _ _ _ _ (Ne.symm hre)]⟩
    · have : (b.rowAt q).run = some rid := by rw [← hnwq.2.2.1, hcrun, hrs]; rfl
      exact Or.inl ⟨this, runAt_lt hb this⟩
  | none =>
    have hrs : rs[q]? = some none := by rw [List.getElem?_eq_getElem hp, hrp]
    have hra : c.runAt q = none := by simp only [Batch.runAt, hruns, hrs]; rfl
    have hpos : c.pos[q]? ≠ some none := by simpa [Batch.splittableAt, hra] using hs
    have e3 := splitRecord_new (h := hc) (recs := m) hphys h1 h2 h3
      (fun rs' hrs' => by rw [hruns] at hrs'; cases hrs'; exact ⟨hro.1, hrs⟩) hpos
    rw [e3] at hr
    have e4 : hc' = (splitTail (hc.push (newRun c q)) (withNewRun c q hc.size) q hc.size m).1 ∧
        c' = (splitTail (hc.push (newRun c q)) (withNewRun c q hc.size) q hc.size m).2 := by
      cases hr; exact ⟨rfl, rfl⟩
    obtain ⟨rfl, rfl⟩ := e4
    obtain ⟨w, _, _, _, _, _, _, bl, _⟩ := splitNew_post hwf hq (recs := m) (by omega)
    have hwr : (withNewRun c q hc.size).runs = some (rs.set q (some hc.size)) := by
      unfold withNewRun; simp [hruns]
    have hcd : ∀ x : Nat, x ≠ q → (withNewRun c q hc.size).rowAt x = c.rowAt x := by
      intro x hx
      simp only [Batch.rowAt, Batch.runAt, hwr, hruns]
      rw [List.getElem?_set_ne (Ne.symm hx)]
      rfl
    obtain ⟨f1, f2⟩ := splitTail_rows (hc.push (newRun c q)) c (withNewRun c q hc.size) q hc.size m
      (rs.set q (some hc.size)) hwr h1 hwf.1.st_len hwf.1.pos_len (by rw [List.length_set]; exact hro.1)
      (by simp [hp]) (by omega) rfl hcd rfl rfl
    obtain ⟨hHsz, hHnew, hHold⟩ := newHeap_facts hc (newRun c q) m.length
    have hspl : (splitTail (hc.push (newRun c q)) (withNewRun c q hc.size) q hc.size m).2.split =
        if (lookup c.split (keyOf (c.rowAt q).pos)).isNone then
          c.split ++ [(keyOf (c.rowAt q).pos, (c.rowAt q).r)] else c.split := rfl
    have hsub : ∀ e ∈ c.split, e ∈ (splitTail (hc.push (newRun c q)) (withNewRun c q hc.size) q hc.size m).2.split := by
      intro e he
      rw [hspl]
      split
      · exact List.mem_append_left _ he
      · exact he
    have hbrun : (b.rowAt q).run = none := by rw [← hnwq.2.2.1, hcrun, hrs]; rfl
    refine SI.split_core hb.1.st_len hinv hqb hm hpad w ⟨_, rfl⟩ ?_ bl hsub ?_ ?_ f1 f2
      (splitTail_recslen (hc.push (newRun c q)) (withNewRun c q hc.size) q hc.size m h1)
      (taint_splitTail (c := c) (d := withNewRun c q hc.size) rfl rfl (hc.push (newRun c q)) q hc.size m)
    · exact ⟨by rw [show (splitTail (hc.push (newRun c q)) (withNewRun c q hc.size) q hc.size m).1.size = _ from hHsz]; omega,
        fun r hr => ⟨_, Nat.le_refl _, by
          rw [show (splitTail (hc.push (newRun c q)) (withNewRun c q hc.size) q hc.size m).1[r]! = _ from hHold r hr]⟩⟩
    · intro e he
      rw [hspl] at he
      split at he
      · rcases List.mem_append.mp he with he | he
        · exact Or.inl he
        · exact Or.inr ⟨by rw [hcrun, hrs]; rfl, List.mem_singleton.mp he⟩
      · exact Or.inl he
    · have hposq : (c.rowAt q).pos ≠ none := by
        intro hn
        apply hpos
        have : c.pos[q]? = some c.pos[q] := List.getElem?_eq_getElem h3
        rw [this]
        simp only [Batch.rowAt, this, Option.getD_some] at hn
        rw [hn]
      have hH : (splitTail (hc.push (newRun c q)) (withNewRun c q hc.size) q hc.size m).1[hc.size]! =
          { newRun c q with total := (newRun c q).total + m.length - 1 } := hHnew
      refine Or.inr ⟨hbrun, hinv.hstep.1, ?_, ?_, ?_, ?_, ?_, ?_, ?_⟩
      · rw [show (splitTail (hc.push (newRun c q)) (withNewRun c q hc.size) q hc.size m).1.size = _ from hHsz]; omega
      · rw [← hnwq.2.1]; exact hposq
      · rw [hH, ← hnwq.2.1]; rfl
      · rw [hH]
        have hor : ({ newRun c q with total := (newRun c q).total + m.length - 1 } : SplitRun).origRec =
            (lookup c.split (keyOf (c.rowAt q).pos)).getD (c.rowAt q).r := rfl
        rw [hor]
        cases hl : lookup c.split (keyOf (c.rowAt q).pos) with
        | none => left; exact hnwq.1
        | some r0 =>
          right
          obtain ⟨e, he, g1, g2⟩ := lookup_some hl
          exact ⟨e, hsub e he, by rw [g1, hnwq.2.1], by rw [g2]; rfl⟩
      · rw [hH]; rfl
      · rw [hH]; rfl
      · rw [hH]; rfl

/-! ## the `MultiRecord` group -/

theorem procMultiStep_SI {b : Batch} {pad : List PR} {h hc hc' : Heap} {c c' : Batch} {i t P : Nat} {records : List PR}
    (hb : b.WF h) (hinv : SI b pad h (i + t + 1) P hc c) {m : List Rec}
    (hrec : records[t]? = some (.multi m)) (hpad : pad[i+t]? = some (.multi m))
    (hr : procMultiStep i records (hc, c) t = .ok (hc', c')) : ∃ P' : Nat, SI b pad h (i + t) P' hc' c' := by
  have hlt : i + t < c.nAct := by have := hinv.le; omega
  obtain ⟨q0, hq0⟩ : ∃ q0, (actList b.st)[i+t]? = some q0 :=
    ⟨_, List.getElem?_eq_getElem (by have := hinv.leb; show i + t < b.nAct; omega)⟩
  unfold procMultiStep at hr
  rw [hrec] at hr
  simp only at hr
  cases m with
  | nil =>
    simp only [List.length_nil] at hr
    rw [filter1_ok hinv.wf hlt] at hr
    simp only [bind, Except.bind, pure, Except.pure] at hr
    cases hr
    have hs := flagged_stepN hinv.wf (f := .filter) (i := i + t) (j := i + t + 1) (t := c.tainted)
      (fc := c.filterCount + 1) (Or.inl ⟨rfl, rfl⟩) (below_filtered (by omega) (c.filterCount + 1)).act
    refine ⟨q0, hinv.step hb.1.st_len hs (by
        have := WF_filtered hinv.wf (i := i + t) (j := i + t + 1) hlt
        simpa using this) rfl (by omega) hq0 ?_⟩
    intro k x o row row' h1 h2 hx ho hnw hrow
    obtain rfl : k = i + t := by omega
    rw [hpad] at ho
    cases ho
    subst hrow
    exact ⟨setFlagP .filter row.st, by rw [hnw.with_st], rfl⟩
  | cons x m' =>
    cases m' with
    | nil =>
      simp only [List.length_cons, List.length_nil] at hr
      obtain ⟨c1, e, wf', hruns, hs⟩ := setRecords_stepN hinv.wf (i := i + t) (recs := [x])
        (by simp only [List.length_cons, List.length_nil]; omega)
      have hs' : StepN (i + t) (i + t + 1) _ c c1 := hs
      rw [e] at hr
      simp only [bind, Except.bind, pure, Except.pure] at hr
      cases hr
      refine ⟨q0, hinv.step hb.1.st_len hs' wf' hruns (by omega) hq0 ?_⟩
      intro k x' o row row' h1 h2 hx ho hnw hrow
      obtain rfl : k = i + t := by omega
      rw [hpad] at ho
      cases ho
      subst hrow
      refine ⟨row.st, ?_, hnw.flagOK (Or.inl rfl)⟩
      rw [← hnw.with_r]
      simp
    | cons y m'' =>
      simp only [List.length_cons] at hr
      exact split_SI hb hinv (by simp only [List.length_cons]; omega) hpad hr

theorem procMultiLoop_SI {b : Batch} {pad : List PR} {h hc' : Heap} {c' : Batch} {i : Nat} {records : List PR}
    (hb : b.WF h) (n : Nat) : ∀ (hc : Heap) (c : Batch) (P : Nat), SI b pad h (i + n) P hc c →
    (∀ t : Nat, t < n → ∃ m : List Rec, records[t]? = some (.multi m) ∧ pad[i+t]? = some (.multi m)) →
    (List.range n).reverse.foldlM (procMultiStep i records) (hc, c) = .ok (hc', c') →
    ∃ P' : Nat, SI b pad h i P' hc' c' := by
  induction n with
  | zero =>
    intro hc c P hinv _ hr
    simp only [List.range_zero, List.reverse_nil, List.foldlM_nil, pure, Except.pure] at hr
    cases hr
    exact ⟨P, hinv⟩
  | succ n ih =>
    intro hc c P hinv hrec hr
    rw [List.range_succ, List.reverse_append] at hr
    simp only [List.reverse_cons, List.reverse_nil, List.nil_append, List.cons_append, List.foldlM_cons] at hr
    obtain ⟨⟨hc1, c1⟩, e1, e2⟩ := bind_ok hr
    obtain ⟨m, hr1, hp1⟩ := hrec n (by omega)
    obtain ⟨P1, inv1⟩ := procMultiStep_SI (t := n) hb hinv hr1 hp1 e1
    exact ih hc1 c1 P1 inv1 (fun t ht => hrec t (by omega)) e2

/-! ## one group -/

theorem procMarkP_SI {b : Batch} {pad : List PR} {h hc hc' : Heap} {c c' : Batch} {i to P : Nat}
    (hb : b.WF h) (hinv : SI b pad h to P hc c) (hi : i < to) (hto : to ≤ pad.length)
    (hk : ∀ j : Nat, i ≤ j → j < to → (pad[j]?.getD .nil).kind = (pad[i]?.getD .nil).kind)
    (hr : procMarkP (hc, c) i ((pad.take to).drop i) = .ok (hc', c')) : ∃ P' : Nat, SI b pad h i P' hc' c' := by
  have hle := hinv.le
  obtain ⟨q0, hq0⟩ : ∃ q0, (actList b.st)[i]? = some q0 :=
    ⟨_, List.getElem?_eq_getElem (by have := hinv.leb; show i < b.nAct; omega)⟩
  have hlen : ((pad.take to).drop i).length = to - i := by simp; omega
  have hrec : ∀ t : Nat, i + t < to → ((pad.take to).drop i)[t]? = pad[i+t]? := group_get pad i to
  generalize hR : (pad.take to).drop i = records at hlen hrec hr
  cases records with
  | nil => simp at hlen; omega
  | cons r rest =>
    have hl' : (r :: rest).length = to - i := hlen
    have hpi : pad[i]? = some r := by
      have := hrec 0 (by omega)
      simpa using this.symm
    have hkind : ∀ (k : Nat) (o : PR), i ≤ k → k < to → pad[k]? = some o → o.kind = r.kind := by
      intro k o h1 h2 ho
      have := hk k h1 h2
      rw [ho, hpi] at this
      exact this
    have hall : ∀ x ∈ r :: rest, x.kind = r.kind := by
      intro x hx
      obtain ⟨t, ht⟩ := List.mem_iff_getElem?.mp hx
      have htl : t < (r :: rest).length := (List.getElem?_eq_some_iff.mp ht).1
      rw [hrec t (by omega)] at ht
      exact hkind (i + t) x (by omega) (by omega) ht
    have hget : ∀ (k : Nat) (o : PR), i ≤ k → k < to → pad[k]? = some o → (r :: rest)[k - i]? = some o := by
      intro k o h1 h2 ho
      rw [hrec (k - i) (by omega), show i + (k - i) = k by omega, ho]
    unfold procMarkP at hr
    cases r with
    | single r0 =>
      simp only at hr
      generalize hrs : List.filterMap _ (PR.single r0 :: rest) = recs at hr
      have hrs2 : recs = (PR.single r0 :: rest).map recOf := by
        rw [← hrs]
        exact filterMap_eq_map' _ _ _ (fun x hx => by
          have := hall x hx
          cases x <;> first | rfl | (simp [PR.kind] at this))
      have hrl : recs.length = to - i := by rw [hrs2, List.length_map]; exact hl'
      obtain ⟨c1, e, wf', hruns, hs⟩ := setRecords_stepN hinv.wf (i := i) (recs := recs) (by omega)
      rw [e] at hr
      simp only [bind, Except.bind, pure, Except.pure] at hr
      cases hr
      rw [hrl, show i + (to - i) = to by omega] at hs
      refine ⟨q0, hinv.step hb.1.st_len hs wf' hruns hi hq0 ?_⟩
      intro k x o row row' h1 h2 hx ho hnw hrow
      have hkk := hkind k o h1 h2 ho
      have hg : recs[k - i]? = some (recOf o) := by
        rw [hrs2, List.getElem?_map, hget k o h1 h2 ho]; rfl
      cases o <;> first | (simp [PR.kind] at hkk; done) | skip
      subst hrow
      refine ⟨row.st, ?_, hnw.flagOK (Or.inl rfl)⟩
      rw [← hnw.with_r, hg]
      simp [recOf]
    | filter =>
      simp only at hr
      rw [hl', filterRange_ok hinv.wf (by omega) (by omega), show i + (to - i) = to by omega] at hr
      simp only [bind, Except.bind, pure, Except.pure] at hr
      cases hr
      have hs := flagged_stepN hinv.wf (f := .filter) (i := i) (j := to) (t := c.tainted)
        (fc := c.filterCount + (to - i)) (Or.inl ⟨rfl, rfl⟩) (below_filtered (by omega) (c.filterCount + (to - i))).act
      refine ⟨q0, hinv.step hb.1.st_len hs (WF_filtered hinv.wf (by omega)) rfl hi hq0 ?_⟩
      intro k x o row row' h1 h2 hx ho hnw hrow
      have hkk := hkind k o h1 h2 ho
      cases o <;> first | (simp [PR.kind] at hkk; done) | skip
      subst hrow
      exact ⟨setFlagP .filter row.st, by rw [hnw.with_st], rfl⟩
    | error e0 =>
      simp only at hr
      generalize hrs : List.filterMap _ (PR.error e0 :: rest) = errs at hr
      have hrs2 : errs = (PR.error e0 :: rest).map errOf := by
        rw [← hrs]
        exact filterMap_eq_map' _ _ _ (fun x hx => by
          have := hall x hx
          cases x <;> first | rfl | (simp [PR.kind] at this))
      have hrl : errs.length = to - i := by rw [hrs2, List.length_map]; exact hl'
      obtain ⟨c1, e, wf', hruns, hs⟩ := nack_stepN hinv.wf (i := i) (errs := errs) (by omega)
      rw [e] at hr
      simp only [bind, Except.bind, pure, Except.pure] at hr
      cases hr
      rw [hrl, show i + (to - i) = to by omega] at hs
      refine ⟨q0, hinv.step hb.1.st_len hs wf' hruns hi hq0 ?_⟩
      intro k x o row row' h1 h2 hx ho hnw hrow
      have hkk := hkind k o h1 h2 ho
      cases o <;> first | (simp [PR.kind] at hkk; done) | skip
      obtain ⟨a1, a2, a3, a4⟩ := hrow
      refine ⟨row'.st, ?_, a4⟩
      have : NW (b.rowAt x) row' := ⟨a1.trans hnw.1, a2.trans hnw.2.1, a3.trans hnw.2.2.1, Or.inr ⟨?_, a4⟩⟩
      · rw [this.eq_with]
      · exact rowAt_notFilter (List.mem_of_getElem? hx)
    | multi m0 =>
      simp only at hr
      rw [hl'] at hr
      refine procMultiLoop_SI hb (to - i) hc c P (by rw [show i + (to - i) = to by omega]; exact hinv) ?_ hr
      intro t ht
      have hp : pad[i + t]? = ((PR.multi m0 :: rest))[t]? := (hrec t (by omega)).symm
      have htl : t < (PR.multi m0 :: rest).length := by omega
      rw [List.getElem?_eq_getElem htl] at hp
      have hkk := hkind (i + t) _ (by omega) (by omega) hp
      generalize (PR.multi m0 :: rest)[t] = o at hp hkk
      cases o <;> first | (simp [PR.kind] at hkk; done) | skip
      rename_i m
      exact ⟨m, by rw [← hp, hrec t (by omega)], hp⟩
    | nil =>
      simp only at hr
      rw [hl', retry_ok hinv.wf (by omega) (by omega), show i + (to - i) = to by omega] at hr
      simp only [bind, Except.bind, pure, Except.pure] at hr
      cases hr
      have hs := flagged_stepN hinv.wf (f := .retry) (i := i) (j := to) (t := true)
        (fc := c.filterCount) (Or.inr rfl) (below_flagged (by decide) i to true).act
      refine ⟨q0, hinv.step hb.1.st_len hs (WF_flagged hinv.wf (by decide) _ _ _) rfl hi hq0 ?_⟩
      intro k x o row row' h1 h2 hx ho hnw hrow
      have hkk := hkind k o h1 h2 ho
      cases o <;> first | (simp [PR.kind] at hkk; done) | skip
      subst hrow
      exact ⟨setFlagP .retry row.st, by rw [hnw.with_st], Or.inl rfl⟩

/-! ## the group loop -/

theorem procGroupLoop_SI {b : Batch} {pad : List PR} {h hc' : Heap} {c' : Batch} {to' : Nat} (hb : b.WF h) (n : Nat) :
    ∀ (hc : Heap) (c : Batch) (to P : Nat), SI b pad h to P hc c → n ≤ to → to ≤ pad.length →
    (∀ j : Nat, n ≤ j → j < to → (pad[j]?.getD .nil).kind = (pad[n-1]?.getD .nil).kind) →
    (List.range n).reverse.foldlM (procGroupStep pad) ((hc, c), to) = .ok ((hc', c'), to') →
    ∃ P' : Nat, SI b pad h to' P' hc' c' ∧ (0 < n → to' = 0) := by
  induction n with
  | zero =>
    intro hc c to P hinv _ _ _ hr
    simp only [List.range_zero, List.reverse_nil, List.foldlM_nil, pure, Except.pure] at hr
    cases hr
    exact ⟨P, hinv, fun h => by omega⟩
  | succ n ih =>
    intro hc c to P hinv hn hto hsk hr
    rw [List.range_succ, List.reverse_append] at hr
    simp only [List.reverse_cons, List.reverse_nil, List.nil_append, List.cons_append, List.foldlM_cons] at hr
    obtain ⟨s1, e1, e2⟩ := bind_ok hr
    unfold procGroupStep at e1
    by_cases hbd : (n == 0 || !(sameType (pad[n-1]?.getD .nil) (pad[n]?.getD .nil))) = true
    · simp only [hbd, if_true] at e1
      obtain ⟨⟨hc1, c1⟩, e3, e4⟩ := bind_ok e1
      simp only [pure, Except.pure] at e4
      cases e4
      obtain ⟨P1, inv1⟩ := procMarkP_SI (i := n) hb hinv (by omega) hto (by
        intro j h1 h2
        by_cases hj : j = n
        · rw [hj]
        · exact hsk j (by omega) h2) e3
      obtain ⟨P2, inv2, z2⟩ := ih hc1 c1 n P1 inv1 (Nat.le_refl _) (by omega) (fun j h1 h2 => by omega) e2
      refine ⟨P2, inv2, fun _ => ?_⟩
      by_cases hn0 : n = 0
      · subst hn0
        simp only [List.range_zero, List.reverse_nil, List.foldlM_nil, pure, Except.pure] at e2
        cases e2; rfl
      · exact z2 (by omega)
    · simp only [hbd, pure, Except.pure] at e1
      cases e1
      simp [sameType] at hbd
      obtain ⟨hn0, hsame⟩ := hbd
      obtain ⟨P2, inv2, z2⟩ := ih hc c to P hinv (by omega) hto (fun j h1 h2 => by
        by_cases hj : j = n
        · rw [hj]; exact hsame.symm
        · rw [hsk j (by omega) h2]; exact hsame.symm) e2
      exact ⟨P2, inv2, fun _ => z2 (by omega)⟩

theorem procDoP_effS {h : Heap} {b : Batch} (hwf : b.WF h) (hruns : ∃ rs, b.runs = some rs) {out : List PR}
    {h' : Heap} {b' : Batch} (hr : procDoP h b out = .ok (h', b')) :
    ProcEff h b (padOut b.nAct out) h' b' ∧ b'.WF h' ∧ ∃ rs', b'.runs = some rs' := by
  have hact : b.active.length = b.nAct := active_length hwf.1.st_len hwf.2
  by_cases h0 : out.length = 0
  · have : out = [] := List.length_eq_zero_iff.mp h0
    subst this
    rw [procDoP_empty] at hr; cases hr
  by_cases h1 : out.length > b.active.length
  · rw [procDoP_too_many h b out h1] at hr; cases hr
  rw [procDoP_eq h b out h0 h1, hact] at hr
  obtain ⟨_, _, h2⟩ := bind_ok hr
  obtain ⟨⟨⟨hc', c'⟩, to'⟩, h3, h4⟩ := bind_ok h2
  simp only [pure, Except.pure] at h4
  cases h4
  have hlen : (padOut b.nAct out).length = b.nAct := length_padOut (by omega)
  have hsl := hwf.1.st_len
  have hinv0 : SI b (padOut b.nAct out) h (padOut b.nAct out).length b.recs.length h b := by
    refine ⟨hwf, hruns, HStep.refl _, by omega, fun _ _ => rfl, Nat.le_refl _, Nat.le_refl _, ?_, fun _ _ => NW.refl _,
      ?_, fun e he => Or.inl he, fun ht => ht⟩
    · intro k p hp
      have h1 := (List.getElem?_eq_some_iff.mp hp).1
      have h2 := (mem_actList.mp (List.mem_of_getElem? hp)).1
      have hna : b.nAct = (actList b.st).length := rfl
      constructor <;> intro <;> omega
    · refine ⟨[], by simp, ?_, fun p h1 h2 _ => by omega, fun a p o h1 ha _ => ?_⟩
      · rw [List.drop_eq_nil_of_le (by rw [length_rows]; exact Nat.le_refl _)]; rfl
      · have h2 := (mem_actList.mp (List.mem_of_getElem? ha)).1
        omega
  obtain ⟨P', inv1, z1⟩ := procGroupLoop_SI hwf (padOut b.nAct out).length h b _ _ hinv0
    (Nat.le_refl _) (Nat.le_refl _) (fun j h1 h2 => by omega) h3
  rw [z1 (by omega)] at inv1
  have hext := HiOK.extend (L := b'.rows) (by rw [length_rows]; exact inv1.Pc) inv1.Ple inv1.hi P' (Nat.le_refl _) (by
    intro x row _ hx2 hrow
    rw [getElem?_rows] at hrow
    have hxl : x < b'.recs.length := by have := inv1.Pc; omega
    simp only [hxl, if_true, Option.some.injEq] at hrow
    subst hrow
    have hna : x ∉ actList b.st := by
      intro hmem
      obtain ⟨a, ha⟩ := List.mem_iff_getElem?.mp hmem
      have := (inv1.lowA a x ha).mpr hx2
      omega
    constructor
    · intro _
      exact (inv1.low x hx2).eq_of_filter (rowAt_filter hsl (by have := inv1.Ple; omega) hna)
    · intro a o ha _
      exact absurd (List.mem_of_getElem? ha) hna)
  rw [Nat.sub_self] at hext
  obtain ⟨hk, l, e, g1, g2⟩ := hext
  refine ⟨⟨hlen, ⟨hk, by simpa using l, by simpa using e, ?_, ?_⟩, inv1.split, inv1.hstep.1, inv1.hstep.2, inv1.taint⟩,
    inv1.wf, inv1.runs⟩
  · intro p row hrow hna
    rw [getElem?_rows] at hrow
    by_cases hp : p < b.recs.length
    · simp only [hp, if_true, Option.some.injEq] at hrow
      subst hrow
      simpa using g1 p (Nat.zero_le _) hp hna
    · simp only [hp, if_false] at hrow
      cases hrow
  · intro a p row o ha hrow ho
    rw [getElem?_rows] at hrow
    by_cases hp : p < b.recs.length
    · simp only [hp, if_true, Option.some.injEq] at hrow
      subst hrow
      simpa using g2 a p o (Nat.zero_le _) ha ho
    · simp only [hp, if_false] at hrow
      cases hrow

end Conduit.Funnel
