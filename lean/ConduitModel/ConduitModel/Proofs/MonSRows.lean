import ConduitModel.Proofs.MonProcEffect
import ConduitModel.Proofs.PassSTask

/-!
# Batches as lists of rows; what `ProcessorTask.Do` does to the rows when records may be split

A *row* is one physical record of a batch: record, status, position, split run. `ProcEff` states the
effect of the pure core `procDoP` on the rows: every row of the batch is replaced by its *kids* — a
filtered (inactive) row by itself, an active row according to the reply for its active index
(`KidsOK`): one row for a kept / modified / filtered / failed / skipped record, the pieces for a split
record. Because a nack spreads over the unfiltered pieces of a split record, a status is only known
up to "… or flagged nack" (`FlagOK`).
-/
namespace Conduit.Funnel

structure Row where
  r : Rec
  st : Status
  pos : PosV
  run : Option Nat
deriving Repr, Inhabited

/-- the rows of a batch (the four parallel slices zipped) -/
def Batch.rows (b : Batch) : List Row :=
  (List.range b.recs.length).map fun k =>
    { r := b.recs[k]?.getD default, st := b.st[k]?.getD default, pos := (b.pos[k]?).getD none, run := b.runAt k }

/-- the status has flag `f`, unless a nack spread over it -/
def FlagOK (f : Flag) (st : Status) : Prop := st.flag = f ∨ st.flag = .nack

/-- the run the pieces of a split row belong to: the row's run, or a run allocated by the call -/
def NewRun (h h' : Heap) (split' : List (Nat × Rec)) (row : Row) (rid : Nat) : Prop :=
  (row.run = some rid ∧ rid < h.size) ∨
  (row.run = none ∧ h.size ≤ rid ∧ rid < h'.size ∧ row.pos ≠ none ∧ (h'[rid]!).origPos = row.pos ∧
    ((h'[rid]!).origRec = row.r ∨ ∃ e ∈ split', e.1 = keyOf row.pos ∧ (h'[rid]!).origRec = e.2) ∧
    (h'[rid]!).nacked = false ∧ (h'[rid]!).terminal = 0 ∧ (h'[rid]!).released = false)

/-- the pieces of a split row: records `ms`, statuses `sts`; the first keeps the position -/
def pieceRows (row : Row) (rid : Nat) (ms : List Rec) (sts : List Status) : List Row :=
  (List.range ms.length).map fun j =>
    { r := ms[j]?.getD default, st := sts[j]?.getD default, pos := if j = 0 then row.pos else none, run := some rid }

/-- the kids of an active row for the reply `o` -/
def KidsOK (h h' : Heap) (split' : List (Nat × Rec)) (row : Row) : PR → List Row → Prop
  | .single r', ks => ∃ st', ks = [{ row with r := r', st := st' }] ∧ FlagOK row.st.flag st'
  | .filter, ks => ∃ st', ks = [{ row with st := st' }] ∧ st'.flag = .filter
  | .error _, ks => ∃ st', ks = [{ row with st := st' }] ∧ st'.flag = .nack
  | .nil, ks => ∃ st', ks = [{ row with st := st' }] ∧ FlagOK .retry st'
  | .multi [], ks => ∃ st', ks = [{ row with st := st' }] ∧ st'.flag = .filter
  | .multi [r'], ks => ∃ st', ks = [{ row with r := r', st := st' }] ∧ FlagOK row.st.flag st'
  | .multi (r1 :: r2 :: ms), ks => ∃ (rid : Nat) (sts : List Status), sts.length = (r1 :: r2 :: ms).length ∧
      ks = pieceRows row rid (r1 :: r2 :: ms) sts ∧
      (∀ (j : Nat) (st' : Status), sts[j]? = some st' → FlagOK (if j = 0 then row.st.flag else .ack) st') ∧
      NewRun h h' split' row rid

/-- "a nack / retry flag implies tainted" -/
def TaintC (b : Batch) : Prop := ∀ st ∈ b.st, st.flag = .nack ∨ st.flag = .retry → b.tainted = true

/-- the effect of `procDoP h b out = .ok (h', b')` on the rows (`pad` = the padded reply) -/
structure ProcEff (h : Heap) (b : Batch) (pad : List PR) (h' : Heap) (b' : Batch) : Prop where
  /-- the reply covers exactly the active records -/
  padlen : pad.length = b.nAct
  kids : ∃ kids : List (List Row), kids.length = b.recs.length ∧ b'.rows = kids.flatten ∧
    (∀ (p : Nat) (row : Row), b.rows[p]? = some row → p ∉ actList b.st → kids[p]? = some [row]) ∧
    (∀ (a p : Nat) (row : Row) (o : PR), (actList b.st)[a]? = some p → b.rows[p]? = some row → pad[a]? = some o →
      ∃ ks, kids[p]? = some ks ∧ KidsOK h h' b'.split row o ks)
  /-- new entries of the split map are the records of run-less rows, under their own position -/
  split : ∀ e ∈ b'.split, e ∈ b.split ∨ ∃ row ∈ b.rows, row.run = none ∧ e = (keyOf row.pos, row.r)
  hsize : h.size ≤ h'.size
  /-- an existing run only has its total raised -/
  hold : ∀ rid : Nat, rid < h.size → ∃ t : Nat, (h[rid]!).total ≤ t ∧ h'[rid]! = { (h[rid]!) with total := t }
  taint : TaintC b → TaintC b'

end Conduit.Funnel
