import ConduitModel.Proofs.MonSBase

/-!
# The source map of a batch in flight: general lemmas
-/
namespace Conduit.Funnel
open Conduit.Funnel.Mon

namespace SM
variable {G : Ctx} {h : Heap} {b : Batch} {sm : List Nat}

/-- sources grow by at most one per row -/
theorem le (hm : SrcMap G h b sm) : ∀ (d k q q' : Nat), sm[k]? = some q → sm[k + d]? = some q' → q ≤ q' ∧ q' ≤ q + d := by
  intro d
  induction d with
  | zero => intro k q q' h1 h2; rw [Nat.add_zero, h1] at h2; cases h2; omega
  | succ d ih =>
    intro k q q' h1 h2
    have hlt : k + d < sm.length := by
      have := (List.getElem?_eq_some_iff.mp h2).1
      omega
    obtain ⟨g1, g2⟩ := ih k q _ h1 (List.getElem?_eq_getElem hlt)
    have := hm.step (k + d) _ q' (List.getElem?_eq_getElem hlt) (by rw [Nat.add_assoc]; exact h2)
    omega

theorem le' (hm : SrcMap G h b sm) {k k' q q' : Nat} (hk : k ≤ k') (h1 : sm[k]? = some q) (h2 : sm[k']? = some q') :
    q ≤ q' ∧ q' ≤ q + (k' - k) := by
  have := le hm (k' - k) k q q' h1 (by rw [show k + (k' - k) = k' by omega]; exact h2)
  exact this

/-- rows with the same source share a run -/
theorem same_run (hm : SrcMap G h b sm) : ∀ (d k : Nat) (q : Nat) (row row' : Row), 0 < d → sm[k]? = some q → sm[k + d]? = some q →
    b.rows[k]? = some row → b.rows[k + d]? = some row' → ∃ rid, row.run = some rid ∧ row'.run = some rid := by
  intro d
  induction d with
  | zero => intro k q row row' hd; omega
  | succ d ih =>
    intro k q row row' _ h1 h2 hr hr'
    have hlt : k + d < sm.length := by
      have := (List.getElem?_eq_some_iff.mp h2).1
      omega
    have hq : sm[k + d]? = some q := by
      obtain ⟨g1, _⟩ := le hm d k q _ h1 (List.getElem?_eq_getElem hlt)
      obtain ⟨g3, _⟩ := le hm 1 (k + d) _ q (List.getElem?_eq_getElem hlt) (by rw [Nat.add_assoc]; exact h2)
      rw [List.getElem?_eq_getElem hlt]
      congr 1; omega
    have hlr : k + d < b.rows.length := by rw [← hm.len]; exact hlt
    obtain ⟨rowd, hrowd⟩ : ∃ rowd, b.rows[k + d]? = some rowd := ⟨_, List.getElem?_eq_getElem hlr⟩
    obtain ⟨rid, a1, a2⟩ := hm.same (k + d) rowd row' q hrowd (by rw [Nat.add_assoc]; exact hr') hq
      (by rw [Nat.add_assoc]; exact h2)
    by_cases hd0 : d = 0
    · subst hd0
      rw [Nat.add_zero, hr] at hrowd
      cases hrowd
      exact ⟨rid, a1, a2⟩
    · obtain ⟨rid', c1, c2⟩ := ih k q row rowd (by omega) h1 hq hr hrowd
      rw [a1] at c2
      cases c2
      exact ⟨rid, c1, a2⟩

theorem same_run' (hm : SrcMap G h b sm) {k k' q : Nat} {row row' : Row} (hk : k < k') (h1 : sm[k]? = some q)
    (h2 : sm[k']? = some q) (hr : b.rows[k]? = some row) (hr' : b.rows[k']? = some row') :
    ∃ rid, row.run = some rid ∧ row'.run = some rid := by
  have e : k + (k' - k) = k' := by omega
  exact same_run hm (k' - k) k q row row' (by omega) h1 (by rw [e]; exact h2) hr (by rw [e]; exact hr')

/-- a row without run has a source of its own -/
theorem norun_unique (hm : SrcMap G h b sm) {k k' q : Nat} {row row' : Row} (h1 : sm[k]? = some q) (h2 : sm[k']? = some q)
    (hr : b.rows[k]? = some row) (hr' : b.rows[k']? = some row') (hn : row.run = none) : k' = k := by
  rcases Nat.lt_trichotomy k k' with hlt | heq | hgt
  · obtain ⟨rid, a1, _⟩ := same_run' hm hlt h1 h2 hr hr'
    rw [hn] at a1; cases a1
  · exact heq.symm
  · obtain ⟨rid, _, a2⟩ := same_run' hm hgt h2 h1 hr' hr
    rw [hn] at a2; cases a2

/-- the rows of a run have the same source -/
theorem run_src (hs : Src G) (hm : SrcMap G h b sm) {k k' q q' rid : Nat} {row row' : Row} (h1 : sm[k]? = some q)
    (h2 : sm[k']? = some q') (hr : b.rows[k]? = some row) (hr' : b.rows[k']? = some row') (e1 : row.run = some rid)
    (e2 : row'.run = some rid) : q = q' := by
  obtain ⟨src, s1, k1, _⟩ := hm.key k row q hr h1
  obtain ⟨src', s2, k2, _⟩ := hm.key k' row' q' hr' h2
  apply hs.idx_of_key s1 s2
  rw [← k1, ← k2]
  unfold rowKey
  rw [e1, e2]

/-- the source of row `k` -/
theorem srcOf (hm : SrcMap G h b sm) {k : Nat} {row : Row} (hr : b.rows[k]? = some row) :
    ∃ q src, sm[k]? = some q ∧ G.all[q]? = some src ∧ rowKey h row = keyR src ∧ root row.r = root src := by
  have hk : k < sm.length := by rw [hm.len]; exact (List.getElem?_eq_some_iff.mp hr).1
  obtain ⟨src, a1, a2, a3⟩ := hm.key k row _ hr (List.getElem?_eq_getElem hk)
  exact ⟨_, src, List.getElem?_eq_getElem hk, a1, a2, a3⟩

/-- roots do not decrease along the rows -/
theorem root_le (hs : Src G) (hm : SrcMap G h b sm) {k k' : Nat} {row row' : Row} (hk : k ≤ k')
    (hr : b.rows[k]? = some row) (hr' : b.rows[k']? = some row') : root row.r ≤ root row'.r := by
  obtain ⟨q, src, a1, a2, _, a4⟩ := srcOf hm hr
  obtain ⟨q', src', b1, b2, _, b4⟩ := srcOf hm hr'
  rw [a4, b4]
  obtain ⟨g1, _⟩ := le' hm hk a1 b1
  rcases Nat.lt_or_ge q q' with hlt | hge
  · exact Nat.le_of_lt (hs.root_lt a2 b2 hlt)
  · have : q = q' := by omega
    subst this
    rw [a2] at b2; cases b2; exact Nat.le_refl _

/-- the map only depends on the original positions of the runs of the batch -/
theorem heap {h' : Heap} (hm : SrcMap G h b sm)
    (ho : ∀ row ∈ b.rows, ∀ rid, row.run = some rid → (h'[rid]!).origPos = (h[rid]!).origPos) : SrcMap G h' b sm := by
  refine ⟨hm.len, hm.step, ?_, hm.same⟩
  intro k row q hr hq
  obtain ⟨src, a1, a2, a3⟩ := hm.key k row q hr hq
  refine ⟨src, a1, ?_, a3⟩
  rw [← a2]
  unfold rowKey
  cases hrun : row.run with
  | none => rfl
  | some rid => simp only []; rw [ho row (List.mem_of_getElem? hr) rid hrun]

end SM

/-- the pieces of run `rid` among the rows `≥ i` -/
theorem cnt_drop_pos {b : Batch} {rs : List (Option Nat)} (hb : VB b rs) {rid i : Nat} :
    0 < cnt rid (b.view.drop i) ↔ ∃ (k : Nat) (row : Row), i ≤ k ∧ b.rows[k]? = some row ∧ row.run = some rid := by
  unfold cnt
  rw [List.countP_pos_iff]
  constructor
  · rintro ⟨x, hx, hx2⟩
    obtain ⟨n, hn⟩ := List.getElem?_of_mem hx
    rw [List.getElem?_drop] at hn
    obtain ⟨row, hr, e1, _⟩ := view_rows hb hn
    refine ⟨i + n, row, by omega, hr, ?_⟩
    rw [e1]; simpa using hx2
  · rintro ⟨k, row, hk, hr, hrun⟩
    have hv := rows_view hb hr
    refine ⟨(row.run, row.pos), ?_, by simp [hrun]⟩
    apply List.mem_of_getElem? (i := k - i)
    rw [List.getElem?_drop, show i + (k - i) = k by omega]
    exact hv

theorem cnt_pos {b : Batch} {rs : List (Option Nat)} (hb : VB b rs) {rid : Nat} :
    0 < cnt rid b.view ↔ ∃ (k : Nat) (row : Row), b.rows[k]? = some row ∧ row.run = some rid := by
  have := cnt_drop_pos hb (rid := rid) (i := 0)
  simp only [List.drop_zero, Nat.zero_le, true_and] at this
  exact this

/-! ## the split map of a sub-batch -/

theorem lookup_mem {m : List (Nat × Rec)} {k : Nat} {r : Rec} (h : lookup m k = some r) : (k, r) ∈ m := by
  unfold lookup at h
  cases hf : m.find? (·.1 == k) with
  | none => rw [hf] at h; cases h
  | some x =>
    rw [hf] at h
    have h := Option.some.inj h
    have h1 := List.find?_some hf
    have h2 := List.mem_of_find?_eq_some hf
    have : x = (k, r) := by
      obtain ⟨a, c⟩ := x
      have h1' : a = k := by simpa using h1
      have h' : c = r := h
      rw [h1', h']
    rw [← this]; exact h2

theorem subSplit_foldl (sp : List (Nat × Rec)) (ps : List PosV) : ∀ (acc : List (Nat × Rec)),
    (∀ e ∈ acc, lookup sp e.1 = some e.2) →
    ∀ e ∈ ps.foldl (fun acc p => if (p == none) = true then acc else match lookup sp (keyOf p) with
        | some r => if (lookup acc (keyOf p)).isSome = true then acc else acc ++ [(keyOf p, r)]
        | none => acc) acc, lookup sp e.1 = some e.2 := by
  induction ps with
  | nil => intro acc ha e he; exact ha e he
  | cons p ps ih =>
    intro acc ha
    rw [List.foldl_cons]
    apply ih
    intro e he
    by_cases hpn : (p == none) = true
    · simp only [hpn, if_true] at he; exact ha e he
    · simp only [hpn] at he
      cases hlk : lookup sp (keyOf p) with
      | none => rw [hlk] at he; exact ha e he
      | some r =>
        rw [hlk] at he
        by_cases hl : (lookup acc (keyOf p)).isSome = true
        · simp only [hl, if_true] at he; exact ha e he
        · simp only [hl] at he
          rcases List.mem_append.mp he with hm | hm
          · exact ha e hm
          · simp only [List.mem_singleton] at hm
            rw [hm]; exact hlk

/-- the split map of a sub-batch is a part of the batch's split map -/
theorem sub_split {b sb : Batch} {i j : Nat} (h : b.sub i j = .ok sb) : ∀ e ∈ sb.split, lookup b.split e.1 = some e.2 := by
  have key : ∀ e ∈ (if b.split.length ≠ 0 then
        List.foldl (fun acc p => if (p == none) = true then acc else match lookup b.split (keyOf p) with
          | some r => if (lookup acc (keyOf p)).isSome = true then acc else acc ++ [(keyOf p, r)]
          | none => acc) [] (List.drop i (List.take j b.pos)) else []), lookup b.split e.1 = some e.2 := by
    intro e he
    by_cases hc : b.split.length ≠ 0
    · rw [if_pos hc] at he
      exact subSplit_foldl b.split _ [] (fun _ h => by cases h) e he
    · rw [if_neg hc] at he; cases he
  by_cases hc : (i > j ∨ j > b.recs.length ∨ j > b.st.length ∨ j > b.pos.length)
  · unfold Batch.sub at h
    simp only [hc, if_true] at h
    cases h
  · unfold Batch.sub at h
    simp only [hc, if_false] at h
    rcases hr : b.runs with _ | rs
    · rw [hr] at h
      simp only [bind, Except.bind, pure, Except.pure] at h
      cases h
      exact key
    · rw [hr] at h
      by_cases hg : j > rs.length
      · simp only [hg, if_true, bind, Except.bind] at h
        cases h
      · simp only [hg, if_false, bind, Except.bind, pure, Except.pure] at h
        cases h
        exact key

theorem lookup_none_of_sub {b sb : Batch} {i j : Nat} (h : b.sub i j = .ok sb) {k : Nat} (hn : lookup b.split k = none) :
    lookup sb.split k = none := by
  cases hl : lookup sb.split k with
  | none => rfl
  | some r =>
    have := sub_split h (k, r) (lookup_mem hl)
    simp only at this
    rw [hn] at this; cases this

end Conduit.Funnel
