import ConduitModel.Proofs.MonSPipe

/-!
# Passes and runs of a linear pipeline WITH record splitting against the monitor
-/
namespace Conduit.Funnel
open Conduit.Funnel.Mon

/-- the rows of a batch just read -/
theorem new_rows (recs : List Rec) {k : Nat} {row : Row} (h : (Batch.new recs).rows[k]? = some row) :
    ∃ x, recs[k]? = some x ∧ row = { r := x, st := {}, pos := x.pos, run := none } := by
  have hk : k < (Batch.new recs).recs.length := by
    have := (List.getElem?_eq_some_iff.mp h).1
    rwa [rows_length] at this
  rw [rows_get _ hk] at h
  have hk' : k < recs.length := hk
  refine ⟨recs[k], List.getElem?_eq_getElem hk', ?_⟩
  rw [← Option.some.inj h]
  simp [Batch.new, Batch.runAt, hk']

theorem new_rows_length (recs : List Rec) : (Batch.new recs).rows.length = recs.length := by rw [rows_length]; rfl

theorem range'_get (n0 len k : Nat) : (List.range' n0 len)[k]? = if k < len then some (n0 + k) else none := by
  by_cases hk : k < len
  · simp [hk, List.getElem?_range']
  · simp only [hk, if_false]
    rw [List.getElem?_eq_none_iff]; simp; omega

theorem tag_inj_of_root {a b : Rec} (h : a.tag = b.tag) : root a = root b := by unfold root; rw [h]

/-- one pass on the batch `recs` = the records `n0 …` read -/
theorem runPass_monS {G : Ctx} (hs : Src G) (D : DepsS G) (ht : TreeOK G) (fuel : Nat) (recs : List Rec) (n0 : Nat)
    {s s' : PS} {r : Except Stop Unit} (hI : GInv G s) (hq : Rested G s) (hw : WSeen G s) (hheap : s.heap.size = 0)
    (hf : nAcked s = n0)
    (hrecs : ∀ (q : Nat) (x : Rec), recs[q]? = some x → G.all[n0 + q]? = some x)
    (h : exec (runPass fuel G.tree recs) s = (r, s')) (hrp : RP G s') (hft : FT G s') :
    OutS G (fun _ => 0) (fun _ => False) (Batch.new recs) (List.range' n0 recs.length) 0 (n0 + recs.length) s s' r := by
  unfold runPass at h
  have hpend : ∀ (q : Nat) (src : Rec), G.all[n0 + q]? = some src → ¬ NonPend G n0 (root src) := by
    intro q src hsrc hn
    have := hn.lt hs hsrc (by omega)
    omega
  have hclean : ∀ (q : Nat) (src : Rec), G.all[n0 + q]? = some src → Clean (G.mu s) (root src) := by
    intro q src hsrc
    refine ⟨fun hx => hpend q src hsrc (hf ▸ hq.err _ hx), fun e he hr => ?_⟩
    exact absurd (hf ▸ hr ▸ hq.wr e he) (hpend q src hsrc)
  have hpos : ∀ x ∈ recs, x.pos ≠ none := by
    intro x hx hn
    obtain ⟨q, hq'⟩ := List.getElem?_of_mem hx
    have := hs.key_ne_zero (List.mem_of_getElem? (hrecs q x hq'))
    apply this
    show keyOf x.pos = 0
    rw [hn]; rfl
  have hsi := new_SInv s.heap recs hpos
  obtain ⟨rs, hvb⟩ := hsi.vb
  have hcnt0 : ∀ rid : Nat, cnt rid (Batch.new recs).view = 0 := by
    intro rid
    rw [new_view]
    unfold cnt
    rw [List.countP_eq_zero]
    intro x hx
    rw [List.mem_map] at hx
    obtain ⟨_, _, rfl⟩ := hx
    simp
  have hsm : ∀ (k q : Nat), (List.range' n0 recs.length)[k]? = some q → q = n0 + k ∧ k < recs.length := by
    intro k q hk
    rw [range'_get] at hk
    split at hk
    · exact ⟨(Option.some.inj hk).symm, by assumption⟩
    · cases hk
  refine (pipeS_all hs D fuel).1 G.tree [] (n0 + recs.length) (Batch.new recs) (List.range' n0 recs.length) (fun _ => 0)
    (fun _ => False) none true s s' r ht.lin ⟨fun d hd => Or.inr hd, ht.nodup⟩ (fun _ => ht.src) ?_ rfl ?_ h hrp hft
  · refine ⟨hI, hw, hsi.tinv, ?_, ?_, ?_, ?_, (fun _ hd => hd.elim), ?_, ?_, ?_, ?_, ?_, ?_, ?_, ?_⟩
    · -- srcmap
      refine ⟨by rw [new_rows_length]; simp, ?_, ?_, ?_⟩
      · intro k q q' h1 h2
        obtain ⟨e1, _⟩ := hsm k q h1
        obtain ⟨e2, _⟩ := hsm (k + 1) q' h2
        right; omega
      · intro k row q hr hq'
        obtain ⟨x, hx, rfl⟩ := new_rows recs hr
        obtain ⟨e1, _⟩ := hsm k q hq'
        subst e1
        exact ⟨x, hrecs k x hx, rfl, rfl⟩
      · intro k row row' q _ _ h1 h2
        obtain ⟨e1, _⟩ := hsm k q h1
        obtain ⟨e2, _⟩ := hsm (k + 1) q h2
        omega
    · intro q hq'
      obtain ⟨e1, _⟩ := hsm 0 q hq'
      rw [hf, e1]; rfl
    · -- nextok
      intro row q hl hlq
      rw [List.getLast?_eq_getElem?] at hl hlq
      obtain ⟨x, _, rfl⟩ := new_rows recs hl
      obtain ⟨e1, e2⟩ := hsm _ q hlq
      right
      refine ⟨?_, fun rid hh => nomatch hh⟩
      simp only [List.length_range'] at e1 e2
      omega
    · intro rid hr; exact absurd hr (Nat.lt_irrefl 0)
    · intro rid hlt; omega
    · intro rid hlt; omega
    · intro rid hc; rw [List.drop_zero, hcnt0] at hc; exact absurd hc (Nat.lt_irrefl 0)
    · intro e he; cases he
    · intro k row _ _; rfl
    · -- facts
      refine ⟨?_, ?_, ?_, ?_⟩
      · intro k row q src _ _ _ _ _ d hd; cases hd
      · intro k row q src _ hr _ _ hfl
        obtain ⟨x, _, rfl⟩ := new_rows recs hr
        cases hfl
      · intro k row q src _ hr _ _ hfl
        obtain ⟨x, _, rfl⟩ := new_rows recs hr
        cases hfl
      · intro k row q src _ hr hq' hsrc _ _
        obtain ⟨e1, _⟩ := hsm k q hq'
        subst e1
        exact hclean k src hsrc
    · -- tags
      refine ⟨?_, ?_, ?_⟩
      · rw [List.nodup_iff_pairwise_ne, List.pairwise_iff_getElem]
        intro a c ha hc hac heq
        simp only [List.getElem_map] at heq
        simp only [List.length_map] at ha hc
        obtain ⟨x, hx, e1⟩ := new_rows recs (List.getElem?_eq_getElem ha)
        obtain ⟨y, hy, e2⟩ := new_rows recs (List.getElem?_eq_getElem hc)
        rw [e1, e2] at heq
        have := hs.idx_of_root (hrecs a x hx) (hrecs c y hy) (tag_inj_of_root heq)
        omega
      · intro k row _ hr
        obtain ⟨x, hx, rfl⟩ := new_rows recs hr
        unfold Seen
        apply seenRun_sub
        exact List.mem_map.mpr ⟨x, List.mem_of_getElem? (hrecs k x hx), rfl⟩
      · intro k row _ hr _ e he _ heq
        obtain ⟨x, hx, rfl⟩ := new_rows recs hr
        have h1 := hI.wr e he
        have h2 := hq.wr e he
        rw [hf] at h2
        apply hpend k x (hrecs k x hx)
        have : root x = e.2.1 := by rw [h1, heq]; rfl
        rw [this]; exact h2
    · intro e he _
      exact (hq.wr e he).mono (by omega)
  · intro q st hst
    simp only [Batch.new, List.getElem?_map] at hst
    cases hx : recs[q]? with
    | none => rw [hx] at hst; cases hst
    | some x => rw [hx] at hst; cases hst; exact Or.inl rfl

/-- the passes of a run, from a state between two passes -/
theorem runBatches_monS {G : Ctx} (hs : Src G) (D : DepsS G) (ht : TreeOK G) (fuel : Nat) :
    ∀ (rest done : List (List Rec)) (s s' : PS) (r : Except Stop Unit),
      G.batches = done ++ rest → GInv G s → Rested G s → WSeen G s → nAcked s = done.flatten.length →
      exec (runBatches fuel G.tree rest) s = (r, s') → RP G s' → FT G s' → (G.mu s').tv = [] := by
  intro rest
  induction rest with
  | nil =>
    intro done s s' r _ hI _ _ _ h _ _
    rw [exec_runBatches_nil] at h
    cases h
    exact hI.safe
  | cons b bs ih =>
    intro done s s' r hb hI hq hw hf h hrp hft
    rw [exec_runBatches_cons] at h
    rcases hx : exec (runPass fuel G.tree b) (resetPass s) with ⟨r1, s1⟩
    rw [hx] at h
    have hI0 : GInv G (resetPass s) := hI.same rfl rfl
    have hq0 : Rested G (resetPass s) := hq.same rfl
    have hw0 : WSeen G (resetPass s) := by
      intro e he
      have hm : G.mu (resetPass s) = G.mu s := mu_same G s _ rfl
      rw [hm] at he
      have hsn : Seen G (resetPass s) = Seen G s := Seen.same rfl
      rw [hsn]
      exact hw e he
    have hf0 : nAcked (resetPass s) = done.flatten.length := hf
    have hrecs : ∀ (q : Nat) (x : Rec), b[q]? = some x → G.all[done.flatten.length + q]? = some x := by
      intro q x hqx
      have hql := (List.getElem?_eq_some_iff.mp hqx).1
      unfold Ctx.all
      rw [hb, List.flatten_append, List.flatten_cons, List.getElem?_append_right (by omega),
        Nat.add_sub_cancel_left, List.getElem?_append_left hql]
      exact hqx
    cases r1 with
    | error e =>
      dsimp only at h
      cases h
      exact (runPass_monS hs D ht fuel b _ hI0 hq0 hw0 rfl hf0 hrecs hx hrp hft).safe
    | ok u =>
      cases u
      dsimp only at h
      have hmono : s1.log.toList <+: s'.log.toList := by
        have := runBatches_log_mono fuel G.tree bs s1
        rw [h] at this
        exact this
      have o1 := runPass_monS hs D ht fuel b _ hI0 hq0 hw0 rfl hf0 hrecs hx (hrp.prefix hmono) (hft.prefix hmono)
      have g1 := o1.ginv rfl
      have g3 := o1.ext rfl
      have g2 : nAcked s1 = done.flatten.length + b.length := by
        by_cases hb0 : 0 < (List.range' done.flatten.length b.length).length
        · exact o1.front rfl hb0
        · have hb0' : b.length = 0 := by simpa using hb0
          rw [o1.front0 rfl (by simp [hb0']), hf0, hb0']; rfl
      have hq1 : Rested G s1 := by
        have hin : ∀ ρ, RootsOf G (List.range' done.flatten.length b.length) 0 ρ → NonPend G (nAcked s1) ρ := by
          rintro ρ ⟨k, q, src, _, hq', hsrc, hroot⟩
          rw [range'_get] at hq'
          split at hq'
          · refine ⟨q, src, ?_, hsrc, hroot⟩
            have := Option.some.inj hq'
            omega
          · cases hq'
        refine ⟨?_, ?_⟩
        · intro x hx
          rcases g3.err_new x hx with h1 | h1
          · exact (hq0.err x h1).mono (by rw [g2, hf0]; omega)
          · exact hin x h1
        · intro e he
          rcases g3.wr_new e he with h1 | h1
          · exact (hq0.wr e h1).mono (by rw [g2, hf0]; omega)
          · exact hin _ h1
      refine ih (done ++ [b]) s1 s' r (by rw [hb]; simp) g1 hq1 (o1.wseen rfl) ?_ h hrp hft
      rw [g2]; simp

end Conduit.Funnel
