import ConduitModel.Proofs.MonSBase
import ConduitModel.Proofs.MonWorkerNack

/-!
# `runAckNacker(Worker).vote` against the monitor, with split runs

The vote loop of the root handler chain on a batch whose rows stem from consecutive source records
starting at the read frontier: records without run are acknowledged / dead-lettered at once (they
must be justified), a run is released when its last piece is voted — as an ack only if no piece was
ever nacked, and then the ledger invariants (`HTouch`, `CI`) justify the acknowledgement.
-/
namespace Conduit.Funnel
open Conduit.Funnel.Mon


/-! ## the monitor facts the vote loop never touches -/

/-- `written`, `errored`, `filtered` and the seen tags are the same in both states -/
structure SameW (G : Ctx) (s s' : PS) : Prop where
  wr : (G.mu s').written = (G.mu s).written
  err : (G.mu s').errored = (G.mu s).errored
  fil : (G.mu s').filtered = (G.mu s).filtered
  seen : Seen G s' = Seen G s

theorem SameW.refl (G : Ctx) (s : PS) : SameW G s s := ⟨rfl, rfl, rfl, rfl⟩

theorem SameW.trans {G : Ctx} {a b c : PS} (h1 : SameW G a b) (h2 : SameW G b c) : SameW G a c :=
  ⟨h2.wr.trans h1.wr, h2.err.trans h1.err, h2.fil.trans h1.fil, h2.seen.trans h1.seen⟩

theorem SameW.of_log {G : Ctx} {s s' : PS} (h : s'.log = s.log) : SameW G s s' := by
  have hm := mu_same G s s' h
  exact ⟨by rw [hm], by rw [hm], by rw [hm], Seen.same h⟩

theorem SameW.push_dlqw {G : Ctx} {s s' : PS} (t : Nat) (recs : List (Rec × Option Err × Nat))
    (h : s'.log = s.log.push (.dlqw t recs)) : SameW G s s' := by
  refine ⟨written_push_dlqw G s s' t recs h, ?_, ?_, Seen.push_other _ h (fun _ _ hh => Ev.noConfusion hh)⟩
  · rw [mu_push G s s' _ h]; rfl
  · rw [mu_push G s s' _ h]; rfl

theorem SameW.push_sack {G : Ctx} {s s' : PS} (ps : List PosV) (h : s'.log = s.log.push (.sack ps)) : SameW G s s' := by
  refine ⟨written_push_sack G s s' ps h, ?_, ?_, Seen.push_other _ h (fun _ _ hh => Ev.noConfusion hh)⟩
  · rw [mu_push G s s' _ h]; exact (foldl_ackT_fields G.tree ps (G.mu s)).2.2.2.1
  · rw [mu_push G s s' _ h]; exact (foldl_ackT_fields G.tree ps (G.mu s)).2.2.1

theorem workerAck_sameW (G : Ctx) (b : Batch) (s s' : PS) (r : Except Stop Unit) (h : exec (workerAck b) s = (r, s')) :
    SameW G s s' := by
  have h1 : exec (workerAck b) s = workerAckP s b := workerAck_eq b s
  rw [h1] at h
  unfold workerAckP at h
  split at h
  · cases h; exact SameW.refl G s
  · dsimp only at h
    split at h <;> cases h <;> exact SameW.push_sack _ rfl

theorem workerNack_sameW (G : Ctx) (b : Batch) (task : Nat) (s s' : PS) (r : Except Stop Unit)
    (h : exec (workerNack b task) s = (r, s')) : SameW G s s' := by
  have h1 : exec (workerNack b task) s = workerNackP s b task := workerNack_eq b task s
  rw [h1] at h
  have hw : SameW G s (stWrite s b task) := SameW.push_dlqw s.dlqTask _ rfl
  rcases workerNackP_spec s b task with ⟨r', h', _⟩ | ⟨r', h', _⟩ | ⟨n, r', h', _⟩ <;> rw [h'] at h <;> cases h
  · exact SameW.of_log rfl
  · exact hw
  · exact hw.trans (SameW.push_sack (s := stWrite s b task) _ rfl)

/-- a call of the worker (the parent of the root `runAckNacker`) -/
theorem workerCall_sameW (G : Ctx) (fuel : Nat) (b : Batch) (isAck : Bool) (task : Nat) (s s' : PS) (r : Except Stop Unit)
    (h : exec (ackerCall fuel .worker b isAck task) s = (r, s')) : SameW G s s' := by
  cases fuel with
  | zero => rw [ackerCall] at h; cases h; exact SameW.refl G s
  | succ f =>
    rw [ackerCall] at h
    cases isAck with
    | true => simp only [if_true] at h; exact workerAck_sameW G b s s' r h
    | false => simp only [Bool.false_eq_true, if_false] at h; exact workerNack_sameW G b task s s' r h

theorem Clean.same {G : Ctx} {s s' : PS} {ρ : Nat} (h : SameW G s s') : Clean (G.mu s') ρ ↔ Clean (G.mu s) ρ := by
  unfold Clean; rw [h.wr, h.err]

theorem Touch.same {G : Ctx} {s s' : PS} {ρ : Nat} (h : SameW G s s') : Touch G.tree (G.mu s') ρ ↔ Touch G.tree (G.mu s) ρ := by
  unfold Touch WrittenTo; rw [h.wr, h.fil]

theorem WSeen.same {G : Ctx} {s s' : PS} (h : SameW G s s') (hw : WSeen G s) : WSeen G s' := by
  intro e he
  rw [h.wr] at he
  rw [h.seen]
  exact hw e he

/-- a clean record that every destination saw (or that was filtered) passes the monitor's test -/
theorem viaDests_of_clean_touch {tree : TaskNode} {μ : TSt} {ρ : Nat} (hc : Clean μ ρ) (ht : Touch tree μ ρ) :
    viaDestsT tree μ ρ = true := by
  unfold viaDestsT
  rw [List.all_eq_true]
  intro d hdm
  simp only [Bool.and_eq_true, Bool.or_eq_true, List.all_eq_true, Bool.not_eq_true']
  constructor
  · intro e he
    rw [List.mem_filter] at he
    have : e.2.1 = ρ := by have := he.2; simp at this; exact this.2
    exact hc.2 e he.1 this
  · rcases ht d hdm with ⟨e, hm, h1, h2⟩ | hf
    · left
      rw [List.isEmpty_eq_false_iff_exists_mem]
      exact ⟨e, List.mem_filter.mpr ⟨hm, by simp [h1, h2]⟩⟩
    · right
      simpa using hf



/-! ## the extent scan is maximal -/

theorem extent_go_max (batch : Batch) (run : Option Nat) (s : PS) (rs : List (Option Nat)) (hrs : batch.runs = some rs) :
    ∀ (cnt start : Nat), start + cnt ≤ rs.length →
    ∃ j, exec (forIn (List.range' start cnt) start (extentBody batch run)) s = (.ok j, s) ∧ start ≤ j ∧
      j ≤ start + cnt ∧ (∀ k : Nat, start ≤ k → k < j → rs[k]? = some run) ∧ (j < start + cnt → rs[j]? ≠ some run) := by
  intro cnt
  induction cnt with
  | zero => intro start _; exact ⟨start, rfl, Nat.le_refl _, Nat.le_refl _, fun k h1 h2 => by omega, fun h => by omega⟩
  | succ cnt ih =>
    intro start hle
    rw [List.range'_succ, List.forIn_cons, exec_bind]
    have hlt : start < rs.length := by omega
    have hra : runAt batch start = .ok rs[start] := by
      unfold runAt; rw [hrs]; exact idx_ok _ hlt
    by_cases heq : (rs[start] == run) = true
    · have : exec (extentBody batch run start start) s = (.ok (.yield (start + 1)), s) := by
        unfold extentBody
        simp only [beq_self_eq_true, if_true]
        rw [exec_bind, hra, exec_liftR_ok]
        simp [exec_pure, heq]
      rw [this]
      dsimp only
      obtain ⟨j, h1, h2, h3, h4, h5⟩ := ih (start + 1) (by omega)
      refine ⟨j, h1, by omega, by omega, ?_, fun hj => h5 (by omega)⟩
      intro k hk1 hk2
      by_cases hks : k = start
      · subst hks
        rw [List.getElem?_eq_getElem hlt]
        exact congrArg some (by simpa using heq)
      · exact h4 k (by omega) hk2
    · have : exec (extentBody batch run start start) s = (.ok (.yield start), s) := by
        unfold extentBody
        simp only [beq_self_eq_true, if_true]
        rw [exec_bind, hra, exec_liftR_ok]
        simp [exec_pure, heq]
      rw [this]
      dsimp only
      rw [extent_stop batch run s cnt (start + 1) start (by omega)]
      refine ⟨start, rfl, Nat.le_refl _, by omega, fun k h1 h2 => by omega, fun _ => ?_⟩
      rw [List.getElem?_eq_getElem hlt]
      intro h
      exact heq (by rw [Option.some.inj h]; exact beq_self_eq_true _)

/-! ## the split map of a sub-batch -/

theorem sub_split_eq {b sb : Batch} {i j : Nat} (h : b.sub i j = .ok sb) :
    sb.split = if b.split.length ≠ 0 then
        List.foldl (fun acc p => if (p == none) = true then acc else match lookup b.split (keyOf p) with
          | some r => if (lookup acc (keyOf p)).isSome = true then acc else acc ++ [(keyOf p, r)]
          | none => acc) [] (List.drop i (List.take j b.pos)) else [] := by
  by_cases hc : (i > j ∨ j > b.recs.length ∨ j > b.st.length ∨ j > b.pos.length)
  · unfold Batch.sub at h
    simp only [hc, if_true] at h
    cases h
  · unfold Batch.sub at h
    simp only [hc, if_false] at h
    rcases hr : b.runs with _ | rs
    · rw [hr] at h
      simp only [bind, Except.bind, pure, Except.pure] at h
      cases h
      rfl
    · rw [hr] at h
      by_cases hg : j > rs.length
      · simp only [hg, if_true, bind, Except.bind] at h
        cases h
      · simp only [hg, if_false, bind, Except.bind, pure, Except.pure] at h
        cases h
        rfl

/-- a slice none of whose positions has an entry in the split map yields a sub-batch with an empty split map -/
theorem sub_split_nil {b sb : Batch} {i j : Nat} (h : b.sub i j = .ok sb)
    (hk : ∀ p ∈ (b.pos.take j).drop i, lookup b.split (keyOf p) = none) : sb.split = [] := by
  rw [sub_split_eq h]
  split
  · have : ∀ (l : List PosV) (acc : List (Nat × Rec)), (∀ p ∈ l, lookup b.split (keyOf p) = none) →
        List.foldl (fun acc p => if (p == none) = true then acc else match lookup b.split (keyOf p) with
          | some r => if (lookup acc (keyOf p)).isSome = true then acc else acc ++ [(keyOf p, r)]
          | none => acc) acc l = acc := by
      intro l
      induction l with
      | nil => intro acc _; rfl
      | cons p l ih =>
        intro acc hl
        rw [List.foldl_cons, hl p List.mem_cons_self]
        simp only [ite_self]
        exact ih acc (fun p hp => hl p (List.mem_cons_of_mem _ hp))
    exact this _ [] hk
  · rfl



/-! ## the source map -/

theorem rows_some (b : Batch) {k : Nat} (hk : k < b.recs.length) : ∃ row, b.rows[k]? = some row :=
  ⟨_, rows_get b hk⟩

theorem rows_lt {b : Batch} {k : Nat} {row : Row} (h : b.rows[k]? = some row) : k < b.recs.length := by
  have := (List.getElem?_eq_some_iff.mp h).1
  rwa [rows_length] at this

namespace SrcMap
variable {G : Ctx} {h : Heap} {b : Batch} {sm : List Nat}

theorem get (hm : SrcMap G h b sm) {k : Nat} (hk : k < b.recs.length) : ∃ q, sm[k]? = some q := by
  have : k < sm.length := by rw [hm.len, rows_length]; exact hk
  exact ⟨_, List.getElem?_eq_getElem this⟩

theorem lt (hm : SrcMap G h b sm) {k q : Nat} (hk : sm[k]? = some q) : k < b.recs.length := by
  have := (List.getElem?_eq_some_iff.mp hk).1
  rwa [hm.len, rows_length] at this

/-- the sources grow, by at most one per row -/
theorem step_le (hm : SrcMap G h b sm) : ∀ (d k q q' : Nat), sm[k]? = some q → sm[k + d]? = some q' → q ≤ q' ∧ q' ≤ q + d := by
  intro d
  induction d with
  | zero =>
    intro k q q' h1 h2
    rw [Nat.add_zero, h1] at h2
    cases h2
    exact ⟨Nat.le_refl _, Nat.le_refl _⟩
  | succ d ih =>
    intro k q q' h1 h2
    obtain ⟨q2, hq2⟩ := hm.get (k := k + d) (by have := hm.lt h2; omega)
    obtain ⟨a1, a2⟩ := ih k q q2 h1 hq2
    rcases hm.step (k + d) q2 q' hq2 h2 with e | e <;> omega

theorem le_of_le (hm : SrcMap G h b sm) {k k' q q' : Nat} (hkk : k ≤ k') (h1 : sm[k]? = some q) (h2 : sm[k']? = some q') :
    q ≤ q' := by
  have : k' = k + (k' - k) := by omega
  rw [this] at h2
  exact (hm.step_le _ k q q' h1 h2).1

/-- rows between two rows of one source have that source -/
theorem between (hm : SrcMap G h b sm) {k m k' q : Nat} (h1 : k ≤ m) (h2 : m ≤ k') (hk : sm[k]? = some q)
    (hk' : sm[k']? = some q) : sm[m]? = some q := by
  obtain ⟨qm, hqm⟩ := hm.get (k := m) (by have := hm.lt hk'; omega)
  have a := hm.le_of_le h1 hk hqm
  have c := hm.le_of_le h2 hqm hk'
  rw [hqm]; congr 1; omega

/-- two rows of one source share a run -/
theorem run_of_src (hm : SrcMap G h b sm) : ∀ (d k : Nat) (row row' : Row) (q : Nat), b.rows[k]? = some row →
    b.rows[k + d + 1]? = some row' → sm[k]? = some q → sm[k + d + 1]? = some q →
    ∃ rid, row.run = some rid ∧ row'.run = some rid := by
  intro d
  induction d with
  | zero => intro k row row' q h1 h2 h3 h4; exact hm.same k row row' q h1 h2 h3 h4
  | succ d ih =>
    intro k row row' q h1 h2 h3 h4
    obtain ⟨rowm, hrm⟩ := rows_some b (k := k + d + 1) (by have := rows_lt h2; omega)
    have hqm : sm[k + d + 1]? = some q := hm.between (by omega) (by omega) h3 h4
    obtain ⟨rid, a1, a2⟩ := ih k row rowm q h1 hrm h3 hqm
    obtain ⟨rid', c1, c2⟩ := hm.same (k + d + 1) rowm row' q hrm h2 hqm h4
    rw [a2] at c1
    cases c1
    exact ⟨rid, a1, c2⟩

/-- two rows of one run have the same source -/
theorem src_of_run (hm : SrcMap G h b sm) (hs : Src G) {k k' : Nat} {row row' : Row} {rid q q' : Nat}
    (h1 : b.rows[k]? = some row) (h2 : b.rows[k']? = some row') (r1 : row.run = some rid) (r2 : row'.run = some rid)
    (q1 : sm[k]? = some q) (q2 : sm[k']? = some q') : q = q' := by
  obtain ⟨src, a1, a2, _⟩ := hm.key k row q h1 q1
  obtain ⟨src', c1, c2, _⟩ := hm.key k' row' q' h2 q2
  unfold rowKey at a2 c2
  rw [r1] at a2
  rw [r2] at c2
  dsimp only at a2 c2
  exact hs.idx_of_key a1 c1 (a2.symm.trans c2)

/-- the pieces of a run inside the batch are contiguous -/
theorem contiguous (hm : SrcMap G h b sm) (hs : Src G) {k m k' : Nat} {row rowm row' : Row} {rid : Nat}
    (hkm : k ≤ m) (hmk : m ≤ k') (h1 : b.rows[k]? = some row) (h2 : b.rows[m]? = some rowm)
    (h3 : b.rows[k']? = some row') (r1 : row.run = some rid) (r3 : row'.run = some rid) : rowm.run = some rid := by
  by_cases hkm' : k = m
  · subst hkm'
    rw [h1] at h2; cases h2; exact r1
  · obtain ⟨q, hq⟩ := hm.get (rows_lt h1)
    obtain ⟨q', hq'⟩ := hm.get (rows_lt h3)
    have := hm.src_of_run hs h1 h3 r1 r3 hq hq'
    subst this
    have hqm := hm.between hkm hmk hq hq'
    have e : m = k + (m - k - 1) + 1 := by omega
    rw [e] at h2 hqm
    obtain ⟨rid', a1, a2⟩ := hm.run_of_src _ k row rowm q h1 h2 hq hqm
    rw [r1] at a1
    cases a1
    exact a2

/-- the source of the row after a row that does not share a run with it -/
theorem next_src (hm : SrcMap G h b sm) {k : Nat} {row row' : Row} {q q' : Nat} (h1 : b.rows[k]? = some row)
    (h2 : b.rows[k + 1]? = some row') (q1 : sm[k]? = some q) (q2 : sm[k + 1]? = some q')
    (hne : ∀ rid, row.run = some rid → row'.run ≠ some rid) : q' = q + 1 := by
  rcases hm.step k q q' q1 q2 with e | e
  · subst e
    obtain ⟨rid, a1, a2⟩ := hm.same k row row' q' h1 h2 q1 q2
    exact absurd a2 (hne rid a1)
  · exact e

/-- rows without run stem from consecutive sources -/
theorem consec (hm : SrcMap G h b sm) {i j qi : Nat} (hr : ∀ k : Nat, i ≤ k → k < j → ∃ row, b.rows[k]? = some row ∧ row.run = none)
    (hq : sm[i]? = some qi) : ∀ d : Nat, i + d < j → sm[i + d]? = some (qi + d) := by
  intro d
  induction d with
  | zero => intro _; exact hq
  | succ d ih =>
    intro hd
    have h0 := ih (by omega)
    obtain ⟨row, a1, a2⟩ := hr (i + d) (by omega) (by omega)
    obtain ⟨row', c1, c2⟩ := hr (i + d + 1) (by omega) (by omega)
    obtain ⟨q', hq'⟩ := hm.get (rows_lt c1)
    have := hm.next_src a1 c1 h0 hq' (fun rid hrid => by rw [a2] at hrid; cases hrid)
    rw [show i + (d + 1) = i + d + 1 by omega, hq', this]
    congr 1

/-- the heap only enters through the original positions of the runs -/
theorem heap_congr (hm : SrcMap G h b sm) {h' : Heap} (ho : ∀ rid : Nat, (h'[rid]!).origPos = (h[rid]!).origPos) :
    SrcMap G h' b sm := by
  refine ⟨hm.len, hm.step, ?_, hm.same⟩
  intro k row q h1 h2
  obtain ⟨src, a1, a2, a3⟩ := hm.key k row q h1 h2
  refine ⟨src, a1, ?_, a3⟩
  rw [← a2]
  unfold rowKey
  cases row.run with
  | none => rfl
  | some rid => dsimp only; rw [ho rid]

end SrcMap

theorem HLin.heap_congr {G : Ctx} {h h' : Heap} (hl : HLin G h) (hsz : h'.size = h.size)
    (ho : ∀ rid : Nat, (h'[rid]!).origPos = (h[rid]!).origPos ∧ (h'[rid]!).origRec = (h[rid]!).origRec) : HLin G h' := by
  intro rid hrid
  rw [(ho rid).1, (ho rid).2]
  exact hl rid (by omega)

/-- the source record a run was split from -/
theorem HLin.src_of_key {G : Ctx} (hs : Src G) {h : Heap} (hl : HLin G h) {rid q : Nat} {src : Rec} (hrid : rid < h.size)
    (hq : G.all[q]? = some src) (hk : keyOf (h[rid]!).origPos = keyR src) : root (h[rid]!).origRec = root src := by
  obtain ⟨src', hmem, a1, a2⟩ := hl rid hrid
  obtain ⟨q', hq'⟩ := List.getElem?_of_mem hmem
  have := hs.idx_of_key hq' hq (a1.trans hk)
  subst this
  rw [hq] at hq'
  cases hq'
  exact a2

/-! ## pieces of a slice -/

theorem mem_drop_idx {α} {l : List α} {j : Nat} {x : α} (h : x ∈ l.drop j) : ∃ k : Nat, j ≤ k ∧ l[k]? = some x := by
  obtain ⟨n, hn, rfl⟩ := List.getElem_of_mem h
  refine ⟨j + n, by omega, ?_⟩
  simp [List.getElem_drop]

theorem cnt_pos_idx {rid : Nat} {l : List Piece} (h : 0 < cnt rid l) : ∃ x ∈ l, x.1 = some rid := by
  unfold cnt at h
  obtain ⟨x, hx, hp⟩ := List.countP_pos_iff.mp h
  exact ⟨x, hx, by simpa using hp⟩


/-! ## one group of the vote loop -/

/-- the loop invariant of the vote loop at row `i` -/
structure VInv (G : Ctx) (b : Batch) (sm : List Nat) (rest : Nat → Nat) (doom : Nat → Prop) (isAck : Bool)
    (i : Nat) (s : PS) : Prop where
  ginv : GInv G s
  wseen : WSeen G s
  acc : Acc s.heap rest (b.view.drop i)
  srcmap : SrcMap G s.heap b sm
  front : ∀ q : Nat, sm[i]? = some q → nAcked s = q
  hlin : HLin G s.heap
  htouch : HTouch G (G.mu s) s.heap
  ci : CI (G.mu s) s.heap doom b i
  /-- an ack vote: no row is flagged nack, every row is justified as far as the destinations go, and
  a record without run is clean -/
  just : isAck = true → ∀ (k : Nat) (row : Row) (q : Nat) (src : Rec), i ≤ k → b.rows[k]? = some row →
    sm[k]? = some q → G.all[q]? = some src →
    row.st.flag ≠ .nack ∧ Touch G.tree (G.mu s) (root src) ∧ (row.run = none → Clean (G.mu s) (root src))

/-- the group `[i, j)` of the vote loop: rows of run `run`; a run has no piece from `j` on -/
structure Grp (b : Batch) (rs : List (Option Nat)) (i j : Nat) (run : Option Nat) : Prop where
  lt : i < j
  le : j ≤ b.recs.length
  all : ∀ k : Nat, i ≤ k → k < j → rs[k]? = some run
  tail : ∀ rid : Nat, run = some rid → cnt rid (b.view.drop j) = 0

theorem Grp.slice {b : Batch} {rs : List (Option Nat)} (hb : VB b rs) {i j : Nat} {run : Option Nat} (hg : Grp b rs i j run) :
    ∀ x ∈ (b.view.drop i).take (j - i), x.1 = run := by
  intro x hx
  obtain ⟨k, hk1, hk2, hk3⟩ := mem_slice hx
  have := (hb.view_get hk3).1
  rw [hg.all k hk1 hk2] at this
  exact (Option.some.inj this).symm

theorem Grp.cnt_other {b : Batch} {rs : List (Option Nat)} (hb : VB b rs) {i j : Nat} {run : Option Nat} (hg : Grp b rs i j run)
    {rid : Nat} (hne : run ≠ some rid) : cnt rid (b.view.drop i) = cnt rid (b.view.drop j) := by
  rw [drop_split b.view (i := i) (j := j) (Nat.le_of_lt hg.lt), cnt_append]
  have : cnt rid ((b.view.drop i).take (j - i)) = 0 := by
    unfold cnt
    rw [List.countP_eq_zero]
    intro x hx
    rw [hg.slice hb x hx]
    simpa using hne
  omega

theorem Grp.cnt_self {b : Batch} {rs : List (Option Nat)} (hb : VB b rs) {i j : Nat} {run : Option Nat} (hg : Grp b rs i j run)
    {rid : Nat} (he : run = some rid) : cnt rid (b.view.drop i) = j - i := by
  rw [drop_split b.view (i := i) (j := j) (Nat.le_of_lt hg.lt), cnt_append, hg.tail rid he,
    cnt_group rid _ (fun x hx => by rw [hg.slice hb x hx, he]), List.length_take, List.length_drop, hb.view_len]
  have := hg.le
  omega

/-- what one group step `s → s1` of the vote loop guarantees -/
structure Stp (G : Ctx) (rest : Nat → Nat) (doom : Nat → Prop) (sm : List Nat) (i j nx : Nat) (run : Option Nat)
    (s s1 : PS) : Prop where
  ginv : GInv G s1
  same : SameW G s s1
  ext : Ext (RootsOf G sm i) (G.mu s) (G.mu s1)
  hsz : s1.heap.size = s.heap.size
  hfr : ∀ rid : Nat, run ≠ some rid → s1.heap[rid]! = s.heap[rid]!
  horig : ∀ rid : Nat, (s1.heap[rid]!).origPos = (s.heap[rid]!).origPos ∧ (s1.heap[rid]!).origRec = (s.heap[rid]!).origRec
  nk : ∀ rid : Nat, (s.heap[rid]!).nacked = true → (s1.heap[rid]!).nacked = true
  front : ∀ q : Nat, sm[j]? = some q → nAcked s1 = q
  endf : sm.length ≤ j → nAcked s1 = nx
  lp : ∀ rid : Nat, run = some rid → 0 < rest rid → RunOK (s1.heap[rid]!) (rest rid) ∧ 0 < (s1.heap[rid]!).terminal ∧
    (¬ Clean (G.mu s) (root (s.heap[rid]!).origRec) → (s1.heap[rid]!).nacked = true ∨ doom rid)
  tch : ∀ rid : Nat, run = some rid → (s1.heap[rid]!).nacked = false → Touch G.tree (G.mu s) (root (s.heap[rid]!).origRec)

/-- the invariant at the end of the group -/
theorem VInv.next {G : Ctx} {b : Batch} {rs : List (Option Nat)} (hb : VB b rs) {sm : List Nat} {rest : Nat → Nat}
    {doom : Nat → Prop} {isAck : Bool} {i j nx : Nat} {run : Option Nat} {s s1 : PS}
    (hv : VInv G b sm rest doom isAck i s) (hg : Grp b rs i j run) (st : Stp G rest doom sm i j nx run s s1) :
    VInv G b sm rest doom isAck j s1 := by
  refine ⟨st.ginv, WSeen.same st.same hv.wseen, ?_, hv.srcmap.heap_congr (fun rid => (st.horig rid).1), st.front,
    hv.hlin.heap_congr st.hsz st.horig, ?_, ?_, ?_⟩
  · intro r hr
    have hne : run ≠ some r := fun e => by have := hg.tail r e; omega
    rw [st.hfr r hne, st.hsz]
    have := hv.acc r (by rw [hg.cnt_other hb hne]; exact hr)
    rw [hg.cnt_other hb hne] at this
    exact this
  · intro rid hrid hterm hnk
    by_cases he : run = some rid
    · rw [(st.horig rid).2]
      exact (Touch.same st.same).mpr (st.tch rid he hnk)
    · rw [st.hfr rid he] at hterm hnk ⊢
      exact (Touch.same st.same).mpr (hv.htouch rid (by rw [← st.hsz]; exact hrid) hterm hnk)
  · intro rid hc hncl
    have hne : run ≠ some rid := fun e => by have := hg.tail rid e; omega
    rcases hv.ci rid (by rw [hg.cnt_other hb hne]; exact hc)
      (fun hcl => hncl (by rw [(st.horig rid).2]; exact (Clean.same st.same).mpr hcl)) with h1 | h1 | ⟨k, row, hik, hrow, hrun, hfl⟩
    · exact Or.inl (st.nk rid h1)
    · exact Or.inr (Or.inl h1)
    · refine Or.inr (Or.inr ⟨k, row, ?_, hrow, hrun, hfl⟩)
      apply Classical.byContradiction
      intro hlt
      have h1 := hg.all k hik (by omega)
      have h2 := (rows_fields hb hrow).2.2.2
      rw [h1, hrun] at h2
      exact hne (Option.some.inj h2)
  · intro ha k row q src hjk hrow hq hsrc
    obtain ⟨a, c, d⟩ := hv.just ha k row q src (by have := hg.lt; omega) hrow hq hsrc
    exact ⟨a, (Touch.same st.same).mpr c, fun h => (Clean.same st.same).mpr (d h)⟩

/-- the outcome of the vote loop: `OutS`, and the monitor facts it never touches -/
def OutV (G : Ctx) (rest : Nat → Nat) (doom : Nat → Prop) (b : Batch) (sm : List Nat) (i nx : Nat)
    (s s' : PS) (r : Except Stop Unit) : Prop :=
  OutS G rest doom b sm i nx s s' r ∧ (r = .ok () → SameW G s s')

theorem OutV.fail {G : Ctx} {rest : Nat → Nat} {doom : Nat → Prop} {b : Batch} {sm : List Nat} {i nx : Nat}
    {s s' : PS} {e : Stop} (h : (G.mu s').tv = []) : OutV G rest doom b sm i nx s s' (.error e) :=
  ⟨⟨h, (fun h => nomatch h), (fun h => nomatch h), (fun h => nomatch h), (fun h => nomatch h), (fun h => nomatch h),
    (fun h => nomatch h), (fun h => nomatch h), (fun h => nomatch h), (fun h => nomatch h), (fun h => nomatch h),
    (fun h => nomatch h), (fun h => nomatch h), (fun h => nomatch h)⟩, (fun h => nomatch h)⟩

/-- a group step followed by the loop from `j` -/
theorem OutV.compose {G : Ctx} {b : Batch} {rs : List (Option Nat)} (hb : VB b rs) {sm : List Nat} {rest : Nat → Nat}
    {doom : Nat → Prop} {isAck : Bool} {i j nx : Nat} {run : Option Nat} {s s1 s' : PS} {r : Except Stop Unit}
    (hv : VInv G b sm rest doom isAck i s) (hg : Grp b rs i j run) (st : Stp G rest doom sm i j nx run s s1)
    (ih : OutV G rest doom b sm j nx s1 s' r) : OutV G rest doom b sm i nx s s' r := by
  obtain ⟨ih, ihs⟩ := ih
  have hlen : sm.length = b.recs.length := by rw [hv.srcmap.len, rows_length]
  have hij := hg.lt
  have hjl := hg.le
  refine ⟨⟨ih.safe, ih.ginv, ?_, ?_, ?_, ?_, ih.wseen, ?_, ?_, ?_, ?_, ih.hlin, ih.htouch, ?_⟩,
    fun hr => st.same.trans (ihs hr)⟩
  · intro hr _
    by_cases hj : j < sm.length
    · exact ih.front hr hj
    · rw [ih.front0 hr (by omega)]; exact st.endf (by omega)
  · intro _ hle; omega
  · intro hr
    exact st.ext.trans ((ih.ext hr).mono (fun x ⟨k, q, src, h1, h2, h3, h4⟩ => ⟨k, q, src, by omega, h2, h3, h4⟩))
  · intro hr e he
    left
    rw [← (st.same.trans (ihs hr)).wr]; exact he
  · intro hr
    rw [← st.hsz]; exact ih.hsize hr
  · intro hr rid hrid hc
    have hne : run ≠ some rid := by intro e; have := hg.cnt_self hb e; omega
    have hcj : cnt rid (b.view.drop j) = 0 := by rw [← hg.cnt_other hb hne]; exact hc
    rw [ih.hframe hr rid (by rw [st.hsz]; exact hrid) hcj]
    exact st.hfr rid hne
  · intro hr rid hrid
    have a := ih.horig hr rid (by rw [st.hsz]; exact hrid)
    have c := st.horig rid
    exact ⟨a.1.trans c.1, a.2.trans c.2⟩
  · intro hr rid hc hrest
    by_cases hcj : 0 < cnt rid (b.view.drop j)
    · exact ih.lpost hr rid hcj hrest
    · have he : run = some rid := Classical.byContradiction fun hne => by rw [hg.cnt_other hb hne] at hc; omega
      have hrid : rid < s.heap.size := (hv.acc rid hc).1
      rw [ih.hframe hr rid (by rw [st.hsz]; exact hrid) (by omega)]
      obtain ⟨a, c, _⟩ := st.lp rid he hrest
      exact ⟨a, c⟩
  · intro hr rid hc hrest hncl
    by_cases hcj : 0 < cnt rid (b.view.drop j)
    · exact ih.ci hr rid hcj hrest hncl
    · have he : run = some rid := Classical.byContradiction fun hne => by rw [hg.cnt_other hb hne] at hc; omega
      have hrid : rid < s.heap.size := (hv.acc rid hc).1
      have e := ih.hframe hr rid (by rw [st.hsz]; exact hrid) (by omega)
      rw [e] at hncl ⊢
      exact (st.lp rid he hrest).2.2 (fun hcl => hncl (by
        rw [(st.horig rid).2]; exact (Clean.same (st.same.trans (ihs hr))).mpr hcl))


/-! ## where the groups end -/

theorem sub_row {b sb : Batch} {rs : List (Option Nat)} (hb : VB b rs) {i j : Nat} (hs : b.sub i j = .ok sb) {q : Nat} {row : Row}
    (h : sb.rows[q]? = some row) : b.rows[i + q]? = some row ∧ i + q < j := by
  rw [(rows_sub hb hs).1, List.getElem?_take] at h
  split at h
  · rw [List.getElem?_drop] at h
    exact ⟨h, by omega⟩
  · cases h

/-- a run whose group `[i, j)` is maximal has no piece from `j` on -/
theorem tail_zero {G : Ctx} (hs : Src G) {h : Heap} {b : Batch} {sm : List Nat} (hm : SrcMap G h b sm) {rs : List (Option Nat)}
    (hb : VB b rs) {i j rid : Nat} (hij : i < j) (hall : ∀ k : Nat, i ≤ k → k < j → rs[k]? = some (some rid))
    (hmax : rs[j]? ≠ some (some rid)) : cnt rid (b.view.drop j) = 0 := by
  apply Classical.byContradiction
  intro hne
  obtain ⟨x, hx, hx1⟩ := cnt_pos_idx (Nat.pos_of_ne_zero hne)
  obtain ⟨k, hjk, hk⟩ := mem_drop_idx hx
  obtain ⟨row', hrow', hrun', _⟩ := view_rows hb hk
  have hkl := rows_lt hrow'
  obtain ⟨rowi, hrowi⟩ := rows_some b (k := i) (by omega)
  obtain ⟨rowj, hrowj⟩ := rows_some b (k := j) (by omega)
  have hri : rowi.run = some rid := by
    have := (rows_fields hb hrowi).2.2.2
    rw [hall i (Nat.le_refl _) hij] at this
    exact (Option.some.inj this).symm
  have := hm.contiguous hs (Nat.le_of_lt hij) hjk hrowi hrowj hrow' hri (hrun'.trans hx1)
  have h2 := (rows_fields hb hrowj).2.2.2
  rw [this] at h2
  exact hmax h2

/-- a run with pieces outside the batch ends the batch -/
theorem hold_end {b : Batch} {rs : List (Option Nat)} (hb : VB b rs) {rest : Nat → Nat} (hrl : RestLast rest b) {rid j : Nat}
    (hpos : 0 < cnt rid b.view) (hrest : 0 < rest rid) (htail : cnt rid (b.view.drop j) = 0) : b.recs.length ≤ j := by
  obtain ⟨row, hlast, hrun⟩ := hrl rid hrest hpos
  rw [List.getLast?_eq_getElem?, rows_length] at hlast
  apply Classical.byContradiction
  intro hlt
  have hv := rows_view hb hlast
  have hmem : (row.run, row.pos) ∈ b.view.drop j := by
    apply List.mem_of_getElem? (i := b.recs.length - 1 - j)
    rw [List.getElem?_drop, ← hv]
    congr 1
    omega
  have : 0 < cnt rid (b.view.drop j) := by
    unfold cnt
    exact List.countP_pos_iff.mpr ⟨_, hmem, by simp [hrun]⟩
  omega

/-- the frontier after a row whose run (if any) is complete and does not continue -/
theorem front_next {G : Ctx} {h : Heap} {b : Batch} {sm : List Nat} (hm : SrcMap G h b sm) {rs : List (Option Nat)} (hb : VB b rs)
    {rest : Nat → Nat} {nx : Nat} (hnx : NextOK rest b sm nx) {j ql : Nat} {rowl : Row} (hj0 : 0 < j)
    (hrow : b.rows[j - 1]? = some rowl) (hq : sm[j - 1]? = some ql)
    (hclosed : ∀ rid, rowl.run = some rid → rest rid = 0 ∧ rs[j]? ≠ some (some rid)) :
    (∀ q, sm[j]? = some q → q = ql + 1) ∧ (sm.length ≤ j → nx = ql + 1) := by
  have hlen : sm.length = b.recs.length := by rw [hm.len, rows_length]
  constructor
  · intro q hq'
    obtain ⟨row', hrow'⟩ := rows_some b (hm.lt hq')
    have e : j = j - 1 + 1 := by omega
    rw [e] at hrow' hq'
    refine hm.next_src hrow hrow' hq hq' ?_
    intro rid hrid hr'
    have := (rows_fields hb hrow').2.2.2
    rw [← e, hr'] at this
    exact (hclosed rid hrid).2 this
  · intro hle
    have hjl := rows_lt hrow
    have hj : j = b.recs.length := by omega
    have h1 : b.rows.getLast? = some rowl := by rw [List.getLast?_eq_getElem?, rows_length, ← hj]; exact hrow
    have h2 : sm.getLast? = some ql := by rw [List.getLast?_eq_getElem?, hlen, ← hj]; exact hq
    rcases hnx rowl ql h1 h2 with ⟨_, rid, a1, a2⟩ | ⟨a, _⟩
    · have := (hclosed rid a1).1; omega
    · exact a

/-- the frontier after a row whose run has pieces outside the batch -/
theorem front_hold {G : Ctx} {h : Heap} {b : Batch} {sm : List Nat} (hm : SrcMap G h b sm)
    {rest : Nat → Nat} {nx : Nat} (hnx : NextOK rest b sm nx) {j ql rid : Nat} {rowl : Row} (hjl : b.recs.length ≤ j)
    (hrow : b.rows[j - 1]? = some rowl) (hq : sm[j - 1]? = some ql) (hrun : rowl.run = some rid) (hrest : 0 < rest rid) :
    nx = ql := by
  have hlen : sm.length = b.recs.length := by rw [hm.len, rows_length]
  have hjl' := rows_lt hrow
  have hj : j = b.recs.length := by omega
  have h1 : b.rows.getLast? = some rowl := by rw [List.getLast?_eq_getElem?, rows_length, ← hj]; exact hrow
  have h2 : sm.getLast? = some ql := by rw [List.getLast?_eq_getElem?, hlen, ← hj]; exact hq
  rcases hnx rowl ql h1 h2 with ⟨a, _⟩ | ⟨_, a⟩
  · exact a
  · have := a rid hrun; omega


/-! ## the group steps -/

theorem not_dlqAny_front {G : Ctx} (hs : Src G) {s : PS} (hI : GInv G s) {q : Nat} {src : Rec} (hq : G.all[q]? = some src)
    (hle : nAcked s ≤ q) : root src ∉ (G.mu s).dlqAny := by
  intro hm
  have := (hI.dlqAny _ hm).lt hs hq hle
  omega

/-- a group of records without run: the sub-batch goes to the worker -/
theorem none_step {G : Ctx} (hs : Src G) {b : Batch} {rs : List (Option Nat)} (hb : VB b rs) {sm : List Nat}
    {isAck : Bool} {task : Nat} (hn : isAck = false → NackOK b) {rest : Nat → Nat} {doom : Nat → Prop} {nx : Nat}
    (hnx : NextOK rest b sm nx) (hnk : NoSplitKey b) {i j : Nat} {s : PS} (hv : VInv G b sm rest doom isAck i s)
    (hg : Grp b rs i j none) {sb : Batch} (hsub : b.sub i j = .ok sb) {fuel : Nat} {r1 : Except Stop Unit} {s1 : PS}
    (hc : exec (ackerCall fuel .worker sb isAck task) s = (r1, s1)) :
    (G.mu s1).tv = [] ∧ (r1 = .ok () → Stp G rest doom sm i j nx none s s1) := by
  have hij := hg.lt
  have hjl := hg.le
  have hm := hv.srcmap
  obtain ⟨_, _, _, _, f1, f2, f3, f4, _, _⟩ := sub_ok_fields hsub
  obtain ⟨hsr, hvb⟩ := rows_sub hb hsub
  have hsbl : sb.recs.length = j - i := by rw [f1]; simp; omega
  have hspl : sb.pos.length = j - i := by rw [f3]; simp [hb.plen]; omega
  -- the rows of the group have no run
  have hrows : ∀ k : Nat, i ≤ k → k < j → ∃ row, b.rows[k]? = some row ∧ row.run = none := by
    intro k h1 h2
    obtain ⟨row, hrow⟩ := rows_some b (k := k) (by omega)
    have := (rows_fields hb hrow).2.2.2
    rw [hg.all k h1 h2] at this
    exact ⟨row, hrow, (Option.some.inj this).symm⟩
  obtain ⟨qi, hqi⟩ := hm.get (k := i) (by omega)
  have hfront := hv.front qi hqi
  have hcons := hm.consec hrows hqi
  -- a row of the sub-batch
  have hsbrow : ∀ (q : Nat) (row : Row), sb.rows[q]? = some row →
      b.rows[i + q]? = some row ∧ i + q < j ∧ row.run = none ∧ sm[i + q]? = some (qi + q) := by
    intro q row hrow
    obtain ⟨a1, a2⟩ := sub_row hb hsub hrow
    obtain ⟨row', c1, c2⟩ := hrows (i + q) (by omega) a2
    rw [a1] at c1; cases c1
    exact ⟨a1, a2, c2, hcons q a2⟩
  have hsplit : sb.split = [] := by
    apply sub_split_nil hsub
    intro p hp
    rw [List.drop_take] at hp
    obtain ⟨k, h1, h2, h3⟩ := mem_slice hp
    obtain ⟨row, a1, a2⟩ := hrows k h1 h2
    have := (rows_fields hb a1).2.2.1
    rw [h3] at this; cases this
    exact hnk k row a1 a2
  have hbok : BOK sb := by
    refine ⟨Or.inl hsplit, ?_, by rw [f2]; simp [hb.slen]; omega, by rw [hspl, hsbl]⟩
    intro rs' hrs'
    rw [hvb.runs] at hrs'
    cases hrs'
    rw [List.eq_replicate_iff]
    refine ⟨hvb.rlen, ?_⟩
    intro x hx
    obtain ⟨q, hq, rfl⟩ := List.getElem_of_mem hx
    obtain ⟨row, hrow⟩ := rows_some sb (k := q) (by rw [← hvb.rlen]; exact hq)
    have := (rows_fields hvb hrow).2.2.2
    rw [List.getElem?_eq_getElem hq] at this
    rw [Option.some.inj this]
    exact (hsbrow q row hrow).2.2.1
  have hsn : isAck = false → NackOK sb := by
    intro hi' x hx
    rw [f2] at hx
    exact hn hi' x ((List.take_sublist j b.st).subset ((List.drop_sublist i _).subset hx))
  have hal : Align G qi sb := by
    constructor
    · intro q p hq
      obtain ⟨row, hrow⟩ := rows_some sb (k := q) (by rw [← hbok.pos_len]; exact (List.getElem?_eq_some_iff.mp hq).1)
      have := (rows_fields hvb hrow).2.2.1
      rw [hq] at this; cases this
      obtain ⟨a1, a2, a3, a4⟩ := hsbrow q row hrow
      obtain ⟨src, c1, c2, _⟩ := hm.key (i + q) row (qi + q) a1 a4
      refine ⟨src, c1, ?_⟩
      rw [← c2]; unfold rowKey; rw [a3]
    · intro q r src hq hsrc
      obtain ⟨row, hrow⟩ := rows_some sb (k := q) (List.getElem?_eq_some_iff.mp hq).1
      have := (rows_fields hvb hrow).1
      rw [hq] at this; cases this
      obtain ⟨a1, a2, a3, a4⟩ := hsbrow q row hrow
      obtain ⟨src', c1, _, c3⟩ := hm.key (i + q) row (qi + q) a1 a4
      rw [hsrc] at c1; cases c1
      exact c3
  have hheap : s1.heap = s.heap := (wContract.call fuel sb isAck task s r1 s1 trivial hbok hsn hc).2.2.2.2.2
  have hsame := workerCall_sameW G fuel sb isAck task s s1 r1 hc
  -- the frontier afterwards
  obtain ⟨rowl, hrowl, hrunl⟩ := hrows (j - 1) (by omega) (by omega)
  have hql : sm[j - 1]? = some (qi + (j - 1 - i)) := by
    have := hcons (j - 1 - i) (by omega)
    rw [show i + (j - 1 - i) = j - 1 by omega] at this
    exact this
  obtain ⟨hn1, hn2⟩ := front_next hm hb hnx (by omega) hrowl hql (fun rid hrid => by rw [hrunl] at hrid; cases hrid)
  -- the worker call
  have key : (G.mu s1).tv = [] ∧ (r1 = .ok () → GInv G s1 ∧ nAcked s1 = qi + sb.pos.length ∧
      Ext (InR G qi sb.pos.length) (G.mu s) (G.mu s1)) := by
    cases fuel with
    | zero => rw [ackerCall] at hc; cases hc; exact ⟨hv.ginv.safe, fun h => nomatch h⟩
    | succ f =>
      rw [ackerCall] at hc
      cases isAck with
      | true =>
        simp only [if_true] at hc
        obtain ⟨g1, g2⟩ := workerAck_mon hv.ginv hbok hal hfront (by
          intro q src hq hsrc
          obtain ⟨row, hrow⟩ := rows_some sb (k := q) (by rw [← hbok.pos_len]; exact hq)
          obtain ⟨a1, a2, a3, a4⟩ := hsbrow q row hrow
          obtain ⟨_, c2, c3⟩ := hv.just rfl (i + q) row (qi + q) src (by omega) a1 a4 hsrc
          exact Or.inr ⟨c3 a3, not_dlqAny_front hs hv.ginv hsrc (by omega), viaDests_of_clean_touch (c3 a3) c2⟩) hc
        exact ⟨g1, fun hr => ⟨(g2 hr).1, (g2 hr).2.1, (g2 hr).2.2.mono (fun _ h => nomatch h)⟩⟩
      | false =>
        simp only [Bool.false_eq_true, if_false] at hc
        exact workerNack_mon hs hv.ginv hbok hsplit (hsn rfl) hal hfront hc
  refine ⟨key.1, fun hr => ?_⟩
  obtain ⟨g1, g2, g3⟩ := key.2 hr
  rw [hspl] at g2 g3
  refine ⟨g1, hsame, ?_, by rw [hheap], fun _ _ => by rw [hheap], fun _ => by rw [hheap]; exact ⟨rfl, rfl⟩,
    fun _ h => by rw [hheap]; exact h, ?_, ?_, (fun _ h => nomatch h), (fun _ h => nomatch h)⟩
  · apply g3.mono
    intro ρ ⟨q, src, h1, h2, h3⟩
    exact ⟨i + q, qi + q, src, by omega, hcons q (by omega), h2, h3⟩
  · intro q hq
    rw [g2, hn1 q hq]; omega
  · intro hle
    rw [g2, hn2 hle]; omega


theorem voted_nacked (r0 : SplitRun) (k : Nat) (a : Bool) (t : Nat) (e : Option Err) :
    (voted r0 k a t e).nacked = (r0.nacked || !a) := by
  unfold voted
  cases a <;> cases r0.nacked <;> simp

theorem voted_origRec (r0 : SplitRun) (k : Nat) (a : Bool) (t : Nat) (e : Option Err) :
    (voted r0 k a t e).origRec = r0.origRec := by
  unfold voted
  split <;> rfl

/-- replacing a ledger entry by one with the same original, whose nack mark is not reset -/
theorem set_facts (h : Heap) (rid : Nat) (y : SplitRun) (hrid : rid < h.size) (ho : y.origPos = (h[rid]!).origPos)
    (hr : y.origRec = (h[rid]!).origRec) (hn : (h[rid]!).nacked = true → y.nacked = true) :
    (h.set! rid y).size = h.size ∧ (∀ rid' : Nat, some rid ≠ some rid' → (h.set! rid y)[rid']! = h[rid']!) ∧
    (∀ rid' : Nat, ((h.set! rid y)[rid']!).origPos = (h[rid']!).origPos ∧ ((h.set! rid y)[rid']!).origRec = (h[rid']!).origRec) ∧
    (∀ rid' : Nat, (h[rid']!).nacked = true → ((h.set! rid y)[rid']!).nacked = true) ∧ (h.set! rid y)[rid]! = y := by
  refine ⟨heap_set!_size _ _ _, fun rid' hne => heap_set!_other _ _ _ _ (fun e => hne (by rw [e])), ?_, ?_,
    heap_set!_get _ _ _ hrid⟩
  · intro rid'
    by_cases hne : rid = rid'
    · subst hne; rw [heap_set!_get _ _ _ hrid]; exact ⟨ho, hr⟩
    · rw [heap_set!_other _ _ _ _ hne]; exact ⟨rfl, rfl⟩
  · intro rid'
    by_cases hne : rid = rid'
    · subst hne; rw [heap_set!_get _ _ _ hrid]; exact hn
    · rw [heap_set!_other _ _ _ _ hne]; exact fun h => h

/-- what is known about a group of run `rid` -/
theorem run_facts {G : Ctx} (hs : Src G) {b : Batch} {rs : List (Option Nat)} (hb : VB b rs) {sm : List Nat}
    {rest : Nat → Nat} {doom : Nat → Prop} {isAck : Bool} {i j rid : Nat} {s : PS}
    (hv : VInv G b sm rest doom isAck i s) (hg : Grp b rs i j (some rid)) :
    ∃ (qi : Nat) (src : Rec), sm[i]? = some qi ∧ G.all[qi]? = some src ∧ nAcked s = qi ∧ rid < s.heap.size ∧
      keyOf (s.heap[rid]!).origPos = keyR src ∧ root (s.heap[rid]!).origRec = root src ∧
      (isAck = true → Touch G.tree (G.mu s) (root src)) ∧
      (∀ k : Nat, i ≤ k → k < j → ∃ row, b.rows[k]? = some row ∧ row.run = some rid ∧ sm[k]? = some qi) := by
  have hij := hg.lt
  have hjl := hg.le
  have hm := hv.srcmap
  have hrows : ∀ k : Nat, i ≤ k → k < j → ∃ row, b.rows[k]? = some row ∧ row.run = some rid := by
    intro k h1 h2
    obtain ⟨row, hrow⟩ := rows_some b (k := k) (by omega)
    have := (rows_fields hb hrow).2.2.2
    rw [hg.all k h1 h2] at this
    exact ⟨row, hrow, (Option.some.inj this).symm⟩
  obtain ⟨qi, hqi⟩ := hm.get (k := i) (by omega)
  obtain ⟨rowi, hrowi, hruni⟩ := hrows i (Nat.le_refl _) hij
  obtain ⟨src, hsrc, hkey, _⟩ := hm.key i rowi qi hrowi hqi
  have hkey' : keyOf (s.heap[rid]!).origPos = keyR src := by
    rw [← hkey]; unfold rowKey; rw [hruni]
  have hrid : rid < s.heap.size := (hv.acc rid (by rw [hg.cnt_self hb rfl]; omega)).1
  refine ⟨qi, src, hqi, hsrc, hv.front qi hqi, hrid, hkey', hv.hlin.src_of_key hs hrid hsrc hkey', ?_, ?_⟩
  · intro ha
    exact (hv.just ha i rowi qi src (Nat.le_refl _) hrowi hqi hsrc).2.1
  · intro k h1 h2
    obtain ⟨row, hrow, hrun⟩ := hrows k h1 h2
    obtain ⟨q, hq⟩ := hm.get (k := k) (by omega)
    have := hm.src_of_run hs hrowi hrow hruni hrun hqi hq
    subst this
    exact ⟨row, hrow, hrun, hq⟩

/-- a row flagged nack contradicts an ack vote -/
theorem no_nack_row {G : Ctx} {b : Batch} {sm : List Nat} {rest : Nat → Nat} {doom : Nat → Prop} {i : Nat} {s : PS}
    (hv : VInv G b sm rest doom true i s) {k : Nat} {row : Row} (hik : i ≤ k) (hrow : b.rows[k]? = some row)
    (hfl : row.st.flag = .nack) : False := by
  obtain ⟨q, hq⟩ := hv.srcmap.get (rows_lt hrow)
  obtain ⟨src, hsrc, _⟩ := hv.srcmap.key k row q hrow hq
  exact (hv.just rfl k row q src hik hrow hq hsrc).1 hfl

/-- a group of run `rid` with pieces outside the batch: the ledger entry is advanced, nothing is released -/
theorem hold_step {G : Ctx} (hs : Src G) {b : Batch} {rs : List (Option Nat)} (hb : VB b rs) {sm : List Nat}
    {isAck : Bool} {task : Nat} {rest : Nat → Nat} {doom : Nat → Prop} {nx : Nat}
    (hnx : NextOK rest b sm nx) (hrl : RestLast rest b) {i j rid : Nat} {s : PS} (hv : VInv G b sm rest doom isAck i s)
    (hg : Grp b rs i j (some rid)) (hrest : 0 < rest rid) {e : Option Err}
    (hok : RunOK (voted (s.heap[rid]!) (j - i) isAck task e) (rest rid)) :
    Stp G rest doom sm i j nx (some rid) s (setRun rid (voted (s.heap[rid]!) (j - i) isAck task e) s) := by
  have hij := hg.lt
  have hjl := hg.le
  have hm := hv.srcmap
  obtain ⟨qi, src, hqi, hsrc, hfront, hrid, hkey, hroot, htch, hrows⟩ := run_facts hs hb hv hg
  obtain ⟨vf1, vf2, vf3, vf4⟩ := voted_fields (s.heap[rid]!) (j - i) isAck task e
  have vn := voted_nacked (s.heap[rid]!) (j - i) isAck task e
  obtain ⟨t1, t2, t3, t4, t5⟩ := set_facts s.heap rid (voted (s.heap[rid]!) (j - i) isAck task e) hrid vf3
    (voted_origRec _ _ _ _ _) (fun h => by rw [vn, h]; rfl)
  have hcpos : 0 < cnt rid (b.view.drop i) := by rw [hg.cnt_self hb rfl]; omega
  have hend : b.recs.length ≤ j :=
    hold_end hb hrl (Nat.lt_of_lt_of_le hcpos (cnt_drop_le _ _ _)) hrest (hg.tail rid rfl)
  obtain ⟨rowl, hrowl, hrunl, hql⟩ := hrows (j - 1) (by omega) (by omega)
  refine ⟨hv.ginv.same rfl rfl, SameW.of_log rfl, by rw [mu_same G s _ rfl]; exact Ext.refl _ _, t1, t2, t3, t4, ?_, ?_, ?_, ?_⟩
  · intro q hq
    have := hm.lt hq; omega
  · intro _
    show nAcked s = nx
    rw [front_hold hm hnx hend hrowl hql hrunl hrest]; exact hfront
  · intro rid' he hr'
    cases he
    show RunOK ((s.heap.set! rid _)[rid]!) _ ∧ 0 < ((s.heap.set! rid _)[rid]!).terminal ∧
      (_ → ((s.heap.set! rid _)[rid]!).nacked = true ∨ _)
    rw [t5]
    refine ⟨hok, by rw [vf1]; omega, fun hncl => ?_⟩
    rcases hv.ci rid hcpos hncl with h | h | ⟨k, row, hik, hrow, hrun, hfl⟩
    · left; rw [vn, h]; rfl
    · exact Or.inr h
    · cases isAck with
      | true => exact (no_nack_row hv hik hrow hfl).elim
      | false => left; rw [vn]; simp
  · intro rid' he hnk
    cases he
    have hnk' : ((s.heap.set! rid (voted (s.heap[rid]!) (j - i) isAck task e))[rid]!).nacked = false := hnk
    rw [t5, vn] at hnk'
    have ha : isAck = true := by cases isAck <;> simp at hnk' ⊢
    rw [hroot]; exact htch ha


/-- the last group of a run all of whose pieces are in the batch: the original goes to the worker -/
theorem rel_step {G : Ctx} (hs : Src G) {b : Batch} {rs : List (Option Nat)} (hb : VB b rs) {sm : List Nat}
    {isAck : Bool} {task : Nat} {rest : Nat → Nat} {doom : Nat → Prop} {nx : Nat}
    (hdoom : ∀ rid, doom rid → 0 < rest rid) (hnx : NextOK rest b sm nx) {i j rid : Nat} {s : PS}
    (hv : VInv G b sm rest doom isAck i s) (hg : Grp b rs i j (some rid)) (hrest : rest rid = 0)
    (hmax : rs[j]? ≠ some (some rid)) {e : Option Err} {x : SplitRun}
    (hx : x = { voted (s.heap[rid]!) (j - i) isAck task e with released := true })
    (hnerr : x.nacked = true → x.nackErr.isSome = true) {bb : Batch} {ia : Bool} {tk : Nat}
    (hbb : (ia = true ∧ bb = runAckBatch x ∧ x.nacked = false) ∨ (ia = false ∧ bb = runNackBatch x ∧ x.nacked = true))
    {fuel : Nat} {r1 : Except Stop Unit} {s1 : PS}
    (hc : exec (ackerCall fuel .worker bb ia tk) (setRun rid x s) = (r1, s1)) :
    (G.mu s1).tv = [] ∧ (r1 = .ok () → Stp G rest doom sm i j nx (some rid) s s1) := by
  have hij := hg.lt
  have hjl := hg.le
  have hm := hv.srcmap
  obtain ⟨qi, src, hqi, hsrc, hfront, hrid, hkey, hroot, htch, hrows⟩ := run_facts hs hb hv hg
  obtain ⟨vf1, vf2, vf3, vf4⟩ := voted_fields (s.heap[rid]!) (j - i) isAck task e
  have vn := voted_nacked (s.heap[rid]!) (j - i) isAck task e
  have hxo : x.origPos = (s.heap[rid]!).origPos := by rw [hx]; exact vf3
  have hxr : x.origRec = (s.heap[rid]!).origRec := by rw [hx]; exact voted_origRec _ _ _ _ _
  have hxn : x.nacked = ((s.heap[rid]!).nacked || !isAck) := by rw [hx]; exact vn
  obtain ⟨t1, t2, t3, t4, t5⟩ := set_facts s.heap rid x hrid hxo hxr (fun h => by rw [hxn, h]; rfl)
  have hcpos : 0 < cnt rid (b.view.drop i) := by rw [hg.cnt_self hb rfl]; omega
  obtain ⟨rowl, hrowl, hrunl, hql⟩ := hrows (j - 1) (by omega) (by omega)
  obtain ⟨hn1, hn2⟩ := front_next hm hb hnx (by omega) hrowl hql (fun rid' hrid' => by
    rw [hrunl] at hrid'; cases hrid'; exact ⟨hrest, hmax⟩)
  -- the state after the ledger update
  have hI0 : GInv G (setRun rid x s) := hv.ginv.same rfl rfl
  have hf0 : nAcked (setRun rid x s) = qi := hfront
  have hmu0 : G.mu (setRun rid x s) = G.mu s := mu_same G s _ rfl
  have hrecs : bb.recs = [x.origRec] := by rcases hbb with ⟨_, h, _⟩ | ⟨_, h, _⟩ <;> rw [h] <;> rfl
  have hpos : bb.pos = [x.origPos] := by rcases hbb with ⟨_, h, _⟩ | ⟨_, h, _⟩ <;> rw [h] <;> rfl
  have hbok : BOK bb := by
    rcases hbb with ⟨_, h, _⟩ | ⟨_, h, _⟩ <;> rw [h] <;> exact ⟨Or.inl rfl, (fun _ h => nomatch h), rfl, rfl⟩
  have hsn : ia = false → NackOK bb := by
    intro hia
    rcases hbb with ⟨h, _, _⟩ | ⟨_, h, h3⟩
    · rw [h] at hia; cases hia
    · rw [h]
      intro st hst
      simp only [runNackBatch, List.mem_singleton] at hst
      subst hst
      exact hnerr h3
  have hal : Align G qi bb := by
    constructor
    · intro q p hq
      rw [hpos] at hq
      cases q with
      | zero =>
        simp only [List.getElem?_cons_zero, Option.some.injEq] at hq
        subst hq
        exact ⟨src, hsrc, by rw [hxo]; exact hkey⟩
      | succ q => simp at hq
    · intro q r src' hq hsrc'
      rw [hrecs] at hq
      cases q with
      | zero =>
        simp only [List.getElem?_cons_zero, Option.some.injEq] at hq
        subst hq
        rw [Nat.add_zero, hsrc] at hsrc'; cases hsrc'
        rw [hxr]; exact hroot
      | succ q => simp at hq
  have hpl : bb.pos.length = 1 := by rw [hpos]; rfl
  have hheap : s1.heap = (setRun rid x s).heap :=
    (wContract.call fuel bb ia tk (setRun rid x s) r1 s1 trivial hbok hsn hc).2.2.2.2.2
  have hsame : SameW G s s1 :=
    (SameW.of_log (s := s) (s' := setRun rid x s) rfl).trans (workerCall_sameW G fuel bb ia tk _ s1 r1 hc)
  have key : (G.mu s1).tv = [] ∧ (r1 = .ok () → GInv G s1 ∧ nAcked s1 = qi + bb.pos.length ∧
      Ext (InR G qi bb.pos.length) (G.mu (setRun rid x s)) (G.mu s1)) := by
    cases fuel with
    | zero => rw [ackerCall] at hc; cases hc; exact ⟨hI0.safe, fun h => nomatch h⟩
    | succ f =>
      rw [ackerCall] at hc
      rcases hbb with ⟨hia, hbe, hxk⟩ | ⟨hia, hbe, hxk⟩
      · subst hia
        simp only [if_true] at hc
        have ha : isAck = true := by
          rw [hxn] at hxk; cases isAck <;> simp at hxk ⊢
        have hnk0 : (s.heap[rid]!).nacked = false := by
          rw [hxn] at hxk; cases h : (s.heap[rid]!).nacked <;> simp [h] at hxk ⊢
        subst ha
        have hclean : Clean (G.mu s) (root src) := by
          apply Classical.byContradiction
          intro hncl
          rcases hv.ci rid hcpos (by rw [hroot]; exact hncl) with h | h | ⟨k, row, hik, hrow, hrun, hfl⟩
          · rw [hnk0] at h; cases h
          · have := hdoom rid h; omega
          · exact no_nack_row hv hik hrow hfl
        obtain ⟨g1, g2⟩ := workerAck_mon hI0 hbok hal hf0 (by
          intro q src' hq hsrc'
          have : q = 0 := by omega
          subst this
          rw [Nat.add_zero, hsrc] at hsrc'; cases hsrc'
          rw [hmu0]
          exact Or.inr ⟨hclean, not_dlqAny_front hs hv.ginv hsrc (by omega), viaDests_of_clean_touch hclean (htch rfl)⟩) hc
        exact ⟨g1, fun hr => ⟨(g2 hr).1, (g2 hr).2.1, (g2 hr).2.2.mono (fun _ h => nomatch h)⟩⟩
      · subst hia
        simp only [Bool.false_eq_true, if_false] at hc
        exact workerNack_mon hs hI0 hbok (by rw [hbe]; rfl) (hsn rfl) hal hf0 hc
  refine ⟨key.1, fun hr => ?_⟩
  obtain ⟨g1, g2, g3⟩ := key.2 hr
  rw [hpl] at g2 g3
  rw [hmu0] at g3
  refine ⟨g1, hsame, ?_, by rw [hheap]; exact t1, fun rid' h => by rw [hheap]; exact t2 rid' h,
    fun rid' => by rw [hheap]; exact t3 rid', fun rid' h => by rw [hheap]; exact t4 rid' h, ?_, ?_, ?_, ?_⟩
  · apply g3.mono
    intro ρ ⟨q, src', h1, h2, h3⟩
    have : q = 0 := by omega
    subst this
    exact ⟨i, qi, src', Nat.le_refl _, hqi, h2, h3⟩
  · intro q hq
    rw [g2, hn1 q hq]
  · intro hle
    rw [g2, hn2 hle]
  · intro rid' he hr'
    cases he; omega
  · intro rid' he hnk
    cases he
    rw [hheap] at hnk
    have hnk' : ((s.heap.set! rid x)[rid]!).nacked = false := hnk
    rw [t5, hxn] at hnk'
    have ha : isAck = true := by cases isAck <;> simp at hnk' ⊢
    rw [hroot]; exact htch ha


/-! ## the vote loop -/

theorem voteV {G : Ctx} (hs : Src G) (b : Batch) (rs : List (Option Nat)) (hb : VB b rs) (sm : List Nat)
    (isAck : Bool) (task : Nat) (hn : isAck = false → NackOK b) (rest : Nat → Nat) (doom : Nat → Prop) (nx : Nat)
    (hdoom : ∀ rid, doom rid → 0 < rest rid) (hnx : NextOK rest b sm nx) (hrl : RestLast rest b) (hnk : NoSplitKey b) :
    ∀ (fuel i : Nat) (s s' : PS) (r : Except Stop Unit), VInv G b sm rest doom isAck i s →
      exec (voteLoop fuel .worker b isAck task i) s = (r, s') → OutV G rest doom b sm i nx s s' r := by
  intro fuel
  induction fuel with
  | zero => intro i s s' r hv h; rw [voteLoop] at h; cases h; exact OutV.fail hv.ginv.safe
  | succ fuel ih =>
    intro i s s' r hv h
    by_cases hi : i < b.recs.length
    · rw [voteLoop_unfold fuel .worker b isAck task i hi, exec_bind] at h
      have hilt : i < rs.length := by rw [hb.rlen]; exact hi
      have hra : runAt b i = .ok rs[i] := by unfold runAt; rw [hb.runs]; exact idx_ok _ hilt
      rw [hra, exec_liftR_ok] at h
      dsimp only at h
      rw [exec_bind] at h
      obtain ⟨j, hj1, hj2, hj3, hj4, hj5⟩ := extent_go_max b rs[i] s rs hb.runs (b.recs.length - (i + 1)) (i + 1)
        (by rw [hb.rlen]; omega)
      rw [hj1] at h
      dsimp only at h
      have hjl : j ≤ b.recs.length := by omega
      have hall : ∀ k : Nat, i ≤ k → k < j → rs[k]? = some rs[i] := by
        intro k h1 h2
        by_cases hki : k = i
        · subst hki; exact List.getElem?_eq_getElem hilt
        · exact hj4 k (by omega) h2
      have hmax : rs[j]? ≠ some rs[i] := by
        by_cases hjj : j < b.recs.length
        · exact hj5 (by omega)
        · rw [List.getElem?_eq_none_iff.mpr (by rw [hb.rlen]; omega)]
          exact fun h => nomatch h
      cases hrun : rs[i] with
      | none =>
        rw [hrun] at h hall
        dsimp only at h
        have hg : Grp b rs i j none := ⟨by omega, hjl, hall, fun _ h => nomatch h⟩
        rw [exec_bind] at h
        rcases hsub : b.sub i j with e | sb
        · rw [hsub, exec_liftR_err] at h; cases h; exact OutV.fail hv.ginv.safe
        · rw [hsub, exec_liftR_ok] at h
          dsimp only at h
          rw [exec_bind] at h
          rcases hc : exec (ackerCall fuel .worker sb isAck task) s with ⟨r1, s1⟩
          rw [hc] at h
          obtain ⟨p1, p2⟩ := none_step hs hb hn hnx hnk hv hg hsub hc
          cases r1 with
          | error e => dsimp only at h; cases h; exact OutV.fail p1
          | ok u =>
            dsimp only at h
            have st := p2 rfl
            exact OutV.compose hb hv hg st (ih j s1 s' r (hv.next hb hg st) h)
      | some rid =>
        rw [hrun] at h hall hmax
        dsimp only at h
        rw [run_block_eq fuel .worker b isAck task i j rid s] at h
        dsimp only at h
        have hg : Grp b rs i j (some rid) := ⟨by omega, hjl, hall, fun rid' he => by
          cases he; exact tail_zero hs hv.srcmap hb (by omega) hall hmax⟩
        have hcs := hg.cnt_self hb rfl
        obtain ⟨hrid, hok⟩ := hv.acc rid (by rw [hcs]; omega)
        rw [hcs] at hok
        have he : isAck = false → (firstRunError ((b.st.take j).drop i)).isSome = true := by
          intro hi'
          apply firstRunError_isSome
          · intro he
            have : ((b.st.take j).drop i).length = j - i := by simp [hb.slen]; omega
            rw [he] at this; simp at this; omega
          · intro x hx
            exact hn hi' x ((List.take_sublist j b.st).subset ((List.drop_sublist i _).subset hx))
        generalize he' : firstRunError ((b.st.take j).drop i) = e at h he
        by_cases hm0 : 0 < rest rid
        · -- the run stays open
          obtain ⟨w1, w2⟩ := runVote_hold (s.heap[rid]!) (j - i) (rest rid) isAck task e hok hm0 he
          rw [w1] at h
          dsimp only at h
          have st := hold_step (nx := nx) hs hb hnx hrl hv hg hm0 w2
          exact OutV.compose hb hv hg st (ih j _ s' r (hv.next hb hg st) h)
        · -- the run completes: the original goes to the worker
          have hm0' : rest rid = 0 := by omega
          rw [hm0'] at hok
          have w1 := runVote_done (s.heap[rid]!) (j - i) isAck task e hok
          rw [w1] at h
          have hnerr := voted_nerr (s.heap[rid]!) (j - i) isAck task e hok.nerr he
          generalize hx : ({ voted (s.heap[rid]!) (j - i) isAck task e with released := true } : SplitRun) = x at h
          have hxn : x.nacked = (voted (s.heap[rid]!) (j - i) isAck task e).nacked := by rw [← hx]
          have hxe : x.nackErr = (voted (s.heap[rid]!) (j - i) isAck task e).nackErr := by rw [← hx]
          have key : ∀ (bb : Batch) (ia : Bool) (tk : Nat),
              ((ia = true ∧ bb = runAckBatch x ∧ x.nacked = false) ∨ (ia = false ∧ bb = runNackBatch x ∧ x.nacked = true)) →
              exec (do ackerCall fuel .worker bb ia tk
                       voteLoop fuel .worker b isAck task j) (setRun rid x s) = (r, s') →
              OutV G rest doom b sm i nx s s' r := by
            intro bb ia tk hbb h
            rw [exec_bind] at h
            rcases hc : exec (ackerCall fuel .worker bb ia tk) (setRun rid x s) with ⟨r1, s1⟩
            rw [hc] at h
            obtain ⟨p1, p2⟩ := rel_step (task := task) (e := e) hs hb hdoom hnx hv hg hm0' hmax hx.symm
              (fun hk => by rw [hxe]; exact hnerr (by rw [← hxn]; exact hk)) hbb hc
            cases r1 with
            | error e => dsimp only at h; cases h; exact OutV.fail p1
            | ok u =>
              dsimp only at h
              have st := p2 rfl
              exact OutV.compose hb hv hg st (ih j s1 s' r (hv.next hb hg st) h)
          cases hnk : (voted (s.heap[rid]!) (j - i) isAck task e).nacked with
          | true =>
            rw [hnk] at h
            simp only [if_true] at h
            exact key (runNackBatch x) false x.nackTask (Or.inr ⟨rfl, rfl, by rw [hxn]; exact hnk⟩) h
          | false =>
            rw [hnk] at h
            simp only [Bool.false_eq_true, if_false] at h
            exact key (runAckBatch x) true 0 (Or.inl ⟨rfl, rfl, by rw [hxn]; exact hnk⟩) h
    · rw [voteLoop_end fuel .worker b isAck task i hi] at h
      cases h
      have hlen : sm.length = b.recs.length := by rw [hv.srcmap.len, rows_length]
      have hnil : b.view.drop i = [] := List.drop_of_length_le (by rw [hb.view_len]; omega)
      refine ⟨⟨hv.ginv.safe, fun _ => hv.ginv, fun _ h => by omega, fun _ _ => rfl, fun _ => Ext.refl _ _,
        fun _ e he => Or.inl he, fun _ => hv.wseen, fun _ => Nat.le_refl _, fun _ _ _ _ => rfl,
        fun _ _ _ => ⟨rfl, rfl⟩, ?_, fun _ => hv.hlin, fun _ => hv.htouch, ?_⟩, fun _ => SameW.refl G s⟩
      · intro _ rid hc; rw [hnil, cnt_nil] at hc; omega
      · intro _ rid hc; rw [hnil, cnt_nil] at hc; omega

theorem voteS {G : Ctx} (hs : Src G) (b : Batch) (rs : List (Option Nat)) (hb : VB b rs) (sm : List Nat)
    (isAck : Bool) (task : Nat) (hn : isAck = false → NackOK b) (rest : Nat → Nat) (doom : Nat → Prop) (nx : Nat)
    (hdoom : ∀ rid, doom rid → 0 < rest rid) (hnx : NextOK rest b sm nx) (hrl : RestLast rest b) (hnk : NoSplitKey b) :
    ∀ (fuel i : Nat) (s s' : PS) (r : Except Stop Unit), VInv G b sm rest doom isAck i s →
      exec (voteLoop fuel .worker b isAck task i) s = (r, s') → OutS G rest doom b sm i nx s s' r :=
  fun fuel i s s' r hv h => (voteV hs b rs hb sm isAck task hn rest doom nx hdoom hnx hrl hnk fuel i s s' r hv h).1

end Conduit.Funnel
