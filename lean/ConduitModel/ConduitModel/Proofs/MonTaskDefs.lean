import ConduitModel.Proofs.MonInv
import ConduitModel.Proofs.MonProcEffect
import ConduitModel.Proofs.MonDestEffect

/-!
# Definitions for the task-level monitor lemmas

* `pcallOK`, `rpRun`, `RP` — the lineage convention of the harness generators as a checkable
  condition on the event log of a run: every processor reply maps an input record to outputs with
  the same root (`root r = r.tag % 1000`);
* `destsS` — the destinations of a task tree (structural version of `Mon.dests`);
* `FlagsAF`, `Facts` — what is known about the records of a batch in flight.
-/
namespace Conduit.Funnel
open Conduit.Funnel.Mon

/-! ## root preservation -/

/-- one processor call keeps the roots: a `SingleRecord` has the root of its input record, all the
pieces of a `MultiRecord` have it -/
def pcallOK (recs : List Rec) (out : List PR) : Bool :=
  (recs.zip out).all fun (r, o) => match o with
    | .single r' => root r' == root r
    | .multi m => m.all (fun r' => root r' == root r)
    | _ => true

/-- every processor call of the log keeps the roots (`calls` = calls seen so far per task) -/
def rpRun (scripts : List (Nat × List Reply)) : List (Nat × Nat) → List Ev → Bool
  | _, [] => true
  | calls, .pcall t recs :: rest =>
    pcallOK recs (procOut (replyOfCall scripts t (callNoL calls t))) && rpRun scripts (bumpL calls t) rest
  | calls, .write t _ :: rest => rpRun scripts (bumpL calls t) rest
  | calls, .dlqw t _ :: rest => rpRun scripts (bumpL calls t) rest
  | calls, .sack _ :: rest => rpRun scripts calls rest

/-- the log of `s` obeys the lineage convention -/
def RP (G : Ctx) (s : PS) : Prop := rpRun G.scripts [] s.log.toList = true

/-- the call counters after a log -/
def callsAfter (calls : List (Nat × Nat)) (log : List Ev) : List (Nat × Nat) :=
  log.foldl (fun c e => match evTask e with | some t => bumpL c t | none => c) calls

theorem rpRun_append (scripts : List (Nat × List Reply)) : ∀ (l1 l2 : List Ev) (calls : List (Nat × Nat)),
    rpRun scripts calls (l1 ++ l2) = (rpRun scripts calls l1 && rpRun scripts (callsAfter calls l1) l2) := by
  intro l1
  induction l1 with
  | nil => intro l2 calls; simp [rpRun, callsAfter]
  | cons e l1 ih =>
    intro l2 calls
    cases e with
    | pcall t r => simp only [List.cons_append, rpRun, ih, callsAfter, List.foldl_cons, evTask, Bool.and_assoc]
    | write t r => simp only [List.cons_append, rpRun, ih, callsAfter, List.foldl_cons, evTask]
    | dlqw t r => simp only [List.cons_append, rpRun, ih, callsAfter, List.foldl_cons, evTask]
    | sack ps => simp only [List.cons_append, rpRun, ih, callsAfter, List.foldl_cons, evTask]

theorem calls_foldl (tree : TaskNode) (scripts : List (Nat × List Reply)) : ∀ (log : List Ev) (μ : TSt),
    (log.foldl (stepT tree scripts) μ).calls = callsAfter μ.calls log := by
  intro log
  induction log with
  | nil => intro μ; rfl
  | cons e log ih =>
    intro μ
    rw [List.foldl_cons, ih, calls_stepT']
    rfl

theorem calls_mu (G : Ctx) (s : PS) : (G.mu s).calls = callsAfter [] s.log.toList :=
  calls_foldl G.tree G.scripts s.log.toList _

theorem RP.prefix {G : Ctx} {s s' : PS} (h : RP G s') (hp : s.log.toList <+: s'.log.toList) : RP G s := by
  obtain ⟨t, ht⟩ := hp
  unfold RP at h ⊢
  rw [← ht, rpRun_append] at h
  simp only [Bool.and_eq_true] at h
  exact h.1

/-- the processor call just logged keeps the roots -/
theorem RP.pcall {G : Ctx} {s s' : PS} (h : RP G s') (t : Nat) (recs : List Rec) (hlog : s'.log = s.log.push (.pcall t recs)) :
    pcallOK recs (procOut (replyOfCall G.scripts t (callNoL (G.mu s).calls t))) = true := by
  unfold RP at h
  rw [hlog, Array.toList_push, rpRun_append] at h
  simp only [Bool.and_eq_true] at h
  have h2 := h.2
  rw [← calls_mu] at h2
  simp only [rpRun, Bool.and_eq_true] at h2
  exact h2.1

/-! ## destinations of a tree, structurally -/

/-- the destinations of a tree (`Mon.dests`) -/
abbrev destsS : TaskNode → List Nat := Mon.dests
abbrev destsL : List TaskNode → List Nat := Mon.destsL

theorem destsS_eq (node : TaskNode) :
    destsS node = (if node.kind == .dest then [node.id] else []) ++ destsL node.next := by
  cases node with
  | mk id k next => show Mon.dests _ = _; rw [Mon.dests]; rfl

theorem destsL_nil : destsL [] = [] := by show Mon.destsL [] = []; rw [Mon.destsL]
theorem destsL_cons (n : TaskNode) (ns : List TaskNode) : destsL (n :: ns) = destsS n ++ destsL ns := by
  show Mon.destsL (n :: ns) = _; rw [Mon.destsL]

/-! ## records in flight -/

/-- every status is `ack` or `filter` -/
def FlagsAF (b : Batch) : Prop := ∀ (q : Nat) (st : Status), b.st[q]? = some st → st.flag = .ack ∨ st.flag = .filter

/-- What the monitor state `μ` knows about the records `q ≥ i` of batch `b` (aligned at `n0`) once
the task of a node has run: `pre` = destinations before the node, `pre'` = those plus the node itself
if it is a destination, `nd` = "the node is not a destination". -/
structure Facts (G : Ctx) (μ : TSt) (pre pre' : List Nat) (nd : Prop) (n0 : Nat) (b : Batch) (i : Nat) : Prop where
  ack : ∀ (q : Nat) (st : Status) (src : Rec), i ≤ q → b.st[q]? = some st → G.all[n0 + q]? = some src →
    st.flag = .ack → Active μ pre' (root src)
  fil : ∀ (q : Nat) (st : Status) (src : Rec), i ≤ q → b.st[q]? = some st → G.all[n0 + q]? = some src →
    st.flag = .filter → Filtered μ (root src)
  retry : ∀ (q : Nat) (st : Status) (src : Rec), i ≤ q → b.st[q]? = some st → G.all[n0 + q]? = some src →
    st.flag = .retry → Active μ pre (root src) ∧ nd

theorem Facts.ext {G : Ctx} {μ μ' : TSt} {pre pre' : List Nat} {nd : Prop} {n0 : Nat} {b : Batch} {i : Nat} {R : Nat → Prop}
    (h : Facts G μ pre pre' nd n0 b i) (he : Ext R μ μ')
    (hr : ∀ (q : Nat) (src : Rec), i ≤ q → q < b.st.length → G.all[n0 + q]? = some src → ¬ R (root src)) :
    Facts G μ' pre pre' nd n0 b i := by
  have hlt : ∀ (q : Nat) (st : Status), b.st[q]? = some st → q < b.st.length :=
    fun q st h => (List.getElem?_eq_some_iff.mp h).1
  refine ⟨?_, ?_, ?_⟩
  · intro q st src hq hst hsrc hf
    exact (h.ack q st src hq hst hsrc hf).ext he (hr q src hq (hlt q st hst) hsrc)
  · intro q st src hq hst hsrc hf
    exact (h.fil q st src hq hst hsrc hf).ext he (hr q src hq (hlt q st hst) hsrc)
  · intro q st src hq hst hsrc hf
    obtain ⟨h1, h2⟩ := h.retry q st src hq hst hsrc hf
    exact ⟨h1.ext he (hr q src hq (hlt q st hst) hsrc), h2⟩

theorem Facts.mono_idx {G : Ctx} {μ : TSt} {pre pre' : List Nat} {nd : Prop} {n0 : Nat} {b : Batch} {i j : Nat}
    (h : Facts G μ pre pre' nd n0 b i) (hij : i ≤ j) : Facts G μ pre pre' nd n0 b j :=
  ⟨fun q st src hq => h.ack q st src (by omega), fun q st src hq => h.fil q st src (by omega),
   fun q st src hq => h.retry q st src (by omega)⟩

end Conduit.Funnel
