import ConduitModel.Proofs.MonPipe
import ConduitModel.Proofs.MonProc
import ConduitModel.Proofs.MonDest
import ConduitModel.Proofs.MonWorkerNack
import ConduitModel.Proofs.MonRun

/-!
# From the task recursion to the whole run (linear pipelines, no record splitting)

`pipeM_all` closes the fuel induction; `runPass_mon` starts a pass on a freshly read batch;
`runBatches_mon` chains the passes of a run; `linear_nosplit_sound` is the result for a run from the
initial state of a case.
-/
namespace Conduit.Funnel
open Conduit.Funnel.Mon

theorem deps (G : Ctx) (hs : Src G) (hns : NS G.scripts) : Deps G where
  proc := fun hI hb hcl hal hf haf hfacts h hrp => procDo_mon hs hns hI hb hcl hal hf haf hfacts h hrp
  dest := fun hI hb hcl hal hf haf hfacts hbelow h => destDo_mon hs hI hb hcl hal hf haf hfacts hbelow h
  nack := fun hI hb hsp hn hal hf h => workerNack_mon hs hI hb hsp hn hal hf h

theorem pipeM_all {G : Ctx} (hs : Src G) (D : Deps G) : ∀ fuel : Nat, PipeM G fuel ∧ TaintM G fuel ∧ NextM G fuel := by
  intro fuel
  induction fuel with
  | zero =>
    refine ⟨?_, ?_, ?_⟩
    · intro node pre n0 b retry skipDo s s' r _ _ _ hI _ _ _ _ _ _ _ h _
      rw [doTaskAttempt] at h; cases h; exact Out.fail hI.safe
    · intro node pre n0 b retry i s s' r _ _ hI _ _ _ _ _ h _
      rw [taintedLoop] at h; cases h; exact Out.fail hI.safe
    · intro node pre n0 sb s s' r _ _ _ hI _ _ _ _ _ _ _ h _
      rw [doNextTask] at h; cases h; exact Out.fail hI.safe
  | succ n ih =>
    obtain ⟨p, t, nx⟩ := ih
    exact ⟨dta_stepM hs D n nx t, taint_stepM hs D n p nx t, next_stepM n p⟩

/-- no monitor fact concerns a record that has not been acknowledged yet (true between passes) -/
structure Rested (G : Ctx) (s : PS) : Prop where
  err : ∀ x ∈ (G.mu s).errored, NonPend G (nAcked s) x
  wr : ∀ e ∈ (G.mu s).written, NonPend G (nAcked s) e.2.1

theorem Rested.out {G : Ctx} {s s' : PS} {n0 len : Nat} (h : Rested G s) (he : Ext (InR G n0 len) (G.mu s) (G.mu s'))
    (hn : nAcked s ≤ n0 + len) (hn' : nAcked s' = n0 + len) : Rested G s' := by
  refine ⟨?_, ?_⟩
  · intro x hx
    rw [hn']
    rcases he.err_new x hx with h1 | h1
    · exact (h.err x h1).mono hn
    · exact h1.nonPend
  · intro e hx
    rw [hn']
    rcases he.wr_new e hx with h1 | h1
    · exact (h.wr e h1).mono hn
    · exact h1.nonPend

/-- what is required of the task tree -/
structure TreeOK (G : Ctx) : Prop where
  lin : Linear G.tree
  src : G.tree.kind = .source
  nodup : (dests G.tree).Nodup

/-- one pass on the batch `recs` = the records `n0 …` read -/
theorem runPass_mon {G : Ctx} (hs : Src G) (D : Deps G) (ht : TreeOK G) (fuel : Nat) (recs : List Rec) (n0 : Nat)
    {s s' : PS} {r : Except Stop Unit} (hI : GInv G s) (hq : Rested G s) (hf : nAcked s = n0)
    (hrecs : ∀ (q : Nat) (x : Rec), recs[q]? = some x → G.all[n0 + q]? = some x)
    (h : exec (runPass fuel G.tree recs) s = (r, s')) (hrp : RP G s') :
    Out G n0 recs.length s s' r := by
  unfold runPass at h
  have hpos : (Batch.new recs).pos.length = recs.length := by simp [Batch.new]
  rw [← hpos]
  have hpend : ∀ (q : Nat) (src : Rec), G.all[n0 + q]? = some src → ¬ NonPend G n0 (root src) := by
    intro q src hsrc hn
    have := hn.lt hs hsrc (by omega)
    omega
  refine (pipeM_all hs D fuel).1 G.tree [] n0 (Batch.new recs) none true s s' r ht.lin ?_ (fun _ => ht.src) hI
    (new_BInv recs) rfl ?_ hf ?_ ?_ ?_ h hrp
  · exact ⟨fun d hd => Or.inr hd, ht.nodup⟩
  · constructor
    · intro q p hp
      simp only [Batch.new, List.getElem?_map] at hp
      cases hx : recs[q]? with
      | none => rw [hx] at hp; cases hp
      | some x =>
        rw [hx] at hp
        simp only [Option.map_some, Option.some.injEq] at hp
        exact ⟨x, hrecs q x hx, by rw [← hp]⟩
    · intro q x src hx hsrc
      have hx' : recs[q]? = some x := hx
      have := hrecs q x hx'
      rw [this] at hsrc
      cases hsrc
      rfl
  · intro q st hst
    simp only [Batch.new, List.getElem?_map] at hst
    cases hx : recs[q]? with
    | none => rw [hx] at hst; cases hst
    | some x => rw [hx] at hst; cases hst; exact Or.inl rfl
  · have hclean : ∀ (q : Nat) (src : Rec), G.all[n0 + q]? = some src → Clean (G.mu s) (root src) := by
      intro q src hsrc
      refine ⟨fun hx => hpend q src hsrc (hf ▸ hq.err _ hx), fun e he hr => ?_⟩
      exact absurd (hf ▸ hr ▸ hq.wr e he) (hpend q src hsrc)
    refine ⟨?_, ?_, ?_⟩
    · intro q st src _ _ hsrc _
      exact ⟨hclean q src hsrc, fun d hd => nomatch hd⟩
    · intro q st src _ hst _ hfl
      simp only [Batch.new, List.getElem?_map] at hst
      cases hx : recs[q]? with
      | none => rw [hx] at hst; cases hst
      | some x => rw [hx] at hst; cases hst; cases hfl
    · intro q st src _ hst _ hfl
      simp only [Batch.new, List.getElem?_map] at hst
      cases hx : recs[q]? with
      | none => rw [hx] at hst; cases hst
      | some x => rw [hx] at hst; cases hst; cases hfl
  · intro e he _
    exact hq.wr e he


theorem GInv.same {G : Ctx} {s s' : PS} (h : GInv G s) (hlog : s'.log = s.log) (hscr : s'.scripts = s.scripts) : GInv G s' := by
  have hm := mu_same G s s' hlog
  have hn : nAcked s' = nAcked s := by unfold nAcked; rw [hlog]
  exact ⟨by rw [hm]; exact h.safe, h.sc.same hlog hscr, by rw [hlog, hn]; exact h.acked,
    by rw [hm, hn]; exact h.dlqAny, by rw [hm, hn]; exact h.dlqOk, by rw [hm]; exact h.wr⟩

theorem Rested.same {G : Ctx} {s s' : PS} (h : Rested G s) (hlog : s'.log = s.log) : Rested G s' := by
  have hm := mu_same G s s' hlog
  have hn : nAcked s' = nAcked s := by unfold nAcked; rw [hlog]
  exact ⟨by rw [hm, hn]; exact h.err, by rw [hm, hn]; exact h.wr⟩

/-- the passes of a run, from a state between two passes -/
theorem runBatches_mon {G : Ctx} (hs : Src G) (D : Deps G) (ht : TreeOK G) (fuel : Nat) :
    ∀ (rest done : List (List Rec)) (s s' : PS) (r : Except Stop Unit),
      G.batches = done ++ rest → GInv G s → Rested G s → nAcked s = done.flatten.length →
      exec (runBatches fuel G.tree rest) s = (r, s') → RP G s' → (G.mu s').tv = [] := by
  intro rest
  induction rest with
  | nil =>
    intro done s s' r _ hI _ _ h _
    rw [exec_runBatches_nil] at h
    cases h
    exact hI.safe
  | cons b bs ih =>
    intro done s s' r hb hI hq hf h hrp
    rw [exec_runBatches_cons] at h
    rcases hx : exec (runPass fuel G.tree b) (resetPass s) with ⟨r1, s1⟩
    rw [hx] at h
    have hI0 : GInv G (resetPass s) := hI.same rfl rfl
    have hq0 : Rested G (resetPass s) := hq.same rfl
    have hf0 : nAcked (resetPass s) = done.flatten.length := hf
    have hrecs : ∀ (q : Nat) (x : Rec), b[q]? = some x → G.all[done.flatten.length + q]? = some x := by
      intro q x hqx
      have hql := (List.getElem?_eq_some_iff.mp hqx).1
      unfold Ctx.all
      rw [hb, List.flatten_append, List.flatten_cons, List.getElem?_append_right (by omega),
        Nat.add_sub_cancel_left, List.getElem?_append_left hql]
      exact hqx
    cases r1 with
    | error e =>
      dsimp only at h
      cases h
      exact (runPass_mon hs D ht fuel b _ hI0 hq0 hf0 hrecs hx hrp).safe
    | ok u =>
      cases u
      dsimp only at h
      have hmono : s1.log.toList <+: s'.log.toList := by
        have := runBatches_log_mono fuel G.tree bs s1
        rw [h] at this
        exact this
      have o1 := runPass_mon hs D ht fuel b _ hI0 hq0 hf0 hrecs hx (hrp.prefix hmono)
      obtain ⟨g1, g2, g3⟩ := o1.ok rfl
      have hq1 : Rested G s1 := hq0.out g3 (by rw [hf0]; omega) g2
      refine ih (done ++ [b]) s1 s' r (by rw [hb]; simp) g1 hq1 ?_ h hrp
      rw [g2]; simp

end Conduit.Funnel
