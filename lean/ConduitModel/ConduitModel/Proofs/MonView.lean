import ConduitModel.Proofs.MonFacts

/-!
# Views of the monitor state: source hypotheses, frames (`Ext`), per-record facts

* `Src G` — the source hypothesis of the soundness theorems: `Mon.sourceWellFormed` and roots
  strictly increasing in read order (so: distinct keys, distinct roots);
* `Ext R μ μ'` — `μ'` extends `μ` and every new fact concerns a root satisfying `R` (frame rule);
* `Clean`, `Active`, `Filtered` — what the monitor knows about a record in flight;
* `NonPend G n ρ` — `ρ` is the root of one of the first `n` records read.
-/
namespace Conduit.Funnel
open Conduit.Funnel.Mon

abbrev keyR (r : Rec) : Nat := keyOf r.pos

/-! ## source hypotheses -/

structure Src (G : Ctx) : Prop where
  swf : sourceWellFormed G.batches = true
  sorted : (G.all.map root).Pairwise (· < ·)

theorem eraseDups_length_le : ∀ (n : Nat) (l : List Nat), l.length ≤ n → l.eraseDups.length ≤ l.length := by
  intro n
  induction n with
  | zero => intro l h; have : l = [] := List.length_eq_zero_iff.mp (by omega); subst this; simp
  | succ n ih =>
    intro l h
    cases l with
    | nil => simp
    | cons a l =>
      rw [List.eraseDups_cons]
      have h1 : (l.filter fun b => !b == a).length ≤ l.length := List.length_filter_le _ _
      have := ih (l.filter fun b => !b == a) (by simp at h; omega)
      simp only [List.length_cons]
      omega

theorem nodup_of_eraseDups_length : ∀ (n : Nat) (l : List Nat), l.length ≤ n → l.eraseDups.length = l.length → l.Nodup := by
  intro n
  induction n with
  | zero => intro l h _; have : l = [] := List.length_eq_zero_iff.mp (by omega); subst this; simp
  | succ n ih =>
    intro l h he
    cases l with
    | nil => simp
    | cons a l =>
      rw [List.eraseDups_cons] at he
      simp only [List.length_cons] at he h
      have h1 : (l.filter fun b => !b == a).length ≤ l.length := List.length_filter_le _ _
      have h2 := eraseDups_length_le _ (l.filter fun b => !b == a) (Nat.le_refl _)
      have hf : (l.filter fun b => !b == a).length = l.length := by omega
      have hfe : l.filter (fun b => !b == a) = l := List.filter_eq_self.mpr (by
        have := List.length_filter_eq_length_iff.mp hf
        exact this)
      rw [hfe] at he
      have hnd := ih l (by omega) (by omega)
      refine List.nodup_cons.mpr ⟨?_, hnd⟩
      intro hmem
      have := (List.filter_eq_self.mp hfe) a hmem
      simp at this

namespace Src
variable {G : Ctx} (hs : Src G)
include hs

theorem key_ne_zero {r : Rec} (hr : r ∈ G.all) : keyR r ≠ 0 := by
  have h := hs.swf
  unfold sourceWellFormed at h
  simp only [Bool.and_eq_true, List.all_eq_true, List.mem_map] at h
  have := h.1 r.pos ⟨r, hr, rfl⟩
  unfold posEmpty at this
  simpa using this

theorem keys_nodup : (G.all.map keyR).Nodup := by
  have h := hs.swf
  unfold sourceWellFormed at h
  simp only [Bool.and_eq_true, beq_iff_eq] at h
  have h2 := h.2
  have e : (G.batches.flatten.map (·.pos)).map keyOf = G.all.map keyR := by
    simp [Ctx.all, List.map_map, Function.comp_def]
  rw [e, List.length_map] at h2
  exact nodup_of_eraseDups_length _ (G.all.map keyR) (Nat.le_refl _) (by rw [List.length_map]; exact h2)

/-- the position key identifies the record -/
theorem idx_of_key {i j : Nat} {a b : Rec} (hi : G.all[i]? = some a) (hj : G.all[j]? = some b)
    (hk : keyR a = keyR b) : i = j := by
  have hnd := hs.keys_nodup
  unfold List.Nodup at hnd
  rw [List.pairwise_iff_getElem] at hnd
  rw [List.getElem?_eq_some_iff] at hi hj
  obtain ⟨hi1, hi2⟩ := hi
  obtain ⟨hj1, hj2⟩ := hj
  rcases Nat.lt_trichotomy i j with h | h | h
  · have := hnd i j (by simpa using hi1) (by simpa using hj1) h
    simp [hi2, hj2, hk] at this
  · exact h
  · have := hnd j i (by simpa using hj1) (by simpa using hi1) h
    simp [hi2, hj2, hk] at this

/-- roots grow in read order -/
theorem root_lt {i j : Nat} {a b : Rec} (hi : G.all[i]? = some a) (hj : G.all[j]? = some b) (hij : i < j) :
    root a < root b := by
  have hp := hs.sorted
  rw [List.pairwise_iff_getElem] at hp
  rw [List.getElem?_eq_some_iff] at hi hj
  obtain ⟨hi1, hi2⟩ := hi
  obtain ⟨hj1, hj2⟩ := hj
  have := hp i j (by simpa using hi1) (by simpa using hj1) hij
  simpa [hi2, hj2] using this

theorem idx_of_root {i j : Nat} {a b : Rec} (hi : G.all[i]? = some a) (hj : G.all[j]? = some b)
    (hk : root a = root b) : i = j := by
  rcases Nat.lt_trichotomy i j with h | h | h
  · have := hs.root_lt hi hj h; omega
  · exact h
  · have := hs.root_lt hj hi h; omega

end Src

/-! ## roots of records already acknowledged / still pending -/

/-- `ρ` is the root of one of the first `n` records read -/
def NonPend (G : Ctx) (n : Nat) (ρ : Nat) : Prop := ∃ (i : Nat) (src : Rec), i < n ∧ G.all[i]? = some src ∧ root src = ρ

/-- `ρ` is the root of one of the records `n0 … n0+len-1` -/
def InR (G : Ctx) (n0 len : Nat) (ρ : Nat) : Prop :=
  ∃ (q : Nat) (src : Rec), q < len ∧ G.all[n0 + q]? = some src ∧ root src = ρ

theorem NonPend.mono {G : Ctx} {n n' : Nat} {ρ : Nat} (h : NonPend G n ρ) (hle : n ≤ n') : NonPend G n' ρ := by
  obtain ⟨i, src, hi, h1, h2⟩ := h
  exact ⟨i, src, by omega, h1, h2⟩

theorem NonPend.lt {G : Ctx} (hs : Src G) {n j : Nat} {ρ : Nat} {b : Rec} (h : NonPend G n ρ)
    (hj : G.all[j]? = some b) (hnj : n ≤ j) : ρ < root b := by
  obtain ⟨i, src, hi, h1, h2⟩ := h
  rw [← h2]
  exact hs.root_lt h1 hj (by omega)

theorem InR.nonPend {G : Ctx} {n0 len : Nat} {ρ : Nat} (h : InR G n0 len ρ) : NonPend G (n0 + len) ρ := by
  obtain ⟨q, src, hq, h1, h2⟩ := h
  exact ⟨n0 + q, src, by omega, h1, h2⟩

theorem InR.not_nonPend {G : Ctx} (hs : Src G) {n0 len : Nat} {ρ : Nat} (h : InR G n0 len ρ) : ¬ NonPend G n0 ρ := by
  obtain ⟨q, src, hq, h1, h2⟩ := h
  intro hn
  have := hn.lt hs h1 (by omega)
  omega

theorem InR.mono {G : Ctx} {n0 len len' : Nat} {ρ : Nat} (h : InR G n0 len ρ) (hle : len ≤ len') : InR G n0 len' ρ := by
  obtain ⟨q, src, hq, h1, h2⟩ := h
  exact ⟨q, src, by omega, h1, h2⟩

theorem InR.shift {G : Ctx} {n0 i len : Nat} {ρ : Nat} (h : InR G (n0 + i) len ρ) : InR G n0 (i + len) ρ := by
  obtain ⟨q, src, hq, h1, h2⟩ := h
  exact ⟨i + q, src, by omega, by rw [← Nat.add_assoc]; exact h1, h2⟩

/-- disjoint index ranges have disjoint roots -/
theorem InR.disjoint {G : Ctx} (hs : Src G) {n0 len n1 len1 : Nat} {ρ : Nat} (h : InR G n0 len ρ)
    (h1 : InR G n1 len1 ρ) (hd : n0 + len ≤ n1 ∨ n1 + len1 ≤ n0) : False := by
  obtain ⟨q, src, hq, a1, a2⟩ := h
  obtain ⟨q', src', hq', b1, b2⟩ := h1
  have := hs.idx_of_root a1 b1 (a2.trans b2.symm)
  omega

/-! ## frames -/

/-- `μ'` extends `μ`; every new fact concerns a root satisfying `R` -/
structure Ext (R : Nat → Prop) (μ μ' : TSt) : Prop where
  filt_mono : ∀ x ∈ μ.filtered, x ∈ μ'.filtered
  filt_new : ∀ x ∈ μ'.filtered, x ∈ μ.filtered ∨ R x
  err_mono : ∀ x ∈ μ.errored, x ∈ μ'.errored
  err_new : ∀ x ∈ μ'.errored, x ∈ μ.errored ∨ R x
  wr_mono : ∀ e ∈ μ.written, e ∈ μ'.written
  wr_new : ∀ e ∈ μ'.written, e ∈ μ.written ∨ R e.2.1
  any_mono : ∀ x ∈ μ.dlqAny, x ∈ μ'.dlqAny
  any_new : ∀ x ∈ μ'.dlqAny, x ∈ μ.dlqAny ∨ R x
  ok_mono : ∀ x ∈ μ.dlqOk, x ∈ μ'.dlqOk
  ok_new : ∀ x ∈ μ'.dlqOk, x ∈ μ.dlqOk ∨ R x

theorem Ext.refl (R : Nat → Prop) (μ : TSt) : Ext R μ μ :=
  ⟨fun _ h => h, fun _ h => Or.inl h, fun _ h => h, fun _ h => Or.inl h, fun _ h => h, fun _ h => Or.inl h,
   fun _ h => h, fun _ h => Or.inl h, fun _ h => h, fun _ h => Or.inl h⟩

theorem Ext.trans {R : Nat → Prop} {a b c : TSt} (h1 : Ext R a b) (h2 : Ext R b c) : Ext R a c where
  filt_mono := fun x h => h2.filt_mono x (h1.filt_mono x h)
  filt_new := fun x h => (h2.filt_new x h).elim (fun h => h1.filt_new x h) Or.inr
  err_mono := fun x h => h2.err_mono x (h1.err_mono x h)
  err_new := fun x h => (h2.err_new x h).elim (fun h => h1.err_new x h) Or.inr
  wr_mono := fun x h => h2.wr_mono x (h1.wr_mono x h)
  wr_new := fun x h => (h2.wr_new x h).elim (fun h => h1.wr_new x h) Or.inr
  any_mono := fun x h => h2.any_mono x (h1.any_mono x h)
  any_new := fun x h => (h2.any_new x h).elim (fun h => h1.any_new x h) Or.inr
  ok_mono := fun x h => h2.ok_mono x (h1.ok_mono x h)
  ok_new := fun x h => (h2.ok_new x h).elim (fun h => h1.ok_new x h) Or.inr

theorem Ext.mono {R R' : Nat → Prop} {a b : TSt} (h : Ext R a b) (hr : ∀ x, R x → R' x) : Ext R' a b where
  filt_mono := h.filt_mono
  filt_new := fun x hx => (h.filt_new x hx).imp id (hr x)
  err_mono := h.err_mono
  err_new := fun x hx => (h.err_new x hx).imp id (hr x)
  wr_mono := h.wr_mono
  wr_new := fun x hx => (h.wr_new x hx).imp id (hr _)
  any_mono := h.any_mono
  any_new := fun x hx => (h.any_new x hx).imp id (hr x)
  ok_mono := h.ok_mono
  ok_new := fun x hx => (h.ok_new x hx).imp id (hr x)

/-- two states with the same fact lists -/
theorem Ext.of_eq (R : Nat → Prop) {μ μ' : TSt} (h1 : μ'.filtered = μ.filtered) (h2 : μ'.errored = μ.errored)
    (h3 : μ'.written = μ.written) (h4 : μ'.dlqAny = μ.dlqAny) (h5 : μ'.dlqOk = μ.dlqOk) : Ext R μ μ' := by
  refine ⟨?_, ?_, ?_, ?_, ?_, ?_, ?_, ?_, ?_, ?_⟩ <;> intro x hx
  · rw [h1]; exact hx
  · rw [h1] at hx; exact Or.inl hx
  · rw [h2]; exact hx
  · rw [h2] at hx; exact Or.inl hx
  · rw [h3]; exact hx
  · rw [h3] at hx; exact Or.inl hx
  · rw [h4]; exact hx
  · rw [h4] at hx; exact Or.inl hx
  · rw [h5]; exact hx
  · rw [h5] at hx; exact Or.inl hx

/-! ## per-record facts -/

/-- no processor error and no rejected piece for root `ρ` -/
def Clean (μ : TSt) (ρ : Nat) : Prop := ρ ∉ μ.errored ∧ ∀ e ∈ μ.written, e.2.1 = ρ → e.2.2.2 = true

def WrittenTo (μ : TSt) (d ρ : Nat) : Prop := ∃ e ∈ μ.written, e.1 = d ∧ e.2.1 = ρ

/-- a record travelling down the pipeline: clean, and written to every destination in `pre` -/
def Active (μ : TSt) (pre : List Nat) (ρ : Nat) : Prop := Clean μ ρ ∧ ∀ d ∈ pre, WrittenTo μ d ρ

/-- a record filtered by a processor -/
def Filtered (μ : TSt) (ρ : Nat) : Prop := Clean μ ρ ∧ ρ ∈ μ.filtered

theorem Clean.ext {R : Nat → Prop} {μ μ' : TSt} {ρ : Nat} (h : Clean μ ρ) (he : Ext R μ μ') (hr : ¬ R ρ) : Clean μ' ρ := by
  refine ⟨fun hx => ?_, fun e hm hroot => ?_⟩
  · rcases he.err_new ρ hx with h1 | h1
    · exact h.1 h1
    · exact hr h1
  · rcases he.wr_new e hm with h1 | h1
    · exact h.2 e h1 hroot
    · rw [hroot] at h1; exact absurd h1 hr

theorem WrittenTo.ext {R : Nat → Prop} {μ μ' : TSt} {d ρ : Nat} (h : WrittenTo μ d ρ) (he : Ext R μ μ') : WrittenTo μ' d ρ := by
  obtain ⟨e, hm, h1, h2⟩ := h
  exact ⟨e, he.wr_mono e hm, h1, h2⟩

theorem Active.ext {R : Nat → Prop} {μ μ' : TSt} {pre : List Nat} {ρ : Nat} (h : Active μ pre ρ) (he : Ext R μ μ')
    (hr : ¬ R ρ) : Active μ' pre ρ :=
  ⟨h.1.ext he hr, fun d hd => (h.2 d hd).ext he⟩

theorem Filtered.ext {R : Nat → Prop} {μ μ' : TSt} {ρ : Nat} (h : Filtered μ ρ) (he : Ext R μ μ')
    (hr : ¬ R ρ) : Filtered μ' ρ :=
  ⟨h.1.ext he hr, he.filt_mono ρ h.2⟩

end Conduit.Funnel
