import ConduitModel.Proofs.MonInv
import ConduitModel.Props.WorkerProps

/-!
# `Worker.Ack` against the monitor

Acknowledging a batch whose records are the next records read, all justified (`AckJust`), keeps the
monitor silent; when the call succeeds exactly the batch is acknowledged and no monitor fact changes.
-/
namespace Conduit.Funnel
open Conduit.Funnel.Mon

theorem ackedKeys_push_sack (log : Array Ev) (ps : List PosV) : ackedKeys (log.push (.sack ps)) = ackedKeys log ++ keys ps := by
  rw [ackedKeys_push]; rfl

theorem nAcked_push_sack (s s' : PS) (ps : List PosV) (h : s'.log = s.log.push (.sack ps)) :
    nAcked s' = nAcked s + ps.length := by
  unfold nAcked
  rw [h, ackedKeys_push_sack]
  simp

theorem nAcked_push_other (s s' : PS) (e : Ev) (h : s'.log = s.log.push e) (he : evKeys e = []) : nAcked s' = nAcked s := by
  unfold nAcked
  rw [h, ackedKeys_push, he, List.append_nil]

/-- the monitor state after a `.sack` of justified positions at the read frontier -/
theorem mu_sack_just {G : Ctx} {s s' : PS} {ps : List PosV} {n0 : Nat} (hlog : s'.log = s.log.push (.sack ps))
    (hf : nAcked s = n0)
    (hj : ∀ (q : Nat) (p : PosV), ps[q]? = some p →
      ∃ src, G.all[n0 + q]? = some src ∧ keyR src = keyOf p ∧ AckJust G.tree (G.mu s) (root src)) :
    G.mu s' = { G.mu s with pending := (G.mu s).pending.drop ps.length } := by
  rw [mu_push G s s' _ hlog]
  show ps.foldl (ackT G.tree) (G.mu s) = _
  apply foldl_ackT_just
  intro q p hq
  obtain ⟨src, h1, h2, h3⟩ := hj q p hq
  refine ⟨src, ?_, h2, h3⟩
  rw [pending_mu, hf, List.getElem?_drop]
  exact h1

theorem workerAck_mon {G : Ctx} {s s' : PS} {r : Except Stop Unit} {sb : Batch} {n0 : Nat}
    (hI : GInv G s) (hb : BOK sb) (hal : Align G n0 sb) (hf : nAcked s = n0)
    (hj : ∀ (q : Nat) (src : Rec), q < sb.pos.length → G.all[n0 + q]? = some src → AckJust G.tree (G.mu s) (root src))
    (h : exec (workerAck sb) s = (r, s')) :
    (G.mu s').tv = [] ∧
    (r = .ok () → GInv G s' ∧ nAcked s' = n0 + sb.pos.length ∧ Ext (fun _ => False) (G.mu s) (G.mu s')) := by
  have e1 : exec (workerAck sb) s = workerAckP s sb := workerAck_eq sb s
  rw [e1] at h
  unfold workerAckP at h
  obtain ⟨o1, _, _⟩ := orig_ok hb
  rw [o1] at h
  by_cases hv : validateAckPositions sb.pos = true
  · simp only [hv, Bool.not_true, Bool.false_eq_true, if_false] at h
    have hlog : s'.log = s.log.push (.sack sb.pos) ∧ s'.scripts = s.scripts ∧ r = .ok () := by
      by_cases h0 : sb.recs.length = 0
      · simp only [h0, if_true] at h; cases h; exact ⟨rfl, rfl, rfl⟩
      · simp only [h0, if_false] at h; cases h; exact ⟨rfl, rfl, rfl⟩
    obtain ⟨hlog, hscr, hr⟩ := hlog
    have hmu := mu_sack_just (G := G) hlog hf (by
      intro q p hq
      obtain ⟨src, hsrc, hk⟩ := hal.pos q p hq
      have hql : q < sb.pos.length := (List.getElem?_eq_some_iff.mp hq).1
      exact ⟨src, hsrc, hk.symm, hj q src hql hsrc⟩)
    have hn : nAcked s' = n0 + sb.pos.length := by rw [nAcked_push_sack s s' _ hlog, hf]
    refine ⟨by rw [hmu]; exact hI.safe, fun _ => ⟨⟨?_, ?_, ?_, ?_, ?_, ?_⟩, hn, ?_⟩⟩
    · rw [hmu]; exact hI.safe
    · exact hI.sc.sack _ hlog hscr
    · rw [hlog, ackedKeys_push_sack, hI.acked, hn, hf, hal.keys, take_add_map]
    · intro x hx
      rw [hmu] at hx
      exact (hI.dlqAny x hx).mono (by rw [hn, hf]; omega)
    · intro x hx
      rw [hmu] at hx
      exact (hI.dlqOk x hx).mono (by rw [hn, hf]; omega)
    · intro e he
      rw [hmu] at he
      exact hI.wr e he
    · rw [hmu]
      exact Ext.of_eq _ rfl rfl rfl rfl rfl
  · simp only [hv, Bool.not_false, if_true] at h
    cases h
    exact ⟨hI.safe, fun hr => nomatch hr⟩

end Conduit.Funnel
