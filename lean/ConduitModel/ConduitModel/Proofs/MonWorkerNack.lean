import ConduitModel.Proofs.MonWorkerAck

/-!
# `Worker.Nack` against the monitor

Dead-lettering a batch whose records are the next records read keeps the monitor silent (the DLQ
write is neither a second write of a record nor out of source order, and exactly the leading
confirmed records are acknowledged); when the call succeeds exactly the batch is acknowledged and
the only new monitor facts concern the roots of the batch.
-/
namespace Conduit.Funnel
open Conduit.Funnel.Mon

/-! ## results that are not `.ok` -/

theorem not_ok_of_panics {s : PS} {b : Batch} {r : Except Stop Unit} (h : Panics s b r) : r ≠ .ok () := by
  obtain ⟨⟨m, hm⟩, _⟩ := h
  rw [hm]; exact fun hh => nomatch hh

theorem not_ok_of_fatal {r : Except Stop Unit} (h : IsFatal r) : r ≠ .ok () := by
  obtain ⟨e, he, _⟩ := h
  rw [he]; exact fun hh => nomatch hh

theorem not_ok_of_refused {s : PS} {b : Batch} {r : Except Stop Unit} (hob : b.original = b) (hn : NackOK b)
    (h : Refused s b r) : r ≠ .ok () := by
  obtain ⟨_, st, hst, hr⟩ := h
  rw [hob] at hst
  have hm : st ∈ b.st := List.mem_of_getElem? hst
  have := hn st hm
  cases he : st.err with
  | none => rw [he] at this; cases this
  | some e => rw [hr, he]; exact fun hh => nomatch hh

/-! ## list facts -/

theorem takeWhile_id_len : ∀ (l : List Bool) (n : Nat), (∀ j : Nat, j < n → l[j]? = some true) →
    n ≤ (l.takeWhile id).length := by
  intro l
  induction l with
  | nil =>
    intro n h
    cases n with
    | zero => exact Nat.zero_le _
    | succ m => have := h 0 (by omega); simp at this
  | cons a l ih =>
    intro n h
    cases n with
    | zero => exact Nat.zero_le _
    | succ m =>
      have h0 := h 0 (by omega)
      have ha : a = true := by simpa using h0
      subst ha
      have := ih m (fun j hj => by have := h (j+1) (by omega); simpa using this)
      simp only [List.takeWhile_cons, id, if_true, List.length_cons]
      omega

theorem oksQ_len (scripts : List (Nat × List Reply)) (task call : Nat) (rs : List Rec) (n : Nat) (hn : n ≤ rs.length)
    (h : ∀ j : Nat, j < n → confirmed scripts task call j (rs.map (·.pos)) = true) :
    n ≤ (oksQ scripts task call rs).length := by
  unfold oksQ
  apply takeWhile_id_len
  intro j hj
  have hjl : j < rs.length := by omega
  rw [List.getElem?_map, List.getElem?_range hjl]
  simp only [Option.map_some, List.getElem?_eq_getElem hjl, h j hj]

theorem confirmed_congr {sc1 sc2 : List (Nat × List Reply)} {t c1 c2 : Nat}
    (h : replyOfCall sc1 t c1 = replyOfCall sc2 t c2) (j : Nat) (ps : List PosV) :
    confirmed sc1 t c1 j ps = confirmed sc2 t c2 j ps := by
  unfold confirmed; rw [h]

theorem infoOf_map_fst (ob : Batch) (k task : Nat) (h : ob.st.length = ob.recs.length) :
    (infoOf ob k task).map (·.1) = ob.recs.take k := by
  unfold infoOf
  rw [List.map_map]
  have e : ((fun x : Rec × Option Err × Nat => x.1) ∘ fun (x : Rec × Status) => match x with | (r, st) => (r, st.err, task)) = Prod.fst := by
    funext ⟨r, st⟩; rfl
  rw [e, List.map_take, List.map_fst_zip]
  omega

/-! ## the DLQ write -/

/-- a record of the written prefix is the source record at the same offset from the frontier -/
theorem Align.take_src {G : Ctx} {n0 : Nat} {sb : Batch} (hal : Align G n0 sb) (hb : BOK sb) {k q : Nat} {r : Rec}
    (hq : (sb.recs.take k)[q]? = some r) :
    q < k ∧ q < sb.pos.length ∧ sb.recs[q]? = some r ∧ ∃ src, G.all[n0 + q]? = some src ∧ root r = root src := by
  rw [List.getElem?_take] at hq
  by_cases hqk : q < k
  · simp only [hqk, if_true] at hq
    have hql : q < sb.recs.length := (List.getElem?_eq_some_iff.mp hq).1
    have hqp : q < sb.pos.length := by rw [hb.pos_len]; exact hql
    obtain ⟨src, hsrc⟩ := hal.src hqp
    exact ⟨hqk, hqp, hq, src, hsrc, hal.lin q r src hq hsrc⟩
  · simp only [hqk, if_false] at hq; cases hq

theorem Align.take_inR {G : Ctx} {n0 : Nat} {sb : Batch} (hal : Align G n0 sb) (hb : BOK sb) (k : Nat) :
    ∀ r ∈ sb.recs.take k, InR G n0 sb.pos.length (root r) := by
  intro r hr
  obtain ⟨q, hq⟩ := List.mem_iff_getElem?.1 hr
  obtain ⟨_, hqp, _, src, hsrc, hroot⟩ := hal.take_src hb hq
  exact ⟨q, src, hqp, hsrc, hroot.symm⟩

/-- a DLQ write of records at the read frontier is neither a duplicate nor out of order -/
theorem dlqw_quiet {G : Ctx} (hs : Src G) {μ : TSt} {n0 len : Nat} {rs : List Rec}
    (hany : ∀ x ∈ μ.dlqAny, NonPend G n0 x) (hok : ∀ x ∈ μ.dlqOk, NonPend G n0 x)
    (hrs : ∀ r ∈ rs, InR G n0 len (root r)) : dlqDup μ rs = false ∧ dlqOrd μ rs = true := by
  constructor
  · unfold dlqDup
    rw [List.any_eq_false]
    intro r hr hc
    have : root r ∈ μ.dlqOk := by simpa using hc
    exact (hrs r hr).not_nonPend hs (hok _ this)
  · unfold dlqOrd
    rw [List.all_eq_true]
    intro x hx
    obtain ⟨r, hr, rfl⟩ := List.mem_map.mp hx
    apply decide_eq_true
    unfold dlqLast
    cases hl : (μ.dlqAny.filter (· / 100 == (rs.head?.map fun r => root r / 100).getD 0)).getLast? with
    | none => exact Nat.zero_le _
    | some y =>
      have hy := List.mem_of_getLast? hl
      have hy' := (List.mem_filter.mp hy).1
      obtain ⟨q, src, hq, h1, h2⟩ := hrs r hr
      have := (hany y hy').lt hs h1 (by omega)
      show y ≤ root r
      omega

/-- the monitor state after the `.dlqw` event of `Worker.Nack`: no violation, `dlqAny` / `dlqOk` grow
by the roots of the written / the leading confirmed records -/
theorem mu_stWrite {G : Ctx} (hs : Src G) {s : PS} {sb : Batch} {n0 : Nat} (task : Nat)
    (hI : GInv G s) (hb : BOK sb) (hob : sb.original = sb) (hal : Align G n0 sb) (hf : nAcked s = n0) :
    G.mu (stWrite s sb task) =
      { G.mu s with
        calls := bumpL (G.mu s).calls s.dlqTask
        dlqAny := (G.mu s).dlqAny ++ (sb.recs.take (accepted s sb)).map root
        dlqOk := (G.mu s).dlqOk ++
          ((sb.recs.take (accepted s sb)).take
            (oksQ G.scripts s.dlqTask (callNoL (G.mu s).calls s.dlqTask) (sb.recs.take (accepted s sb))).length).map root } := by
  have hlog : (stWrite s sb task).log = s.log.push (.dlqw s.dlqTask (dlqWritten s sb task)) := rfl
  rw [mu_push G s _ _ hlog]
  show dlqwT G.scripts (G.mu s) s.dlqTask (dlqWritten s sb task) = _
  have hrs : (dlqWritten s sb task).map (·.1) = sb.recs.take (accepted s sb) := by
    show (infoOf sb.original (accepted s sb) task).map (·.1) = _
    rw [infoOf_map_fst _ _ _ (by rw [hob]; exact hb.st_len), hob]
  obtain ⟨hd, ho⟩ := dlqw_quiet hs (μ := G.mu s) (n0 := n0) (len := sb.pos.length) (rs := sb.recs.take (accepted s sb))
    (by rw [← hf]; exact hI.dlqAny) (by rw [← hf]; exact hI.dlqOk) (hal.take_inR hb _)
  unfold dlqwT
  simp only [hrs, hd, ho, Bool.false_eq_true, if_true, if_false, List.append_nil]

/-- the monitor state after the `.sack` event of `Worker.Nack`: only `pending` is popped -/
theorem mu_stAck {G : Ctx} (hs : Src G) {s : PS} {sb : Batch} {n0 : Nat} (task : Nat) {n : Nat}
    (hI : GInv G s) (hb : BOK sb) (hob : sb.original = sb) (hal : Align G n0 sb) (hf : nAcked s = n0)
    (hnk : n ≤ accepted s sb) (hnc : n ≤ dlqConfirmed s sb) :
    G.mu (stAck s sb task n) =
      { G.mu (stWrite s sb task) with
        pending := (G.mu (stWrite s sb task)).pending.drop (sb.pos.take n).length } := by
  have hlog : (stAck s sb task n).log = (stWrite s sb task).log.push (.sack (sb.pos.take n)) := by
    have : (stAck s sb task n).log = (stWrite s sb task).log.push (.sack (sb.original.pos.take n)) := rfl
    rw [hob] at this; exact this
  have hf' : nAcked (stWrite s sb task) = n0 := by
    rw [nAcked_push_other s (stWrite s sb task) _ rfl rfl, hf]
  have hkl : accepted s sb ≤ sb.recs.length := by
    have := accepted_le s sb
    rw [hob] at this; exact this
  -- the leading `n` records of the write are confirmed for the monitor
  have hoks : n ≤ (oksQ G.scripts s.dlqTask (callNoL (G.mu s).calls s.dlqTask) (sb.recs.take (accepted s sb))).length := by
    apply oksQ_len
    · rw [List.length_take]; omega
    · intro j hj
      have hc := (C01_dlq_confirmed_is_monitor_confirmed s sb (n - 1) (by omega)).2 j (by omega)
      rw [hob] at hc
      rw [← hc]
      exact (confirmed_congr ((nextReply_eq_replyOfCall _ _).symm.trans (hI.sc.nextReply _)) _ _).symm
  apply mu_sack_just hlog hf'
  intro q p hq
  rw [List.getElem?_take] at hq
  by_cases hqn : q < n
  · simp only [hqn, if_true] at hq
    obtain ⟨src, hsrc, hk⟩ := hal.pos q p hq
    refine ⟨src, hsrc, hk.symm, Or.inl ?_⟩
    rw [mu_stWrite hs task hI hb hob hal hf]
    show root src ∈ (G.mu s).dlqOk ++ _
    apply List.mem_append_right
    have hql : q < sb.recs.length := by omega
    have hr : sb.recs[q]? = some sb.recs[q] := List.getElem?_eq_getElem hql
    refine List.mem_map.mpr ⟨sb.recs[q], ?_, hal.lin q _ src hr hsrc⟩
    apply List.mem_of_getElem? (i := q)
    rw [List.getElem?_take, List.getElem?_take]
    have h1 : q < (oksQ G.scripts s.dlqTask (callNoL (G.mu s).calls s.dlqTask) (sb.recs.take (accepted s sb))).length := by omega
    have h2 : q < accepted s sb := by omega
    simp only [h1, h2, if_true, hr]
  · simp only [hqn, if_false] at hq; cases hq

/-- a frame where only `dlqAny` / `dlqOk` grew -/
theorem Ext.of_dlq (R : Nat → Prop) {μ μ' : TSt} {a b : List Nat} (h1 : μ'.filtered = μ.filtered)
    (h2 : μ'.errored = μ.errored) (h3 : μ'.written = μ.written) (h4 : μ'.dlqAny = μ.dlqAny ++ a)
    (h5 : μ'.dlqOk = μ.dlqOk ++ b) (ha : ∀ x ∈ a, R x) (hb : ∀ x ∈ b, R x) : Ext R μ μ' := by
  refine ⟨?_, ?_, ?_, ?_, ?_, ?_, ?_, ?_, ?_, ?_⟩ <;> intro x hx
  · rw [h1]; exact hx
  · rw [h1] at hx; exact Or.inl hx
  · rw [h2]; exact hx
  · rw [h2] at hx; exact Or.inl hx
  · rw [h3]; exact hx
  · rw [h3] at hx; exact Or.inl hx
  · rw [h4]; exact List.mem_append_left _ hx
  · rw [h4] at hx; exact (List.mem_append.mp hx).imp id (ha x)
  · rw [h5]; exact List.mem_append_left _ hx
  · rw [h5] at hx; exact (List.mem_append.mp hx).imp id (hb x)

theorem workerNack_mon {G : Ctx} (hs : Src G) {s s' : PS} {r : Except Stop Unit} {sb : Batch} {n0 task : Nat}
    (hI : GInv G s) (hb : BOK sb) (hsp : sb.split = []) (hn : NackOK sb) (hal : Align G n0 sb) (hf : nAcked s = n0)
    (h : exec (workerNack sb task) s = (r, s')) :
    (G.mu s').tv = [] ∧
    (r = .ok () → GInv G s' ∧ nAcked s' = n0 + sb.pos.length ∧ Ext (InR G n0 sb.pos.length) (G.mu s) (G.mu s')) := by
  have hob : sb.original = sb := original_of_split_nil hsp
  have e1 : exec (workerNack sb task) s = workerNackP s sb task := workerNack_eq sb task s
  rw [e1] at h
  have hW := mu_stWrite hs task hI hb hob hal hf
  have hWtv : (G.mu (stWrite s sb task)).tv = [] := by rw [hW]; exact hI.safe
  rcases workerNackP_spec s sb task with ⟨r', h', hr⟩ | ⟨r', h', hk, hr⟩ | ⟨n, r', h', hn1, hnk, hnc, hnp, hv, hr⟩
  · -- nothing emitted
    rw [h'] at h; cases h
    have hmu : G.mu (stNack s sb) = G.mu s := mu_same G s _ rfl
    refine ⟨by rw [hmu]; exact hI.safe, fun hok => ?_⟩
    have h0 : sb.original.recs.length = 0 := by
      rcases hr with ⟨h0, _⟩ | ⟨_, _, hp | hp | hp⟩ | ⟨_, hp⟩
      · exact h0
      · exact absurd hok (not_ok_of_panics hp)
      · exact absurd hok (not_ok_of_fatal hp)
      · exact absurd hok (not_ok_of_refused hob hn hp)
      · exact absurd hok (not_ok_of_panics hp)
    have hst : stNack s sb = s := stN_len_zero s _ h0
    rw [hob] at h0
    have hp0 : sb.pos.length = 0 := by rw [hb.pos_len]; exact h0
    rw [hst, hp0]
    exact ⟨hI, by omega, Ext.refl _ _⟩
  · -- the DLQ write only: never `.ok`
    rw [h'] at h; cases h
    refine ⟨hWtv, fun hok => ?_⟩
    rcases hr with hp | ⟨hp, _⟩
    · exact absurd hok (not_ok_of_fatal hp)
    · exact absurd hok (not_ok_of_panics hp)
  · -- the DLQ write, then the ack of the leading `n` positions
    rw [h'] at h; cases h
    have hA := mu_stAck hs task hI hb hob hal hf hnk hnc
    refine ⟨by rw [hA]; exact hWtv, fun hok => ?_⟩
    have hnn : n = accepted s sb ∧ accepted s sb = sb.original.recs.length := by
      rcases hr with hp | hp | ⟨_, _, hp⟩ | ⟨h1, h2, _⟩
      · exact absurd hok (not_ok_of_panics hp)
      · exact absurd hok (not_ok_of_fatal hp)
      · exact absurd hok (not_ok_of_refused hob hn hp)
      · exact ⟨h1, h2⟩
    obtain ⟨hn1', hn2⟩ := hnn
    rw [hob] at hn2
    have hnl : n = sb.pos.length := by rw [hb.pos_len]; omega
    have htk : sb.pos.take n = sb.pos := by rw [hnl]; exact List.take_length
    have hrk : sb.recs.take (accepted s sb) = sb.recs := by rw [hn2]; exact List.take_length
    rw [htk] at hA
    rw [hrk] at hW
    have hlog1 : (stWrite s sb task).log = s.log.push (.dlqw s.dlqTask (dlqWritten s sb task)) := rfl
    have hlog2 : (stAck s sb task n).log = (stWrite s sb task).log.push (.sack sb.pos) := by
      have : (stAck s sb task n).log = (stWrite s sb task).log.push (.sack (sb.original.pos.take n)) := rfl
      rw [hob, htk] at this; exact this
    have hn1A : nAcked (stWrite s sb task) = n0 := by rw [nAcked_push_other s _ _ hlog1 rfl, hf]
    have hnA : nAcked (stAck s sb task n) = n0 + sb.pos.length := by rw [nAcked_push_sack _ _ _ hlog2, hn1A]
    have hsc1 : SC G (stWrite s sb task) := hI.sc.event (.dlqw s.dlqTask _) s.dlqTask rfl rfl rfl
    have hnew : ∀ x ∈ sb.recs.map root, InR G n0 sb.pos.length x := by
      intro x hx
      obtain ⟨r0, hr0, rfl⟩ := List.mem_map.mp hx
      exact hal.take_inR hb sb.recs.length r0 (by rw [List.take_length]; exact hr0)
    have hnew' : ∀ (L : Nat), ∀ x ∈ (sb.recs.take L).map root, InR G n0 sb.pos.length x := by
      intro L x hx
      obtain ⟨r0, hr0, rfl⟩ := List.mem_map.mp hx
      exact hnew _ (List.mem_map.mpr ⟨r0, List.mem_of_mem_take hr0, rfl⟩)
    have fAny : (G.mu (stAck s sb task n)).dlqAny = (G.mu s).dlqAny ++ sb.recs.map root := by rw [hA, hW]
    have fOk : (G.mu (stAck s sb task n)).dlqOk = (G.mu s).dlqOk ++
        (sb.recs.take (oksQ G.scripts s.dlqTask (callNoL (G.mu s).calls s.dlqTask) sb.recs).length).map root := by
      rw [hA, hW]
    have fWr : (G.mu (stAck s sb task n)).written = (G.mu s).written := by rw [hA, hW]
    have fFi : (G.mu (stAck s sb task n)).filtered = (G.mu s).filtered := by rw [hA, hW]
    have fEr : (G.mu (stAck s sb task n)).errored = (G.mu s).errored := by rw [hA, hW]
    refine ⟨⟨?_, ?_, ?_, ?_, ?_, ?_⟩, hnA, ?_⟩
    · rw [hA]; exact hWtv
    · exact hsc1.sack _ hlog2 rfl
    · rw [hlog2, ackedKeys_push_sack, hlog1, ackedKeys_push]
      show ackedKeys s.log ++ [] ++ keys sb.pos = _
      rw [List.append_nil, hI.acked, hnA, hf, hal.keys, take_add_map]
    · intro x hx
      rw [fAny] at hx
      rw [hnA]
      rcases List.mem_append.mp hx with h1 | h1
      · exact (hI.dlqAny x h1).mono (by rw [hf]; omega)
      · exact (hnew x h1).nonPend
    · intro x hx
      rw [fOk] at hx
      rw [hnA]
      rcases List.mem_append.mp hx with h1 | h1
      · exact (hI.dlqOk x h1).mono (by rw [hf]; omega)
      · exact (hnew' _ x h1).nonPend
    · intro e he
      rw [fWr] at he
      exact hI.wr e he
    · exact Ext.of_dlq _ fFi fEr fWr fAny fOk hnew (hnew' _)

end Conduit.Funnel
