import ConduitModel.Proofs.Arbiter
import ConduitModel.Proofs.BatchWF
import ConduitModel.Props.C05

/-!
# Pass-level reasoning about `runPass` (C04): base definitions

* `ackedKeys log` — the keys of the positions acknowledged to the source, in log order
  (concatenation of the `.sack` events);
* `NS` — "no reply of any script splits a record" (the `_nosplit` hypothesis);
* `Q σ t` — a *quiet* step: nothing acked, tallies untouched, scripts still split-free;
* `Spec I x P` — a small Hoare logic for the pass monad (state invariant `I`, value post `P`);
* `Contract a` — what the pipeline needs to know about an ack/nack handler chain `a`.

Core-only.
-/
namespace Conduit.Funnel

/-! ## acknowledged keys -/

/-- keys acknowledged to the source by one event -/
def evKeys : Ev → List Nat
  | .sack ps => ps.map keyOf
  | _ => []

/-- the keys of every position acknowledged to the source connector, in log order -/
def ackedKeys (log : Array Ev) : List Nat := log.toList.flatMap evKeys

/-- keys of a position list -/
abbrev keys (ps : List PosV) : List Nat := ps.map keyOf

theorem ackedKeys_push (log : Array Ev) (e : Ev) : ackedKeys (log.push e) = ackedKeys log ++ evKeys e := by
  simp [ackedKeys]

theorem ackedKeys_empty : ackedKeys #[] = [] := rfl

/-! ## split-free scripts -/

/-- a reply that never asks for a real split (`MultiRecord` with ≥ 2 records) -/
def NoSplitReply : Reply → Prop
  | .proc out => ∀ pr ∈ out, ∀ m, pr = PR.multi m → m.length ≤ 1
  | .dest _ _ => True

/-- no scripted reply of any task splits a record -/
def NS (scr : List (Nat × List Reply)) : Prop := ∀ kv ∈ scr, ∀ rp ∈ kv.2, NoSplitReply rp

theorem popReplyP_NS (s : PS) (task : Nat) (h : NS s.scripts) :
    NS (popReplyP s task).2.scripts ∧ ∀ r, (popReplyP s task).1 = some r → NoSplitReply r := by
  unfold popReplyP
  cases hf : s.scripts.find? (·.1 == task) with
  | none => exact ⟨h, fun r hr => by cases hr⟩
  | some kv =>
    obtain ⟨t, l⟩ := kv
    have hmem := List.mem_of_find?_eq_some hf
    cases l with
    | nil => exact ⟨h, fun r hr => by cases hr⟩
    | cons r rest =>
      constructor
      · intro kv' hkv' rp hrp
        simp only [List.mem_map] at hkv'
        obtain ⟨⟨t', l'⟩, hm, he⟩ := hkv'
        by_cases ht : (t' == task) = true
        · simp only [ht, if_true] at he
          subst he
          exact h _ hmem rp (List.mem_cons_of_mem _ hrp)
        · simp only [ht] at he
          subst he
          exact h _ hm rp hrp
      · intro r' hr'
        cases hr'
        exact h _ hmem r List.mem_cons_self


/-! ## `NS` is decidable (for the non-vacuity examples) -/

def PR.noSplit : PR → Bool
  | .multi m => decide (m.length ≤ 1)
  | _ => true

theorem noSplitReply_proc_iff (out : List PR) : NoSplitReply (.proc out) ↔ out.all PR.noSplit = true := by
  simp only [NoSplitReply, List.all_eq_true]
  constructor
  · intro h pr hm
    cases pr with
    | multi m => simpa [PR.noSplit] using h _ hm m rfl
    | _ => rfl
  · intro h pr hm m he
    subst he
    simpa [PR.noSplit] using h _ hm

instance (rp : Reply) : Decidable (NoSplitReply rp) :=
  match rp with
  | .proc out => decidable_of_iff _ (noSplitReply_proc_iff out).symm
  | .dest _ _ => isTrue trivial

instance (scr : List (Nat × List Reply)) : Decidable (NS scr) := by unfold NS; infer_instance

/-! ## quiet steps -/

/-- `t` is reached from `σ` without acknowledging anything, without touching a tally, and the
scripts stay split-free. -/
structure Q (σ t : PS) : Prop where
  acked : ackedKeys t.log = ackedKeys σ.log
  mas : t.mas = σ.mas
  ns : NS σ.scripts → NS t.scripts

theorem Q.refl (s : PS) : Q s s := ⟨rfl, rfl, id⟩
theorem Q.trans {a b c : PS} (h1 : Q a b) (h2 : Q b c) : Q a c :=
  ⟨h2.acked.trans h1.acked, h2.mas.trans h1.mas, fun h => h2.ns (h1.ns h)⟩

/-! ## a small Hoare logic -/

/-- from every state satisfying `I`, `x` ends in a state satisfying `I`, and a returned value
satisfies `P`. -/
def Spec (I : PS → Prop) {α} (x : M α) (P : α → Prop) : Prop :=
  ∀ t, I t → I (exec x t).2 ∧ ∀ a, (exec x t).1 = .ok a → P a

namespace Spec
variable {I : PS → Prop}

theorem pure {α} {P : α → Prop} (a : α) (h : P a) : Spec I (Pure.pure a : M α) P :=
  fun _ ht => ⟨ht, fun a' e => by cases e; exact h⟩

theorem throw {α} {P : α → Prop} (e : Stop) : Spec I (MonadExcept.throw e : M α) P :=
  fun _ ht => ⟨ht, fun a' e => by cases e⟩

theorem liftR {α} {P : α → Prop} (r : R α) (h : ∀ a, r = .ok a → P a) : Spec I (Conduit.Funnel.liftR r : M α) P := by
  intro t ht
  cases r with
  | ok a => exact ⟨ht, fun a' e => by cases e; exact h a rfl⟩
  | error e => exact ⟨ht, fun a' e => by cases e⟩

theorem bind {α β} {x : M α} {f : α → M β} {P : α → Prop} {P' : β → Prop}
    (hx : Spec I x P) (hf : ∀ a, P a → Spec I (f a) P') : Spec I (x >>= f) P' := by
  intro t ht
  rw [exec_bind]
  obtain ⟨h1, h2⟩ := hx t ht
  rcases hc : exec x t with ⟨r, t'⟩
  rw [hc] at h1 h2
  cases r with
  | error e => exact ⟨h1, fun a e => by cases e⟩
  | ok a => exact hf a (h2 a rfl) t' h1

theorem get_bind {β} {f : PS → M β} {P' : β → Prop} (hf : ∀ s0 : PS, I s0 → Spec I (f s0) P') :
    Spec I (get >>= f) P' := by
  intro t ht
  rw [exec_bind, exec_get]
  exact hf t ht t ht

theorem set (s' : PS) (h : I s') {P : PUnit → Prop} (hp : P ⟨⟩) : Spec I (MonadStateOf.set s' : M PUnit) P :=
  fun _ _ => ⟨h, fun _ _ => hp⟩

theorem modify (f : PS → PS) (hf : ∀ t, I t → I (f t)) {P : PUnit → Prop} (hp : P ⟨⟩) :
    Spec I (_root_.modify f : M PUnit) P := by
  intro t ht; exact ⟨hf t ht, fun _ _ => hp⟩

theorem emit (e : Ev) (hf : ∀ t, I t → I { t with log := t.log.push e }) {P : PUnit → Prop} (hp : P ⟨⟩) :
    Spec I (Conduit.Funnel.emit e) P := by
  intro t ht; exact ⟨hf t ht, fun _ _ => hp⟩

theorem tryCatch {α} {x : M α} {hd : Stop → M α} {P : α → Prop}
    (hx : Spec I x P) (hh : ∀ e, Spec I (hd e) P) : Spec I (tryCatch x hd) P := by
  intro t ht
  rw [exec_tryCatch]
  obtain ⟨h1, h2⟩ := hx t ht
  rcases hc : exec x t with ⟨r, t'⟩
  rw [hc] at h1 h2
  cases r with
  | ok a => exact ⟨h1, fun a' e => by cases e; exact h2 a rfl⟩
  | error e => exact hh e t' h1

theorem weaken {α} {x : M α} {P P' : α → Prop} (hx : Spec I x P) (h : ∀ a, P a → P' a) : Spec I x P' :=
  fun t ht => ⟨(hx t ht).1, fun a e => h a ((hx t ht).2 a e)⟩

end Spec

/-! ## batches handed to ack/nack handlers (no split runs) -/

/-- a batch without split runs: parallel slices, no run; and either no split key or no nil
position (so that `originalBatch()` keeps every row). -/
structure BOK (b : Batch) : Prop where
  split : b.split = [] ∨ ∀ p ∈ b.pos, p ≠ none
  runs : ∀ rs, b.runs = some rs → rs = List.replicate b.recs.length none
  st_len : b.st.length = b.recs.length
  pos_len : b.pos.length = b.recs.length

/-- every status carries an error (what `Nack` hands over). -/
def NackOK (b : Batch) : Prop := ∀ st ∈ b.st, st.err.isSome = true

/-! ## contracts of ack/nack handler chains -/

/-- quiet with respect to the tallies below `top`: nothing acked, no tally below `top` touched
(tallies may be added), scripts stay split-free. -/
structure Quiet (top : Nat) (σ t : PS) : Prop where
  acked : ackedKeys t.log = ackedKeys σ.log
  size : σ.mas.size ≤ t.mas.size
  mas : ∀ i : Nat, i < top → t.mas[i]! = σ.mas[i]!
  ns : NS σ.scripts → NS t.scripts

theorem Quiet.refl (top : Nat) (s : PS) : Quiet top s s := ⟨rfl, Nat.le_refl _, fun _ _ => rfl, id⟩
theorem Quiet.trans {top : Nat} {a b c : PS} (h1 : Quiet top a b) (h2 : Quiet top b c) : Quiet top a c :=
  ⟨h2.acked.trans h1.acked, Nat.le_trans h1.size h2.size, fun i hi => (h2.mas i hi).trans (h1.mas i hi),
    fun h => h2.ns (h1.ns h)⟩
theorem Q.quiet {σ t : PS} (h : Q σ t) (top : Nat) : Quiet top σ t :=
  ⟨h.acked, by rw [h.mas]; exact Nat.le_refl _, fun i _ => by rw [h.mas], h.ns⟩

/-- What the pipeline may assume about an ack/nack handler chain `a`.
`Done ks s s'`: between `s` and `s'` the handler was successfully given exactly the keys `ks`
(in order, each once) — and otherwise only quiet steps happened; `Partial ks s s'`: it was given
some part of `ks`, possibly failing; `Stutter s s'`: a failed all-or-nothing call. -/
structure Contract (a : Acker) where
  top : Nat
  Valid : PS → Prop
  Partial : List Nat → PS → PS → Prop
  Done : List Nat → PS → PS → Prop
  Stutter : PS → PS → Prop
  valid_top : ∀ {s}, Valid s → top ≤ s.mas.size
  done_partial : ∀ {ks s s'}, Done ks s s' → Partial ks s s'
  done_done : ∀ {k1 k2 s s1 s2}, Done k1 s s1 → Done k2 s1 s2 → Done (k1 ++ k2) s s2
  done_partial_trans : ∀ {k1 k2 s s1 s2}, Done k1 s s1 → Partial k2 s1 s2 → Partial (k1 ++ k2) s s2
  partial_mono : ∀ {k1 s s'} (k2 : List Nat), Partial k1 s s' → Partial (k1 ++ k2) s s'
  quiet_done : ∀ {s s'}, Valid s → Quiet top s s' → Done [] s s'
  quiet_stutter : ∀ {s s'}, Valid s → Quiet top s s' → Stutter s s'
  stutter_partial : ∀ {ks s s1 s2}, Stutter s s1 → Partial ks s1 s2 → Partial ks s s2
  stutter_trans : ∀ {s s1 s2}, Stutter s s1 → Stutter s1 s2 → Stutter s s2
  partial_valid : ∀ {ks s s'}, Valid s → Partial ks s s' → Valid s'
  stutter_valid : ∀ {s s'}, Valid s → Stutter s s' → Valid s'
  partial_ns : ∀ {ks s s'}, Partial ks s s' → NS s.scripts → NS s'.scripts
  stutter_ns : ∀ {s s'}, Stutter s s' → NS s.scripts → NS s'.scripts
  call : ∀ (fuel : Nat) (b : Batch) (isAck : Bool) (task : Nat) (s : PS) (r : Except Stop Unit) (s' : PS),
    Valid s → BOK b → (isAck = false → NackOK b) →
    exec (ackerCall fuel a b isAck task) s = (r, s') →
      Partial (keys b.pos) s s' ∧ (r = .ok () → Done (keys b.pos) s s') ∧
      ((isAck = true ∨ b.recs.length ≤ 1) → r ≠ .ok () → Stutter s s') ∧
      s'.mas.size = s.mas.size ∧ (∀ i : Nat, top ≤ i → s'.mas[i]! = s.mas[i]!) ∧ s'.heap = s.heap

/-- `originalBatch()` of a batch without runs keeps positions, statuses and the number of records. -/
theorem orig_ok {b : Batch} (hb : BOK b) :
    b.original.pos = b.pos ∧ b.original.st = b.st ∧ b.original.recs.length = b.recs.length := by
  by_cases hs : b.split.length = 0
  · rw [original_of_split_nil (List.length_eq_zero_iff.mp hs)]
    exact ⟨rfl, rfl, rfl⟩
  · have hp : ∀ p ∈ b.pos, p ≠ none := by
      rcases hb.split with h | h
      · rw [h] at hs; exact absurd rfl hs
      · exact h
    have hrows : (b.pos.zip (b.recs.zip b.st)).filter (fun x => x.1 != none) = b.pos.zip (b.recs.zip b.st) := by
      rw [List.filter_eq_self]
      intro x hx
      have := hp x.1 (List.of_mem_zip hx).1
      simpa using this
    unfold Batch.original
    simp only [hs, if_false]
    have hrows' : (b.pos.zip (b.recs.zip b.st)).filter (fun (x : PosV × Rec × Status) =>
        match x with | (p, _) => p != none) = b.pos.zip (b.recs.zip b.st) := hrows
    refine ⟨?_, ?_, ?_⟩
    · show List.map _ (List.filter _ _) = _
      rw [hrows']
      have : (b.pos.zip (b.recs.zip b.st)).map (fun (x : PosV × Rec × Status) => match x with | (p, _, _) => p)
          = (b.pos.zip (b.recs.zip b.st)).map Prod.fst := rfl
      rw [this, List.map_fst_zip]
      simp [hb.pos_len, hb.st_len]
    · show List.map _ (List.filter _ _) = _
      rw [hrows']
      have : (b.pos.zip (b.recs.zip b.st)).map (fun (x : PosV × Rec × Status) => match x with | (_, _, s) => s)
          = ((b.pos.zip (b.recs.zip b.st)).map Prod.snd).map Prod.snd := by simp [List.map_map, Function.comp_def]
      rw [this, List.map_snd_zip, List.map_snd_zip]
      · simp [hb.st_len]
      · simp [hb.pos_len, hb.st_len]
    · show (List.map _ (List.filter _ _)).length = _
      rw [hrows']
      simp [hb.pos_len, hb.st_len]

end Conduit.Funnel
