import ConduitModel.Proofs.PassMulti

/-!
# Fan-out: `doNextTask` with several next tasks, `branches`

Every branch runs the task recursion on a clone of the batch and votes through
`.run (.multi id acker)`; by `multiContract` the parent `acker` is handed the batch's positions in
order whatever the branches do, and all of them once every branch returned without error.
-/
namespace Conduit.Funnel

/-! ## a new tally -/

theorem maNew_chk_nodup : ∀ (ps : List PosV) (seen : List Nat), maNew.chk seen ps = none →
    (keys ps).Nodup ∧ ∀ k ∈ keys ps, k ∉ seen := by
  intro ps
  induction ps with
  | nil => intro seen _; exact ⟨List.nodup_nil, fun k hk => by cases hk⟩
  | cons p ps ih =>
    intro seen h
    unfold maNew.chk at h
    split at h
    · cases h
    · split at h
      · cases h
      · rename_i hc
        obtain ⟨h1, h2⟩ := ih _ h
        have hc' : keyOf p ∉ seen := by simpa using hc
        constructor
        · show (keyOf p :: keys ps).Nodup
          rw [List.nodup_cons]
          exact ⟨fun hm => h2 _ hm List.mem_cons_self, h1⟩
        · intro k hk
          have hk' : k = keyOf p ∨ k ∈ keys ps := by simpa [keys] using hk
          rcases hk' with rfl | hk'
          · exact hc'
          · exact fun hm => h2 k hk' (List.mem_cons_of_mem _ hm)

theorem maNew_MOK (M : Nat) (ps : List PosV) (m : MA) (hM : 0 < M) (h : maNew M ps = .ok m) :
    MOK m ∧ MStable m ∧ ∀ i : Nat, m.votes i = 0 := by
  obtain ⟨hf, hb, hp⟩ := maNew_fresh M ps m h
  have hnd : (keys ps).Nodup := by
    unfold maNew at h
    split at h
    · cases h
    · rename_i hc; exact (maNew_chk_nodup ps [] hc).1
  unfold maNew at h
  split at h
  · cases h
  · injection h with h
    subst h
    refine ⟨⟨hf.inv.toWF, by simp, by simp, Nat.zero_le _, ?_, ?_, hnd⟩, ?_, ?_⟩
    · intro i hi _
      simp only [MA.votes]
      rw [List.getElem?_replicate]
      split <;> simpa using hM
    · intro i hi ht
      simp only [MA.term] at ht
      rw [List.getElem?_replicate] at ht
      split at ht <;> simp at ht
    · intro hlt
      simp only [MA.term]
      rw [List.getElem?_replicate]
      split <;> rfl
    · intro i
      simp only [MA.votes]
      rw [List.getElem?_replicate]
      split <;> rfl

/-! ## cloning a batch without runs -/

theorem clone_split (h : Heap) (b : Batch) : (b.clone h).2.split = b.split := by
  unfold Batch.clone
  split <;> rfl

theorem clone_BInv (h : Heap) (b : Batch) (hb : BInv b) : BInv (b.clone h).2 ∧ (b.clone h).2.pos = b.pos := by
  have hwf : b.WF h := WF_of_runs_none hb.wf hb.runs
  obtain ⟨g1, _, _, g4, g5, g6⟩ := C08_aligned_clone hwf
  have hnone : ∀ p : Nat, b.runAt p = none := by
    intro p
    unfold Batch.runAt
    cases hr : b.runs with
    | none => rfl
    | some rs =>
      dsimp only
      cases hp : rs[p]? with
      | none => rfl
      | some r => rw [hb.runs rs hr r (List.mem_of_getElem? hp)]; rfl
  have hruns : ∀ rs, (b.clone h).2.runs = some rs → ∀ r ∈ rs, r = none := by
    intro rs hrs r hr
    obtain ⟨p, hp, rfl⟩ := List.getElem_of_mem hr
    have := g6 p
    rw [hnone p] at this
    unfold Batch.runAt at this
    rw [hrs] at this
    dsimp only at this
    rw [List.getElem?_eq_getElem hp] at this
    cases hrp : rs[p] with
    | none => rfl
    | some x => rw [hrp] at this; cases this
  refine ⟨⟨WF_of_runs_none g1 hruns, by rw [clone_split]; exact hb.split, hruns, by rw [g4]; exact hb.ne⟩, g5⟩

/-! ## counting votes -/

theorem count_flatten_replicate (n : Nat) (ks : List Nat) (k : Nat) :
    ((List.replicate n ks).flatten).count k = n * ks.count k := by
  induction n with
  | zero => simp
  | succ n ih =>
    rw [List.replicate_succ, List.flatten_cons, List.count_append, ih]
    rw [Nat.succ_mul]; omega

theorem count_one_of_nodup (a : Nat) : ∀ l : List Nat, l.Nodup → a ∈ l → l.count a = 1 := by
  intro l
  induction l with
  | nil => intro _ h; cases h
  | cons x t ih =>
    intro hnd hm
    rw [List.nodup_cons] at hnd
    by_cases hx : a = x
    · subst hx
      rw [List.count_cons_self, List.count_eq_zero.mpr hnd.1]
    · have hm' : a ∈ t := by
        rcases List.mem_cons.mp hm with h | h
        · exact absurd h hx
        · exact h
      rw [List.count_cons_of_ne (Ne.symm hx)]
      exact ih hnd.2 hm'

/-- number of entries of a branch order that name an existing branch -/
def cntValid (n : Nat) (order : List Nat) : Nat := (order.filter (· < n)).length

theorem exec_set (s1 s : PS) : exec (set s1 : M PUnit) s = (.ok ⟨⟩, s1) := rfl

/-! ## the branches -/

section
variable {a : Acker} (C : Contract a) (id : Nat) (Good : TaskNode → Prop)

/-- the branches of one fan-out, run one after the other in any order: the tally stays safe;
if the whole fan-out returns without error, no branch failed and every executed branch gave the
tally one vote per position. -/
theorem branches_spec (hle : C.top ≤ id) (F : Nat) (hP : ∀ f, f ≤ F → PipeSpec Good f) (nexts : List TaskNode)
    (hg : ∀ n ∈ nexts, Good n) (b : Batch) (hb : BInv b) :
    ∀ (fuel : Nat), fuel ≤ F + 1 → ∀ (order : List Nat) (errs : Option Err) (pan : Option String) (s s' : PS)
      (r : Except Stop Unit), MValid C id s → NS s.scripts →
      exec (branches fuel nexts order b (.multi id a) errs pan) s = (r, s') →
      MSafe C id s s' ∧ (r = .ok () → errs = none ∧ pan = none ∧
        MDone C id ((List.replicate (cntValid nexts.length order) (keys b.pos)).flatten) s s') := by
  intro fuel
  induction fuel with
  | zero =>
    intro _ order errs pan s s' r _ _ h
    rw [branches] at h; cases h
    exact ⟨MSafe.refl _, fun h => nomatch h⟩
  | succ fuel ih =>
    intro hF order errs pan s s' r hv hn h
    have ih' := ih (by omega)
    cases order with
    | nil =>
      cases pan with
      | some m => rw [branches] at h; cases h; exact ⟨MSafe.refl _, fun h => nomatch h⟩
      | none =>
        cases errs with
        | some e => rw [branches] at h; cases h; exact ⟨MSafe.refl _, fun h => nomatch h⟩
        | none =>
          rw [branches] at h
          cases h
          exact ⟨MSafe.refl _, fun _ => ⟨rfl, rfl, MDone.of_quiet hv hle (Quiet.refl _ _)⟩⟩
    | cons k rest =>
      rw [branches] at h
      cases hk : nexts[k]? with
      | none =>
        rw [hk] at h
        dsimp only at h
        have hnk : ¬ k < nexts.length := by
          intro hlt; rw [List.getElem?_eq_getElem hlt] at hk; cases hk
        have hc : cntValid nexts.length (k :: rest) = cntValid nexts.length rest := by
          simp [cntValid, hnk]
        rw [hc]
        exact ih' rest errs pan s s' r hv hn h
      | some n =>
        rw [hk] at h
        dsimp only at h
        have hkl : k < nexts.length := (List.getElem?_eq_some_iff.mp hk).1
        have hgn : Good n := hg n (List.mem_of_getElem? hk)
        have hc : cntValid nexts.length (k :: rest) = cntValid nexts.length rest + 1 := by
          simp [cntValid, hkl]
        rw [exec_bind, exec_get] at h
        dsimp only at h
        rcases hcl : Batch.clone s.heap b with ⟨hp, bb⟩
        rw [hcl] at h
        dsimp only at h
        obtain ⟨hbb, hbpos⟩ := clone_BInv s.heap b hb
        rw [hcl] at hbb hbpos
        dsimp only at hbb hbpos
        rw [exec_bind, exec_set] at h
        dsimp only at h
        generalize hs1 : ({ s with heap := hp } : PS) = s1 at h
        have hq1 : Q s s1 := by rw [← hs1]; exact ⟨rfl, rfl, fun h => h⟩
        have hd1 : MDone C id [] s s1 := MDone.of_quiet hv hle (hq1.quiet _)
        have hv1 : MValid C id s1 := hd1.safe.ok hv
        have hn1 : NS s1.scripts := hq1.ns hn
        rw [exec_bind, exec_tryCatch, exec_bind] at h
        rcases hd : exec (doTaskAttempt fuel n bb (.run (.multi id a)) none false) s1 with ⟨rb, s2⟩
        rw [hd] at h
        have hres := hP fuel (by omega) (.run (.multi id a)) (multiContract C id hle) n bb none false s1 s2 rb
          hgn hv1 hn1 hbb hd
        have hs12 : MSafe C id s1 s2 := hres.1
        have hv2 : MValid C id s2 := hs12.ok hv1
        have hn2 : NS s2.scripts := hs12.ns hn1
        cases rb with
        | ok u =>
          dsimp only at h
          rw [exec_pure] at h
          dsimp only at h
          obtain ⟨q1, q2⟩ := ih' rest errs pan s2 s' r hv2 hn2 h
          refine ⟨(hd1.safe.trans hs12).trans q1, fun hr => ?_⟩
          obtain ⟨e1, e2, e3⟩ := q2 hr
          refine ⟨e1, e2, ?_⟩
          rw [hc, List.replicate_succ, List.flatten_cons]
          have hdb : MDone C id (keys b.pos) s1 s2 := by rw [← hbpos]; exact hres.2 rfl
          have := (hd1.trans hdb).trans e3
          simpa using this
        | error e =>
          dsimp only at h
          rw [exec_pure] at h
          dsimp only at h
          cases e with
          | panic m =>
            dsimp only at h
            obtain ⟨q1, q2⟩ := ih' rest errs (pan <|> some m) s2 s' r hv2 hn2 h
            refine ⟨(hd1.safe.trans hs12).trans q1, fun hr => ?_⟩
            obtain ⟨_, e2, _⟩ := q2 hr
            cases pan <;> cases e2
          | err e =>
            dsimp only at h
            obtain ⟨q1, q2⟩ := ih' rest _ pan s2 s' r hv2 hn2 h
            refine ⟨(hd1.safe.trans hs12).trans q1, fun hr => ?_⟩
            obtain ⟨e1, _, _⟩ := q2 hr
            cases errs <;> cases e1

end


theorem runsWhole_of_BInv (h : Heap) (b : Batch) (hb : BInv b) : runsWhole h b = true := by
  unfold runsWhole
  cases hr : b.runs with
  | none => rfl
  | some rs =>
    dsimp only
    have : rs.filterMap id = [] := by
      rw [List.filterMap_eq_nil_iff]
      intro r hm
      rw [hb.runs rs hr r hm]; rfl
    rw [this]; rfl

theorem order_valid (n : Nat) (o : List Nat) :
    cntValid n (if (o.length == n) = true ∧ ((List.range n).all fun x => o.contains x) = true then o
      else List.range n) = n := by
  split
  · rename_i hc
    obtain ⟨hl, hall⟩ := hc
    have hl' : o.length = n := by simpa using hl
    have hall' : ∀ x, x < n → x ∈ o := by
      intro x hx
      have := List.all_eq_true.mp hall x (List.mem_range.mpr hx)
      simpa using this
    unfold cntValid
    have h1 : (o.filter (· < n)).length ≤ n := by rw [← hl']; exact List.length_filter_le _ _
    have h2 : List.range n ⊆ o.filter (· < n) := by
      intro x hx
      rw [List.mem_range] at hx
      rw [List.mem_filter]
      exact ⟨hall' x hx, by simpa using hx⟩
    have h3 := List.nodup_range.length_le_of_subset h2
    simp at h3
    omega
  · unfold cntValid
    have : (List.range n).filter (· < n) = List.range n := by
      rw [List.filter_eq_self]; intro x hx; simpa using hx
    rw [this]; simp

theorem mas_push_get_lt (ms : Array MA) (x : MA) {i : Nat} (hi : i < ms.size) : (ms.push x)[i]! = ms[i]! := by
  simp [getElem!_pos, hi, Nat.lt_succ_of_lt hi, Array.getElem_push_lt]

theorem mas_push_get_size (ms : Array MA) (x : MA) : (ms.push x)[ms.size]! = x := by
  simp

theorem fan_core (Good : TaskNode → Prop) (hchild : ∀ node, Good node → ∀ n ∈ node.next, Good n) (fuel : Nat)
    (hP : ∀ f, f ≤ fuel → PipeSpec Good f) {a : Acker} (C : Contract a) (node : TaskNode) (b : Batch) (s s' : PS)
    (r : Except Stop Unit) (hg : Good node) (h2 : 2 ≤ node.next.length) (hv : C.Valid s) (hn : NS s.scripts)
    (hb : BInv b) (order : List Nat) (rest : List (List Nat))
    (hcv : cntValid node.next.length order = node.next.length) (ma : MA)
    (hma : maNew node.next.length b.pos = .ok ma)
    (h : exec (branches fuel node.next order b (.multi s.mas.size a) none none)
      { s with mas := s.mas.push ma, orders := rest } = (r, s')) : Res C (keys b.pos) s s' r := by
  generalize hs1 : ({ s with mas := s.mas.push ma, orders := rest } : PS) = s1 at h
  have hle : C.top ≤ s.mas.size := C.valid_top hv
  obtain ⟨hmok, hmst, hmv⟩ := maNew_MOK node.next.length b.pos ma (by omega) hma
  obtain ⟨_, hmbr, hmpos⟩ := maNew_fresh _ _ _ hma
  have hm1 : s1.mas[s.mas.size]! = ma := by rw [← hs1]; exact mas_push_get_size _ _
  have hq : Quiet C.top s s1 := by
    refine ⟨by rw [← hs1], by rw [← hs1]; simp, fun i hi => ?_, by rw [← hs1]; exact fun h => h⟩
    rw [← hs1]; exact mas_push_get_lt _ _ (by omega)
  have hd01 : C.Done [] s s1 := C.quiet_done hv hq
  have hv1c : C.Valid s1 := C.partial_valid hv (C.done_partial hd01)
  have hv1 : MValid C s.mas.size s1 := ⟨hv1c, by rw [← hs1]; simp, by rw [hm1]; exact hmok⟩
  have hn1 : NS s1.scripts := hq.ns hn
  obtain ⟨q1, q2⟩ := branches_spec C s.mas.size Good hle fuel hP node.next (hchild node hg) b hb fuel
    (by omega) order none none s1 s' r hv1 hn1 h
  have hpos' : (s'.mas[s.mas.size]!).positions = b.pos := by rw [q1.pos, hm1, hmpos]
  constructor
  · have hrun := q1.run
    rw [hm1, hmpos] at hrun
    have hr0 : ma.released = 0 := by
      have := (maNew_fresh _ _ _ hma).1.1; exact this
    rw [hr0, List.drop_zero] at hrun
    have hp := (hrun.partial hv1c).1
    have hp2 := C.partial_mono (keys (b.pos.drop (s'.mas[s.mas.size]!).released)) hp
    rw [keys, keys, ← List.map_append, List.take_append_drop] at hp2
    have := C.done_partial_trans hd01 hp2
    simpa using this
  · intro hr
    obtain ⟨_, _, hdone⟩ := q2 hr
    rw [hcv] at hdone
    have hv' := q1.ok hv1
    have hmok' := hv'.2.2
    have hr0 : ma.released = 0 := (maNew_fresh _ _ _ hma).1.1
    -- every slot is terminal
    have hterm : ∀ i : Nat, i < b.pos.length → (s'.mas[s.mas.size]!).term i = true := by
      intro i hi
      have hva := hdone.va i (by rw [hm1, hmpos]; exact hi)
      rcases hva.2 with ht | hvt
      · exact ht
      · rw [hm1, hmv i, count_flatten_replicate] at hvt
        have hk : (keys b.pos).count (kAt ma i) = 1 := by
          have hnd : (keys b.pos).Nodup := by rw [← hmpos]; exact hmok.nodup
          have hmem : kAt ma i ∈ keys b.pos := by
            rw [kAt_eq ma i (by rw [hmpos]; exact hi)]
            have e : keys b.pos = keys ma.positions := by rw [hmpos]
            rw [e]; exact List.getElem_mem _
          exact count_one_of_nodup _ _ hnd hmem
        rw [hk] at hvt
        cases htt : (s'.mas[s.mas.size]!).term i with
        | true => rfl
        | false =>
          have := hmok'.votes_lt i (by rw [hpos']; exact hi) htt
          rw [q1.br, hm1, hmbr] at this
          omega
    have hrel : (s'.mas[s.mas.size]!).released = b.pos.length := by
      have hst := hdone.stable (by rw [hm1]; exact hmst)
      have hle' := hmok'.rel_le
      rw [hpos'] at hle'
      apply Classical.byContradiction
      intro hne
      have hlt : (s'.mas[s.mas.size]!).released < b.pos.length := by omega
      have := hst (by rw [hpos']; exact hlt)
      rw [hterm _ hlt] at this
      cases this
    have hd := hdone.done
    rw [hm1, hmpos, hr0, hrel, List.drop_zero, List.take_length] at hd
    have := C.done_done hd01 hd
    simpa using this

theorem fan_spec (Good : TaskNode → Prop) (hchild : ∀ node, Good node → ∀ n ∈ node.next, Good n) (fuel : Nat)
    (hP : ∀ f, f ≤ fuel → PipeSpec Good f) : FanSpec Good (fuel+1) := by
  intro a C node b s s' r hg h2 hv hn hb h
  rw [doNextTask] at h
  split at h
  · rename_i he; rw [he] at h2; simp at h2
  · rename_i n he; rw [he] at h2; simp at h2
  · rw [exec_bind, exec_get] at h
    dsimp only at h
    have hrw := runsWhole_of_BInv s.heap b hb
    simp only [hrw, Bool.not_true, Bool.false_eq_true, if_false] at h
    rw [original_of_split_nil hb.split] at h
    cases hma : maNew node.next.length b.pos with
    | error e =>
      rw [hma] at h
      dsimp only at h
      rw [exec_throw] at h
      cases h
      exact Res.fail_quiet hv (Q.refl _) _
    | ok ma =>
      rw [hma] at h
      dsimp only at h
      rw [exec_bind, exec_set] at h
      dsimp only at h
      cases hso : s.orders with
      | nil =>
        simp only [hso] at h
        exact fan_core Good hchild fuel hP C node b s s' r hg h2 hv hn hb _ _ (order_valid _ _) ma hma h
      | cons o rest =>
        simp only [hso] at h
        exact fan_core Good hchild fuel hP C node b s s' r hg h2 hv hn hb _ _ (order_valid _ _) ma hma h

/-- The task recursion meets the handler contract on EVERY task tree (fan-out included), for every fuel. -/
theorem pipe_nosplit (fuel : Nat) : PipeSpec (fun _ => True) fuel :=
  (pipe_all (fun _ => True) (fun _ _ _ _ => trivial)
    (fun fuel hP => fan_spec (fun _ => True) (fun _ _ _ _ => trivial) fuel hP) fuel fuel (Nat.le_refl _)).1

end Conduit.Funnel
