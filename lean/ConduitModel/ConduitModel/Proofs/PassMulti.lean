import ConduitModel.Proofs.PassPipe

/-!
# The fan-out arbiter `multiAckNacker` against the contract of its parent

Given the contract `C` of a handler chain `a` and a tally `id` that `a` does not use, the chain
`.run (.multi id a)` (what every fan-out branch votes through) has a contract again:
whatever is voted, the tally hands the parent exactly the next positions `released, released+1, …`
in order (`MSafe`); and when a branch's call returns without error the vote is counted once per
position and the release loop ran to its fixpoint (`MDone`).
-/
namespace Conduit.Funnel

/-! ## a parent's history: successful calls and failed all-or-nothing calls -/

section
variable {a : Acker} (C : Contract a)

/-- the parent was successfully given the keys `ks`, in order, possibly interleaved with failed
all-or-nothing calls and quiet steps. -/
inductive Run : List Nat → PS → PS → Prop
  | nil (s : PS) : Run [] s s
  | done {k1 k2 : List Nat} {s s1 s2 : PS} : C.Done k1 s s1 → Run k2 s1 s2 → Run (k1 ++ k2) s s2
  | stutter {k : List Nat} {s s1 s2 : PS} : C.Stutter s s1 → Run k s1 s2 → Run k s s2

variable {C}

theorem Run.trans {k1 k2 : List Nat} {s s1 s2 : PS} (h1 : Run C k1 s s1) (h2 : Run C k2 s1 s2) :
    Run C (k1 ++ k2) s s2 := by
  induction h1 with
  | nil s => simpa using h2
  | done hd _ ih => rw [List.append_assoc]; exact Run.done hd (ih h2)
  | stutter hs _ ih => exact Run.stutter hs (ih h2)

theorem Run.of_done {k : List Nat} {s s' : PS} (h : C.Done k s s') : Run C k s s' := by
  have := Run.done h (Run.nil s'); simpa using this

theorem Run.of_stutter {s s' : PS} (h : C.Stutter s s') : Run C [] s s' := Run.stutter h (Run.nil s')

theorem Run.partial {k : List Nat} {s s' : PS} (h : Run C k s s') (hv : C.Valid s) :
    C.Partial k s s' ∧ C.Valid s' := by
  induction h with
  | nil s => exact ⟨C.done_partial (C.done_refl hv), hv⟩
  | done hd _ ih =>
    have hv1 := C.partial_valid hv (C.done_partial hd)
    exact ⟨C.done_partial_trans hd (ih hv1).1, (ih hv1).2⟩
  | stutter hs _ ih =>
    have hv1 := C.stutter_valid hv hs
    exact ⟨C.stutter_partial hs (ih hv1).1, (ih hv1).2⟩

theorem Run.ns {k : List Nat} {s s' : PS} (h : Run C k s s') (hn : NS s.scripts) : NS s'.scripts := by
  induction h with
  | nil s => exact hn
  | done hd _ ih => exact ih (C.partial_ns (C.done_partial hd) hn)
  | stutter hs _ ih => exact ih (C.stutter_ns hs hn)

end

/-! ## the tally invariant and vote accounting -/

/-- what the engine keeps true of a `multiAckNacker`. -/
structure MOK (m : MA) : Prop where
  wf : m.WF
  rec_len : m.record.length = m.positions.length
  nerr_len : m.nackErr.length = m.positions.length
  rel_le : m.released ≤ m.positions.length
  votes_lt : ∀ i : Nat, i < m.positions.length → m.term i = false → m.votes i < m.branches
  nack_err : ∀ i : Nat, i < m.positions.length → m.term i = true → m.ack i = false →
    ((m.nackErr[i]?).join).isSome = true
  nodup : (keys m.positions).Nodup

/-- key of slot `i` -/
def kAt (m : MA) (i : Nat) : Nat := keyOf ((m.positions[i]?).join)

/-- vote accounting between two states of a tally: terminal slots stay terminal; a slot that is
not terminal afterwards got exactly one ack vote per occurrence of its key in `ks`. -/
def VA (m m' : MA) (ks : List Nat) : Prop :=
  ∀ i : Nat, i < m.positions.length →
    (m.term i = true → m'.term i = true) ∧ (m'.term i = true ∨ m'.votes i = m.votes i + ks.count (kAt m i))

/-- the release loop is at its fixpoint -/
def MStable (m : MA) : Prop := m.released < m.positions.length → m.term m.released = false

theorem VA.refl (m : MA) : VA m m [] := fun _ _ => ⟨id, Or.inr (by simp)⟩

theorem VA.trans {m m1 m2 : MA} {k1 k2 : List Nat} (hp : m1.positions = m.positions) (h1 : VA m m1 k1)
    (h2 : VA m1 m2 k2) : VA m m2 (k1 ++ k2) := by
  intro i hi
  obtain ⟨a1, a2⟩ := h1 i hi
  obtain ⟨b1, b2⟩ := h2 i (by rw [hp]; exact hi)
  refine ⟨fun h => b1 (a1 h), ?_⟩
  rcases b2 with h | h
  · exact Or.inl h
  · rcases a2 with g | g
    · exact Or.inl (b1 g)
    · right
      have : kAt m1 i = kAt m i := by unfold kAt; rw [hp]
      rw [h, g, this, List.count_append]; omega

theorem slice_append {α} (l : List α) {r r1 r2 : Nat} (h1 : r ≤ r1) (h2 : r1 ≤ r2) :
    (l.take r1).drop r ++ (l.take r2).drop r1 = (l.take r2).drop r := by
  apply List.ext_getElem?
  intro n
  simp only [List.getElem?_append, List.getElem?_drop, List.getElem?_take, List.length_drop, List.length_take]
  by_cases hn : n < min r1 l.length - r
  · simp only [hn, if_true]
    have : r + n < r1 := by omega
    have : r + n < r2 := by omega
    simp [*]
  · simp only [hn, if_false]
    by_cases hl : r1 ≤ l.length
    · have e : r1 + (n - (min r1 l.length - r)) = r + n := by omega
      rw [e]
    · have : l.length ≤ r + n := by omega
      have e1 : l[r + n]? = none := List.getElem?_eq_none (by omega)
      have e2 : l[r1 + (n - (min r1 l.length - r))]? = none := List.getElem?_eq_none (by omega)
      simp [e1, e2]

theorem slice_self {α} (l : List α) (r : Nat) : (l.take r).drop r = [] := by
  apply List.eq_nil_of_length_eq_zero; simp

theorem Quiet.mono {top top' : Nat} {s s' : PS} (h : Quiet top s s') (hle : top' ≤ top) : Quiet top' s s' :=
  ⟨h.acked, h.size, fun i hi => h.mas i (by omega), h.ns⟩

/-! ## the relations of the contract of `.run (.multi id a)` -/

section
variable {a : Acker} (C : Contract a) (id : Nat)

/-- the tally is allocated, well-formed, and the parent is in a valid state -/
def MValid (s : PS) : Prop := C.Valid s ∧ id < s.mas.size ∧ MOK (s.mas[id]!)

/-- whatever happened between `s` and `s'`, the tally handed the parent exactly its next
positions, in order. -/
structure MSafe (s s' : PS) : Prop where
  size : s.mas.size ≤ s'.mas.size
  pos : (s'.mas[id]!).positions = (s.mas[id]!).positions
  br : (s'.mas[id]!).branches = (s.mas[id]!).branches
  rel : (s.mas[id]!).released ≤ (s'.mas[id]!).released
  run : Run C (keys (((s.mas[id]!).positions.take (s'.mas[id]!).released).drop (s.mas[id]!).released)) s s'
  ok : MValid C id s → MValid C id s'

/-- between `s` and `s'` the tally was successfully given one vote for every key of `ks`, every
parent call succeeded and the release loop ended at its fixpoint. -/
structure MDone (ks : List Nat) (s s' : PS) : Prop where
  safe : MSafe C id s s'
  va : VA (s.mas[id]!) (s'.mas[id]!) ks
  stable : MStable (s.mas[id]!) → MStable (s'.mas[id]!)
  done : C.Done (keys (((s.mas[id]!).positions.take (s'.mas[id]!).released).drop (s.mas[id]!).released)) s s'

variable {C id}

theorem MSafe.refl (s : PS) : MSafe C id s s :=
  ⟨Nat.le_refl _, rfl, rfl, Nat.le_refl _, by rw [slice_self]; exact Run.nil s, fun h => h⟩

theorem MSafe.trans {s s1 s2 : PS} (h1 : MSafe C id s s1) (h2 : MSafe C id s1 s2) : MSafe C id s s2 := by
  refine ⟨Nat.le_trans h1.size h2.size, h2.pos.trans h1.pos, h2.br.trans h1.br, Nat.le_trans h1.rel h2.rel, ?_,
    fun h => h2.ok (h1.ok h)⟩
  have := Run.trans h1.run h2.run
  rw [h1.pos, keys, keys, ← List.map_append, slice_append _ h1.rel h2.rel] at this
  exact this

theorem MSafe.ns {s s' : PS} (h : MSafe C id s s') (hn : NS s.scripts) : NS s'.scripts := h.run.ns hn

theorem MDone.trans {k1 k2 : List Nat} {s s1 s2 : PS} (h1 : MDone C id k1 s s1) (h2 : MDone C id k2 s1 s2) :
    MDone C id (k1 ++ k2) s s2 := by
  refine ⟨h1.safe.trans h2.safe, VA.trans h1.safe.pos h1.va h2.va, fun h => h2.stable (h1.stable h), ?_⟩
  have := C.done_done h1.done h2.done
  rw [h1.safe.pos, keys, keys, ← List.map_append, slice_append _ h1.safe.rel h2.safe.rel] at this
  exact this

/-- a step that is quiet for the tallies up to `id` -/
theorem MDone.of_quiet {s s' : PS} (hv : MValid C id s) (hle : C.top ≤ id) (hq : Quiet (id+1) s s') :
    MDone C id [] s s' := by
  have hm : s'.mas[id]! = s.mas[id]! := hq.mas id (Nat.lt_succ_self _)
  have hqc : Quiet C.top s s' := hq.mono (by omega)
  have hd : C.Done [] s s' := C.quiet_done hv.1 hqc
  refine ⟨⟨hq.size, by rw [hm], by rw [hm], by rw [hm]; exact Nat.le_refl _, ?_, ?_⟩, ?_, ?_, ?_⟩
  · rw [hm, slice_self]; exact Run.of_done hd
  · intro _
    exact ⟨C.partial_valid hv.1 (C.done_partial hd), Nat.lt_of_lt_of_le hv.2.1 hq.size, by rw [hm]; exact hv.2.2⟩
  · rw [hm]; exact VA.refl _
  · rw [hm]; exact fun h => h
  · rw [hm, slice_self]; exact hd

end

/-! ## the vote loop -/


theorem maVote1_MOK (m : MA) (a : Bool) (t : Nat) (it : VItem) (hm : MOK m) (hx : it.ix < m.positions.length)
    (herr : a = false → it.err.isSome = true) : MOK (maVote1 m a t it) := by
  have h1 := hm.wf.votes_len; have h2 := hm.wf.term_len; have h3 := hm.wf.ack_len
  have h4 := hm.rec_len; have h5 := hm.nerr_len; have h6 := hm.rel_le
  have h7 := hm.votes_lt; have h8 := hm.nack_err; have h9 := hm.nodup
  refine ⟨maVote1_wf m a t it hm.wf, ?_, ?_, ?_, ?_, ?_, ?_⟩
  · grind [maVote1]
  · grind [maVote1]
  · grind [maVote1]
  · grind [maVote1]
  · grind [maVote1]
  · grind [maVote1]


theorem kAt_eq (m : MA) (i : Nat) (hi : i < m.positions.length) :
    kAt m i = (keys m.positions)[i]'(by simpa using hi) := by
  unfold kAt
  simp [List.getElem?_eq_getElem hi]

theorem kAt_inj (m : MA) (hm : MOK m) (i j : Nat) (hi : i < m.positions.length) (hj : j < m.positions.length)
    (h : kAt m i = kAt m j) : i = j := by
  rw [kAt_eq m i hi, kAt_eq m j hj] at h
  exact (List.getElem_inj hm.nodup).mp h

theorem maVote1_VA (m : MA) (a : Bool) (t : Nat) (it : VItem) (hm : MOK m) (hx : it.ix < m.positions.length) :
    VA m (maVote1 m a t it) [kAt m it.ix] := by
  have h1 := hm.wf.votes_len; have h2 := hm.wf.term_len; have h3 := hm.wf.ack_len
  intro i hi
  by_cases he : i = it.ix
  · subst he
    simp only [List.count_cons_self, List.count_nil]
    grind [maVote1]
  · have hk : kAt m it.ix ≠ kAt m i := fun h => he (kAt_inj m hm _ _ hx hi h).symm
    have hc : [kAt m it.ix].count (kAt m i) = 0 := by simp [hk]
    rw [hc]
    grind [maVote1]

theorem maIndexOf_some {m : MA} {p : PosV} {ix : Nat} (h : maIndexOf m p = some ix) :
    ix < m.positions.length ∧ kAt m ix = keyOf p := by
  unfold maIndexOf at h
  have h1 := List.mem_of_find?_eq_some h
  have h2 := List.find?_some h
  rw [List.mem_range] at h1
  refine ⟨h1, ?_⟩
  unfold kAt
  simp [List.getElem?_eq_getElem h1] at h2 ⊢
  exact h2

theorem voteBody_none (id : Nat) (ob : Batch) (isAck : Bool) (task i : Nat) (m : MA) (s : PS) (h : itemAt m ob i = none) :
    exec (voteBody id ob isAck task i m) s = (.error (.err plainErr), { s with mas := s.mas.set! id m }) := by
  unfold itemAt at h
  have : maIndexOf m (ob.pos[i]?).join = none := by
    cases hh : maIndexOf m (ob.pos[i]?).join with
    | none => rfl
    | some ix => rw [hh] at h; cases h
  unfold voteBody
  rw [this]
  rfl

/-- a tally reached from `m` by votes: same positions, branches, release cursor; invariant kept -/
def VGood (m m' : MA) : Prop :=
  MOK m' ∧ m'.positions = m.positions ∧ m'.branches = m.branches ∧ m'.released = m.released

/-- the vote loop of `multiAckNacker.Ack/Nack`: if it completes, the state is untouched and the tally
was given one vote per listed position; if it fails on a position that is not part of the fan-out
batch, the votes recorded so far are written back to tally `id` (nothing else changes). -/
theorem voteLoop_spec (id : Nat) (ob : Batch) (isAck : Bool) (task : Nat) (hr : ob.pos.length ≤ ob.recs.length)
    (hst : ob.pos.length ≤ ob.st.length) (hne : isAck = false → NackOK ob) (s : PS) :
    ∀ (l : List Nat) (m : MA), MOK m → (∀ i ∈ l, i < ob.pos.length) →
    ∀ (r : Except Stop MA) (s1 : PS), exec (forIn l m (voteBody id ob isAck task)) s = (r, s1) →
      (s1 = s ∨ ((∃ e, r = .error e) ∧ ∃ m', s1 = { s with mas := s.mas.set! id m' } ∧ VGood m m')) ∧
      ∀ m', r = .ok m' → s1 = s ∧ MOK m' ∧ m'.positions = m.positions ∧ m'.branches = m.branches ∧
        m'.released = m.released ∧ VA m m' (l.map fun i => keyOf (ob.pos[i]?).join) := by
  intro l
  induction l with
  | nil =>
    intro m hm _ r s1 h
    cases h
    exact ⟨Or.inl rfl, fun m' h => by cases h; exact ⟨rfl, hm, rfl, rfl, rfl, VA.refl _⟩⟩
  | cons i l ih =>
    intro m hm hl r s1 h
    have hi := hl i List.mem_cons_self
    rw [List.forIn_cons, exec_bind] at h
    cases hit : itemAt m ob i with
    | none =>
      rw [voteBody_none id ob isAck task i m s hit] at h
      cases h
      exact ⟨Or.inr ⟨⟨_, rfl⟩, m, rfl, hm, rfl, rfl, rfl⟩, fun m' h => by cases h⟩
    | some it =>
      rw [voteBody_step id ob isAck task i m it s (by omega) (by omega) hit] at h
      dsimp only at h
      have hit' := hit
      unfold itemAt at hit'
      cases hix : maIndexOf m (ob.pos[i]?).join with
      | none => rw [hix] at hit'; cases hit'
      | some ix =>
        rw [hix] at hit'
        simp only [Option.map_some, Option.some.injEq] at hit'
        obtain ⟨hlt, hk⟩ := maIndexOf_some hix
        have e1 : it.ix = ix := by rw [← hit']
        have e2 : it.err = (ob.st[i]?).bind (·.err) := by rw [← hit']
        have herr : isAck = false → it.err.isSome = true := by
          intro ha
          rw [e2, List.getElem?_eq_getElem (by omega : i < ob.st.length)]
          exact hne ha _ (List.getElem_mem _)
        have hm1 := maVote1_MOK m isAck task it hm (by rw [e1]; exact hlt) herr
        obtain ⟨f1, f2, f3⟩ := maVote1_frame m isAck task it
        have hva := maVote1_VA m isAck task it hm (by rw [e1]; exact hlt)
        rw [e1, hk] at hva
        obtain ⟨g1, g2⟩ := ih (maVote1 m isAck task it) hm1 (fun j hj => hl j (List.mem_cons_of_mem _ hj)) r s1 h
        refine ⟨?_, fun m' hm' => ?_⟩
        · rcases g1 with g1 | ⟨ge, m', g1, k1, k2, k3, k4⟩
          · exact Or.inl g1
          · exact Or.inr ⟨ge, m', g1, k1, k2.trans f2, k3.trans f3, k4.trans f1⟩
        obtain ⟨k0, k1, k2, k3, k4, k5⟩ := g2 m' hm'
        refine ⟨k0, k1, k2.trans f2, k3.trans f3, k4.trans f1, ?_⟩
        have := VA.trans f2 hva k5
        simpa using this


/-! ## `releaseLocked`, `Ack`/`Nack`, and the contract -/


theorem MOK.withReleased {m : MA} (hm : MOK m) (k : Nat) (hk : k ≤ m.positions.length) :
    MOK { m with released := k } :=
  ⟨⟨hm.wf.votes_len, hm.wf.term_len, hm.wf.ack_len⟩, hm.rec_len, hm.nerr_len, hk, hm.votes_lt, hm.nack_err, hm.nodup⟩

theorem slice_one {α} (l : List α) (i : Nat) (hi : i < l.length) : (l.take (i+1)).drop i = [l[i]] := by
  apply List.ext_getElem?
  intro n
  simp only [List.getElem?_drop, List.getElem?_take]
  cases n with
  | zero => simp [hi]
  | succ n => simp

theorem set!_get (ms : Array MA) (id : Nat) (x : MA) (h : id < ms.size) : (ms.set! id x)[id]! = x := by
  simp [Array.set!, h]

section
variable {a : Acker} (C : Contract a) (id : Nat)

/-- outcome of `releaseLocked` -/
structure RelOut (s s' : PS) (r : Except Stop Unit) : Prop where
  safe : MSafe C id s s'
  same : s'.mas[id]! = { (s.mas[id]!) with released := (s'.mas[id]!).released }
  size : s'.mas.size = s.mas.size
  frame : ∀ i : Nat, id + 1 ≤ i → s'.mas[i]! = s.mas[i]!
  heap : s'.heap = s.heap
  ok : r = .ok () → MStable (s'.mas[id]!) ∧
    C.Done (keys (((s.mas[id]!).positions.take (s'.mas[id]!).released).drop (s.mas[id]!).released)) s s'

variable {C id}

theorem RelOut.refl_err (s : PS) (e : Stop) : RelOut C id s s (.error e) :=
  ⟨MSafe.refl s, rfl, rfl, fun _ _ => rfl, rfl, fun h => nomatch h⟩

theorem RelOut.refl_ok (s : PS) (hv : MValid C id s) (hs : MStable (s.mas[id]!)) : RelOut C id s s (.ok ()) :=
  ⟨MSafe.refl s, rfl, rfl, fun _ _ => rfl, rfl, fun _ => ⟨hs, by rw [slice_self]; exact C.done_refl hv.1⟩⟩

/-- one successful or failed parent call for the chunk `[from, to)` followed by the rest of the loop -/
theorem release_chunk (hle : C.top ≤ id) (fuel : Nat) (s s' : PS) (r : Except Stop Unit) (hv : MValid C id s)
    (b : Batch) (isAck : Bool) (task to : Nat) (hb : BOK b) (hn : isAck = false → NackOK b)
    (hat : isAck = true ∨ b.recs.length ≤ 1)
    (hto1 : (s.mas[id]!).released ≤ to) (hto2 : to ≤ (s.mas[id]!).positions.length)
    (hkeys : keys b.pos = keys (((s.mas[id]!).positions.take to).drop (s.mas[id]!).released))
    (ih : ∀ (s : PS) (r : Except Stop Unit) (s' : PS), MValid C id s → exec (releaseLoop fuel id a) s = (r, s') →
      RelOut C id s s' r)
    (h : exec (do
        ackerCall fuel a b isAck task
        modify fun s => { s with mas := s.mas.set! id { (s.mas[id]!) with released := to } }
        releaseLoop fuel id a) s = (r, s')) : RelOut C id s s' r := by
  rw [exec_bind] at h
  rcases hc : exec (ackerCall fuel a b isAck task) s with ⟨r1, s1⟩
  rw [hc] at h
  obtain ⟨p1, p2, p3, p4, p5, p6⟩ := C.call fuel b isAck task s r1 s1 hv.1 hb hn hc
  have hm1 : s1.mas[id]! = s.mas[id]! := p5 id hle
  have hv1 : C.Valid s1 := C.partial_valid hv.1 p1
  cases r1 with
  | error e =>
    dsimp only at h
    cases h
    refine ⟨⟨by rw [p4]; exact Nat.le_refl _, by rw [hm1], by rw [hm1], by rw [hm1]; exact Nat.le_refl _, ?_, ?_⟩,
      by rw [hm1], p4, fun i hi => p5 i (by omega), p6, fun h => nomatch h⟩
    · rw [hm1, slice_self]
      exact Run.of_stutter (p3 hat (fun h => nomatch h))
    · intro _; exact ⟨hv1, by rw [p4]; exact hv.2.1, by rw [hm1]; exact hv.2.2⟩
  | ok u =>
    dsimp only at h
    rw [exec_bind, exec_modify] at h
    dsimp only at h
    generalize hs2 : ({ s1 with mas := s1.mas.set! id { (s1.mas[id]!) with released := to } } : PS) = s2 at h
    have hid1 : id < s1.mas.size := by rw [p4]; exact hv.2.1
    have hm2 : s2.mas[id]! = { (s.mas[id]!) with released := to } := by
      rw [← hs2]; show (s1.mas.set! id _)[id]! = _; rw [set!_get _ _ _ hid1, hm1]
    have hsz2 : s2.mas.size = s1.mas.size := by rw [← hs2]; simp [Array.set!]
    have hoth : ∀ i : Nat, i ≠ id → s2.mas[i]! = s1.mas[i]! := by
      intro i hi; rw [← hs2]; exact (set!_other s1.mas id i _ (Ne.symm hi)).2
    have hq : Quiet C.top s1 s2 := by
      refine ⟨by rw [← hs2], by rw [hsz2]; exact Nat.le_refl _, fun i hi => hoth i (by omega), by rw [← hs2]; exact fun h => h⟩
    have hd12 : C.Done [] s1 s2 := C.quiet_done hv1 hq
    have hv2 : MValid C id s2 :=
      ⟨C.partial_valid hv1 (C.done_partial hd12), by rw [hsz2]; exact hid1,
        by rw [hm2]; exact hv.2.2.withReleased to hto2⟩
    have hdone : C.Done (keys b.pos) s s2 := by
      have := C.done_done (p2 rfl) hd12; simpa using this
    have hsafe : MSafe C id s s2 := by
      refine ⟨by rw [hsz2, p4]; exact Nat.le_refl _, by rw [hm2], by rw [hm2], by rw [hm2]; exact hto1, ?_, fun _ => hv2⟩
      rw [hm2]; dsimp only; rw [← hkeys]; exact Run.of_done hdone
    obtain ⟨q1, q2, q3, q4, q6, q5⟩ := ih s2 r s' hv2 h
    have hh2 : s2.heap = s1.heap := by rw [← hs2]
    refine ⟨hsafe.trans q1, ?_, by rw [q3, hsz2, p4], fun i hi => ?_, by rw [q6, hh2, p6], fun hr => ?_⟩
    · rw [q2, hm2]
    · rw [q4 i hi, hoth i (by omega), p5 i (by omega)]
    · obtain ⟨g1, g2⟩ := q5 hr
      refine ⟨g1, ?_⟩
      rw [hm2] at g2
      dsimp only at g2
      have := C.done_done hdone g2
      rw [hkeys, keys, keys, ← List.map_append, slice_append _ hto1 (by have := q1.rel; rw [hm2] at this; exact this)] at this
      exact this

theorem maAckBatch_BOK (m : MA) (hm : MOK m) (f t : Nat) (hft : f ≤ t) (ht : t ≤ m.positions.length) :
    BOK (maAckBatch m f t) := by
  refine ⟨Or.inl rfl, (fun rs h => nomatch h), ?_, ?_⟩
  · simp [maAckBatch]; have := hm.rec_len; omega
  · simp [maAckBatch]; have := hm.rec_len; omega

/-- `releaseLocked`: whatever happens the parent gets the next positions in order; on success the
loop is at its fixpoint. -/
theorem release_spec (hle : C.top ≤ id) : ∀ (fuel : Nat) (s : PS) (r : Except Stop Unit) (s' : PS),
    MValid C id s → exec (releaseLoop fuel id a) s = (r, s') → RelOut C id s s' r := by
  intro fuel
  induction fuel with
  | zero => intro s r s' _ h; rw [releaseLoop] at h; cases h; exact RelOut.refl_err s _
  | succ fuel ih =>
    intro s r s' hv h
    rw [releaseLoop, exec_bind, exec_get] at h
    dsimp only at h
    have hmok := hv.2.2
    generalize hm : s.mas[id]! = m at *
    by_cases h1 : m.released < m.positions.length
    · by_cases ht : m.term m.released = true
      · by_cases ha : m.ack m.released = true
        · obtain ⟨_, hkpos, hkle, _⟩ := maAckRun_spec m m.released h1 ht ha
          simp only [MA.term, MA.ack] at ht ha
          simp only [h1, ht, ha, if_true, Bool.not_true, Bool.false_eq_true, if_false] at h
          have hk : (List.takeWhile (fun t => m.terminal[t]?.getD false && m.acked[t]?.getD false)
              (List.drop m.released (List.range m.positions.length))).length = (maAckRun m m.released).length := rfl
          rw [hk] at h
          generalize (maAckRun m m.released).length = k at *
          refine release_chunk hle fuel s s' r hv _ true 0 (m.released + k)
            (maAckBatch_BOK m hmok _ _ (by omega) hkle) (fun h => nomatch h) (Or.inl rfl)
            (by rw [hm]; omega) (by rw [hm]; exact hkle) (by rw [hm]; rfl) ih h
        · have ha' : m.ack m.released = false := by simpa using ha
          have hne := hmok.nack_err m.released h1 ht ha'
          simp only [MA.term, MA.ack] at ht ha'
          simp only [h1, ht, ha', if_true, Bool.not_true, Bool.false_eq_true, if_false] at h
          refine release_chunk hle fuel s s' r hv _ false _ (m.released + 1) ?_ ?_ (Or.inr (by simp [maNackBatch]))
            (by rw [hm]; omega) (by rw [hm]; omega) ?_ ih h
          · exact ⟨Or.inl rfl, (fun rs h => nomatch h), rfl, rfl⟩
          · intro _ st hst
            simp only [maNackBatch, List.mem_singleton] at hst
            subst hst
            exact hne
          · rw [hm, slice_one _ _ h1]
            simp [maNackBatch, keys, List.getElem?_eq_getElem h1]
      · have ht' : m.term m.released = false := by simpa using ht
        have hst : MStable (s.mas[id]!) := by rw [hm]; exact fun _ => ht'
        simp only [MA.term] at ht'
        simp only [h1, ht', if_true, Bool.not_false] at h
        have h' : exec (pure () : M Unit) s = (r, s') := h
        rw [exec_pure] at h'
        cases h'
        exact RelOut.refl_ok s hv hst
    · have hst : MStable (s.mas[id]!) := by rw [hm]; exact fun h => absurd h h1
      simp only [h1, if_false] at h
      have h' : exec (pure () : M Unit) s = (r, s') := h
      rw [exec_pure] at h'
      cases h'
      exact RelOut.refl_ok s hv hst

theorem range_map_keys (ps : List PosV) : (List.range ps.length).map (fun i => keyOf (ps[i]?).join) = keys ps := by
  apply List.ext_getElem?
  intro n
  simp only [List.getElem?_map, keys]
  by_cases hn : n < ps.length
  · simp [hn]
  · simp [hn]

/-- writing back a tally reached by votes: a quiet step for the parent, safe for the tally -/
theorem tally_set (hle : C.top ≤ id) (s : PS) (m' : MA) (hv : MValid C id s) (hg : VGood (s.mas[id]!) m') :
    MSafe C id s { s with mas := s.mas.set! id m' } ∧ MValid C id { s with mas := s.mas.set! id m' } ∧
    C.Done [] s { s with mas := s.mas.set! id m' } := by
  obtain ⟨k1, k2, k3, k4⟩ := hg
  generalize hs2 : ({ s with mas := s.mas.set! id m' } : PS) = s2
  have hm2 : s2.mas[id]! = m' := by rw [← hs2]; exact set!_get _ _ _ hv.2.1
  have hsz2 : s2.mas.size = s.mas.size := by rw [← hs2]; simp [Array.set!]
  have hoth : ∀ i : Nat, i ≠ id → s2.mas[i]! = s.mas[i]! := by
    intro i hi; rw [← hs2]; exact (set!_other s.mas id i _ (Ne.symm hi)).2
  have hq : Quiet C.top s s2 :=
    ⟨by rw [← hs2], by rw [hsz2]; exact Nat.le_refl _, fun i hi => hoth i (by omega), by rw [← hs2]; exact fun h => h⟩
  have hd12 : C.Done [] s s2 := C.quiet_done hv.1 hq
  have hv2 : MValid C id s2 :=
    ⟨C.partial_valid hv.1 (C.done_partial hd12), by rw [hsz2]; exact hv.2.1, by rw [hm2]; exact k1⟩
  refine ⟨⟨by rw [hsz2]; exact Nat.le_refl _, by rw [hm2, k2], by rw [hm2, k3], by rw [hm2, k4]; exact Nat.le_refl _, ?_, fun _ => hv2⟩,
    hv2, hd12⟩
  rw [hm2, k4, slice_self]; exact Run.of_done hd12

/-- `multiAckNacker.Ack/Nack` -/
theorem multi_call (hle : C.top ≤ id) (fuel : Nat) (b : Batch) (isAck : Bool) (task : Nat) (s : PS)
    (r : Except Stop Unit) (s' : PS) (hv : MValid C id s) (hb : BOK b) (hn : isAck = false → NackOK b)
    (h : exec (ackerCall fuel (.multi id a) b isAck task) s = (r, s')) :
    MSafe C id s s' ∧ (r = .ok () → MDone C id (keys b.pos) s s') ∧ s'.mas.size = s.mas.size ∧
      (∀ i : Nat, id + 1 ≤ i → s'.mas[i]! = s.mas[i]!) ∧ s'.heap = s.heap := by
  cases fuel with
  | zero =>
    rw [ackerCall] at h; cases h
    exact ⟨MSafe.refl s, (fun h => nomatch h), rfl, fun _ _ => rfl, rfl⟩
  | succ fuel =>
    rw [ackerCall_multi, exec_bind, exec_get] at h
    dsimp only at h
    obtain ⟨o1, o2, o3⟩ := orig_ok hb
    generalize b.original = ob at h o1 o2 o3
    rw [exec_bind] at h
    rcases hf : exec (forIn (List.range ob.pos.length) (s.mas[id]!) (voteBody id ob isAck task)) s with ⟨r1, s1⟩
    rw [hf] at h
    obtain ⟨e1, e2⟩ := voteLoop_spec id ob isAck task (by rw [o1, o3, hb.pos_len]; exact Nat.le_refl _)
      (by rw [o1, o2, hb.pos_len, hb.st_len]; exact Nat.le_refl _)
      (fun hi => by unfold NackOK; rw [o2]; exact hn hi) s _ _ hv.2.2
      (fun i hi => List.mem_range.mp hi) r1 s1 hf
    cases r1 with
    | error e =>
      dsimp only at h; cases h
      rcases e1 with e1 | ⟨_, m', e1, hg⟩
      · subst e1
        exact ⟨MSafe.refl _, (fun h => nomatch h), rfl, fun _ _ => rfl, rfl⟩
      · subst e1
        obtain ⟨t1, _, _⟩ := tally_set hle s m' hv hg
        refine ⟨t1, (fun h => nomatch h), by simp [Array.set!], fun i hi => ?_, rfl⟩
        exact (set!_other s.mas id i _ (by omega)).2
    | ok m' =>
      dsimp only at h
      obtain ⟨k0, k1, k2, k3, k4, k5⟩ := e2 m' rfl
      subst k0
      rw [range_map_keys, o1] at k5
      rw [exec_bind, exec_modify] at h
      dsimp only at h
      generalize hs2 : ({ s1 with mas := s1.mas.set! id m' } : PS) = s2 at h
      have hm2 : s2.mas[id]! = m' := by rw [← hs2]; exact set!_get _ _ _ hv.2.1
      have hsz2 : s2.mas.size = s1.mas.size := by rw [← hs2]; simp [Array.set!]
      have hoth : ∀ i : Nat, i ≠ id → s2.mas[i]! = s1.mas[i]! := by
        intro i hi; rw [← hs2]; exact (set!_other s1.mas id i _ (Ne.symm hi)).2
      have hq : Quiet C.top s1 s2 :=
        ⟨by rw [← hs2], by rw [hsz2]; exact Nat.le_refl _, fun i hi => hoth i (by omega), by rw [← hs2]; exact fun h => h⟩
      have hd12 : C.Done [] s1 s2 := C.quiet_done hv.1 hq
      have hv2 : MValid C id s2 :=
        ⟨C.partial_valid hv.1 (C.done_partial hd12), by rw [hsz2]; exact hv.2.1, by rw [hm2]; exact k1⟩
      have hsafe : MSafe C id s1 s2 := by
        refine ⟨by rw [hsz2]; exact Nat.le_refl _, by rw [hm2, k2], by rw [hm2, k3], by rw [hm2, k4]; exact Nat.le_refl _, ?_, fun _ => hv2⟩
        rw [hm2, k4, slice_self]; exact Run.of_done hd12
      obtain ⟨q1, q2, q3, q4, q6, q5⟩ := release_spec hle fuel s2 r s' hv2 h
      have hh2 : s2.heap = s1.heap := by rw [← hs2]
      refine ⟨hsafe.trans q1, fun hr => ?_, by rw [q3, hsz2], fun i hi => by rw [q4 i hi, hoth i (by omega)],
        by rw [q6, hh2]⟩
      obtain ⟨g1, g2⟩ := q5 hr
      refine ⟨hsafe.trans q1, ?_, fun _ => g1, ?_⟩
      · rw [q2, hm2]
        exact k5
      · rw [hm2, k2, k4] at g2
        have := C.done_done hd12 g2
        simpa using this

/-- `runAckNacker.Ack/Nack` on a batch without runs: at most one call of the parent, on the whole batch -/
theorem run_wrap (p : Acker) (fuel : Nat) (b : Batch) (isAck : Bool) (task : Nat) (s s' : PS) (r : Except Stop Unit)
    (hb : BOK b) (h : exec (ackerCall fuel (.run p) b isAck task) s = (r, s')) :
    (∃ e, r = .error e ∧ s' = s) ∨ (b.pos = [] ∧ r = .ok () ∧ s' = s) ∨
    (∃ (f : Nat) (sb : Batch), BOK sb ∧ sb.pos = b.pos ∧ sb.st = b.st ∧ sb.recs = b.recs ∧
      exec (ackerCall f p sb isAck task) s = (r, s')) := by
  cases fuel with
  | zero => rw [ackerCall] at h; cases h; exact Or.inl ⟨_, rfl, rfl⟩
  | succ fuel =>
    rw [ackerCall_run] at h
    cases fuel with
    | zero => rw [voteLoop] at h; cases h; exact Or.inl ⟨_, rfl, rfl⟩
    | succ f =>
      by_cases hlen : 0 < b.recs.length
      · have hruns : ∀ k : Nat, 0 ≤ k → k < b.recs.length → runAt b k = .ok none := by
          intro k _ hk
          unfold runAt
          cases hr : b.runs with
          | none => rfl
          | some rs =>
            rw [hb.runs rs hr]
            dsimp only
            rw [idx_ok _ (by simpa using hk)]
            simp
        rw [voteLoop_norun_sim f p b isAck task 0 s hlen hruns, exec_bind] at h
        rcases hs : b.sub 0 b.recs.length with e | sb
        · rw [hs, exec_liftR_err] at h
          cases h
          exact Or.inl ⟨_, rfl, rfl⟩
        · rw [hs, exec_liftR_ok] at h
          dsimp only at h
          obtain ⟨_, _, _, _, f1, f2, f3, f4, f5, f6⟩ := sub_ok_fields hs
          have e1 : sb.recs = b.recs := by rw [f1]; simp
          have e2 : sb.st = b.st := by rw [f2, List.drop_zero, ← hb.st_len, List.take_length]
          have e3 : sb.pos = b.pos := by rw [f3, List.drop_zero, ← hb.pos_len, List.take_length]
          have hsb : BOK sb := by
            refine ⟨?_, ?_, by rw [e1, e2]; exact hb.st_len, by rw [e1, e3]; exact hb.pos_len⟩
            · rcases hb.split with h | h
              · exact Or.inl (f5 h)
              · exact Or.inr (by rw [e3]; exact h)
            intro rs hrs
            rw [f4] at hrs
            cases hr : b.runs with
            | none => rw [hr] at hrs; cases hrs
            | some rs0 =>
              rw [hr] at hrs
              simp only [Option.map_some, Option.some.injEq] at hrs
              rw [← hrs, hb.runs rs0 hr, e1]
              simp
          rw [exec_bind] at h
          cases f with
          | zero =>
            rw [ackerCall] at h
            cases h
            exact Or.inl ⟨_, rfl, rfl⟩
          | succ g =>
            rcases hc : exec (ackerCall (g+1) p sb isAck task) s with ⟨r1, s1⟩
            rw [hc] at h
            right; right
            refine ⟨g+1, sb, hsb, e3, e2, e1, ?_⟩
            cases r1 with
            | error e => dsimp only at h; cases h; exact hc
            | ok u =>
              dsimp only at h
              rw [voteLoop_end g p b isAck task b.recs.length (by omega)] at h
              cases h; exact hc
      · rw [voteLoop_end f p b isAck task 0 hlen] at h
        cases h
        have hp : b.pos = [] := List.length_eq_zero_iff.mp (by have := hb.pos_len; omega)
        exact Or.inr (Or.inl ⟨hp, rfl, rfl⟩)

end

/-- The contract of the chain every fan-out branch votes through. -/
def multiContract {a : Acker} (C : Contract a) (id : Nat) (hle : C.top ≤ id) : Contract (.run (.multi id a)) where
  top := id + 1
  Valid := MValid C id
  Partial := fun _ => MSafe C id
  Done := MDone C id
  Stutter := MSafe C id
  valid_top := fun hv => hv.2.1
  done_partial := fun h => h.safe
  done_done := MDone.trans
  done_partial_trans := fun h1 h2 => h1.safe.trans h2
  partial_mono := fun _ h => h
  quiet_done := fun hv hq => MDone.of_quiet hv hle hq
  quiet_stutter := fun hv hq => (MDone.of_quiet hv hle hq).safe
  stutter_partial := MSafe.trans
  stutter_trans := MSafe.trans
  partial_valid := fun hv h => h.ok hv
  stutter_valid := fun hv h => h.ok hv
  partial_ns := fun h => h.ns
  stutter_ns := fun h => h.ns
  call := fun fuel b isAck task s r s' hv hb hn h => by
    rcases run_wrap (.multi id a) fuel b isAck task s s' r hb h with ⟨e, rfl, rfl⟩ | ⟨hp, rfl, rfl⟩ | ⟨f, sb, hsb, e3, e2, e1, hc⟩
    · exact ⟨MSafe.refl _, (fun h => nomatch h), fun _ _ => MSafe.refl _, rfl, fun _ _ => rfl, rfl⟩
    · refine ⟨MSafe.refl _, fun _ => ?_, fun _ _ => MSafe.refl _, rfl, fun _ _ => rfl, rfl⟩
      rw [hp]
      exact MDone.of_quiet hv hle (Quiet.refl _ _)
    · obtain ⟨p1, p2, p3, p4, p5⟩ := multi_call hle f sb isAck task s r s' hv hsb
        (fun hi => by unfold NackOK; rw [e2]; exact hn hi) hc
      exact ⟨p1, fun hr => by rw [← e3]; exact p2 hr, fun _ _ => p1, p3, p4, p5⟩


end Conduit.Funnel
