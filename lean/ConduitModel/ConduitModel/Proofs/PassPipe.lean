import ConduitModel.Proofs.PassTask
import ConduitModel.Props.BatchProps

/-!
# The task recursion `doTaskAttempt` / `taintedLoop` / `doNextTask` against a handler contract

For every ack/nack handler chain `a` with a `Contract`, running a task on a batch `b` gives the
handler a part of `b`'s positions, in order (`Partial`), and all of them, in order, each once,
when the task returns without error (`Done`). The fan-out case is a parameter (`FanSpec`).
-/
namespace Conduit.Funnel

/-! ## results against a contract -/

/-- outcome `r` of a computation from `s` to `s'` that is responsible for the keys `ks` -/
def Res {a : Acker} (C : Contract a) (ks : List Nat) (s s' : PS) (r : Except Stop Unit) : Prop :=
  C.Partial ks s s' ∧ (r = .ok () → C.Done ks s s')

namespace Contract
variable {a : Acker} (C : Contract a)

theorem done_refl {s : PS} (hv : C.Valid s) : C.Done [] s s := C.quiet_done hv (Quiet.refl _ _)

theorem quiet_partial {s s' : PS} (hv : C.Valid s) (hq : Q s s') (ks : List Nat) : C.Partial ks s s' := by
  have := C.partial_mono ks (C.done_partial (C.quiet_done hv (hq.quiet C.top)))
  simpa using this

theorem quiet_valid {s s' : PS} (hv : C.Valid s) (hq : Q s s') : C.Valid s' :=
  C.partial_valid hv (C.quiet_partial hv hq [])

end Contract

namespace Res
variable {a : Acker} {C : Contract a}

theorem fail_quiet {s s' : PS} {e : Stop} (hv : C.Valid s) (hq : Q s s') (ks : List Nat) : Res C ks s s' (.error e) :=
  ⟨C.quiet_partial hv hq ks, fun h => nomatch h⟩

theorem ok_quiet {s s' : PS} (hv : C.Valid s) (hq : Q s s') : Res C [] s s' (.ok ()) :=
  ⟨C.quiet_partial hv hq [], fun _ => C.quiet_done hv (hq.quiet _)⟩

theorem pre_quiet {s s1 s2 : PS} {ks : List Nat} {r : Except Stop Unit} (hv : C.Valid s) (hq : Q s s1)
    (h : Res C ks s1 s2 r) : Res C ks s s2 r := by
  have hd := C.quiet_done hv (hq.quiet C.top)
  constructor
  · have := C.done_partial_trans hd h.1; simpa using this
  · intro hr; have := C.done_done hd (h.2 hr); simpa using this

theorem seq {s s1 s2 : PS} {k1 k2 : List Nat} {r : Except Stop Unit} (h1 : Res C k1 s s1 (.ok ()))
    (h2 : Res C k2 s1 s2 r) : Res C (k1 ++ k2) s s2 r :=
  ⟨C.done_partial_trans (h1.2 rfl) h2.1, fun hr => C.done_done (h1.2 rfl) (h2.2 hr)⟩

theorem fail_mono {s s1 : PS} {k1 : List Nat} {e e' : Stop} (h1 : Res C k1 s s1 (.error e)) (k2 : List Nat) :
    Res C (k1 ++ k2) s s1 (.error e') :=
  ⟨C.partial_mono k2 h1.1, fun h => nomatch h⟩

theorem valid {s s' : PS} {ks : List Nat} {r : Except Stop Unit} (hv : C.Valid s) (h : Res C ks s s' r) : C.Valid s' :=
  C.partial_valid hv h.1

theorem ns {s s' : PS} {ks : List Nat} {r : Except Stop Unit} (hn : NS s.scripts) (h : Res C ks s s' r) :
    NS s'.scripts := C.partial_ns h.1 hn

end Res

/-- sequencing: `X` is responsible for `k1`, the continuation `K` for `k2`. -/
theorem res_bind {a : Acker} {C : Contract a} {X : M Unit} {K : Unit → M Unit} {k1 k2 : List Nat} {s s' : PS}
    {r : Except Stop Unit} (hv : C.Valid s) (hn : NS s.scripts)
    (hX : ∀ r1 s1, exec X s = (r1, s1) → Res C k1 s s1 r1)
    (hK : ∀ s1 r2 s2, C.Valid s1 → NS s1.scripts → exec (K ()) s1 = (r2, s2) → Res C k2 s1 s2 r2)
    (h : exec (X >>= K) s = (r, s')) : Res C (k1 ++ k2) s s' r := by
  rw [exec_bind] at h
  rcases hx : exec X s with ⟨r1, s1⟩
  rw [hx] at h
  have h1 := hX r1 s1 hx
  cases r1 with
  | error e => dsimp only at h; cases h; exact h1.fail_mono k2
  | ok u => dsimp only at h; exact h1.seq (hK s1 r s' (h1.valid hv) (h1.ns hn) h)

/-! ## the specifications -/

/-- `doTaskAttempt` with `fuel` on nodes satisfying `Good` -/
def PipeSpec (Good : TaskNode → Prop) (fuel : Nat) : Prop :=
  ∀ (a : Acker) (C : Contract a) (node : TaskNode) (b : Batch) (retry : Option RetryAttempt) (skipDo : Bool)
    (s s' : PS) (r : Except Stop Unit), Good node → C.Valid s → NS s.scripts → BInv b →
    exec (doTaskAttempt fuel node b a retry skipDo) s = (r, s') → Res C (keys b.pos) s s' r

/-- `doNextTask` with `fuel` (the node has a next task) -/
def NextSpec (Good : TaskNode → Prop) (fuel : Nat) : Prop :=
  ∀ (a : Acker) (C : Contract a) (node : TaskNode) (b : Batch) (s s' : PS) (r : Except Stop Unit),
    Good node → node.next ≠ [] → C.Valid s → NS s.scripts → BInv b →
    exec (doNextTask fuel node b a) s = (r, s') → Res C (keys b.pos) s s' r

/-- `doNextTask` with `fuel` on a node with at least two next tasks (fan-out) -/
def FanSpec (Good : TaskNode → Prop) (fuel : Nat) : Prop :=
  ∀ (a : Acker) (C : Contract a) (node : TaskNode) (b : Batch) (s s' : PS) (r : Except Stop Unit),
    Good node → 2 ≤ node.next.length → C.Valid s → NS s.scripts → BInv b →
    exec (doNextTask fuel node b a) s = (r, s') → Res C (keys b.pos) s s' r

/-- the tainted loop from index `i` -/
def TaintSpec (Good : TaskNode → Prop) (fuel : Nat) : Prop :=
  ∀ (a : Acker) (C : Contract a) (node : TaskNode) (b : Batch) (retry : Option RetryAttempt) (i : Nat)
    (s s' : PS) (r : Except Stop Unit), Good node → C.Valid s → NS s.scripts → BInv b →
    exec (taintedLoop fuel node b a retry i) s = (r, s') → Res C (keys (b.pos.drop i)) s s' r


/-! ## sub-batches of the tainted loop -/

theorem sub_BInv {b sb : Batch} {i j : Nat} (hb : BInv b) (h : b.sub i j = .ok sb) :
    BInv sb ∧ sb.pos = (b.pos.take j).drop i ∧ sb.st = (b.st.take j).drop i := by
  obtain ⟨h1, h2, _, _, _, f2, f3, f4, f5, _⟩ := sub_ok_fields h
  obtain ⟨sb', g1, g2, _⟩ := sub_ok hb.wf h1 h2
  rw [g1] at h
  cases h
  refine ⟨⟨g2, f5 hb.split, ?_, ?_⟩, f3, f2⟩
  · intro rs hrs r hr
    rw [f4] at hrs
    cases hbr : b.runs with
    | none => rw [hbr] at hrs; cases hrs
    | some rs0 =>
      rw [hbr] at hrs
      simp only [Option.map_some, Option.some.injEq] at hrs
      subst hrs
      exact hb.runs rs0 hbr r ((List.take_sublist j rs0).subset ((List.drop_sublist i _).subset hr))
  · intro x hx
    rw [f2] at hx
    exact hb.ne x ((List.take_sublist j b.st).subset ((List.drop_sublist i _).subset hx))

theorem take_takeWhile_length {α} (p : α → Bool) (l : List α) : l.take (l.takeWhile p).length = l.takeWhile p := by
  induction l with
  | nil => rfl
  | cons x t ih =>
    rw [List.takeWhile_cons]
    split
    · simp [ih]
    · simp

/-- a group that starts with a nack consists of nacks -/
theorem group_all_nack (st : List Status) (i : Nat) (s0 : Status) (h0 : st[i]? = some s0) (hf : s0.flag = .nack) :
    ∀ x ∈ (st.take (groupEnd st i)).drop i, x.flag = .nack := by
  rw [groupEnd_eq, h0]
  dsimp only
  intro x hx
  rw [List.drop_take, Nat.add_sub_cancel_left, take_takeWhile_length] at hx
  have := mem_takeWhile_imp _ _ x hx
  rw [hf] at this
  simpa [sameGroup] using this

theorem keys_drop_split (pos : List PosV) (i j : Nat) (hij : i ≤ j) :
    keys (pos.drop i) = keys ((pos.take j).drop i) ++ keys (pos.drop j) := by
  have : pos.drop i = (pos.take j).drop i ++ pos.drop j := by
    conv => lhs; rw [← List.take_append_drop j pos]
    by_cases hj : j ≤ pos.length
    · rw [List.drop_append_of_le_length (by simp; omega)]
    · have h1 : pos.take j = pos := List.take_of_length_le (by omega)
      have h2 : pos.drop j = [] := List.drop_of_length_le (by omega)
      rw [h1, h2]; simp
  show (pos.drop i).map keyOf = ((pos.take j).drop i).map keyOf ++ (pos.drop j).map keyOf
  rw [← List.map_append, ← this]

/-! ## one more unit of fuel -/

theorem dta_step (Good : TaskNode → Prop) (fuel : Nat) (hN : NextSpec Good fuel) (hT : TaintSpec Good fuel) :
    PipeSpec Good (fuel+1) := by
  intro a C node b retry skipDo s s' r hg hv hn hb h
  rw [doTaskAttempt] at h
  have hF : ∀ (b1 : Batch) (s1 s2 : PS) (r : Except Stop Unit), BInv b1 → C.Valid s1 → NS s1.scripts →
      exec (if (!b1.tainted) = true then
              if (node.next.isEmpty || !b1.hasActive) = true then ackerCall fuel a b1 true 0
              else doNextTask fuel node b1 a
            else taintedLoop fuel node b1 a retry 0) s1 = (r, s2) → Res C (keys b1.pos) s1 s2 r := by
    intro b1 s1 s2 r hb1 hv1 hn1 h
    by_cases ht : (!b1.tainted) = true
    · simp only [ht, if_true] at h
      by_cases hc : (node.next.isEmpty || !b1.hasActive) = true
      · simp only [hc, if_true] at h
        obtain ⟨p1, p2, _⟩ := C.call fuel b1 true 0 s1 r s2 hv1 hb1.bok (fun h => nomatch h) h
        exact ⟨p1, p2⟩
      · simp only [hc] at h
        have hne : node.next ≠ [] := by
          intro he; apply hc; rw [he]; rfl
        exact hN a C node b1 s1 s2 r hg hne hv1 hn1 hb1 h
    · simp only [ht] at h
      have := hT a C node b1 retry 0 s1 s2 r hg hv1 hn1 hb1 h
      simpa using this
  cases skipDo with
  | true =>
    simp only [if_true] at h
    rw [exec_bind, exec_pure] at h
    exact hF b s s' r hb hv hn h
  | false =>
    simp only [Bool.false_eq_true, if_false] at h
    rw [exec_bind, exec_tryCatch] at h
    rcases ht : exec (taskDo node b) s with ⟨r1, s1⟩
    obtain ⟨hq, hb1⟩ := taskDo_spec node b s s1 r1 hb hn ht
    rw [ht] at h
    cases r1 with
    | error e =>
      dsimp only at h
      cases e <;> simp only [exec_throw] at h <;> cases h <;> exact Res.fail_quiet hv hq _
    | ok b1 =>
      dsimp only at h
      obtain ⟨hbi, hpos⟩ := hb1 b1 rfl
      rw [← hpos]
      exact (hF b1 s1 s' r hbi (C.quiet_valid hv hq) (hq.ns hn) h).pre_quiet hv hq

theorem taint_step (Good : TaskNode → Prop) (fuel : Nat) (hP : PipeSpec Good fuel) (hN : NextSpec Good fuel)
    (hT : TaintSpec Good fuel) : TaintSpec Good (fuel+1) := by
  intro a C node b retry i s s' r hg hv hn hb h
  rw [taintedLoop] at h
  have hpl : b.pos.length = b.st.length := by rw [hb.wf.1.pos_len, hb.wf.1.st_len]
  by_cases hi : i ≥ b.st.length
  · simp only [hi, if_true, exec_pure] at h
    cases h
    have : b.pos.drop i = [] := List.drop_of_length_le (by omega)
    rw [this]
    exact Res.ok_quiet hv (Q.refl _)
  · simp only [hi, if_false] at h
    have hlt : i < b.st.length := by omega
    have hg1 := groupEnd_gt b.st i hlt
    have hg2 := groupEnd_le b.st i (by omega)
    rw [exec_bind] at h
    rcases hs : b.sub i (groupEnd b.st i) with e | sb
    · rw [hs, exec_liftR_err] at h
      cases h
      exact Res.fail_quiet hv (Q.refl _) _
    · rw [hs, exec_liftR_ok] at h
      dsimp only at h
      obtain ⟨hsb, hsp, hss⟩ := sub_BInv hb hs
      rw [exec_bind] at h
      rcases h0 : idx sb.st 0 "subBatch.recordStatuses[0]" with e | s0
      · rw [h0, exec_liftR_err] at h
        cases h
        exact Res.fail_quiet hv (Q.refl _) _
      · rw [h0, exec_liftR_ok] at h
        dsimp only at h
        have hspan : i + sb.pos.length = groupEnd b.st i := by
          rw [hsp]; simp; omega
        rw [hspan] at h
        have hK : ∀ s1 r2 s2, C.Valid s1 → NS s1.scripts →
            exec ((fun (_ : Unit) => taintedLoop fuel node b a retry (groupEnd b.st i)) ()) s1 = (r2, s2) →
            Res C (keys (b.pos.drop (groupEnd b.st i))) s1 s2 r2 :=
          fun s1 r2 s2 hv1 hn1 hx => hT a C node b retry _ s1 s2 r2 hg hv1 hn1 hb hx
        rw [keys_drop_split b.pos i (groupEnd b.st i) (by omega), ← hsp]
        have hack : ∀ (s s' : PS) (r : Except Stop Unit), C.Valid s → NS s.scripts →
            exec (if (node.next.isEmpty || !sb.hasActive) = true then do
                    let __r ← ackerCall fuel a sb true 0
                    taintedLoop fuel node b a retry (groupEnd b.st i)
                  else do
                    let __r ← doNextTask fuel node sb a
                    taintedLoop fuel node b a retry (groupEnd b.st i)) s = (r, s') →
            Res C (keys sb.pos ++ keys (b.pos.drop (groupEnd b.st i))) s s' r := by
          intro s s' r hv hn h
          by_cases hc : (node.next.isEmpty || !sb.hasActive) = true
          · simp only [hc, if_true] at h
            refine res_bind hv hn (fun r1 s1 hx => ?_) hK h
            obtain ⟨p1, p2, _⟩ := C.call fuel sb true 0 s r1 s1 hv hsb.bok (fun h => nomatch h) hx
            exact ⟨p1, p2⟩
          · simp only [hc] at h
            have hne : node.next ≠ [] := by
              intro he; apply hc; rw [he]; rfl
            exact res_bind hv hn (fun r1 s1 hx => hN a C node sb s s1 r1 hg hne hv hn hsb hx) hK h
        cases hfl : s0.flag with
        | ack => rw [hfl] at h; exact hack s s' r hv hn h
        | filter => rw [hfl] at h; exact hack s s' r hv hn h
        | nack =>
          rw [hfl] at h
          dsimp only at h
          refine res_bind hv hn (fun r1 s1 hx => ?_) hK h
          have hnk : NackOK sb := by
            intro x hx
            have h00 : sb.st[0]? = some s0 := idx_eq_ok_iff.mp h0
            have hbi : b.st[i]? = some s0 := by
              rw [hss] at h00
              simpa [List.getElem?_take, hg1] using h00
            have hall := group_all_nack b.st i s0 hbi hfl
            rw [hss] at hx
            exact hsb.ne x (by rw [hss]; exact hx) (hall x hx)
          obtain ⟨p1, p2, _⟩ := C.call fuel sb false node.id s r1 s1 hv hsb.bok (fun _ => hnk) hx
          exact ⟨p1, p2⟩
        | retry =>
          rw [hfl] at h
          dsimp only at h
          have hD : ∀ (sb' : Batch) (nx : RetryAttempt), sb.setFlagRange .ack 0 sb.recs.length = .ok sb' →
              exec (do
                doTaskAttempt fuel node { sb' with tainted := false } a (some nx) false
                taintedLoop fuel node b a retry (groupEnd b.st i)) s = (r, s') →
              Res C (keys sb.pos ++ keys (List.drop (groupEnd b.st i) b.pos)) s s' r := by
            intro sb' nx hsf h
            obtain ⟨hfr, _⟩ := setFlagRange_fr (by decide) hsf
            have hwf' := C08_aligned_setFlagRange hsb.wf (by decide) hsf
            have hbi : BInv { sb' with tainted := false } :=
              ⟨⟨⟨hwf'.1.st_len, hwf'.1.pos_len, hwf'.1.runs_ok, hwf'.1.split_keys⟩, hwf'.2⟩,
                hfr.split.trans hsb.split, fun rs hrs => hsb.runs rs (hfr.runs ▸ hrs), hfr.ne hsb.ne⟩
            refine res_bind hv hn (fun r1 s1 hx => ?_) hK h
            have := hP a C node _ (some nx) false s s1 r1 hg hv hn hbi hx
            rw [← hfr.pos]
            exact this
          rw [exec_bind] at h
          rcases hsf : sb.setFlagRange Flag.ack 0 sb.recs.length with e | sb'
          · rw [hsf, exec_liftR_err] at h
            cases h
            exact Res.fail_quiet hv (Q.refl _) _
          · rw [hsf, exec_liftR_ok] at h
            dsimp only at h
            cases retry with
            | none =>
              dsimp only at h
              by_cases c1 : 1 > maxRetryAttempts
              · simp only [c1, if_true, exec_throw_bind] at h
                cases h
                exact Res.fail_quiet hv (Q.refl _) _
              · simp only [c1, if_false] at h
                exact hD sb' _ hsf h
            | some rt =>
              dsimp only at h
              by_cases c0 : (if sb'.recs.length ≥ rt.size then rt.stall + 1 else 0) ≥ maxRetryStall
              · simp only [c0, if_true, exec_throw_bind] at h
                cases h
                exact Res.fail_quiet hv (Q.refl _) _
              · by_cases c1 : rt.count + 1 > maxRetryAttempts
                · simp only [c0, c1, if_true, if_false, exec_throw_bind] at h
                  cases h
                  exact Res.fail_quiet hv (Q.refl _) _
                · simp only [c0, c1, if_false] at h
                  exact hD sb' _ hsf h


theorem next_step (Good : TaskNode → Prop) (hchild : ∀ node, Good node → ∀ n ∈ node.next, Good n) (fuel : Nat)
    (hP : PipeSpec Good fuel) (hfan : FanSpec Good (fuel+1)) : NextSpec Good (fuel+1) := by
  intro a C node b s s' r hg hne hv hn hb h
  cases hnx : node.next with
  | nil => exact absurd hnx hne
  | cons n rest =>
    cases rest with
    | nil =>
      rw [doNextTask] at h
      simp only [hnx] at h
      exact hP a C n b none false s s' r (hchild node hg n (by rw [hnx]; simp)) hv hn hb h
    | cons n2 rest2 =>
      exact hfan a C node b s s' r hg (by rw [hnx]; simp) hv hn hb h

/-- The task recursion meets the handler contract for every fuel, given the fan-out case. -/
theorem pipe_all (Good : TaskNode → Prop) (hchild : ∀ node, Good node → ∀ n ∈ node.next, Good n)
    (hfan : ∀ fuel, (∀ f, f ≤ fuel → PipeSpec Good f) → FanSpec Good (fuel+1)) :
    ∀ fuel f, f ≤ fuel → PipeSpec Good f ∧ TaintSpec Good f ∧ NextSpec Good f := by
  intro fuel
  induction fuel with
  | zero =>
    intro f hf
    have : f = 0 := by omega
    subst this
    refine ⟨?_, ?_, ?_⟩
    · intro a C node b retry skipDo s s' r _ hv _ _ h
      rw [doTaskAttempt] at h; cases h; exact Res.fail_quiet hv (Q.refl _) _
    · intro a C node b retry i s s' r _ hv _ _ h
      rw [taintedLoop] at h; cases h; exact Res.fail_quiet hv (Q.refl _) _
    · intro a C node b s s' r _ _ hv _ _ h
      rw [doNextTask] at h; cases h; exact Res.fail_quiet hv (Q.refl _) _
  | succ n ih =>
    intro f hf
    by_cases hle : f ≤ n
    · exact ih f hle
    · have : f = n + 1 := by omega
      subst this
      obtain ⟨p, t, nx⟩ := ih n (Nat.le_refl _)
      exact ⟨dta_step Good n nx t, taint_step Good n p nx t,
        next_step Good hchild n p (hfan n (fun f hf => (ih f hf).1))⟩

/-! ## pipelines without fan-out -/

/-- every task has at most one next task -/
inductive Linear : TaskNode → Prop
  | mk (id : Nat) (kind : TaskKind) (next : List TaskNode) :
      next.length ≤ 1 → (∀ n ∈ next, Linear n) → Linear (.mk id kind next)

theorem Linear.child {node : TaskNode} (h : Linear node) : ∀ n ∈ node.next, Linear n := by
  cases h with
  | mk id kind next _ hc => exact hc

theorem Linear.len {node : TaskNode} (h : Linear node) : node.next.length ≤ 1 := by
  cases h with
  | mk id kind next hl _ => exact hl

theorem pipe_linear (fuel : Nat) : PipeSpec Linear fuel :=
  (pipe_all Linear (fun _ h => h.child)
    (fun _ _ a C node b s s' r hg h2 => by have := hg.len; omega) fuel fuel (Nat.le_refl _)).1

end Conduit.Funnel
