import ConduitModel.Proofs.PassFan

/-!
# Pass-level reasoning with split runs: pieces, forwarded keys, ledger accounting

A batch is viewed as its list of *pieces* `(run, position)`. `fk h rest l` is the list of keys a
`runAckNacker` forwards to its parent when every piece of `l` is voted, in order: a record without
run forwards its own position at once; a run forwards its original position when its LAST piece is
voted, provided no piece of it remains outside `l` (`rest r = 0`). `Acc` is the ledger accounting
(`terminal + pieces still to vote = total`), `VRes` the outcome of voting / processing `l`.
-/
namespace Conduit.Funnel

/-! ## contracts of the bare handlers -/

/-- the `Worker` itself (with its DLQ) -/
def wContract : Contract .worker where
  top := 0
  Valid := fun _ => True
  Partial := WPartial
  Done := WDone
  Stutter := WDone []
  valid_top := fun _ => Nat.zero_le _
  done_partial := workerContract.done_partial
  done_done := workerContract.done_done
  done_partial_trans := workerContract.done_partial_trans
  partial_mono := workerContract.partial_mono
  quiet_done := workerContract.quiet_done
  quiet_stutter := workerContract.quiet_stutter
  stutter_partial := workerContract.stutter_partial
  stutter_trans := workerContract.stutter_trans
  partial_valid := fun _ _ => trivial
  stutter_valid := fun _ _ => trivial
  partial_ns := workerContract.partial_ns
  stutter_ns := workerContract.stutter_ns
  call := fun fuel b isAck task s r s' _ hb hn h => by
    have hw : ∃ k', WRes b isAck s s' r k' := by
      cases fuel with
      | zero => rw [ackerCall] at h; cases h; exact ⟨[], WRes.fail (Qh.refl _)⟩
      | succ g =>
        rw [ackerCall] at h
        cases isAck with
        | true => simp only [if_true] at h; exact workerAck_spec b s s' r hb h
        | false =>
          simp only [Bool.false_eq_true, if_false] at h
          exact workerNack_spec b task s s' r hb (hn rfl) h
    obtain ⟨k', hw⟩ := hw
    refine ⟨⟨k', hw.pre, hw.acked, hw.ns⟩, ?_, ?_, by rw [hw.mas], fun i _ => by rw [hw.mas], hw.heap⟩
    · intro hr; rw [← hw.ok hr]; exact ⟨hw.acked, hw.ns⟩
    · intro ha hne
      have := hw.atomic ha hne
      subst this
      exact ⟨hw.acked, hw.ns⟩

/-- the fan-out arbiter itself -/
def mContract {a : Acker} (C : Contract a) (id : Nat) (hle : C.top ≤ id) : Contract (.multi id a) where
  top := id + 1
  Valid := MValid C id
  Partial := fun _ => MSafe C id
  Done := MDone C id
  Stutter := MSafe C id
  valid_top := fun hv => hv.2.1
  done_partial := fun h => h.safe
  done_done := MDone.trans
  done_partial_trans := fun h1 h2 => h1.safe.trans h2
  partial_mono := fun _ h => h
  quiet_done := fun hv hq => MDone.of_quiet hv hle hq
  quiet_stutter := fun hv hq => (MDone.of_quiet hv hle hq).safe
  stutter_partial := MSafe.trans
  stutter_trans := MSafe.trans
  partial_valid := fun hv h => h.ok hv
  stutter_valid := fun hv h => h.ok hv
  partial_ns := fun h => h.ns
  stutter_ns := fun h => h.ns
  call := fun fuel b isAck task s r s' hv hb hn h => by
    obtain ⟨p1, p2, p3, p4, p5⟩ := multi_call hle fuel b isAck task s r s' hv hb hn h
    exact ⟨p1, p2, fun _ _ => p1, p3, p4, p5⟩

/-- `runAckNacker(p)` restricted to batches without runs behaves like `p` -/
def runContract {p : Acker} (C : Contract p) : Contract (.run p) where
  top := C.top
  Valid := C.Valid
  Partial := C.Partial
  Done := C.Done
  Stutter := C.Stutter
  valid_top := C.valid_top
  done_partial := C.done_partial
  done_done := C.done_done
  done_partial_trans := C.done_partial_trans
  partial_mono := C.partial_mono
  quiet_done := C.quiet_done
  quiet_stutter := C.quiet_stutter
  stutter_partial := C.stutter_partial
  stutter_trans := C.stutter_trans
  partial_valid := C.partial_valid
  stutter_valid := C.stutter_valid
  partial_ns := C.partial_ns
  stutter_ns := C.stutter_ns
  call := fun fuel b isAck task s r s' hv hb hn h => by
    rcases run_wrap p fuel b isAck task s s' r hb h with ⟨e, rfl, rfl⟩ | ⟨hp, rfl, rfl⟩ | ⟨f, sb, hsb, e3, e2, e1, hc⟩
    · exact ⟨C.partial_mono _ (C.done_partial (C.done_refl hv)), (fun h => nomatch h),
        fun _ _ => C.quiet_stutter hv (Quiet.refl _ _), rfl, fun _ _ => rfl, rfl⟩
    · rw [hp]
      exact ⟨C.done_partial (C.done_refl hv), fun _ => C.done_refl hv,
        fun _ _ => C.quiet_stutter hv (Quiet.refl _ _), rfl, fun _ _ => rfl, rfl⟩
    · obtain ⟨p1, p2, p3, p4, p5, p6⟩ := C.call f sb isAck task s r s' hv hsb
        (fun hi => by unfold NackOK; rw [e2]; exact hn hi) hc
      rw [e3] at p1 p2
      exact ⟨p1, p2, fun ha => p3 (by rw [e1]; exact ha), p4, p5, p6⟩

/-! ## pieces -/

/-- a physical record of a batch as the ledger sees it: its run (if any) and its position -/
abbrev Piece := Option Nat × PosV

/-- the pieces of a batch -/
def Batch.view (b : Batch) : List Piece := (b.runs.getD []).zip b.pos

/-- number of pieces of run `r` -/
def cnt (r : Nat) (l : List Piece) : Nat := l.countP (fun x => x.1 == some r)

/-- the keys forwarded to the parent when the pieces `l` are voted in order; `rest r` = number of
pieces of run `r` that are not in `l` and not voted yet. -/
def fk (h : Heap) (rest : Nat → Nat) : List Piece → List Nat
  | [] => []
  | (none, p) :: t => keyOf p :: fk h rest t
  | (some r, _) :: t =>
    (if cnt r t = 0 ∧ rest r = 0 then [keyOf (h[r]!).origPos] else []) ++ fk h rest t

theorem cnt_nil (r : Nat) : cnt r [] = 0 := rfl
theorem cnt_append (r : Nat) (l1 l2 : List Piece) : cnt r (l1 ++ l2) = cnt r l1 + cnt r l2 := by
  simp [cnt, List.countP_append]
theorem cnt_cons_none (r : Nat) (p : PosV) (t : List Piece) : cnt r ((none, p) :: t) = cnt r t := by
  simp [cnt]
theorem cnt_cons_some (r r' : Nat) (p : PosV) (t : List Piece) :
    cnt r ((some r', p) :: t) = cnt r t + (if r' = r then 1 else 0) := by
  simp [cnt, List.countP_cons]

theorem fk_append (h : Heap) (rest : Nat → Nat) (l1 l2 : List Piece) :
    fk h rest (l1 ++ l2) = fk h (fun x => rest x + cnt x l2) l1 ++ fk h rest l2 := by
  induction l1 with
  | nil => rfl
  | cons x t ih =>
    obtain ⟨ro, p⟩ := x
    cases ro with
    | none => simp only [List.cons_append, fk, ih, List.cons_append]
    | some r =>
      simp only [List.cons_append, fk, ih, cnt_append, List.append_assoc]
      congr 1
      by_cases hc : cnt r t = 0 <;> by_cases h2 : cnt r l2 = 0 <;> by_cases h3 : rest r = 0 <;> simp [hc, h2, h3]

theorem fk_congr (h h' : Heap) (rest : Nat → Nat) (l : List Piece)
    (ho : ∀ r : Nat, 0 < cnt r l → (h'[r]!).origPos = (h[r]!).origPos) : fk h' rest l = fk h rest l := by
  induction l with
  | nil => rfl
  | cons x t ih =>
    obtain ⟨ro, p⟩ := x
    cases ro with
    | none =>
      simp only [fk]
      rw [ih (fun r hr => ho r (by rw [cnt_cons_none]; exact hr))]
    | some r =>
      simp only [fk]
      rw [ih (fun r' hr => ho r' (by rw [cnt_cons_some]; omega)), ho r (by rw [cnt_cons_some]; simp)]

/-- all pieces of the group belong to run `r` -/
theorem fk_group (h : Heap) (rest : Nat → Nat) (r : Nat) : ∀ (g : List Piece), g ≠ [] → (∀ x ∈ g, x.1 = some r) →
    ∀ t : List Piece, fk h rest (g ++ t) =
      (if cnt r t = 0 ∧ rest r = 0 then [keyOf (h[r]!).origPos] else []) ++ fk h rest t := by
  intro g
  induction g with
  | nil => intro hne; exact absurd rfl hne
  | cons x g ih =>
    intro _ hall t
    obtain ⟨ro, p⟩ := x
    have hx : ro = some r := hall (ro, p) List.mem_cons_self
    subst hx
    by_cases hg : g = []
    · subst hg; rfl
    · have hall' : ∀ x ∈ g, x.1 = some r := fun x hx => hall x (List.mem_cons_of_mem _ hx)
      simp only [List.cons_append, fk]
      rw [ih hg hall' t]
      have hpos : 0 < cnt r (g ++ t) := by
        rw [cnt_append]
        cases g with
        | nil => exact absurd rfl hg
        | cons y g' =>
          have : y.1 = some r := hall' y List.mem_cons_self
          obtain ⟨yo, yp⟩ := y
          simp only at this
          subst this
          rw [cnt_cons_some]; simp; omega
      have : ¬ (cnt r (g ++ t) = 0 ∧ rest r = 0) := by omega
      simp [this]

/-- no piece of the group belongs to a run -/
theorem fk_norun (h : Heap) (rest : Nat → Nat) : ∀ (g : List Piece), (∀ x ∈ g, x.1 = none) →
    ∀ t : List Piece, fk h rest (g ++ t) = g.map (fun x => keyOf x.2) ++ fk h rest t := by
  intro g
  induction g with
  | nil => intro _ t; rfl
  | cons x g ih =>
    intro hall t
    obtain ⟨ro, p⟩ := x
    have hx : ro = none := hall (ro, p) List.mem_cons_self
    subst hx
    simp only [List.cons_append, fk, List.map_cons]
    rw [ih (fun x hx => hall x (List.mem_cons_of_mem _ hx)) t]

theorem cnt_norun (r : Nat) (g : List Piece) (hall : ∀ x ∈ g, x.1 = none) : cnt r g = 0 := by
  unfold cnt
  rw [List.countP_eq_zero]
  intro x hx
  rw [hall x hx]; simp

theorem cnt_group (r : Nat) (g : List Piece) (hall : ∀ x ∈ g, x.1 = some r) : cnt r g = g.length := by
  unfold cnt
  rw [List.countP_eq_length]
  intro x hx
  rw [hall x hx]; simp

theorem cnt_group_other (r r' : Nat) (hne : r' ≠ r) (g : List Piece) (hall : ∀ x ∈ g, x.1 = some r) : cnt r' g = 0 := by
  unfold cnt
  rw [List.countP_eq_zero]
  intro x hx
  rw [hall x hx]; simp; exact fun h => hne h.symm

/-! ## ledger accounting -/

/-- what is kept true of a run that still has pieces to vote -/
structure RunOK (x : SplitRun) (pending : Nat) : Prop where
  rel : x.released = false
  acc : x.terminal + pending = x.total
  nerr : x.nacked = true → x.nackErr.isSome = true

/-- every run with a piece in `l` is allocated, not yet forwarded, and
`terminal + (pieces in l) + (pieces elsewhere) = total`. -/
def Acc (h : Heap) (rest : Nat → Nat) (l : List Piece) : Prop :=
  ∀ r : Nat, 0 < cnt r l → r < h.size ∧ RunOK (h[r]!) (cnt r l + rest r)

/-- after all pieces of `l` were voted: a run with pieces elsewhere is still open and accounts
for exactly those. -/
def LPost (h : Heap) (rest : Nat → Nat) (l : List Piece) : Prop :=
  ∀ r : Nat, 0 < cnt r l → 0 < rest r → RunOK (h[r]!) (rest r) ∧ 0 < (h[r]!).terminal

/-- outcome of voting / processing the pieces `l` from `s` to `s'` against the parent's contract -/
structure VRes {p : Acker} (C : Contract p) (rest : Nat → Nat) (l : List Piece) (s s' : PS)
    (r : Except Stop Unit) : Prop where
  part : C.Partial (fk s.heap rest l) s s'
  hsize : s.heap.size ≤ s'.heap.size
  hframe : ∀ rid : Nat, rid < s.heap.size → cnt rid l = 0 → s'.heap[rid]! = s.heap[rid]!
  horig : ∀ rid : Nat, rid < s.heap.size → (s'.heap[rid]!).origPos = (s.heap[rid]!).origPos
  ok : r = .ok () → C.Done (fk s.heap rest l) s s' ∧ LPost s'.heap rest l

theorem Acc.left {h : Heap} {rest : Nat → Nat} {l1 l2 : List Piece} (ha : Acc h rest (l1 ++ l2)) :
    Acc h (fun x => rest x + cnt x l2) l1 := by
  intro r hr
  obtain ⟨h1, h2⟩ := ha r (by rw [cnt_append]; omega)
  refine ⟨h1, h2.rel, ?_, h2.nerr⟩
  have := h2.acc
  rw [cnt_append] at this
  show _ + (cnt r l1 + (rest r + cnt r l2)) = _
  omega

/-- the accounting of the second part once the first part has been voted -/
theorem Acc.right {p : Acker} {C : Contract p} {rest : Nat → Nat} {l1 l2 : List Piece} {s s1 : PS}
    (ha : Acc s.heap rest (l1 ++ l2)) (h1 : VRes C (fun x => rest x + cnt x l2) l1 s s1 (.ok ())) :
    Acc s1.heap rest l2 := by
  intro r hr
  obtain ⟨g1, g2⟩ := ha r (by rw [cnt_append]; omega)
  refine ⟨Nat.lt_of_lt_of_le g1 h1.hsize, ?_⟩
  by_cases hc : 0 < cnt r l1
  · have := ((h1.ok rfl).2 r hc (by show 0 < rest r + cnt r l2; omega)).1
    exact ⟨this.rel, by have := this.acc; dsimp only at this; omega, this.nerr⟩
  · have hc0 : cnt r l1 = 0 := by omega
    rw [h1.hframe r g1 hc0]
    refine ⟨g2.rel, ?_, g2.nerr⟩
    have := g2.acc
    rw [cnt_append] at this
    omega

theorem VRes.seq {p : Acker} {C : Contract p} {rest : Nat → Nat} {l1 l2 : List Piece} {s s1 s2 : PS}
    {r : Except Stop Unit} (h1 : VRes C (fun x => rest x + cnt x l2) l1 s s1 (.ok ()))
    (h2 : VRes C rest l2 s1 s2 r) (hl : ∀ rid : Nat, 0 < cnt rid (l1 ++ l2) → rid < s.heap.size) :
    VRes C rest (l1 ++ l2) s s2 r := by
  have hfk : fk s1.heap rest l2 = fk s.heap rest l2 :=
    fk_congr _ _ _ _ (fun r hr => h1.horig r (hl r (by rw [cnt_append]; omega)))
  have hd1 := (h1.ok rfl).1
  refine ⟨?_, Nat.le_trans h1.hsize h2.hsize, ?_, ?_, ?_⟩
  · rw [fk_append]
    have := h2.part
    rw [hfk] at this
    exact C.done_partial_trans hd1 this
  · intro rid hlt hc
    rw [cnt_append] at hc
    rw [h2.hframe rid (Nat.lt_of_lt_of_le hlt h1.hsize) (by omega), h1.hframe rid hlt (by omega)]
  · intro rid hlt
    rw [h2.horig rid (Nat.lt_of_lt_of_le hlt h1.hsize), h1.horig rid hlt]
  · intro hr
    obtain ⟨d2, p2⟩ := h2.ok hr
    rw [hfk] at d2
    refine ⟨by rw [fk_append]; exact C.done_done hd1 d2, ?_⟩
    intro rid hc hrest
    have hlt := hl rid hc
    rw [cnt_append] at hc
    by_cases hc2 : 0 < cnt rid l2
    · exact p2 rid hc2 hrest
    · have hc20 : cnt rid l2 = 0 := by omega
      have hc1 : 0 < cnt rid l1 := by omega
      have := (h1.ok rfl).2 rid hc1 (by show 0 < rest rid + cnt rid l2; omega)
      dsimp only at this
      rw [hc20, Nat.add_zero] at this
      rw [h2.hframe rid (Nat.lt_of_lt_of_le hlt h1.hsize) hc20]
      exact this

theorem VRes.fail_left {p : Acker} {C : Contract p} {rest : Nat → Nat} {l1 l2 : List Piece} {s s1 : PS}
    {e e' : Stop} (h1 : VRes C (fun x => rest x + cnt x l2) l1 s s1 (.error e)) :
    VRes C rest (l1 ++ l2) s s1 (.error e') := by
  refine ⟨?_, h1.hsize, fun rid hlt hc => h1.hframe rid hlt (by rw [cnt_append] at hc; omega), h1.horig,
    fun h => nomatch h⟩
  rw [fk_append]
  exact C.partial_mono _ h1.part

end Conduit.Funnel
