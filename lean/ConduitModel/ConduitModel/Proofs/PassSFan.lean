import ConduitModel.Proofs.PassSPipe

/-!
# Fan-out on batches with split runs

`validateRunsWholeBeforeFanOut` makes every run of the batch whole and untouched; then
`originalBatch()` lists exactly the forwarded keys of the batch (`fan_keys`), `clone()` gives each
branch fresh copies of the runs with the same accounting (`clone_SInv`), and the branches vote
through `.run (.multi id (.run p))`, for which `mContract` applies.
-/
namespace Conduit.Funnel


/-! ## `validateRunsWholeBeforeFanOut` -/

theorem cnt_zip (r : Nat) : ∀ (rs : List (Option Nat)) (pos : List PosV), rs.length = pos.length →
    cnt r (rs.zip pos) = ((rs.filterMap id).filter (· == r)).length := by
  intro rs
  induction rs with
  | nil => intro pos _; rfl
  | cons x t ih =>
    intro pos hl
    cases pos with
    | nil => simp at hl
    | cons q pt =>
      have hl' : t.length = pt.length := by simpa using hl
      rw [List.zip_cons_cons]
      cases x with
      | none =>
        rw [cnt_cons_none, ih pt hl']
        simp
      | some r2 =>
        rw [cnt_cons_some, ih pt hl']
        by_cases he : r2 = r
        · subst he; simp 
        · simp [he]

/-- in a batch that passes the fan-out guard every run is whole and untouched -/
theorem runsWhole_acc {h : Heap} {rest : Nat → Nat} {b : Batch} (hi : SInv h rest b) (hw : runsWhole h b = true) :
    ∀ r : Nat, 0 < cnt r b.view → (h[r]!).terminal = 0 ∧ rest r = 0 := by
  intro r hr
  obtain ⟨rs, hruns⟩ := hi.runs
  have hro := hi.wf.1.runs_ok
  rw [hruns] at hro
  have hv : b.view = rs.zip b.pos := by unfold Batch.view; rw [hruns]; rfl
  have hc := cnt_zip r rs b.pos (by rw [hro.1, hi.wf.1.pos_len])
  rw [← hv] at hc
  obtain ⟨hlt, hok⟩ := hi.acc r hr
  unfold runsWhole at hw
  rw [hruns] at hw
  dsimp only at hw
  rw [List.all_eq_true] at hw
  have hmem : r ∈ rs.filterMap id := by
    have : 0 < ((rs.filterMap id).filter (· == r)).length := by rw [← hc]; exact hr
    obtain ⟨x, hx⟩ := List.exists_mem_of_length_pos this
    have h1 := (List.mem_filter.mp hx).1
    have h2 : x = r := by simpa using (List.mem_filter.mp hx).2
    rw [← h2]; exact h1
  have := hw r hmem
  have hget : h[r]? = some (h[r]!) := by
    simp [getElem!_pos, hlt]
  rw [hget] at this
  simp only [Option.map_some, Option.getD_some, decide_eq_true_eq] at this
  rw [← hc] at this
  have hacc := hok.acc
  omega

/-! ## `newMultiAckNacker` accepts no nil position -/

theorem maNew_chk_nonnil : ∀ (ps : List PosV) (seen : List Nat), maNew.chk seen ps = none → ∀ p ∈ ps, p ≠ none := by
  intro ps
  induction ps with
  | nil => intro _ _ p hp; cases hp
  | cons q ps ih =>
    intro seen h p hp
    unfold maNew.chk at h
    split at h
    · cases h
    · rename_i hne
      split at h
      · cases h
      · rcases List.mem_cons.mp hp with he | he
        · rw [he]
          intro hq
          apply hne
          rw [hq]; rfl
        · exact ih _ h p he

theorem maNew_nonnil {M : Nat} {ps : List PosV} {m : MA} (h : maNew M ps = .ok m) : ∀ p ∈ ps, p ≠ none := by
  unfold maNew at h
  split at h
  · cases h
  · rename_i hc; exact maNew_chk_nonnil ps [] hc

/-! ## `originalBatch()` lists the head positions -/

theorem headKeys_zip : ∀ (rs : List (Option Nat)) (pos : List PosV), rs.length = pos.length →
    headKeys (rs.zip pos) = keys (pos.filter (· != none)) := by
  intro rs
  induction rs with
  | nil => intro pos hl; have : pos = [] := List.length_eq_zero_iff.mp (by simpa using hl.symm); subst this; rfl
  | cons x t ih =>
    intro pos hl
    cases pos with
    | nil => simp at hl
    | cons q pt =>
      have hl' : t.length = pt.length := by simpa using hl
      rw [List.zip_cons_cons]
      cases q with
      | none => simp only [headKeys, ih pt hl']; rfl
      | some k => simp only [headKeys, ih pt hl']; simp [keys]

theorem original_pos {h : Heap} {b : Batch} (hwf : b.WF h) (hs : b.split.length ≠ 0) :
    b.original.pos = b.pos.filter (· != none) := by
  unfold Batch.original
  simp only [hs, if_false]
  show List.map _ (List.filter _ _) = _
  have : ∀ (pos : List PosV) (l : List (Rec × Status)), pos.length = l.length →
      List.map (fun (x : PosV × Rec × Status) => match x with | (p, _, _) => p)
        (List.filter (fun (x : PosV × Rec × Status) => match x with | (p, _) => p != none) (pos.zip l)) =
      pos.filter (· != none) := by
    intro pos
    induction pos with
    | nil => intro l _; rfl
    | cons q pt ih =>
      intro l hl
      cases l with
      | nil => simp at hl
      | cons y lt =>
        rw [List.zip_cons_cons]
        have hl' : pt.length = lt.length := by simpa using hl
        cases q with
        | none => simp [ih lt hl']
        | some k => simp [ih lt hl']
  exact this b.pos (b.recs.zip b.st) (by simp [hwf.1.pos_len, hwf.1.st_len])




/-! ## renaming the runs of a piece list -/

/-- rename the run of a piece -/
def ren (ρ : Nat → Nat) (x : Piece) : Piece := (x.1.map ρ, x.2)

section
variable (ρ : Nat → Nat) (P : Nat → Prop) (hinj : ∀ a c : Nat, P a → P c → ρ a = ρ c → a = c)
include hinj

theorem cnt_ren : ∀ (l : List Piece), (∀ r : Nat, 0 < cnt r l → P r) → ∀ r : Nat, P r →
    cnt (ρ r) (l.map (ren ρ)) = cnt r l := by
  intro l
  induction l with
  | nil => intro _ _ _; rfl
  | cons x t ih =>
    intro hl r hr
    obtain ⟨ro, q⟩ := x
    cases ro with
    | none =>
      simp only [List.map_cons, ren, Option.map_none, cnt_cons_none]
      exact ih (fun r' h' => hl r' (by rw [cnt_cons_none]; exact h')) r hr
    | some r2 =>
      simp only [List.map_cons, ren, Option.map_some, cnt_cons_some]
      rw [ih (fun r' h' => hl r' (by rw [cnt_cons_some]; omega)) r hr]
      have hp2 : P r2 := hl r2 (by rw [cnt_cons_some]; simp)
      by_cases he : r2 = r
      · subst he; simp
      · have : ¬ ρ r2 = ρ r := fun h => he (hinj r2 r hp2 hr h)
        simp [he, this]

omit hinj in
theorem cnt_ren_pos : ∀ (l : List Piece) (r' : Nat), 0 < cnt r' (l.map (ren ρ)) → ∃ r, r' = ρ r ∧ 0 < cnt r l := by
  intro l
  induction l with
  | nil => intro r' h; simp [cnt] at h
  | cons x t ih =>
    intro r' h
    obtain ⟨ro, q⟩ := x
    cases ro with
    | none =>
      simp only [List.map_cons, ren, Option.map_none, cnt_cons_none] at h
      obtain ⟨r, h1, h2⟩ := ih r' h
      exact ⟨r, h1, by rw [cnt_cons_none]; exact h2⟩
    | some r2 =>
      simp only [List.map_cons, ren, Option.map_some, cnt_cons_some] at h
      by_cases he : ρ r2 = r'
      · exact ⟨r2, he.symm, by rw [cnt_cons_some]; simp⟩
      · simp only [he, if_false, Nat.add_zero] at h
        obtain ⟨r, h1, h2⟩ := ih r' h
        exact ⟨r, h1, by rw [cnt_cons_some]; omega⟩

theorem fk_ren (h h' : Heap) (rest rest' : Nat → Nat)
    (ho : ∀ r : Nat, P r → (h'[ρ r]!).origPos = (h[r]!).origPos) (hr : ∀ r : Nat, P r → (rest' (ρ r) = 0 ↔ rest r = 0)) :
    ∀ (l : List Piece), (∀ r : Nat, 0 < cnt r l → P r) → fk h' rest' (l.map (ren ρ)) = fk h rest l := by
  intro l
  induction l with
  | nil => intro _; rfl
  | cons x t ih =>
    intro hl
    obtain ⟨ro, q⟩ := x
    cases ro with
    | none =>
      simp only [List.map_cons, ren, Option.map_none, fk]
      rw [ih (fun r' h' => hl r' (by rw [cnt_cons_none]; exact h'))]
    | some r =>
      have hp : P r := hl r (by rw [cnt_cons_some]; simp)
      have hlt : ∀ r' : Nat, 0 < cnt r' t → P r' := fun r' h' => hl r' (by rw [cnt_cons_some]; omega)
      simp only [List.map_cons, ren, Option.map_some, fk]
      rw [ih hlt, cnt_ren ρ P hinj t hlt r hp, ho r hp]
      by_cases h1 : rest r = 0
      · have h2 := (hr r hp).mpr h1; simp [h1, h2]
      · have h2 : ¬ rest' (ρ r) = 0 := fun h => h1 ((hr r hp).mp h); simp [h1, h2]

theorem shape_ren (h h' : Heap) (ho : ∀ r : Nat, P r → (h'[ρ r]!).origPos = (h[r]!).origPos) :
    ∀ (l : List Piece) (prev : Option Nat) (seen : List Nat), ShapeFrom h prev seen l →
    (∀ r : Nat, 0 < cnt r l → P r) → (∀ r : Nat, prev = some r → P r) → (∀ r ∈ seen, P r) →
    ShapeFrom h' (prev.map ρ) (seen.map ρ) (l.map (ren ρ)) := by
  intro l
  induction l with
  | nil => intro _ _ _ _ _ _; trivial
  | cons x t ih =>
    intro prev seen hs hl hpv hsn
    obtain ⟨ro, q⟩ := x
    cases ro with
    | none =>
      exact ⟨hs.1, ih none seen hs.2 (fun r' h' => hl r' (by rw [cnt_cons_none]; exact h')) (fun _ h => nomatch h) hsn⟩
    | some r =>
      have hp : P r := hl r (by rw [cnt_cons_some]; simp)
      have hlt : ∀ r' : Nat, 0 < cnt r' t → P r' := fun r' h' => hl r' (by rw [cnt_cons_some]; omega)
      cases q with
      | none =>
        have h1 : prev = some r := hs.1
        refine ⟨by rw [h1]; rfl, ?_⟩
        exact ih (some r) seen hs.2 hlt (fun r' hr' => by cases hr'; exact hp) hsn
      | some k =>
        refine ⟨?_, by rw [ho r hp]; exact hs.2.1, ?_⟩
        · intro hm
          rw [List.mem_map] at hm
          obtain ⟨a, ha, he⟩ := hm
          have := hinj a r (hsn a ha) hp he
          subst this
          exact hs.1 ha
        · have := ih (some r) (r :: seen) hs.2.2 hlt (fun r' hr' => by cases hr'; exact hp)
            (fun a ha => by
              rcases List.mem_cons.mp ha with h1 | h1
              · rw [h1]; exact hp
              · exact hsn a h1)
          simpa using this

end


/-! ## `clone()` -/


/-- the renaming a `cloneRuns` map stands for -/
def cloneRen (seen : List (Nat × Nat)) (id : Nat) : Nat := ((seen.find? (·.1 == id)).map (·.2)).getD id

/-- `clone()` renames the runs of the batch injectively to fresh copies -/
theorem clone_ren {h : Heap} {b : Batch} {rs : List (Option Nat)} (hwf : b.WF h) (hruns : b.runs = some rs) :
    ∃ ρ : Nat → Nat,
      (b.clone h).2.view = b.view.map (ren ρ) ∧
      (∀ a c : Nat, a < h.size → c < h.size → ρ a = ρ c → a = c) ∧
      (∀ id : Nat, id < h.size → (b.clone h).1[ρ id]! = h[id]!) ∧
      (∀ id : Nat, 0 < cnt id b.view → h.size ≤ ρ id ∧ ρ id < (b.clone h).1.size) ∧
      (∀ i : Nat, i < h.size → (b.clone h).1[i]! = h[i]!) ∧ h.size ≤ (b.clone h).1.size ∧
      (∀ id : Nat, id < h.size → ρ id < (b.clone h).1.size) ∧ (∃ rs', (b.clone h).2.runs = some rs') := by
  have hro := hwf.1.runs_ok
  rw [hruns] at hro
  have hrs : ∀ id, some id ∈ rs → id < h.size := by
    intro id hm; simpa [runIdOK] using hro.2 _ hm
  have inv0 : CloneInv h [] (h, [], []) :=
    ⟨Nat.le_refl _, fun _ _ => rfl, (by intro kv hkv; cases hkv), (by intro kv hkv; cases hkv), rfl, (by intro ro hro; cases hro)⟩
  have inv := CloneInv.fold rs hrs inv0
  rw [List.nil_append] at inv
  rw [clone_eq, hruns]
  dsimp only
  generalize List.foldl cloneStep (h, [], []) rs = res at *
  obtain ⟨h', seen, out⟩ := res
  obtain ⟨i1, i2, i3, i4, i5, i6⟩ := inv
  dsimp only at i1 i2 i3 i4 i5 i6
  -- lookups
  have hlook : ∀ id nid : Nat, (id, nid) ∈ seen → cloneRen seen id = nid := by
    intro id nid hm
    unfold cloneRen
    cases hf : seen.find? (·.1 == id) with
    | none =>
      have := List.find?_eq_none.mp hf (id, nid) hm
      simp at this
    | some kv =>
      have hkm := List.mem_of_find?_eq_some hf
      have hk1 : kv.1 = id := by simpa using List.find?_some hf
      have := (i4 kv hkm (id, nid) hm).mp hk1
      simp [this]
  have hnolook : ∀ id : Nat, (∀ kv ∈ seen, kv.1 ≠ id) → cloneRen seen id = id := by
    intro id hno
    unfold cloneRen
    cases hf : seen.find? (·.1 == id) with
    | none => rfl
    | some kv =>
      have hkm := List.mem_of_find?_eq_some hf
      have hk1 : kv.1 = id := by simpa using List.find?_some hf
      exact absurd hk1 (hno kv hkm)
  have hcases : ∀ id : Nat, (∃ nid, (id, nid) ∈ seen) ∨ (∀ kv ∈ seen, kv.1 ≠ id) := by
    intro id
    by_cases hex : ∃ kv ∈ seen, kv.1 = id
    · obtain ⟨kv, hkm, hk1⟩ := hex
      left; exact ⟨kv.2, by rw [← hk1]; exact hkm⟩
    · right; intro kv hkm hk1; exact hex ⟨kv, hkm, hk1⟩
  have hout : out = rs.map (Option.map (cloneRen seen)) := by
    apply List.ext_getElem?
    intro k
    rw [List.getElem?_map]
    by_cases hk : k < rs.length
    · have hk' : k < out.length := by rw [i5]; exact hk
      rw [List.getElem?_eq_getElem hk, List.getElem?_eq_getElem hk']
      have hz : (rs[k], out[k]) ∈ rs.zip out := by
        apply List.mem_of_getElem? (i := k)
        rw [List.getElem?_zip_eq_some]
        exact ⟨List.getElem?_eq_getElem hk, List.getElem?_eq_getElem hk'⟩
      have hrel := i6 _ hz
      dsimp only at hrel
      cases hr : rs[k] with
      | none =>
        rw [hr] at hrel
        cases ho : out[k] with
        | none => rfl
        | some x => rw [ho] at hrel; exact absurd hrel (by simp [cloneRel])
      | some id =>
        rw [hr] at hrel
        cases ho : out[k] with
        | none => rw [ho] at hrel; exact absurd hrel (by simp [cloneRel])
        | some nid =>
          rw [ho] at hrel
          simp only [cloneRel] at hrel
          simp [hlook id nid hrel]
    · have e1 : out[k]? = none := List.getElem?_eq_none (by rw [i5]; omega)
      have e2 : rs[k]? = none := List.getElem?_eq_none (by omega)
      rw [e1, e2]; rfl
  refine ⟨cloneRen seen, ?_, ?_, ?_, ?_, i2, i1, ?_, ⟨_, rfl⟩⟩
  · unfold Batch.view
    simp only [hruns, Option.getD_some]
    rw [hout, List.zip_map_left]
    apply List.map_congr_left
    intro x _
    rfl
  · intro a c ha hc he
    rcases hcases a with ⟨na, hna⟩ | hna <;> rcases hcases c with ⟨nc, hnc⟩ | hnc
    · rw [hlook a na hna, hlook c nc hnc] at he
      have := (i4 _ hna _ hnc).mpr he
      exact this
    · rw [hlook a na hna, hnolook c hnc] at he
      have := (i3 _ hna).2.1
      dsimp only at this
      omega
    · rw [hnolook a hna, hlook c nc hnc] at he
      have := (i3 _ hnc).2.1
      dsimp only at this
      omega
    · rw [hnolook a hna, hnolook c hnc] at he; exact he
  · intro id hid
    rcases hcases id with ⟨nid, hn⟩ | hn
    · rw [hlook id nid hn]; exact (i3 _ hn).2.2.2
    · rw [hnolook id hn]; exact i2 id hid
  · intro id hid
    -- `id` occurs in `rs`, so it has an entry
    have hv : b.view = rs.zip b.pos := by unfold Batch.view; rw [hruns]; rfl
    have hmem : some id ∈ rs := by
      rw [hv] at hid
      unfold cnt at hid
      obtain ⟨x, hx, hx1⟩ := List.countP_pos_iff.mp hid
      have : x.1 = some id := by simpa using hx1
      rw [← this]; exact (List.of_mem_zip hx).1
    obtain ⟨k, hk, hke⟩ := List.getElem_of_mem hmem
    have hk' : k < out.length := by rw [i5]; exact hk
    have hz : (rs[k], out[k]) ∈ rs.zip out := by
      apply List.mem_of_getElem? (i := k)
      rw [List.getElem?_zip_eq_some]
      exact ⟨List.getElem?_eq_getElem hk, List.getElem?_eq_getElem hk'⟩
    have hrel := i6 _ hz
    dsimp only at hrel
    rw [hke] at hrel
    cases ho : out[k] with
    | none => rw [ho] at hrel; exact absurd hrel (by simp [cloneRel])
    | some nid =>
      rw [ho] at hrel
      simp only [cloneRel] at hrel
      rw [hlook id nid hrel]
      exact ⟨(i3 _ hrel).2.1, (i3 _ hrel).2.2.1⟩
  · intro id hid
    rcases hcases id with ⟨nid, hn⟩ | hn
    · rw [hlook id nid hn]; exact (i3 _ hn).2.2.1
    · rw [hnolook id hn]; show id < h'.size; omega

/-- `clone()` for a fan-out branch: the copy has the same accounting (all runs whole and
untouched), the same shape and the same forwarded keys; nothing that existed is touched. -/
theorem clone_SInv {h : Heap} {rest : Nat → Nat} {b : Batch} (hi : SInv h rest b)
    (hwhole : ∀ r : Nat, 0 < cnt r b.view → (h[r]!).terminal = 0 ∧ rest r = 0) :
    SInv (b.clone h).1 (fun _ => 0) (b.clone h).2 ∧
    fk (b.clone h).1 (fun _ => 0) (b.clone h).2.view = fk h rest b.view ∧
    h.size ≤ (b.clone h).1.size ∧ (∀ i : Nat, i < h.size → (b.clone h).1[i]! = h[i]!) ∧
    (∀ rid : Nat, rid < h.size → cnt rid (b.clone h).2.view = 0) := by
  obtain ⟨rs, hruns⟩ := hi.runs
  obtain ⟨ρ, hv, hinj, hcopy, hfresh, hold, hsz, hlt', hruns'⟩ := clone_ren hi.wf hruns
  obtain ⟨w1, _, _, w4, _, _⟩ := C08_aligned_clone hi.wf
  have hids : ∀ r : Nat, 0 < cnt r b.view → r < h.size := fun r hr => (hi.acc r hr).1
  have hinjv : ∀ a c : Nat, 0 < cnt a b.view → 0 < cnt c b.view → ρ a = ρ c → a = c :=
    fun a c ha hc he => hinj a c (hids a ha) (hids c hc) he
  have hzero : ∀ rid : Nat, rid < h.size → cnt rid (b.clone h).2.view = 0 := by
    intro rid hlt
    apply Classical.byContradiction
    intro hne
    rw [hv] at hne
    obtain ⟨r, h1, h2⟩ := cnt_ren_pos ρ b.view rid (by omega)
    have := (hfresh r h2).1
    omega
  refine ⟨⟨w1, by rw [w4]; exact hi.ne, hruns', ?_, ?_, fun _ _ => rfl, ?_, ?_⟩, ?_, hsz, hold, hzero⟩
  · intro x hx hx1
    rw [hv, List.mem_map] at hx
    obtain ⟨y, hy, rfl⟩ := hx
    have hy1 : y.1 = none := by
      cases hh : y.1 with
      | none => rfl
      | some r => simp [ren, hh] at hx1
    exact hi.nopos y hy hy1
  · intro r' hr'
    rw [hv] at hr'
    obtain ⟨r, h1, h2⟩ := cnt_ren_pos ρ b.view r' hr'
    subst h1
    obtain ⟨g1, g2⟩ := hi.acc r h2
    refine ⟨(hfresh r h2).2, ?_⟩
    rw [hcopy r g1, hv, cnt_ren ρ (fun r => 0 < cnt r b.view) hinjv b.view (fun _ h => h) r h2]
    have := (hwhole r h2).2
    rw [this] at g2
    exact g2
  · obtain ⟨prev, seen, hsh, hp1, hp2⟩ := hi.shape
    refine ⟨prev.map ρ, seen.map ρ, ?_, ?_, ?_⟩
    · rw [hv]
      exact shape_ren ρ (fun r => r < h.size) hinj h _ (fun r hr => by rw [hcopy r hr]) b.view prev seen hsh hids
        (fun r hr => hp2 r (hp1 r hr)) hp2
    · intro r' hr'
      cases prev with
      | none => cases hr'
      | some r =>
        simp only [Option.map_some, Option.some.injEq] at hr'
        rw [← hr']
        exact List.mem_map.mpr ⟨r, hp1 r rfl, rfl⟩
    · intro r' hr'
      rw [List.mem_map] at hr'
      obtain ⟨r, hr, rfl⟩ := hr'
      exact hlt' r (hp2 r hr)
  · intro r' t ht
    rw [hv] at ht
    cases hbv : b.view with
    | nil => rw [hbv] at ht; cases ht
    | cons y t0 =>
      rw [hbv] at ht
      simp only [List.map_cons, List.cons.injEq] at ht
      obtain ⟨ro, q⟩ := y
      have h1 := ht.1
      simp only [ren, Prod.mk.injEq] at h1
      cases ro with
      | none => simp at h1
      | some r =>
        simp only [Option.map_some, Option.some.injEq] at h1
        obtain ⟨h2, h3⟩ := h1
        subst h2; subst h3
        have hc : 0 < cnt r b.view := by rw [hbv, cnt_cons_some]; simp
        rw [hcopy r (hids r hc)]
        exact hi.headless r t0 hbv
  · rw [hv]
    exact fk_ren ρ (fun r => 0 < cnt r b.view) hinjv h _ rest (fun _ => 0)
      (fun r hr => by rw [hcopy r (hids r hr)]) (fun r hr => by simp [(hwhole r hr).2]) b.view (fun _ h => h)


/-! ## the keys of a fan-out -/


/-- at a fan-out, `originalBatch()` lists exactly the forwarded keys of the batch -/
theorem fan_keys {h : Heap} {rest : Nat → Nat} {b : Batch} {M : Nat} {ma : MA} (hi : SInv h rest b)
    (hwhole : ∀ r : Nat, 0 < cnt r b.view → (h[r]!).terminal = 0 ∧ rest r = 0)
    (hma : maNew M b.original.pos = .ok ma) : keys b.original.pos = fk h rest b.view := by
  obtain ⟨rs, hruns⟩ := hi.runs
  have hro := hi.wf.1.runs_ok
  rw [hruns] at hro
  have hv : b.view = rs.zip b.pos := by unfold Batch.view; rw [hruns]; rfl
  have hhk : headKeys b.view = keys (b.pos.filter (· != none)) := by
    rw [hv]; exact headKeys_zip rs b.pos (by rw [hro.1, hi.wf.1.pos_len])
  have horig : keys b.original.pos = headKeys b.view := by
    rw [hhk]
    by_cases hs : b.split.length = 0
    · have ho : b.original = b := original_of_split_nil (List.length_eq_zero_iff.mp hs)
      rw [ho] at hma ⊢
      have hnn := maNew_nonnil hma
      have : b.pos.filter (· != none) = b.pos := by
        rw [List.filter_eq_self]
        intro p hp
        simpa using hnn p hp
      rw [this]
    · rw [original_pos hi.wf hs]
  obtain ⟨prev, seen, hsh, hp1, _⟩ := hi.shape
  have := shape_fk h rest b.view prev seen hsh hp1 (fun r hr => (hwhole r hr).2)
  rw [this, horig]
  -- no headless start
  cases hbv : b.view with
  | nil => rfl
  | cons x t =>
    obtain ⟨ro, q⟩ := x
    cases ro with
    | none => rfl
    | some r =>
      cases q with
      | some k => rfl
      | none =>
        exfalso
        have h1 := hi.headless r t hbv
        have h2 := (hwhole r (by rw [hbv, cnt_cons_some]; simp)).1
        omega

/-- the invariant of a batch survives heap changes that keep the entries of its runs -/
theorem SInv.frame {h h2 : Heap} {rest : Nat → Nat} {b : Batch} (hi : SInv h rest b) (hsz : h.size ≤ h2.size)
    (hsame : ∀ rid : Nat, 0 < cnt rid b.view → h2[rid]! = h[rid]!) : SInv h2 rest b := by
  refine ⟨hi.wf.mono_heap hsz, hi.ne, hi.runs, hi.nopos, ?_, fun r hr => hi.restok r (by omega), ?_, ?_⟩
  · intro r hr
    obtain ⟨g1, g2⟩ := hi.acc r hr
    exact ⟨by omega, by rw [hsame r hr]; exact g2⟩
  · obtain ⟨prev, seen, hsh, hp1, hp2⟩ := hi.shape
    exact ⟨prev, seen, shape_heap h h2 _ _ _ hsh (fun r hr => by rw [hsame r hr]), hp1, fun r hr => by have := hp2 r hr; omega⟩
  · intro r t ht
    rw [hsame r (by rw [ht, cnt_cons_some]; simp)]
    exact hi.headless r t ht


/-! ## the branches and the fan-out -/


/-- nothing that existed in the heap was touched -/
def HFr (s s' : PS) : Prop := s.heap.size ≤ s'.heap.size ∧ ∀ rid : Nat, rid < s.heap.size → s'.heap[rid]! = s.heap[rid]!

theorem HFr.refl (s : PS) : HFr s s := ⟨Nat.le_refl _, fun _ _ => rfl⟩
theorem HFr.trans {a b c : PS} (h1 : HFr a b) (h2 : HFr b c) : HFr a c :=
  ⟨Nat.le_trans h1.1 h2.1, fun rid hr => (h2.2 rid (Nat.lt_of_lt_of_le hr h1.1)).trans (h1.2 rid hr)⟩

/-- what every branch needs of the fan-out batch: its invariant, whole runs, the forwarded keys -/
structure BrI (rest : Nat → Nat) (b : Batch) (K : List Nat) (s : PS) : Prop where
  inv : SInv s.heap rest b
  whole : ∀ r : Nat, 0 < cnt r b.view → (s.heap[r]!).terminal = 0 ∧ rest r = 0
  keq : fk s.heap rest b.view = K

theorem BrI.frame {rest : Nat → Nat} {b : Batch} {K : List Nat} {s s' : PS} (hb : BrI rest b K s) (hf : HFr s s') :
    BrI rest b K s' := by
  have hsame : ∀ rid : Nat, 0 < cnt rid b.view → s'.heap[rid]! = s.heap[rid]! :=
    fun rid hr => hf.2 rid (hb.inv.acc rid hr).1
  refine ⟨hb.inv.frame hf.1 hsame, fun r hr => by rw [hsame r hr]; exact hb.whole r hr, ?_⟩
  rw [← hb.keq]
  exact fk_congr _ _ _ _ (fun r hr => by rw [hsame r hr])

section
variable {p : Acker} (C : Contract p) (id : Nat) (Good : TaskNode → Prop)

theorem sbranches_spec (hle : C.top ≤ id) (F : Nat) (hP : ∀ f, f ≤ F → SPipe Good f) (nexts : List TaskNode)
    (hg : ∀ n ∈ nexts, Good n) (b : Batch) (rest : Nat → Nat) (K : List Nat) :
    ∀ (fuel : Nat), fuel ≤ F + 1 → ∀ (order : List Nat) (errs : Option Err) (pan : Option String) (s s' : PS)
      (r : Except Stop Unit), MValid (runContract C) id s → BrI rest b K s →
      exec (branches fuel nexts order b (.multi id (.run p)) errs pan) s = (r, s') →
      MSafe (runContract C) id s s' ∧ HFr s s' ∧ (r = .ok () → errs = none ∧ pan = none ∧
        MDone (runContract C) id ((List.replicate (cntValid nexts.length order) K).flatten) s s') := by
  have hle' : (runContract C).top ≤ id := hle
  intro fuel
  induction fuel with
  | zero =>
    intro _ order errs pan s s' r _ _ h
    rw [branches] at h; cases h
    exact ⟨MSafe.refl _, HFr.refl _, fun h => nomatch h⟩
  | succ fuel ih =>
    intro hF order errs pan s s' r hv hbi h
    have ih' := ih (by omega)
    cases order with
    | nil =>
      cases pan with
      | some m => rw [branches] at h; cases h; exact ⟨MSafe.refl _, HFr.refl _, fun h => nomatch h⟩
      | none =>
        cases errs with
        | some e => rw [branches] at h; cases h; exact ⟨MSafe.refl _, HFr.refl _, fun h => nomatch h⟩
        | none =>
          rw [branches] at h
          cases h
          exact ⟨MSafe.refl _, HFr.refl _, fun _ => ⟨rfl, rfl, MDone.of_quiet hv hle' (Quiet.refl _ _)⟩⟩
    | cons k rest' =>
      rw [branches] at h
      cases hk : nexts[k]? with
      | none =>
        rw [hk] at h
        dsimp only at h
        have hnk : ¬ k < nexts.length := by
          intro hlt; rw [List.getElem?_eq_getElem hlt] at hk; cases hk
        have hc : cntValid nexts.length (k :: rest') = cntValid nexts.length rest' := by
          simp [cntValid, hnk]
        rw [hc]
        exact ih' rest' errs pan s s' r hv hbi h
      | some n =>
        rw [hk] at h
        dsimp only at h
        have hkl : k < nexts.length := (List.getElem?_eq_some_iff.mp hk).1
        have hgn : Good n := hg n (List.mem_of_getElem? hk)
        have hc : cntValid nexts.length (k :: rest') = cntValid nexts.length rest' + 1 := by
          simp [cntValid, hkl]
        rw [exec_bind, exec_get] at h
        dsimp only at h
        obtain ⟨c1, c2, c3, c4, c5⟩ := clone_SInv hbi.inv hbi.whole
        rcases hcl : Batch.clone s.heap b with ⟨hp, bb⟩
        rw [hcl] at h c1 c2 c3 c4 c5
        dsimp only at h c1 c2 c3 c4 c5
        rw [exec_bind, exec_set] at h
        dsimp only at h
        generalize hs1 : ({ s with heap := hp } : PS) = s1 at h
        have hh1 : s1.heap = hp := by rw [← hs1]
        have hq1 : Q s s1 := by rw [← hs1]; exact ⟨rfl, rfl, fun h => h⟩
        have hf1 : HFr s s1 := by rw [← hs1]; exact ⟨c3, c4⟩
        have hd1 : MDone (runContract C) id [] s s1 := MDone.of_quiet hv hle' (hq1.quiet _)
        have hv1 : MValid (runContract C) id s1 := hd1.safe.ok hv
        rw [exec_bind, exec_tryCatch, exec_bind] at h
        rcases hd : exec (doTaskAttempt fuel n bb (.run (.multi id (.run p))) none false) s1 with ⟨rb, s2⟩
        rw [hd] at h
        have hres := hP fuel (by omega) (.multi id (.run p)) (mContract (runContract C) id hle') n bb none false s1 s2 rb
          (fun _ => 0) hgn hv1 (by rw [hh1]; exact c1) hd
        have hs12 : MSafe (runContract C) id s1 s2 := hres.part
        have hv2 : MValid (runContract C) id s2 := hs12.ok hv1
        have hf2 : HFr s s2 := by
          refine ⟨Nat.le_trans hf1.1 hres.hsize, fun rid hlt => ?_⟩
          rw [hres.hframe rid (Nat.lt_of_lt_of_le hlt hf1.1) (by rw [hh1] at *; exact c5 rid hlt), hf1.2 rid hlt]
        have hbi2 : BrI rest b K s2 := hbi.frame hf2
        have hkeq : fk s1.heap (fun _ => 0) bb.view = K := by rw [hh1, c2]; exact hbi.keq
        cases rb with
        | ok u =>
          dsimp only at h
          rw [exec_pure] at h
          dsimp only at h
          obtain ⟨q1, q2, q3⟩ := ih' rest' errs pan s2 s' r hv2 hbi2 h
          refine ⟨(hd1.safe.trans hs12).trans q1, hf2.trans q2, fun hr => ?_⟩
          obtain ⟨e1, e2, e3⟩ := q3 hr
          refine ⟨e1, e2, ?_⟩
          rw [hc, List.replicate_succ, List.flatten_cons]
          have hdb : MDone (runContract C) id K s1 s2 := by
            have := ((hres.ok rfl).ok rfl).1
            rw [hkeq] at this
            exact this
          have := (hd1.trans hdb).trans e3
          simpa using this
        | error e =>
          dsimp only at h
          rw [exec_pure] at h
          dsimp only at h
          cases e with
          | panic m =>
            dsimp only at h
            obtain ⟨q1, q2, q3⟩ := ih' rest' errs (pan <|> some m) s2 s' r hv2 hbi2 h
            refine ⟨(hd1.safe.trans hs12).trans q1, hf2.trans q2, fun hr => ?_⟩
            obtain ⟨_, e2, _⟩ := q3 hr
            cases pan <;> cases e2
          | err e =>
            dsimp only at h
            obtain ⟨q1, q2, q3⟩ := ih' rest' _ pan s2 s' r hv2 hbi2 h
            refine ⟨(hd1.safe.trans hs12).trans q1, hf2.trans q2, fun hr => ?_⟩
            obtain ⟨e1, _, _⟩ := q3 hr
            cases errs <;> cases e1

end

theorem sfan_core (Good : TaskNode → Prop) (hchild : ∀ node, Good node → ∀ n ∈ node.next, Good n) (fuel : Nat)
    (hP : ∀ f, f ≤ fuel → SPipe Good f) {p : Acker} (C : Contract p) (node : TaskNode) (b : Batch) (s s' : PS)
    (r : Except Stop Unit) (rest : Nat → Nat) (hg : Good node) (h2 : 2 ≤ node.next.length) (hv : C.Valid s)
    (hi : SInv s.heap rest b) (hw : runsWhole s.heap b = true) (order : List Nat) (restO : List (List Nat))
    (hcv : cntValid node.next.length order = node.next.length) (ma : MA)
    (hma : maNew node.next.length b.original.pos = .ok ma)
    (h : exec (branches fuel node.next order b (.multi s.mas.size (.run p)) none none)
      { s with mas := s.mas.push ma, orders := restO } = (r, s')) : PRes C rest b.view s s' r := by
  generalize hs1 : ({ s with mas := s.mas.push ma, orders := restO } : PS) = s1 at h
  have hwhole := runsWhole_acc hi hw
  have hK := fan_keys hi hwhole hma
  have hle : C.top ≤ s.mas.size := C.valid_top hv
  obtain ⟨hmok, hmst, hmv⟩ := maNew_MOK node.next.length b.original.pos ma (by omega) hma
  obtain ⟨_, hmbr, hmpos⟩ := maNew_fresh _ _ _ hma
  have hm1 : s1.mas[s.mas.size]! = ma := by rw [← hs1]; exact mas_push_get_size _ _
  have hh1 : s1.heap = s.heap := by rw [← hs1]
  have hq : Quiet C.top s s1 := by
    refine ⟨by rw [← hs1], by rw [← hs1]; simp, fun i hi => ?_, by rw [← hs1]; exact fun h => h⟩
    rw [← hs1]; exact mas_push_get_lt _ _ (by omega)
  have hd01 : C.Done [] s s1 := C.quiet_done hv hq
  have hv1c : C.Valid s1 := C.partial_valid hv (C.done_partial hd01)
  have hv1 : MValid (runContract C) s.mas.size s1 := ⟨hv1c, by rw [← hs1]; simp, by rw [hm1]; exact hmok⟩
  have hbi : BrI rest b (keys b.original.pos) s1 := by
    refine ⟨by rw [hh1]; exact hi, by rw [hh1]; exact hwhole, by rw [hh1]; exact hK.symm⟩
  obtain ⟨q1, q2, q3⟩ := sbranches_spec C s.mas.size Good hle fuel hP node.next (hchild node hg) b rest
    (keys b.original.pos) fuel (by omega) order none none s1 s' r hv1 hbi h
  have hpos' : (s'.mas[s.mas.size]!).positions = b.original.pos := by rw [q1.pos, hm1, hmpos]
  have hr0 : ma.released = 0 := (maNew_fresh _ _ _ hma).1.1
  have hsize : s.heap.size ≤ s'.heap.size := by rw [← hh1]; exact q2.1
  have hframe : ∀ rid : Nat, rid < s.heap.size → s'.heap[rid]! = s.heap[rid]! := by
    intro rid hlt
    rw [q2.2 rid (by rw [hh1]; exact hlt), hh1]
  have hpart : C.Partial (fk s.heap rest b.view) s s' := by
    have hrun := q1.run
    rw [hm1, hmpos, hr0, List.drop_zero] at hrun
    have hp := (hrun.partial (C := runContract C) hv1c).1
    have hp2 := C.partial_mono (keys (b.original.pos.drop (s'.mas[s.mas.size]!).released)) hp
    rw [keys, keys, ← List.map_append, List.take_append_drop] at hp2
    have := C.done_partial_trans hd01 hp2
    rw [← hK]
    simpa using this
  refine ⟨hpart, hsize, fun rid hlt _ => hframe rid hlt, fun hr => ?_⟩
  refine ⟨hpart, hsize, fun rid hlt _ => hframe rid hlt, fun rid hlt => by rw [hframe rid hlt], fun _ => ⟨?_, ?_⟩⟩
  · obtain ⟨_, _, hdone⟩ := q3 hr
    rw [hcv] at hdone
    have hv' := q1.ok hv1
    have hmok' := hv'.2.2
    have hterm : ∀ i : Nat, i < b.original.pos.length → (s'.mas[s.mas.size]!).term i = true := by
      intro i hi'
      have hva := hdone.va i (by rw [hm1, hmpos]; exact hi')
      rcases hva.2 with ht | hvt
      · exact ht
      · rw [hm1, hmv i, count_flatten_replicate] at hvt
        have hk : (keys b.original.pos).count (kAt ma i) = 1 := by
          have hnd : (keys b.original.pos).Nodup := by rw [← hmpos]; exact hmok.nodup
          have hmem : kAt ma i ∈ keys b.original.pos := by
            rw [kAt_eq ma i (by rw [hmpos]; exact hi')]
            have e : keys b.original.pos = keys ma.positions := by rw [hmpos]
            rw [e]; exact List.getElem_mem _
          exact count_one_of_nodup _ _ hnd hmem
        rw [hk] at hvt
        cases htt : (s'.mas[s.mas.size]!).term i with
        | true => rfl
        | false =>
          have := hmok'.votes_lt i (by rw [hpos']; exact hi') htt
          rw [q1.br, hm1, hmbr] at this
          omega
    have hrel : (s'.mas[s.mas.size]!).released = b.original.pos.length := by
      have hst := hdone.stable (by rw [hm1]; exact hmst)
      have hle' := hmok'.rel_le
      rw [hpos'] at hle'
      apply Classical.byContradiction
      intro hne
      have hlt : (s'.mas[s.mas.size]!).released < b.original.pos.length := by omega
      have := hst (by rw [hpos']; exact hlt)
      rw [hterm _ hlt] at this
      cases this
    have hd := hdone.done
    rw [hm1, hmpos, hr0, hrel, List.drop_zero, List.take_length] at hd
    have := C.done_done hd01 hd
    rw [← hK]
    simpa using this
  · intro rid hc hrest
    have := (hwhole rid hc).2
    omega

theorem sfan_spec (Good : TaskNode → Prop) (hchild : ∀ node, Good node → ∀ n ∈ node.next, Good n) (fuel : Nat)
    (hP : ∀ f, f ≤ fuel → SPipe Good f) : SFan Good (fuel+1) := by
  intro p C node b s s' r rest hg h2 hv hi h
  rw [doNextTask] at h
  split at h
  · rename_i he; rw [he] at h2; simp at h2
  · rename_i n he; rw [he] at h2; simp at h2
  · rw [exec_bind, exec_get] at h
    dsimp only at h
    by_cases hrw : runsWhole s.heap b = true
    · simp only [hrw, Bool.not_true, Bool.false_eq_true, if_false] at h
      cases hma : maNew node.next.length b.original.pos with
      | error e =>
        rw [hma] at h
        dsimp only at h
        rw [exec_throw] at h
        cases h
        exact PRes.stay hv
      | ok ma =>
        rw [hma] at h
        dsimp only at h
        rw [exec_bind, exec_set] at h
        dsimp only at h
        cases hso : s.orders with
        | nil =>
          simp only [hso] at h
          exact sfan_core Good hchild fuel hP C node b s s' r rest hg h2 hv hi hrw _ _ (order_valid _ _) ma hma h
        | cons o rest' =>
          simp only [hso] at h
          exact sfan_core Good hchild fuel hP C node b s s' r rest hg h2 hv hi hrw _ _ (order_valid _ _) ma hma h
    · simp only [hrw, Bool.not_false, if_true, exec_throw_bind] at h
      cases h
      exact PRes.stay hv

/-- The task recursion meets the handler contract on EVERY task tree, with split runs, for every fuel. -/
theorem spipe_full (fuel : Nat) : SPipe (fun _ => True) fuel :=
  (spipe_all (fun _ => True) (fun _ _ _ _ => trivial)
    (fun fuel hP => sfan_spec (fun _ => True) (fun _ _ _ _ => trivial) fuel hP) fuel fuel (Nat.le_refl _)).1


end Conduit.Funnel
