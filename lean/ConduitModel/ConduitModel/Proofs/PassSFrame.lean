import ConduitModel.Proofs.PassSTask

/-!
# The heap frame of `ProcessorTask.Do`, also when it fails

`procDo` on a batch `b` only ever touches the ledger entries of the runs of `b` and of runs it
allocates itself — whatever it returns, including an error in the middle of `markBatchRecords`
after some `SplitRecord`s were already applied (`procDo_frame`). (The agreement lemma
`procDo_eq_model` does not say which heap an erroring `procDo` leaves; this file does, by a small
Hoare logic with joint value/state invariants over the monadic code.)
-/
namespace Conduit.Funnel

/-! ## a Hoare logic with a state relation and joint invariants -/

/-- from a state satisfying `Pre`, `x` moves along `Rl` and a returned value satisfies `J` jointly
with the final state. -/
def Steps {α} (Rl : PS → PS → Prop) (J : α → PS → Prop) (Pre : PS → Prop) (x : M α) : Prop :=
  ∀ s, Pre s → Rl s (exec x s).2 ∧ ∀ a, (exec x s).1 = .ok a → J a (exec x s).2

/-- a reflexive and transitive state relation -/
structure PreOrd (Rl : PS → PS → Prop) : Prop where
  refl : ∀ s, Rl s s
  trans : ∀ a b c, Rl a b → Rl b c → Rl a c

namespace Steps
variable {Rl : PS → PS → Prop} (po : PreOrd Rl)
include po

theorem pure {α} {J : α → PS → Prop} {Pre : PS → Prop} (a : α) (h : ∀ s, Pre s → J a s) :
    Steps Rl J Pre (Pure.pure a : M α) :=
  fun s hs => ⟨po.refl s, fun a' e => by cases e; exact h s hs⟩

theorem throw {α} {J : α → PS → Prop} {Pre : PS → Prop} (e : Stop) : Steps Rl J Pre (MonadExcept.throw e : M α) :=
  fun s _ => ⟨po.refl s, fun a' e => by cases e⟩

theorem liftR {α} {J : α → PS → Prop} {Pre : PS → Prop} (r : R α) (h : ∀ a s, r = .ok a → Pre s → J a s) :
    Steps Rl J Pre (Conduit.Funnel.liftR r : M α) := by
  intro s hs
  cases r with
  | ok a => exact ⟨po.refl s, fun a' e => by cases e; exact h a s rfl hs⟩
  | error e => exact ⟨po.refl s, fun a' e => by cases e⟩

theorem bind {α β} {J1 : α → PS → Prop} {J2 : β → PS → Prop} {Pre : PS → Prop} {x : M α} {f : α → M β}
    (hx : Steps Rl J1 Pre x) (hf : ∀ a, Steps Rl J2 (J1 a) (f a)) : Steps Rl J2 Pre (x >>= f) := by
  intro s hs
  rw [exec_bind]
  obtain ⟨h1, h2⟩ := hx s hs
  rcases hc : exec x s with ⟨r, s1⟩
  rw [hc] at h1 h2
  cases r with
  | error e => exact ⟨h1, fun a e => by cases e⟩
  | ok a =>
    obtain ⟨g1, g2⟩ := hf a s1 (h2 a rfl)
    exact ⟨po.trans _ _ _ h1 g1, g2⟩

omit po in
theorem weaken {α} {J J' : α → PS → Prop} {Pre Pre' : PS → Prop} {x : M α} (hx : Steps Rl J Pre x)
    (hp : ∀ s, Pre' s → Pre s) (hj : ∀ a s, J a s → J' a s) : Steps Rl J' Pre' x :=
  fun s hs => ⟨(hx s (hp s hs)).1, fun a e => hj a _ ((hx s (hp s hs)).2 a e)⟩

/-- value of a loop step -/
def stepVal {β} : ForInStep β → β
  | .done b => b
  | .yield b => b

theorem forIn {α β} {J : β → PS → Prop} (body : α → β → M (ForInStep β))
    (hb : ∀ a b, Steps Rl (fun st s => J (stepVal st) s) (J b) (body a b)) :
    ∀ (l : List α) (init : β), Steps Rl J (J init) (forIn l init body) := by
  intro l
  induction l with
  | nil => intro init; exact Steps.pure po init (fun _ h => h)
  | cons a l ih =>
    intro init
    rw [List.forIn_cons]
    refine Steps.bind po (hb a init) ?_
    intro st
    cases st with
    | done b => exact Steps.pure po b (fun _ h => h)
    | yield b => exact ih b

end Steps

/-! ## the effect of `SplitRecord` -/


/-- what `SplitRecord` does to the heap and the pieces (no ledger accounting needed) -/
structure SplitEff (h : Heap) (b : Batch) (n : Nat) (h' : Heap) (b' : Batch) : Prop where
  wf : b'.WF h'
  runs : ∃ rs', b'.runs = some rs'
  ne : NE b.st → NE b'.st
  eff : ∃ (A B : List Piece) (ro : Option Nat) (q : PosV) (rid : Nat),
    b.view = A ++ (ro, q) :: B ∧
    b'.view = A ++ (some rid, q) :: (List.replicate (n - 1) (some rid, none) ++ B) ∧
    ((ro = some rid ∧ rid < h.size ∧ h'.size = h.size ∧
        h'[rid]! = { (h[rid]!) with total := (h[rid]!).total + (n - 1) } ∧ ∀ r : Nat, r ≠ rid → h'[r]! = h[r]!) ∨
     (ro = none ∧ q ≠ none ∧ rid = h.size ∧ h'.size = h.size + 1 ∧
        ((h'[rid]!).released = false ∧ (h'[rid]!).terminal = 0 ∧ (h'[rid]!).total = (n - 1) + 1 ∧
          (h'[rid]!).nacked = false) ∧ (h'[rid]!).origPos = q ∧ ∀ r : Nat, r < h.size → h'[r]! = h[r]!))

theorem splitRecord_effect {h h' : Heap} {b b' : Batch} {i : Nat} {recs : List Rec} {rs : List (Option Nat)}
    (hwf : b.WF h) (hruns : b.runs = some rs) (hrec : 1 ≤ recs.length)
    (hr : b.splitRecord h i recs = .ok (h', b')) : SplitEff h b recs.length h' b' := by
  have hin := splitRecord_inrange hwf hr
  have hphys := phys_ok hwf.2 hin
  have h2 : (actList b.st)[i] < b.st.length := actList_lt hin
  have hs : b.splittableAt ((actList b.st)[i]'hin) = true := by
    cases hsp : b.splittableAt ((actList b.st)[i]'hin) with
    | true => rfl
    | false =>
      obtain ⟨m, hm⟩ := splitRecord_panics_of_not_splittable hwf hin (recs := recs) hsp
      rw [hm] at hr; cases hr
  obtain ⟨h'', b'', e1, hwf', _, _, hst', _⟩ := splitRecord_ok hwf hin hs hrec
  rw [e1] at hr
  have e2 : h'' = h' ∧ b'' = b' := by cases hr; exact ⟨rfl, rfl⟩
  obtain ⟨rfl, rfl⟩ := e2
  have hne' : NE b.st → NE b''.st := by
    intro hne
    rw [hst']
    intro x hx
    simp only [List.mem_append, List.mem_replicate] at hx
    rcases hx with (hx | hx) | hx
    · exact hne x (List.mem_of_mem_take hx)
    · rw [hx.2]; intro hf; cases hf
    · exact hne x (List.mem_of_mem_drop hx)
  clear hst'
  generalize (actList b.st)[i] = p at hphys h2 hs
  have h1 : p < b.recs.length := by rw [← hwf.1.st_len]; exact h2
  have h3 : p < b.pos.length := by rw [hwf.1.pos_len]; exact h1
  have hro := hwf.1.runs_ok
  rw [hruns] at hro
  have hrl : rs.length = b.pos.length := by rw [hro.1, hwf.1.pos_len]
  have hp : p < rs.length := by omega
  have hdec := view_decomp b rs hruns hrl p hp
  cases hrp : rs[p] with
  | some rid =>
    have e3 := splitRecord_existing (h := h) (recs := recs) hphys h1 h2 h3 hruns
      (by rw [List.getElem?_eq_getElem hp, hrp])
    rw [e3] at e1
    have e4 : h'' = (splitTail h b p rid recs).1 ∧ b'' = (splitTail h b p rid recs).2 := by
      cases e1; exact ⟨rfl, rfl⟩
    obtain ⟨rfl, rfl⟩ := e4
    have hview := splitTail_view h b p rid recs rs hruns hrl hp
    rw [hrp] at hview hdec
    have hridlt : rid < h.size := by
      have := hro.2 (some rid) (by rw [← hrp]; exact List.getElem_mem _)
      simpa [runIdOK] using this
    have hheap : (splitTail h b p rid recs).1 = h.set! rid { (h[rid]!) with total := (h[rid]!).total + recs.length - 1 } := rfl
    have hget : (splitTail h b p rid recs).1[rid]! = { (h[rid]!) with total := (h[rid]!).total + (recs.length - 1) } := by
      rw [hheap, heap_set!_get _ _ _ hridlt]
      have : (h[rid]!).total + recs.length - 1 = (h[rid]!).total + (recs.length - 1) := by omega
      rw [this]
    have hoth : ∀ r : Nat, r ≠ rid → (splitTail h b p rid recs).1[r]! = h[r]! := by
      intro r hne; rw [hheap, heap_set!_other _ _ _ _ (Ne.symm hne)]
    have hsz : (splitTail h b p rid recs).1.size = h.size := by rw [hheap, heap_set!_size]
    exact ⟨hwf', ⟨_, rfl⟩, hne', _, _, _, _, rid, hdec, hview, Or.inl ⟨rfl, hridlt, hsz, hget, hoth⟩⟩
  | none =>
    have hpos : b.pos[p]? ≠ some none := by
      have hra : b.runAt p = none := by
        unfold Batch.runAt; rw [hruns]; dsimp only; rw [List.getElem?_eq_getElem hp, hrp]; rfl
      simpa [Batch.splittableAt, hra] using hs
    have e3 := splitRecord_new (h := h) (recs := recs) hphys h1 h2 h3
      (fun rs' hrs' => by
        rw [hruns] at hrs'; cases hrs'
        exact ⟨hro.1, by rw [List.getElem?_eq_getElem hp, hrp]⟩) hpos
    rw [e3] at e1
    have e4 : h'' = (splitTail (h.push (newRun b p)) (withNewRun b p h.size) p h.size recs).1 ∧
        b'' = (splitTail (h.push (newRun b p)) (withNewRun b p h.size) p h.size recs).2 := by
      cases e1; exact ⟨rfl, rfl⟩
    obtain ⟨rfl, rfl⟩ := e4
    have hwr : (withNewRun b p h.size).runs = some (rs.set p (some h.size)) := by
      unfold withNewRun; simp [hruns]
    have hwp : (withNewRun b p h.size).pos = b.pos := rfl
    have hview := splitTail_view (h.push (newRun b p)) (withNewRun b p h.size) p h.size recs (rs.set p (some h.size))
      hwr (by rw [List.length_set, hwp]; exact hrl) (by rw [List.length_set]; exact hp)
    have hwv := withNewRun_view b p h.size rs hruns hrl hp
    have hlenA : (b.view.take p).length = p := by simp [Batch.view, hruns]; omega
    obtain ⟨hA, hB⟩ := take_drop_decomp (b.view.take p) (b.view.drop (p+1)) ((some h.size, b.pos[p]) : Piece) p hlenA
    rw [hwv, hA, hB] at hview
    have hse : (rs.set p (some h.size))[p]'(by rw [List.length_set]; exact hp) = some h.size := by simp
    rw [hse] at hview
    have hview : (splitTail (h.push (newRun b p)) (withNewRun b p h.size) p h.size recs).2.view =
        b.view.take p ++ ((some h.size, b.pos[p]) : Piece) ::
          (List.replicate (recs.length - 1) ((some h.size, none) : Piece) ++ b.view.drop (p+1)) := hview
    rw [hrp] at hdec
    generalize hH : (splitTail (h.push (newRun b p)) (withNewRun b p h.size) p h.size recs).1 = H at *
    have hHdef : H = (h.push (newRun b p)).set! h.size
        { ((h.push (newRun b p))[h.size]!) with total := ((h.push (newRun b p))[h.size]!).total + recs.length - 1 } := by
      rw [← hH]; rfl
    have hpsz : (h.push (newRun b p)).size = h.size + 1 := by simp
    have hpg : (h.push (newRun b p))[h.size]! = newRun b p := push_get_size h _
    have hHsz : H.size = h.size + 1 := by rw [hHdef, heap_set!_size, hpsz]
    have hHnew : H[h.size]! = { newRun b p with total := (newRun b p).total + recs.length - 1 } := by
      rw [hHdef, heap_set!_get _ _ _ (by omega), hpg]
    have hHold : ∀ r : Nat, r < h.size → H[r]! = h[r]! := by
      intro r hr
      rw [hHdef, heap_set!_other _ _ _ _ (by omega), push_get_lt h _ hr]
    have hnewf : (H[h.size]!).released = false ∧ (H[h.size]!).terminal = 0 ∧
        (H[h.size]!).total = (recs.length - 1) + 1 ∧ (H[h.size]!).nacked = false := by
      rw [hHnew]
      refine ⟨rfl, rfl, ?_, rfl⟩
      show (newRun b p).total + recs.length - 1 = _
      simp only [newRun]; omega
    have hnewo : (H[h.size]!).origPos = b.pos[p] := by
      rw [hHnew]; show (newRun b p).origPos = _
      simp [newRun, List.getElem?_eq_getElem h3]
    have hq : b.pos[p] ≠ none := by
      intro he; apply hpos; rw [List.getElem?_eq_getElem h3, he]
    exact ⟨hwf', ⟨_, rfl⟩, hne', _, _, _, _, h.size, hdec, hview, Or.inr ⟨rfl, hq, rfl, hHsz, hnewf, hnewo, hHold⟩⟩




namespace Steps
variable {Rl : PS → PS → Prop} (po : PreOrd Rl)
include po

theorem liftR' {α β} {J : β → PS → Prop} {Pre : PS → Prop} (r : R α) (k : α → β)
    (h : ∀ a s, r = .ok a → Pre s → J (k a) s) :
    Steps Rl J Pre (do let a ← Conduit.Funnel.liftR r; Pure.pure (k a) : M β) :=
  Steps.bind po (Steps.liftR po r (J := fun a s => r = .ok a ∧ Pre s) (fun _ _ e hs => ⟨e, hs⟩))
    (fun a => Steps.pure po _ (fun s hs => h a s hs.1 hs.2))

theorem heapOp {α β} {J : β → PS → Prop} {Pre : PS → Prop} (g : Heap → R (Heap × α)) (k : α → β)
    (h : ∀ s x, Pre s → g s.heap = .ok x → Rl s { s with heap := x.1 } ∧ J (k x.2) { s with heap := x.1 }) :
    Steps Rl J Pre (do let s ← get
                       let x ← Conduit.Funnel.liftR (g s.heap)
                       set { s with heap := x.1 }
                       Pure.pure (k x.2) : M β) := by
  intro s hs
  rw [exec_bind, exec_get]
  dsimp only
  rw [exec_bind]
  cases hg : g s.heap with
  | error e => rw [exec_liftR_err]; exact ⟨po.refl s, fun a e => by cases e⟩
  | ok x =>
    rw [exec_liftR_ok]
    dsimp only
    rw [exec_bind, exec_set]
    dsimp only
    rw [exec_pure]
    obtain ⟨h1, h2⟩ := h s x hs hg
    exact ⟨h1, fun a e => by cases e; exact h2⟩

omit po in
theorem ite {α} {J : α → PS → Prop} {Pre : PS → Prop} (c : Prop) [Decidable c] {m1 m2 : M α}
    (h1 : Steps Rl J Pre m1) (h2 : Steps Rl J Pre m2) : Steps Rl J Pre (if c then m1 else m2) := by
  by_cases hc : c
  · simp only [hc, if_true]; exact h1
  · simp only [hc, if_false]; exact h2

end Steps

/-! ## the frame relation -/

/-- run `rid` existed before and has no piece in the batch -/
def Stray (h0 : Heap) (b0 : Batch) (rid : Nat) : Prop := rid < h0.size ∧ cnt rid b0.view = 0

/-- the heap only grows and stray runs are untouched -/
def FrameR (h0 : Heap) (b0 : Batch) (s s' : PS) : Prop :=
  s.heap.size ≤ s'.heap.size ∧ ∀ rid : Nat, Stray h0 b0 rid → s'.heap[rid]! = s.heap[rid]!

/-- the batch value is well-formed in the current heap and holds no stray run -/
def FJ (h0 : Heap) (b0 : Batch) (b : Batch) (s : PS) : Prop :=
  h0.size ≤ s.heap.size ∧ b.WF s.heap ∧ (∃ rs, b.runs = some rs) ∧ ∀ rid : Nat, Stray h0 b0 rid → cnt rid b.view = 0

theorem FrameR.po (h0 : Heap) (b0 : Batch) : PreOrd (FrameR h0 b0) :=
  ⟨fun _ => ⟨Nat.le_refl _, fun _ _ => rfl⟩,
   fun _ _ _ h1 h2 => ⟨Nat.le_trans h1.1 h2.1, fun rid hr => (h2.2 rid hr).trans (h1.2 rid hr)⟩⟩

theorem FJ.of_fr {h0 : Heap} {b0 b b' : Batch} {s : PS} (hj : FJ h0 b0 b s) (hf : Fr b b') (hwf : b'.WF s.heap) :
    FJ h0 b0 b' s := by
  have hv : b'.view = b.view := by unfold Batch.view; rw [hf.runs, hf.pos]
  exact ⟨hj.1, hwf, by rw [hf.runs]; exact hj.2.2.1, by rw [hv]; exact hj.2.2.2⟩

theorem FJ.split {h0 : Heap} {b0 b b' : Batch} {s : PS} {h' : Heap} {i : Nat} {recs : List Rec}
    (hj : FJ h0 b0 b s) (hrec : 1 ≤ recs.length) (hr : b.splitRecord s.heap i recs = .ok (h', b')) :
    FrameR h0 b0 s { s with heap := h' } ∧ FJ h0 b0 b' { s with heap := h' } := by
  obtain ⟨rs, hruns⟩ := hj.2.2.1
  obtain ⟨w1, w2, _, A, B, ro, q, rid, hv, hv', hcase⟩ := splitRecord_effect hj.2.1 hruns hrec hr
  have hnot : ¬ Stray h0 b0 rid := by
    intro hst
    rcases hcase with ⟨hro, _⟩ | ⟨_, _, hrid, _⟩
    · have := hj.2.2.2 rid hst
      rw [hv, hro] at this
      simp only [cnt_append, cnt_cons_some] at this
      simp at this
    · have := hst.1; have := hj.1; omega
  have hcnt : ∀ r : Nat, r ≠ rid → cnt r b'.view = cnt r b.view := by
    intro r hne
    rw [hv, hv']
    have hne' : ¬ rid = r := fun h => hne h.symm
    rcases hcase with ⟨hro, _⟩ | ⟨hro, _⟩ <;> rw [hro] <;>
      simp only [cnt_append, cnt_cons_some, cnt_cons_none, cnt_replicate_other r rid _ hne, hne', if_false] <;> omega
  have hsz : s.heap.size ≤ h'.size := by
    rcases hcase with ⟨_, _, h1, _⟩ | ⟨_, _, _, h1, _⟩ <;> omega
  have hold : ∀ r : Nat, Stray h0 b0 r → h'[r]! = s.heap[r]! := by
    intro r hst
    have hne : r ≠ rid := fun he => hnot (he ▸ hst)
    rcases hcase with ⟨_, _, _, _, h5⟩ | ⟨_, _, _, _, _, _, h7⟩
    · exact h5 r hne
    · exact h7 r (by have := hst.1; have := hj.1; omega)
  refine ⟨⟨hsz, hold⟩, Nat.le_trans hj.1 hsz, w1, w2, ?_⟩
  intro r hst
  have hne : r ≠ rid := fun he => hnot (he ▸ hst)
  rw [hcnt r hne]; exact hj.2.2.2 r hst


/-! ## `markBatchRecords`, `ProcessorTask.Do` -/
open Agree

theorem procMark_steps (h0 : Heap) (b0 : Batch) (b : Batch) (from_ : Nat) (records : List PR) :
    Steps (FrameR h0 b0) (FJ h0 b0) (FJ h0 b0 b) (procMark b from_ records) := by
  have po := FrameR.po h0 b0
  unfold procMark
  cases records with
  | nil => exact Steps.pure po b (fun _ h => h)
  | cons r tl =>
    cases r with
    | single r0 =>
      exact Steps.liftR po _ (fun a s e hj => hj.of_fr (setRecords_fr e) (C08_aligned_setRecords hj.2.1 e).1)
    | filter =>
      exact Steps.liftR po _ (fun a s e hj => hj.of_fr (filterRange_fr e) (C08_aligned_filterRange hj.2.1 e))
    | error e0 =>
      refine Steps.liftR po _ (fun a s e hj => hj.of_fr (nack_fr' ?_ e) (C08_aligned_nack hj.2.1 e))
      intro e' he'
      rw [List.mem_filterMap] at he'
      obtain ⟨pr, _, hpr⟩ := he'
      cases pr <;> simp at hpr
      rw [← hpr]; rfl
    | nil =>
      exact Steps.liftR po _ (fun a s e hj => hj.of_fr (retry_fr e) (C08_aligned_retry hj.2.1 e))
    | multi m =>
      dsimp only
      generalize (PR.multi m :: tl) = records
      refine Steps.bind po (Steps.forIn po _ ?_ _ _) (fun b => Steps.pure po b (fun _ h => h))
      intro i b
      cases hi : records[i]? with
      | none => exact Steps.pure po _ (fun _ h => h)
      | some r =>
        cases r with
        | multi m =>
          simp only []
          generalize hn : m.length = n
          rcases n with _ | _ | n <;> simp only []
          · exact Steps.liftR' po _ _ (fun a s e hj => hj.of_fr (filter1_fr e) (C08_aligned_filter1 hj.2.1 e))
          · exact Steps.liftR' po _ _ (fun a s e hj => hj.of_fr (setRecords_fr e) (C08_aligned_setRecords hj.2.1 e).1)
          · refine Steps.heapOp po (fun h => Batch.splitRecord h b (from_ + i) m) ForInStep.yield ?_
            intro s x hj hx
            obtain ⟨h', b'⟩ := x
            exact hj.split (by omega) hx
        | _ => exact Steps.pure po _ (fun _ h => h)

theorem procRest_steps (h0 : Heap) (b0 : Batch) (b : Batch) (out : List PR) :
    Steps (FrameR h0 b0) (FJ h0 b0) (FJ h0 b0 b) (procRest b out) := by
  have po := FrameR.po h0 b0
  unfold procRest
  dsimp only
  by_cases h0' : out.length = 0
  · simp only [h0', if_true, throw_bind_M]
    exact Steps.throw po _
  simp only [h0', if_false]
  by_cases h1 : out.length > b.active.length
  · simp only [h1, if_true, throw_bind_M]
    exact Steps.throw po _
  simp only [h1, if_false]
  generalize (if b.active.length > out.length then out ++ List.replicate (b.active.length - out.length) PR.nil
    else out) = out'
  refine Steps.bind po (Steps.forIn po (J := fun _ s => FJ h0 b0 b s) _ ?_ _ _)
    (fun _ => Steps.bind po (Steps.forIn po (J := fun (bt : Batch × Nat) s => FJ h0 b0 bt.1 s) _ ?_ _ (b, out'.length))
      (fun s => Steps.pure po s.1 (fun _ h => h)))
  · intro i u
    cases hi : out[i]? with
    | none => exact Steps.pure po _ (fun _ h => h)
    | some r =>
      cases r with
      | multi m =>
        simp only []
        by_cases hm : m.length > 1
        · simp only [hm, if_true]
          exact Steps.bind po (Steps.liftR po _ (J := fun _ s => FJ h0 b0 b s) (fun _ _ _ h => h))
            (fun p => Steps.bind po (Steps.liftR po _ (J := fun _ s => FJ h0 b0 b s) (fun _ _ _ h => h))
              (fun ps => Steps.ite _ (Steps.throw po _) (Steps.pure po _ (fun _ h => h))))
        · simp only [hm, if_false]
          exact Steps.pure po _ (fun _ h => h)
      | _ => exact Steps.pure po _ (fun _ h => h)
  · intro i bt
    obtain ⟨b1, to⟩ := bt
    dsimp only
    by_cases hb : (i == 0 || !sameType (out'[i - 1]?.getD PR.nil) (out'[i]?.getD PR.nil)) = true
    · simp only [hb, if_true]
      exact Steps.bind po (procMark_steps h0 b0 b1 _ _) (fun b' => Steps.pure po _ (fun _ h => h))
    · simp only [hb]
      exact Steps.pure po _ (fun _ h => h)

/-- `ProcessorTask.Do`, whatever it returns: the heap only grows and the runs that have no piece
in the batch are untouched. -/
theorem procDo_frame (task : Nat) (b : Batch) (s s' : PS) (r : Except Stop Batch) (hwf : b.WF s.heap)
    (hruns : ∃ rs, b.runs = some rs) (h : exec (procDo task b) s = (r, s')) :
    s.heap.size ≤ s'.heap.size ∧ ∀ rid : Nat, rid < s.heap.size → cnt rid b.view = 0 → s'.heap[rid]! = s.heap[rid]! := by
  rw [procDo_eq_rest, exec_bind] at h
  have he : exec (emit (.pcall task b.active)) s = (.ok ⟨⟩, { s with log := s.log.push (.pcall task b.active) }) := rfl
  rw [he] at h
  dsimp only at h
  rw [exec_bind] at h
  generalize hs0 : ({ s with log := s.log.push (.pcall task b.active) } : PS) = s0 at h
  have hp : exec (popReply task) s0 = (.ok (popReplyP s0 task).1, (popReplyP s0 task).2) := popReply_run task s0
  rw [hp] at h
  dsimp only at h
  have hh1 : (popReplyP s0 task).2.heap = s.heap := by rw [popReplyP_heap', ← hs0]
  generalize (popReplyP s0 task).1 = o at h
  generalize (popReplyP s0 task).2 = s1 at h hh1
  have hj : FJ s.heap b b s1 := ⟨by rw [hh1]; exact Nat.le_refl _, by rw [hh1]; exact hwf, hruns, fun _ hst => hst.2⟩
  have := (procRest_steps s.heap b b (procOut o) s1 hj).1
  rw [h] at this
  obtain ⟨f1, f2⟩ := this
  dsimp only at f1 f2
  rw [hh1] at f1 f2
  exact ⟨f1, fun rid hlt hc => f2 rid ⟨hlt, hc⟩⟩

/-- every task, whatever it returns: heap frame. -/
theorem taskDo_frame (node : TaskNode) (b : Batch) (s s' : PS) (r : Except Stop Batch) (hwf : b.WF s.heap)
    (hruns : ∃ rs, b.runs = some rs) (h : exec (taskDo node b) s = (r, s')) :
    s.heap.size ≤ s'.heap.size ∧ ∀ rid : Nat, rid < s.heap.size → cnt rid b.view = 0 → s'.heap[rid]! = s.heap[rid]! := by
  unfold taskDo at h
  split at h
  · exact procDo_frame _ b s s' r hwf hruns h
  · have hq := (destDo_quiet s node.id b none s (Qh.refl s)).1
    rw [h] at hq
    have hh : s'.heap = s.heap := hq.heap
    rw [hh]
    exact ⟨Nat.le_refl _, fun _ _ _ => rfl⟩
  · cases h
    exact ⟨Nat.le_refl _, fun _ _ _ => rfl⟩


end Conduit.Funnel
