import ConduitModel.Proofs.PassSFrame

/-!
# The task recursion on batches with split runs (pipelines without fan-out)

`doTaskAttempt` / `taintedLoop` / `doNextTask` with handler `.run p`: the parent `p` is given the
forwarded keys `fk` of the batch's pieces, in order; when the task returns without error all of
them, and the ledger accounts for exactly the pieces outside the batch.
-/
namespace Conduit.Funnel

/-! ## results -/

/-- outcome of processing the pieces `l`: what was forwarded is a part of `fk l`; the heap only
grew and runs without a piece in `l` are untouched (also on failure); on success the full `VRes`. -/
structure PRes {p : Acker} (C : Contract p) (rest : Nat → Nat) (l : List Piece) (s s' : PS)
    (r : Except Stop Unit) : Prop where
  part : C.Partial (fk s.heap rest l) s s'
  hsize : s.heap.size ≤ s'.heap.size
  hframe : ∀ rid : Nat, rid < s.heap.size → cnt rid l = 0 → s'.heap[rid]! = s.heap[rid]!
  ok : r = .ok () → VRes C rest l s s' r

theorem VRes.pres {p : Acker} {C : Contract p} {rest : Nat → Nat} {l : List Piece} {s s' : PS}
    {r : Except Stop Unit} (h : VRes C rest l s s' r) : PRes C rest l s s' r :=
  ⟨h.part, h.hsize, h.hframe, fun _ => h⟩

theorem PRes.stay {p : Acker} {C : Contract p} {rest : Nat → Nat} {l : List Piece} {s : PS} {e : Stop}
    (hv : C.Valid s) : PRes C rest l s s (.error e) := (VRes.stay hv).pres

theorem PRes.fail_quiet {p : Acker} {C : Contract p} {rest : Nat → Nat} {l : List Piece} {s s' : PS} {e : Stop}
    (hv : C.Valid s) (hq : Q s s') (h1 : s.heap.size ≤ s'.heap.size)
    (h2 : ∀ rid : Nat, rid < s.heap.size → cnt rid l = 0 → s'.heap[rid]! = s.heap[rid]!) :
    PRes C rest l s s' (.error e) :=
  ⟨C.quiet_partial hv hq _, h1, h2, fun h => nomatch h⟩

theorem PRes.seq {p : Acker} {C : Contract p} {rest : Nat → Nat} {l1 l2 : List Piece} {s s1 s2 : PS}
    {r : Except Stop Unit} (h1 : VRes C (fun x => rest x + cnt x l2) l1 s s1 (.ok ()))
    (h2 : PRes C rest l2 s1 s2 r) (hl : ∀ rid : Nat, 0 < cnt rid (l1 ++ l2) → rid < s.heap.size) :
    PRes C rest (l1 ++ l2) s s2 r := by
  have hfk : fk s1.heap rest l2 = fk s.heap rest l2 :=
    fk_congr _ _ _ _ (fun r hr => h1.horig r (hl r (by rw [cnt_append]; omega)))
  refine ⟨?_, Nat.le_trans h1.hsize h2.hsize, ?_, fun hr => h1.seq (h2.ok hr) hl⟩
  · rw [fk_append]
    have := h2.part
    rw [hfk] at this
    exact C.done_partial_trans (h1.ok rfl).1 this
  · intro rid hlt hc
    rw [cnt_append] at hc
    rw [h2.hframe rid (Nat.lt_of_lt_of_le hlt h1.hsize) (by omega), h1.hframe rid hlt (by omega)]

theorem PRes.fail_left {p : Acker} {C : Contract p} {rest : Nat → Nat} {l1 l2 : List Piece} {s s1 : PS}
    {e e' : Stop} (h1 : PRes C (fun x => rest x + cnt x l2) l1 s s1 (.error e)) :
    PRes C rest (l1 ++ l2) s s1 (.error e') := by
  refine ⟨?_, h1.hsize, fun rid hlt hc => h1.hframe rid hlt (by rw [cnt_append] at hc; omega), fun h => nomatch h⟩
  rw [fk_append]
  exact C.partial_mono _ h1.part

/-- sequencing: `X` handles the pieces `l1`, the continuation the pieces `l2`. -/
theorem pres_bind {p : Acker} {C : Contract p} {X : M Unit} {K : Unit → M Unit} {rest : Nat → Nat}
    {l1 l2 : List Piece} {s s' : PS} {r : Except Stop Unit}
    (hX : ∀ r1 s1, exec X s = (r1, s1) → PRes C (fun x => rest x + cnt x l2) l1 s s1 r1)
    (hK : ∀ s1 r2 s2, VRes C (fun x => rest x + cnt x l2) l1 s s1 (.ok ()) → exec (K ()) s1 = (r2, s2) →
      PRes C rest l2 s1 s2 r2)
    (hl : ∀ rid : Nat, 0 < cnt rid (l1 ++ l2) → rid < s.heap.size)
    (h : exec (X >>= K) s = (r, s')) : PRes C rest (l1 ++ l2) s s' r := by
  rw [exec_bind] at h
  rcases hx : exec X s with ⟨r1, s1⟩
  rw [hx] at h
  have h1 := hX r1 s1 hx
  cases r1 with
  | error e => dsimp only at h; cases h; exact h1.fail_left
  | ok u =>
    dsimp only at h
    have hv1 := h1.ok rfl
    exact PRes.seq hv1 (hK s1 r s' hv1 h) hl

/-- a task step in front: the task is quiet, keeps accounting and forwarded keys -/
theorem PRes.pre_task {p : Acker} {C : Contract p} {rest : Nat → Nat} {b b1 : Batch} {s s1 s2 : PS}
    {r : Except Stop Unit} (hv : C.Valid s) (hq : Q s s1) (hs : SStep s.heap b s1.heap b1 rest)
    (h : PRes C rest b1.view s1 s2 r) : PRes C rest b.view s s2 r := by
  have hd := C.quiet_done hv (hq.quiet C.top)
  have hp : C.Partial (fk s.heap rest b.view) s s2 := by
    have := C.done_partial_trans hd h.part
    rw [hs.fkeq] at this
    simpa using this
  have hfr : ∀ rid : Nat, rid < s.heap.size → cnt rid b.view = 0 → s2.heap[rid]! = s.heap[rid]! := by
    intro rid hlt hc
    obtain ⟨a1, a2⟩ := hs.hframe rid hlt hc
    rw [h.hframe rid (Nat.lt_of_lt_of_le hlt hs.hsize) a2, a1]
  refine ⟨hp, Nat.le_trans hs.hsize h.hsize, hfr, fun hr => ?_⟩
  have hv2 := h.ok hr
  refine ⟨hp, Nat.le_trans hs.hsize hv2.hsize, hfr, ?_, fun hr' => ⟨?_, ?_⟩⟩
  · intro rid hlt
    rw [hv2.horig rid (Nat.lt_of_lt_of_le hlt hs.hsize), hs.horig rid hlt]
  · have := C.done_done hd (hv2.ok hr').1
    rw [hs.fkeq] at this
    simpa using this
  · intro rid hc hrest
    exact (hv2.ok hr').2 rid (Nat.lt_of_lt_of_le hc (hs.mono rid)) hrest

/-! ## the ledger invariant of batches and sub-batches -/


/-- the static facts `vote` needs, from the ledger invariant -/
theorem SInv.vb {h : Heap} {rest : Nat → Nat} {b : Batch} (hi : SInv h rest b) : ∃ rs, VB b rs := by
  obtain ⟨rs, hruns⟩ := hi.runs
  have hro := hi.wf.1.runs_ok
  rw [hruns] at hro
  refine ⟨rs, hruns, hro.1, hi.wf.1.st_len, hi.wf.1.pos_len, ?_⟩
  intro k hk hp
  have hv : b.view = rs.zip b.pos := by unfold Batch.view; rw [hruns]; rfl
  have hmem : ((none, none) : Piece) ∈ b.view := by
    rw [hv]
    exact List.mem_of_getElem? (List.getElem?_zip_eq_some.mpr ⟨hk, hp⟩)
  exact hi.nopos _ hmem rfl rfl

/-- run ids of a well-formed batch are allocated -/
theorem cnt_zero_of_ge {h : Heap} {b : Batch} (hwf : b.WF h) {r : Nat} (hr : h.size ≤ r) : cnt r b.view = 0 := by
  unfold cnt
  rw [List.countP_eq_zero]
  intro x hx hx1
  have hro := hwf.1.runs_ok
  unfold Batch.view at hx
  cases hb : b.runs with
  | none => rw [hb] at hx; simp at hx
  | some rs =>
    rw [hb] at hx hro
    simp only [Option.getD_some] at hx
    have hx1' : x.1 = some r := by simpa using hx1
    have := hro.2 x.1 (List.of_mem_zip hx).1
    rw [hx1'] at this
    simp [runIdOK] at this
    omega

theorem cnt_drop_le (r : Nat) (l : List Piece) (j : Nat) : cnt r (l.drop j) ≤ cnt r l := by
  conv => rhs; rw [← List.take_append_drop j l]
  rw [cnt_append]; omega

/-- `vote` on a whole batch -/
theorem run_call_spec {p : Acker} (C : Contract p) (b : Batch) (isAck : Bool) (task : Nat)
    (hn : isAck = false → NackOK b) (rest : Nat → Nat) (fuel : Nat) (s s' : PS) (r : Except Stop Unit)
    (hv : C.Valid s) (hi : SInv s.heap rest b)
    (h : exec (ackerCall fuel (.run p) b isAck task) s = (r, s')) : VRes C rest b.view s s' r := by
  obtain ⟨rs, hvb⟩ := hi.vb
  cases fuel with
  | zero => rw [ackerCall] at h; cases h; exact VRes.stay hv
  | succ fuel =>
    rw [ackerCall_run] at h
    have := vote_spec C b rs hvb isAck task hn rest fuel 0 s s' r hv (by simpa using hi.acc) h
    simpa using this

/-- the loop invariant of the tainted loop at index `i` -/
structure TInv (h : Heap) (rest : Nat → Nat) (b : Batch) (i : Nat) : Prop where
  wf : b.WF h
  ne : NE b.st
  runs : ∃ rs, b.runs = some rs
  nopos : ∀ x ∈ b.view, x.1 = none → x.2 ≠ none
  acc : Acc h rest (b.view.drop i)
  restok : ∀ r : Nat, h.size ≤ r → rest r = 0
  shape : ∃ (prev : Option Nat) (seen : List Nat), ShapeFrom h prev seen b.view ∧
    (∀ r : Nat, prev = some r → r ∈ seen) ∧ (∀ r ∈ seen, r < h.size)
  headless : ∀ (r : Nat) (t : List Piece), b.view.drop i = (some r, none) :: t → 0 < (h[r]!).terminal

theorem SInv.tinv {h : Heap} {rest : Nat → Nat} {b : Batch} (hi : SInv h rest b) : TInv h rest b 0 :=
  ⟨hi.wf, hi.ne, hi.runs, hi.nopos, by simpa using hi.acc, hi.restok, hi.shape, by simpa using hi.headless⟩

/-- the sub-batch `[i, j)` of the tainted loop -/
theorem sub_SInv {h : Heap} {rest : Nat → Nat} {b sb : Batch} {i j : Nat} (ht : TInv h rest b i)
    (hs : b.sub i j = .ok sb) :
    sb.view = (b.view.drop i).take (j - i) ∧
    SInv h (fun x => rest x + cnt x (b.view.drop j)) sb := by
  obtain ⟨h1, h2, _, _, _, f2, f3, f4, _, _⟩ := sub_ok_fields hs
  obtain ⟨rs, hruns⟩ := ht.runs
  have hwf' := C08_aligned_sub ht.wf hs
  have hv : b.view = rs.zip b.pos := by unfold Batch.view; rw [hruns]; rfl
  have hsv : sb.view = (b.view.drop i).take (j - i) := by
    unfold Batch.view
    rw [f4, f3, hruns]
    simp only [Option.map_some, Option.getD_some]
    rw [← drop_zip', ← take_zip', List.drop_take]
  have hdec : b.view = b.view.take i ++ (sb.view ++ b.view.drop j) := by
    conv => lhs; rw [← List.take_append_drop i b.view, drop_split b.view (i := i) (j := j) h1, ← hsv]
  refine ⟨hsv, hwf', ?_, ⟨_, by rw [f4, hruns]; rfl⟩, ?_, ?_, ?_, ?_, ?_⟩
  · intro x hx
    rw [f2] at hx
    exact ht.ne x ((List.take_sublist j b.st).subset ((List.drop_sublist i _).subset hx))
  · intro x hx
    rw [hsv] at hx
    exact ht.nopos x ((List.drop_sublist i _).subset ((List.take_sublist _ _).subset hx))
  · rw [hsv]
    have := ht.acc
    rw [drop_split b.view (i := i) (j := j) h1] at this
    exact this.left
  · intro r hr
    show rest r + cnt r (b.view.drop j) = 0
    rw [ht.restok r hr]
    have := cnt_zero_of_ge ht.wf hr
    have := cnt_drop_le r b.view j
    omega
  · obtain ⟨prev, seen, hsh, hp1, hp2⟩ := ht.shape
    rw [hdec, shape_append] at hsh
    obtain ⟨hA, hrest⟩ := hsh
    rw [shape_append] at hrest
    refine ⟨_, _, hrest.1, lastRun_mem h _ prev seen hA hp1, ?_⟩
    intro r hr
    rcases seenAfter_mem _ seen r hr with h3 | h3
    · exact hp2 r h3
    · apply Classical.byContradiction
      intro hge
      have := cnt_zero_of_ge ht.wf (by omega : h.size ≤ r)
      rw [hdec, cnt_append] at this
      omega
  · intro r t hst
    refine ht.headless r (t ++ b.view.drop j) ?_
    rw [drop_split b.view (i := i) (j := j) h1, ← hsv, hst]; rfl


/-! ## the specifications -/

def SPipe (Good : TaskNode → Prop) (fuel : Nat) : Prop :=
  ∀ (p : Acker) (C : Contract p) (node : TaskNode) (b : Batch) (retry : Option RetryAttempt) (skipDo : Bool)
    (s s' : PS) (r : Except Stop Unit) (rest : Nat → Nat), Good node → C.Valid s → SInv s.heap rest b →
    exec (doTaskAttempt fuel node b (.run p) retry skipDo) s = (r, s') → PRes C rest b.view s s' r

def SNext (Good : TaskNode → Prop) (fuel : Nat) : Prop :=
  ∀ (p : Acker) (C : Contract p) (node : TaskNode) (b : Batch) (s s' : PS) (r : Except Stop Unit)
    (rest : Nat → Nat), Good node → node.next ≠ [] → C.Valid s → SInv s.heap rest b →
    exec (doNextTask fuel node b (.run p)) s = (r, s') → PRes C rest b.view s s' r

def STaint (Good : TaskNode → Prop) (fuel : Nat) : Prop :=
  ∀ (p : Acker) (C : Contract p) (node : TaskNode) (b : Batch) (retry : Option RetryAttempt) (i : Nat)
    (s s' : PS) (r : Except Stop Unit) (rest : Nat → Nat), Good node → C.Valid s → TInv s.heap rest b i →
    exec (taintedLoop fuel node b (.run p) retry i) s = (r, s') → PRes C rest (b.view.drop i) s s' r

/-- `doNextTask` on a node with at least two next tasks (fan-out) -/
def SFan (Good : TaskNode → Prop) (fuel : Nat) : Prop :=
  ∀ (p : Acker) (C : Contract p) (node : TaskNode) (b : Batch) (s s' : PS) (r : Except Stop Unit)
    (rest : Nat → Nat), Good node → 2 ≤ node.next.length → C.Valid s → SInv s.heap rest b →
    exec (doNextTask fuel node b (.run p)) s = (r, s') → PRes C rest b.view s s' r

theorem sdta_step (Good : TaskNode → Prop) (fuel : Nat) (hN : SNext Good fuel) (hT : STaint Good fuel) :
    SPipe Good (fuel+1) := by
  intro p C node b retry skipDo s s' r rest hg hv hi h
  rw [doTaskAttempt] at h
  have hF : ∀ (b1 : Batch) (s1 s2 : PS) (r : Except Stop Unit), SInv s1.heap rest b1 → C.Valid s1 →
      exec (if (!b1.tainted) = true then
              if (node.next.isEmpty || !b1.hasActive) = true then ackerCall fuel (.run p) b1 true 0
              else doNextTask fuel node b1 (.run p)
            else taintedLoop fuel node b1 (.run p) retry 0) s1 = (r, s2) → PRes C rest b1.view s1 s2 r := by
    intro b1 s1 s2 r hi1 hv1 h
    by_cases ht : (!b1.tainted) = true
    · simp only [ht, if_true] at h
      by_cases hc : (node.next.isEmpty || !b1.hasActive) = true
      · simp only [hc, if_true] at h
        exact (run_call_spec C b1 true 0 (fun h => nomatch h) rest fuel s1 s2 r hv1 hi1 h).pres
      · simp only [hc] at h
        have hne : node.next ≠ [] := by
          intro he; apply hc; rw [he]; rfl
        exact hN p C node b1 s1 s2 r rest hg hne hv1 hi1 h
    · simp only [ht] at h
      have := hT p C node b1 retry 0 s1 s2 r rest hg hv1 hi1.tinv h
      simpa using this
  cases skipDo with
  | true =>
    simp only [if_true] at h
    rw [exec_bind, exec_pure] at h
    exact hF b s s' r hi hv h
  | false =>
    simp only [Bool.false_eq_true, if_false] at h
    rw [exec_bind, exec_tryCatch] at h
    rcases ht : exec (taskDo node b) s with ⟨r1, s1⟩
    obtain ⟨hq, hb1⟩ := taskDo_sspec node b s s1 r1 rest hi ht
    rw [ht] at h
    cases r1 with
    | error e =>
      dsimp only at h
      obtain ⟨f1, f2⟩ := taskDo_frame node b s s1 _ hi.wf hi.runs ht
      cases e <;> simp only [exec_throw] at h <;> cases h <;> exact PRes.fail_quiet hv hq f1 f2
    | ok b1 =>
      dsimp only at h
      have hs := hb1 b1 rfl
      exact (hF b1 s1 s' r hs.inv (C.quiet_valid hv hq) h).pre_task hv hq hs

theorem staint_step (Good : TaskNode → Prop) (fuel : Nat) (hP : SPipe Good fuel) (hN : SNext Good fuel)
    (hT : STaint Good fuel) : STaint Good (fuel+1) := by
  intro p C node b retry i s s' r rest hg hv ht h
  rw [taintedLoop] at h
  obtain ⟨rs, hruns⟩ := ht.runs
  have hro := ht.wf.1.runs_ok
  rw [hruns] at hro
  have hvl : b.view.length = b.st.length := by
    unfold Batch.view; rw [hruns]; simp [hro.1, ht.wf.1.pos_len, ht.wf.1.st_len]
  by_cases hi : i ≥ b.st.length
  · simp only [hi, if_true, exec_pure] at h
    cases h
    have : b.view.drop i = [] := List.drop_of_length_le (by omega)
    rw [this]
    exact (VRes.nil_ok hv).pres
  · simp only [hi, if_false] at h
    have hlt : i < b.st.length := by omega
    have hg1 := groupEnd_gt b.st i hlt
    have hg2 := groupEnd_le b.st i (by omega)
    rw [exec_bind] at h
    rcases hs : b.sub i (groupEnd b.st i) with e | sb
    · rw [hs, exec_liftR_err] at h
      cases h
      exact PRes.stay hv
    · rw [hs, exec_liftR_ok] at h
      dsimp only at h
      obtain ⟨hsv, hsi⟩ := sub_SInv ht hs
      obtain ⟨_, _, _, _, _, hss, hsp, _⟩ := sub_ok_fields hs
      rw [exec_bind] at h
      rcases h0 : idx sb.st 0 "subBatch.recordStatuses[0]" with e | s0
      · rw [h0, exec_liftR_err] at h
        cases h
        exact PRes.stay hv
      · rw [h0, exec_liftR_ok] at h
        dsimp only at h
        have hspan : i + sb.pos.length = groupEnd b.st i := by
          rw [hsp]; simp [ht.wf.1.pos_len, ← ht.wf.1.st_len]; omega
        rw [hspan] at h
        have hsplit := drop_split b.view (i := i) (j := groupEnd b.st i) (by omega)
        rw [← hsv] at hsplit
        have hl : ∀ rid : Nat, 0 < cnt rid (sb.view ++ b.view.drop (groupEnd b.st i)) → rid < s.heap.size := by
          intro rid hr; rw [← hsplit] at hr; exact (ht.acc rid hr).1
        have hacc := ht.acc
        rw [hsplit] at hacc ⊢
        have hK : ∀ s1 r2 s2, VRes C (fun x => rest x + cnt x (b.view.drop (groupEnd b.st i))) sb.view s s1 (.ok ()) →
            exec ((fun (_ : Unit) => taintedLoop fuel node b (.run p) retry (groupEnd b.st i)) ()) s1 = (r2, s2) →
            PRes C rest (b.view.drop (groupEnd b.st i)) s1 s2 r2 := by
          intro s1 r2 s2 hv1 hx
          have hvalid1 := C.partial_valid hv hv1.part
          have hids : ∀ r : Nat, 0 < cnt r b.view → r < s.heap.size := by
            intro r hr
            apply Classical.byContradiction
            intro hge
            have := cnt_zero_of_ge ht.wf (by omega : s.heap.size ≤ r)
            omega
          refine hT p C node b retry _ s1 s2 r2 rest hg hvalid1 ⟨ht.wf.mono_heap hv1.hsize, ht.ne, ht.runs, ht.nopos,
            hacc.right hv1, fun r hr => ht.restok r (Nat.le_trans hv1.hsize hr), ?_, ?_⟩ hx
          · obtain ⟨prev, seen, hsh, hp1, hp2⟩ := ht.shape
            exact ⟨prev, seen, shape_heap _ _ _ _ _ hsh (fun r hr => hv1.horig r (hids r hr)), hp1,
              fun r hr => Nat.lt_of_lt_of_le (hp2 r hr) hv1.hsize⟩
          · intro r t hst
            obtain ⟨prev, seen, hsh, _, _⟩ := ht.shape
            have hdec : b.view = b.view.take i ++ (sb.view ++ (some r, none) :: t) := by
              conv => lhs; rw [← List.take_append_drop i b.view, hsplit, hst]
            rw [hdec, shape_append] at hsh
            have hsbne : sb.view ≠ [] := by
              intro he
              have : sb.view.length = groupEnd b.st i - i := by
                rw [hsv, List.length_take, List.length_drop, hvl]; omega
              rw [he] at this; simp at this; omega
            have hc := shape_tail_prev _ _ _ _ _ _ hsh.2 hsbne
            have hr' : 0 < rest r + cnt r (b.view.drop (groupEnd b.st i)) := by
              rw [hst, cnt_cons_some, if_pos rfl]; omega
            exact ((hv1.ok rfl).2 r hc hr').2
        have hack : ∀ (s' : PS) (r : Except Stop Unit),
            exec (if (node.next.isEmpty || !sb.hasActive) = true then do
                    let __r ← ackerCall fuel (.run p) sb true 0
                    taintedLoop fuel node b (.run p) retry (groupEnd b.st i)
                  else do
                    let __r ← doNextTask fuel node sb (.run p)
                    taintedLoop fuel node b (.run p) retry (groupEnd b.st i)) s = (r, s') →
            PRes C rest (sb.view ++ b.view.drop (groupEnd b.st i)) s s' r := by
          intro s' r h
          by_cases hc : (node.next.isEmpty || !sb.hasActive) = true
          · simp only [hc, if_true] at h
            exact pres_bind (fun r1 s1 hx => (run_call_spec C sb true 0 (fun h => nomatch h) _ fuel s s1 r1 hv hsi hx).pres)
              hK hl h
          · simp only [hc] at h
            have hne : node.next ≠ [] := by
              intro he; apply hc; rw [he]; rfl
            exact pres_bind (fun r1 s1 hx => hN p C node sb s s1 r1 _ hg hne hv hsi hx) hK hl h
        cases hfl : s0.flag with
        | ack => rw [hfl] at h; exact hack s' r h
        | filter => rw [hfl] at h; exact hack s' r h
        | nack =>
          rw [hfl] at h
          dsimp only at h
          refine pres_bind (fun r1 s1 hx => ?_) hK hl h
          have hnk : NackOK sb := by
            intro x hx
            have h00 : sb.st[0]? = some s0 := idx_eq_ok_iff.mp h0
            have hbi : b.st[i]? = some s0 := by
              rw [hss] at h00
              simpa [List.getElem?_take, hg1] using h00
            have hall := group_all_nack b.st i s0 hbi hfl
            rw [hss] at hx
            exact hsi.ne x (by rw [hss]; exact hx) (hall x hx)
          exact (run_call_spec C sb false node.id (fun _ => hnk) _ fuel s s1 r1 hv hsi hx).pres
        | retry =>
          rw [hfl] at h
          dsimp only at h
          have hD : ∀ (sb' : Batch) (nx : RetryAttempt), sb.setFlagRange .ack 0 sb.recs.length = .ok sb' →
              exec (do
                doTaskAttempt fuel node { sb' with tainted := false } (.run p) (some nx) false
                taintedLoop fuel node b (.run p) retry (groupEnd b.st i)) s = (r, s') →
              PRes C rest (sb.view ++ b.view.drop (groupEnd b.st i)) s s' r := by
            intro sb' nx hsf h
            obtain ⟨hfr, _⟩ := setFlagRange_fr (by decide) hsf
            have hwf' := C08_aligned_setFlagRange hsi.wf (by decide) hsf
            have hstep := SRel.of_fr hfr hwf' _ hsi
            have hview' : ({ sb' with tainted := false } : Batch).view = sb.view := by
              unfold Batch.view; rw [show ({ sb' with tainted := false } : Batch).runs = sb'.runs from rfl,
                show ({ sb' with tainted := false } : Batch).pos = sb'.pos from rfl, hfr.runs, hfr.pos]
            have hbi : SInv s.heap (fun x => rest x + cnt x (b.view.drop (groupEnd b.st i))) { sb' with tainted := false } :=
              ⟨⟨⟨hwf'.1.st_len, hwf'.1.pos_len, hwf'.1.runs_ok, hwf'.1.split_keys⟩, hwf'.2⟩, hstep.inv.ne, hstep.inv.runs,
                by rw [hview']; exact hsi.nopos, by rw [hview']; exact hsi.acc, hsi.restok,
                by rw [hview']; exact hsi.shape, by rw [hview']; exact hsi.headless⟩
            refine pres_bind (fun r1 s1 hx => ?_) hK hl h
            have := hP p C node _ (some nx) false s s1 r1 _ hg hv hbi hx
            rw [hview'] at this
            exact this
          rw [exec_bind] at h
          rcases hsf : sb.setFlagRange Flag.ack 0 sb.recs.length with e | sb'
          · rw [hsf, exec_liftR_err] at h
            cases h
            exact PRes.stay hv
          · rw [hsf, exec_liftR_ok] at h
            dsimp only at h
            cases retry with
            | none =>
              dsimp only at h
              by_cases c1 : 1 > maxRetryAttempts
              · simp only [c1, if_true, exec_throw_bind] at h
                cases h
                exact PRes.stay hv
              · simp only [c1, if_false] at h
                exact hD sb' _ hsf h
            | some rt =>
              dsimp only at h
              by_cases c0 : (if sb'.recs.length ≥ rt.size then rt.stall + 1 else 0) ≥ maxRetryStall
              · simp only [c0, if_true, exec_throw_bind] at h
                cases h
                exact PRes.stay hv
              · by_cases c1 : rt.count + 1 > maxRetryAttempts
                · simp only [c0, c1, if_true, if_false, exec_throw_bind] at h
                  cases h
                  exact PRes.stay hv
                · simp only [c0, c1, if_false] at h
                  exact hD sb' _ hsf h

theorem snext_step (Good : TaskNode → Prop) (hchild : ∀ node, Good node → ∀ n ∈ node.next, Good n) (fuel : Nat)
    (hP : SPipe Good fuel) (hfan : SFan Good (fuel+1)) : SNext Good (fuel+1) := by
  intro p C node b s s' r rest hg hne hv hi h
  cases hnx : node.next with
  | nil => exact absurd hnx hne
  | cons n rest' =>
    cases rest' with
    | nil =>
      rw [doNextTask] at h
      simp only [hnx] at h
      exact hP p C n b none false s s' r rest (hchild node hg n (by rw [hnx]; simp)) hv hi h
    | cons n2 rest2 =>
      exact hfan p C node b s s' r rest hg (by rw [hnx]; simp) hv hi h

/-- The task recursion on batches with split runs, every fuel, given the fan-out case. -/
theorem spipe_all (Good : TaskNode → Prop) (hchild : ∀ node, Good node → ∀ n ∈ node.next, Good n)
    (hfan : ∀ fuel, (∀ f, f ≤ fuel → SPipe Good f) → SFan Good (fuel+1)) :
    ∀ fuel f, f ≤ fuel → SPipe Good f ∧ STaint Good f ∧ SNext Good f := by
  intro fuel
  induction fuel with
  | zero =>
    intro f hf
    have : f = 0 := by omega
    subst this
    refine ⟨?_, ?_, ?_⟩
    · intro p C node b retry skipDo s s' r rest _ hv _ h
      rw [doTaskAttempt] at h; cases h; exact PRes.stay hv
    · intro p C node b retry i s s' r rest _ hv _ h
      rw [taintedLoop] at h; cases h; exact PRes.stay hv
    · intro p C node b s s' r rest _ _ hv _ h
      rw [doNextTask] at h; cases h; exact PRes.stay hv
  | succ n ih =>
    intro f hf
    by_cases hle : f ≤ n
    · exact ih f hle
    · have : f = n + 1 := by omega
      subst this
      obtain ⟨p, t, nx⟩ := ih n (Nat.le_refl _)
      exact ⟨sdta_step Good n nx t, staint_step Good n p nx t,
        snext_step Good hchild n p (hfan n (fun f hf => (ih f hf).1))⟩

theorem spipe_linear (fuel : Nat) : SPipe Linear fuel :=
  (spipe_all Linear (fun _ h => h.child)
    (fun _ _ p C node b s s' r rest hg h2 => by have := hg.len; omega) fuel fuel (Nat.le_refl _)).1

/-! ## a freshly read batch -/

theorem new_view (recs : List Rec) : (Batch.new recs).view = recs.map (fun r => ((none, r.pos) : Piece)) := by
  unfold Batch.view Batch.new
  simp only [Option.getD_some]
  induction recs with
  | nil => rfl
  | cons x t ih => simp [ih]

theorem new_SInv (h : Heap) (recs : List Rec) (hpos : ∀ r ∈ recs, r.pos ≠ none) :
    SInv h (fun _ => 0) (Batch.new recs) := by
  have hv := new_view recs
  have hnone : ∀ x ∈ (Batch.new recs).view, x.1 = none := by
    intro x hx; rw [hv, List.mem_map] at hx; obtain ⟨_, _, rfl⟩ := hx; rfl
  refine ⟨new_WF h recs, (new_BInv recs).ne, ⟨_, rfl⟩, ?_, ?_, fun _ _ => rfl, ⟨none, [], ?_, (fun _ h => nomatch h),
    (fun _ h => nomatch h)⟩, ?_⟩
  · intro x hx _
    rw [hv, List.mem_map] at hx
    obtain ⟨r, hr, rfl⟩ := hx
    exact hpos r hr
  · intro r hr
    rw [cnt_norun r _ hnone] at hr; omega
  · rw [hv]
    clear hv hnone
    induction recs with
    | nil => trivial
    | cons x t ih =>
      exact ⟨hpos x List.mem_cons_self, ih (fun r hr => hpos r (List.mem_cons_of_mem _ hr))⟩
  · intro r t ht
    have := hnone _ (by rw [ht]; exact List.mem_cons_self)
    cases this

theorem new_fk (h : Heap) (rest : Nat → Nat) (recs : List Rec) :
    fk h rest (Batch.new recs).view = recs.map (fun r => keyOf r.pos) := by
  have hv := new_view recs
  have hnone : ∀ x ∈ (Batch.new recs).view, x.1 = none := by
    intro x hx; rw [hv, List.mem_map] at hx; obtain ⟨_, _, rfl⟩ := hx; rfl
  have := fk_norun h rest _ hnone []
  simp only [List.append_nil, fk] at this
  rw [this, hv, List.map_map]; rfl

end Conduit.Funnel
