import ConduitModel.Proofs.PassSBase

/-!
# The block structure of the pieces of a batch

`ShapeFrom h prev seen l`: reading the pieces `l` left to right after a piece of run `prev`, with
the runs `seen` already begun: a record without run has a position; a tail piece (nil position)
directly follows a piece of its own run; a head piece (non-nil position) starts a run not seen
before and carries the run's original position. So the pieces of a run are contiguous and begin
with its head — which is what makes `originalBatch()` list the forwarded keys (`shape_fk`).
-/
namespace Conduit.Funnel

/-- run of the last piece -/
def lastRun : Option Nat → List Piece → Option Nat
  | prev, [] => prev
  | _, (ro, _) :: t => lastRun ro t

/-- runs begun, after reading `l` -/
def seenAfter : List Nat → List Piece → List Nat
  | seen, [] => seen
  | seen, (some r, some _) :: t => seenAfter (r :: seen) t
  | seen, _ :: t => seenAfter seen t

def ShapeFrom (h : Heap) : Option Nat → List Nat → List Piece → Prop
  | _, _, [] => True
  | _, seen, (none, q) :: t => q ≠ none ∧ ShapeFrom h none seen t
  | prev, seen, (some r, none) :: t => prev = some r ∧ ShapeFrom h (some r) seen t
  | _, seen, (some r, some k) :: t => r ∉ seen ∧ (h[r]!).origPos = some k ∧ ShapeFrom h (some r) (r :: seen) t

theorem shape_append (h : Heap) : ∀ (l1 l2 : List Piece) (prev : Option Nat) (seen : List Nat),
    ShapeFrom h prev seen (l1 ++ l2) ↔
      ShapeFrom h prev seen l1 ∧ ShapeFrom h (lastRun prev l1) (seenAfter seen l1) l2 := by
  intro l1
  induction l1 with
  | nil => intro l2 prev seen; simp [ShapeFrom, lastRun, seenAfter]
  | cons x t ih =>
    intro l2 prev seen
    obtain ⟨ro, q⟩ := x
    cases ro with
    | none => simp only [List.cons_append, ShapeFrom, lastRun, seenAfter, ih, and_assoc]
    | some r =>
      cases q with
      | none => simp only [List.cons_append, ShapeFrom, lastRun, seenAfter, ih, and_assoc]
      | some k => simp only [List.cons_append, ShapeFrom, lastRun, seenAfter, ih, and_assoc]

/-- a run already begun and not the current one does not come back -/
theorem shape_cnt_zero (h : Heap) (r : Nat) : ∀ (l : List Piece) (prev : Option Nat) (seen : List Nat),
    ShapeFrom h prev seen l → r ∈ seen → prev ≠ some r → cnt r l = 0 := by
  intro l
  induction l with
  | nil => intro _ _ _ _ _; rfl
  | cons x t ih =>
    intro prev seen hs hr hp
    obtain ⟨ro, q⟩ := x
    cases ro with
    | none =>
      rw [cnt_cons_none]
      exact ih none seen hs.2 hr (by simp)
    | some r2 =>
      cases q with
      | none =>
        have h1 : prev = some r2 := hs.1
        have hne : r2 ≠ r := by intro he; apply hp; rw [h1, he]
        rw [cnt_cons_some, if_neg hne, Nat.add_zero]
        exact ih (some r2) seen hs.2 hr (by simpa using hne)
      | some k =>
        have hne : r2 ≠ r := by intro he; apply hs.1; rw [he]; exact hr
        rw [cnt_cons_some, if_neg hne, Nat.add_zero]
        exact ih (some r2) (r2 :: seen) hs.2.2 (List.mem_cons_of_mem _ hr) (by simpa using hne)

/-- `seen` may be replaced by any list that adds no run heading in `l` -/
theorem shape_seen (h : Heap) : ∀ (l : List Piece) (prev : Option Nat) (seen seen' : List Nat),
    ShapeFrom h prev seen l → (∀ x ∈ seen', x ∈ seen ∨ cnt x l = 0) → ShapeFrom h prev seen' l := by
  intro l
  induction l with
  | nil => intro _ _ _ _ _; trivial
  | cons x t ih =>
    intro prev seen seen' hs hsub
    obtain ⟨ro, q⟩ := x
    cases ro with
    | none =>
      exact ⟨hs.1, ih none seen seen' hs.2 (fun x hx => by
        rcases hsub x hx with h | h
        · exact Or.inl h
        · rw [cnt_cons_none] at h; exact Or.inr h)⟩
    | some r =>
      cases q with
      | none =>
        exact ⟨hs.1, ih (some r) seen seen' hs.2 (fun x hx => by
          rcases hsub x hx with h | h
          · exact Or.inl h
          · rw [cnt_cons_some] at h; exact Or.inr (by omega))⟩
      | some k =>
        refine ⟨?_, hs.2.1, ih (some r) (r :: seen) (r :: seen') hs.2.2 ?_⟩
        · intro hm
          rcases hsub r hm with h | h
          · exact hs.1 h
          · rw [cnt_cons_some] at h; simp at h
        · intro x hx
          rcases List.mem_cons.mp hx with h | h
          · exact Or.inl (by rw [h]; exact List.mem_cons_self)
          · rcases hsub x h with h' | h'
            · exact Or.inl (List.mem_cons_of_mem _ h')
            · rw [cnt_cons_some] at h'; exact Or.inr (by omega)

/-- only the original positions of the runs of `l` matter -/
theorem shape_heap (h h' : Heap) : ∀ (l : List Piece) (prev : Option Nat) (seen : List Nat),
    ShapeFrom h prev seen l → (∀ r : Nat, 0 < cnt r l → (h'[r]!).origPos = (h[r]!).origPos) →
    ShapeFrom h' prev seen l := by
  intro l
  induction l with
  | nil => intro _ _ _ _; trivial
  | cons x t ih =>
    intro prev seen hs ho
    obtain ⟨ro, q⟩ := x
    cases ro with
    | none => exact ⟨hs.1, ih none seen hs.2 (fun r hr => ho r (by rw [cnt_cons_none]; exact hr))⟩
    | some r =>
      cases q with
      | none => exact ⟨hs.1, ih (some r) seen hs.2 (fun r' hr => ho r' (by rw [cnt_cons_some]; omega))⟩
      | some k =>
        exact ⟨hs.1, by rw [ho r (by rw [cnt_cons_some]; simp)]; exact hs.2.1,
          ih (some r) (r :: seen) hs.2.2 (fun r' hr => ho r' (by rw [cnt_cons_some]; omega))⟩

/-- the list starts with a tail piece -/
def startsTail : List Piece → Prop
  | (some _, none) :: _ => True
  | _ => False

/-- `prev` only matters for a leading tail piece -/
theorem shape_prev (h : Heap) (l : List Piece) (prev prev' : Option Nat) (seen : List Nat)
    (hs : ShapeFrom h prev seen l) (hn : ¬ startsTail l) : ShapeFrom h prev' seen l := by
  cases l with
  | nil => trivial
  | cons x t =>
    obtain ⟨ro, q⟩ := x
    cases ro with
    | none => exact hs
    | some r =>
      cases q with
      | none => exact absurd trivial hn
      | some k => exact hs

/-- keys of the non-nil positions: what `originalBatch()` keeps -/
def headKeys : List Piece → List Nat
  | [] => []
  | (_, none) :: t => headKeys t
  | (_, some k) :: t => keyOf (some k) :: headKeys t

/-- With every run whole inside `l` (`rest = 0`), the forwarded keys are the keys of the non-nil
positions, preceded by the original position of the run whose tail pieces `l` starts with. -/
theorem shape_fk (h : Heap) (rest : Nat → Nat) : ∀ (l : List Piece) (prev : Option Nat) (seen : List Nat),
    ShapeFrom h prev seen l → (∀ r : Nat, prev = some r → r ∈ seen) → (∀ r : Nat, 0 < cnt r l → rest r = 0) →
    fk h rest l = (match l with
      | (some r, none) :: _ => [keyOf (h[r]!).origPos]
      | _ => []) ++ headKeys l := by
  intro l
  induction l with
  | nil => intro _ _ _ _ _; rfl
  | cons x t ih =>
    intro prev seen hs hps hrest
    obtain ⟨ro, q⟩ := x
    cases ro with
    | none =>
      have hq : q ≠ none := hs.1
      have iht := ih none seen hs.2 (fun r hr => by cases hr) (fun r hr => hrest r (by rw [cnt_cons_none]; exact hr))
      cases q with
      | none => exact absurd rfl hq
      | some k =>
        simp only [fk, headKeys, List.nil_append]
        rw [iht]
        -- `t` cannot start with a tail
        cases t with
        | nil => rfl
        | cons y t' =>
          obtain ⟨ro', q'⟩ := y
          cases ro' with
          | none => rfl
          | some r' =>
            cases q' with
            | none => have := hs.2.1; cases this
            | some k' => rfl
    | some r =>
      have hrest' : ∀ r' : Nat, 0 < cnt r' t → rest r' = 0 := fun r' hr => hrest r' (by rw [cnt_cons_some]; omega)
      have hr0 : rest r = 0 := hrest r (by rw [cnt_cons_some]; simp)
      -- shape of the rest, with `r` current and seen
      have key : ∀ (seen' : List Nat), ShapeFrom h (some r) seen' t → r ∈ seen' →
          (if cnt r t = 0 ∧ rest r = 0 then [keyOf (h[r]!).origPos] else []) ++ fk h rest t =
            keyOf (h[r]!).origPos :: headKeys t := by
        intro seen' hst hmem
        have iht := ih (some r) seen' hst (fun r' hr' => by cases hr'; exact hmem) hrest'
        rw [iht]
        cases t with
        | nil => simp [cnt_nil, hr0, headKeys]
        | cons y t' =>
          obtain ⟨ro', q'⟩ := y
          cases ro' with
          | none =>
            have hc : cnt r ((none, q') :: t') = 0 := by
              rw [cnt_cons_none]
              exact shape_cnt_zero h r t' none seen' hst.2 hmem (by simp)
            simp [hc, hr0]
          | some r' =>
            cases q' with
            | none =>
              have he : some r = some r' := hst.1
              have he' : r' = r := (Option.some.inj he).symm
              subst he'
              have hc : ¬ (cnt r' ((some r', none) :: t') = 0 ∧ rest r' = 0) := by
                rw [cnt_cons_some]; simp
              simp [hc]
            | some k' =>
              have hne : r' ≠ r := by intro he; apply hst.1; rw [he]; exact hmem
              have hc : cnt r ((some r', some k') :: t') = 0 := by
                rw [cnt_cons_some, if_neg hne, Nat.add_zero]
                exact shape_cnt_zero h r t' (some r') (r' :: seen') hst.2.2 (List.mem_cons_of_mem _ hmem)
                  (by simpa using hne)
              simp [hc, hr0]
      cases q with
      | none =>
        have hp : prev = some r := hs.1
        simp only [fk, headKeys]
        rw [key seen hs.2 (hps r hp)]
        rfl
      | some k =>
        simp only [fk, headKeys, List.nil_append]
        rw [key (r :: seen) hs.2.2 List.mem_cons_self, hs.2.1]



theorem seenAfter_mem : ∀ (l : List Piece) (seen : List Nat) (x : Nat), x ∈ seenAfter seen l → x ∈ seen ∨ 0 < cnt x l := by
  intro l
  induction l with
  | nil => intro seen x hx; exact Or.inl hx
  | cons y t ih =>
    intro seen x hx
    obtain ⟨ro, q⟩ := y
    cases ro with
    | none =>
      rcases ih seen x hx with h | h
      · exact Or.inl h
      · exact Or.inr (by rw [cnt_cons_none]; exact h)
    | some r =>
      cases q with
      | none =>
        rcases ih seen x hx with h | h
        · exact Or.inl h
        · exact Or.inr (by rw [cnt_cons_some]; omega)
      | some k =>
        rcases ih (r :: seen) x hx with h | h
        · rcases List.mem_cons.mp h with h' | h'
          · exact Or.inr (by rw [cnt_cons_some, h']; simp)
          · exact Or.inl h'
        · exact Or.inr (by rw [cnt_cons_some]; omega)

theorem seenAfter_sub : ∀ (l : List Piece) (seen : List Nat) (x : Nat), x ∈ seen → x ∈ seenAfter seen l := by
  intro l
  induction l with
  | nil => intro seen x hx; exact hx
  | cons y t ih =>
    intro seen x hx
    obtain ⟨ro, q⟩ := y
    cases ro with
    | none => exact ih seen x hx
    | some r =>
      cases q with
      | none => exact ih seen x hx
      | some k => exact ih (r :: seen) x (List.mem_cons_of_mem _ hx)

/-- the current run stays among the runs begun -/
theorem lastRun_mem (h : Heap) : ∀ (l : List Piece) (prev : Option Nat) (seen : List Nat),
    ShapeFrom h prev seen l → (∀ r : Nat, prev = some r → r ∈ seen) →
    ∀ r : Nat, lastRun prev l = some r → r ∈ seenAfter seen l := by
  intro l
  induction l with
  | nil => intro prev seen _ hp r hr; exact hp r hr
  | cons y t ih =>
    intro prev seen hs hp r hr
    obtain ⟨ro, q⟩ := y
    cases ro with
    | none => exact ih none seen hs.2 (fun r hr => by cases hr) r hr
    | some r2 =>
      cases q with
      | none =>
        have h1 : prev = some r2 := hs.1
        exact ih (some r2) seen hs.2 (fun r' hr' => by cases hr'; exact hp r2 h1) r hr
      | some k =>
        exact ih (some r2) (r2 :: seen) hs.2.2 (fun r' hr' => by cases hr'; exact List.mem_cons_self) r hr

theorem lastRun_cnt : ∀ (l : List Piece) (prev : Option Nat) (r : Nat), l ≠ [] → lastRun prev l = some r → 0 < cnt r l := by
  intro l
  induction l with
  | nil => intro _ _ h; exact absurd rfl h
  | cons y t ih =>
    intro prev r _ hr
    obtain ⟨ro, q⟩ := y
    by_cases ht : t = []
    · subst ht
      simp only [lastRun] at hr
      subst hr
      rw [cnt_cons_some]; simp
    · have := ih ro r ht hr
      cases ro with
      | none => rw [cnt_cons_none]; exact this
      | some r2 => rw [cnt_cons_some]; omega

theorem shape_tails (h : Heap) (rid : Nat) (seen : List Nat) : ∀ k : Nat,
    ShapeFrom h (some rid) seen (List.replicate k ((some rid, none) : Piece)) ∧
    lastRun (some rid) (List.replicate k ((some rid, none) : Piece)) = some rid ∧
    seenAfter seen (List.replicate k ((some rid, none) : Piece)) = seen := by
  intro k
  induction k with
  | zero => exact ⟨trivial, rfl, rfl⟩
  | succ k ih =>
    rw [List.replicate_succ]
    exact ⟨⟨rfl, ih.1⟩, ih.2.1, ih.2.2⟩

/-- a tail piece follows a piece of its own run -/
theorem shape_tail_prev (h : Heap) (l1 t : List Piece) (r : Nat) (prev : Option Nat) (seen : List Nat)
    (hs : ShapeFrom h prev seen (l1 ++ (some r, none) :: t)) (hne : l1 ≠ []) : 0 < cnt r l1 := by
  rw [shape_append] at hs
  exact lastRun_cnt l1 prev r hne hs.2.1




theorem shape_none_notail (h : Heap) (seen : List Nat) (l : List Piece) (hs : ShapeFrom h none seen l) :
    ¬ startsTail l := by
  cases l with
  | nil => exact fun h => h
  | cons x t =>
    obtain ⟨ro, q⟩ := x
    cases ro with
    | none => exact fun h => h
    | some r =>
      cases q with
      | none => have := hs.1; cases this
      | some k => exact fun h => h

theorem shape_split_existing (h h' : Heap) (prev : Option Nat) (seen : List Nat) (A B : List Piece) (rid k : Nat)
    (q : PosV) (ho : ∀ r : Nat, (h'[r]!).origPos = (h[r]!).origPos)
    (hs : ShapeFrom h prev seen (A ++ (some rid, q) :: B)) :
    ShapeFrom h' prev seen (A ++ (some rid, q) :: (List.replicate k (some rid, none) ++ B)) := by
  have hs' := shape_heap h h' _ prev seen hs (fun r _ => ho r)
  rw [shape_append] at hs' ⊢
  refine ⟨hs'.1, ?_⟩
  cases q with
  | none =>
    refine ⟨hs'.2.1, ?_⟩
    rw [shape_append]
    obtain ⟨t1, t2, t3⟩ := shape_tails h' rid (seenAfter seen A) k
    rw [t2, t3]
    exact ⟨t1, hs'.2.2⟩
  | some kk =>
    refine ⟨hs'.2.1, hs'.2.2.1, ?_⟩
    rw [shape_append]
    obtain ⟨t1, t2, t3⟩ := shape_tails h' rid (rid :: seenAfter seen A) k
    rw [t2, t3]
    exact ⟨t1, hs'.2.2.2⟩

theorem shape_split_new (h h' : Heap) (prev : Option Nat) (seen : List Nat) (A B : List Piece) (rid k kk : Nat)
    (hA : cnt rid A = 0) (hB : cnt rid B = 0) (hseen : rid ∉ seen) (hq : (h'[rid]!).origPos = some kk)
    (ho : ∀ r : Nat, r ≠ rid → (h'[r]!).origPos = (h[r]!).origPos)
    (hs : ShapeFrom h prev seen (A ++ (none, some kk) :: B)) :
    ShapeFrom h' prev seen (A ++ (some rid, some kk) :: (List.replicate k (some rid, none) ++ B)) := by
  rw [shape_append] at hs ⊢
  refine ⟨shape_heap h h' A prev seen hs.1 (fun r hr => ho r (by intro he; rw [he, hA] at hr; omega)), ?_⟩
  have hnot : rid ∉ seenAfter seen A := by
    intro hm
    rcases seenAfter_mem A seen rid hm with h1 | h1
    · exact hseen h1
    · omega
  refine ⟨hnot, hq, ?_⟩
  rw [shape_append]
  obtain ⟨t1, t2, t3⟩ := shape_tails h' rid (rid :: seenAfter seen A) k
  rw [t2, t3]
  refine ⟨t1, ?_⟩
  have hb := hs.2.2
  have hb1 := shape_prev h B none (some rid) _ hb (shape_none_notail h _ B hb)
  have hb2 := shape_seen h B (some rid) _ (rid :: seenAfter seen A) hb1 (fun x hx => by
    rcases List.mem_cons.mp hx with h1 | h1
    · exact Or.inr (by rw [h1]; exact hB)
    · exact Or.inl h1)
  exact shape_heap h h' B _ _ hb2 (fun r hr => ho r (by intro he; rw [he, hB] at hr; omega))


end Conduit.Funnel
