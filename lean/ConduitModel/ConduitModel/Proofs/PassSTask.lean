import ConduitModel.Proofs.PassSVote
import ConduitModel.Proofs.PassSShape

/-!
# Tasks on batches with split runs

`taskDo` keeps the ledger accounting (`SInv`) and the forwarded keys `fk` of the batch: a
`SplitRecord` replaces a piece by pieces of one run (a fresh run for a record without run), and
`total` grows by exactly the number of new pieces.
-/
namespace Conduit.Funnel

/-! ## `Nack` with split extents, `DestinationTask.Do` -/

theorem StN.refl (st : List Status) : StN st st := fun _ hx => Or.inl hx
theorem StN.trans {a b c : List Status} (h1 : StN a b) (h2 : StN b c) : StN a c := by
  intro x hx
  rcases h2 x hx with h | h
  · exact h1 x h
  · exact Or.inr h

theorem nackExtent_StN {e : Option Err} (he : e.isSome = true) {st st' : List Status} {j : Nat}
    (h : nackExtent e st j = .ok st') : StN st st' := by
  unfold nackExtent at h
  obtain ⟨sj, _, h2⟩ := bind_ok h
  split at h2
  · cases h2
    intro x hx
    rcases List.mem_or_eq_of_mem_set hx with h | h
    · exact Or.inl h
    · exact Or.inr (by rw [h]; exact he)
  · cases h2; exact StN.refl _

/-- `Nack(i, errs...)` (any batch): positions, runs, split keys untouched; nacks carry errors. -/
theorem nack_fr' {b b' : Batch} {i : Nat} {errs : List (Option Err)}
    (he : ∀ e ∈ errs, e.isSome = true) (h : b.nack i errs = .ok b') : Fr b b' := by
  rw [nack_eq_model] at h
  unfold Batch.nackP at h
  obtain ⟨st', h1, h2⟩ := bind_ok h
  cases h2
  have key : ∀ (es : List (Option Err)) (q : Nat) (st st' : List Status), (∀ e ∈ es, e.isSome = true) →
      nackGo b b.activeIdx es q st = .ok st' → StN st st' := by
    intro es
    induction es with
    | nil => intro q st st' _ h; cases h; exact StN.refl _
    | cons e es ih =>
      intro q st st' he h
      unfold nackGo at h
      obtain ⟨st1, h3, h4⟩ := bind_ok h
      have h5 := ih (q+1) st1 st' (fun e' hm => he e' (List.mem_cons_of_mem _ hm)) h4
      have hee := he e List.mem_cons_self
      have h6 : StN st st1 := by
        rw [nackStep_eq] at h3
        obtain ⟨p, _, h7⟩ := bind_ok h3
        unfold nackBody at h7
        obtain ⟨_, _, h8⟩ := bind_ok h7
        have hset : StN st (st.set p { flag := .nack, err := e }) := by
          intro x hx
          rcases List.mem_or_eq_of_mem_set hx with h | h
          · exact Or.inl h
          · exact Or.inr (by rw [h]; exact hee)
        split at h8
        · obtain ⟨ps, _, h9⟩ := bind_ok h8
          split at h9
          · exact hset.trans (foldlM_rel StN StN.refl (fun _ _ _ => StN.trans) (nackExtent e) _
              (fun _ _ _ _ hst => nackExtent_StN hee hst) _ _ h9)
          · cases h9; exact hset
        · cases h8; exact hset
      exact h6.trans h5
  have := key errs i b.st st' he h1
  refine ⟨rfl, rfl, rfl, fun hn x hx hf => ?_⟩
  rcases this x hx with h | h
  · exact hn x h hf
  · exact h

theorem destMark_fr {b b' : Batch} {from_ : Nat} {acks : List (PosV × Option Err)}
    (h : destMark b from_ acks = .ok b') : Fr b b' := by
  rw [destMark_eq_model] at h
  unfold destMarkP at h
  refine foldlM_rel Fr Fr.refl (fun _ _ _ => Fr.trans) (destMarkStep from_ acks) _ ?_ _ _ h
  intro b1 i b2 _ hst
  unfold destMarkStep at hst
  split at hst
  · exact nack_fr' (fun e he => by rw [List.mem_singleton.mp he]; rfl) hst
  · cases hst; exact Fr.refl _

theorem destAckLoop_fr (positions : List PosV) : ∀ (fuel : Nat) (b : Batch) (ackCount : Nat) (resps : List AckResp)
    (b' : Batch) (n : Nat), destAckLoop positions fuel b ackCount resps = .ok (b', n) → Fr b b' := by
  intro fuel
  induction fuel with
  | zero => intro b ac resps b' n h; unfold destAckLoop at h; cases h; exact Fr.refl _
  | succ fuel ih =>
    intro b ac resps b' n h
    unfold destAckLoop at h
    split at h
    · cases h
    · cases h
    · split at h
      · cases h
      · obtain ⟨b1, h1, h2⟩ := bind_ok h
        have f1 := destMark_fr h1
        dsimp only at h2
        split at h2
        · cases h2; exact f1
        · exact f1.trans (ih _ _ _ _ _ h2)

theorem destDoP_fr {b b' : Batch} {werr : Option Err} {resps : List AckResp}
    (h : destDoP b werr resps = .ok b') : Fr b b' := by
  unfold destDoP at h
  cases werr with
  | some e => cases h
  | none =>
    simp only at h
    obtain ⟨x, h1, h2⟩ := bind_ok h
    obtain ⟨b1, n⟩ := x
    have f1 := destAckLoop_fr _ _ _ _ _ _ _ h1
    simp only at h2
    split at h2
    · cases h2
    · cases h2; exact f1

/-! ## forwarded keys under a split -/


theorem fk_rest_congr (h : Heap) (rest1 rest2 : Nat → Nat) : ∀ (l : List Piece),
    (∀ r : Nat, 0 < cnt r l → (rest1 r = 0 ↔ rest2 r = 0)) → fk h rest1 l = fk h rest2 l := by
  intro l
  induction l with
  | nil => intro _; rfl
  | cons x t ih =>
    intro hc
    obtain ⟨ro, p⟩ := x
    cases ro with
    | none =>
      simp only [fk]
      rw [ih (fun r hr => hc r (by rw [cnt_cons_none]; exact hr))]
    | some r =>
      simp only [fk]
      rw [ih (fun r' hr => hc r' (by rw [cnt_cons_some]; omega))]
      have := hc r (by rw [cnt_cons_some]; simp)
      by_cases h1 : rest1 r = 0
      · have h2 := this.mp h1; simp [h1, h2]
      · have h2 : ¬ rest2 r = 0 := fun h => h1 (this.mpr h); simp [h1, h2]

theorem cnt_replicate_same (rid k : Nat) : cnt rid (List.replicate k ((some rid, none) : Piece)) = k := by
  rw [cnt_group rid _ (fun x hx => by rw [(List.mem_replicate.mp hx).2])]; simp
theorem cnt_replicate_other (r rid k : Nat) (hne : r ≠ rid) :
    cnt r (List.replicate k ((some rid, none) : Piece)) = 0 :=
  cnt_group_other rid r hne _ (fun x hx => by rw [(List.mem_replicate.mp hx).2])

/-- splitting a piece of an existing run into `k` more pieces: same forwarded keys -/
theorem fk_split_existing (h h' : Heap) (rest : Nat → Nat) (A B : List Piece) (rid k : Nat) (q : PosV)
    (ho : ∀ r : Nat, (h'[r]!).origPos = (h[r]!).origPos) :
    fk h' rest (A ++ (some rid, q) :: (List.replicate k (some rid, none) ++ B)) =
      fk h rest (A ++ (some rid, q) :: B) := by
  rw [fk_congr h h' rest _ (fun r _ => ho r)]
  rw [fk_append, fk_append]
  have hX' : fk h rest ((some rid, q) :: (List.replicate k (some rid, none) ++ B)) =
      (if cnt rid B = 0 ∧ rest rid = 0 then [keyOf (h[rid]!).origPos] else []) ++ fk h rest B := by
    have := fk_group h rest rid ((some rid, q) :: List.replicate k (some rid, none)) (by simp)
      (by intro x hx
          rcases List.mem_cons.mp hx with h | h
          · rw [h]
          · rw [(List.mem_replicate.mp h).2]) B
    simpa using this
  have hX : fk h rest ((some rid, q) :: B) =
      (if cnt rid B = 0 ∧ rest rid = 0 then [keyOf (h[rid]!).origPos] else []) ++ fk h rest B := rfl
  rw [hX', hX]
  congr 1
  apply fk_rest_congr
  intro r _
  simp only [cnt_cons_some, cnt_append]
  by_cases hr : r = rid
  · subst hr; simp
  · rw [cnt_replicate_other r rid k hr]; simp [Ne.symm hr]

/-- splitting a record without run into a fresh run of `k+1` pieces: same forwarded keys -/
theorem fk_split_new (h h' : Heap) (rest : Nat → Nat) (A B : List Piece) (rid k : Nat) (q : PosV)
    (hA : cnt rid A = 0) (hB : cnt rid B = 0) (hrest : rest rid = 0) (hq : (h'[rid]!).origPos = q)
    (ho : ∀ r : Nat, r ≠ rid → (h'[r]!).origPos = (h[r]!).origPos) :
    fk h' rest (A ++ (some rid, q) :: (List.replicate k (some rid, none) ++ B)) =
      fk h rest (A ++ (none, q) :: B) := by
  rw [fk_append, fk_append]
  have hX' : fk h' rest ((some rid, q) :: (List.replicate k (some rid, none) ++ B)) =
      keyOf q :: fk h' rest B := by
    have := fk_group h' rest rid ((some rid, q) :: List.replicate k (some rid, none)) (by simp)
      (by intro x hx
          rcases List.mem_cons.mp hx with h | h
          · rw [h]
          · rw [(List.mem_replicate.mp h).2]) B
    rw [List.cons_append] at this
    rw [this, if_pos ⟨hB, hrest⟩, hq]; rfl
  have hBk : fk h' rest B = fk h rest B :=
    fk_congr h h' rest B (fun r hr => ho r (by intro he; rw [he, hB] at hr; omega))
  rw [hX', hBk]
  have hX : fk h rest ((none, q) :: B) = keyOf q :: fk h rest B := rfl
  rw [hX]
  congr 1
  rw [fk_congr h h' _ A (fun r hr => ho r (by intro he; rw [he, hA] at hr; omega))]
  apply fk_rest_congr
  intro r hr
  have hne : r ≠ rid := by intro he; rw [he, hA] at hr; omega
  simp only [cnt_cons_some, cnt_cons_none, cnt_append]
  rw [cnt_replicate_other r rid k hne]; simp [Ne.symm hne]


/-! ## the pieces of a batch around an index -/


theorem take_zip' {α β} (l1 : List α) (l2 : List β) (n : Nat) : (l1.zip l2).take n = (l1.take n).zip (l2.take n) := by
  simp only [List.zip_eq_zipWith, List.take_zipWith]
theorem drop_zip' {α β} (l1 : List α) (l2 : List β) (n : Nat) : (l1.zip l2).drop n = (l1.drop n).zip (l2.drop n) := by
  simp only [List.zip_eq_zipWith, List.drop_zipWith]

theorem take_succ_eq {α} (l : List α) (p : Nat) (hp : p < l.length) : l.take (p+1) = l.take p ++ [l[p]] := by
  rw [List.take_add_one, List.getElem?_eq_getElem hp]; rfl

theorem list_decomp {α} (l : List α) (p : Nat) (hp : p < l.length) : l = l.take p ++ l[p] :: l.drop (p+1) := by
  conv => lhs; rw [← List.take_append_drop p l, List.drop_eq_getElem_cons hp]

/-- the pieces of a batch around physical index `p` -/
theorem view_decomp (b : Batch) (rs : List (Option Nat)) (hruns : b.runs = some rs) (hlen : rs.length = b.pos.length)
    (p : Nat) (hp : p < rs.length) :
    b.view = b.view.take p ++ (rs[p], b.pos[p]'(by omega)) :: b.view.drop (p+1) := by
  have hv : b.view = rs.zip b.pos := by unfold Batch.view; rw [hruns]; rfl
  have hpl : p < b.view.length := by rw [hv, List.length_zip]; omega
  have := list_decomp b.view p hpl
  have he : b.view[p] = (rs[p], b.pos[p]'(by omega)) := by simp [hv]
  rw [he] at this
  exact this

theorem splitTail_view (h : Heap) (b : Batch) (p rid : Nat) (recs : List Rec) (rs : List (Option Nat))
    (hruns : b.runs = some rs) (hlen : rs.length = b.pos.length) (hp : p < rs.length) :
    (splitTail h b p rid recs).2.view =
      b.view.take p ++ (rs[p], b.pos[p]'(by omega)) ::
        (List.replicate (recs.length - 1) ((some rid, none) : Piece) ++ b.view.drop (p+1)) := by
  have hv : b.view = rs.zip b.pos := by unfold Batch.view; rw [hruns]; rfl
  unfold splitTail Batch.view
  simp only [hruns, Option.getD_some]
  rw [List.append_assoc, List.append_assoc, List.zip_append (by simp; omega), List.zip_append (by simp)]
  rw [List.zip_replicate, ← take_zip', ← drop_zip', ← hv]
  have hpl : p < b.view.length := by rw [hv, List.length_zip]; omega
  rw [take_succ_eq b.view p hpl]
  have he : b.view[p] = (rs[p], b.pos[p]'(by omega)) := by simp [hv]
  rw [he]
  simp

theorem withNewRun_view (b : Batch) (p rid : Nat) (rs : List (Option Nat))
    (hruns : b.runs = some rs) (hlen : rs.length = b.pos.length) (hp : p < rs.length) :
    (withNewRun b p rid).view = b.view.take p ++ (some rid, b.pos[p]'(by omega)) :: b.view.drop (p+1) := by
  have hv : b.view = rs.zip b.pos := by unfold Batch.view; rw [hruns]; rfl
  unfold withNewRun Batch.view
  simp only [hruns, Option.getD_some]
  rw [List.set_eq_take_append_cons_drop, if_pos hp]
  conv => lhs; rw [list_decomp b.pos p (by omega)]
  rw [List.zip_append (by simp; omega)]
  rw [List.zip_cons_cons]
  rw [← take_zip', ← drop_zip', ← hv]


/-! ## the ledger invariant and task steps -/


/-- the ledger side of the batch invariant -/
structure SInv (h : Heap) (rest : Nat → Nat) (b : Batch) : Prop where
  wf : b.WF h
  ne : NE b.st
  runs : ∃ rs, b.runs = some rs
  nopos : ∀ x ∈ b.view, x.1 = none → x.2 ≠ none
  acc : Acc h rest b.view
  restok : ∀ r : Nat, h.size ≤ r → rest r = 0
  shape : ∃ (prev : Option Nat) (seen : List Nat), ShapeFrom h prev seen b.view ∧
    (∀ r : Nat, prev = some r → r ∈ seen) ∧ (∀ r ∈ seen, r < h.size)
  headless : ∀ (r : Nat) (t : List Piece), b.view = (some r, none) :: t → 0 < (h[r]!).terminal

/-- what a task step does to the heap and the pieces -/
structure SStep (h : Heap) (b : Batch) (h' : Heap) (b' : Batch) (rest : Nat → Nat) : Prop where
  inv : SInv h' rest b'
  fkeq : fk h' rest b'.view = fk h rest b.view
  hsize : h.size ≤ h'.size
  hframe : ∀ rid : Nat, rid < h.size → cnt rid b.view = 0 → h'[rid]! = h[rid]! ∧ cnt rid b'.view = 0
  horig : ∀ rid : Nat, rid < h.size → (h'[rid]!).origPos = (h[rid]!).origPos
  mono : ∀ rid : Nat, cnt rid b.view ≤ cnt rid b'.view

def SRel (x y : Heap × Batch) : Prop := ∀ rest : Nat → Nat, SInv x.1 rest x.2 → SStep x.1 x.2 y.1 y.2 rest

theorem SRel.refl (x : Heap × Batch) : SRel x x :=
  fun _ hi => ⟨hi, rfl, Nat.le_refl _, fun _ _ hc => ⟨rfl, hc⟩, fun _ _ => rfl, fun _ => Nat.le_refl _⟩

theorem SRel.trans (x y z : Heap × Batch) (h1 : SRel x y) (h2 : SRel y z) : SRel x z := by
  intro rest hi
  have s1 := h1 rest hi
  have s2 := h2 rest s1.inv
  refine ⟨s2.inv, s2.fkeq.trans s1.fkeq, Nat.le_trans s1.hsize s2.hsize, ?_, ?_, fun rid => Nat.le_trans (s1.mono rid) (s2.mono rid)⟩
  · intro rid hlt hc
    obtain ⟨a1, a2⟩ := s1.hframe rid hlt hc
    obtain ⟨b1, b2⟩ := s2.hframe rid (Nat.lt_of_lt_of_le hlt s1.hsize) a2
    exact ⟨b1.trans a1, b2⟩
  · intro rid hlt
    rw [s2.horig rid (Nat.lt_of_lt_of_le hlt s1.hsize), s1.horig rid hlt]

/-- a mutator that keeps positions and runs -/
theorem SRel.of_fr {h : Heap} {b b' : Batch} (hf : Fr b b') (hwf : b'.WF h) : SRel (h, b) (h, b') := by
  intro rest hi
  have hv : b'.view = b.view := by unfold Batch.view; rw [hf.runs, hf.pos]
  exact ⟨⟨hwf, hf.ne hi.ne, by rw [hf.runs]; exact hi.runs, by rw [hv]; exact hi.nopos, by rw [hv]; exact hi.acc, hi.restok,
      by rw [hv]; exact hi.shape, by rw [hv]; exact hi.headless⟩,
    by rw [hv], Nat.le_refl _,
    fun _ _ hc => ⟨rfl, by rw [hv]; exact hc⟩, fun _ _ => rfl, fun _ => by rw [hv]; exact Nat.le_refl _⟩




theorem acc_split_existing (h h' : Heap) (rest : Nat → Nat) (A B : List Piece) (rid k : Nat) (q : PosV)
    (hsz : h'.size = h.size) (hrid : h'[rid]! = { (h[rid]!) with total := (h[rid]!).total + k })
    (hoth : ∀ r : Nat, r ≠ rid → h'[r]! = h[r]!) (ha : Acc h rest (A ++ (some rid, q) :: B)) :
    Acc h' rest (A ++ (some rid, q) :: (List.replicate k (some rid, none) ++ B)) := by
  intro r hr
  simp only [cnt_append, cnt_cons_some] at hr
  by_cases hre : r = rid
  · subst hre
    obtain ⟨g1, g2⟩ := ha r (by simp only [cnt_append, cnt_cons_some]; simp; omega)
    refine ⟨by rw [hsz]; exact g1, ?_⟩
    rw [hrid]
    refine ⟨g2.rel, ?_, g2.nerr⟩
    have := g2.acc
    simp only [cnt_append, cnt_cons_some, cnt_replicate_same] at this ⊢
    show (h[r]!).terminal + _ = (h[r]!).total + k
    simp at this ⊢
    omega
  · rw [cnt_replicate_other r rid k hre] at hr
    obtain ⟨g1, g2⟩ := ha r (by simp only [cnt_append, cnt_cons_some]; omega)
    refine ⟨by rw [hsz]; exact g1, ?_⟩
    rw [hoth r hre]
    have e : cnt r (A ++ (some rid, q) :: (List.replicate k (some rid, none) ++ B)) = cnt r (A ++ (some rid, q) :: B) := by
      simp only [cnt_append, cnt_cons_some, cnt_replicate_other r rid k hre]; omega
    rw [e]; exact g2

theorem acc_split_new (h h' : Heap) (rest : Nat → Nat) (A B : List Piece) (rid k : Nat) (q : PosV)
    (hridsz : rid = h.size) (hsz : h'.size = h.size + 1)
    (hnew : (h'[rid]!).released = false ∧ (h'[rid]!).terminal = 0 ∧ (h'[rid]!).total = k + 1 ∧ (h'[rid]!).nacked = false)
    (hoth : ∀ r : Nat, r < h.size → h'[r]! = h[r]!) (hrest : rest rid = 0)
    (ha : Acc h rest (A ++ (none, q) :: B)) :
    Acc h' rest (A ++ (some rid, q) :: (List.replicate k (some rid, none) ++ B)) ∧ cnt rid A = 0 ∧ cnt rid B = 0 := by
  have hA : cnt rid A = 0 := by
    apply Classical.byContradiction; intro hc
    have := (ha rid (by simp only [cnt_append, cnt_cons_none]; omega)).1
    omega
  have hB : cnt rid B = 0 := by
    apply Classical.byContradiction; intro hc
    have := (ha rid (by simp only [cnt_append, cnt_cons_none]; omega)).1
    omega
  refine ⟨?_, hA, hB⟩
  intro r hr
  simp only [cnt_append, cnt_cons_some] at hr
  by_cases hre : r = rid
  · subst hre
    refine ⟨by omega, hnew.1, ?_, fun hn => by rw [hnew.2.2.2] at hn; cases hn⟩
    simp only [cnt_append, cnt_cons_some, cnt_replicate_same, hA, hB, hrest, hnew.2.1, hnew.2.2.1]
    simp
  · rw [cnt_replicate_other r rid k hre] at hr
    have hne : ¬ rid = r := fun h => hre h.symm
    simp only [hne, if_false] at hr
    obtain ⟨g1, g2⟩ := ha r (by simp only [cnt_append, cnt_cons_none]; omega)
    refine ⟨by omega, ?_⟩
    rw [hoth r g1]
    have e : cnt r (A ++ (some rid, q) :: (List.replicate k (some rid, none) ++ B)) = cnt r (A ++ (none, q) :: B) := by
      simp only [cnt_append, cnt_cons_some, cnt_cons_none, cnt_replicate_other r rid k hre, hne, if_false]; omega
    rw [e]; exact g2


/-! ## `SplitRecord` -/


theorem take_drop_decomp {α} (A B : List α) (x : α) (p : Nat) (hA : A.length = p) :
    (A ++ x :: B).take p = A ∧ (A ++ x :: B).drop (p+1) = B := by
  subst hA; simp

theorem heap_push_get_lt (h : Heap) (x : SplitRun) {i : Nat} (hi : i < h.size) : (h.push x)[i]! = h[i]! :=
  push_get_lt h x hi

/-- `SplitRecord` (called with at least one record): the accounting and the forwarded keys are kept. -/
theorem splitRecord_srel {h h' : Heap} {b b' : Batch} {i : Nat} {recs : List Rec} (hrec : 1 ≤ recs.length)
    (hr : b.splitRecord h i recs = .ok (h', b')) : SRel (h, b) (h', b') := by
  intro rest hi
  show SStep h b h' b' rest
  have hi : SInv h rest b := hi
  have hwf := hi.wf
  obtain ⟨rs, hruns⟩ := hi.runs
  have hin := splitRecord_inrange hwf hr
  have hphys := phys_ok hwf.2 hin
  have h2 : (actList b.st)[i] < b.st.length := actList_lt hin
  have hs : b.splittableAt ((actList b.st)[i]'hin) = true := by
    cases hsp : b.splittableAt ((actList b.st)[i]'hin) with
    | true => rfl
    | false =>
      obtain ⟨m, hm⟩ := splitRecord_panics_of_not_splittable hwf hin (recs := recs) hsp
      rw [hm] at hr; cases hr
  obtain ⟨h'', b'', e1, hwf', _, _, hst', _⟩ := splitRecord_ok hwf hin hs hrec
  rw [e1] at hr
  have e2 : h'' = h' ∧ b'' = b' := by cases hr; exact ⟨rfl, rfl⟩
  obtain ⟨rfl, rfl⟩ := e2
  have hne' : NE b''.st := by
    rw [hst']
    intro x hx
    simp only [List.mem_append, List.mem_replicate] at hx
    rcases hx with (hx | hx) | hx
    · exact hi.ne x (List.mem_of_mem_take hx)
    · rw [hx.2]; intro hf; cases hf
    · exact hi.ne x (List.mem_of_mem_drop hx)
  clear hst'
  generalize (actList b.st)[i] = p at hphys h2 hs
  have h1 : p < b.recs.length := by rw [← hwf.1.st_len]; exact h2
  have h3 : p < b.pos.length := by rw [hwf.1.pos_len]; exact h1
  have hro := hwf.1.runs_ok
  rw [hruns] at hro
  have hrl : rs.length = b.pos.length := by rw [hro.1, hwf.1.pos_len]
  have hp : p < rs.length := by omega
  have hk : recs.length + 0 - 1 = recs.length - 1 := rfl
  have hdec := view_decomp b rs hruns hrl p hp
  cases hrp : rs[p] with
  | some rid =>
    have e3 := splitRecord_existing (h := h) (recs := recs) hphys h1 h2 h3 hruns
      (by rw [List.getElem?_eq_getElem hp, hrp])
    rw [e3] at e1
    have e4 : h'' = (splitTail h b p rid recs).1 ∧ b'' = (splitTail h b p rid recs).2 := by
      cases e1; exact ⟨rfl, rfl⟩
    obtain ⟨rfl, rfl⟩ := e4
    have hview := splitTail_view h b p rid recs rs hruns hrl hp
    rw [hrp] at hview hdec
    generalize b.view.take p = A at hdec hview
    generalize b.view.drop (p+1) = B at hdec hview
    have hridlt : rid < h.size := by
      have := hro.2 (some rid) (by rw [← hrp]; exact List.getElem_mem _)
      simpa [runIdOK] using this
    have hheap : (splitTail h b p rid recs).1 = h.set! rid { (h[rid]!) with total := (h[rid]!).total + recs.length - 1 } := rfl
    have hget : (splitTail h b p rid recs).1[rid]! = { (h[rid]!) with total := (h[rid]!).total + (recs.length - 1) } := by
      rw [hheap, heap_set!_get _ _ _ hridlt]
      have : (h[rid]!).total + recs.length - 1 = (h[rid]!).total + (recs.length - 1) := by omega
      rw [this]
    have hoth : ∀ r : Nat, r ≠ rid → (splitTail h b p rid recs).1[r]! = h[r]! := by
      intro r hne; rw [hheap, heap_set!_other _ _ _ _ (Ne.symm hne)]
    have hsz : (splitTail h b p rid recs).1.size = h.size := by rw [hheap, heap_set!_size]
    have horig : ∀ r : Nat, ((splitTail h b p rid recs).1[r]!).origPos = (h[r]!).origPos := by
      intro r
      by_cases hne : r = rid
      · subst hne; rw [hget]
      · rw [hoth r hne]
    have hacc := hi.acc
    rw [hdec] at hacc
    have hacc' := acc_split_existing h _ rest _ _ rid (recs.length - 1) _ hsz hget hoth hacc
    have hterm : ∀ r : Nat, ((splitTail h b p rid recs).1[r]!).terminal = (h[r]!).terminal := by
      intro r
      by_cases hne : r = rid
      · subst hne; rw [hget]
      · rw [hoth r hne]
    have hshape : ∃ (prev : Option Nat) (seen : List Nat), ShapeFrom (splitTail h b p rid recs).1 prev seen
        (splitTail h b p rid recs).2.view ∧ (∀ r : Nat, prev = some r → r ∈ seen) ∧
        (∀ r ∈ seen, r < (splitTail h b p rid recs).1.size) := by
      obtain ⟨prev, seen, hsh, hp1, hp2⟩ := hi.shape
      rw [hdec] at hsh
      exact ⟨prev, seen, by rw [hview]; exact shape_split_existing h _ prev seen A B rid _ _ horig hsh, hp1,
        fun r hr => by rw [hsz]; exact hp2 r hr⟩
    have hheadless : ∀ (r : Nat) (t : List Piece), (splitTail h b p rid recs).2.view = (some r, none) :: t →
        0 < ((splitTail h b p rid recs).1[r]!).terminal := by
      intro r t ht
      rw [hterm r]
      rw [hview] at ht
      cases A with
      | nil =>
        simp only [List.nil_append, List.cons.injEq, Prod.mk.injEq, Option.some.injEq] at ht
        obtain ⟨⟨h1, h2⟩, _⟩ := ht
        subst h1
        exact hi.headless rid B (by rw [hdec, ← h2]; rfl)
      | cons a A' =>
        simp only [List.cons_append, List.cons.injEq] at ht
        exact hi.headless r _ (by rw [hdec, List.cons_append, ht.1])
    refine ⟨⟨hwf', hne', ⟨_, rfl⟩, ?_, by rw [hview]; exact hacc', fun r hr => hi.restok r (by omega), hshape, hheadless⟩, ?_,
      by rw [hsz]; exact Nat.le_refl _, ?_, fun r _ => horig r, ?_⟩
    · -- nopos
      intro x hx hx1
      have hnp := hi.nopos
      rw [hdec] at hnp
      rw [hview] at hx
      simp only [List.mem_append, List.mem_cons, List.mem_replicate] at hx hnp
      rcases hx with hx | hx | hx | hx
      · exact hnp x (Or.inl hx) hx1
      · rw [hx] at hx1; cases hx1
      · rw [hx.2] at hx1; cases hx1
      · exact hnp x (Or.inr (Or.inr hx)) hx1
    · rw [hview, hdec]
      exact fk_split_existing h _ rest _ _ rid _ _ horig
    · intro r hlt hc
      rw [hdec] at hc
      simp only [cnt_append, cnt_cons_some] at hc
      have hne : r ≠ rid := by intro he; rw [he] at hc; simp at hc
      refine ⟨hoth r hne, ?_⟩
      rw [hview]
      simp only [cnt_append, cnt_cons_some, cnt_replicate_other r rid _ hne]
      omega
    · intro r
      rw [hview, hdec]
      simp only [cnt_append, cnt_cons_some]
      omega
  | none =>
    have hpos : b.pos[p]? ≠ some none := by
      have hmem : (rs[p], b.pos[p]) ∈ b.view := by rw [hdec]; simp
      have := hi.nopos _ hmem hrp
      rw [List.getElem?_eq_getElem h3]
      intro he; exact this (Option.some.inj he)
    have e3 := splitRecord_new (h := h) (recs := recs) hphys h1 h2 h3
      (fun rs' hrs' => by
        rw [hruns] at hrs'; cases hrs'
        exact ⟨hro.1, by rw [List.getElem?_eq_getElem hp, hrp]⟩) hpos
    rw [e3] at e1
    have e4 : h'' = (splitTail (h.push (newRun b p)) (withNewRun b p h.size) p h.size recs).1 ∧
        b'' = (splitTail (h.push (newRun b p)) (withNewRun b p h.size) p h.size recs).2 := by
      cases e1; exact ⟨rfl, rfl⟩
    obtain ⟨rfl, rfl⟩ := e4
    have hwr : (withNewRun b p h.size).runs = some (rs.set p (some h.size)) := by
      unfold withNewRun; simp [hruns]
    have hwp : (withNewRun b p h.size).pos = b.pos := rfl
    have hview := splitTail_view (h.push (newRun b p)) (withNewRun b p h.size) p h.size recs (rs.set p (some h.size))
      hwr (by rw [List.length_set, hwp]; exact hrl) (by rw [List.length_set]; exact hp)
    have hwv := withNewRun_view b p h.size rs hruns hrl hp
    have hlenA : (b.view.take p).length = p := by simp [Batch.view, hruns]; omega
    obtain ⟨hA, hB⟩ := take_drop_decomp (b.view.take p) (b.view.drop (p+1)) ((some h.size, b.pos[p]) : Piece) p hlenA
    rw [hwv, hA, hB] at hview
    have hse : (rs.set p (some h.size))[p]'(by rw [List.length_set]; exact hp) = some h.size := by simp
    rw [hse] at hview
    have hview : (splitTail (h.push (newRun b p)) (withNewRun b p h.size) p h.size recs).2.view =
        b.view.take p ++ ((some h.size, b.pos[p]) : Piece) ::
          (List.replicate (recs.length - 1) ((some h.size, none) : Piece) ++ b.view.drop (p+1)) := hview
    rw [hrp] at hdec
    generalize b.view.take p = A at hdec hview
    generalize b.view.drop (p+1) = B at hdec hview
    -- the heap
    generalize hH : (splitTail (h.push (newRun b p)) (withNewRun b p h.size) p h.size recs).1 = H at *
    have hHdef : H = (h.push (newRun b p)).set! h.size
        { ((h.push (newRun b p))[h.size]!) with total := ((h.push (newRun b p))[h.size]!).total + recs.length - 1 } := by
      rw [← hH]; rfl
    have hpsz : (h.push (newRun b p)).size = h.size + 1 := by simp
    have hpg : (h.push (newRun b p))[h.size]! = newRun b p := push_get_size h _
    have hHsz : H.size = h.size + 1 := by rw [hHdef, heap_set!_size, hpsz]
    have hHnew : H[h.size]! = { newRun b p with total := (newRun b p).total + recs.length - 1 } := by
      rw [hHdef, heap_set!_get _ _ _ (by omega), hpg]
    have hHold : ∀ r : Nat, r < h.size → H[r]! = h[r]! := by
      intro r hr
      rw [hHdef, heap_set!_other _ _ _ _ (by omega), push_get_lt h _ hr]
    have hnewf : (H[h.size]!).released = false ∧ (H[h.size]!).terminal = 0 ∧
        (H[h.size]!).total = (recs.length - 1) + 1 ∧ (H[h.size]!).nacked = false := by
      rw [hHnew]
      refine ⟨rfl, rfl, ?_, rfl⟩
      show (newRun b p).total + recs.length - 1 = _
      simp only [newRun]; omega
    have hnewo : (H[h.size]!).origPos = b.pos[p] := by
      rw [hHnew]; show (newRun b p).origPos = _
      simp [newRun, List.getElem?_eq_getElem h3]
    have hrest0 : rest h.size = 0 := hi.restok _ (Nat.le_refl _)
    have hacc := hi.acc
    rw [hdec] at hacc
    obtain ⟨hacc', hcA, hcB⟩ := acc_split_new h H rest A B h.size (recs.length - 1) b.pos[p] rfl hHsz hnewf hHold hrest0 hacc
    have hoo : ∀ r : Nat, r ≠ h.size → (H[r]!).origPos = (h[r]!).origPos := by
      intro r hne
      by_cases hlt : r < h.size
      · rw [hHold r hlt]
      · have : h.size < r := by omega
        have e1 : H[r]! = default := by
          simp [getElem!_def, Array.getElem?_eq_none (by omega : H.size ≤ r)]
        have e2 : h[r]! = default := by
          simp [getElem!_def, Array.getElem?_eq_none (by omega : h.size ≤ r)]
        rw [e1, e2]
    have hids : ∀ r : Nat, 0 < cnt r (A ++ (none, b.pos[p]) :: B) → r < h.size := fun r hr => (hacc r hr).1
    have hshape : ∃ (prev : Option Nat) (seen : List Nat), ShapeFrom H prev seen
        (splitTail (h.push (newRun b p)) (withNewRun b p h.size) p h.size recs).2.view ∧
        (∀ r : Nat, prev = some r → r ∈ seen) ∧ (∀ r ∈ seen, r < H.size) := by
      obtain ⟨prev, seen, hsh, hp1, hp2⟩ := hi.shape
      rw [hdec] at hsh
      cases hkk : b.pos[p] with
      | none =>
        exfalso; apply hpos; rw [List.getElem?_eq_getElem h3, hkk]
      | some kk =>
        rw [hkk] at hsh hnewo
        refine ⟨prev, seen, ?_, hp1, fun r hr => by have := hp2 r hr; omega⟩
        rw [hview, hkk]
        exact shape_split_new h H prev seen A B h.size _ kk hcA hcB
          (fun hm => by have := hp2 _ hm; omega) hnewo hoo hsh
    have hheadless : ∀ (r : Nat) (t : List Piece),
        (splitTail (h.push (newRun b p)) (withNewRun b p h.size) p h.size recs).2.view = (some r, none) :: t →
        0 < (H[r]!).terminal := by
      intro r t ht
      rw [hview] at ht
      cases A with
      | nil =>
        simp only [List.nil_append, List.cons.injEq, Prod.mk.injEq] at ht
        obtain ⟨⟨_, h2⟩, _⟩ := ht
        exfalso; apply hpos; rw [List.getElem?_eq_getElem h3, h2]
      | cons a A' =>
        simp only [List.cons_append, List.cons.injEq] at ht
        have hv0 : b.view = (some r, none) :: (A' ++ (none, b.pos[p]) :: B) := by
          rw [hdec, List.cons_append, ht.1]
        have hlt : r < h.size := hids r (by rw [List.cons_append, ht.1, cnt_cons_some]; simp)
        rw [hHold r hlt]
        exact hi.headless r _ hv0
    refine ⟨⟨hwf', hne', ⟨_, rfl⟩, ?_, by rw [hview]; exact hacc', fun r hr => hi.restok r (by omega), hshape, hheadless⟩, ?_,
      by omega, ?_, fun r hr => hoo r (by omega), ?_⟩
    · intro x hx hx1
      have hnp := hi.nopos
      rw [hdec] at hnp
      rw [hview] at hx
      simp only [List.mem_append, List.mem_cons, List.mem_replicate] at hx hnp
      rcases hx with hx | hx | hx | hx
      · exact hnp x (Or.inl hx) hx1
      · rw [hx] at hx1; cases hx1
      · rw [hx.2] at hx1; cases hx1
      · exact hnp x (Or.inr (Or.inr hx)) hx1
    · rw [hview, hdec]
      exact fk_split_new h H rest A B h.size _ _ hcA hcB hrest0 hnewo hoo
    · intro r hlt hc
      refine ⟨hHold r hlt, ?_⟩
      rw [hdec] at hc
      rw [hview]
      simp only [cnt_append, cnt_cons_some, cnt_cons_none, cnt_replicate_other r h.size _ (by omega : r ≠ h.size)] at hc ⊢
      have : ¬ h.size = r := by omega
      simp [this]; omega
    · intro r
      rw [hview, hdec]
      simp only [cnt_append, cnt_cons_some, cnt_cons_none]
      omega


/-! ## `ProcessorTask.Do` with splits -/


theorem SRel.of_fr' {h : Heap} {b b' : Batch} (hf : Fr b b') (hwf : b.WF h → b'.WF h) : SRel (h, b) (h, b') :=
  fun rest hi => SRel.of_fr hf (hwf hi.wf) rest hi

theorem procMultiStep_srel {from_ : Nat} {records : List PR} {hb hb' : Heap × Batch} {i : Nat}
    (h : procMultiStep from_ records hb i = .ok hb') : SRel hb hb' := by
  obtain ⟨hp, b⟩ := hb
  unfold procMultiStep at h
  split at h
  · rename_i m hm
    split at h
    · obtain ⟨b1, h1, h2⟩ := bind_ok h
      cases h2
      exact SRel.of_fr' (filter1_fr h1) (fun hwf => C08_aligned_filter1 hwf h1)
    · obtain ⟨b1, h1, h2⟩ := bind_ok h
      cases h2
      exact SRel.of_fr' (setRecords_fr h1) (fun hwf => (C08_aligned_setRecords hwf h1).1)
    · rename_i h0 h1'
      obtain ⟨h'', b''⟩ := hb'
      exact splitRecord_srel (Nat.pos_of_ne_zero (fun hz => h0 hz)) h
  · cases h; exact SRel.refl _

theorem procMarkP_srel {hb hb' : Heap × Batch} {from_ : Nat} {records : List PR}
    (h : procMarkP hb from_ records = .ok hb') : SRel hb hb' := by
  obtain ⟨hp, b⟩ := hb
  unfold procMarkP at h
  split at h
  · cases h; exact SRel.refl _
  · obtain ⟨b1, h1, h2⟩ := bind_ok h
    cases h2; exact SRel.of_fr' (setRecords_fr h1) (fun hwf => (C08_aligned_setRecords hwf h1).1)
  · obtain ⟨b1, h1, h2⟩ := bind_ok h
    cases h2; exact SRel.of_fr' (filterRange_fr h1) (fun hwf => C08_aligned_filterRange hwf h1)
  · obtain ⟨b1, h1, h2⟩ := bind_ok h
    cases h2
    refine SRel.of_fr' (nack_fr' ?_ h1) (fun hwf => C08_aligned_nack hwf h1)
    intro e he
    rw [List.mem_filterMap] at he
    obtain ⟨pr, _, hpr⟩ := he
    cases pr <;> simp at hpr
    rw [← hpr]; rfl
  · exact foldlM_rel SRel SRel.refl SRel.trans _ _ (fun _ _ _ _ hst => procMultiStep_srel hst) _ _ h
  · obtain ⟨b1, h1, h2⟩ := bind_ok h
    cases h2; exact SRel.of_fr' (retry_fr h1) (fun hwf => C08_aligned_retry hwf h1)

theorem procGroupStep_srel {out : List PR} {s s' : (Heap × Batch) × Nat} {i : Nat}
    (h : procGroupStep out s i = .ok s') : SRel s.1 s'.1 := by
  unfold procGroupStep at h
  dsimp only at h
  split at h
  · obtain ⟨hb, h1, h2⟩ := bind_ok h
    cases h2
    exact procMarkP_srel h1
  · cases h; exact SRel.refl _

theorem procDoP_srel {h h' : Heap} {b b' : Batch} {out : List PR}
    (hr : procDoP h b out = .ok (h', b')) : SRel (h, b) (h', b') := by
  by_cases h0 : out.length = 0
  · have : out = [] := List.length_eq_zero_iff.mp h0
    subst this
    rw [procDoP_empty] at hr; cases hr
  · by_cases h1 : out.length > b.active.length
    · rw [procDoP_too_many h b out h1] at hr; cases hr
    · rw [procDoP_eq h b out h0 h1] at hr
      obtain ⟨_, _, h2⟩ := bind_ok hr
      obtain ⟨s, h3, h4⟩ := bind_ok h2
      have h5 : s.1 = (h', b') := Except.ok.inj h4
      have := foldlM_rel (fun (x y : (Heap × Batch) × Nat) => SRel x.1 y.1) (fun x => SRel.refl x.1)
        (fun a b c => SRel.trans a.1 b.1 c.1) (procGroupStep (padOut b.active.length out)) _
        (fun _ _ _ _ hst => procGroupStep_srel hst) _ _ h3
      rw [h5] at this
      exact this


/-! ## `taskDo` -/


theorem procDo_sspec (task : Nat) (b : Batch) (s s' : PS) (r : Except Stop Batch) (rest : Nat → Nat)
    (hi : SInv s.heap rest b) (h : exec (procDo task b) s = (r, s')) :
    Q s s' ∧ ∀ b', r = .ok b' → SStep s.heap b s'.heap b' rest := by
  obtain ⟨hp, h1, h2⟩ := procDo_eq_model task b s
  have h1' : exec (procDo task b) s = _ := h1
  rw [h1'] at h
  dsimp only at h h2
  generalize hs0 : ({ s with log := s.log.push (.pcall task b.active) } : PS) = s0 at h h2
  have hq0 : Q s s0 := by rw [← hs0]; exact (Q.refl s).push _ rfl
  have hh0 : s0.heap = s.heap := by rw [← hs0]
  have hq1 : Q s (popReplyP s0 task).2 :=
    Q.trans hq0 ⟨by rw [popReplyP_log], by rw [popReplyP_mas], fun hn => (popReplyP_NS s0 task hn).1⟩
  have hh1 : (popReplyP s0 task).2.heap = s.heap := by rw [popReplyP_heap', hh0]
  generalize (popReplyP s0 task).1 = o at h h2
  generalize hs1 : (popReplyP s0 task).2 = s1 at h h2 hq1 hh1
  cases h
  refine ⟨⟨hq1.acked, hq1.mas, hq1.ns⟩, ?_⟩
  intro b' hb'
  cases hP : procDoP s1.heap b (procOut o) with
  | error e => rw [hP] at hb'; cases hb'
  | ok x =>
    obtain ⟨h', b''⟩ := x
    rw [hP] at hb'
    cases hb'
    have hhp := h2 h' b'' hP
    subst hhp
    have := procDoP_srel hP rest (by rw [hh1]; exact hi)
    rw [hh1] at this
    exact this

theorem destDo_sspec (task : Nat) (b : Batch) (s s' : PS) (r : Except Stop Batch) (rest : Nat → Nat)
    (hi : SInv s.heap rest b) (h : exec (destDo task b none) s = (r, s')) :
    Q s s' ∧ ∀ b', r = .ok b' → SStep s.heap b s'.heap b' rest := by
  have hq := (destDo_quiet s task b none s (Qh.refl s)).1
  rw [h] at hq
  refine ⟨hq.toQ, ?_⟩
  have hh : s'.heap = s.heap := hq.heap
  intro b' hb'
  subst hb'
  have h1 : exec (destDo task b none) s = _ := destDo_eq_model task b none s
  rw [h1] at h
  dsimp only at h
  generalize (popReplyP _ task) = rp at h
  rcases destDoP_total hi.wf (destReply rp.1).1 (destReply rp.1).2 with ⟨b'', all, g1, _, _, post⟩ | ⟨e, g1⟩
  · have g1' := g1
    rw [g1] at h
    cases h
    have hfr := destDoP_fr g1'
    have := SRel.of_fr hfr post.mark.wf rest hi
    rw [hh]
    exact this
  · rw [g1] at h; cases h

/-- a task keeps the ledger accounting and the forwarded keys of its batch. -/
theorem taskDo_sspec (node : TaskNode) (b : Batch) (s s' : PS) (r : Except Stop Batch) (rest : Nat → Nat)
    (hi : SInv s.heap rest b) (h : exec (taskDo node b) s = (r, s')) :
    Q s s' ∧ ∀ b', r = .ok b' → SStep s.heap b s'.heap b' rest := by
  unfold taskDo at h
  split at h
  · exact procDo_sspec _ b s s' r rest hi h
  · exact destDo_sspec _ b s s' r rest hi h
  · cases h
    exact ⟨Q.refl _, fun b' hb' => by cases hb'; exact SRel.refl (s.heap, b) rest hi⟩


end Conduit.Funnel
