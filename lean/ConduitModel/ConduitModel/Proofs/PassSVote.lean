import ConduitModel.Proofs.PassSBase

/-!
# `runAckNacker.vote` over a batch with split runs

`vote_spec`: voting the pieces of a batch from index `i` on, against the contract of the parent
handler: the parent is given exactly the forwarded keys `fk` of those pieces, in order; the ledger
entries of the runs are advanced by the number of their pieces.
-/
namespace Conduit.Funnel


theorem extent_stop (batch : Batch) (run : Option Nat) (s : PS) : ∀ (cnt start j : Nat), j < start →
    exec (forIn (List.range' start cnt) j (extentBody batch run)) s = (.ok j, s) := by
  intro cnt
  induction cnt with
  | zero => intro start j _; rfl
  | succ cnt ih =>
    intro start j hj
    rw [List.range'_succ, List.forIn_cons, exec_bind]
    have : exec (extentBody batch run start j) s = (.ok (.yield j), s) := by
      unfold extentBody
      have : (j == start) = false := by simp; omega
      simp only [this, Bool.false_eq_true, if_false]
      rfl
    rw [this]
    dsimp only
    exact ih (start + 1) j (by omega)

theorem extent_go (batch : Batch) (run : Option Nat) (s : PS) (rs : List (Option Nat)) (hrs : batch.runs = some rs) :
    ∀ (cnt start : Nat), start + cnt ≤ rs.length →
    ∃ j, exec (forIn (List.range' start cnt) start (extentBody batch run)) s = (.ok j, s) ∧ start ≤ j ∧
      j ≤ start + cnt ∧ ∀ k : Nat, start ≤ k → k < j → rs[k]? = some run := by
  intro cnt
  induction cnt with
  | zero => intro start _; exact ⟨start, rfl, Nat.le_refl _, Nat.le_refl _, fun k h1 h2 => by omega⟩
  | succ cnt ih =>
    intro start hle
    rw [List.range'_succ, List.forIn_cons, exec_bind]
    have hlt : start < rs.length := by omega
    have hra : runAt batch start = .ok rs[start] := by
      unfold runAt; rw [hrs]; exact idx_ok _ hlt
    by_cases heq : (rs[start] == run) = true
    · have : exec (extentBody batch run start start) s = (.ok (.yield (start + 1)), s) := by
        unfold extentBody
        simp only [beq_self_eq_true, if_true]
        rw [exec_bind, hra, exec_liftR_ok]
        simp [exec_pure, heq]
      rw [this]
      dsimp only
      obtain ⟨j, h1, h2, h3, h4⟩ := ih (start + 1) (by omega)
      refine ⟨j, h1, by omega, by omega, ?_⟩
      intro k hk1 hk2
      by_cases hks : k = start
      · subst hks
        rw [List.getElem?_eq_getElem hlt]
        exact congrArg some (by simpa using heq)
      · exact h4 k (by omega) hk2
    · have : exec (extentBody batch run start start) s = (.ok (.yield start), s) := by
        unfold extentBody
        simp only [beq_self_eq_true, if_true]
        rw [exec_bind, hra, exec_liftR_ok]
        simp [exec_pure, heq]
      rw [this]
      dsimp only
      rw [extent_stop batch run s cnt (start + 1) start (by omega)]
      exact ⟨start, rfl, Nat.le_refl _, by omega, fun k h1 h2 => by omega⟩

/-- the ledger step of `runAckNacker.vote` for one group `[i, j)` of run `rid`, as one `runVote` -/
theorem run_block_eq (fuel : Nat) (p : Acker) (batch : Batch) (isAck : Bool) (task i j rid : Nat) (s : PS) :
    exec (do
        let r := (← get).heap[rid]!
        if r.released then throw (.err plainErr)
        let mut r := { r with terminal := r.terminal + (j - i) }
        if !isAck ∧ !r.nacked then
          r := { r with nacked := true, nackErr := firstRunError ((batch.st.take j).drop i), nackTask := task }
        if r.terminal > r.total then
          modify fun s => { s with heap := s.heap.set! rid r }
          throw (.err plainErr)
        if r.terminal == r.total then
          r := { r with released := true }
          modify fun s => { s with heap := s.heap.set! rid r }
          if r.nacked then ackerCall fuel p (runNackBatch r) false r.nackTask
          else ackerCall fuel p (runAckBatch r) true 0
        else
          modify fun s => { s with heap := s.heap.set! rid r }
        voteLoop fuel p batch isAck task j) s =
      (let r := s.heap[rid]!
       let res := runVote r (j - i) isAck task (firstRunError ((batch.st.take j).drop i))
       match res.2 with
       | .err => (.error (.err plainErr), if r.released then s else setRun rid res.1 s)
       | .hold => exec (voteLoop fuel p batch isAck task j) (setRun rid res.1 s)
       | .ack => exec (do ackerCall fuel p (runAckBatch res.1) true 0
                          voteLoop fuel p batch isAck task j) (setRun rid res.1 s)
       | .nack => exec (do ackerCall fuel p (runNackBatch res.1) false res.1.nackTask
                           voteLoop fuel p batch isAck task j) (setRun rid res.1 s)) := by
  generalize hk : j - i = k
  generalize hr : s.heap[rid]! = r
  unfold runVote
  rw [exec_bind, exec_get]
  dsimp only
  rw [hr]
  cases hrel : r.released with
  | true => simp [exec_throw]
  | false =>
    rcases Nat.lt_trichotomy (r.terminal + k) r.total with h | h | h
    · have h1 : ¬ r.terminal + k > r.total := by omega
      have h2 : ¬ r.terminal + k = r.total := by omega
      cases isAck <;> cases hn : r.nacked <;>
        simp [exec_bind, exec_modify, setRun, h1, h2]
    · have h1 : ¬ r.terminal + k > r.total := by omega
      cases isAck <;> cases hn : r.nacked <;>
        simp [exec_bind, exec_modify, setRun, h]
    · have h2 : ¬ r.terminal + k = r.total := by omega
      cases isAck <;> cases hn : r.nacked <;>
        simp [exec_bind, exec_throw, exec_modify, setRun, h, h2]


/-! ## slices -/

theorem drop_split {α} (l : List α) {i j : Nat} (h : i ≤ j) : l.drop i = (l.drop i).take (j - i) ++ l.drop j := by
  have : l.drop j = (l.drop i).drop (j - i) := by rw [List.drop_drop]; congr 1; omega
  rw [this, List.take_append_drop]

theorem zip_slice_snd {α β} (l1 : List α) (l2 : List β) (i k : Nat) (hl : l1.length = l2.length) :
    (((l1.zip l2).drop i).take k).map (·.2) = (l2.drop i).take k := by
  rw [List.map_take, List.map_drop]
  have : (l1.zip l2).map (·.2) = l2 := List.map_snd_zip (by omega)
  rw [this]

theorem mem_slice {α} {l : List α} {i j : Nat} {x : α} (h : x ∈ (l.drop i).take (j - i)) :
    ∃ k : Nat, i ≤ k ∧ k < j ∧ l[k]? = some x := by
  obtain ⟨n, hn, rfl⟩ := List.getElem_of_mem h
  simp only [List.length_take, List.length_drop] at hn
  refine ⟨i + n, by omega, by omega, ?_⟩
  simp [List.getElem_take, List.getElem_drop]

/-- the static facts about a batch that `vote` relies on -/
structure VB (b : Batch) (rs : List (Option Nat)) : Prop where
  runs : b.runs = some rs
  rlen : rs.length = b.recs.length
  slen : b.st.length = b.recs.length
  plen : b.pos.length = b.recs.length
  nopos : ∀ k : Nat, rs[k]? = some none → b.pos[k]? ≠ some none

theorem VB.view {b : Batch} {rs : List (Option Nat)} (hb : VB b rs) : b.view = rs.zip b.pos := by
  unfold Batch.view; rw [hb.runs]; rfl

theorem VB.view_len {b : Batch} {rs : List (Option Nat)} (hb : VB b rs) : b.view.length = b.recs.length := by
  rw [hb.view, List.length_zip, hb.rlen, hb.plen]; simp

theorem VB.view_get {b : Batch} {rs : List (Option Nat)} (hb : VB b rs) {k : Nat} {x : Piece}
    (h : b.view[k]? = some x) : rs[k]? = some x.1 ∧ b.pos[k]? = some x.2 := by
  rw [hb.view] at h
  exact List.getElem?_zip_eq_some.mp h

/-! ## one group vote on the ledger -/

theorem firstRunError_isSome (sts : List Status) (hne : sts ≠ []) (hall : ∀ x ∈ sts, x.err.isSome = true) :
    (firstRunError sts).isSome = true := by
  unfold firstRunError
  cases sts with
  | nil => exact absurd rfl hne
  | cons x t =>
    have hx := hall x List.mem_cons_self
    simp [hx]



/-- the ledger entry after a group vote of `k` pieces (before the release test) -/
def voted (r0 : SplitRun) (k : Nat) (a : Bool) (t : Nat) (e : Option Err) : SplitRun :=
  if !a ∧ !r0.nacked then
    { r0 with terminal := r0.terminal + k, nacked := true, nackErr := e, nackTask := t }
  else { r0 with terminal := r0.terminal + k }

theorem runVote_eq (r0 : SplitRun) (k : Nat) (a : Bool) (t : Nat) (e : Option Err) (h1 : r0.released = false) :
    runVote r0 k a t e =
      if (voted r0 k a t e).terminal > (voted r0 k a t e).total then (voted r0 k a t e, .err)
      else if (voted r0 k a t e).terminal == (voted r0 k a t e).total then
        ({ voted r0 k a t e with released := true }, if (voted r0 k a t e).nacked then .nack else .ack)
      else (voted r0 k a t e, .hold) := by
  unfold runVote voted
  simp only [h1, Bool.false_eq_true, if_false]

theorem voted_fields (r0 : SplitRun) (k : Nat) (a : Bool) (t : Nat) (e : Option Err) :
    (voted r0 k a t e).terminal = r0.terminal + k ∧ (voted r0 k a t e).total = r0.total ∧
    (voted r0 k a t e).origPos = r0.origPos ∧ (voted r0 k a t e).released = r0.released := by
  unfold voted
  split <;> exact ⟨rfl, rfl, rfl, rfl⟩

theorem voted_nerr (r0 : SplitRun) (k : Nat) (a : Bool) (t : Nat) (e : Option Err)
    (h3 : r0.nacked = true → r0.nackErr.isSome = true) (he : a = false → e.isSome = true) :
    (voted r0 k a t e).nacked = true → (voted r0 k a t e).nackErr.isSome = true := by
  unfold voted
  cases a <;> cases hn : r0.nacked <;> simp [hn] at h3 ⊢
  · exact he rfl
  · exact h3
  · exact h3

theorem runVote_hold (r0 : SplitRun) (k m : Nat) (a : Bool) (t : Nat) (e : Option Err)
    (hok : RunOK r0 (k + m)) (hm : 0 < m) (he : a = false → e.isSome = true) :
    runVote r0 k a t e = (voted r0 k a t e, .hold) ∧ RunOK (voted r0 k a t e) m := by
  obtain ⟨h1, h2, h3⟩ := hok
  obtain ⟨f1, f2, f3, f4⟩ := voted_fields r0 k a t e
  rw [runVote_eq r0 k a t e h1]
  have e1 : ¬ (voted r0 k a t e).terminal > (voted r0 k a t e).total := by rw [f1, f2]; omega
  have e2 : ¬ ((voted r0 k a t e).terminal == (voted r0 k a t e).total) = true := by
    rw [beq_iff_eq, f1, f2]; omega
  rw [if_neg e1, if_neg e2]
  exact ⟨rfl, ⟨by rw [f4]; exact h1, by rw [f1, f2]; omega, voted_nerr r0 k a t e h3 he⟩⟩

theorem runVote_done (r0 : SplitRun) (k : Nat) (a : Bool) (t : Nat) (e : Option Err)
    (hok : RunOK r0 (k + 0)) :
    runVote r0 k a t e = ({ voted r0 k a t e with released := true },
      if (voted r0 k a t e).nacked then .nack else .ack) := by
  obtain ⟨h1, h2, h3⟩ := hok
  obtain ⟨f1, f2, f3, f4⟩ := voted_fields r0 k a t e
  rw [runVote_eq r0 k a t e h1]
  have e1 : ¬ (voted r0 k a t e).terminal > (voted r0 k a t e).total := by rw [f1, f2]; omega
  have e2 : ((voted r0 k a t e).terminal == (voted r0 k a t e).total) = true := by
    rw [beq_iff_eq, f1, f2]; omega
  rw [if_neg e1, if_pos e2]

/-! ## the vote loop -/

theorem VRes.stay {p : Acker} {C : Contract p} {rest : Nat → Nat} {l : List Piece} {s : PS} {e : Stop}
    (hv : C.Valid s) : VRes C rest l s s (.error e) :=
  ⟨by have := C.partial_mono (fk s.heap rest l) (C.done_partial (C.done_refl hv)); simpa using this,
    Nat.le_refl _, fun _ _ _ => rfl, fun _ _ => rfl, fun h => nomatch h⟩

theorem VRes.nil_ok {p : Acker} {C : Contract p} {rest : Nat → Nat} {s : PS} (hv : C.Valid s) :
    VRes C rest [] s s (.ok ()) :=
  ⟨C.done_partial (C.done_refl hv), Nat.le_refl _, fun _ _ _ => rfl, fun _ _ => rfl,
    fun _ => ⟨C.done_refl hv, fun r hr => by rw [cnt_nil] at hr; omega⟩⟩

theorem setRun_quiet (top rid : Nat) (x : SplitRun) (s : PS) : Quiet top s (setRun rid x s) :=
  ⟨rfl, Nat.le_refl _, fun _ _ => rfl, fun h => h⟩

theorem heap_set!_get (h : Heap) (i : Nat) (x : SplitRun) (hi : i < h.size) : (h.set! i x)[i]! = x := by
  simp [Array.set!, hi]
theorem heap_set!_other (h : Heap) (i j : Nat) (x : SplitRun) (hne : i ≠ j) : (h.set! i x)[j]! = h[j]! := by
  simp [Array.set!, Array.getElem!_eq_getD, Array.getD_eq_getD_getElem?, Array.getElem?_setIfInBounds_ne hne]
theorem heap_set!_size (h : Heap) (i : Nat) (x : SplitRun) : (h.set! i x).size = h.size := by
  simp [Array.set!]

/-- `runAckNacker.vote` from index `i`: the parent is given the forwarded keys of the remaining
pieces, in order; the ledger advances by the number of pieces voted. -/
theorem vote_spec {p : Acker} (C : Contract p) (b : Batch) (rs : List (Option Nat)) (hb : VB b rs)
    (isAck : Bool) (task : Nat) (hn : isAck = false → NackOK b) (rest : Nat → Nat) :
    ∀ (fuel i : Nat) (s s' : PS) (r : Except Stop Unit), C.Valid s → Acc s.heap rest (b.view.drop i) →
      exec (voteLoop fuel p b isAck task i) s = (r, s') → VRes C rest (b.view.drop i) s s' r := by
  intro fuel
  induction fuel with
  | zero => intro i s s' r hv _ h; rw [voteLoop] at h; cases h; exact VRes.stay hv
  | succ fuel ih =>
    intro i s s' r hv ha h
    by_cases hi : i < b.recs.length
    · rw [voteLoop_unfold fuel p b isAck task i hi, exec_bind] at h
      have hilt : i < rs.length := by rw [hb.rlen]; exact hi
      have hra : runAt b i = .ok rs[i] := by unfold runAt; rw [hb.runs]; exact idx_ok _ hilt
      rw [hra, exec_liftR_ok] at h
      dsimp only at h
      rw [exec_bind] at h
      obtain ⟨j, hj1, hj2, hj3, hj4⟩ := extent_go b rs[i] s rs hb.runs (b.recs.length - (i + 1)) (i + 1)
        (by rw [hb.rlen]; omega)
      rw [hj1] at h
      dsimp only at h
      have hjl : j ≤ b.recs.length := by omega
      have hsplit := drop_split b.view (i := i) (j := j) (by omega)
      generalize hg : (b.view.drop i).take (j - i) = g at hsplit
      have hgrun : ∀ x ∈ g, x.1 = rs[i] := by
        intro x hx
        rw [← hg] at hx
        obtain ⟨k, hk1, hk2, hk3⟩ := mem_slice hx
        have := (hb.view_get hk3).1
        by_cases hki : k = i
        · subst hki
          rw [List.getElem?_eq_getElem hilt] at this
          exact (Option.some.inj this).symm
        · have h4 := hj4 k (by omega) hk2
          rw [h4] at this
          exact (Option.some.inj this).symm
      have hglen : g.length = j - i := by
        rw [← hg, List.length_take, List.length_drop, hb.view_len]; omega
      rw [hsplit] at ha ⊢
      have hl : ∀ rid : Nat, 0 < cnt rid (g ++ b.view.drop j) → rid < s.heap.size := fun rid hr => (ha rid hr).1
      cases hrun : rs[i] with
      | none =>
        rw [hrun] at h hgrun
        dsimp only at h
        rw [exec_bind] at h
        rcases hs : b.sub i j with e | sb
        · rw [hs, exec_liftR_err] at h; cases h; exact VRes.stay hv
        · rw [hs, exec_liftR_ok] at h
          dsimp only at h
          obtain ⟨_, _, _, _, f1, f2, f3, f4, f5, f6⟩ := sub_ok_fields hs
          have hsbl1 : sb.recs.length = j - i := by rw [f1]; simp; omega
          have hsbpos : sb.pos = g.map (·.2) := by
            rw [f3, ← hg, hb.view, zip_slice_snd _ _ _ _ (by rw [hb.rlen, hb.plen]), List.drop_take]
          have hsb : BOK sb := by
            refine ⟨Or.inr ?_, ?_, by rw [f2]; simp [hb.slen]; omega, by rw [f3]; simp [hb.plen]; omega⟩
            · intro q hq
              rw [hsbpos, List.mem_map] at hq
              obtain ⟨x, hx, rfl⟩ := hq
              rw [← hg] at hx
              obtain ⟨k, hk1, hk2, hk3⟩ := mem_slice hx
              obtain ⟨v1, v2⟩ := hb.view_get hk3
              have hx1 : x.1 = none := hgrun x (by rw [← hg]; exact hx)
              rw [hx1] at v1
              intro hq
              exact hb.nopos k v1 (by rw [v2, hq])
            · intro rs' hrs'
              rw [f4, hb.runs] at hrs'
              simp only [Option.map_some, Option.some.injEq] at hrs'
              rw [List.eq_replicate_iff]
              constructor
              · rw [← hrs', hsbl1]; simp [hb.rlen]; omega
              · intro x hx
                rw [← hrs', List.drop_take] at hx
                obtain ⟨k, hk1, hk2, hk3⟩ := mem_slice hx
                by_cases hki : k = i
                · subst hki
                  rw [List.getElem?_eq_getElem hilt, hrun] at hk3
                  exact (Option.some.inj hk3).symm
                · have h4 := hj4 k (by omega) hk2
                  rw [h4, hrun] at hk3
                  exact (Option.some.inj hk3).symm
          have hsn : isAck = false → NackOK sb := by
            intro hi' x hx
            rw [f2] at hx
            exact hn hi' x ((List.take_sublist j b.st).subset ((List.drop_sublist i _).subset hx))
          rw [exec_bind] at h
          rcases hc : exec (ackerCall fuel p sb isAck task) s with ⟨r1, s1⟩
          rw [hc] at h
          obtain ⟨p1, p2, _, _, _, p6⟩ := C.call fuel sb isAck task s r1 s1 hv hsb hsn hc
          have hfkg : fk s.heap (fun x => rest x + cnt x (b.view.drop j)) g = keys sb.pos := by
            have := fk_norun s.heap (fun x => rest x + cnt x (b.view.drop j)) g hgrun []
            simp only [List.append_nil, fk] at this
            rw [this, hsbpos, keys, List.map_map]; rfl
          have hgres : VRes C (fun x => rest x + cnt x (b.view.drop j)) g s s1 r1 := by
            refine ⟨by rw [hfkg]; exact p1, by rw [p6]; exact Nat.le_refl _, fun _ _ _ => by rw [p6],
              fun _ _ => by rw [p6], fun hr => ⟨by rw [hfkg]; exact p2 hr, ?_⟩⟩
            intro rid hr
            rw [cnt_norun rid g hgrun] at hr; omega
          cases r1 with
          | error e => dsimp only at h; cases h; exact hgres.fail_left
          | ok u =>
            dsimp only at h
            have hv1 := C.partial_valid hv p1
            exact hgres.seq (ih j s1 s' r hv1 (ha.right hgres) h) hl
      | some rid =>
        rw [hrun] at h hgrun
        dsimp only at h
        rw [run_block_eq fuel p b isAck task i j rid s] at h
        dsimp only at h
        have hgne : g ≠ [] := by intro he; rw [he] at hglen; simp at hglen; omega
        have hcg : cnt rid g = j - i := by rw [cnt_group rid g hgrun, hglen]
        have hcpos : 0 < cnt rid (g ++ b.view.drop j) := by rw [cnt_append, hcg]; omega
        obtain ⟨hrid, hok⟩ := ha rid hcpos
        rw [cnt_append, hcg, Nat.add_assoc] at hok
        generalize hm : cnt rid (b.view.drop j) + rest rid = m at hok
        have he : isAck = false → (firstRunError ((b.st.take j).drop i)).isSome = true := by
          intro hi'
          apply firstRunError_isSome
          · intro he
            have : ((b.st.take j).drop i).length = j - i := by simp [hb.slen]; omega
            rw [he] at this; simp at this; omega
          · intro x hx
            exact hn hi' x ((List.take_sublist j b.st).subset ((List.drop_sublist i _).subset hx))
        generalize he' : firstRunError ((b.st.take j).drop i) = e at h he
        obtain ⟨vf1, vf2, vf3, vf4⟩ := voted_fields (s.heap[rid]!) (j - i) isAck task e
        have hq := setRun_quiet C.top rid
        -- facts about a state whose heap is `s.heap.set! rid x`
        have hframe : ∀ (x : SplitRun) (rid' : Nat), rid' < s.heap.size → cnt rid' g = 0 →
            (setRun rid x s).heap[rid']! = s.heap[rid']! := by
          intro x rid' _ hc
          have hne : rid ≠ rid' := by intro he2; rw [← he2, hcg] at hc; omega
          exact heap_set!_other _ _ _ _ hne
        have horig : ∀ (x : SplitRun), x.origPos = (s.heap[rid]!).origPos → ∀ rid' : Nat, rid' < s.heap.size →
            ((setRun rid x s).heap[rid']!).origPos = (s.heap[rid']!).origPos := by
          intro x hx rid' _
          by_cases hne : rid = rid'
          · subst hne; show ((s.heap.set! rid x)[rid]!).origPos = _; rw [heap_set!_get _ _ _ hrid, hx]
          · show ((s.heap.set! rid x)[rid']!).origPos = _; rw [heap_set!_other _ _ _ _ hne]
        have hfkg : fk s.heap (fun x => rest x + cnt x (b.view.drop j)) g =
            if m = 0 then [keyOf (s.heap[rid]!).origPos] else [] := by
          have := fk_group s.heap (fun x => rest x + cnt x (b.view.drop j)) rid g hgne hgrun []
          simp only [List.append_nil, fk, cnt_nil, true_and] at this
          rw [this]
          have : rest rid + cnt rid (b.view.drop j) = m := by omega
          rw [this]
        by_cases hm0 : 0 < m
        · -- the run stays open
          obtain ⟨w1, w2⟩ := runVote_hold (s.heap[rid]!) (j - i) m isAck task e hok hm0 he
          rw [w1] at h
          dsimp only at h
          have hgres : VRes C (fun x => rest x + cnt x (b.view.drop j)) g s
              (setRun rid (voted (s.heap[rid]!) (j - i) isAck task e) s) (.ok ()) := by
            have hd := C.quiet_done hv (hq (voted (s.heap[rid]!) (j - i) isAck task e) s)
            have hfk0 : fk s.heap (fun x => rest x + cnt x (b.view.drop j)) g = [] := by
              rw [hfkg, if_neg (by omega)]
            refine ⟨by rw [hfk0]; exact C.done_partial hd, by show s.heap.size ≤ (s.heap.set! rid _).size; rw [heap_set!_size]; exact Nat.le_refl _,
              hframe _, horig _ vf3, fun _ => ⟨by rw [hfk0]; exact hd, ?_⟩⟩
            intro rid' hc' hr'
            by_cases hne : rid = rid'
            · subst hne
              show RunOK ((s.heap.set! rid _)[rid]!) _ ∧ 0 < ((s.heap.set! rid _)[rid]!).terminal
              rw [heap_set!_get _ _ _ hrid]
              have : rest rid + cnt rid (b.view.drop j) = m := by omega
              refine ⟨?_, by rw [vf1]; omega⟩
              show RunOK _ (rest rid + cnt rid (b.view.drop j))
              rw [this]; exact w2
            · rw [cnt_group_other rid rid' (Ne.symm hne) g hgrun] at hc'; omega
          have hv1 := C.partial_valid hv hgres.part
          exact hgres.seq (ih j _ s' r hv1 (ha.right hgres) h) hl
        · -- the run completes: the original is forwarded
          have hm0' : m = 0 := by omega
          subst hm0'
          have w1 := runVote_done (s.heap[rid]!) (j - i) isAck task e hok
          rw [w1] at h
          have hnerr := voted_nerr (s.heap[rid]!) (j - i) isAck task e hok.nerr he
          generalize hx : ({ voted (s.heap[rid]!) (j - i) isAck task e with released := true } : SplitRun) = x at h
          have hxo : x.origPos = (s.heap[rid]!).origPos := by rw [← hx]; exact vf3
          have hxn : x.nacked = (voted (s.heap[rid]!) (j - i) isAck task e).nacked := by rw [← hx]
          have hxe : x.nackErr = (voted (s.heap[rid]!) (j - i) isAck task e).nackErr := by rw [← hx]
          have hd0 := C.quiet_done hv (hq x s)
          have hv0 := C.partial_valid hv (C.done_partial hd0)
          have hfk1 : fk s.heap (fun x => rest x + cnt x (b.view.drop j)) g = [keyOf x.origPos] := by
            rw [hfkg, if_pos rfl, hxo]
          -- the parent call, ack or nack
          have key : ∀ (bb : Batch) (ia : Bool) (tk : Nat), BOK bb → (ia = false → NackOK bb) →
              keys bb.pos = [keyOf x.origPos] →
              exec (do ackerCall fuel p bb ia tk
                       voteLoop fuel p b isAck task j) (setRun rid x s) = (r, s') →
              VRes C rest (g ++ b.view.drop j) s s' r := by
            intro bb ia tk hbb hnb hkb h
            rw [exec_bind] at h
            rcases hc : exec (ackerCall fuel p bb ia tk) (setRun rid x s) with ⟨r1, s1⟩
            rw [hc] at h
            obtain ⟨p1, p2, _, _, _, p6⟩ := C.call fuel bb ia tk _ r1 s1 hv0 hbb hnb hc
            rw [hkb] at p1 p2
            have hgres : VRes C (fun x => rest x + cnt x (b.view.drop j)) g s s1 r1 := by
              refine ⟨by rw [hfk1]; have := C.done_partial_trans hd0 p1; simpa using this,
                by rw [p6]; show s.heap.size ≤ (s.heap.set! rid _).size; rw [heap_set!_size]; exact Nat.le_refl _,
                fun rid' h1 h2 => by rw [p6]; exact hframe x rid' h1 h2,
                fun rid' h1 => by rw [p6]; exact horig x hxo rid' h1,
                fun hr => ⟨by rw [hfk1]; have := C.done_done hd0 (p2 hr); simpa using this, ?_⟩⟩
              intro rid' hc' hr'
              by_cases hne : rid = rid'
              · subst hne; dsimp only at hr'; omega
              · rw [cnt_group_other rid rid' (Ne.symm hne) g hgrun] at hc'; omega
            cases r1 with
            | error e => dsimp only at h; cases h; exact hgres.fail_left
            | ok u =>
              dsimp only at h
              have hv1 := C.partial_valid hv hgres.part
              exact hgres.seq (ih j s1 s' r hv1 (ha.right hgres) h) hl
          cases hnk : (voted (s.heap[rid]!) (j - i) isAck task e).nacked with
          | true =>
            rw [hnk] at h
            simp only [if_true] at h
            refine key (runNackBatch x) false x.nackTask ⟨Or.inl rfl, (fun _ h => nomatch h), rfl, rfl⟩ ?_ rfl h
            intro _ st hst
            simp only [runNackBatch, List.mem_singleton] at hst
            subst hst
            show x.nackErr.isSome = true
            rw [hxe]; exact hnerr hnk
          | false =>
            rw [hnk] at h
            simp only [Bool.false_eq_true, if_false] at h
            exact key (runAckBatch x) true 0 ⟨Or.inl rfl, (fun _ h => nomatch h), rfl, rfl⟩ (fun h => nomatch h) rfl h
    · rw [voteLoop_end fuel p b isAck task i hi] at h
      cases h
      have : b.view.drop i = [] := List.drop_of_length_le (by rw [hb.view_len]; omega)
      rw [this]
      exact VRes.nil_ok hv

end Conduit.Funnel
