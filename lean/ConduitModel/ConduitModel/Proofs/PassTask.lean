import ConduitModel.Proofs.PassWorker

/-!
# Tasks are quiet, and without splitting replies they keep the positions of the batch

`taskDo` (source / processor / destination) never acknowledges anything; if no scripted reply
splits a record it leaves `positions`, `runs`, `splitRecords` of the batch alone and every nack it
sets carries an error (`BInv`).
-/
namespace Conduit.Funnel

/-! ## the pipeline's batch invariant (no split runs) -/

/-- every nacked status carries an error -/
def NE (st : List Status) : Prop := ∀ x ∈ st, x.flag = .nack → x.err.isSome = true

/-- the batches the pipeline handles when nothing is ever split -/
structure BInv (b : Batch) : Prop where
  wf : b.WF #[]
  split : b.split = []
  runs : ∀ rs, b.runs = some rs → ∀ r ∈ rs, r = none
  ne : NE b.st

theorem WF_of_runs_none {h h' : Heap} {b : Batch} (hwf : b.WF h) (hr : ∀ rs, b.runs = some rs → ∀ r ∈ rs, r = none) :
    b.WF h' := by
  obtain ⟨⟨h1, h2, h3, h4⟩, h5⟩ := hwf
  refine ⟨⟨h1, h2, ?_, h4⟩, h5⟩
  cases hb : b.runs with
  | none => trivial
  | some rs =>
    rw [hb] at h3
    refine ⟨h3.1, fun r hm => ?_⟩
    rw [hr rs hb r hm]; rfl

theorem BInv.bok {b : Batch} (h : BInv b) : BOK b := by
  refine ⟨Or.inl h.split, ?_, h.wf.1.st_len, h.wf.1.pos_len⟩
  intro rs hrs
  have h3 := h.wf.1.runs_ok
  rw [hrs] at h3
  rw [List.eq_replicate_iff]
  exact ⟨h3.1, h.runs rs hrs⟩

theorem new_BInv (recs : List Rec) : BInv (Batch.new recs) := by
  refine ⟨new_WF _ recs, rfl, ?_, ?_⟩
  · intro rs hrs r hr
    simp only [Batch.new, Option.some.injEq] at hrs
    subst hrs
    simp at hr
    exact hr.2.symm
  · intro x hx hf
    simp only [Batch.new, List.mem_map] at hx
    obtain ⟨_, _, rfl⟩ := hx
    cases hf

/-! ## frame of the mutators -/

/-- `b'` differs from `b` at most in records, statuses, `filterCount`, `tainted`; nacks keep errors. -/
structure Fr (b b' : Batch) : Prop where
  pos : b'.pos = b.pos
  split : b'.split = b.split
  runs : b'.runs = b.runs
  ne : NE b.st → NE b'.st

theorem Fr.refl (b : Batch) : Fr b b := ⟨rfl, rfl, rfl, id⟩
theorem Fr.trans {a b c : Batch} (h1 : Fr a b) (h2 : Fr b c) : Fr a c :=
  ⟨h2.pos.trans h1.pos, h2.split.trans h1.split, h2.runs.trans h1.runs, fun h => h2.ne (h1.ne h)⟩

theorem bind_ok {α β} {x : R α} {f : α → R β} {y : β} (h : (x >>= f) = .ok y) : ∃ a, x = .ok a ∧ f a = .ok y := by
  cases x with
  | error e => cases h
  | ok a => exact ⟨a, rfl, h⟩

theorem foldlM_rel {α β} (Rl : β → β → Prop) (hrefl : ∀ b, Rl b b) (htrans : ∀ a b c, Rl a b → Rl b c → Rl a c)
    (f : β → α → R β) : ∀ (l : List α), (∀ b a b', a ∈ l → f b a = .ok b' → Rl b b') →
    ∀ init res, l.foldlM f init = .ok res → Rl init res := by
  intro l
  induction l with
  | nil => intro _ init res h; cases h; exact hrefl _
  | cons a l ih =>
    intro hstep init res h
    rw [List.foldlM_cons] at h
    obtain ⟨b1, h1, h2⟩ := bind_ok h
    exact htrans _ _ _ (hstep _ _ _ List.mem_cons_self h1)
      (ih (fun b a' b' hm => hstep b a' b' (List.mem_cons_of_mem _ hm)) b1 res h2)

/-- statuses after flag updates: every status is an old one or carries the new flag -/
def StF (f : Flag) (st st' : List Status) : Prop := ∀ x ∈ st', x ∈ st ∨ x.flag = f

theorem setFlagAt_StF {st st' : List Status} {p : Nat} {f : Flag} (h : setFlagAt st p f = .ok st') : StF f st st' := by
  unfold setFlagAt at h
  obtain ⟨s, _, h2⟩ := bind_ok h
  cases h2
  intro x hx
  rcases List.mem_or_eq_of_mem_set hx with h | h
  · exact Or.inl h
  · exact Or.inr (by rw [h])

theorem StF.trans {f : Flag} {a b c : List Status} (h1 : StF f a b) (h2 : StF f b c) : StF f a c := by
  intro x hx
  rcases h2 x hx with h | h
  · exact h1 x h
  · exact Or.inr h

theorem StF.ne {f : Flag} (hf : f ≠ .nack) {st st' : List Status} (h : StF f st st') (hn : NE st) : NE st' := by
  intro x hx hfl
  rcases h x hx with h | h
  · exact hn x h hfl
  · rw [h] at hfl; exact absurd hfl hf

theorem setFlagRange_fr {b b' : Batch} {f : Flag} (hf : f ≠ .nack) {i j : Nat} (h : b.setFlagRange f i j = .ok b') :
    Fr b b' ∧ b'.recs = b.recs := by
  rw [setFlagRange_eq_model] at h
  unfold Batch.setFlagRangeP at h
  split at h
  · cases h
  · obtain ⟨st', h1, h2⟩ := bind_ok h
    cases h2
    have : StF f b.st st' := by
      refine foldlM_rel (StF f) (fun _ x hx => Or.inl hx) (fun _ _ _ => StF.trans) (sfStep b f) _ ?_ _ _ h1
      intro st k st'' _ hs
      unfold sfStep at hs
      obtain ⟨p, _, h4⟩ := bind_ok hs
      exact setFlagAt_StF h4
    exact ⟨⟨rfl, rfl, rfl, this.ne hf⟩, rfl⟩

theorem setFlag1_fr {b b' : Batch} {f : Flag} (hf : f ≠ .nack) {i : Nat} (h : b.setFlag1 f i = .ok b') : Fr b b' := by
  unfold Batch.setFlag1 at h
  obtain ⟨p, _, h2⟩ := bind_ok h
  obtain ⟨st', h3, h4⟩ := bind_ok h2
  cases h4
  exact ⟨rfl, rfl, rfl, (setFlagAt_StF h3).ne hf⟩

theorem retry_fr {b b' : Batch} {i j : Nat} (h : b.retry i j = .ok b') : Fr b b' := by
  unfold Batch.retry at h
  obtain ⟨b1, h1, h2⟩ := bind_ok h
  cases h2
  obtain ⟨⟨a1, a2, a3, a4⟩, _⟩ := setFlagRange_fr (by decide) h1
  exact ⟨a1, a2, a3, a4⟩

theorem filter1_fr {b b' : Batch} {i : Nat} (h : b.filter1 i = .ok b') : Fr b b' := by
  unfold Batch.filter1 at h
  obtain ⟨b1, h1, h2⟩ := bind_ok h
  cases h2
  obtain ⟨a1, a2, a3, a4⟩ := setFlag1_fr (by decide) h1
  exact ⟨a1, a2, a3, a4⟩

theorem filterRange_fr {b b' : Batch} {i j : Nat} (h : b.filterRange i j = .ok b') : Fr b b' := by
  unfold Batch.filterRange at h
  obtain ⟨b1, h1, h2⟩ := bind_ok h
  cases h2
  obtain ⟨⟨a1, a2, a3, a4⟩, _⟩ := setFlagRange_fr (by decide) h1
  exact ⟨a1, a2, a3, a4⟩

theorem setRecords_fr {b b' : Batch} {i : Nat} {recs : List Rec} (h : b.setRecords i recs = .ok b') : Fr b b' := by
  unfold Batch.setRecords at h
  split at h
  · split at h
    · cases h
    · cases h; exact ⟨rfl, rfl, rfl, id⟩
  · obtain ⟨out, _, h2⟩ := bind_ok h
    cases h2
    exact ⟨rfl, rfl, rfl, id⟩

/-- statuses after nacks with errors from `errs` -/
def StN (st st' : List Status) : Prop := ∀ x ∈ st', x ∈ st ∨ x.err.isSome = true

theorem nack_fr {b b' : Batch} {i : Nat} {errs : List (Option Err)} (hs : b.split = [])
    (he : ∀ e ∈ errs, e.isSome = true) (h : b.nack i errs = .ok b') : Fr b b' := by
  rw [nack_eq_model] at h
  unfold Batch.nackP at h
  obtain ⟨st', h1, h2⟩ := bind_ok h
  cases h2
  have key : ∀ (es : List (Option Err)) (q : Nat) (st st' : List Status), (∀ e ∈ es, e.isSome = true) →
      nackGo b b.activeIdx es q st = .ok st' → StN st st' := by
    intro es
    induction es with
    | nil => intro q st st' _ h; cases h; exact fun x hx => Or.inl hx
    | cons e es ih =>
      intro q st st' he h
      unfold nackGo at h
      obtain ⟨st1, h3, h4⟩ := bind_ok h
      have h5 := ih (q+1) st1 st' (fun e' hm => he e' (List.mem_cons_of_mem _ hm)) h4
      have h6 : StN st st1 := by
        rw [nackStep_eq] at h3
        obtain ⟨p, _, h7⟩ := bind_ok h3
        unfold nackBody at h7
        obtain ⟨_, _, h8⟩ := bind_ok h7
        simp only [hs, List.length_nil, Nat.lt_irrefl, gt_iff_lt, if_false] at h8
        cases h8
        intro x hx
        rcases List.mem_or_eq_of_mem_set hx with h | h
        · exact Or.inl h
        · exact Or.inr (by rw [h]; exact he e List.mem_cons_self)
      intro x hx
      rcases h5 x hx with h | h
      · exact h6 x h
      · exact Or.inr h
  have := key errs i b.st st' he h1
  refine ⟨rfl, rfl, rfl, fun hn x hx hf => ?_⟩
  rcases this x hx with h | h
  · exact hn x h hf
  · exact h


/-! ## `ProcessorTask.Do` without splitting replies -/

/-- no result asks for a real split -/
def NoMulti (out : List PR) : Prop := ∀ pr ∈ out, ∀ m, pr = PR.multi m → m.length ≤ 1

/-- the frame relation on `(heap, batch)`, valid while the batch has no split records -/
def FrH (x y : Heap × Batch) : Prop := x.2.split = [] → Fr x.2 y.2

theorem FrH.refl (x : Heap × Batch) : FrH x x := fun _ => Fr.refl _
theorem FrH.trans (a b c : Heap × Batch) (h1 : FrH a b) (h2 : FrH b c) : FrH a c :=
  fun hs => (h1 hs).trans (h2 (by rw [(h1 hs).split]; exact hs))

theorem procMultiStep_fr {from_ : Nat} {records : List PR} {hb hb' : Heap × Batch} {i : Nat}
    (hn : NoMulti records) (h : procMultiStep from_ records hb i = .ok hb') : FrH hb hb' := by
  intro _
  unfold procMultiStep at h
  split at h
  · rename_i m hm
    have hle : m.length ≤ 1 := hn _ (List.mem_of_getElem? hm) m rfl
    split at h
    · obtain ⟨b1, h1, h2⟩ := bind_ok h
      cases h2
      exact filter1_fr h1
    · obtain ⟨b1, h1, h2⟩ := bind_ok h
      cases h2
      exact setRecords_fr h1
    · rename_i h0 h1
      exfalso
      have : m.length = 0 ∨ m.length = 1 := by omega
      rcases this with h | h
      · exact h0 h
      · exact h1 h
  · cases h; exact Fr.refl _

theorem NoMulti.sub {out : List PR} (hn : NoMulti out) (a c : Nat) : NoMulti ((out.take a).drop c) :=
  fun pr hm => hn pr ((List.take_sublist a out).subset ((List.drop_sublist c _).subset hm))

theorem procMarkP_fr {hb hb' : Heap × Batch} {from_ : Nat} {records : List PR} (hn : NoMulti records)
    (h : procMarkP hb from_ records = .ok hb') : FrH hb hb' := by
  intro hs
  unfold procMarkP at h
  split at h
  · cases h; exact Fr.refl _
  · obtain ⟨b1, h1, h2⟩ := bind_ok h
    cases h2; exact setRecords_fr h1
  · obtain ⟨b1, h1, h2⟩ := bind_ok h
    cases h2; exact filterRange_fr h1
  · obtain ⟨b1, h1, h2⟩ := bind_ok h
    cases h2
    refine nack_fr hs ?_ h1
    intro e he
    rw [List.mem_filterMap] at he
    obtain ⟨pr, _, hpr⟩ := he
    cases pr <;> simp at hpr
    rw [← hpr]; rfl
  · exact foldlM_rel FrH FrH.refl FrH.trans _ _ (fun _ _ _ _ hst => procMultiStep_fr hn hst) _ _ h hs
  · obtain ⟨b1, h1, h2⟩ := bind_ok h
    cases h2; exact retry_fr h1

theorem procGroupStep_fr {out : List PR} (hn : NoMulti out) {s s' : (Heap × Batch) × Nat} {i : Nat}
    (h : procGroupStep out s i = .ok s') : FrH s.1 s'.1 := by
  unfold procGroupStep at h
  dsimp only at h
  split at h
  · obtain ⟨hb, h1, h2⟩ := bind_ok h
    cases h2
    exact procMarkP_fr (hn.sub _ _) h1
  · cases h; exact FrH.refl _

theorem NoMulti.pad {out : List PR} (hn : NoMulti out) (n : Nat) : NoMulti (padOut n out) := by
  unfold padOut
  split
  · intro pr hm m he
    rcases List.mem_append.mp hm with h | h
    · exact hn pr h m he
    · rw [List.mem_replicate] at h
      rw [h.2] at he; cases he
  · exact hn

theorem procDoP_fr {h h' : Heap} {b b' : Batch} {out : List PR} (hn : NoMulti out) (hs : b.split = [])
    (hr : procDoP h b out = .ok (h', b')) : Fr b b' := by
  by_cases h0 : out.length = 0
  · have : out = [] := List.length_eq_zero_iff.mp h0
    subst this
    rw [procDoP_empty] at hr; cases hr
  · by_cases h1 : out.length > b.active.length
    · rw [procDoP_too_many h b out h1] at hr; cases hr
    · rw [procDoP_eq h b out h0 h1] at hr
      obtain ⟨_, _, h2⟩ := bind_ok hr
      obtain ⟨s, h3, h4⟩ := bind_ok h2
      have h5 : s.1 = (h', b') := Except.ok.inj h4
      have := foldlM_rel (fun (x y : (Heap × Batch) × Nat) => FrH x.1 y.1) (fun x => FrH.refl x.1)
        (fun a b c => FrH.trans a.1 b.1 c.1) (procGroupStep (padOut b.active.length out)) _
        (fun _ _ _ _ hst => procGroupStep_fr (hn.pad _) hst) _ _ h3
      have h6 := this hs
      rw [h5] at h6
      exact h6

/-! ## `taskDo` -/

theorem BInv.of_fr {b b' : Batch} {h : Heap} (hb : BInv b) (hf : Fr b b') (hwf : b'.WF h) : BInv b' := by
  have hr : ∀ rs, b'.runs = some rs → ∀ r ∈ rs, r = none := by
    intro rs hrs; rw [hf.runs] at hrs; exact hb.runs rs hrs
  exact ⟨WF_of_runs_none hwf hr, by rw [hf.split]; exact hb.split, hr, hf.ne hb.ne⟩

theorem procDo_spec (task : Nat) (b : Batch) (s s' : PS) (r : Except Stop Batch) (hb : BInv b)
    (hns : NS s.scripts) (h : exec (procDo task b) s = (r, s')) :
    Q s s' ∧ ∀ b', r = .ok b' → BInv b' ∧ b'.pos = b.pos := by
  obtain ⟨hp, h1, _⟩ := procDo_eq_model task b s
  have h1' : exec (procDo task b) s = _ := h1
  rw [h1'] at h
  dsimp only at h
  generalize hs0 : ({ s with log := s.log.push (.pcall task b.active) } : PS) = s0 at h
  have hq0 : Q s s0 := by rw [← hs0]; exact (Q.refl s).push _ rfl
  have hns0 : NS s0.scripts := hq0.ns hns
  obtain ⟨n1, n2⟩ := popReplyP_NS s0 task hns0
  have hq1 : Q s (popReplyP s0 task).2 := Q.trans hq0 ⟨by rw [popReplyP_log], by rw [popReplyP_mas], fun _ => n1⟩
  have hnm : NoMulti (procOut (popReplyP s0 task).1) := by
    cases ho : (popReplyP s0 task).1 with
    | none => intro pr hm; cases hm
    | some rp =>
      have := n2 rp ho
      cases rp with
      | proc out => exact this
      | dest _ _ => intro pr hm; cases hm
  generalize (popReplyP s0 task).1 = o at h hnm
  generalize hs1 : (popReplyP s0 task).2 = s1 at h hq1
  cases h
  refine ⟨⟨hq1.acked, hq1.mas, hq1.ns⟩, ?_⟩
  intro b' hb'
  have hwf : b.WF s1.heap := WF_of_runs_none hb.wf hb.runs
  rcases procDoP_total hwf (procOut o) with ⟨h', b'', g1, g2, _⟩ | ⟨e, g1⟩
  · rw [g1] at hb'
    cases hb'
    have hf := procDoP_fr hnm hb.split g1
    exact ⟨hb.of_fr hf g2, hf.pos⟩
  · rw [g1] at hb'; cases hb'

theorem destDo_spec (task : Nat) (b : Batch) (s s' : PS) (r : Except Stop Batch) (hb : BInv b)
    (h : exec (destDo task b none) s = (r, s')) :
    Q s s' ∧ ∀ b', r = .ok b' → BInv b' ∧ b'.pos = b.pos := by
  have hq := (destDo_quiet s task b none s (Qh.refl s)).1
  rw [h] at hq
  refine ⟨hq.toQ, ?_⟩
  intro b' hb'
  subst hb'
  have h1 : exec (destDo task b none) s = _ := destDo_eq_model task b none s
  rw [h1] at h
  dsimp only at h
  generalize (popReplyP _ task) = rp at h
  have hwf : b.WF (#[] : Heap) := hb.wf
  rcases destDoP_total hwf (destReply rp.1).1 (destReply rp.1).2 with ⟨b'', all, g1, _, _, post⟩ | ⟨e, g1⟩
  · rw [g1] at h
    cases h
    have hm := post.mark
    refine ⟨hb.of_fr ⟨hm.pos, hm.split, hm.runs, ?_⟩ hm.wf, hm.pos⟩
    intro hne x hx hfl
    obtain ⟨q, hq, rfl⟩ := List.getElem_of_mem hx
    have hmk := hm.marked hb.split q
    by_cases hT : ∃ e : Err, TA (actList b.st) 0 all all.length q e
    · obtain ⟨e, he⟩ := hT
      have := hmk.1 e he
      rw [List.getElem?_eq_getElem hq] at this
      rw [Option.some.inj this]
      rfl
    · have := hmk.2 hT
      rw [List.getElem?_eq_getElem hq] at this
      exact hne _ (List.mem_of_getElem? this.symm) hfl
  · rw [g1] at h; cases h

/-- a task of the pipeline is quiet and, when it returns, hands back a batch with the same
positions that still satisfies the no-split invariant. -/
theorem taskDo_spec (node : TaskNode) (b : Batch) (s s' : PS) (r : Except Stop Batch) (hb : BInv b)
    (hns : NS s.scripts) (h : exec (taskDo node b) s = (r, s')) :
    Q s s' ∧ ∀ b', r = .ok b' → BInv b' ∧ b'.pos = b.pos := by
  unfold taskDo at h
  split at h
  · exact procDo_spec _ b s s' r hb hns h
  · exact destDo_spec _ b s s' r hb h
  · cases h
    exact ⟨Q.refl _, fun b' hb' => by cases hb'; exact ⟨hb, rfl⟩⟩

end Conduit.Funnel
