import ConduitModel.Proofs.PassBase

/-!
# The root ack/nack handler `Worker` (with its DLQ) and `runAckNacker(Worker)` without runs

`workerAck` / `workerNack` only ever append `.sack` events for a prefix of the batch's positions;
a successful call acknowledges exactly the batch; a failed all-or-nothing call acknowledges
nothing. `workerContract` packages this as the `Contract` of the chain `.run .worker`.
-/
namespace Conduit.Funnel
open Conduit.Dlq

/-! ## the DLQ window accepts at most what it is offered -/

theorem storeLoop_le (x : Bool) : ∀ (k : Nat) (w : Win) (i : Nat), (Win.storeLoop x w k i).2 ≤ i + k := by
  intro k
  induction k with
  | zero => intro w i; simp [Win.storeLoop]
  | succ k ih =>
    intro w i
    unfold Win.storeLoop
    dsimp only
    split
    · simp
    · have := ih (w.put x) (i+1); omega

theorem nackN_le (w : Win) (n : Nat) : (w.nackN n).2 ≤ n := by
  unfold Win.nackN Win.storeN
  split
  · exact Nat.le_refl _
  · split
    · exact Nat.zero_le _
    · have := storeLoop_le true n w 0; omega

/-! ## quiet primitives -/

theorem popReplyP_log (s : PS) (task : Nat) : (popReplyP s task).2.log = s.log := by
  unfold popReplyP; split <;> rfl
theorem popReplyP_mas (s : PS) (task : Nat) : (popReplyP s task).2.mas = s.mas := by
  unfold popReplyP; split <;> rfl

theorem Q.push {σ t : PS} (h : Q σ t) (e : Ev) (he : evKeys e = []) : Q σ { t with log := t.log.push e } :=
  ⟨by show ackedKeys (t.log.push e) = _; rw [ackedKeys_push, he, List.append_nil, h.acked], h.mas, h.ns⟩

theorem Q.pop {σ t : PS} (h : Q σ t) (task : Nat) : Q σ (popReplyP t task).2 :=
  ⟨by rw [popReplyP_log]; exact h.acked, by rw [popReplyP_mas]; exact h.mas,
   fun hn => (popReplyP_NS t task (h.ns hn)).1⟩

/-- quiet, and the split-run heap untouched -/
structure Qh (σ t : PS) : Prop extends Q σ t where
  heap : t.heap = σ.heap

theorem Qh.refl (s : PS) : Qh s s := ⟨Q.refl s, rfl⟩

theorem popReplyP_heap' (s : PS) (task : Nat) : (popReplyP s task).2.heap = s.heap := by
  unfold popReplyP; split <;> rfl

/-- `DestinationTask.Do` (regular or DLQ destination) is quiet. -/
theorem destDo_quiet (σ : PS) (task : Nat) (b : Batch) (info : Option (List (Rec × Option Err × Nat))) :
    Spec (Qh σ) (destDo task b info) (fun _ => True) := by
  intro t ht
  refine ⟨?_, fun _ _ => trivial⟩
  show Qh σ ((destDo task b info).run.run t).2
  rw [destDo_eq_model]
  dsimp only
  refine ⟨?_, ?_⟩
  · apply Q.pop
    apply Q.push ht.toQ
    cases info <;> rfl
  · rw [popReplyP_heap']; exact ht.heap

/-- `DLQ.sendToDLQ`: quiet; when it reports an error, fewer records than offered succeeded. -/
theorem sendToDLQ_spec (σ : PS) (b : Batch) (task : Nat) :
    Spec (Qh σ) (sendToDLQ b task) (fun p => p.2 ≠ none → p.1 < b.recs.length ∨ p.1 = 0) := by
  unfold sendToDLQ
  apply Spec.get_bind; intro s0 _
  dsimp only
  have rest : Spec (Qh σ) (do
      let res ←
        tryCatch
            (do
              let b' ←
                destDo s0.dlqTask (Batch.new (List.map (fun r => { tag := r.tag, pos := r.pos }) b.recs))
                    (some (List.map (fun x => (x.fst, x.snd.err, task)) (b.recs.zip b.st)))
              pure (Except.ok b'))
            fun e =>
            match e with
            | Stop.err er => pure (Except.error er)
            | Stop.panic m => throw (Stop.panic m)
      match res with
        | Except.error e => pure (0, some (wrap e))
        | Except.ok db =>
          if
              (List.takeWhile (fun x => decide (x.flag = Flag.ack)) db.st).length <
                (List.map (fun r => ({ tag := r.tag, pos := r.pos } : Rec)) b.recs).length then
            pure
              ((List.takeWhile (fun x => decide (x.flag = Flag.ack)) db.st).length,
                some
                  (wrap
                    ((db.st[(List.takeWhile (fun x => decide (x.flag = Flag.ack)) db.st).length]?.bind fun x =>
                          x.err).getD
                      plainErr)))
          else pure ((List.takeWhile (fun x => decide (x.flag = Flag.ack)) db.st).length, none) : M (Nat × Option Err))
      (fun p => p.2 ≠ none → p.1 < b.recs.length ∨ p.1 = 0) := by
    apply Spec.bind (P := fun _ => True)
    · apply Spec.tryCatch
      · apply Spec.bind (destDo_quiet σ _ _ _)
        intro _ _; exact Spec.pure _ trivial
      · intro e
        split
        · exact Spec.pure _ trivial
        · exact Spec.throw _
    · intro res _
      split
      · exact Spec.pure _ (fun _ => Or.inr rfl)
      · split
        · rename_i hlt
          exact Spec.pure _ (fun _ => Or.inl (by simpa using hlt))
        · exact Spec.pure _ (fun h => absurd rfl h)
  split
  · exact Spec.throw _
  · exact rest

theorem idx_mem {α} {l : List α} {i : Nat} {w : String} {a : α} (h : idx l i w = .ok a) : a ∈ l := by
  unfold idx at h
  cases hi : l[i]? with
  | none => rw [hi] at h; cases h
  | some x =>
    rw [hi] at h
    cases h
    exact List.mem_of_getElem? hi

/-- `DLQ.Nack` returns `(n, nil)` only with `n = len(batch)`, and `(n, err)` only with `n < len(batch)`. -/
def NackRes (len : Nat) (p : Nat × Option Err) : Prop := (p.2 = none ∧ p.1 = len) ∨ (p.2 ≠ none ∧ p.1 < len)

theorem dlqNack_tail (σ : PS) (batch : Batch) (hn : NackOK batch) (thr n : Nat) (hle : n ≤ batch.recs.length) :
    Spec (Qh σ)
      (if n < batch.recs.length then do
          let stE ← liftR (idx batch.st n "recordStatuses[nacked]")
          if thr > 0 then pure (n, some (fatalE (wrap (stE.err.getD plainErr)))) else pure (n, stE.err)
        else pure (n, none) : M (Nat × Option Err))
      (NackRes batch.recs.length) := by
  split
  · rename_i hlt
    apply Spec.bind (Spec.liftR _ (fun a h => h))
    intro stE hst
    split
    · exact Spec.pure _ (Or.inr ⟨by simp, hlt⟩)
    · refine Spec.pure _ (Or.inr ⟨?_, hlt⟩)
      have := hn stE (idx_mem hst)
      intro h; dsimp only at h; rw [h] at this; cases this
  · exact Spec.pure _ (Or.inl ⟨rfl, by dsimp only; omega⟩)

/-- what an `.ok` of `sub(from, to)` means, field by field (no invariant needed). -/
theorem sub_ok_fields {b b' : Batch} {i j : Nat} (h : b.sub i j = .ok b') :
    i ≤ j ∧ j ≤ b.recs.length ∧ j ≤ b.st.length ∧ j ≤ b.pos.length ∧
    b'.recs = (b.recs.take j).drop i ∧ b'.st = (b.st.take j).drop i ∧ b'.pos = (b.pos.take j).drop i ∧
    b'.runs = b.runs.map (fun rs => (rs.take j).drop i) ∧ (b.split = [] → b'.split = []) ∧
    (∀ rs, b.runs = some rs → j ≤ rs.length) := by
  by_cases hc : (i > j ∨ j > b.recs.length ∨ j > b.st.length ∨ j > b.pos.length)
  · unfold Batch.sub at h
    simp only [hc, if_true] at h
    cases h
  · unfold Batch.sub at h
    simp only [hc, if_false] at h
    have hsp : b.split = [] → (if b.split.length ≠ 0 then
        List.foldl (fun acc p => if (p == none) = true then acc else match lookup b.split (keyOf p) with
          | some r => if (lookup acc (keyOf p)).isSome = true then acc else acc ++ [(keyOf p, r)]
          | none => acc) [] (List.drop i (List.take j b.pos)) else []) = [] := by
      intro he; simp [he]
    rcases hr : b.runs with _ | rs
    · rw [hr] at h
      simp only [bind, Except.bind, pure, Except.pure] at h
      cases h
      exact ⟨by omega, by omega, by omega, by omega, rfl, rfl, rfl, rfl, hsp, fun _ h => by cases h⟩
    · rw [hr] at h
      by_cases hg : j > rs.length
      · simp only [hg, if_true, bind, Except.bind] at h
        cases h
      · simp only [hg, if_false, bind, Except.bind, pure, Except.pure] at h
        cases h
        exact ⟨by omega, by omega, by omega, by omega, rfl, rfl, rfl, rfl, hsp,
          fun _ h => by cases h; omega⟩

theorem sub_recs_le {b b' : Batch} {i j : Nat} (h : b.sub i j = .ok b') : b'.recs.length ≤ b.recs.length := by
  obtain ⟨_, _, _, _, hr, _⟩ := sub_ok_fields h
  rw [hr]; simp; omega

theorem dlqNack_spec (σ : PS) (batch : Batch) (task : Nat) (hn : NackOK batch) :
    Spec (Qh σ) (dlqNack batch task) (NackRes batch.recs.length) := by
  unfold dlqNack
  dsimp only
  split
  · rename_i h0
    exact Spec.pure _ (Or.inl ⟨rfl, h0.symm⟩)
  · rename_i h0
    apply Spec.get_bind; intro s hs
    have hle := nackN_le s.win batch.recs.length
    generalize (s.win.nackN batch.recs.length).snd = n at hle
    generalize (s.win.nackN batch.recs.length).fst = w
    apply Spec.bind (P := fun _ => True)
    · exact Spec.set _ ⟨⟨hs.acked, hs.mas, hs.ns⟩, hs.heap⟩ trivial
    · intro _ _
      have key : ∀ (b : Batch) (T : M (Nat × Option Err)), b.recs.length ≤ batch.recs.length →
          Spec (Qh σ) T (NackRes batch.recs.length) →
          Spec (Qh σ) (do
            let __x ← sendToDLQ b task
            match __x.snd with
              | some e => pure (__x.fst, some (fatalE e))
              | x => T : M (Nat × Option Err)) (NackRes batch.recs.length) := by
        intro b T hb hT
        apply Spec.bind (sendToDLQ_spec σ b task)
        intro p hp
        split
        · rename_i e he
          refine Spec.pure _ (Or.inr ⟨by simp, ?_⟩)
          rcases hp (by rw [he]; simp) with h | h
          · dsimp only; omega
          · dsimp only; omega
        · exact hT
      have tail := dlqNack_tail σ batch hn s.thr n hle
      split
      · split
        · rename_i hlt
          rw [if_pos hlt] at tail
          apply Spec.bind (Spec.liftR _ (fun a h => h))
          intro b hb
          exact key b _ (sub_recs_le hb) tail
        · rename_i hlt
          rw [if_neg hlt] at tail
          apply Spec.bind (Spec.pure batch (P := fun b => b = batch) rfl)
          intro b hb
          subst hb
          exact key b _ (Nat.le_refl _) tail
      · exact tail

theorem exec_throw_bind {α β} (e : Stop) (f : α → M β) (s : PS) :
    exec ((throw e : M α) >>= f) s = (.error e, s) := by
  rw [exec_bind, exec_throw]
theorem exec_emit (e : Ev) (s : PS) : exec (emit e) s = (.ok ⟨⟩, { s with log := s.log.push e }) := rfl
theorem exec_emit_bind {β} (e : Ev) (f : PUnit → M β) (s : PS) :
    exec (emit e >>= f) s = exec (f ⟨⟩) { s with log := s.log.push e } := by
  rw [exec_bind, exec_emit]

/-- outcome of a call of the root handler: what was acknowledged is `k'`. -/
structure WRes (b : Batch) (isAck : Bool) (s s' : PS) (r : Except Stop Unit) (k' : List Nat) : Prop where
  pre : k' <+: keys b.pos
  acked : ackedKeys s'.log = ackedKeys s.log ++ k'
  mas : s'.mas = s.mas
  ns : NS s.scripts → NS s'.scripts
  heap : s'.heap = s.heap
  ok : r = .ok () → k' = keys b.pos
  atomic : (isAck = true ∨ b.recs.length ≤ 1) → r ≠ .ok () → k' = []

theorem workerNack_spec (b : Batch) (task : Nat) (s s' : PS) (r : Except Stop Unit) (hb : BOK b) (hn : NackOK b)
    (h : exec (workerNack b task) s = (r, s')) : ∃ k', WRes b false s s' r k' := by
  unfold workerNack at h
  obtain ⟨o1, o2, o3⟩ := orig_ok hb
  generalize b.original = ob at h o1 o2 o3
  dsimp only at h
  rw [o1] at h
  rw [exec_bind] at h
  have hn' : NackOK ob := by unfold NackOK; rw [o2]; exact hn
  obtain ⟨hq, hv⟩ := dlqNack_spec s ob task hn' s (Qh.refl s)
  rcases hd : exec (dlqNack ob task) s with ⟨r1, s1⟩
  rw [hd] at h hq hv
  rw [o3] at hv
  dsimp only at hq hv
  cases r1 with
  | error e =>
    dsimp only at h
    cases h
    exact ⟨[], List.nil_prefix, by rw [hq.acked]; simp, hq.mas, hq.ns, hq.heap, (fun h => nomatch h), fun _ _ => rfl⟩
  | ok p =>
    obtain ⟨n, err⟩ := p
    dsimp only at h
    have hres := hv _ rfl
    have hposlen := hb.pos_len
    by_cases hn0 : n > 0
    · have h1 : ¬ n > b.pos.length := by
        rcases hres with ⟨_, h2⟩ | ⟨_, h2⟩ <;> dsimp only at h2 <;> omega
      have h2 : ¬ n > b.recs.length := by omega
      by_cases hval : validateAckPositions (List.take n b.pos) = true
      · simp only [hn0, h1, h2, hval, if_true, if_false, Bool.not_true, Bool.false_eq_true] at h
        rw [exec_emit_bind] at h
        cases err with
        | none =>
          simp only [exec_pure] at h
          cases h
          have hlen : n = b.recs.length := by
            rcases hres with ⟨_, h2⟩ | ⟨h2, _⟩
            · exact h2
            · exact absurd rfl h2
          refine ⟨keys b.pos, List.prefix_refl _, ?_, hq.mas, hq.ns, hq.heap, fun _ => rfl, fun _ hne => absurd rfl hne⟩
          show ackedKeys (s1.log.push _) = _
          rw [ackedKeys_push, hq.acked, evKeys, hlen, ← hposlen, List.take_length]
        | some e =>
          simp only [exec_throw] at h
          cases h
          have hlt : n < b.recs.length := by
            rcases hres with ⟨h2, _⟩ | ⟨_, h2⟩
            · cases h2
            · exact h2
          refine ⟨keys (b.pos.take n), ?_, ?_, hq.mas, hq.ns, hq.heap, (fun h => nomatch h),
            fun h1 _ => by have : b.recs.length ≤ 1 := by simpa using h1
                           omega⟩
          · exact List.IsPrefix.map _ (List.take_prefix _ _)
          · show ackedKeys (s1.log.push _) = _
            rw [ackedKeys_push, hq.acked, evKeys]
      · simp only [hn0, h1, hval, if_true, if_false, Bool.not_false] at h
        have : r ≠ .ok () ∧ s' = s1 := by
          cases err <;> simp only [exec_throw_bind] at h <;> cases h <;> exact ⟨(fun h => nomatch h), rfl⟩
        obtain ⟨hr, rfl⟩ := this
        exact ⟨[], List.nil_prefix, by rw [hq.acked]; simp, hq.mas, hq.ns, hq.heap, fun h => absurd h hr, fun _ _ => rfl⟩
    · simp only [hn0, if_false] at h
      have hn0' : n = 0 := by omega
      cases err with
      | none =>
        simp only [exec_pure] at h
        cases h
        have hlen : b.recs.length = 0 := by
          rcases hres with ⟨_, h2⟩ | ⟨h2, _⟩
          · dsimp only at h2; omega
          · exact absurd rfl h2
        have hp : b.pos = [] := List.length_eq_zero_iff.mp (by omega)
        exact ⟨[], List.nil_prefix, by rw [hq.acked]; simp, hq.mas, hq.ns, hq.heap, fun _ => by rw [hp]; rfl, fun _ _ => rfl⟩
      | some e =>
        simp only [exec_throw] at h
        cases h
        exact ⟨[], List.nil_prefix, by rw [hq.acked]; simp, hq.mas, hq.ns, hq.heap, (fun h => nomatch h), fun _ _ => rfl⟩


theorem WRes.fail {b : Batch} {a : Bool} {s s' : PS} {e : Stop} (hq : Qh s s') : WRes b a s s' (.error e) [] :=
  ⟨List.nil_prefix, by rw [hq.acked]; simp, hq.mas, hq.ns, hq.heap, (fun h => nomatch h), fun _ _ => rfl⟩

theorem workerAck_spec (b : Batch) (s s' : PS) (r : Except Stop Unit) (hb : BOK b)
    (h : exec (workerAck b) s = (r, s')) : ∃ k', WRes b true s s' r k' := by
  unfold workerAck dlqAck at h
  obtain ⟨o1, _, _⟩ := orig_ok hb
  generalize b.original = ob at h o1
  dsimp only at h
  rw [o1] at h
  by_cases hval : validateAckPositions b.pos = true
  · simp only [hval, Bool.not_true, Bool.false_eq_true, if_false] at h
    rw [exec_emit_bind] at h
    refine ⟨keys b.pos, List.prefix_refl _, ?_, ?_, ?_, ?_, fun _ => rfl, ?_⟩
    · by_cases h0 : b.recs.length = 0
      · simp only [h0, if_true, exec_pure] at h
        cases h
        show ackedKeys (s.log.push _) = _
        rw [ackedKeys_push]; rfl
      · simp only [h0, if_false, exec_modify] at h
        cases h
        show ackedKeys (s.log.push _) = _
        rw [ackedKeys_push]; rfl
    · by_cases h0 : b.recs.length = 0
      · simp only [h0, if_true, exec_pure] at h; cases h; rfl
      · simp only [h0, if_false, exec_modify] at h; cases h; rfl
    · by_cases h0 : b.recs.length = 0
      · simp only [h0, if_true, exec_pure] at h; cases h; exact id
      · simp only [h0, if_false, exec_modify] at h; cases h; exact id
    · by_cases h0 : b.recs.length = 0
      · simp only [h0, if_true, exec_pure] at h; cases h; rfl
      · simp only [h0, if_false, exec_modify] at h; cases h; rfl
    · intro _ hne
      exfalso; apply hne
      by_cases h0 : b.recs.length = 0
      · simp only [h0, if_true, exec_pure] at h; cases h; rfl
      · simp only [h0, if_false, exec_modify] at h; cases h; rfl
  · simp only [hval, Bool.not_false, if_true, exec_throw_bind] at h
    cases h
    exact ⟨[], WRes.fail (Qh.refl _)⟩

/-- `runAckNacker(Worker).Ack/Nack` on a batch without runs: one call of the Worker on the whole batch. -/
theorem runWorker_call (fuel : Nat) (b : Batch) (isAck : Bool) (task : Nat) (s s' : PS) (r : Except Stop Unit)
    (hb : BOK b) (hn : isAck = false → NackOK b)
    (h : exec (ackerCall fuel (.run .worker) b isAck task) s = (r, s')) : ∃ k', WRes b isAck s s' r k' := by
  cases fuel with
  | zero => rw [ackerCall] at h; cases h; exact ⟨[], WRes.fail (Qh.refl _)⟩
  | succ fuel =>
    rw [ackerCall_run] at h
    cases fuel with
    | zero => rw [voteLoop] at h; cases h; exact ⟨[], WRes.fail (Qh.refl _)⟩
    | succ f =>
      by_cases hlen : 0 < b.recs.length
      · have hruns : ∀ k : Nat, 0 ≤ k → k < b.recs.length → runAt b k = .ok none := by
          intro k _ hk
          unfold runAt
          cases hr : b.runs with
          | none => rfl
          | some rs =>
            rw [hb.runs rs hr]
            dsimp only
            rw [idx_ok _ (by simpa using hk)]
            simp
        rw [voteLoop_norun_sim f .worker b isAck task 0 s hlen hruns, exec_bind] at h
        rcases hs : b.sub 0 b.recs.length with e | sb
        · rw [hs, exec_liftR_err] at h
          cases h
          exact ⟨[], WRes.fail (Qh.refl _)⟩
        · rw [hs, exec_liftR_ok] at h
          dsimp only at h
          obtain ⟨_, _, _, _, f1, f2, f3, f4, f5, f6⟩ := sub_ok_fields hs
          have e1 : sb.recs = b.recs := by rw [f1]; simp
          have e2 : sb.st = b.st := by rw [f2, List.drop_zero, ← hb.st_len, List.take_length]
          have e3 : sb.pos = b.pos := by rw [f3, List.drop_zero, ← hb.pos_len, List.take_length]
          have hsb : BOK sb := by
            refine ⟨?_, ?_, by rw [e1, e2]; exact hb.st_len, by rw [e1, e3]; exact hb.pos_len⟩
            · rcases hb.split with h | h
              · exact Or.inl (f5 h)
              · exact Or.inr (by rw [e3]; exact h)
            intro rs hrs
            rw [f4] at hrs
            cases hr : b.runs with
            | none => rw [hr] at hrs; cases hrs
            | some rs0 =>
              rw [hr] at hrs
              simp only [Option.map_some, Option.some.injEq] at hrs
              rw [← hrs, hb.runs rs0 hr, e1]
              simp
          have hsn : isAck = false → NackOK sb := fun hi => by unfold NackOK; rw [e2]; exact hn hi
          rw [exec_bind] at h
          cases f with
          | zero =>
            rw [ackerCall] at h
            cases h
            exact ⟨[], WRes.fail (Qh.refl _)⟩
          | succ g =>
            rcases hc : exec (ackerCall (g+1) .worker sb isAck task) s with ⟨r1, s1⟩
            rw [hc] at h
            have hw : ∃ k', WRes sb isAck s s1 r1 k' := by
              rw [ackerCall] at hc
              cases isAck with
              | true => simp only [if_true] at hc; exact workerAck_spec sb s s1 r1 hsb hc
              | false =>
                simp only [Bool.false_eq_true, if_false] at hc
                exact workerNack_spec sb task s s1 r1 hsb (hsn rfl) hc
            obtain ⟨k', hw⟩ := hw
            cases r1 with
            | error e =>
              dsimp only at h
              cases h
              exact ⟨k', by rw [← e3]; exact hw.pre, hw.acked, hw.mas, hw.ns, hw.heap, (fun h => nomatch h),
                fun hl hne => hw.atomic (by rw [e1]; exact hl) hne⟩
            | ok u =>
              dsimp only at h
              rw [voteLoop_end g .worker b isAck task b.recs.length (by omega)] at h
              cases h
              exact ⟨k', by rw [← e3]; exact hw.pre, hw.acked, hw.mas, hw.ns, hw.heap, fun _ => by rw [← e3]; exact hw.ok rfl,
                fun _ hne => absurd rfl hne⟩
      · rw [voteLoop_end f .worker b isAck task 0 hlen] at h
        cases h
        have hp : b.pos = [] := List.length_eq_zero_iff.mp (by have := hb.pos_len; omega)
        exact ⟨[], List.nil_prefix, by simp, rfl, id, rfl, fun _ => by rw [hp]; rfl, fun _ _ => rfl⟩

/-! ## the contract of the root chain `.run .worker` -/

/-- exactly the keys `ks` were acknowledged to the source between `s` and `s'`. -/
def WDone (ks : List Nat) (s s' : PS) : Prop :=
  ackedKeys s'.log = ackedKeys s.log ++ ks ∧ (NS s.scripts → NS s'.scripts)

/-- a prefix of `ks` was acknowledged to the source between `s` and `s'`. -/
def WPartial (ks : List Nat) (s s' : PS) : Prop := ∃ k', k' <+: ks ∧ WDone k' s s'

/-- The root chain `runAckNacker(Worker)`: a call with a batch acknowledges a prefix of the batch's
positions to the source — the whole batch when it succeeds — and nothing else. -/
def workerContract : Contract (.run .worker) where
  top := 0
  Valid := fun _ => True
  Partial := WPartial
  Done := WDone
  Stutter := WDone []
  valid_top := fun _ => Nat.zero_le _
  done_partial := fun h => ⟨_, List.prefix_refl _, h⟩
  done_done := fun h1 h2 => ⟨by rw [h2.1, h1.1, List.append_assoc], fun h => h2.2 (h1.2 h)⟩
  done_partial_trans := fun {k1 k2 s s1 s2} h1 h2 => by
    obtain ⟨k', hp, hd⟩ := h2
    exact ⟨k1 ++ k', (List.prefix_append_right_inj k1).mpr hp,
      by rw [hd.1, h1.1, List.append_assoc], fun h => hd.2 (h1.2 h)⟩
  partial_mono := fun {k1 s s'} k2 h => by
    obtain ⟨k', hp, hd⟩ := h
    exact ⟨k', List.IsPrefix.trans hp (List.prefix_append _ _), hd⟩
  quiet_done := fun _ hq => ⟨by rw [hq.acked]; simp, hq.ns⟩
  quiet_stutter := fun _ hq => ⟨by rw [hq.acked]; simp, hq.ns⟩
  stutter_partial := fun {ks s s1 s2} h1 h2 => by
    obtain ⟨k', hp, hd⟩ := h2
    exact ⟨k', hp, by rw [hd.1, h1.1]; simp, fun h => hd.2 (h1.2 h)⟩
  stutter_trans := fun h1 h2 => ⟨by rw [h2.1, h1.1]; simp, fun h => h2.2 (h1.2 h)⟩
  partial_valid := fun _ _ => trivial
  stutter_valid := fun _ _ => trivial
  partial_ns := fun ⟨_, _, hd⟩ => hd.2
  stutter_ns := fun h => h.2
  call := fun fuel b isAck task s r s' _ hb hn h => by
    obtain ⟨k', hw⟩ := runWorker_call fuel b isAck task s s' r hb hn h
    refine ⟨⟨k', hw.pre, hw.acked, hw.ns⟩, ?_, ?_, by rw [hw.mas], fun i _ => by rw [hw.mas], hw.heap⟩
    · intro hr; rw [← hw.ok hr]; exact ⟨hw.acked, hw.ns⟩
    · intro ha hne
      have := hw.atomic ha hne
      subst this
      exact ⟨hw.acked, hw.ns⟩

end Conduit.Funnel
