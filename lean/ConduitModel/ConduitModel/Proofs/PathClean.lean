import ConduitModel.Spec.Registry

/-!
Lemmas about the `filepath.Clean` model: shape of its output, behaviour on already-clean input.
-/
namespace Conduit.Registry

theorem splitSlash_cons_ne {c : Nat} {cs : Path} (hc : c ≠ slash) :
    splitSlash (c :: cs) = consHead c (splitSlash cs) := by
  rw [splitSlash, if_neg hc]

theorem splitSlash_cons_slash (cs : Path) : splitSlash (slash :: cs) = [] :: splitSlash cs := by
  rw [splitSlash, if_pos rfl]

theorem splitSlash_ne_nil (p : Path) : splitSlash p ≠ [] := by
  cases p with
  | nil => simp [splitSlash]
  | cons c cs =>
    by_cases hc : c = slash
    · subst hc; rw [splitSlash_cons_slash]; simp
    · rw [splitSlash_cons_ne hc]; cases splitSlash cs <;> simp [consHead]

theorem splitSlash_no_slash (p : Path) : ∀ s ∈ splitSlash p, slash ∉ s := by
  induction p with
  | nil => simp [splitSlash]
  | cons c cs ih =>
    by_cases hc : c = slash
    · subst hc; rw [splitSlash_cons_slash]
      intro s hs
      simp only [List.mem_cons] at hs
      rcases hs with h | h
      · simp [h]
      · exact ih s h
    · rw [splitSlash_cons_ne hc]
      cases heq : splitSlash cs with
      | nil => intro s hs; simp only [consHead, List.mem_singleton] at hs; subst hs; simp [Ne.symm hc]
      | cons s ss =>
        intro t ht
        simp only [consHead, List.mem_cons] at ht
        rcases ht with h | h
        · subst h
          have := ih s (by rw [heq]; simp)
          simp [Ne.symm hc, this]
        · exact ih t (by rw [heq]; simp [h])

theorem splitSlash_append (a b : Path) : splitSlash (a ++ slash :: b) = splitSlash a ++ splitSlash b := by
  induction a with
  | nil => simp [splitSlash]
  | cons c cs ih =>
    by_cases hc : c = slash
    · simp [splitSlash, hc, ih]
    · rw [List.cons_append, splitSlash_cons_ne hc, splitSlash_cons_ne hc, ih]
      cases hs : splitSlash cs with
      | nil => exact absurd hs (splitSlash_ne_nil cs)
      | cons s ss => simp [consHead]

theorem splitSlash_noslash (s : Seg) (h : slash ∉ s) : splitSlash s = [s] := by
  induction s with
  | nil => simp [splitSlash]
  | cons c cs ih =>
    have hc : c ≠ slash := fun e => h (by simp [e])
    have hcs : slash ∉ cs := fun e => h (by simp [e])
    rw [splitSlash_cons_ne hc, ih hcs]; rfl

theorem splitSlash_joinSlash (segs : List Seg) (h : ∀ s ∈ segs, slash ∉ s) (hne : segs ≠ []) :
    splitSlash (joinSlash segs) = segs := by
  induction segs with
  | nil => exact absurd rfl hne
  | cons s ss ih =>
    cases ss with
    | nil => simp [joinSlash, splitSlash_noslash s (h s (by simp))]
    | cons t ts =>
      rw [joinSlash, splitSlash_append, splitSlash_noslash s (h s (by simp)),
        ih (fun x hx => h x (by simp [hx])) (List.cons_ne_nil _ _)]
      simp

theorem joinSlash_splitSlash (p : Path) : joinSlash (splitSlash p) = p := by
  induction p with
  | nil => simp [splitSlash, joinSlash]
  | cons c cs ih =>
    by_cases hc : c = slash
    · subst hc; rw [splitSlash_cons_slash]
      cases hs : splitSlash cs with
      | nil => exact absurd hs (splitSlash_ne_nil cs)
      | cons s ss => rw [joinSlash, ← hs, ih]; simp
    · rw [splitSlash_cons_ne hc]
      cases hs : splitSlash cs with
      | nil => exact absurd hs (splitSlash_ne_nil cs)
      | cons s ss =>
        rw [hs] at ih
        cases ss with
        | nil => simp only [joinSlash] at ih; simp [consHead, joinSlash, ih]
        | cons t ts => simp only [joinSlash] at ih; simp [consHead, joinSlash, ih]

theorem joinSlash_concat (Q : List Seg) (s : Seg) :
    joinSlash (Q ++ [s]) = if Q = [] then s else joinSlash Q ++ slash :: s := by
  induction Q with
  | nil => simp [joinSlash]
  | cons q qs ih =>
    cases qs with
    | nil => simp [joinSlash]
    | cons t ts =>
      simp only [List.cons_append] at ih ⊢
      rw [joinSlash, ih]
      simp [joinSlash]

/-! ## Shape of the element stack -/

/-- shape of the `Clean` stack (top first): normal elements on top of a run of `..`, which is
empty for rooted paths. -/
def StackForm (rooted : Bool) (stk : List Seg) : Prop :=
  ∃ k ns, stk = ns ++ List.replicate k dotdotSeg ∧ (∀ s ∈ ns, Normal s) ∧ (rooted = true → k = 0)

theorem normal_ne_dotdot {s : Seg} (h : Normal s) : s ≠ dotdotSeg := h.2.2.1

theorem cleanStep_form {r : Bool} {stk : List Seg} {e : Seg} (hs : StackForm r stk) (he : slash ∉ e) :
    StackForm r (cleanStep r stk e) := by
  obtain ⟨k, ns, rfl, hn, hr⟩ := hs
  unfold cleanStep
  by_cases h1 : e = [] ∨ e = dotSeg
  · rw [if_pos h1]; exact ⟨k, ns, rfl, hn, hr⟩
  · rw [if_neg h1]
    by_cases h2 : e = dotdotSeg
    · rw [if_pos h2]
      cases ns with
      | nil =>
        cases k with
        | zero =>
          simp only [List.replicate, List.append_nil]
          cases r with
          | true => exact ⟨0, [], by simp, by simp, by simp⟩
          | false => exact ⟨1, [], by simp [List.replicate], by simp, by simp⟩
        | succ k =>
          simp only [List.replicate_succ, List.nil_append, if_true]
          refine ⟨k + 2, [], by simp [List.replicate_succ], by simp, ?_⟩
          intro h; have := hr h; omega
      | cons n ns =>
        have hne : n ≠ dotdotSeg := normal_ne_dotdot (hn n (by simp))
        simp only [List.cons_append, if_neg hne]
        exact ⟨k, ns, rfl, fun s h => hn s (by simp [h]), hr⟩
    · rw [if_neg h2]
      refine ⟨k, e :: ns, by simp, ?_, hr⟩
      intro s hs
      simp only [List.mem_cons] at hs
      rcases hs with h | h
      · subst h; exact ⟨fun h => h1 (Or.inl h), fun h => h1 (Or.inr h), h2, he⟩
      · exact hn s h

theorem foldl_cleanStep_form {r : Bool} (segs : List Seg) (hseg : ∀ s ∈ segs, slash ∉ s) :
    ∀ stk, StackForm r stk → StackForm r (segs.foldl (cleanStep r) stk) := by
  induction segs with
  | nil => intro stk h; exact h
  | cons e es ih =>
    intro stk h
    exact ih (fun s hs => hseg s (by simp [hs])) _ (cleanStep_form h (hseg e (by simp)))

/-- `Clean`'s result is `k` leading `..` elements followed by normal elements, `k = 0` when rooted. -/
theorem cleanSegs_form (p : Path) :
    ∃ k ns, cleanSegs p = List.replicate k dotdotSeg ++ ns ∧ (∀ s ∈ ns, Normal s) ∧ (isAbs p = true → k = 0) := by
  obtain ⟨k, ns, h, hn, hr⟩ := foldl_cleanStep_form (r := isAbs p) (splitSlash p) (splitSlash_no_slash p) []
    ⟨0, [], by simp, by simp, by simp⟩
  refine ⟨k, ns.reverse, ?_, fun s hs => hn s (by simpa using hs), hr⟩
  unfold cleanSegs
  rw [h]; simp

/-! ## Already-clean input: only normal, empty and `.` elements -/

/-- an element `Clean` either keeps or silently drops. -/
def Benign (s : Seg) : Prop := Normal s ∨ s = [] ∨ s = dotSeg

theorem cleanStep_benign {r : Bool} {stk : List Seg} {e : Seg} (h : Benign e) :
    cleanStep r stk e = if Normal e then e :: stk else stk := by
  unfold cleanStep
  rcases h with h | h | h
  · have h1 : ¬ (e = [] ∨ e = dotSeg) := fun x => x.elim h.1 h.2.1
    rw [if_neg h1, if_neg h.2.2.1, if_pos h]
  · subst h; simp [Normal]
  · subst h; simp [Normal]

theorem foldl_cleanStep_benign {r : Bool} (segs : List Seg) (h : ∀ s ∈ segs, Benign s) :
    ∀ stk, segs.foldl (cleanStep r) stk = (segs.filter (fun s => decide (Normal s))).reverse ++ stk := by
  induction segs with
  | nil => intro stk; rfl
  | cons e es ih =>
    intro stk
    rw [List.foldl_cons, cleanStep_benign (h e (by simp)), ih (fun s hs => h s (by simp [hs]))]
    by_cases hn : Normal e
    · simp [hn]
    · simp [hn]

theorem cleanSegs_benign (p : Path) (h : ∀ s ∈ splitSlash p, Benign s) :
    cleanSegs p = (splitSlash p).filter (fun s => decide (Normal s)) := by
  unfold cleanSegs
  rw [foldl_cleanStep_benign _ h]; simp

end Conduit.Registry
