import ConduitModel.Model.PathCleanBytes
import ConduitModel.Proofs.PathClean

/-!
The byte-level `filepath.Clean` loop (`cleanBytes`) computes exactly the element-level model
(`clean`): the write buffer always spells the element stack, `dotdot` always marks the end of the
leading `..` run (or the root slash).
-/
namespace Conduit.Registry

/-- fold of the element-level step over the elements of an unread suffix. -/
def foldSegs (rooted : Bool) (stk : List Seg) (rest : Path) : List Seg :=
  (splitSlash rest).foldl (cleanStep rooted) stk

/-- what the write buffer holds for an element stack (top first). -/
def outOf (rooted : Bool) (stk : List Seg) : Path :=
  (if rooted then [slash] else []) ++ joinSlash stk.reverse

theorem clean_abs' {p : Path} (h : isAbs p = true) : clean p = slash :: joinSlash (cleanSegs p) := by
  simp [clean, h]

theorem cleanStep_nil (r : Bool) (stk : List Seg) : cleanStep r stk [] = stk := by simp [cleanStep]

theorem foldSegs_slash (r : Bool) (stk : List Seg) (rest : Path) :
    foldSegs r stk (slash :: rest) = foldSegs r stk rest := by
  simp [foldSegs, splitSlash_cons_slash, cleanStep_nil]

theorem foldSegs_nil (r : Bool) (stk : List Seg) : foldSegs r stk [] = stk := by
  simp [foldSegs, splitSlash, cleanStep_nil]

theorem elemEnd_cases {rest : Path} (h : elemEnd rest = true) : rest = [] ∨ ∃ r', rest = slash :: r' := by
  cases rest with
  | nil => exact Or.inl rfl
  | cons c r' => right; simp only [elemEnd, beq_iff_eq] at h; exact ⟨r', by rw [h]⟩

/-- consuming one whole element `e` (no separator inside) that is followed by a separator or the end. -/
theorem foldSegs_elem (r : Bool) (stk : List Seg) (e : Seg) (rest : Path) (he : slash ∉ e)
    (hend : elemEnd rest = true) : foldSegs r stk (e ++ rest) = foldSegs r (cleanStep r stk e) rest := by
  rcases elemEnd_cases hend with rfl | ⟨r', rfl⟩
  · simp [foldSegs, splitSlash_noslash e he, splitSlash, cleanStep_nil]
  · rw [foldSegs_slash]
    simp [foldSegs, splitSlash_append, splitSlash_noslash e he]

/-! ## The write buffer -/

def pre (rooted : Bool) : Path := if rooted then [slash] else []

theorem outOf_nil (r : Bool) : outOf r [] = pre r := by simp [outOf, pre, joinSlash]

theorem outOf_cons (r : Bool) (e : Seg) (stk : List Seg) :
    outOf r (e :: stk) = if stk = [] then pre r ++ e else outOf r stk ++ slash :: e := by
  unfold outOf pre
  rw [List.reverse_cons, joinSlash_concat]
  by_cases h : stk = []
  · subst h; simp
  · have : stk.reverse ≠ [] := by simpa using h
    simp [h, this]

theorem outOf_length_le (r : Bool) (ns dots : List Seg) :
    (outOf r dots).length ≤ (outOf r (ns ++ dots)).length := by
  induction ns with
  | nil => simp
  | cons n ns ih =>
    rw [List.cons_append, outOf_cons]
    by_cases h : ns ++ dots = []
    · have hd : dots = [] := (List.append_eq_nil_iff.mp h).2
      subst hd; rw [if_pos h, outOf_nil]; simp
    · rw [if_neg h]; simp only [List.length_append, List.length_cons]; omega

theorem outOf_length_lt (r : Bool) (n : Seg) (ns dots : List Seg) (hn : n ≠ []) :
    (outOf r dots).length < (outOf r ((n :: ns) ++ dots)).length := by
  rw [List.cons_append, outOf_cons]
  have hpos : 0 < n.length := List.length_pos_iff.mpr hn
  by_cases h : ns ++ dots = []
  · have hd : dots = [] := (List.append_eq_nil_iff.mp h).2
    subst hd; rw [if_pos h, outOf_nil]; simp only [List.length_append]; omega
  · rw [if_neg h]
    have := outOf_length_le r ns dots
    simp only [List.length_append, List.length_cons]; omega

/-! ## Backtracking -/

theorem backtrack_noslash (dd : Nat) (T : List Nat) (hT : dd ≤ T.length) :
    ∀ (l : List Nat), l ≠ [] → (∀ c ∈ l, c ≠ slash) →
      backtrack (l ++ T) dd = if dd < T.length then backtrack T dd else T := by
  intro l
  induction l with
  | nil => intro h; exact absurd rfl h
  | cons h t ih =>
    intro _ hall
    have hh : h ≠ slash := hall h (by simp)
    by_cases ht : t = []
    · subst ht
      simp only [List.cons_append, List.nil_append, backtrack]
      by_cases hlt : dd < T.length
      · simp [hlt, hh]
      · simp [hlt]
    · have := ih ht (fun c hc => hall c (by simp [hc]))
      simp only [List.cons_append, backtrack]
      have hlen : dd < (t ++ T).length := by
        have : 0 < t.length := List.length_pos_iff.mpr ht
        simp only [List.length_append]; omega
      rw [if_pos ⟨hlen, hh⟩]
      exact this

/-! ## The loop invariant -/

/-- the buffer spells the stack; `dotdot` is the length of what spells the leading `..` run
(non-rooted) or of the root slash (rooted). -/
def Rel (rooted : Bool) (stk : List Seg) (rout : List Nat) (dd : Nat) : Prop :=
  ∃ k ns, stk = ns ++ List.replicate k dotdotSeg ∧ (∀ s ∈ ns, Normal s) ∧ (rooted = true → k = 0) ∧
    rout = (outOf rooted stk).reverse ∧ dd = (outOf rooted (List.replicate k dotdotSeg)).length

theorem pre_length (r : Bool) : (pre r).length = if r then 1 else 0 := by cases r <;> simp [pre]

theorem outOf_length_pre (r : Bool) (stk : List Seg) (h : ∀ s ∈ stk, s ≠ []) :
    (outOf r stk).length = (pre r).length ↔ stk = [] := by
  constructor
  · intro hl
    cases stk with
    | nil => rfl
    | cons e t =>
      exfalso
      have := outOf_length_lt r e t [] (h e (by simp))
      rw [outOf_nil, List.append_nil] at this
      omega
  · rintro rfl; rw [outOf_nil]

theorem rel_elems_ne_nil {k : Nat} {ns : List Seg} (hn : ∀ s ∈ ns, Normal s) :
    ∀ s ∈ ns ++ List.replicate k dotdotSeg, s ≠ [] := by
  intro s hs
  rcases List.mem_append.mp hs with h | h
  · exact (hn s h).1
  · rw [List.eq_of_mem_replicate h]; simp [dotdotSeg]

/-- pushing a normal element. -/
theorem rel_push {rooted : Bool} {stk : List Seg} {rout : List Nat} {dd : Nat} (h : Rel rooted stk rout dd)
    {e : Seg} (he : Normal e) :
    Rel rooted (e :: stk)
      (e.reverse ++ (if (rooted = true ∧ rout.length ≠ 1) ∨ (rooted = false ∧ rout.length ≠ 0) then slash :: rout else rout)) dd := by
  obtain ⟨k, ns, rfl, hn, hr, rfl, rfl⟩ := h
  refine ⟨k, e :: ns, by simp, ?_, hr, ?_, rfl⟩
  · intro s hs; simp only [List.mem_cons] at hs; rcases hs with rfl | hs; exact he; exact hn s hs
  · have hne := rel_elems_ne_nil (k := k) hn
    have hlen := outOf_length_pre rooted _ hne
    rw [outOf_cons, List.length_reverse]
    by_cases hs : ns ++ List.replicate k dotdotSeg = []
    · rw [if_pos hs]
      have hl : (outOf rooted (ns ++ List.replicate k dotdotSeg)).length = (pre rooted).length := hlen.mpr hs
      rw [pre_length] at hl
      have : ¬ ((rooted = true ∧ (outOf rooted (ns ++ List.replicate k dotdotSeg)).length ≠ 1) ∨
          (rooted = false ∧ (outOf rooted (ns ++ List.replicate k dotdotSeg)).length ≠ 0)) := by
        cases rooted <;> simp_all
      rw [if_neg this, hs, outOf_nil]; simp
    · rw [if_neg hs]
      have hl : (outOf rooted (ns ++ List.replicate k dotdotSeg)).length ≠ (pre rooted).length :=
        fun x => hs (hlen.mp x)
      rw [pre_length] at hl
      have : (rooted = true ∧ (outOf rooted (ns ++ List.replicate k dotdotSeg)).length ≠ 1) ∨
          (rooted = false ∧ (outOf rooted (ns ++ List.replicate k dotdotSeg)).length ≠ 0) := by
        cases rooted <;> simp_all
      rw [if_pos this]; simp

/-- `out.w > dotdot` exactly when a normal element is on top. -/
theorem rel_can_backtrack {rooted : Bool} {k : Nat} {ns : List Seg} (hn : ∀ s ∈ ns, Normal s) :
    (outOf rooted (List.replicate k dotdotSeg)).length < (outOf rooted (ns ++ List.replicate k dotdotSeg)).length
      ↔ ns ≠ [] := by
  cases ns with
  | nil => simp
  | cons n t =>
    simp only [ne_eq, reduceCtorEq, not_false_eq_true, iff_true]
    exact outOf_length_lt rooted n t _ (hn n (by simp)).1

/-- popping the normal element on top = the byte-level backtracking. -/
theorem rel_pop {rooted : Bool} {k : Nat} {n : Seg} {ns : List Seg} (hn : ∀ s ∈ n :: ns, Normal s) :
    backtrack (outOf rooted ((n :: ns) ++ List.replicate k dotdotSeg)).reverse
        (outOf rooted (List.replicate k dotdotSeg)).length
      = (outOf rooted (ns ++ List.replicate k dotdotSeg)).reverse := by
  have hnn : Normal n := hn n (by simp)
  have hrev_ne : n.reverse ≠ [] := by simpa using hnn.1
  have hrev_ns : ∀ c ∈ n.reverse, c ≠ slash := by
    intro c hc hcs; exact hnn.2.2.2 (by rw [← hcs]; simpa using hc)
  rw [List.cons_append, outOf_cons]
  by_cases hs : ns ++ List.replicate k dotdotSeg = []
  · have hk : List.replicate k dotdotSeg = [] := (List.append_eq_nil_iff.mp hs).2
    rw [if_pos hs, hs, hk, outOf_nil, List.reverse_append]
    rw [backtrack_noslash _ _ (by simp) _ hrev_ne hrev_ns]
    simp
  · rw [if_neg hs]
    have hle := outOf_length_le rooted ns (List.replicate k dotdotSeg)
    rw [List.reverse_append, List.reverse_cons]
    have : (n.reverse ++ [slash]) = n.reverse ++ [slash] := rfl
    rw [List.append_assoc]
    rw [backtrack_noslash _ _ (by simp; omega) _ hrev_ne hrev_ns]
    have hlt : (outOf rooted (List.replicate k dotdotSeg)).length <
        ([slash] ++ (outOf rooted (ns ++ List.replicate k dotdotSeg)).reverse).length := by simp; omega
    rw [if_pos hlt]
    simp [backtrack]

theorem cleanStep_dot (r : Bool) (stk : List Seg) : cleanStep r stk dotSeg = stk := by simp [cleanStep]

theorem cleanStep_normal (r : Bool) (stk : List Seg) {e : Seg} (h : Normal e) : cleanStep r stk e = e :: stk := by
  unfold cleanStep
  rw [if_neg (fun x => x.elim h.1 h.2.1), if_neg h.2.2.1]

theorem takeWhile_noslash (l : Path) : slash ∉ l.takeWhile (· ≠ slash) := by
  induction l with
  | nil => simp
  | cons c t ih =>
    by_cases hc : c = slash
    · simp [List.takeWhile, hc]
    · simp only [List.takeWhile, ne_eq, hc, not_false_eq_true, decide_true, List.mem_cons, not_or]
      exact ⟨fun h => hc h.symm, ih⟩

theorem dropWhile_elemEnd (l : Path) : elemEnd (l.dropWhile (· ≠ slash)) = true := by
  induction l with
  | nil => rfl
  | cons c t ih =>
    by_cases hc : c = slash
    · subst hc; simp [List.dropWhile, elemEnd]
    · simp only [List.dropWhile, ne_eq, hc, not_false_eq_true, decide_true]; exact ih

theorem dropWhile_length_le (l : Path) : (l.dropWhile (· ≠ slash)).length ≤ l.length := by
  induction l with
  | nil => simp
  | cons c t ih =>
    simp only [List.dropWhile]
    split
    · simp only [List.length_cons]; omega
    · simp

/-- the byte-level loop computes the element-level fold. -/
theorem cleanLoop_eq (rooted : Bool) : ∀ (fuel : Nat) (rest : Path) (stk : List Seg) (rout : List Nat) (dd : Nat),
    rest.length < fuel → Rel rooted stk rout dd →
    cleanLoop rooted fuel rest rout dd = (outOf rooted (foldSegs rooted stk rest)).reverse := by
  intro fuel
  induction fuel with
  | zero => intro rest _ _ _ h; omega
  | succ fuel ih =>
    intro rest stk rout dd hfuel hrel
    cases rest with
    | nil =>
      obtain ⟨k, ns, -, -, -, hr, -⟩ := hrel
      simp only [cleanLoop, foldSegs_nil]; exact hr
    | cons c rest =>
      have hlen : rest.length < fuel := by simp only [List.length_cons] at hfuel; omega
      rw [cleanLoop]
      by_cases h1 : c = slash
      · subst h1
        rw [if_pos rfl, foldSegs_slash]
        exact ih rest stk rout dd hlen hrel
      · rw [if_neg h1]
        by_cases h2 : c = dotc ∧ elemEnd rest = true
        · rw [if_pos h2]
          obtain ⟨rfl, hend⟩ := h2
          have : foldSegs rooted stk (dotc :: rest) = foldSegs rooted stk rest := by
            have := foldSegs_elem rooted stk dotSeg rest (by decide) hend
            rw [cleanStep_dot] at this
            exact this
          rw [this]
          exact ih rest stk rout dd hlen hrel
        · rw [if_neg h2]
          by_cases h3 : c = dotc ∧ rest.head? = some dotc ∧ elemEnd (rest.drop 1) = true
          · rw [if_pos h3]
            obtain ⟨rfl, hhead, hend⟩ := h3
            cases rest with
            | nil => simp at hhead
            | cons d r2 =>
              simp only [List.head?_cons, Option.some.injEq] at hhead
              subst hhead
              simp only [List.drop_succ_cons, List.drop_zero] at hend ⊢
              have hlen2 : r2.length < fuel := by simp only [List.length_cons] at hlen; omega
              have hfold : foldSegs rooted stk (dotc :: dotc :: r2) = foldSegs rooted (cleanStep rooted stk dotdotSeg) r2 :=
                foldSegs_elem rooted stk dotdotSeg r2 (by decide) hend
              rw [hfold]
              obtain ⟨k, ns, rfl, hn, hr, rfl, rfl⟩ := hrel
              simp only [List.length_reverse]
              cases ns with
              | nil =>
                simp only [List.nil_append, Nat.lt_irrefl, if_false]
                cases rooted with
                | true =>
                  have hk : k = 0 := hr rfl
                  subst hk
                  simp only [List.replicate_zero, Bool.true_eq_false, if_false]
                  have : cleanStep true [] dotdotSeg = [] := by simp [cleanStep, dotdotSeg, dotSeg]
                  rw [this]
                  exact ih r2 [] _ _ hlen2 ⟨0, [], by simp, by simp, by simp, rfl, rfl⟩
                | false =>
                  simp only [if_true]
                  have hstep : cleanStep false (List.replicate k dotdotSeg) dotdotSeg = List.replicate (k + 1) dotdotSeg := by
                    cases k with
                    | zero => simp [cleanStep, dotdotSeg, dotSeg]
                    | succ k => simp [cleanStep, List.replicate_succ, dotdotSeg, dotSeg]
                  rw [hstep]
                  have hout : (outOf false (List.replicate (k + 1) dotdotSeg)).reverse =
                      dotc :: dotc :: (if 0 < (outOf false (List.replicate k dotdotSeg)).length
                        then slash :: (outOf false (List.replicate k dotdotSeg)).reverse
                        else (outOf false (List.replicate k dotdotSeg)).reverse) := by
                    rw [List.replicate_succ, outOf_cons]
                    have hne : ∀ s ∈ List.replicate k dotdotSeg, s ≠ [] := by
                      intro s hs; rw [List.eq_of_mem_replicate hs]; simp [dotdotSeg]
                    have hl := outOf_length_pre false _ hne
                    by_cases hk : List.replicate k dotdotSeg = []
                    · rw [if_pos hk, hk, outOf_nil]; simp [pre, dotdotSeg]
                    · rw [if_neg hk]
                      have : 0 < (outOf false (List.replicate k dotdotSeg)).length := by
                        have := mt hl.mp hk
                        simp only [pre_length, Bool.false_eq_true, if_false] at this
                        omega
                      rw [if_pos this]; simp [dotdotSeg]
                  rw [← hout]
                  refine ih r2 _ _ _ hlen2 ⟨k + 1, [], by simp, by simp, by simp, rfl, ?_⟩
                  simp
              | cons n ns' =>
                have hcan := (rel_can_backtrack (rooted := rooted) (k := k) hn).mpr (by simp)
                rw [if_pos hcan, rel_pop hn]
                have hstep : cleanStep rooted ((n :: ns') ++ List.replicate k dotdotSeg) dotdotSeg
                    = ns' ++ List.replicate k dotdotSeg := by
                  have hne : n ≠ dotdotSeg := (hn n (by simp)).2.2.1
                  unfold cleanStep
                  rw [if_neg (by simp [dotdotSeg, dotSeg]), if_pos rfl]
                  simp only [List.cons_append, if_neg hne]
                rw [hstep]
                exact ih r2 _ _ _ hlen2 ⟨k, ns', rfl, fun s hs => hn s (by simp [hs]), hr, rfl, rfl⟩
          · rw [if_neg h3]
            -- a real element
            have hsplit : c :: rest = (c :: rest).takeWhile (· ≠ slash) ++ (c :: rest).dropWhile (· ≠ slash) :=
              (List.takeWhile_append_dropWhile).symm
            have hns := takeWhile_noslash (c :: rest)
            have hend := dropWhile_elemEnd (c :: rest)
            have hnormal : Normal ((c :: rest).takeWhile (· ≠ slash)) := by
              refine ⟨by simp [List.takeWhile, h1], ?_, ?_, hns⟩
              · intro heq
                apply h2
                have hc : c = dotc := by
                  simp only [List.takeWhile, ne_eq, h1, not_false_eq_true, decide_true, dotSeg, List.cons.injEq] at heq
                  exact heq.1
                refine ⟨hc, ?_⟩
                have hd : (c :: rest).dropWhile (· ≠ slash) = rest := by
                  have := hsplit; rw [heq] at this
                  simp only [dotSeg, List.cons_append, List.nil_append, List.cons.injEq] at this
                  exact this.2.symm
                rw [← hd]; exact hend
              · intro heq
                apply h3
                simp only [List.takeWhile, ne_eq, h1, not_false_eq_true, decide_true, dotdotSeg, List.cons.injEq] at heq
                obtain ⟨hc, ht⟩ := heq
                have hsp := hsplit
                simp only [List.takeWhile, ne_eq, h1, not_false_eq_true, decide_true, ht, List.cons_append,
                  List.nil_append, List.cons.injEq, true_and] at hsp
                cases rest with
                | nil => simp at hsp
                | cons d r2 =>
                  simp only [List.cons.injEq] at hsp
                  refine ⟨hc, by simp [hsp.1], ?_⟩
                  simp only [List.drop_succ_cons, List.drop_zero]
                  rw [hsp.2]; exact hend
            have hfold : foldSegs rooted stk (c :: rest)
                = foldSegs rooted ((c :: rest).takeWhile (· ≠ slash) :: stk) ((c :: rest).dropWhile (· ≠ slash)) := by
              conv => lhs; rw [hsplit]
              rw [foldSegs_elem rooted stk _ _ hns hend, cleanStep_normal rooted stk hnormal]
            rw [hfold]
            have hlen3 : ((c :: rest).dropWhile (· ≠ slash)).length < fuel := by
              have : ((c :: rest).dropWhile (· ≠ slash)).length ≤ rest.length := by
                simp only [List.dropWhile, ne_eq, h1, not_false_eq_true, decide_true]
                exact dropWhile_length_le rest
              omega
            exact ih _ _ _ _ hlen3 (rel_push hrel hnormal)

theorem rel_init_rooted : Rel true [] [slash] 1 := ⟨0, [], by simp, by simp, by simp, by simp [outOf, joinSlash], by simp [outOf, joinSlash]⟩
theorem rel_init_rel : Rel false [] [] 0 := ⟨0, [], by simp, by simp, by simp, by simp [outOf, joinSlash], by simp [outOf, joinSlash]⟩

/-- The byte-level loop of Go's `filepath.Clean` and the element-level model agree on every byte string. -/
theorem cleanBytes_eq_clean (p : Path) : cleanBytes p = clean p := by
  cases p with
  | nil => simp [cleanBytes, clean, cleanSegs, splitSlash, isAbs, cleanStep]
  | cons c rest =>
    unfold cleanBytes
    simp only []
    by_cases hc : c = slash
    · subst hc
      have hl := cleanLoop_eq true ((slash :: rest).length + 1) rest [] [slash] 1 (by simp only [List.length_cons]; omega) rel_init_rooted
      simp only [beq_self_eq_true, if_true]
      rw [hl]
      have habs : isAbs (slash :: rest) = true := by simp [isAbs]
      have hsegs : cleanSegs (slash :: rest) = (foldSegs true [] rest).reverse := by
        unfold cleanSegs foldSegs
        rw [habs, splitSlash_cons_slash, List.foldl_cons, cleanStep_nil]
      rw [clean_abs' habs, hsegs]
      simp [outOf]
    · have hb : (c == slash) = false := by simpa using hc
      have hl := cleanLoop_eq false ((c :: rest).length + 1) (c :: rest) [] [] 0 (by simp) rel_init_rel
      simp only [hb, Bool.false_eq_true, if_false]
      rw [hl]
      have habs : isAbs (c :: rest) = false := by simp [isAbs, hc]
      have hsegs : cleanSegs (c :: rest) = (foldSegs false [] (c :: rest)).reverse := by
        unfold cleanSegs foldSegs; rw [habs]
      unfold clean
      simp only [habs, Bool.false_eq_true, if_false, hsegs]
      -- the buffer is empty exactly when no element is left
      obtain ⟨k, ns, hk, hn, -⟩ := cleanSegs_form (c :: rest)
      rw [hsegs] at hk
      have hne : ∀ s ∈ (foldSegs false [] (c :: rest)).reverse, s ≠ [] := by
        rw [hk]; intro s hs
        rcases List.mem_append.mp hs with h | h
        · rw [List.eq_of_mem_replicate h]; simp [dotdotSeg]
        · exact (hn s h).1
      by_cases hempty : (foldSegs false [] (c :: rest)).reverse = []
      · have : foldSegs false [] (c :: rest) = [] := by simpa using hempty
        simp [this, outOf, joinSlash]
      · rw [if_neg hempty]
        have hjn : joinSlash (foldSegs false [] (c :: rest)).reverse ≠ [] := by
          cases hr : (foldSegs false [] (c :: rest)).reverse with
          | nil => exact absurd hr hempty
          | cons s ss =>
            cases ss with
            | nil => simpa [joinSlash] using hne s (by rw [hr]; simp)
            | cons t ts => simp [joinSlash, hne s (by rw [hr]; simp)]
        have : (outOf false (foldSegs false [] (c :: rest))).reverse ≠ [] := by
          simpa [outOf] using hjn
        rw [if_neg this]
        simp [outOf]

end Conduit.Registry
