import ConduitModel.Model.ProcNode

/-!
Invariants of the `ProcessorNode` event system (`Model/ProcNode.lean`) and their preservation by every
step. Three groups:

* `InvA` — requests: `n.pending`, claims, withdrawals, `done` channels, caller results, the history of
  `n.Processor` values and the set of opened processors;
* `InvB` — records: the `Process` log (stamps), outcomes, counting;
* `InvC` — teardown bookkeeping and `Instance.running`.

Every clause is a named predicate `A.xxx s`; its preservation lemma `A.xxx_step` takes the whole group
invariant of the pre-state, keeps only the clauses it needs (small contexts keep the automation fast) and
goes by cases on the event. `stepA/B/C` assemble them, `reachable_inv` is the induction over all event
lists from `init`.
-/
namespace Conduit.Model.ProcNode

attribute [grind =] upd_same
attribute [grind] upd_other

/-- unfold one step and split it into its guarded cases. -/
macro "step_cases " h:ident : tactic =>
  `(tactic| (simp only [step, route, afterNack] at $h:ident; repeat' (split at $h:ident)))

/-- close every case of a clause-preservation lemma: the clause is untouched (`assumption`) or `grind`. -/
macro "field_step " h:ident : tactic =>
  `(tactic| (step_cases $h:ident;
             all_goals first
               | (cases $h:ident; done)
               | (cases $h:ident; dsimp only at *; first | assumption | grind [Pc.req, Pc.inflight])))

/-! ### small facts about the routing helpers -/

theorem afterNack_pc (f : Fwd) (w : NackWhy) (ok : Bool) :
    (afterNack f w ok).1 = .atApply ∨ (afterNack f w ok).1 = .finalTd := by
  cases w <;> cases ok <;> cases f <;> simp [afterNack]

theorem route_cases (i : Nat) (k : Kind) :
    (∃ f, f ≠ Fwd.passthrough ∧ route i k = .sending i f) ∨ (∃ w, route i k = .nacking i .single w) := by
  cases k <;> simp [route]

@[simp] theorem afterNack_req (f : Fwd) (w : NackWhy) (ok : Bool) : (afterNack f w ok).1.req = none := by
  rcases afterNack_pc f w ok with h | h <;> simp [h, Pc.req]
@[simp] theorem afterNack_inflight (f : Fwd) (w : NackWhy) (ok : Bool) : (afterNack f w ok).1.inflight = none := by
  rcases afterNack_pc f w ok with h | h <;> simp [h, Pc.inflight]
@[simp] theorem route_req (i : Nat) (k : Kind) : (route i k).req = none := by
  cases k <;> simp [route, Pc.req]
@[simp] theorem route_inflight (i : Nat) (k : Kind) : (route i k).inflight = some i := by
  cases k <;> simp [route, Pc.inflight]

/-! ### group A: requests -/
namespace A

def pend_ok (s : State) : Prop := ∀ r, s.pending = some r →
    r ≠ 0 ∧ r ∉ s.claimed ∧ r ∉ s.withdrawn ∧ (s.cst r = .staged ∨ s.cst r = .waiting) ∧ s.done r = none
def claimed_nodup (s : State) : Prop := s.claimed.Nodup
def claimed_started (s : State) : Prop := ∀ r ∈ s.claimed, s.cst r ≠ .idle ∧ r ≠ 0
def withdrawn_ok (s : State) : Prop := ∀ r ∈ s.withdrawn, r ∉ s.claimed ∧ s.cst r = .returned .cancelled
def done_claimed (s : State) : Prop := ∀ r, r ∉ s.claimed → s.done r = none
def done_res (s : State) : Prop := ∀ r res, s.done r = some res →
    (res = .ok ∧ r ∈ s.hist) ∨ (res = .openErr ∧ r ∉ s.hist)
def req_ok (s : State) : Prop := ∀ r, s.pc.req = some r → r ∈ s.claimed ∧ s.done r = none ∧ r ≠ 0
def opening_ok (s : State) : Prop := ∀ r, s.pc = .opening r → r ∉ s.hist ∧ r ∉ s.opened
def tearOld_ok (s : State) : Prop := ∀ old r, s.pc = .tearOld old r → s.cur = r ∧ r ∈ s.hist ∧ old ≠ r ∧ old ∈ s.opened
def tearNew_ok (s : State) : Prop := ∀ r, s.pc = .tearNew r → r ∉ s.hist ∧ r ∈ s.opened
def deliv_ok (s : State) : Prop := ∀ r res, s.pc = .delivering r res →
    (res = .ok ∧ r ∈ s.hist) ∨ (res = .openErr ∧ r ∉ s.hist)
def ret_ok (s : State) : Prop := ∀ r, s.cst r = .returned .ok → r ∈ s.hist
def ret_err (s : State) : Prop := ∀ r, s.cst r = .returned .openErr → r ∉ s.hist ∧ r ∈ s.claimed ∧ s.pc.req ≠ some r
def ret_rej (s : State) : Prop := ∀ r, s.cst r = .returned .rejected → r ∉ s.claimed ∧ r ∉ s.withdrawn
def ret_can (s : State) : Prop := ∀ r, s.cst r = .returned .cancelled → r ∈ s.claimed ∨ r ∈ s.withdrawn
def waiting_ok (s : State) : Prop := ∀ r, s.cst r = .staged ∨ s.cst r = .waiting → s.pending = some r ∨ r ∈ s.claimed
def hist_claimed (s : State) : Prop := ∀ g ∈ s.hist, g = 0 ∨ g ∈ s.claimed
def hist_nodup (s : State) : Prop := s.hist.Nodup
def hist_last (s : State) : Prop := s.hist.getLast? = some s.cur
def opened_claimed (s : State) : Prop := ∀ g ∈ s.opened, g = 0 ∨ g ∈ s.claimed
def opened_nodup (s : State) : Prop := s.opened.Nodup
def init_ok (s : State) : Prop := s.pc = .init → s.opened = [] ∧ s.cur = 0
def cur_opened (s : State) : Prop := s.pc ≠ .init → s.cur ∈ s.opened
def zero_hist (s : State) : Prop := 0 ∈ s.hist
def cur_hist (s : State) : Prop := s.cur ∈ s.hist
def zero_idle (s : State) : Prop := s.cst 0 = .idle
def claimed_opened (s : State) : Prop := ∀ r ∈ s.claimed, s.pc = .opening r ∨ r ∈ s.opened

end A

structure InvA (s : State) : Prop where
  pend_ok : A.pend_ok s
  claimed_nodup : A.claimed_nodup s
  claimed_started : A.claimed_started s
  withdrawn_ok : A.withdrawn_ok s
  done_claimed : A.done_claimed s
  done_res : A.done_res s
  req_ok : A.req_ok s
  opening_ok : A.opening_ok s
  tearOld_ok : A.tearOld_ok s
  tearNew_ok : A.tearNew_ok s
  deliv_ok : A.deliv_ok s
  ret_ok : A.ret_ok s
  ret_err : A.ret_err s
  ret_rej : A.ret_rej s
  ret_can : A.ret_can s
  waiting_ok : A.waiting_ok s
  hist_claimed : A.hist_claimed s
  hist_nodup : A.hist_nodup s
  hist_last : A.hist_last s
  opened_claimed : A.opened_claimed s
  opened_nodup : A.opened_nodup s
  init_ok : A.init_ok s
  cur_opened : A.cur_opened s
  zero_hist : A.zero_hist s
  cur_hist : A.cur_hist s
  zero_idle : A.zero_idle s
  claimed_opened : A.claimed_opened s

theorem initA : InvA init := by
  constructor <;> simp [init, Pc.req, A.pend_ok, A.claimed_nodup, A.claimed_started, A.withdrawn_ok, A.done_claimed,
    A.done_res, A.req_ok, A.opening_ok, A.tearOld_ok, A.tearNew_ok, A.deliv_ok, A.ret_ok, A.ret_err, A.ret_rej,
    A.ret_can, A.waiting_ok, A.hist_claimed, A.hist_nodup, A.hist_last, A.opened_claimed, A.opened_nodup, A.init_ok,
    A.cur_opened, A.zero_hist, A.cur_hist, A.zero_idle, A.claimed_opened]

namespace A
variable {s s' : State} {e : Event}

theorem pend_ok_step (hi : InvA s) (h : step s e = some s') : pend_ok s' := by
  have a1 := hi.pend_ok; have a2 := hi.claimed_started; have a3 := hi.withdrawn_ok
  have a4 := hi.done_claimed; have a5 := hi.req_ok; clear hi
  unfold pend_ok claimed_started withdrawn_ok done_claimed req_ok at *
  cases e <;> field_step h

theorem claimed_nodup_step (hi : InvA s) (h : step s e = some s') : claimed_nodup s' := by
  have a1 := hi.pend_ok; have a2 := hi.claimed_nodup; clear hi
  unfold pend_ok claimed_nodup at *
  cases e <;> field_step h

theorem claimed_started_step (hi : InvA s) (h : step s e = some s') : claimed_started s' := by
  have a1 := hi.pend_ok; have a2 := hi.claimed_started; clear hi
  unfold pend_ok claimed_started at *
  cases e <;> field_step h

theorem withdrawn_ok_step (hi : InvA s) (h : step s e = some s') : withdrawn_ok s' := by
  have a1 := hi.pend_ok; have a2 := hi.withdrawn_ok; clear hi
  unfold pend_ok withdrawn_ok at *
  cases e <;> field_step h

theorem done_claimed_step (hi : InvA s) (h : step s e = some s') : done_claimed s' := by
  have a1 := hi.done_claimed; have a2 := hi.req_ok; clear hi
  unfold done_claimed req_ok at *
  cases e <;> field_step h

theorem done_res_step (hi : InvA s) (h : step s e = some s') : done_res s' := by
  have a1 := hi.done_res; have a2 := hi.req_ok; have a3 := hi.deliv_ok; clear hi
  unfold done_res req_ok deliv_ok at *
  cases e <;> field_step h

theorem req_ok_step (hi : InvA s) (h : step s e = some s') : req_ok s' := by
  have a1 := hi.pend_ok; have a2 := hi.done_claimed; have a3 := hi.req_ok; clear hi
  unfold pend_ok done_claimed req_ok at *
  cases e <;> field_step h

theorem opening_ok_step (hi : InvA s) (h : step s e = some s') : opening_ok s' := by
  have a1 := hi.pend_ok; have a2 := hi.hist_claimed; have a3 := hi.opened_claimed; have a4 := hi.opening_ok; clear hi
  unfold pend_ok hist_claimed opened_claimed opening_ok at *
  cases e <;> field_step h

theorem tearOld_ok_step (hi : InvA s) (h : step s e = some s') : tearOld_ok s' := by
  have a1 := hi.opening_ok; have a2 := hi.cur_opened; have a3 := hi.tearOld_ok; clear hi
  unfold opening_ok cur_opened tearOld_ok at *
  cases e <;> field_step h

theorem tearNew_ok_step (hi : InvA s) (h : step s e = some s') : tearNew_ok s' := by
  have a1 := hi.opening_ok; have a2 := hi.tearNew_ok; clear hi
  unfold opening_ok tearNew_ok at *
  cases e <;> field_step h

theorem deliv_ok_step (hi : InvA s) (h : step s e = some s') : deliv_ok s' := by
  have a1 := hi.tearOld_ok; have a2 := hi.tearNew_ok; have a3 := hi.deliv_ok; clear hi
  unfold tearOld_ok tearNew_ok deliv_ok at *
  cases e <;> field_step h

theorem ret_ok_step (hi : InvA s) (h : step s e = some s') : ret_ok s' := by
  have a1 := hi.ret_ok; have a2 := hi.done_res; clear hi
  unfold ret_ok done_res at *
  cases e <;> field_step h

theorem ret_err_step (hi : InvA s) (h : step s e = some s') : ret_err s' := by
  have a1 := hi.ret_err; have a2 := hi.done_res; have a3 := hi.done_claimed; have a4 := hi.req_ok
  have a5 := hi.pend_ok; clear hi
  unfold ret_err done_res done_claimed req_ok pend_ok at *
  cases e <;> field_step h

theorem ret_rej_step (hi : InvA s) (h : step s e = some s') : ret_rej s' := by
  have a1 := hi.ret_rej; have a2 := hi.pend_ok; have a3 := hi.claimed_started; have a4 := hi.withdrawn_ok
  have a5 := hi.done_res; clear hi
  unfold ret_rej pend_ok claimed_started withdrawn_ok done_res at *
  cases e <;> field_step h

theorem ret_can_step (hi : InvA s) (h : step s e = some s') : ret_can s' := by
  have a1 := hi.ret_can; have a2 := hi.waiting_ok; have a3 := hi.done_res; clear hi
  unfold ret_can waiting_ok done_res at *
  cases e <;> field_step h

theorem waiting_ok_step (hi : InvA s) (h : step s e = some s') : waiting_ok s' := by
  have a1 := hi.waiting_ok; have a2 := hi.pend_ok; clear hi
  unfold waiting_ok pend_ok at *
  cases e <;> field_step h

theorem hist_claimed_step (hi : InvA s) (h : step s e = some s') : hist_claimed s' := by
  have a1 := hi.hist_claimed; have a2 := hi.req_ok; clear hi
  unfold hist_claimed req_ok at *
  cases e <;> field_step h

theorem hist_nodup_step (hi : InvA s) (h : step s e = some s') : hist_nodup s' := by
  have a1 := hi.hist_nodup; have a2 := hi.opening_ok; clear hi
  unfold hist_nodup opening_ok at *
  cases e <;> field_step h

theorem hist_last_step (hi : InvA s) (h : step s e = some s') : hist_last s' := by
  have a1 := hi.hist_last; clear hi
  unfold hist_last at *
  cases e <;> field_step h

theorem opened_claimed_step (hi : InvA s) (h : step s e = some s') : opened_claimed s' := by
  have a1 := hi.opened_claimed; have a2 := hi.req_ok; have a3 := hi.init_ok; clear hi
  unfold opened_claimed req_ok init_ok at *
  cases e <;> field_step h

theorem opened_nodup_step (hi : InvA s) (h : step s e = some s') : opened_nodup s' := by
  have a1 := hi.opened_nodup; have a2 := hi.opening_ok; have a3 := hi.init_ok; clear hi
  unfold opened_nodup opening_ok init_ok at *
  cases e <;> field_step h

theorem init_ok_step (hi : InvA s) (h : step s e = some s') : init_ok s' := by
  have a1 := hi.init_ok; clear hi
  unfold init_ok at *
  cases e <;> field_step h

theorem cur_opened_step (hi : InvA s) (h : step s e = some s') : cur_opened s' := by
  have a1 := hi.cur_opened; clear hi
  unfold cur_opened at *
  cases e <;> field_step h

theorem zero_hist_step (hi : InvA s) (h : step s e = some s') : zero_hist s' := by
  have a1 := hi.zero_hist; clear hi
  unfold zero_hist at *
  cases e <;> field_step h

theorem cur_hist_step (hi : InvA s) (h : step s e = some s') : cur_hist s' := by
  have a1 := hi.cur_hist; clear hi
  unfold cur_hist at *
  cases e <;> field_step h

theorem zero_idle_step (hi : InvA s) (h : step s e = some s') : zero_idle s' := by
  have a1 := hi.zero_idle; clear hi
  unfold zero_idle at *
  cases e <;> field_step h

theorem claimed_opened_step (hi : InvA s) (h : step s e = some s') : claimed_opened s' := by
  have a1 := hi.claimed_opened; have a2 := hi.req_ok; clear hi
  unfold claimed_opened req_ok at *
  cases e <;> field_step h

end A

theorem stepA {s s' : State} {e : Event} (hi : InvA s) (h : step s e = some s') : InvA s' :=
  ⟨A.pend_ok_step hi h, A.claimed_nodup_step hi h, A.claimed_started_step hi h, A.withdrawn_ok_step hi h,
   A.done_claimed_step hi h, A.done_res_step hi h, A.req_ok_step hi h, A.opening_ok_step hi h, A.tearOld_ok_step hi h,
   A.tearNew_ok_step hi h, A.deliv_ok_step hi h, A.ret_ok_step hi h, A.ret_err_step hi h, A.ret_rej_step hi h,
   A.ret_can_step hi h, A.waiting_ok_step hi h, A.hist_claimed_step hi h, A.hist_nodup_step hi h, A.hist_last_step hi h,
   A.opened_claimed_step hi h, A.opened_nodup_step hi h, A.init_ok_step hi h, A.cur_opened_step hi h,
   A.zero_hist_step hi h, A.cur_hist_step hi h, A.zero_idle_step hi h, A.claimed_opened_step hi h⟩

end Conduit.Model.ProcNode
