import ConduitModel.Proofs.ProcNodeA

/-! Invariants of the `ProcessorNode` event system, group B (records): stamps, outcomes, counting.
See `Proofs/ProcNodeA.lean` for the conventions. -/
namespace Conduit.Model.ProcNode

/-! ### group B: records -/
namespace B

def log_sorted (s : State) : Prop := s.log.Pairwise (fun x y => y.ep ≤ x.ep ∧ y.idx < x.idx)
def log_ok (s : State) : Prop := ∀ st ∈ s.log, s.hist[st.ep]? = some st.gen ∧ st.idx < s.nextIn ∧ st.ep < s.hist.length
def outc_range (s : State) : Prop := (s.outc.map (·.idx)).reverse = List.range s.outc.length
def outc_lt (s : State) : Prop := ∀ o ∈ s.outc, o.idx < s.outc.length
def count_ok (s : State) : Prop :=
  (∀ i, s.pc.inflight = some i → i = s.outc.length ∧ s.nextIn = i + 1) ∧ (s.pc.inflight = none → s.nextIn = s.outc.length)
def class_ok (s : State) : Prop := ∀ o ∈ s.outc, (o.fwd ≠ .passthrough ↔ ∃ st ∈ s.log, st.idx = o.idx)
def processing_ok (s : State) : Prop := ∀ i, s.pc = .processing i → ∃ st ∈ s.log, st.idx = i ∧ st.gen = s.cur
def sending_ok (s : State) : Prop := ∀ i f, s.pc = .sending i f → (f ≠ .passthrough ↔ ∃ st ∈ s.log, st.idx = i)
def nacking_ok (s : State) : Prop := ∀ i f w, s.pc = .nacking i f w → (f ≠ .passthrough ↔ ∃ st ∈ s.log, st.idx = i)

end B

structure InvB (s : State) : Prop where
  log_sorted : B.log_sorted s
  log_ok : B.log_ok s
  outc_range : B.outc_range s
  outc_lt : B.outc_lt s
  count_ok : B.count_ok s
  class_ok : B.class_ok s
  processing_ok : B.processing_ok s
  sending_ok : B.sending_ok s
  nacking_ok : B.nacking_ok s

theorem initB : InvB init := by
  constructor <;> simp [init, Pc.inflight, B.log_sorted, B.log_ok, B.outc_range, B.outc_lt, B.count_ok, B.class_ok,
    B.processing_ok, B.sending_ok, B.nacking_ok]

namespace B
variable {s s' : State} {e : Event}

theorem log_sorted_step (ha : InvA s) (hi : InvB s) (h : step s e = some s') : log_sorted s' := by
  have b1 := hi.log_sorted; have b2 := hi.log_ok; clear hi ha
  unfold log_sorted log_ok at *
  cases e with
  | procCall g i =>
    step_cases h
    · rename_i hc
      cases h; dsimp only
      refine List.pairwise_cons.mpr ⟨fun st hst => ?_, b1⟩
      have := b2 st hst
      dsimp only
      omega
    · cases h
  | _ => field_step h

theorem log_ok_step (ha : InvA s) (hi : InvB s) (h : step s e = some s') : log_ok s' := by
  have b1 := hi.log_ok; have a1 := ha.hist_last; clear hi ha
  unfold log_ok A.hist_last at *
  cases e <;> field_step h

theorem outc_range_step (ha : InvA s) (hi : InvB s) (h : step s e = some s') : outc_range s' := by
  have b1 := hi.outc_range; have b2 := hi.count_ok; clear hi ha
  unfold outc_range count_ok at *
  have key : ∀ (i : Nat) (f : Fwd) (fate : Fate), s.pc.inflight = some i →
      (List.map (·.idx) ((⟨i, f, fate⟩ : Outcome) :: s.outc)).reverse
        = List.range ((⟨i, f, fate⟩ : Outcome) :: s.outc).length := by
    intro i f fate hi'
    have := (b2.1 i hi').1
    simp only [List.map_cons, List.reverse_cons, List.length_cons, List.range_succ, b1, this]
  cases e with
  | sendOk =>
    step_cases h
    all_goals first
      | (cases h; done)
      | (cases h; dsimp only; exact key _ _ _ (by simp only [*, Pc.inflight]))
  | nack ok =>
    step_cases h
    all_goals first
      | (cases h; done)
      | (cases h; dsimp only; exact key _ _ _ (by simp only [*, Pc.inflight]))
  | _ => field_step h

theorem outc_lt_step (ha : InvA s) (hi : InvB s) (h : step s e = some s') : outc_lt s' := by
  have b1 := hi.outc_lt; have b2 := hi.count_ok; clear hi ha
  unfold outc_lt count_ok at *
  cases e <;> field_step h

theorem count_ok_step (ha : InvA s) (hi : InvB s) (h : step s e = some s') : count_ok s' := by
  have b1 := hi.count_ok; clear hi ha
  unfold count_ok at *
  cases e <;> field_step h

theorem class_ok_step (ha : InvA s) (hi : InvB s) (h : step s e = some s') : class_ok s' := by
  have b1 := hi.class_ok; have b2 := hi.outc_lt; have b3 := hi.count_ok; have b4 := hi.sending_ok
  have b5 := hi.nacking_ok; clear hi ha
  unfold class_ok outc_lt count_ok sending_ok nacking_ok at *
  cases e <;> field_step h

theorem processing_ok_step (ha : InvA s) (hi : InvB s) (h : step s e = some s') : processing_ok s' := by
  have b1 := hi.processing_ok; clear hi ha
  unfold processing_ok at *
  cases e with
  | procCall g i =>
    step_cases h
    · rename_i hc
      cases h; dsimp only
      intro j hj
      cases hj
      exact ⟨_, List.mem_cons_self, rfl, hc.2.1⟩
    · cases h
  | _ => field_step h

theorem sending_ok_step (ha : InvA s) (hi : InvB s) (h : step s e = some s') : sending_ok s' := by
  have b1 := hi.sending_ok; have b2 := hi.processing_ok; have b3 := hi.log_ok; clear hi ha
  unfold sending_ok processing_ok log_ok at *
  cases e <;> field_step h

theorem nacking_ok_step (ha : InvA s) (hi : InvB s) (h : step s e = some s') : nacking_ok s' := by
  have b1 := hi.nacking_ok; have b2 := hi.processing_ok; have b3 := hi.sending_ok; clear hi ha
  unfold nacking_ok processing_ok sending_ok at *
  cases e <;> field_step h

end B

theorem stepB {s s' : State} {e : Event} (ha : InvA s) (hi : InvB s) (h : step s e = some s') : InvB s' :=
  ⟨B.log_sorted_step ha hi h, B.log_ok_step ha hi h, B.outc_range_step ha hi h, B.outc_lt_step ha hi h,
   B.count_ok_step ha hi h, B.class_ok_step ha hi h, B.processing_ok_step ha hi h, B.sending_ok_step ha hi h,
   B.nacking_ok_step ha hi h⟩

end Conduit.Model.ProcNode
