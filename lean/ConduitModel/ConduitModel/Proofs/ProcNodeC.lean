import ConduitModel.Proofs.ProcNodeB

/-! Invariants of the `ProcessorNode` event system, group C (teardown bookkeeping, `Instance.running`),
the bundle `Inv` and the induction over all event lists. See `Proofs/ProcNodeA.lean` for the conventions. -/
namespace Conduit.Model.ProcNode

namespace C

/-- the processors on which some teardown was called. -/
def tornGens (s : State) : List Nat := s.torn.map (·.1)

def running (s : State) : Prop := s.instRunning = true ↔ s.pc ≠ .exited
def torn_nodup (s : State) : Prop := (s.torn.map (·.1)).Nodup
def torn_opened (s : State) : Prop := ∀ t ∈ s.torn, t.1 ∈ s.opened
def torn_plain (s : State) : Prop := ∀ t ∈ s.torn, t.2 = true → s.pc = .exited
def cur_live (s : State) : Prop := s.pc ≠ .exited → ∀ t ∈ s.torn, t.1 ≠ s.cur
def tearOld_pending (s : State) : Prop := ∀ old r, s.pc = .tearOld old r → ∀ t ∈ s.torn, t.1 ≠ old
def tearNew_pending (s : State) : Prop := ∀ r, s.pc = .tearNew r → ∀ t ∈ s.torn, t.1 ≠ r
/-- the processor the loop is about to tear down inside `applyPendingSwap`. -/
def tearing : Pc → Option Nat
  | .tearOld old _ => some old
  | .tearNew r => some r
  | _ => none
def accounted (s : State) : Prop := ∀ g ∈ s.opened,
    g ∈ s.torn.map (·.1) ∨ (s.pc ≠ .exited ∧ g = s.cur) ∨ tearing s.pc = some g

end C

structure InvC (s : State) : Prop where
  running : C.running s
  torn_nodup : C.torn_nodup s
  torn_opened : C.torn_opened s
  torn_plain : C.torn_plain s
  cur_live : C.cur_live s
  tearOld_pending : C.tearOld_pending s
  tearNew_pending : C.tearNew_pending s
  accounted : C.accounted s

theorem initC : InvC init := by
  constructor <;> simp [init, C.running, C.torn_nodup, C.torn_opened, C.torn_plain, C.cur_live, C.tearOld_pending,
    C.tearNew_pending, C.accounted, C.tearing]

namespace C
variable {s s' : State} {e : Event}

theorem running_step (ha : InvA s) (hi : InvC s) (h : step s e = some s') : running s' := by
  have c1 := hi.running; clear hi ha
  unfold running at *
  cases e <;> field_step h

theorem torn_nodup_step (ha : InvA s) (hi : InvC s) (h : step s e = some s') : torn_nodup s' := by
  have c1 := hi.torn_nodup; have c2 := hi.cur_live; have c3 := hi.tearOld_pending; have c4 := hi.tearNew_pending
  clear hi ha
  unfold torn_nodup cur_live tearOld_pending tearNew_pending at *
  cases e <;> field_step h

theorem torn_opened_step (ha : InvA s) (hi : InvC s) (h : step s e = some s') : torn_opened s' := by
  have c1 := hi.torn_opened; have a1 := ha.tearOld_ok; have a2 := ha.tearNew_ok; have a3 := ha.cur_opened
  clear hi ha
  unfold torn_opened A.tearOld_ok A.tearNew_ok A.cur_opened at *
  cases e <;> field_step h

theorem torn_plain_step (ha : InvA s) (hi : InvC s) (h : step s e = some s') : torn_plain s' := by
  have c1 := hi.torn_plain; clear hi ha
  unfold torn_plain at *
  cases e <;> field_step h

theorem cur_live_step (ha : InvA s) (hi : InvC s) (h : step s e = some s') : cur_live s' := by
  have c1 := hi.cur_live; have c2 := hi.torn_opened; have a1 := ha.opening_ok; have a2 := ha.tearOld_ok
  have a3 := ha.tearNew_ok; have a4 := ha.cur_hist; clear hi ha
  unfold cur_live torn_opened A.opening_ok A.tearOld_ok A.tearNew_ok A.cur_hist at *
  cases e <;> field_step h

theorem tearOld_pending_step (ha : InvA s) (hi : InvC s) (h : step s e = some s') : tearOld_pending s' := by
  have c1 := hi.tearOld_pending; have c2 := hi.cur_live; clear hi ha
  unfold tearOld_pending cur_live at *
  cases e <;> field_step h

theorem tearNew_pending_step (ha : InvA s) (hi : InvC s) (h : step s e = some s') : tearNew_pending s' := by
  have c1 := hi.tearNew_pending; have c2 := hi.torn_opened; have a1 := ha.opening_ok; clear hi ha
  unfold tearNew_pending torn_opened A.opening_ok at *
  cases e <;> field_step h

theorem accounted_step (ha : InvA s) (hi : InvC s) (h : step s e = some s') : accounted s' := by
  have c1 := hi.accounted; have a1 := ha.init_ok; clear hi ha
  unfold accounted A.init_ok at *
  cases e <;> (step_cases h; all_goals first
    | (cases h; done)
    | (cases h; dsimp only at *; first | assumption | grind [tearing]))

end C

theorem stepC {s s' : State} {e : Event} (ha : InvA s) (hi : InvC s) (h : step s e = some s') : InvC s' :=
  ⟨C.running_step ha hi h, C.torn_nodup_step ha hi h, C.torn_opened_step ha hi h, C.torn_plain_step ha hi h,
   C.cur_live_step ha hi h, C.tearOld_pending_step ha hi h, C.tearNew_pending_step ha hi h, C.accounted_step ha hi h⟩

/-- all invariants. -/
structure Inv (s : State) : Prop where
  a : InvA s
  b : InvB s
  c : InvC s

theorem init_inv : Inv init := ⟨initA, initB, initC⟩

theorem step_preserves_inv {s s' : State} {e : Event} (hi : Inv s) (h : step s e = some s') : Inv s' :=
  ⟨stepA hi.a h, stepB hi.a hi.b h, stepC hi.a hi.c h⟩

theorem run_preserves_inv : ∀ (es : List Event) {s s' : State}, Inv s → run s es = some s' → Inv s'
  | [], s, s', hi, h => by simp only [run, Option.some.injEq] at h; exact h ▸ hi
  | e :: es, s, s', hi, h => by
    simp only [run] at h
    split at h
    · rename_i s1 hs
      exact run_preserves_inv es (step_preserves_inv hi hs) h
    · cases h

/-- every state reachable from `init` by any event list satisfies every invariant. -/
theorem reachable_inv {s : State} (h : Reachable s) : Inv s := by
  obtain ⟨es, hes⟩ := h
  exact run_preserves_inv es init_inv hes

end Conduit.Model.ProcNode
