import ConduitModel.Model.ProcNode
import ConduitModel.Spec.ProcNode

/-! List lemmas about the `Process` log of the `ProcessorNode` model (used by `Props/C13.lean`). -/
namespace Conduit.Model.ProcNode

/-! ### helpers about the stamp log -/

theorem log_epochs_mono {l : List Stamp}
    (hp : l.Pairwise (fun x y => y.ep ≤ x.ep ∧ y.idx < x.idx)) :
    ∀ a ∈ l, ∀ b ∈ l, a.idx ≤ b.idx → a.ep ≤ b.ep := by
  induction l with
  | nil => intro a ha; cases ha
  | cons x xs ih =>
    have hx := (List.pairwise_cons.mp hp).1
    have ht := (List.pairwise_cons.mp hp).2
    intro a ha b hb hab
    rcases List.mem_cons.mp ha with rfl | ha' <;> rcases List.mem_cons.mp hb with rfl | hb'
    · exact Nat.le_refl _
    · have := hx b hb'; omega
    · exact (hx a ha').1
    · exact ih ht a ha' b hb' hab

theorem log_idx_inj {l : List Stamp}
    (hp : l.Pairwise (fun x y => y.ep ≤ x.ep ∧ y.idx < x.idx)) :
    ∀ a ∈ l, ∀ b ∈ l, a.idx = b.idx → a = b := by
  induction l with
  | nil => intro a ha; cases ha
  | cons x xs ih =>
    have hx := (List.pairwise_cons.mp hp).1
    have ht := (List.pairwise_cons.mp hp).2
    intro a ha b hb hab
    rcases List.mem_cons.mp ha with rfl | ha' <;> rcases List.mem_cons.mp hb with rfl | hb'
    · rfl
    · have := hx b hb'; omega
    · have := hx a ha'; omega
    · exact ih ht a ha' b hb' hab

theorem getElem?_inj_of_nodup {l : List Nat} (hn : l.Nodup) {i j g : Nat}
    (hi : l[i]? = some g) (hj : l[j]? = some g) : i = j := by
  induction l generalizing i j with
  | nil => simp at hi
  | cons x xs ih =>
    have hx := (List.nodup_cons.mp hn).1
    have ht := (List.nodup_cons.mp hn).2
    cases i with
    | zero =>
      cases j with
      | zero => rfl
      | succ j =>
        simp only [List.getElem?_cons_zero, Option.some.injEq] at hi
        simp only [List.getElem?_cons_succ] at hj
        exact absurd (hi ▸ List.mem_of_getElem? hj) hx
    | succ i =>
      cases j with
      | zero =>
        simp only [List.getElem?_cons_zero, Option.some.injEq] at hj
        simp only [List.getElem?_cons_succ] at hi
        exact absurd (hj ▸ List.mem_of_getElem? hi) hx
      | succ j =>
        simp only [List.getElem?_cons_succ] at hi hj
        exact congrArg Nat.succ (ih ht hi hj)

/-! Bool ⇐ Prop glue for the executable monitor (`Spec/ProcNode.lean`). -/
open C13 in
theorem pairwiseB_of {α : Type} {rel : α → α → Bool} {R : α → α → Prop} (hr : ∀ a b, R a b → rel a b = true) :
    ∀ {l : List α}, l.Pairwise R → pairwiseB rel l = true
  | [], _ => rfl
  | x :: xs, h => by
    have h1 := (List.pairwise_cons.mp h).1
    have h2 := (List.pairwise_cons.mp h).2
    simp only [pairwiseB, Bool.and_eq_true, List.all_eq_true]
    exact ⟨fun y hy => hr _ _ (h1 y hy), pairwiseB_of hr h2⟩

open C13 in
theorem nodupB_of {l : List Nat} (h : l.Nodup) : nodupB l = true :=
  pairwiseB_of (fun a b hab => by simpa using hab) h

end Conduit.Model.ProcNode
