import ConduitModel.Model.ProcSvc
import ConduitModel.Proofs.ProcNodeC

/-! The node invariants lift to the service-level system; without the wrapper teardown nothing but the
node ever tears a processor down. -/
namespace Conduit.Model.ProcSvc
open Conduit.Model.ProcNode

structure SInv (c : Cfg) (s : State) : Prop where
  node : ProcNode.Inv s.n
  /-- the wrapper tears down only when the source says so … -/
  noTd : c.tdOnError = false → s.svcTorn = []

theorem init_sinv (c : Cfg) : SInv c init := ⟨ProcNode.init_inv, fun _ => rfl⟩

theorem step_sinv {c : Cfg} {s s' : State} {e : Event} (hi : SInv c s) (h : step c s e = some s') : SInv c s' := by
  cases e with
  | node ev =>
    simp only [step, Option.map_eq_some_iff] at h
    obtain ⟨n', hn, rfl⟩ := h
    exact ⟨ProcNode.step_preserves_inv hi.node hn, hi.noTd⟩
  | svcTeardown r =>
    simp only [step] at h
    split at h
    · rename_i hc
      cases h
      refine ⟨hi.node, fun hf => ?_⟩
      simp [hf] at hc
    · cases h
  | svcReturn r =>
    simp only [step] at h
    split at h
    · cases h; exact ⟨hi.node, hi.noTd⟩
    · cases h

theorem run_sinv {c : Cfg} : ∀ (es : List Event) {s s' : State}, SInv c s → run c s es = some s' → SInv c s'
  | [], s, s', hi, h => by simp only [run, Option.some.injEq] at h; exact h ▸ hi
  | e :: es, s, s', hi, h => by
    simp only [run] at h
    split at h
    · rename_i s1 hs
      exact run_sinv es (step_sinv hi hs) h
    · cases h

theorem reachable_sinv {c : Cfg} {s : State} (h : Reachable c s) : SInv c s := by
  obtain ⟨es, hes⟩ := h
  exact run_sinv es (init_sinv c) hes

end Conduit.Model.ProcSvc
