import ConduitModel.Spec.Prov
import ConduitModel.Proofs.CtlStore

/-!
Helper lemmas for C15: (1) every program of the import writes only to the open transaction,
(2) the diff of a configuration with itself is empty, (3) actions other than create/delete of a
connector keep that connector's position and type.
-/
namespace Conduit.Ctl

/-! ## (1) writes go to the transaction -/

/-- with a transaction open, the program leaves the committed store alone and the transaction open. -/
def TxOnly (prog : M Unit) : Prop :=
  ∀ s t, s.tx = some t → (prog s).2.kv = s.kv ∧ ∃ t', (prog s).2.tx = some t'

theorem txOnly_run (f : Svc) : TxOnly f.run := by
  intro s t h
  unfold Svc.run
  split
  · exact ⟨rfl, t, h⟩
  · split
    · exact ⟨rfl, t, h⟩
    · exact ⟨(St.write_tx_some _ _ t (by exact h)).2, _, (St.write_tx_some _ _ t (by exact h)).1⟩

theorem txOnly_seqM (l : List (M Unit)) (h : ∀ a ∈ l, TxOnly a) : TxOnly (seqM l) := by
  induction l with
  | nil => intro s t ht; exact ⟨rfl, t, ht⟩
  | cons a rest ih =>
    intro s t ht
    obtain ⟨h1, t1, h2⟩ := h a List.mem_cons_self s t ht
    simp only [seqM]
    rcases hr : a s with ⟨r, s'⟩
    rw [hr] at h1 h2
    cases r with
    | error e => exact ⟨h1, t1, h2⟩
    | ok u =>
      cases u
      obtain ⟨h3, h4⟩ := ih (fun b hb => h b (List.mem_cons_of_mem _ hb)) s' t1 h2
      exact ⟨by rw [h3, h1], h4⟩

theorem txOnly_ignoreNf (a : M Unit) (h : TxOnly a) : TxOnly (ignoreNf a) := by
  intro s t ht
  obtain ⟨h1, h2⟩ := h s t ht
  unfold ignoreNf
  split <;> simp_all

theorem txOnly_map_run (l : List Svc) : ∀ a ∈ l.map Svc.run, TxOnly a := by
  intro a ha
  obtain ⟨f, _, rfl⟩ := List.mem_map.1 ha
  exact txOnly_run f

theorem txOnly_aliased (v : Variant) (cid : Id) : ∀ fuel i backing, TxOnly (aliasedRemoveLoop v cid fuel i backing) := by
  intro fuel
  induction fuel with
  | zero => intro i b s t ht; exact ⟨rfl, t, ht⟩
  | succ n ih =>
    intro i b s t ht
    simp only [aliasedRemoveLoop]
    split
    · exact ⟨rfl, t, ht⟩
    · obtain ⟨h1, t1, h2⟩ := txOnly_run (svcCnRemProc v cid ‹Id›) s t ht
      split
      · rename_i heq; rw [heq] at h1 h2; exact ⟨h1, t1, h2⟩
      · rename_i heq; rw [heq] at h1 h2
        obtain ⟨h3, h4⟩ := ih _ _ _ t1 h2
        exact ⟨by rw [h3, h1], h4⟩

theorem txOnly_act_run (v : Variant) (a : Act) : TxOnly (a.run v) ∧ TxOnly (a.undo v) := by
  have hcreatePl : ∀ c prov, TxOnly (createPlDo v c prov) := by
    intro c prov
    refine txOnly_seqM _ ?_
    intro a ha
    simp only [List.mem_append, List.mem_cons, List.mem_map, List.not_mem_nil, or_false] at ha
    rcases ha with ((rfl | rfl) | ⟨x, _, rfl⟩) | ⟨x, _, rfl⟩ <;> exact txOnly_run _
  have hcreateCn : ∀ c pid, TxOnly (createCnDo v c pid) := by
    intro c pid
    refine txOnly_seqM _ ?_
    intro a ha
    simp only [List.mem_cons, List.mem_map] at ha
    rcases ha with rfl | ⟨x, _, rfl⟩ <;> exact txOnly_run _
  have hupdPl : ∀ c, TxOnly (updatePlRun v c) := by
    intro c
    refine txOnly_seqM _ ?_
    intro a ha
    simp only [List.mem_cons, List.not_mem_nil, or_false] at ha
    rcases ha with rfl | rfl | rfl | rfl
    · exact txOnly_run _
    · exact txOnly_run _
    · intro s t ht
      simp only
      split
      · exact ⟨rfl, t, ht⟩
      · split
        · exact ⟨rfl, t, ht⟩
        · refine txOnly_seqM _ ?_ s t ht
          intro a ha
          simp only [List.mem_append, List.mem_map] at ha
          rcases ha with ⟨x, _, rfl⟩ | ⟨x, _, rfl⟩ <;> exact txOnly_run _
    · intro s t ht
      simp only
      split
      · exact ⟨rfl, t, ht⟩
      · split
        · exact ⟨rfl, t, ht⟩
        · refine txOnly_seqM _ ?_ s t ht
          intro a ha
          simp only [List.mem_append, List.mem_map] at ha
          rcases ha with ⟨x, _, rfl⟩ | ⟨x, _, rfl⟩ <;> exact txOnly_run _
  have hupdCn : ∀ c, TxOnly (updateCnRun v c) := by
    intro c
    refine txOnly_seqM _ ?_
    intro a ha
    simp only [List.mem_cons, List.not_mem_nil, or_false] at ha
    rcases ha with rfl | rfl
    · exact txOnly_run _
    · intro s t ht
      simp only
      split
      · exact ⟨rfl, t, ht⟩
      · split
        · exact ⟨rfl, t, ht⟩
        · refine txOnly_seqM _ ?_ s t ht
          intro a ha
          simp only [List.mem_cons, List.not_mem_nil, or_false] at ha
          rcases ha with rfl | rfl
          · split
            · refine txOnly_seqM _ ?_
              intro a ha
              obtain ⟨x, _, rfl⟩ := List.mem_map.1 ha
              exact txOnly_run _
            · exact txOnly_aliased _ _ _ _ _
          · refine txOnly_seqM _ ?_
            intro a ha
            obtain ⟨x, _, rfl⟩ := List.mem_map.1 ha
            exact txOnly_run _
  cases a <;> simp only [Act.run, Act.undo, createPlUndo, createCnUndo, createPrDo, createPrUndo, updatePrRun]
  all_goals first
    | exact ⟨hcreatePl _ _, txOnly_ignoreNf _ (txOnly_run _)⟩
    | exact ⟨txOnly_ignoreNf _ (txOnly_run _), hcreatePl _ _⟩
    | exact ⟨hupdPl _, hupdPl _⟩
    | exact ⟨hcreateCn _ _, txOnly_ignoreNf _ (txOnly_run _)⟩
    | exact ⟨txOnly_ignoreNf _ (txOnly_run _), hcreateCn _ _⟩
    | exact ⟨hupdCn _, hupdCn _⟩
    | exact ⟨txOnly_run _, txOnly_ignoreNf _ (txOnly_run _)⟩
    | exact ⟨txOnly_ignoreNf _ (txOnly_run _), txOnly_run _⟩
    | exact ⟨txOnly_run _, txOnly_run _⟩

theorem execActs_txOnly (v : Variant) (l : List Act) : ∀ (done : List Act) (s : St) (t : KV), s.tx = some t →
    (execActs v l done s).2.2.kv = s.kv ∧ ∃ t', (execActs v l done s).2.2.tx = some t' := by
  induction l with
  | nil => intro done s t ht; exact ⟨rfl, t, ht⟩
  | cons a rest ih =>
    intro done s t ht
    obtain ⟨h1, t1, h2⟩ := (txOnly_act_run v a).1 s t ht
    simp only [execActs]
    rcases hr : a.run v s with ⟨r, s'⟩
    rw [hr] at h1 h2
    cases r with
    | error e => exact ⟨h1, t1, h2⟩
    | ok u =>
      cases u
      obtain ⟨h3, h4⟩ := ih (a :: done) s' t1 h2
      exact ⟨by rw [h3, h1], h4⟩

theorem undoActs_txOnly (v : Variant) (l : List Act) : ∀ (s : St) (t : KV), s.tx = some t →
    (undoActs v l s).kv = s.kv ∧ ∃ t', (undoActs v l s).tx = some t' := by
  induction l with
  | nil => intro s t ht; exact ⟨rfl, t, ht⟩
  | cons a rest ih =>
    intro s t ht
    obtain ⟨h1, t1, h2⟩ := (txOnly_act_run v a).2 s t ht
    obtain ⟨h3, h4⟩ := ih _ t1 h2
    exact ⟨by simp only [undoActs]; rw [h3, h1], h4⟩

theorem importPipeline_txOnly (v : Variant) (c : PipeCfg) (prov : Nat) : TxOnly (importPipeline v c prov) := by
  intro s t ht
  unfold importPipeline
  split
  · exact ⟨rfl, t, ht⟩
  · rename_i old _
    obtain ⟨h1, t1, h2⟩ := execActs_txOnly v (build v prov old c) [] s t ht
    rcases hr : execActs v (build v prov old c) [] s with ⟨r, done, s'⟩
    rw [hr] at h1 h2
    cases r with
    | none => exact ⟨h1, t1, h2⟩
    | some e =>
      obtain ⟨h3, h4⟩ := undoActs_txOnly v done s' t1 h2
      exact ⟨by simp only; rw [h3, h1], h4⟩

/-- a failed transactional import leaves the committed store exactly as it was. -/
theorem transactionalImport_store (v : Variant) (c : PipeCfg) (s : St)
    (hf : (transactionalImport v c s).1 ≠ .ok ()) : (transactionalImport v c s).2.kv = s.kv := by
  unfold transactionalImport at hf ⊢
  by_cases h0 : s.failsNow = true
  · simp [h0]
  · simp only [h0, Bool.false_eq_true, if_false] at hf ⊢
    obtain ⟨h1, _⟩ := importPipeline_txOnly v c 1 { s with ctr := s.ctr + 1, tx := some s.kv } s.kv rfl
    rcases hr : importPipeline v c 1 { s with ctr := s.ctr + 1, tx := some s.kv } with ⟨r, s'⟩
    rw [hr] at h1 hf
    cases r with
    | error e => exact h1
    | ok u =>
      cases u
      by_cases hc : s'.failsNow = true
      · simp only [hc, if_true]; exact h1
      · simp [hc] at hf

/-! ## (2) the diff of a configuration with itself is empty -/

/-- ids are unique within each list of the configuration. -/
structure CfgNodup (c : PipeCfg) : Prop where
  conns : (c.conns.map (·.id)).Nodup
  procs : (c.procs.map (·.id)).Nodup
  cprocs : ∀ x ∈ c.conns, (x.procs.map (·.id)).Nodup

theorem find_self_conn (l : List ConnCfg) (h : (l.map (·.id)).Nodup) (x : ConnCfg) (hx : x ∈ l) :
    findConn l x.id = some x := by
  induction l with
  | nil => cases hx
  | cons y ys ih =>
    simp only [List.map_cons, List.nodup_cons] at h
    unfold findConn at ih ⊢
    rcases List.mem_cons.1 hx with rfl | hx'
    · simp [List.find?_cons]
    · have hne : y.id ≠ x.id := fun e => h.1 (e ▸ List.mem_map_of_mem hx')
      simp [List.find?_cons, hne, ih h.2 hx']

theorem find_self_proc (l : List ProcCfg) (h : (l.map (·.id)).Nodup) (x : ProcCfg) (hx : x ∈ l) :
    findProc l x.id = some x := by
  induction l with
  | nil => cases hx
  | cons y ys ih =>
    simp only [List.map_cons, List.nodup_cons] at h
    unfold findProc at ih ⊢
    rcases List.mem_cons.1 hx with rfl | hx'
    · simp [List.find?_cons]
    · have hne : y.id ≠ x.id := fun e => h.1 (e ▸ List.mem_map_of_mem hx')
      simp [List.find?_cons, hne, ih h.2 hx']

/-- `Build(c, c)` is empty: nothing to delete, nothing to create, nothing to update. -/
theorem build_self (v : Variant) (prov : Nat) (c : PipeCfg) (h : CfgNodup c) : build v prov (some c) c = [] := by
  unfold build
  have hold : buildOldFwd v c (some c) = [] := by
    unfold buildOldFwd
    simp only [Option.map_some, Option.getD_some, List.append_eq_nil_iff, List.flatMap_eq_nil_iff]
    refine ⟨fun co hco => ?_, fun po hpo => ?_⟩
    · simp only [find_self_conn _ h.conns co hco, Option.isNone_some, Bool.false_eq_true, if_false, List.nil_append,
        Option.map_some, Option.getD_some, List.flatMap_eq_nil_iff]
      refine ⟨trivial, ?_⟩
      intro po hpo
      simp [find_self_proc _ (h.cprocs co hco) po hpo]
    · simp [find_self_proc _ h.procs po hpo]
  have hnew : buildNew v prov (some c) c = [] := by
    unfold buildNew
    simp only [Option.map_some, Option.getD_some, List.append_eq_nil_iff, List.flatMap_eq_nil_iff]
    refine ⟨⟨by simp [preparePl], fun cn hcn => ?_⟩, fun pn hpn => ?_⟩
    · simp only [find_self_conn _ h.conns cn hcn, Option.map_some, Option.getD_some]
      refine ⟨by simp [prepareCn], ?_⟩
      intro pn hpn
      simp [find_self_proc _ (h.cprocs cn hcn) pn hpn, preparePr]
    · simp [find_self_proc _ h.procs pn hpn, preparePr]
  simp [hold, hnew]

/-! ## (3) positions: only create / delete of a connector can change its `State` -/

/-- the program keeps connector `x` (if it exists) with its position and type. -/
def KeepsConn (x : Id) (prog : M Unit) : Prop :=
  ∀ s c, s.mem.cns x = some c → ∃ c', (prog s).2.mem.cns x = some c' ∧ c'.state = c.state ∧ c'.typ = c.typ

def SvcKeeps (x : Id) (f : Svc) : Prop :=
  ∀ m c, m.cns x = some c → ∃ c', (f.upd m).cns x = some c' ∧ c'.state = c.state ∧ c'.typ = c.typ

theorem keeps_run (x : Id) (f : Svc) (h : SvcKeeps x f) : KeepsConn x f.run := by
  intro s c hc
  unfold Svc.run
  split
  · exact ⟨c, hc, rfl, rfl⟩
  · split
    · by_cases hk : f.keep = true
      · simp only [hk, if_true]; exact ⟨c, hc, rfl, rfl⟩
      · simp only [hk, Bool.false_eq_true, if_false]; exact h _ _ hc
    · simp only [St.write_mem]; exact h _ _ hc

theorem keeps_seqM (x : Id) (l : List (M Unit)) (h : ∀ a ∈ l, KeepsConn x a) : KeepsConn x (seqM l) := by
  induction l with
  | nil => intro s c hc; exact ⟨c, hc, rfl, rfl⟩
  | cons a rest ih =>
    intro s c hc
    obtain ⟨c1, h1, h2, h3⟩ := h a List.mem_cons_self s c hc
    simp only [seqM]
    rcases hr : a s with ⟨r, s'⟩
    rw [hr] at h1
    cases r with
    | error e => exact ⟨c1, h1, h2, h3⟩
    | ok u =>
      cases u
      obtain ⟨c2, g1, g2, g3⟩ := ih (fun b hb => h b (List.mem_cons_of_mem _ hb)) s' c1 h1
      exact ⟨c2, g1, by rw [g2, h2], by rw [g3, h3]⟩

theorem keeps_ignoreNf (x : Id) (a : M Unit) (h : KeepsConn x a) : KeepsConn x (ignoreNf a) := by
  intro s c hc
  obtain ⟨c1, h1, h2, h3⟩ := h s c hc
  unfold ignoreNf
  split <;> simp_all

theorem svcKeeps_pl (x : Id) (f : Svc) (h : ∀ m, (f.upd m).cns = m.cns) : SvcKeeps x f := by
  intro m c hc; exact ⟨c, by rw [h]; exact hc, rfl, rfl⟩

theorem svcKeeps_updCn (x id : Id) (g : Cn → Cn) (hg : ∀ c, (g c).state = c.state ∧ (g c).typ = c.typ)
    (keep : Bool) (pre : Mem → Option Err) :
    SvcKeeps x { pre, upd := fun m => m.updCn id g, kind := .cn, id, keep } := by
  intro m c hc
  simp only [Mem.updCn]
  split
  · rename_i c0 h0
    by_cases hx : x = id
    · subst hx; rw [hc] at h0; cases h0
      exact ⟨g c, by simp, (hg c).1, (hg c).2⟩
    · exact ⟨c, by simp [Map.set, hx, hc], rfl, rfl⟩
  · exact ⟨c, hc, rfl, rfl⟩

theorem updPl_cns (m : Mem) (id : Id) (g : Pl → Pl) : (m.updPl id g).cns = m.cns := by
  unfold Mem.updPl; split <;> rfl
theorem updPr_cns (m : Mem) (id : Id) (g : Pr → Pr) : (m.updPr id g).cns = m.cns := by
  unfold Mem.updPr; split <;> rfl

/-- the action creates or deletes connector `x`. -/
def Act.touches (x : Id) : Act → Bool
  | .createCn c _ => c.id = x
  | .deleteCn c _ => c.id = x
  | _ => false

theorem keeps_aliased (x : Id) (v : Variant) (cid : Id) : ∀ fuel i backing, KeepsConn x (aliasedRemoveLoop v cid fuel i backing) := by
  intro fuel
  induction fuel with
  | zero => intro i b s c hc; exact ⟨c, hc, rfl, rfl⟩
  | succ n ih =>
    intro i b s c hc
    simp only [aliasedRemoveLoop]
    split
    · exact ⟨c, hc, rfl, rfl⟩
    · rename_i rid _
      obtain ⟨c1, h1, h2, h3⟩ := keeps_run x (svcCnRemProc v cid rid)
        (svcKeeps_updCn x cid (fun c => { c with procs := c.procs.erase rid }) (fun c => ⟨rfl, rfl⟩) _ _) s c hc
      split
      · rename_i heq; rw [heq] at h1; exact ⟨c1, h1, h2, h3⟩
      · rename_i heq; rw [heq] at h1
        obtain ⟨c2, g1, g2, g3⟩ := ih _ _ _ c1 h1
        exact ⟨c2, g1, by rw [g2, h2], by rw [g3, h3]⟩

theorem keeps_act (x : Id) (v : Variant) (a : Act) (ht : a.touches x = false) :
    KeepsConn x (a.run v) ∧ KeepsConn x (a.undo v) := by
  have kpl : ∀ f : Svc, (∀ m, (f.upd m).cns = m.cns) → KeepsConn x f.run :=
    fun f h => keeps_run x f (svcKeeps_pl x f h)
  have kPlCreate : ∀ i n d p, KeepsConn x (svcPlCreate i n d p).run := fun _ _ _ _ => kpl _ (fun _ => rfl)
  have kPlDLQ : ∀ i d, KeepsConn x (svcPlUpdateDLQ v i d).run := fun _ _ => kpl _ (fun m => updPl_cns m _ _)
  have kPlAddC : ∀ i j, KeepsConn x (svcPlAddConn v i j).run := fun _ _ => kpl _ (fun m => updPl_cns m _ _)
  have kPlRemC : ∀ i j, KeepsConn x (svcPlRemConn v i j).run := fun _ _ => kpl _ (fun m => updPl_cns m _ _)
  have kPlAddP : ∀ i j, KeepsConn x (svcPlAddProc v i j).run := fun _ _ => kpl _ (fun m => updPl_cns m _ _)
  have kPlRemP : ∀ i j, KeepsConn x (svcPlRemProc v i j).run := fun _ _ => kpl _ (fun m => updPl_cns m _ _)
  have kPlUpd : ∀ i n d, KeepsConn x (svcPlUpdate v i n d).run := fun i n d => kpl _ (fun m => by
    simp only [svcPlUpdate]; split <;> rfl)
  have kPlDel : ∀ i, KeepsConn x (svcPlDelete i).run := fun i => kpl _ (fun m => by
    simp only [svcPlDelete]; split <;> rfl)
  have kPrCreate : ∀ i p t par st w pv c, KeepsConn x (svcPrCreate i p t par st w pv c).run :=
    fun _ _ _ _ _ _ _ _ => kpl _ (fun _ => rfl)
  have kPrDel : ∀ i, KeepsConn x (svcPrDelete i).run := fun _ => kpl _ (fun _ => rfl)
  have kPrUpd : ∀ i p st w c, KeepsConn x (svcPrUpdate v i p st w c).run :=
    fun _ _ _ _ _ => kpl _ (fun m => updPr_cns m _ _)
  have kCnUpd : ∀ i p n st, KeepsConn x (svcCnUpdate v i p n st).run :=
    fun i p n st => keeps_run x _ (svcKeeps_updCn x i (fun c => { c with plugin := p, name := n, settings := st })
      (fun c => ⟨rfl, rfl⟩) _ _)
  have kCnAdd : ∀ i j, KeepsConn x (svcCnAddProc v i j).run :=
    fun i j => keeps_run x _ (svcKeeps_updCn x i (fun c => { c with procs := c.procs ++ [j] }) (fun c => ⟨rfl, rfl⟩) _ _)
  have kCnRem : ∀ i j, KeepsConn x (svcCnRemProc v i j).run :=
    fun i j => keeps_run x _ (svcKeeps_updCn x i (fun c => { c with procs := c.procs.erase j }) (fun c => ⟨rfl, rfl⟩) _ _)
  have hcreatePl : ∀ c prov, KeepsConn x (createPlDo v c prov) := by
    intro c prov
    refine keeps_seqM x _ ?_
    intro a ha
    simp only [List.mem_append, List.mem_cons, List.mem_map, List.not_mem_nil, or_false] at ha
    rcases ha with ((rfl | rfl) | ⟨y, _, rfl⟩) | ⟨y, _, rfl⟩
    · exact kPlCreate _ _ _ _
    · exact kPlDLQ _ _
    · exact kPlAddC _ _
    · exact kPlAddP _ _
  have hupdPl : ∀ c, KeepsConn x (updatePlRun v c) := by
    intro c
    refine keeps_seqM x _ ?_
    intro a ha
    simp only [List.mem_cons, List.not_mem_nil, or_false] at ha
    rcases ha with rfl | rfl | rfl | rfl
    · exact kPlUpd _ _ _
    · exact kPlDLQ _ _
    · intro s cc hc
      simp only
      split
      · exact ⟨cc, hc, rfl, rfl⟩
      · split
        · exact ⟨cc, hc, rfl, rfl⟩
        · refine keeps_seqM x _ ?_ s cc hc
          intro a ha
          simp only [List.mem_append, List.mem_map] at ha
          rcases ha with ⟨y, _, rfl⟩ | ⟨y, _, rfl⟩
          · exact kPlRemC _ _
          · exact kPlAddC _ _
    · intro s cc hc
      simp only
      split
      · exact ⟨cc, hc, rfl, rfl⟩
      · split
        · exact ⟨cc, hc, rfl, rfl⟩
        · refine keeps_seqM x _ ?_ s cc hc
          intro a ha
          simp only [List.mem_append, List.mem_map] at ha
          rcases ha with ⟨y, _, rfl⟩ | ⟨y, _, rfl⟩
          · exact kPlRemP _ _
          · exact kPlAddP _ _
  have hupdCn : ∀ c, KeepsConn x (updateCnRun v c) := by
    intro c
    refine keeps_seqM x _ ?_
    intro a ha
    simp only [List.mem_cons, List.not_mem_nil, or_false] at ha
    rcases ha with rfl | rfl
    · exact kCnUpd _ _ _ _
    · intro s cc hc
      simp only
      split
      · exact ⟨cc, hc, rfl, rfl⟩
      · split
        · exact ⟨cc, hc, rfl, rfl⟩
        · refine keeps_seqM x _ ?_ s cc hc
          intro a ha
          simp only [List.mem_cons, List.not_mem_nil, or_false] at ha
          rcases ha with rfl | rfl
          · split
            · refine keeps_seqM x _ ?_
              intro a ha
              obtain ⟨y, _, rfl⟩ := List.mem_map.1 ha
              exact kCnRem _ _
            · exact keeps_aliased x _ _ _ _ _
          · refine keeps_seqM x _ ?_
            intro a ha
            obtain ⟨y, _, rfl⟩ := List.mem_map.1 ha
            exact kCnAdd _ _
  -- create / delete of another connector
  have hcreateCn : ∀ (c : ConnCfg) pid, c.id ≠ x → KeepsConn x (createCnDo v c pid) := by
    intro c pid hne
    refine keeps_seqM x _ ?_
    intro a ha
    simp only [List.mem_cons, List.mem_map] at ha
    rcases ha with rfl | ⟨y, _, rfl⟩
    · refine keeps_run x _ ?_
      intro m cc hc
      exact ⟨cc, by simp [svcCnCreate, Map.set, Ne.symm hne, hc], rfl, rfl⟩
    · exact kCnAdd _ _
  have hdeleteCn : ∀ (c : ConnCfg), c.id ≠ x → KeepsConn x (createCnUndo c) := by
    intro c hne
    refine keeps_ignoreNf x _ (keeps_run x _ ?_)
    intro m cc hc
    exact ⟨cc, by simp [svcCnDelete, Map.del, Ne.symm hne, hc], rfl, rfl⟩
  cases a <;> simp only [Act.run, Act.undo, createPlUndo, createPrDo, createPrUndo, updatePrRun]
  case createPl c prov => exact ⟨hcreatePl _ _, keeps_ignoreNf x _ (kPlDel _)⟩
  case deletePl c prov => exact ⟨keeps_ignoreNf x _ (kPlDel _), hcreatePl _ _⟩
  case updatePl o n => exact ⟨hupdPl _, hupdPl _⟩
  case createCn c pid =>
    have hne : c.id ≠ x := by simpa [Act.touches] using ht
    exact ⟨hcreateCn c pid hne, hdeleteCn c hne⟩
  case deleteCn c pid =>
    have hne : c.id ≠ x := by simpa [Act.touches] using ht
    exact ⟨hdeleteCn c hne, hcreateCn c pid hne⟩
  case updateCn o n => exact ⟨hupdCn _, hupdCn _⟩
  case createPr c pt par => exact ⟨kPrCreate _ _ _ _ _ _ _ _, keeps_ignoreNf x _ (kPrDel _)⟩
  case deletePr c pt par => exact ⟨keeps_ignoreNf x _ (kPrDel _), kPrCreate _ _ _ _ _ _ _ _⟩
  case updatePr o n => exact ⟨kPrUpd _ _ _ _ _, kPrUpd _ _ _ _ _⟩

theorem keeps_execActs (x : Id) (v : Variant) (l : List Act) (hl : ∀ a ∈ l, a.touches x = false) :
    ∀ (done : List Act) (s : St) (c : Cn), s.mem.cns x = some c → (∀ a ∈ done, a.touches x = false) →
    (∃ c', (execActs v l done s).2.2.mem.cns x = some c' ∧ c'.state = c.state ∧ c'.typ = c.typ) ∧
    ∀ a ∈ (execActs v l done s).2.1, a.touches x = false := by
  induction l with
  | nil => intro done s c hc hd; exact ⟨⟨c, hc, rfl, rfl⟩, hd⟩
  | cons a rest ih =>
    intro done s c hc hd
    obtain ⟨c1, h1, h2, h3⟩ := (keeps_act x v a (hl a List.mem_cons_self)).1 s c hc
    have hd' : ∀ b ∈ a :: done, b.touches x = false := by
      intro b hb; rcases List.mem_cons.1 hb with rfl | hb
      · exact hl _ List.mem_cons_self
      · exact hd b hb
    simp only [execActs]
    rcases hr : a.run v s with ⟨r, s'⟩
    rw [hr] at h1
    cases r with
    | error e => exact ⟨⟨c1, h1, h2, h3⟩, hd'⟩
    | ok u =>
      cases u
      obtain ⟨⟨c2, g1, g2, g3⟩, g4⟩ := ih (fun b hb => hl b (List.mem_cons_of_mem _ hb)) (a :: done) s' c1 h1 hd'
      exact ⟨⟨c2, g1, by rw [g2, h2], by rw [g3, h3]⟩, g4⟩

theorem keeps_undoActs (x : Id) (v : Variant) (l : List Act) (hl : ∀ a ∈ l, a.touches x = false) :
    ∀ (s : St) (c : Cn), s.mem.cns x = some c →
    ∃ c', (undoActs v l s).mem.cns x = some c' ∧ c'.state = c.state ∧ c'.typ = c.typ := by
  induction l with
  | nil => intro s c hc; exact ⟨c, hc, rfl, rfl⟩
  | cons a rest ih =>
    intro s c hc
    obtain ⟨c1, h1, h2, h3⟩ := (keeps_act x v a (hl a List.mem_cons_self)).2 s c hc
    obtain ⟨c2, g1, g2, g3⟩ := ih (fun b hb => hl b (List.mem_cons_of_mem _ hb)) _ c1 h1
    exact ⟨c2, by simpa [undoActs] using g1, by rw [g2, h2], by rw [g3, h3]⟩

theorem preparePr_no_touch (v : Variant) (x : Id) (o n : Option ProcCfg) (pt par : Nat) :
    ∀ a ∈ preparePr v o n pt par, a.touches x = false := by
  intro a ha
  unfold preparePr at ha
  split at ha
  · simp at ha; subst ha; rfl
  · simp at ha; subst ha; rfl
  · split at ha
    · cases ha
    · split at ha
      · simp at ha; rcases ha with rfl | rfl <;> rfl
      · simp at ha; subst ha; rfl
  · cases ha

theorem preparePl_no_touch (x : Id) (prov : Nat) (o n : Option PipeCfg) :
    ∀ a ∈ preparePl prov o n, a.touches x = false := by
  intro a ha
  unfold preparePl at ha
  split at ha
  · simp at ha; subst ha; rfl
  · simp at ha; subst ha; rfl
  · split at ha
    · cases ha
    · simp at ha; subst ha; rfl
  · cases ha

theorem findConn_some_of_mem (l : List ConnCfg) (y : ConnCfg) (hy : y ∈ l) : ∃ z, findConn l y.id = some z := by
  unfold findConn
  cases h : l.find? (·.id = y.id) with
  | some z => exact ⟨z, rfl⟩
  | none =>
    have := List.find?_eq_none.1 h y hy
    simp at this

theorem findConn_id (l : List ConnCfg) (i : Id) (z : ConnCfg) (h : findConn l i = some z) : z.id = i := by
  unfold findConn at h
  have := List.find?_some h
  simpa using this

/-- A connector that is in the old and in the new configuration with the same id and type is
neither created nor deleted by the import's action list. -/
theorem build_no_touch (v : Variant) (prov : Nat) (old new : PipeCfg) (x : Id) (xo xn : ConnCfg)
    (ho : xo ∈ old.conns) (hn : xn ∈ new.conns) (hxo : xo.id = x) (hxn : xn.id = x) (htyp : xo.typ = xn.typ)
    (hno : (old.conns.map (·.id)).Nodup) (hnn : (new.conns.map (·.id)).Nodup) :
    ∀ a ∈ build v prov (some old) new, a.touches x = false := by
  intro a ha
  unfold build at ha
  simp only [List.mem_append, List.mem_reverse] at ha
  rcases ha with ha | ha
  · -- deletions
    unfold buildOldFwd at ha
    simp only [Option.map_some, Option.getD_some, List.mem_append, List.mem_flatMap] at ha
    rcases ha with ⟨co, hco, ha⟩ | ⟨po, _, ha⟩
    · rcases ha with ha | ⟨po, _, ha⟩
      · split at ha
        · rename_i hnone
          simp [prepareCn] at ha
          subst ha
          simp only [Act.touches, decide_eq_false_iff_not]
          intro hid
          obtain ⟨z, hz⟩ := findConn_some_of_mem new.conns xn hn
          rw [hxn, ← hid] at hz
          rw [hz] at hnone; simp at hnone
        · cases ha
      · split at ha
        · exact preparePr_no_touch v x _ _ _ _ a ha
        · cases ha
    · split at ha
      · exact preparePr_no_touch v x _ _ _ _ a ha
      · cases ha
  · -- creations / updates
    unfold buildNew at ha
    simp only [Option.map_some, Option.getD_some, List.mem_append, List.mem_flatMap] at ha
    rcases ha with (ha | ⟨cn, hcn, ha⟩) | ⟨pn, _, ha⟩
    · exact preparePl_no_touch x prov _ _ a ha
    · rcases ha with ha | ⟨pn, _, ha⟩
      · unfold prepareCn at ha
        cases hf : findConn old.conns cn.id with
        | none =>
          simp [hf] at ha
          subst ha
          simp only [Act.touches, decide_eq_false_iff_not]
          intro hid
          obtain ⟨z, hz⟩ := findConn_some_of_mem old.conns xo ho
          rw [hxo, ← hid, hf] at hz; cases hz
        | some co =>
          have hcoid := findConn_id _ _ _ hf
          simp only [hf] at ha
          split at ha
          · cases ha
          · split at ha
            · simp at ha; subst ha; rfl
            · rename_i hne _
              -- delete + create happens only for another connector
              have hcnx : cn.id ≠ x := by
                intro hid
                have e1 : findConn new.conns xn.id = some xn := find_self_conn _ hnn xn hn
                have e2 : findConn new.conns cn.id = some cn := find_self_conn _ hnn cn hcn
                rw [hxn] at e1; rw [hid] at e2
                have hcn' : cn = xn := by rw [e1] at e2; cases e2; rfl
                have e3 : findConn old.conns xo.id = some xo := find_self_conn _ hno xo ho
                rw [hxo, ← hid, hf] at e3
                cases e3
                subst hcn'
                rename_i hne2
                exact hne2 ⟨hcoid, htyp⟩
              simp at ha
              rcases ha with rfl | rfl
              · simp [Act.touches, hcoid, hcnx]
              · simp [Act.touches, hcnx]
      · exact preparePr_no_touch v x _ _ _ _ a ha
    · exact preparePr_no_touch v x _ _ _ _ a ha

end Conduit.Ctl
