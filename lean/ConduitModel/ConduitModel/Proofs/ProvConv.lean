import ConduitModel.Proofs.ProvEff

/-!
C15 convergence, step 2: the effect of an action list decomposes entry by entry; the export of
a state determines its records and conversely.
-/
namespace Conduit.Ctl

/-! ## which entry an action writes -/

def Act.prId : Act → Option Id
  | .createPr c _ _ => some c.id
  | .deletePr c _ _ => some c.id
  | .updatePr _ n => some n.id
  | _ => none

def Act.cnId : Act → Option Id
  | .createCn c _ => some c.id
  | .deleteCn c _ => some c.id
  | .updateCn _ n => some n.id
  | _ => none

def Act.isPl : Act → Bool
  | .createPl .. | .deletePl .. | .updatePl .. => true
  | _ => false

theorem updPr_other (m : Mem) (id j : Id) (f : Pr → Pr) (h : j ≠ id) : (m.updPr id f).prs j = m.prs j := by
  unfold Mem.updPr; split
  · simp [Map.set, h]
  · rfl
theorem updCn_other (m : Mem) (id j : Id) (f : Cn → Cn) (h : j ≠ id) : (m.updCn id f).cns j = m.cns j := by
  unfold Mem.updCn; split
  · simp [Map.set, h]
  · rfl
theorem updPr_cns' (m : Mem) (id : Id) (f : Pr → Pr) : (m.updPr id f).cns = m.cns := by unfold Mem.updPr; split <;> rfl
theorem updPr_pls' (m : Mem) (id : Id) (f : Pr → Pr) : (m.updPr id f).pls = m.pls := by unfold Mem.updPr; split <;> rfl
theorem updPr_names' (m : Mem) (id : Id) (f : Pr → Pr) : (m.updPr id f).names = m.names := by unfold Mem.updPr; split <;> rfl
theorem updCn_prs' (m : Mem) (id : Id) (f : Cn → Cn) : (m.updCn id f).prs = m.prs := by unfold Mem.updCn; split <;> rfl
theorem updCn_pls' (m : Mem) (id : Id) (f : Cn → Cn) : (m.updCn id f).pls = m.pls := by unfold Mem.updCn; split <;> rfl
theorem updCn_names' (m : Mem) (id : Id) (f : Cn → Cn) : (m.updCn id f).names = m.names := by unfold Mem.updCn; split <;> rfl
theorem updPr_prs (m : Mem) (id : Id) (f : Pr → Pr) : (m.updPr id f).prs id = (m.prs id).map f := by
  cases hr : m.prs id <;> simp [Mem.updPr, hr]

/-- an action that is not about processor `y` leaves that entry alone. -/
theorem eff_prs_other (v : Variant) (a : Act) (m : Mem) (y : Id) (h : a.prId ≠ some y) : (a.eff v m).prs y = m.prs y := by
  cases a <;> simp only [Act.eff, Act.prId] at h ⊢
  case deletePl c p => simp only [svcPlDelete]; split <;> rfl
  case updatePl o n => split <;> rfl
  case updateCn o n => rw [updCn_prs']
  case createPr c pt par =>
    have e : y ≠ c.id := fun e => h (by rw [e])
    simp [Map.set, e]
  case deletePr c pt par =>
    have e : y ≠ c.id := fun e => h (by rw [e])
    simp [Map.del, e]
  case updatePr o n => exact updPr_other _ _ _ _ (fun e => h (by rw [e]))

theorem eff_cns_other (v : Variant) (a : Act) (m : Mem) (x : Id) (h : a.cnId ≠ some x) : (a.eff v m).cns x = m.cns x := by
  cases a <;> simp only [Act.eff, Act.cnId] at h ⊢
  case deletePl c p => simp only [svcPlDelete]; split <;> rfl
  case updatePl o n => split <;> rfl
  case createCn c pid =>
    have e : x ≠ c.id := fun e => h (by rw [e])
    simp [Map.set, e]
  case deleteCn c pid =>
    have e : x ≠ c.id := fun e => h (by rw [e])
    simp [Map.del, e]
  case updateCn o n => exact updCn_other _ _ _ _ (fun e => h (by rw [e]))
  case updatePr o n => rw [updPr_cns']

theorem eff_pls_other (v : Variant) (a : Act) (m : Mem) (h : a.isPl = false) :
    (a.eff v m).pls = m.pls ∧ (a.eff v m).names = m.names := by
  cases a <;> simp [Act.isPl] at h <;> simp [Act.eff, updCn_pls', updCn_names', updPr_pls', updPr_names']

theorem effAll_prs_other (v : Variant) (L : List Act) : ∀ (m : Mem) (y : Id), (∀ a ∈ L, a.prId ≠ some y) →
    (effAll v m L).prs y = m.prs y := by
  induction L with
  | nil => intro m y _; rfl
  | cons a r ih =>
    intro m y h
    simp only [effAll]
    rw [ih _ y (fun b hb => h b (List.mem_cons_of_mem _ hb)), eff_prs_other v a m y (h a List.mem_cons_self)]

theorem effAll_cns_other (v : Variant) (L : List Act) : ∀ (m : Mem) (x : Id), (∀ a ∈ L, a.cnId ≠ some x) →
    (effAll v m L).cns x = m.cns x := by
  induction L with
  | nil => intro m x _; rfl
  | cons a r ih =>
    intro m x h
    simp only [effAll]
    rw [ih _ x (fun b hb => h b (List.mem_cons_of_mem _ hb)), eff_cns_other v a m x (h a List.mem_cons_self)]

theorem effAll_pls_other (v : Variant) (L : List Act) : ∀ (m : Mem), (∀ a ∈ L, a.isPl = false) →
    (effAll v m L).pls = m.pls ∧ (effAll v m L).names = m.names := by
  induction L with
  | nil => intro m _; exact ⟨rfl, rfl⟩
  | cons a r ih =>
    intro m h
    simp only [effAll]
    obtain ⟨a1, a2⟩ := ih (a.eff v m) (fun b hb => h b (List.mem_cons_of_mem _ hb))
    obtain ⟨b1, b2⟩ := eff_pls_other v a m (h a List.mem_cons_self)
    exact ⟨a1.trans b1, a2.trans b2⟩

/-! ## which entries the prepared actions are about -/

theorem preparePr_ids (v : Variant) (o n : Option ProcCfg) (pt par : Nat) (y : Id)
    (ho : ∀ po, o = some po → po.id = y) (hn : ∀ pn, n = some pn → pn.id = y) :
    ∀ a ∈ preparePr v o n pt par, a.prId = some y ∧ a.cnId = none ∧ a.isPl = false := by
  intro a ha
  unfold preparePr at ha
  split at ha
  · simp at ha; subst ha; exact ⟨by simp [Act.prId, hn _ rfl], rfl, rfl⟩
  · simp at ha; subst ha; exact ⟨by simp [Act.prId, ho _ rfl], rfl, rfl⟩
  · split at ha
    · cases ha
    · split at ha
      · simp at ha; rcases ha with rfl | rfl
        · exact ⟨by simp [Act.prId, ho _ rfl], rfl, rfl⟩
        · exact ⟨by simp [Act.prId, hn _ rfl], rfl, rfl⟩
      · simp at ha; subst ha; exact ⟨by simp [Act.prId, hn _ rfl], rfl, rfl⟩
  · cases ha

theorem prepareCn_ids (o n : Option ConnCfg) (pid : Id) (x : Id)
    (ho : ∀ co, o = some co → co.id = x) (hn : ∀ cn, n = some cn → cn.id = x) :
    ∀ a ∈ prepareCn o n pid, a.cnId = some x ∧ a.prId = none ∧ a.isPl = false := by
  intro a ha
  unfold prepareCn at ha
  split at ha
  · simp at ha; subst ha; exact ⟨by simp [Act.cnId, hn _ rfl], rfl, rfl⟩
  · simp at ha; subst ha; exact ⟨by simp [Act.cnId, ho _ rfl], rfl, rfl⟩
  · split at ha
    · cases ha
    · split at ha
      · simp at ha; subst ha; exact ⟨by simp [Act.cnId, hn _ rfl], rfl, rfl⟩
      · simp at ha; rcases ha with rfl | rfl
        · exact ⟨by simp [Act.cnId, ho _ rfl], rfl, rfl⟩
        · exact ⟨by simp [Act.cnId, hn _ rfl], rfl, rfl⟩
  · cases ha

theorem preparePl_ids (prov : Nat) (o n : Option PipeCfg) :
    ∀ a ∈ preparePl prov o n, a.isPl = true ∧ a.prId = none ∧ a.cnId = none := by
  intro a ha
  unfold preparePl at ha
  split at ha
  · simp at ha; subst ha; exact ⟨rfl, rfl, rfl⟩
  · simp at ha; subst ha; exact ⟨rfl, rfl, rfl⟩
  · split at ha
    · cases ha
    · simp at ha; subst ha; exact ⟨rfl, rfl, rfl⟩
  · cases ha

theorem findProc_id (l : List ProcCfg) (i : Id) (z : ProcCfg) (h : findProc l i = some z) : z.id = i ∧ z ∈ l := by
  unfold findProc at h
  exact ⟨by simpa using List.find?_some h, List.mem_of_find?_eq_some h⟩

theorem findConn_mem (l : List ConnCfg) (i : Id) (z : ConnCfg) (h : findConn l i = some z) : z.id = i ∧ z ∈ l := by
  unfold findConn at h
  exact ⟨by simpa using List.find?_some h, List.mem_of_find?_eq_some h⟩

theorem findProc_none (l : List ProcCfg) (i : Id) (h : findProc l i = none) : ∀ z ∈ l, z.id ≠ i := by
  unfold findProc at h
  intro z hz
  have := List.find?_eq_none.1 h z hz
  simpa using this

theorem findConn_none (l : List ConnCfg) (i : Id) (h : findConn l i = none) : ∀ z ∈ l, z.id ≠ i := by
  unfold findConn at h
  intro z hz
  have := List.find?_eq_none.1 h z hz
  simpa using this

/-! ## export ⇄ records -/

/-- the processor record carries the configuration `pn`. -/
def PrMatches (r : Pr) (pn : ProcCfg) : Prop :=
  r.plugin = pn.plugin ∧ r.settings = pn.settings ∧ r.workers = pn.workers ∧ r.cond = pn.cond

/-- the connector record carries the configuration `cn` (its own fields and the processor id list). -/
def CnMatches (r : Cn) (cn : ConnCfg) : Prop :=
  r.typ = cn.typ ∧ r.plugin = cn.plugin ∧ r.name = cn.name ∧ r.settings = cn.settings ∧ r.procs = ids cn.procs

theorem procToCfg_of_matches (v : Variant) (hv : v.condExported = true) (r : Pr) (pn : ProcCfg) (h : PrMatches r pn) :
    procToCfg v pn.id r = pn := by
  obtain ⟨a, b, c, d⟩ := h
  cases pn; simp [procToCfg, hv] at *; exact ⟨a, b, c, d⟩

theorem matches_of_procToCfg (v : Variant) (hv : v.condExported = true) (i : Id) (r : Pr) : PrMatches r (procToCfg v i r) := by
  simp [PrMatches, procToCfg, hv]

theorem exportProcs_ok (v : Variant) (hv : v.condExported = true) (m : Mem) (l : List ProcCfg)
    (h : ∀ pn ∈ l, ∃ r, m.prs pn.id = some r ∧ PrMatches r pn) : exportProcs v m (ids l) = .ok l := by
  induction l with
  | nil => rfl
  | cons pn rest ih =>
    obtain ⟨r, hr, hm⟩ := h pn List.mem_cons_self
    have := ih (fun q hq => h q (List.mem_cons_of_mem _ hq))
    simp only [ids, List.map_cons, exportProcs, hr]
    simp only [ids] at this
    rw [this, procToCfg_of_matches v hv r pn hm]

theorem exportProcs_inv (v : Variant) (m : Mem) : ∀ (idl : List Id) (l : List ProcCfg), exportProcs v m idl = .ok l →
    ids l = idl ∧ ∀ pn ∈ l, ∃ r, m.prs pn.id = some r ∧ pn = procToCfg v pn.id r := by
  intro idl
  induction idl with
  | nil => intro l h; simp [exportProcs] at h; subst h; exact ⟨rfl, by simp⟩
  | cons i rest ih =>
    intro l h
    simp only [exportProcs] at h
    cases hr : m.prs i with
    | none => simp [hr] at h
    | some r =>
      simp only [hr] at h
      cases he : exportProcs v m rest with
      | error e => simp [he] at h
      | ok l' =>
        simp only [he] at h
        have : l = procToCfg v i r :: l' := by injection h with h; exact h.symm
        subst this
        obtain ⟨a, b⟩ := ih l' he
        refine ⟨by simp [ids, procToCfg] at a ⊢; exact a, ?_⟩
        intro pn hpn
        rcases List.mem_cons.1 hpn with rfl | hpn
        · exact ⟨r, by simpa [procToCfg] using hr, by simp [procToCfg]⟩
        · exact b pn hpn

theorem exportConns_ok (v : Variant) (hv : v.condExported = true) (m : Mem) (l : List ConnCfg)
    (h : ∀ cn ∈ l, (∃ r, m.cns cn.id = some r ∧ CnMatches r cn) ∧ ∀ pn ∈ cn.procs, ∃ q, m.prs pn.id = some q ∧ PrMatches q pn) :
    exportConns v m (cids l) = .ok l := by
  induction l with
  | nil => rfl
  | cons cn rest ih =>
    obtain ⟨⟨r, hr, a1, a2, a3, a4, a5⟩, hp⟩ := h cn List.mem_cons_self
    have := ih (fun q hq => h q (List.mem_cons_of_mem _ hq))
    have hprocs := exportProcs_ok v hv m cn.procs hp
    simp only [cids, List.map_cons, exportConns, hr]
    simp only [cids] at this
    rw [a5, hprocs]
    simp only [this]
    cases cn; simp at *; exact ⟨a1, a2, a3, a4⟩

theorem exportConns_inv (v : Variant) (m : Mem) : ∀ (idl : List Id) (l : List ConnCfg), exportConns v m idl = .ok l →
    cids l = idl ∧ ∀ cn ∈ l, ∃ r, m.cns cn.id = some r ∧ r.typ = cn.typ ∧ r.plugin = cn.plugin ∧ r.name = cn.name ∧
      r.settings = cn.settings ∧ r.procs = ids cn.procs ∧ ∀ pn ∈ cn.procs, ∃ q, m.prs pn.id = some q ∧ pn = procToCfg v pn.id q := by
  intro idl
  induction idl with
  | nil => intro l h; simp [exportConns] at h; subst h; exact ⟨rfl, by simp⟩
  | cons i rest ih =>
    intro l h
    simp only [exportConns] at h
    cases hr : m.cns i with
    | none => simp [hr] at h
    | some r =>
      simp only [hr] at h
      cases hp : exportProcs v m r.procs with
      | error e => simp [hp] at h
      | ok ps =>
        simp only [hp] at h
        cases he : exportConns v m rest with
        | error e => simp [he] at h
        | ok l' =>
          simp only [he] at h
          injection h with h
          subst h
          obtain ⟨a, b⟩ := ih l' he
          obtain ⟨p1, p2⟩ := exportProcs_inv v m r.procs ps hp
          refine ⟨by simp [cids] at a ⊢; exact a, ?_⟩
          intro cn hcn
          rcases List.mem_cons.1 hcn with rfl | hcn
          · exact ⟨r, hr, rfl, rfl, rfl, rfl, p1.symm, p2⟩
          · exact b cn hcn

/-- the references below pipeline `pid` are intact: its connectors exist and point back to it,
their processors and the pipeline's processors exist and point back to their parent. (The
downward half of the C14 invariant `Refs`, for one pipeline.) -/
structure PlRefs (m : Mem) (pid : Id) : Prop where
  conn : ∀ p cid, m.pls pid = some p → cid ∈ p.conns → ∃ r, m.cns cid = some r ∧ r.pipeline = pid ∧
           ∀ rid ∈ r.procs, ∃ q, m.prs rid = some q ∧ q.ptype = 1 ∧ q.parent = cid
  proc : ∀ p rid, m.pls pid = some p → rid ∈ p.procs → ∃ q, m.prs rid = some q ∧ q.ptype = 2 ∧ q.parent = pid

theorem plRefs_of_refs (m : Mem) (h : Refs m) (pid : Id) : PlRefs m pid := by
  constructor
  · intro p cid hp hc
    obtain ⟨r, hr, hpp⟩ := h.plConn pid p cid hp hc
    exact ⟨r, hr, hpp, fun rid hrid => h.cnProc cid r rid hr hrid⟩
  · intro p rid hp hr
    exact h.plProc pid p rid hp hr

/-- the memory holds exactly the configuration `c` (on every configuration field). -/
structure Target (m : Mem) (c : PipeCfg) : Prop where
  pl : ∃ p, m.pls c.id = some p ∧ p.name = c.name ∧ p.desc = c.desc ∧ p.dlq = c.dlq ∧
         p.conns = cids c.conns ∧ p.procs = ids c.procs
  cn : ∀ cn ∈ c.conns, ∃ r, m.cns cn.id = some r ∧ CnMatches r cn
  cpr : ∀ cn ∈ c.conns, ∀ pn ∈ cn.procs, ∃ q, m.prs pn.id = some q ∧ PrMatches q pn
  pr : ∀ pn ∈ c.procs, ∃ q, m.prs pn.id = some q ∧ PrMatches q pn

/-- the records of `c`'s entities point back to their parents. -/
structure TargetRefs (m : Mem) (c : PipeCfg) : Prop where
  cn : ∀ cn ∈ c.conns, ∀ r, m.cns cn.id = some r → r.pipeline = c.id
  cpr : ∀ cn ∈ c.conns, ∀ pn ∈ cn.procs, ∀ q, m.prs pn.id = some q → q.ptype = 1 ∧ q.parent = cn.id
  pr : ∀ pn ∈ c.procs, ∀ q, m.prs pn.id = some q → q.ptype = 2 ∧ q.parent = c.id

/-- a memory holding `c` with parent pointers has the references below the pipeline intact. -/
theorem plRefs_of_target (m : Mem) (c : PipeCfg) (h : Target m c) (hr : TargetRefs m c) : PlRefs m c.id := by
  obtain ⟨p, hp, _, _, _, a4, a5⟩ := h.pl
  constructor
  · intro p' cid hp' hc
    rw [hp] at hp'; cases hp'
    rw [a4] at hc
    obtain ⟨cn, hcn, rfl⟩ := List.mem_map.1 hc
    obtain ⟨r, hr1, _, _, _, _, e5⟩ := h.cn cn hcn
    refine ⟨r, hr1, hr.cn cn hcn r hr1, ?_⟩
    intro rid hrid
    rw [e5] at hrid
    obtain ⟨pn, hpn, rfl⟩ := List.mem_map.1 hrid
    obtain ⟨q, hq, _⟩ := h.cpr cn hcn pn hpn
    exact ⟨q, hq, hr.cpr cn hcn pn hpn q hq⟩
  · intro p' rid hp' hrid
    rw [hp] at hp'; cases hp'
    rw [a5] at hrid
    obtain ⟨pn, hpn, rfl⟩ := List.mem_map.1 hrid
    obtain ⟨q, hq, _⟩ := h.pr pn hpn
    exact ⟨q, hq, hr.pr pn hpn q hq⟩

theorem exportPl_of_target (v : Variant) (hv : v.condExported = true) (m : Mem) (c : PipeCfg) (h : Target m c) :
    exportPl v m c.id = .ok (some c) := by
  obtain ⟨p, hp, a1, a2, a3, a4, a5⟩ := h.pl
  unfold exportPl
  simp only [hp, a4, a5]
  rw [exportConns_ok v hv m c.conns (fun cn hcn => ⟨h.cn cn hcn, h.cpr cn hcn⟩), exportProcs_ok v hv m c.procs h.pr]
  simp only [a1, a2, a3]

/-- what a successful export says about the records. -/
theorem exportPl_inv (v : Variant) (m : Mem) (pid : Id) (o : PipeCfg) (h : exportPl v m pid = .ok (some o)) :
    ∃ p, m.pls pid = some p ∧ o.id = pid ∧ o.name = p.name ∧ o.desc = p.desc ∧ o.dlq = p.dlq ∧
      cids o.conns = p.conns ∧ ids o.procs = p.procs ∧
      (∀ cn ∈ o.conns, ∃ r, m.cns cn.id = some r ∧ r.typ = cn.typ ∧ r.plugin = cn.plugin ∧ r.name = cn.name ∧
        r.settings = cn.settings ∧ r.procs = ids cn.procs ∧ ∀ pn ∈ cn.procs, ∃ q, m.prs pn.id = some q ∧ pn = procToCfg v pn.id q) ∧
      (∀ pn ∈ o.procs, ∃ q, m.prs pn.id = some q ∧ pn = procToCfg v pn.id q) := by
  unfold exportPl at h
  cases hp : m.pls pid with
  | none => simp [hp] at h
  | some p =>
    simp only [hp] at h
    cases hc : exportConns v m p.conns with
    | error e => simp [hc] at h
    | ok cs =>
      simp only [hc] at h
      cases hr : exportProcs v m p.procs with
      | error e => simp [hr] at h
      | ok ps =>
        simp only [hr] at h
        injection h with h; injection h with h
        subst h
        obtain ⟨c1, c2⟩ := exportConns_inv v m p.conns cs hc
        obtain ⟨r1, r2⟩ := exportProcs_inv v m p.procs ps hr
        exact ⟨p, rfl, rfl, rfl, rfl, rfl, c1, r1, c2, r2⟩

theorem exportPl_none (v : Variant) (m : Mem) (pid : Id) (h : exportPl v m pid = .ok none) : m.pls pid = none := by
  unfold exportPl at h
  cases hp : m.pls pid with
  | none => rfl
  | some p =>
    simp only [hp] at h
    cases hc : exportConns v m p.conns with
    | error e => simp [hc] at h
    | ok cs =>
      simp only [hc] at h
      cases hr : exportProcs v m p.procs <;> simp [hr] at h

/-! ## one processor -/

theorem nodup_of_nodupB : ∀ (l : List Id), nodupB l = true → l.Nodup
  | [], _ => List.nodup_nil
  | x :: xs, h => by
    simp [nodupB] at h
    exact List.nodup_cons.2 ⟨h.1, nodup_of_nodupB xs h.2⟩

/-- the flags under which a processor's `Condition` is carried by the import. -/
structure CondOk (v : Variant) : Prop where
  exported : v.condExported = true
  applied : v.condUpdated = true ∨ v.condRecreates = true

/-- The action(s) prepared for one desired processor `pn`, run from a memory whose entry — if
the processor was found in the old config under the same parent — is the record that config was
exported from: they succeed and leave a record carrying `pn`. -/
theorem procOne (v : Variant) (hc : CondOk v) (pt par : Nat) (fo : Option ProcCfg) (pn : ProcCfg) (μ : Mem)
    (hval : procCfgValid pn = true)
    (hfo : ∀ po, fo = some po → po.id = pn.id ∧ ∃ q, μ.prs pn.id = some q ∧ po = procToCfg v pn.id q ∧ q.ptype = pt ∧ q.parent = par) :
    PreAll v μ (preparePr v fo (some pn) pt par) ∧
    ∃ q, (effAll v μ (preparePr v fo (some pn) pt par)).prs pn.id = some q ∧ PrMatches q pn ∧ q.ptype = pt ∧ q.parent = par := by
  simp [procCfgValid] at hval
  obtain ⟨hknown, hw⟩ := hval
  have hw0 : ¬ pn.workers = 0 := by omega
  have hcreate : Act.pre v (.createPr pn pt par) μ := ⟨by omega, hknown⟩
  have hcreated : ∀ μ' : Mem, ∃ q, (Act.eff v (.createPr pn pt par) μ').prs pn.id = some q ∧ PrMatches q pn ∧ q.ptype = pt ∧ q.parent = par := by
    intro μ'
    refine ⟨{ plugin := pn.plugin, settings := pn.settings, workers := if pn.workers = 0 then 1 else pn.workers,
              cond := pn.cond, ptype := pt, parent := par, prov := 1 }, by simp [Act.eff, Map.set], ?_, rfl, rfl⟩
    simp [PrMatches, hw0]
  cases fo with
  | none => exact ⟨⟨hcreate, trivial⟩, hcreated μ⟩
  | some po =>
    obtain ⟨hid, q, hq, hpo, hpt, hpar⟩ := hfo po rfl
    have hm := matches_of_procToCfg v hc.exported pn.id q
    rw [← hpo] at hm
    unfold preparePr
    by_cases heq : po = pn
    · simp only [heq, if_true]
      exact ⟨trivial, q, hq, by rw [heq] at hm; exact hm, hpt, hpar⟩
    · simp only [heq, if_false]
      by_cases hre : v.condRecreates = true ∧ po.cond ≠ pn.cond
      · rw [if_pos hre]
        exact ⟨⟨trivial, hcreate, trivial⟩, hcreated _⟩
      · rw [if_neg hre]
        have hpl : pn.plugin ≠ 0 := by intro e; simp [prPluginKnown, e] at hknown
        refine ⟨⟨⟨by rw [hq]; rfl, hpl⟩, trivial⟩, ?_⟩
        simp only [effAll, Act.eff]
        rw [updPr_prs, hq]
        refine ⟨_, rfl, ⟨rfl, rfl, rfl, ?_⟩, hpt, hpar⟩
        -- the condition: passed by the update, or unchanged because a change would have re-created
        by_cases hu : v.condUpdated = true
        · simp [hu]
        · have hr : v.condRecreates = true := by rcases hc.applied with h | h; exact absurd h hu; exact h
          have : po.cond = pn.cond := Classical.byContradiction fun e => hre ⟨hr, e⟩
          simp [hu]; rw [hm.2.2.2, this]

/-- frame of the action(s) prepared for one processor. -/
theorem procOne_frame (v : Variant) (pt par : Nat) (fo : Option ProcCfg) (pn : ProcCfg) (μ : Mem)
    (hfo : ∀ po, fo = some po → po.id = pn.id) :
    (∀ y, y ≠ pn.id → (effAll v μ (preparePr v fo (some pn) pt par)).prs y = μ.prs y) ∧
    (effAll v μ (preparePr v fo (some pn) pt par)).cns = μ.cns ∧
    (effAll v μ (preparePr v fo (some pn) pt par)).pls = μ.pls ∧
    (effAll v μ (preparePr v fo (some pn) pt par)).names = μ.names := by
  have hids := preparePr_ids v fo (some pn) pt par pn.id hfo (fun _ h => by cases h; rfl)
  refine ⟨fun y hy => effAll_prs_other v _ μ y (fun a ha => by rw [(hids a ha).1]; intro e; cases e; exact hy rfl), ?_, ?_, ?_⟩
  · funext x; exact effAll_cns_other v _ μ x (fun a ha => by rw [(hids a ha).2.1]; intro e; cases e)
  · exact (effAll_pls_other v _ μ (fun a ha => (hids a ha).2.2)).1
  · exact (effAll_pls_other v _ μ (fun a ha => (hids a ha).2.2)).2

/-! ## a list of processors under one parent -/

/-- the new-config pass over a processor list `ps` (ids pairwise distinct) with old list `ol`. -/
def prGroup (v : Variant) (pt par : Nat) (ol : List ProcCfg) (ps : List ProcCfg) : List Act :=
  ps.flatMap fun pn => preparePr v (findProc ol pn.id) (some pn) pt par

theorem procsGroup (v : Variant) (hc : CondOk v) (pt par : Nat) (ol : List ProcCfg) :
    ∀ (ps : List ProcCfg) (μ : Mem), (ids ps).Nodup → (∀ pn ∈ ps, procCfgValid pn = true) →
    (∀ pn ∈ ps, ∀ po, findProc ol pn.id = some po →
      ∃ q, μ.prs pn.id = some q ∧ po = procToCfg v pn.id q ∧ q.ptype = pt ∧ q.parent = par) →
    PreAll v μ (prGroup v pt par ol ps) ∧
    (∀ pn ∈ ps, ∃ q, (effAll v μ (prGroup v pt par ol ps)).prs pn.id = some q ∧ PrMatches q pn ∧ q.ptype = pt ∧ q.parent = par) ∧
    (∀ y, y ∉ ids ps → (effAll v μ (prGroup v pt par ol ps)).prs y = μ.prs y) ∧
    (effAll v μ (prGroup v pt par ol ps)).cns = μ.cns ∧
    (effAll v μ (prGroup v pt par ol ps)).pls = μ.pls ∧
    (effAll v μ (prGroup v pt par ol ps)).names = μ.names := by
  intro ps
  induction ps with
  | nil => intro μ _ _ _; exact ⟨trivial, by simp, fun _ _ => rfl, rfl, rfl, rfl⟩
  | cons pn rest ih =>
    intro μ hnd hval hold
    have hnd' : pn.id ∉ ids rest ∧ (ids rest).Nodup := List.nodup_cons.1 hnd
    have hfo : ∀ po, findProc ol pn.id = some po → po.id = pn.id ∧
        ∃ q, μ.prs pn.id = some q ∧ po = procToCfg v pn.id q ∧ q.ptype = pt ∧ q.parent = par :=
      fun po h => ⟨(findProc_id _ _ _ h).1, hold pn List.mem_cons_self po h⟩
    obtain ⟨p1, q1, hq1, hm1⟩ := procOne v hc pt par (findProc ol pn.id) pn μ (hval pn List.mem_cons_self) hfo
    obtain ⟨f1, f2, f3, f4⟩ := procOne_frame v pt par (findProc ol pn.id) pn μ (fun po h => (hfo po h).1)
    let g := preparePr v (findProc ol pn.id) (some pn) pt par
    let μ1 := effAll v μ g
    have hrest : ∀ pn' ∈ rest, pn'.id ≠ pn.id := by
      intro pn' h' e
      exact hnd'.1 (by rw [← e]; exact List.mem_map_of_mem h')
    obtain ⟨i1, i2, i3, i4, i5, i6⟩ := ih μ1 hnd'.2
      (fun q hq => hval q (List.mem_cons_of_mem _ hq))
      (fun pn' h' po hpo => by
        have := hold pn' (List.mem_cons_of_mem _ h') po hpo
        rw [show μ1.prs pn'.id = μ.prs pn'.id from f1 _ (hrest pn' h')]; exact this)
    have hsplit : prGroup v pt par ol (pn :: rest) = g ++ prGroup v pt par ol rest := by simp [prGroup, g]
    rw [hsplit, preAll_append, effAll_append]
    refine ⟨⟨p1, i1⟩, ?_, ?_, by rw [i4]; exact f2, by rw [i5]; exact f3, by rw [i6]; exact f4⟩
    · intro pn' h'
      rcases List.mem_cons.1 h' with rfl | h'
      · refine ⟨q1, ?_, hm1⟩
        rw [i3 _ hnd'.1]; exact hq1
      · exact i2 pn' h'
    · intro y hy
      have hy' : y ≠ pn.id ∧ y ∉ ids rest := by
        refine ⟨fun e => hy (by rw [e]; simp [ids]), fun h => hy ?_⟩
        simp only [ids, List.map_cons, List.mem_cons]; exact Or.inr h
      rw [i3 y hy'.2]; exact f1 y hy'.1

/-! ## one connector -/

/-- the record is the one the old connector config `co` was exported from. -/
def CnFrom (r : Cn) (co : ConnCfg) : Prop :=
  r.typ = co.typ ∧ r.plugin = co.plugin ∧ r.name = co.name ∧ r.settings = co.settings ∧ r.procs = ids co.procs

theorem connOne (v : Variant) (hcopies : v.updConnCopies = true) (pid : Id) (fo : Option ConnCfg) (cn : ConnCfg) (μ : Mem)
    (hval : connCfgValid cn = true)
    (hfo : ∀ co, fo = some co → co.id = cn.id ∧ ∃ r, μ.cns cn.id = some r ∧ CnFrom r co ∧ r.pipeline = pid) :
    PreAll v μ (prepareCn fo (some cn) pid) ∧
    ∃ r, (effAll v μ (prepareCn fo (some cn) pid)).cns cn.id = some r ∧ CnMatches r cn ∧ r.pipeline = pid := by
  simp [connCfgValid] at hval
  obtain ⟨⟨⟨⟨htyp, hpl⟩, hn0⟩, hn99⟩, _⟩ := hval
  have hcreate : ∀ μ' : Mem, Act.pre v (.createCn cn pid) μ' := fun _ => ⟨hn0, hn99, hpl, htyp⟩
  have hcreated : ∀ μ' : Mem, ∃ r, (Act.eff v (.createCn cn pid) μ').cns cn.id = some r ∧ CnMatches r cn ∧ r.pipeline = pid := by
    intro μ'
    refine ⟨{ typ := cn.typ, plugin := cn.plugin, name := cn.name, settings := cn.settings, pipeline := pid, prov := 1,
              state := 0, procs := ids cn.procs }, by simp [Act.eff, Map.set], ?_, rfl⟩
    simp [CnMatches]
  cases fo with
  | none => exact ⟨⟨hcreate μ, trivial⟩, hcreated μ⟩
  | some co =>
    obtain ⟨hid, r, hr, ⟨a1, a2, a3, a4, a5⟩, hpp⟩ := hfo co rfl
    unfold prepareCn
    dsimp only
    by_cases heq : co.id = cn.id ∧ co.typ = cn.typ ∧ co.plugin = cn.plugin ∧ co.name = cn.name ∧
        co.settings = cn.settings ∧ co.procs.map (·.id) = cn.procs.map (·.id)
    · rw [if_pos heq]
      obtain ⟨_, b1, b2, b3, b4, b5⟩ := heq
      exact ⟨trivial, r, hr, ⟨by rw [← b1]; exact a1, by rw [← b2]; exact a2, by rw [← b3]; exact a3,
        by rw [← b4]; exact a4, by rw [a5]; exact b5⟩, hpp⟩
    · rw [if_neg heq]
      by_cases hup : co.id = cn.id ∧ co.typ = cn.typ
      · rw [if_pos hup]
        refine ⟨⟨⟨by rw [hr]; rfl, hcopies⟩, trivial⟩, ?_⟩
        simp only [effAll, Act.eff]
        rw [updCn_cns, hr]
        exact ⟨_, rfl, ⟨by rw [← hup.2]; exact a1, rfl, rfl, rfl, rfl⟩, hpp⟩
      · rw [if_neg hup]
        exact ⟨⟨trivial, hcreate _, trivial⟩, hcreated _⟩

theorem connOne_frame (v : Variant) (pid : Id) (fo : Option ConnCfg) (cn : ConnCfg) (μ : Mem)
    (hfo : ∀ co, fo = some co → co.id = cn.id) :
    (∀ x, x ≠ cn.id → (effAll v μ (prepareCn fo (some cn) pid)).cns x = μ.cns x) ∧
    (effAll v μ (prepareCn fo (some cn) pid)).prs = μ.prs ∧
    (effAll v μ (prepareCn fo (some cn) pid)).pls = μ.pls ∧
    (effAll v μ (prepareCn fo (some cn) pid)).names = μ.names := by
  have hids := prepareCn_ids fo (some cn) pid cn.id hfo (fun _ h => by cases h; rfl)
  refine ⟨fun x hx => effAll_cns_other v _ μ x (fun a ha => by rw [(hids a ha).1]; intro e; cases e; exact hx rfl), ?_, ?_, ?_⟩
  · funext y; exact effAll_prs_other v _ μ y (fun a ha => by rw [(hids a ha).2.1]; intro e; cases e)
  · exact (effAll_pls_other v _ μ (fun a ha => (hids a ha).2.2)).1
  · exact (effAll_pls_other v _ μ (fun a ha => (hids a ha).2.2)).2

/-! ## the connectors of the new config, each followed by its processors -/

/-- old processors of the connector with id `x` (none if it is not in the old config). -/
def oldProcsOf (oc : List ConnCfg) (x : Id) : List ProcCfg := ((findConn oc x).map (·.procs)).getD []

def cnGroup (v : Variant) (pid : Id) (oc : List ConnCfg) (cs : List ConnCfg) : List Act :=
  cs.flatMap fun cn =>
    prepareCn (findConn oc cn.id) (some cn) pid ++ prGroup v 1 cn.id (oldProcsOf oc cn.id) cn.procs

def allProcIds (cs : List ConnCfg) : List Id := cs.flatMap fun x => ids x.procs

theorem connsGroup (v : Variant) (hc : CondOk v) (hcopies : v.updConnCopies = true) (pid : Id) (oc : List ConnCfg) :
    ∀ (cs : List ConnCfg) (μ : Mem), (cids cs).Nodup → (allProcIds cs).Nodup → (∀ cn ∈ cs, connCfgValid cn = true) →
    (∀ cn ∈ cs, ∀ co, findConn oc cn.id = some co → ∃ r, μ.cns cn.id = some r ∧ CnFrom r co ∧ r.pipeline = pid) →
    (∀ cn ∈ cs, ∀ pn ∈ cn.procs, ∀ po, findProc (oldProcsOf oc cn.id) pn.id = some po →
        ∃ q, μ.prs pn.id = some q ∧ po = procToCfg v pn.id q ∧ q.ptype = 1 ∧ q.parent = cn.id) →
    PreAll v μ (cnGroup v pid oc cs) ∧
    (∀ cn ∈ cs, (∃ r, (effAll v μ (cnGroup v pid oc cs)).cns cn.id = some r ∧ CnMatches r cn ∧ r.pipeline = pid) ∧
      ∀ pn ∈ cn.procs, ∃ q, (effAll v μ (cnGroup v pid oc cs)).prs pn.id = some q ∧ PrMatches q pn ∧ q.ptype = 1 ∧ q.parent = cn.id) ∧
    (∀ x, x ∉ cids cs → (effAll v μ (cnGroup v pid oc cs)).cns x = μ.cns x) ∧
    (∀ y, y ∉ allProcIds cs → (effAll v μ (cnGroup v pid oc cs)).prs y = μ.prs y) ∧
    (effAll v μ (cnGroup v pid oc cs)).pls = μ.pls ∧
    (effAll v μ (cnGroup v pid oc cs)).names = μ.names := by
  intro cs
  induction cs with
  | nil => intro μ _ _ _ _ _; exact ⟨trivial, by simp, fun _ _ => rfl, fun _ _ => rfl, rfl, rfl⟩
  | cons cn rest ih =>
    intro μ hnd hndp hval hcn hpr
    have hnd' : cn.id ∉ cids rest ∧ (cids rest).Nodup := List.nodup_cons.1 hnd
    have hndp' : (ids cn.procs).Nodup ∧ (allProcIds rest).Nodup ∧ ∀ a ∈ ids cn.procs, ∀ b ∈ allProcIds rest, a ≠ b := by
      have := List.nodup_append.1 (by simpa [allProcIds] using hndp)
      exact ⟨this.1, by simpa [allProcIds] using this.2.1, this.2.2⟩
    have hvalcn := hval cn List.mem_cons_self
    have hvalpr : ∀ pn ∈ cn.procs, procCfgValid pn = true := by
      simp [connCfgValid] at hvalcn; exact hvalcn.2
    have hfo : ∀ co, findConn oc cn.id = some co → co.id = cn.id ∧ ∃ r, μ.cns cn.id = some r ∧ CnFrom r co ∧ r.pipeline = pid :=
      fun co h => ⟨(findConn_mem _ _ _ h).1, hcn cn List.mem_cons_self co h⟩
    -- the connector's own action(s)
    obtain ⟨p1, r1, hr1, hm1⟩ := connOne v hcopies pid (findConn oc cn.id) cn μ hvalcn hfo
    obtain ⟨f1, f2, f3, f4⟩ := connOne_frame v pid (findConn oc cn.id) cn μ (fun co h => (hfo co h).1)
    let g1 := prepareCn (findConn oc cn.id) (some cn) pid
    let μ1 := effAll v μ g1
    -- its processors
    obtain ⟨p2, q2, g21, g22, g23, g24⟩ := procsGroup v hc 1 cn.id (oldProcsOf oc cn.id) cn.procs μ1 hndp'.1 hvalpr
      (fun pn hpn po hpo => by
        have := hpr cn List.mem_cons_self pn hpn po hpo
        rw [show μ1.prs = μ.prs from f2]; exact this)
    let g2 := prGroup v 1 cn.id (oldProcsOf oc cn.id) cn.procs
    let μ2 := effAll v μ1 g2
    -- the rest
    have hrestc : ∀ cn' ∈ rest, cn'.id ≠ cn.id := by
      intro cn' h' e
      exact hnd'.1 (by rw [← e]; exact List.mem_map_of_mem h')
    have hrestp : ∀ cn' ∈ rest, ∀ pn ∈ cn'.procs, pn.id ∉ ids cn.procs := by
      intro cn' h' pn hpn hin
      exact hndp'.2.2 pn.id hin pn.id (by
        simp only [allProcIds, List.mem_flatMap]; exact ⟨cn', h', List.mem_map_of_mem hpn⟩) rfl
    obtain ⟨i1, i2, i3, i4, i5, i6⟩ := ih μ2 hnd'.2 hndp'.2.1 (fun c' h' => hval c' (List.mem_cons_of_mem _ h'))
      (fun cn' h' co hco => by
        have := hcn cn' (List.mem_cons_of_mem _ h') co hco
        rw [show μ2.cns = μ1.cns from g22, show μ1.cns cn'.id = μ.cns cn'.id from f1 _ (hrestc cn' h')]; exact this)
      (fun cn' h' pn hpn po hpo => by
        have := hpr cn' (List.mem_cons_of_mem _ h') pn hpn po hpo
        rw [show μ2.prs pn.id = μ1.prs pn.id from g21 _ (hrestp cn' h' pn hpn), show μ1.prs = μ.prs from f2]; exact this)
    have hsplit : cnGroup v pid oc (cn :: rest) = g1 ++ (g2 ++ cnGroup v pid oc rest) := by simp [cnGroup, g1, g2]
    rw [hsplit, preAll_append, effAll_append, preAll_append, effAll_append]
    refine ⟨⟨p1, p2, i1⟩, ?_, ?_, ?_, by rw [i5, g23]; exact f3, by rw [i6, g24]; exact f4⟩
    · intro cn' h'
      rcases List.mem_cons.1 h' with rfl | h'
      · refine ⟨⟨r1, ?_, hm1⟩, ?_⟩
        · rw [i3 _ hnd'.1, show μ2.cns = μ1.cns from g22]; exact hr1
        · intro pn hpn
          obtain ⟨q, hq, hmq⟩ := q2 pn hpn
          refine ⟨q, ?_, hmq⟩
          rw [i4 _ (fun hin => hndp'.2.2 pn.id (List.mem_map_of_mem hpn) pn.id hin rfl)]; exact hq
      · exact i2 cn' h'
    · intro x hx
      have hx' : x ≠ cn.id ∧ x ∉ cids rest := by
        refine ⟨fun e => hx (by rw [e]; simp [cids]), fun h => hx ?_⟩
        simp only [cids, List.map_cons, List.mem_cons]; exact Or.inr h
      rw [i3 x hx'.2, show μ2.cns = μ1.cns from g22]; exact f1 x hx'.1
    · intro y hy
      have hy' : y ∉ ids cn.procs ∧ y ∉ allProcIds rest := by
        refine ⟨fun h => hy ?_, fun h => hy ?_⟩
        · simp only [allProcIds, List.flatMap_cons, List.mem_append]; exact Or.inl h
        · simp only [allProcIds, List.flatMap_cons, List.mem_append]; exact Or.inr h
      rw [i4 y hy'.2, show μ2.prs y = μ1.prs y from g21 y hy'.1, show μ1.prs = μ.prs from f2]

/-! ## the deletion pass -/

theorem buildOld_mem (v : Variant) (o c : PipeCfg) (a : Act) (ha : a ∈ buildOldFwd v o (some c)) :
    (∃ co ∈ o.conns, findConn c.conns co.id = none ∧ a = .deleteCn co o.id) ∨
    (∃ co ∈ o.conns, ∃ po ∈ co.procs, findProc (oldProcsOf c.conns co.id) po.id = none ∧ a = .deletePr po 1 co.id) ∨
    (∃ po ∈ o.procs, findProc c.procs po.id = none ∧ a = .deletePr po 2 o.id) := by
  unfold buildOldFwd at ha
  simp only [Option.map_some, Option.getD_some, List.mem_append, List.mem_flatMap] at ha
  rcases ha with ⟨co, hco, ha⟩ | ⟨po, hpo, ha⟩
  · rcases ha with ha | ⟨po, hpo, ha⟩
    · split at ha
      · rename_i hn
        simp [prepareCn] at ha
        exact Or.inl ⟨co, hco, by simpa using hn, ha⟩
      · cases ha
    · split at ha
      · rename_i hn
        simp [preparePr] at ha
        exact Or.inr (Or.inl ⟨co, hco, po, hpo, by simpa [oldProcsOf] using hn, ha⟩)
      · cases ha
  · split at ha
    · rename_i hn
      simp [preparePr] at ha
      exact Or.inr (Or.inr ⟨po, hpo, by simpa using hn, ha⟩)
    · cases ha

/-- ids of old processors are distinct across the lists of the exported configuration. -/
structure OldUniq (o : PipeCfg) : Prop where
  cc : ∀ co ∈ o.conns, ∀ co' ∈ o.conns, ∀ po ∈ co.procs, ∀ po' ∈ co'.procs, po.id = po'.id → co.id = co'.id
  cp : ∀ co ∈ o.conns, ∀ po ∈ co.procs, ∀ po' ∈ o.procs, po.id ≠ po'.id

/-- the records behind an exported configuration, with their parent pointers. -/
theorem exportPl_parents (v : Variant) (m : Mem) (pid : Id) (o : PipeCfg) (h : PlRefs m pid)
    (hex : exportPl v m pid = .ok (some o)) :
    (∀ co ∈ o.conns, ∃ r, m.cns co.id = some r ∧ CnFrom r co ∧ r.pipeline = pid ∧
      ∀ po ∈ co.procs, ∃ q, m.prs po.id = some q ∧ po = procToCfg v po.id q ∧ q.ptype = 1 ∧ q.parent = co.id) ∧
    (∀ po ∈ o.procs, ∃ q, m.prs po.id = some q ∧ po = procToCfg v po.id q ∧ q.ptype = 2 ∧ q.parent = pid) := by
  obtain ⟨p, hp, _, _, _, _, hcn, hpr, hcs, hps⟩ := exportPl_inv v m pid o hex
  constructor
  · intro co hco
    obtain ⟨r, hr, e1, e2, e3, e4, e5, hq⟩ := hcs co hco
    obtain ⟨r', hr', hpp, hrp⟩ := h.conn p co.id hp (by rw [← hcn]; exact List.mem_map_of_mem hco)
    rw [hr] at hr'; cases hr'
    refine ⟨r, hr, ⟨e1, e2, e3, e4, e5⟩, hpp, ?_⟩
    intro po hpo
    obtain ⟨q, hq1, hq2⟩ := hq po hpo
    obtain ⟨q', hq', a, b⟩ := hrp po.id (by rw [e5]; exact List.mem_map_of_mem hpo)
    rw [hq1] at hq'; cases hq'
    exact ⟨q, hq1, hq2, a, b⟩
  · intro po hpo
    obtain ⟨q, hq1, hq2⟩ := hps po hpo
    obtain ⟨q', hq', a, b⟩ := h.proc p po.id hp (by rw [← hpr]; exact List.mem_map_of_mem hpo)
    rw [hq1] at hq'; cases hq'
    exact ⟨q, hq1, hq2, a, b⟩

theorem oldUniq_of_refs (v : Variant) (m : Mem) (pid : Id) (o : PipeCfg) (h : PlRefs m pid)
    (hex : exportPl v m pid = .ok (some o)) : OldUniq o := by
  obtain ⟨hc, hp⟩ := exportPl_parents v m pid o h hex
  have key : ∀ co ∈ o.conns, ∀ po ∈ co.procs, ∃ q, m.prs po.id = some q ∧ q.ptype = 1 ∧ q.parent = co.id := by
    intro co hco po hpo
    obtain ⟨r, _, _, _, hq⟩ := hc co hco
    obtain ⟨q, hq1, _, a, b⟩ := hq po hpo
    exact ⟨q, hq1, a, b⟩
  constructor
  · intro co hco co' hco' po hpo po' hpo' e
    obtain ⟨q, hq, _, a⟩ := key co hco po hpo
    obtain ⟨q', hq', _, a'⟩ := key co' hco' po' hpo'
    rw [e, hq'] at hq; cases hq
    exact a.symm.trans a'
  · intro co hco po hpo po' hpo' e
    obtain ⟨q, hq, a, _⟩ := key co hco po hpo
    obtain ⟨q', hq', _, a', _⟩ := hp po' hpo'
    rw [e, hq'] at hq; cases hq
    rw [a'] at a; cases a

theorem preAll_of_always (v : Variant) (L : List Act) (h : ∀ a ∈ L, ∀ μ, a.pre v μ) : ∀ m, PreAll v m L := by
  induction L with
  | nil => intro _; trivial
  | cons a r ih => intro m; exact ⟨h a List.mem_cons_self m, ih (fun b hb => h b (List.mem_cons_of_mem _ hb)) _⟩

/-- The deletion pass (entities of the old config that are not in the new one, innermost first):
always succeeds, touches neither the pipeline record nor any entity the new config keeps under
the same parent. -/
theorem delPass (v : Variant) (m : Mem) (c o : PipeCfg) (hrefs : PlRefs m c.id) (hex : exportPl v m c.id = .ok (some o))
    (hndc : (cids c.conns).Nodup) :
    PreAll v m (buildOldFwd v o (some c)).reverse ∧
    (effAll v m (buildOldFwd v o (some c)).reverse).pls = m.pls ∧
    (effAll v m (buildOldFwd v o (some c)).reverse).names = m.names ∧
    (∀ cn ∈ c.conns, ∀ co, findConn o.conns cn.id = some co →
      (effAll v m (buildOldFwd v o (some c)).reverse).cns cn.id = m.cns cn.id) ∧
    (∀ cn ∈ c.conns, ∀ pn ∈ cn.procs, ∀ po, findProc (oldProcsOf o.conns cn.id) pn.id = some po →
      (effAll v m (buildOldFwd v o (some c)).reverse).prs pn.id = m.prs pn.id) ∧
    (∀ pn ∈ c.procs, ∀ po, findProc o.procs pn.id = some po →
      (effAll v m (buildOldFwd v o (some c)).reverse).prs pn.id = m.prs pn.id) := by
  have hu := oldUniq_of_refs v m c.id o hrefs hex
  have hmem : ∀ a ∈ (buildOldFwd v o (some c)).reverse, _ := fun a ha => buildOld_mem v o c a (List.mem_reverse.1 ha)
  refine ⟨?_, ?_, ?_, ?_, ?_, ?_⟩
  · apply preAll_of_always
    intro a ha μ
    rcases hmem a ha with ⟨_, _, _, rfl⟩ | ⟨_, _, _, _, _, rfl⟩ | ⟨_, _, _, rfl⟩ <;> trivial
  · refine (effAll_pls_other v _ m ?_).1
    intro a ha
    rcases hmem a ha with ⟨_, _, _, rfl⟩ | ⟨_, _, _, _, _, rfl⟩ | ⟨_, _, _, rfl⟩ <;> rfl
  · refine (effAll_pls_other v _ m ?_).2
    intro a ha
    rcases hmem a ha with ⟨_, _, _, rfl⟩ | ⟨_, _, _, _, _, rfl⟩ | ⟨_, _, _, rfl⟩ <;> rfl
  · intro cn hcn co _
    apply effAll_cns_other
    intro a ha
    rcases hmem a ha with ⟨co', _, hnone, rfl⟩ | ⟨_, _, _, _, _, rfl⟩ | ⟨_, _, _, rfl⟩
    · intro e
      simp only [Act.cnId, Option.some.injEq] at e
      exact findConn_none _ _ hnone cn hcn e.symm
    · simp [Act.cnId]
    · simp [Act.cnId]
  · intro cn hcn pn hpn po hfound
    apply effAll_prs_other
    intro a ha
    -- the old occurrence found under the same connector
    obtain ⟨hpoid, hpoin⟩ := findProc_id _ _ _ hfound
    have hco' : ∃ co', findConn o.conns cn.id = some co' ∧ po ∈ co'.procs := by
      unfold oldProcsOf at hpoin
      cases hf : findConn o.conns cn.id with
      | none => simp [hf] at hpoin
      | some co' => exact ⟨co', rfl, by simpa [hf] using hpoin⟩
    obtain ⟨co', hfc, hpo'⟩ := hco'
    obtain ⟨hco'id, hco'in⟩ := findConn_mem _ _ _ hfc
    rcases hmem a ha with ⟨_, _, _, rfl⟩ | ⟨co, hco, po2, hpo2, hnone, rfl⟩ | ⟨po2, hpo2, _, rfl⟩
    · simp [Act.prId]
    · intro e
      simp only [Act.prId, Option.some.injEq] at e
      have hsame : co.id = co'.id := hu.cc co hco co' hco'in po2 hpo2 po hpo' (by rw [e, hpoid])
      have hself : findConn c.conns cn.id = some cn := find_self_conn _ hndc cn hcn
      unfold oldProcsOf at hnone
      rw [hsame, hco'id, hself] at hnone
      simp only [Option.map_some, Option.getD_some] at hnone
      exact findProc_none _ _ hnone pn hpn e.symm
    · intro e
      simp only [Act.prId, Option.some.injEq] at e
      exact hu.cp co' hco'in po hpo' po2 hpo2 (by rw [hpoid, e])
  · intro pn hpn po hfound
    apply effAll_prs_other
    intro a ha
    obtain ⟨hpoid, hpoin⟩ := findProc_id _ _ _ hfound
    rcases hmem a ha with ⟨_, _, _, rfl⟩ | ⟨co, hco, po2, hpo2, _, rfl⟩ | ⟨po2, _, hnone, rfl⟩
    · simp [Act.prId]
    · intro e
      simp only [Act.prId, Option.some.injEq] at e
      exact hu.cp co hco po2 hpo2 po hpoin (by rw [e, hpoid])
    · intro e
      simp only [Act.prId, Option.some.injEq] at e
      exact findProc_none _ _ hnone pn hpn e.symm

/-! ## the pipeline's own action -/

/-- the pipeline record carries the configuration `c` (own fields and both id lists). -/
def PlMatches (p : Pl) (c : PipeCfg) : Prop :=
  p.name = c.name ∧ p.desc = c.desc ∧ p.dlq = c.dlq ∧ p.conns = cids c.conns ∧ p.procs = ids c.procs

theorem plOne (v : Variant) (prov : Nat) (μ : Mem) (c : PipeCfg) (old : Option PipeCfg)
    (hnone : old = none → μ.pls c.id = none)
    (hsome : ∀ o, old = some o → ∃ p, μ.pls c.id = some p ∧ o.id = c.id ∧ o.name = p.name ∧ o.desc = p.desc ∧
        o.dlq = p.dlq ∧ cids o.conns = p.conns ∧ ids o.procs = p.procs)
    (hn0 : c.name ≠ 0) (hn99 : c.name ≠ 99)
    (hnames : μ.names c.name = true → ∃ p, μ.pls c.id = some p ∧ p.name = c.name) (hdlq : dlqValid c.dlq = true) :
    PreAll v μ (preparePl prov old (some c)) ∧
    (∃ p, (effAll v μ (preparePl prov old (some c))).pls c.id = some p ∧ PlMatches p c) ∧
    (effAll v μ (preparePl prov old (some c))).cns = μ.cns ∧
    (effAll v μ (preparePl prov old (some c))).prs = μ.prs := by
  have hids := preparePl_ids prov old (some c)
  have hcns : (effAll v μ (preparePl prov old (some c))).cns = μ.cns := by
    funext x; exact effAll_cns_other v _ μ x (fun a ha => by rw [(hids a ha).2.2]; intro e; cases e)
  have hprs : (effAll v μ (preparePl prov old (some c))).prs = μ.prs := by
    funext y; exact effAll_prs_other v _ μ y (fun a ha => by rw [(hids a ha).2.1]; intro e; cases e)
  refine ⟨?_, ?_, hcns, hprs⟩
  · cases old with
    | none =>
      have hfree : μ.names c.name = false := by
        cases hx : μ.names c.name with
        | false => rfl
        | true => obtain ⟨p, hp, _⟩ := hnames hx; rw [hnone rfl] at hp; cases hp
      exact ⟨⟨by simp [plValid, hn0, hn99, hfree], hdlq⟩, trivial⟩
    | some o =>
      obtain ⟨p, hp, e0, e1, e2, e3, e4, e5⟩ := hsome o rfl
      unfold preparePl; dsimp only
      split
      · trivial
      · refine ⟨⟨p, hp, hn0, ?_, hdlq⟩, trivial⟩
        rintro ⟨hx, hne⟩
        obtain ⟨p', hp', e⟩ := hnames hx
        rw [hp] at hp'; cases hp'; exact hne e
  · cases old with
    | none =>
      refine ⟨_, by simp [preparePl, effAll, Act.eff, Map.set]; rfl, rfl, rfl, rfl, rfl, rfl⟩
    | some o =>
      obtain ⟨p, hp, e0, e1, e2, e3, e4, e5⟩ := hsome o rfl
      unfold preparePl; dsimp only
      split
      · rename_i heq
        obtain ⟨_, b1, b2, b3, b4, b5⟩ := heq
        exact ⟨p, hp, by rw [← e1]; exact b1, by rw [← e2]; exact b2, by rw [← e3]; exact b3,
          by rw [← e4]; exact b4, by rw [← e5]; exact b5⟩
      · simp only [effAll, Act.eff, hp]
        exact ⟨_, by simp [Map.set]; rfl, rfl, rfl, rfl, rfl, rfl⟩

/-! ## assembly: the whole action list -/

def delActs (v : Variant) (old : Option PipeCfg) (c : PipeCfg) : List Act :=
  match old with
  | some o => (buildOldFwd v o (some c)).reverse
  | none => []

def oldConns (old : Option PipeCfg) : List ConnCfg := (old.map (·.conns)).getD []
def oldProcs (old : Option PipeCfg) : List ProcCfg := (old.map (·.procs)).getD []

theorem build_split (v : Variant) (prov : Nat) (old : Option PipeCfg) (c : PipeCfg) :
    build v prov old c = delActs v old c ++ (preparePl prov old (some c) ++
      (cnGroup v c.id (oldConns old) c.conns ++ prGroup v 2 c.id (oldProcs old) c.procs)) := by
  unfold build buildNew delActs cnGroup prGroup oldProcsOf oldConns oldProcs
  simp only [List.append_assoc]
  rfl

theorem cfgValid_parts (m : Mem) (c : PipeCfg) (h : cfgValid m c = true) :
    c.name ≠ 0 ∧ c.name ≠ 99 ∧ (m.names c.name = true → ∃ p, m.pls c.id = some p ∧ p.name = c.name) ∧
    dlqValid c.dlq = true ∧ (∀ cn ∈ c.conns, connCfgValid cn = true) ∧ (∀ pn ∈ c.procs, procCfgValid pn = true) ∧
    (cids c.conns).Nodup ∧ (allProcIds c.conns ++ ids c.procs).Nodup := by
  unfold cfgValid at h
  simp only [Bool.and_eq_true, Bool.or_eq_true, Bool.not_eq_true', decide_eq_true_eq, List.all_eq_true] at h
  obtain ⟨⟨⟨⟨⟨⟨⟨a1, a2⟩, a3⟩, a4⟩, a5⟩, a6⟩, a7⟩, a8⟩ := h
  refine ⟨a1, a2, ?_, a4, a5, a6, nodup_of_nodupB _ a7, nodup_of_nodupB _ a8⟩
  intro hn
  rcases a3 with a3 | a3
  · rw [hn] at a3; cases a3
  · cases hp : m.pls c.id with
    | none => rw [hp] at a3; cases a3
    | some p => rw [hp] at a3; exact ⟨p, rfl, by simpa using a3⟩

/-- state after the deletion pass: pipeline record and names untouched, and every entity the new
config finds in the old one (same parent) still is the record the old config was exported from. -/
theorem delPhase (v : Variant) (m : Mem) (c : PipeCfg) (old : Option PipeCfg) (hrefs : PlRefs m c.id)
    (hex : exportPl v m c.id = .ok old) (hndc : (cids c.conns).Nodup) :
    PreAll v m (delActs v old c) ∧
    (effAll v m (delActs v old c)).pls = m.pls ∧
    (effAll v m (delActs v old c)).names = m.names ∧
    (∀ cn ∈ c.conns, ∀ co, findConn (oldConns old) cn.id = some co →
      ∃ r, (effAll v m (delActs v old c)).cns cn.id = some r ∧ CnFrom r co ∧ r.pipeline = c.id) ∧
    (∀ cn ∈ c.conns, ∀ pn ∈ cn.procs, ∀ po, findProc (oldProcsOf (oldConns old) cn.id) pn.id = some po →
      ∃ q, (effAll v m (delActs v old c)).prs pn.id = some q ∧ po = procToCfg v pn.id q ∧ q.ptype = 1 ∧ q.parent = cn.id) ∧
    (∀ pn ∈ c.procs, ∀ po, findProc (oldProcs old) pn.id = some po →
      ∃ q, (effAll v m (delActs v old c)).prs pn.id = some q ∧ po = procToCfg v pn.id q ∧ q.ptype = 2 ∧ q.parent = c.id) := by
  cases old with
  | none =>
    refine ⟨trivial, rfl, rfl, ?_, ?_, ?_⟩
    · intro cn _ co h; simp [oldConns, findConn] at h
    · intro cn _ pn _ po h; simp [oldConns, oldProcsOf, findConn, findProc] at h
    · intro pn _ po h; simp [oldProcs, findProc] at h
  | some o =>
    obtain ⟨d1, d2, d3, d4, d5, d6⟩ := delPass v m c o hrefs hex hndc
    obtain ⟨hcs, hps⟩ := exportPl_parents v m c.id o hrefs hex
    refine ⟨d1, d2, d3, ?_, ?_, ?_⟩
    · intro cn hcn co hf
      have hf' : findConn o.conns cn.id = some co := hf
      obtain ⟨hid, hin⟩ := findConn_mem _ _ _ hf'
      obtain ⟨r, hr, hfrom, hpp, _⟩ := hcs co hin
      show ∃ r, (effAll v m (buildOldFwd v o (some c)).reverse).cns cn.id = some r ∧ CnFrom r co ∧ r.pipeline = c.id
      rw [d4 cn hcn co hf', ← hid]
      exact ⟨r, hr, hfrom, hpp⟩
    · intro cn hcn pn hpn po hf
      have hf' : findProc (oldProcsOf o.conns cn.id) pn.id = some po := hf
      obtain ⟨hpoid, hpoin⟩ := findProc_id _ _ _ hf'
      show ∃ q, (effAll v m (buildOldFwd v o (some c)).reverse).prs pn.id = some q ∧ po = procToCfg v pn.id q ∧
        q.ptype = 1 ∧ q.parent = cn.id
      rw [d5 cn hcn pn hpn po hf']
      unfold oldProcsOf at hpoin
      cases hfc : findConn o.conns cn.id with
      | none => simp [hfc] at hpoin
      | some co' =>
        have hpo' : po ∈ co'.procs := by simpa [hfc] using hpoin
        obtain ⟨hco'id, hco'in⟩ := findConn_mem _ _ _ hfc
        obtain ⟨r, _, _, _, hq⟩ := hcs co' hco'in
        obtain ⟨q, hq1, hq2, a, b⟩ := hq po hpo'
        rw [← hpoid, ← hco'id]; exact ⟨q, hq1, hq2, a, b⟩
    · intro pn hpn po hf
      have hf' : findProc o.procs pn.id = some po := hf
      obtain ⟨hpoid, hpoin⟩ := findProc_id _ _ _ hf'
      show ∃ q, (effAll v m (buildOldFwd v o (some c)).reverse).prs pn.id = some q ∧ po = procToCfg v pn.id q ∧
        q.ptype = 2 ∧ q.parent = c.id
      rw [d6 pn hpn po hf']
      obtain ⟨q, hq1, hq2, a, b⟩ := hps po hpoin
      rw [← hpoid]; exact ⟨q, hq1, hq2, a, b⟩

/-- what the convergence theorem assumes of code variant, state and configuration. -/
structure ConvReady (v : Variant) (m : Mem) (c : PipeCfg) (old : Option PipeCfg) : Prop where
  cond : CondOk v
  copies : v.updConnCopies = true
  exp : exportPl v m c.id = .ok old
  valid : cfgValid m c = true
  refs : PlRefs m c.id

/-- every action of `Build(old, c)` has its precondition when its turn comes, and the memory
after all of them holds exactly `c`. -/
theorem converge_mem (v : Variant) (prov : Nat) (m : Mem) (c : PipeCfg) (old : Option PipeCfg)
    (h : ConvReady v m c old) :
    PreAll v m (build v prov old c) ∧ Target (effAll v m (build v prov old c)) c ∧
    TargetRefs (effAll v m (build v prov old c)) c := by
  obtain ⟨hn0, hn99, hnames, hdlq, hvc, hvp, hndc, hndall⟩ := cfgValid_parts m c h.valid
  have hndcp : (allProcIds c.conns).Nodup := (List.nodup_append.1 hndall).1
  have hndp : (ids c.procs).Nodup := (List.nodup_append.1 hndall).2.1
  have hdisj : ∀ y, y ∈ allProcIds c.conns → y ∈ ids c.procs → False :=
    fun y h1 h2 => (List.nodup_append.1 hndall).2.2 y h1 y h2 rfl
  obtain ⟨d1, d2, d3, d4, d5, d6⟩ := delPhase v m c old h.refs h.exp hndc
  let μ0 := effAll v m (delActs v old c)
  -- the pipeline record
  have hnone : old = none → μ0.pls c.id = none := by
    intro e; subst e
    show (effAll v m (delActs v none c)).pls c.id = none
    rw [d2]; exact exportPl_none v m c.id h.exp
  have hsome : ∀ o, old = some o → ∃ p, μ0.pls c.id = some p ∧ o.id = c.id ∧ o.name = p.name ∧ o.desc = p.desc ∧
      o.dlq = p.dlq ∧ cids o.conns = p.conns ∧ ids o.procs = p.procs := by
    intro o e; subst e
    obtain ⟨p, hp, e0, e1, e2, e3, e4, e5, _, _⟩ := exportPl_inv v m c.id o h.exp
    exact ⟨p, by show (effAll v m (delActs v (some o) c)).pls c.id = some p; rw [d2]; exact hp, e0, e1, e2, e3, e4, e5⟩
  have hnames0 : μ0.names c.name = true → ∃ p, μ0.pls c.id = some p ∧ p.name = c.name := by
    show (effAll v m (delActs v old c)).names c.name = true → ∃ p, (effAll v m (delActs v old c)).pls c.id = some p ∧ _
    rw [d2, d3]; exact hnames
  obtain ⟨p1, ⟨pl, hpl, hplm⟩, p3, p4⟩ := plOne v prov μ0 c old hnone hsome hn0 hn99 hnames0 hdlq
  let μ1 := effAll v μ0 (preparePl prov old (some c))
  -- connectors with their processors
  obtain ⟨c1, c2, c3, c4, c5, c6⟩ := connsGroup v h.cond h.copies c.id (oldConns old) c.conns μ1 hndc hndcp hvc
    (fun cn hcn co hf => by
      show ∃ r, (effAll v μ0 (preparePl prov old (some c))).cns cn.id = some r ∧ _
      rw [p3]; exact d4 cn hcn co hf)
    (fun cn hcn pn hpn po hf => by
      show ∃ q, (effAll v μ0 (preparePl prov old (some c))).prs pn.id = some q ∧ _
      rw [p4]; exact d5 cn hcn pn hpn po hf)
  let μ2 := effAll v μ1 (cnGroup v c.id (oldConns old) c.conns)
  -- the pipeline's processors
  obtain ⟨r1, r2, r3, r4, r5, r6⟩ := procsGroup v h.cond 2 c.id (oldProcs old) c.procs μ2 hndp hvp
    (fun pn hpn po hf => by
      show ∃ q, (effAll v μ1 (cnGroup v c.id (oldConns old) c.conns)).prs pn.id = some q ∧ _
      rw [c4 pn.id (fun hy => hdisj pn.id hy (List.mem_map_of_mem hpn))]
      show ∃ q, (effAll v μ0 (preparePl prov old (some c))).prs pn.id = some q ∧ _
      rw [p4]; exact d6 pn hpn po hf)
  rw [build_split, preAll_append, preAll_append, preAll_append, effAll_append, effAll_append, effAll_append]
  have hcn : ∀ cn ∈ c.conns, ∃ r, (effAll v μ2 (prGroup v 2 c.id (oldProcs old) c.procs)).cns cn.id = some r ∧
      CnMatches r cn ∧ r.pipeline = c.id := by
    intro cn hcn
    rw [r4]; exact (c2 cn hcn).1
  have hcpr : ∀ cn ∈ c.conns, ∀ pn ∈ cn.procs, ∃ q, (effAll v μ2 (prGroup v 2 c.id (oldProcs old) c.procs)).prs pn.id = some q ∧
      PrMatches q pn ∧ q.ptype = 1 ∧ q.parent = cn.id := by
    intro cn hcn pn hpn
    have hin : pn.id ∈ allProcIds c.conns := by
      unfold allProcIds
      exact List.mem_flatMap.2 ⟨cn, hcn, List.mem_map_of_mem hpn⟩
    rw [r3 pn.id (fun hy => hdisj pn.id hin hy)]
    exact (c2 cn hcn).2 pn hpn
  refine ⟨⟨d1, p1, c1, r1⟩, ?_, ?_⟩
  · constructor
    · refine ⟨pl, ?_, hplm⟩
      rw [r5]
      show (effAll v μ1 (cnGroup v c.id (oldConns old) c.conns)).pls c.id = some pl
      rw [c5]; exact hpl
    · intro cn h'
      obtain ⟨r, a, b, _⟩ := hcn cn h'; exact ⟨r, a, b⟩
    · intro cn h' pn hpn
      obtain ⟨q, a, b, _⟩ := hcpr cn h' pn hpn; exact ⟨q, a, b⟩
    · intro pn hpn
      obtain ⟨q, a, b, _⟩ := r2 pn hpn; exact ⟨q, a, b⟩
  · constructor
    · intro cn h' r hr
      obtain ⟨r', a, _, b⟩ := hcn cn h'; rw [a] at hr; cases hr; exact b
    · intro cn h' pn hpn q hq
      obtain ⟨q', a, _, b⟩ := hcpr cn h' pn hpn; rw [a] at hq; cases hq; exact b
    · intro pn hpn q hq
      obtain ⟨q', a, _, b⟩ := r2 pn hpn; rw [a] at hq; cases hq; exact b

end Conduit.Ctl
