import ConduitModel.Proofs.Prov
import ConduitModel.Proofs.CtlRefsOps

/-!
C15 convergence, step 1: without store failures every import action succeeds under a simple
precondition and has a closed-form effect on memory (`Act.eff`), entry by entry.
-/
namespace Conduit.Ctl

/-- no store failure is injected (any more). -/
def NoFail (s : St) : Prop := s.failAt = none

theorem NoFail.stepOk {s : St} (h : NoFail s) (f : Svc) : NoFail (stepOk f s) := by
  unfold NoFail; simp; exact h

/-- the program succeeds from `s` and leaves memory `m'`, still without failure. -/
def Yields (prog : M Unit) (s : St) (m' : Mem) : Prop :=
  ∃ s', prog s = (.ok (), s') ∧ s'.mem = m' ∧ NoFail s'

theorem yields_run (f : Svc) (s : St) (h : NoFail s) (hp : f.pre s.mem = none) : Yields f.run s (f.upd s.mem) :=
  ⟨stepOk f s, run_nofail_ok f s h hp, by simp, h.stepOk f⟩

/-- service calls in sequence. -/
def applySvcs (m : Mem) : List Svc → Mem
  | [] => m
  | f :: r => applySvcs (f.upd m) r

def PreSvcs (m : Mem) : List Svc → Prop
  | [] => True
  | f :: r => f.pre m = none ∧ PreSvcs (f.upd m) r

theorem yields_seq_cons (a : M Unit) (rest : List (M Unit)) (s : St) (m1 m2 : Mem)
    (h1 : Yields a s m1) (h2 : ∀ s1, s1.mem = m1 → NoFail s1 → Yields (seqM rest) s1 m2) : Yields (seqM (a :: rest)) s m2 := by
  obtain ⟨s1, e1, e2, e3⟩ := h1
  obtain ⟨s2, f1, f2, f3⟩ := h2 s1 e2 e3
  exact ⟨s2, by simp only [seqM, e1]; exact f1, f2, f3⟩

theorem yields_seq_nil (s : St) (h : NoFail s) : Yields (seqM []) s s.mem := ⟨s, rfl, rfl, h⟩

theorem yields_svcs (l : List Svc) : ∀ s, NoFail s → PreSvcs s.mem l → Yields (seqM (l.map Svc.run)) s (applySvcs s.mem l) := by
  induction l with
  | nil => intro s h _; exact yields_seq_nil s h
  | cons f r ih =>
    intro s h hp
    refine yields_seq_cons _ _ s (f.upd s.mem) _ (yields_run f s h hp.1) ?_
    intro s1 e1 n1
    have := ih s1 n1 (by rw [e1]; exact hp.2)
    rw [e1] at this; exact this

theorem applySvcs_append (m : Mem) (a b : List Svc) : applySvcs m (a ++ b) = applySvcs (applySvcs m a) b := by
  induction a generalizing m with
  | nil => rfl
  | cons f r ih => simp [applySvcs, ih]

theorem preSvcs_append (m : Mem) (a b : List Svc) : PreSvcs m (a ++ b) ↔ PreSvcs m a ∧ PreSvcs (applySvcs m a) b := by
  induction a generalizing m with
  | nil => simp [PreSvcs, applySvcs]
  | cons f r ih => simp [PreSvcs, applySvcs, ih, and_assoc]

/-! ## list loops on one entry -/

theorem updPl_comp (m : Mem) (id : Id) (f g : Pl → Pl) : (m.updPl id f).updPl id g = m.updPl id (fun p => g (f p)) := by
  cases hp : m.pls id with
  | none => simp [Mem.updPl, hp]
  | some p => simp [Mem.updPl, hp, Map.set_set]

theorem updCn_comp (m : Mem) (id : Id) (f g : Cn → Cn) : (m.updCn id f).updCn id g = m.updCn id (fun c => g (f c)) := by
  cases hc : m.cns id with
  | none => simp [Mem.updCn, hc]
  | some c => simp [Mem.updCn, hc, Map.set_set]

theorem updPl_pls (m : Mem) (id : Id) (f : Pl → Pl) : (m.updPl id f).pls id = (m.pls id).map f := by
  cases hp : m.pls id <;> simp [Mem.updPl, hp]
theorem updCn_cns (m : Mem) (id : Id) (f : Cn → Cn) : (m.updCn id f).cns id = (m.cns id).map f := by
  cases hc : m.cns id <;> simp [Mem.updCn, hc]

/-- `AddConnector` for each id of `l`: appends `l`. -/
theorem addConns (v : Variant) (pid : Id) (l : List Id) : ∀ (m : Mem), (m.pls pid).isSome →
    PreSvcs m (l.map (svcPlAddConn v pid)) ∧
    applySvcs m (l.map (svcPlAddConn v pid)) = m.updPl pid (fun p => { p with conns := p.conns ++ l }) := by
  induction l with
  | nil =>
    intro m _
    refine ⟨trivial, ?_⟩
    cases hp : m.pls pid with
    | none => simp [applySvcs, Mem.updPl, hp]
    | some p => simp [applySvcs, Mem.updPl, hp, Map.set_self _ _ _ hp]
  | cons x r ih =>
    intro m hm
    have h1 : (svcPlAddConn v pid x).pre m = none := by
      cases hp : m.pls pid with
      | none => simp [hp] at hm
      | some p => simp [svcPlAddConn, preHasPl, hp]
    have hm1 : (((svcPlAddConn v pid x).upd m).pls pid).isSome := by
      simp only [svcPlAddConn]; rw [updPl_pls]; cases hp : m.pls pid <;> simp_all
    obtain ⟨a, b⟩ := ih _ hm1
    refine ⟨⟨h1, a⟩, ?_⟩
    simp only [List.map_cons, applySvcs, b]
    simp only [svcPlAddConn, updPl_comp]
    congr 1; funext p; simp

theorem addProcsPl (v : Variant) (pid : Id) (l : List Id) : ∀ (m : Mem), (m.pls pid).isSome →
    PreSvcs m (l.map (svcPlAddProc v pid)) ∧
    applySvcs m (l.map (svcPlAddProc v pid)) = m.updPl pid (fun p => { p with procs := p.procs ++ l }) := by
  induction l with
  | nil =>
    intro m _
    refine ⟨trivial, ?_⟩
    cases hp : m.pls pid with
    | none => simp [applySvcs, Mem.updPl, hp]
    | some p => simp [applySvcs, Mem.updPl, hp, Map.set_self _ _ _ hp]
  | cons x r ih =>
    intro m hm
    have h1 : (svcPlAddProc v pid x).pre m = none := by
      cases hp : m.pls pid with
      | none => simp [hp] at hm
      | some p => simp [svcPlAddProc, preHasPl, hp]
    have hm1 : (((svcPlAddProc v pid x).upd m).pls pid).isSome := by
      simp only [svcPlAddProc]; rw [updPl_pls]; cases hp : m.pls pid <;> simp_all
    obtain ⟨a, b⟩ := ih _ hm1
    refine ⟨⟨h1, a⟩, ?_⟩
    simp only [List.map_cons, applySvcs, b]
    simp only [svcPlAddProc, updPl_comp]
    congr 1; funext p; simp

theorem addProcsCn (v : Variant) (cid : Id) (l : List Id) : ∀ (m : Mem), (m.cns cid).isSome →
    PreSvcs m (l.map (svcCnAddProc v cid)) ∧
    applySvcs m (l.map (svcCnAddProc v cid)) = m.updCn cid (fun c => { c with procs := c.procs ++ l }) := by
  induction l with
  | nil =>
    intro m _
    refine ⟨trivial, ?_⟩
    cases hc : m.cns cid with
    | none => simp [applySvcs, Mem.updCn, hc]
    | some c => simp [applySvcs, Mem.updCn, hc, Map.set_self _ _ _ hc]
  | cons x r ih =>
    intro m hm
    have h1 : (svcCnAddProc v cid x).pre m = none := by
      cases hc : m.cns cid with
      | none => simp [hc] at hm
      | some c => simp [svcCnAddProc, preHasCn, hc]
    have hm1 : (((svcCnAddProc v cid x).upd m).cns cid).isSome := by
      simp only [svcCnAddProc]; rw [updCn_cns]; cases hc : m.cns cid <;> simp_all
    obtain ⟨a, b⟩ := ih _ hm1
    refine ⟨⟨h1, a⟩, ?_⟩
    simp only [List.map_cons, applySvcs, b]
    simp only [svcCnAddProc, updCn_comp]
    congr 1; funext c; simp

/-- `RemoveConnector` for each id of the pipeline's current list: empties it. -/
theorem remConnsAll (v : Variant) (pid : Id) (l : List Id) : ∀ (m : Mem), (∃ p, m.pls pid = some p ∧ p.conns = l) →
    PreSvcs m (l.map (svcPlRemConn v pid)) ∧
    applySvcs m (l.map (svcPlRemConn v pid)) = m.updPl pid (fun p => { p with conns := [] }) := by
  induction l with
  | nil =>
    intro m ⟨p, hp, hl⟩
    refine ⟨trivial, ?_⟩
    have : ({ p with conns := [] } : Pl) = p := by cases p; simp at hl ⊢; exact hl
    simp [applySvcs, Mem.updPl, hp, this, Map.set_self _ _ _ hp]
  | cons x r ih =>
    intro m ⟨p, hp, hl⟩
    have h1 : (svcPlRemConn v pid x).pre m = none := by simp [svcPlRemConn, hp, hl]
    have hm1 : ∃ p1, ((svcPlRemConn v pid x).upd m).pls pid = some p1 ∧ p1.conns = r := by
      refine ⟨{ p with conns := r }, ?_, rfl⟩
      simp only [svcPlRemConn]; rw [updPl_pls, hp]; simp [hl]
    obtain ⟨a, b⟩ := ih _ hm1
    refine ⟨⟨h1, a⟩, ?_⟩
    simp only [List.map_cons, applySvcs, b]
    simp only [svcPlRemConn, updPl_comp]

theorem remProcsPlAll (v : Variant) (pid : Id) (l : List Id) : ∀ (m : Mem), (∃ p, m.pls pid = some p ∧ p.procs = l) →
    PreSvcs m (l.map (svcPlRemProc v pid)) ∧
    applySvcs m (l.map (svcPlRemProc v pid)) = m.updPl pid (fun p => { p with procs := [] }) := by
  induction l with
  | nil =>
    intro m ⟨p, hp, hl⟩
    refine ⟨trivial, ?_⟩
    have : ({ p with procs := [] } : Pl) = p := by cases p; simp at hl ⊢; exact hl
    simp [applySvcs, Mem.updPl, hp, this, Map.set_self _ _ _ hp]
  | cons x r ih =>
    intro m ⟨p, hp, hl⟩
    have h1 : (svcPlRemProc v pid x).pre m = none := by simp [svcPlRemProc, hp, hl]
    have hm1 : ∃ p1, ((svcPlRemProc v pid x).upd m).pls pid = some p1 ∧ p1.procs = r := by
      refine ⟨{ p with procs := r }, ?_, rfl⟩
      simp only [svcPlRemProc]; rw [updPl_pls, hp]; simp [hl]
    obtain ⟨a, b⟩ := ih _ hm1
    refine ⟨⟨h1, a⟩, ?_⟩
    simp only [List.map_cons, applySvcs, b]
    simp only [svcPlRemProc, updPl_comp]

theorem remProcsCnAll (v : Variant) (cid : Id) (l : List Id) : ∀ (m : Mem), (∃ c, m.cns cid = some c ∧ c.procs = l) →
    PreSvcs m (l.map (svcCnRemProc v cid)) ∧
    applySvcs m (l.map (svcCnRemProc v cid)) = m.updCn cid (fun c => { c with procs := [] }) := by
  induction l with
  | nil =>
    intro m ⟨c, hc, hl⟩
    refine ⟨trivial, ?_⟩
    have : ({ c with procs := [] } : Cn) = c := by cases c; simp at hl ⊢; exact hl
    simp [applySvcs, Mem.updCn, hc, this, Map.set_self _ _ _ hc]
  | cons x r ih =>
    intro m ⟨c, hc, hl⟩
    have h1 : (svcCnRemProc v cid x).pre m = none := by simp [svcCnRemProc, hc, hl]
    have hm1 : ∃ c1, ((svcCnRemProc v cid x).upd m).cns cid = some c1 ∧ c1.procs = r := by
      refine ⟨{ c with procs := r }, ?_, rfl⟩
      simp only [svcCnRemProc]; rw [updCn_cns, hc]; simp [hl]
    obtain ⟨a, b⟩ := ih _ hm1
    refine ⟨⟨h1, a⟩, ?_⟩
    simp only [List.map_cons, applySvcs, b]
    simp only [svcCnRemProc, updCn_comp]

theorem updPl_noop (m : Mem) (id : Id) (f : Pl → Pl) (h : ∀ p, m.pls id = some p → f p = p) : m.updPl id f = m := by
  cases hp : m.pls id with
  | none => simp [Mem.updPl, hp]
  | some p => simp [Mem.updPl, hp, h p hp, Map.set_self _ _ _ hp]

theorem updCn_noop (m : Mem) (id : Id) (f : Cn → Cn) (h : ∀ c, m.cns id = some c → f c = c) : m.updCn id f = m := by
  cases hc : m.cns id with
  | none => simp [Mem.updCn, hc]
  | some c => simp [Mem.updCn, hc, h c hc, Map.set_self _ _ _ hc]

/-! ## closed-form effect of every import action -/

def ids (l : List ProcCfg) : List Id := l.map (·.id)
def cids (l : List ConnCfg) : List Id := l.map (·.id)

/-- effect on memory of a successful action (no store failure). -/
def Act.eff (v : Variant) : Act → Mem → Mem
  | .createPl c prov, m =>
    { m with pls := m.pls.set c.id { name := c.name, desc := c.desc, status := 3, prov, dlq := c.dlq,
                                     conns := cids c.conns, procs := ids c.procs },
             names := setName m.names c.name true }
  | .deletePl c _, m => (svcPlDelete c.id).upd m
  | .updatePl _ n, m =>
    match m.pls n.id with
    | none => m
    | some p =>
      { m with pls := m.pls.set n.id { p with name := n.name, desc := n.desc, dlq := n.dlq,
                                              conns := cids n.conns, procs := ids n.procs },
               names := setName (setName m.names p.name false) n.name true }
  | .createCn c pid, m =>
    { m with cns := m.cns.set c.id { typ := c.typ, plugin := c.plugin, name := c.name, settings := c.settings,
                                     pipeline := pid, prov := 1, state := 0, procs := ids c.procs } }
  | .deleteCn c _, m => { m with cns := m.cns.del c.id }
  | .updateCn _ n, m =>
    m.updCn n.id fun r => { r with plugin := n.plugin, name := n.name, settings := n.settings, procs := ids n.procs }
  | .createPr c pt par, m =>
    { m with prs := m.prs.set c.id { plugin := c.plugin, settings := c.settings,
                                     workers := if c.workers = 0 then 1 else c.workers, cond := c.cond,
                                     ptype := pt, parent := par, prov := 1 } }
  | .deletePr c _ _, m => { m with prs := m.prs.del c.id }
  | .updatePr _ n, m =>
    m.updPr n.id fun r => { r with plugin := n.plugin, settings := n.settings, workers := n.workers,
                                   cond := if v.condUpdated then n.cond else r.cond }

/-- what makes the action succeed when no store operation fails. -/
def Act.pre (v : Variant) : Act → Mem → Prop
  | .createPl c _, m => plValid m.names c.name = true ∧ dlqValid c.dlq = true
  | .deletePl _ _, _ => True
  | .updatePl _ n, m => ∃ p, m.pls n.id = some p ∧ n.name ≠ 0 ∧ ¬ (m.names n.name = true ∧ p.name ≠ n.name) ∧ dlqValid n.dlq = true
  | .createCn c _, _ => c.name ≠ 0 ∧ c.name ≠ 99 ∧ c.plugin ≠ 0 ∧ (c.typ = 1 ∨ c.typ = 2)
  | .deleteCn _ _, _ => True
  | .updateCn _ n, m => (m.cns n.id).isSome ∧ v.updConnCopies = true
  | .createPr c _ _, _ => 0 ≤ c.workers ∧ prPluginKnown c.plugin = true
  | .deletePr _ _ _, _ => True
  | .updatePr _ n, m => (m.prs n.id).isSome ∧ n.plugin ≠ 0

theorem yields_ignoreNf_del (f : Svc) (s : St) (h : NoFail s) (m' : Mem)
    (hpre : f.pre s.mem = none ∨ f.pre s.mem = some .nf)
    (h1 : f.pre s.mem = none → f.upd s.mem = m') (h2 : f.pre s.mem = some .nf → s.mem = m') :
    Yields (ignoreNf f.run) s m' := by
  rcases hpre with hp | hp
  · obtain ⟨s', e1, e2, e3⟩ := yields_run f s h hp
    exact ⟨s', by simp [ignoreNf, e1], by rw [e2]; exact h1 hp, e3⟩
  · exact ⟨s, by simp [ignoreNf, Svc.run_pre_err hp], h2 hp, h⟩

theorem yields_createPl (v : Variant) (c : PipeCfg) (prov : Nat) (s : St) (h : NoFail s)
    (hpre : Act.pre v (.createPl c prov) s.mem) : Yields (createPlDo v c prov) s (Act.eff v (.createPl c prov) s.mem) := by
  obtain ⟨hv, hd⟩ := hpre
  let L : List Svc := [svcPlCreate c.id c.name c.desc prov, svcPlUpdateDLQ v c.id c.dlq] ++
    (cids c.conns).map (svcPlAddConn v c.id) ++ (ids c.procs).map (svcPlAddProc v c.id)
  have hL : createPlDo v c prov = seqM (L.map Svc.run) := by
    simp [createPlDo, L, cids, ids, List.map_map, Function.comp_def]
  rw [hL]
  let p0 : Pl := { name := c.name, desc := c.desc, status := 3, prov, dlq := Dlq.default, conns := [], procs := [] }
  let m1 : Mem := { s.mem with pls := s.mem.pls.set c.id p0, names := setName s.mem.names c.name true }
  have e1 : (svcPlCreate c.id c.name c.desc prov).upd s.mem = m1 := rfl
  have hp1 : m1.pls c.id = some p0 := by simp [m1, Map.set]
  let m2 : Mem := m1.updPl c.id fun p => { p with dlq := c.dlq }
  have e2 : (svcPlUpdateDLQ v c.id c.dlq).upd m1 = m2 := rfl
  have hs2 : (m2.pls c.id).isSome := by simp [m2, updPl_pls, hp1]
  obtain ⟨a3, b3⟩ := addConns v c.id (cids c.conns) m2 hs2
  have hs3 : ((m2.updPl c.id fun p => { p with conns := p.conns ++ cids c.conns }).pls c.id).isSome := by
    rw [updPl_pls]; cases hq : m2.pls c.id <;> simp_all
  obtain ⟨a4, b4⟩ := addProcsPl v c.id (ids c.procs) _ hs3
  have hpreL : PreSvcs s.mem L := by
    simp only [L, List.append_assoc, List.cons_append, List.nil_append, PreSvcs]
    refine ⟨by simp [svcPlCreate, hv], ?_⟩
    rw [e1]
    refine ⟨by simp [svcPlUpdateDLQ, hp1, hd], ?_⟩
    rw [e2, preSvcs_append]
    exact ⟨a3, by rw [b3]; exact a4⟩
  have heff : applySvcs s.mem L = Act.eff v (.createPl c prov) s.mem := by
    simp only [L, List.append_assoc, List.cons_append, List.nil_append, applySvcs]
    rw [e1, e2, applySvcs_append, b3, b4]
    simp only [m2, updPl_comp]
    rw [updPl_eq m1 c.id _ p0 hp1]
    simp [m1, Act.eff, Map.set_set, p0]
  have := yields_svcs L s h hpreL
  rw [heff] at this; exact this

/-- the "re-create the connector id list" step of `updatePipelineAction.update`. -/
theorem yields_plConnsStep (v : Variant) (c : PipeCfg) (s : St) (h : NoFail s) (hs : (s.mem.pls c.id).isSome) :
    Yields (fun s =>
      match s.mem.pls c.id with
      | none => (.error .nf, s)
      | some p =>
        if p.conns = c.conns.map (·.id) then (.ok (), s)
        else seqM (p.conns.map (fun x => (svcPlRemConn v c.id x).run) ++
                   c.conns.map (fun x => (svcPlAddConn v c.id x.id).run)) s) s
      (s.mem.updPl c.id fun p => { p with conns := cids c.conns }) := by
  cases hp : s.mem.pls c.id with
  | none => simp [hp] at hs
  | some p =>
    by_cases heq : p.conns = c.conns.map (·.id)
    · refine ⟨s, by simp [hp, heq], ?_, h⟩
      symm; apply updPl_noop
      intro q hq; rw [hp] at hq; cases hq
      cases p; simp [cids] at heq ⊢; exact heq.symm
    · let L : List Svc := p.conns.map (svcPlRemConn v c.id) ++ (cids c.conns).map (svcPlAddConn v c.id)
      have hL : (p.conns.map (fun x => (svcPlRemConn v c.id x).run) ++ c.conns.map (fun x => (svcPlAddConn v c.id x.id).run))
          = L.map Svc.run := by simp [L, cids, List.map_map, Function.comp_def]
      obtain ⟨a1, b1⟩ := remConnsAll v c.id p.conns s.mem ⟨p, hp, rfl⟩
      have hs1 : ((s.mem.updPl c.id fun p => { p with conns := [] }).pls c.id).isSome := by
        rw [updPl_pls, hp]; rfl
      obtain ⟨a2, b2⟩ := addConns v c.id (cids c.conns) _ hs1
      have := yields_svcs L s h (by rw [preSvcs_append]; exact ⟨a1, by rw [b1]; exact a2⟩)
      rw [applySvcs_append, b1, b2, updPl_comp] at this
      obtain ⟨s', e1, e2, e3⟩ := this
      refine ⟨s', by simp only [hp, heq, if_false, hL]; exact e1, ?_, e3⟩
      rw [e2]; congr 1

theorem yields_plProcsStep (v : Variant) (c : PipeCfg) (s : St) (h : NoFail s) (hs : (s.mem.pls c.id).isSome) :
    Yields (fun s =>
      match s.mem.pls c.id with
      | none => (.error .nf, s)
      | some p =>
        if p.procs = c.procs.map (·.id) then (.ok (), s)
        else seqM (p.procs.map (fun x => (svcPlRemProc v c.id x).run) ++
                   c.procs.map (fun x => (svcPlAddProc v c.id x.id).run)) s) s
      (s.mem.updPl c.id fun p => { p with procs := ids c.procs }) := by
  cases hp : s.mem.pls c.id with
  | none => simp [hp] at hs
  | some p =>
    by_cases heq : p.procs = c.procs.map (·.id)
    · refine ⟨s, by simp [hp, heq], ?_, h⟩
      symm; apply updPl_noop
      intro q hq; rw [hp] at hq; cases hq
      cases p; simp [ids] at heq ⊢; exact heq.symm
    · let L : List Svc := p.procs.map (svcPlRemProc v c.id) ++ (ids c.procs).map (svcPlAddProc v c.id)
      have hL : (p.procs.map (fun x => (svcPlRemProc v c.id x).run) ++ c.procs.map (fun x => (svcPlAddProc v c.id x.id).run))
          = L.map Svc.run := by simp [L, ids, List.map_map, Function.comp_def]
      obtain ⟨a1, b1⟩ := remProcsPlAll v c.id p.procs s.mem ⟨p, hp, rfl⟩
      have hs1 : ((s.mem.updPl c.id fun p => { p with procs := [] }).pls c.id).isSome := by
        rw [updPl_pls, hp]; rfl
      obtain ⟨a2, b2⟩ := addProcsPl v c.id (ids c.procs) _ hs1
      have := yields_svcs L s h (by rw [preSvcs_append]; exact ⟨a1, by rw [b1]; exact a2⟩)
      rw [applySvcs_append, b1, b2, updPl_comp] at this
      obtain ⟨s', e1, e2, e3⟩ := this
      refine ⟨s', by simp only [hp, heq, if_false, hL]; exact e1, ?_, e3⟩
      rw [e2]; congr 1

theorem yields_updatePl (v : Variant) (o n : PipeCfg) (s : St) (h : NoFail s)
    (hpre : Act.pre v (.updatePl o n) s.mem) : Yields (updatePlRun v n) s (Act.eff v (.updatePl o n) s.mem) := by
  obtain ⟨p, hp, hn0, hnm, hd⟩ := hpre
  unfold updatePlRun
  let m1 : Mem := { s.mem with pls := s.mem.pls.set n.id { p with name := n.name, desc := n.desc },
                               names := setName (setName s.mem.names p.name false) n.name true }
  have e1 : (svcPlUpdate v n.id n.name n.desc).upd s.mem = m1 := by simp only [svcPlUpdate, hp, m1]
  have hpre1 : (svcPlUpdate v n.id n.name n.desc).pre s.mem = none := by
    simp only [svcPlUpdate, hp, hn0, if_false]
    by_cases hx : s.mem.names n.name = true
    · have : p.name = n.name := Classical.byContradiction fun e => hnm ⟨hx, e⟩
      simp [hx, this]
    · simp [hx]
  have hp1 : m1.pls n.id = some { p with name := n.name, desc := n.desc } := by simp [m1, Map.set]
  refine yields_seq_cons _ _ s m1 _ (by rw [← e1]; exact yields_run _ s h hpre1) ?_
  intro s1 es1 n1
  let m2 : Mem := m1.updPl n.id fun q => { q with dlq := n.dlq }
  have hpre2 : (svcPlUpdateDLQ v n.id n.dlq).pre s1.mem = none := by rw [es1]; simp [svcPlUpdateDLQ, hp1, hd]
  refine yields_seq_cons _ _ s1 m2 _ (by
    have := yields_run (svcPlUpdateDLQ v n.id n.dlq) s1 n1 hpre2
    rw [es1] at this; exact this) ?_
  intro s2 es2 n2
  have hs2 : (s2.mem.pls n.id).isSome := by rw [es2]; simp [m2, updPl_pls, hp1]
  refine yields_seq_cons _ _ s2 _ _ (yields_plConnsStep v n s2 n2 hs2) ?_
  intro s3 es3 n3
  have hs3 : (s3.mem.pls n.id).isSome := by
    rw [es3, updPl_pls]; cases hq : s2.mem.pls n.id <;> simp_all
  refine yields_seq_cons _ _ s3 _ _ (yields_plProcsStep v n s3 n3 hs3) ?_
  intro s4 es4 n4
  refine ⟨s4, rfl, ?_, n4⟩
  rw [es4, es3, es2]
  simp only [m2, updPl_comp]
  rw [updPl_eq m1 n.id _ _ hp1]
  simp [m1, Act.eff, hp, Map.set_set]

theorem yields_createCn (v : Variant) (c : ConnCfg) (pid : Id) (s : St) (h : NoFail s)
    (hpre : Act.pre v (.createCn c pid) s.mem) : Yields (createCnDo v c pid) s (Act.eff v (.createCn c pid) s.mem) := by
  obtain ⟨h0, h99, hpl, ht⟩ := hpre
  let L : List Svc := svcCnCreate c.id c.typ c.plugin pid c.name c.settings 1 0 :: (ids c.procs).map (svcCnAddProc v c.id)
  have hL : createCnDo v c pid = seqM (L.map Svc.run) := by
    simp [createCnDo, L, ids, List.map_map, Function.comp_def]
  rw [hL]
  let c0 : Cn := { typ := c.typ, plugin := c.plugin, name := c.name, settings := c.settings, pipeline := pid,
                   prov := 1, state := 0, procs := [] }
  let m1 : Mem := { s.mem with cns := s.mem.cns.set c.id c0 }
  have e1 : (svcCnCreate c.id c.typ c.plugin pid c.name c.settings 1 0).upd s.mem = m1 := rfl
  have hc1 : m1.cns c.id = some c0 := by simp [m1, Map.set]
  obtain ⟨a2, b2⟩ := addProcsCn v c.id (ids c.procs) m1 (by rw [hc1]; rfl)
  have hpreL : PreSvcs s.mem L := by
    refine ⟨?_, by rw [e1]; exact a2⟩
    rcases ht with ht | ht <;> simp [svcCnCreate, h0, h99, hpl, ht]
  have heff : applySvcs s.mem L = Act.eff v (.createCn c pid) s.mem := by
    simp only [L, applySvcs]
    rw [e1, b2, updCn_eq m1 c.id _ c0 hc1]
    simp [m1, Act.eff, Map.set_set, c0]
  have := yields_svcs L s h hpreL
  rw [heff] at this; exact this

theorem yields_updateCn (v : Variant) (o n : ConnCfg) (s : St) (h : NoFail s)
    (hpre : Act.pre v (.updateCn o n) s.mem) : Yields (updateCnRun v n) s (Act.eff v (.updateCn o n) s.mem) := by
  obtain ⟨hsome, hcopies⟩ := hpre
  cases hc : s.mem.cns n.id with
  | none => simp [hc] at hsome
  | some r =>
    unfold updateCnRun
    let m1 : Mem := s.mem.updCn n.id fun r => { r with plugin := n.plugin, name := n.name, settings := n.settings }
    have hpre1 : (svcCnUpdate v n.id n.plugin n.name n.settings).pre s.mem = none := by simp [svcCnUpdate, preHasCn, hc]
    refine yields_seq_cons _ _ s m1 _ (yields_run _ s h hpre1) ?_
    intro s1 es1 n1
    let r1 : Cn := { r with plugin := n.plugin, name := n.name, settings := n.settings }
    have hc1 : s1.mem.cns n.id = some r1 := by rw [es1]; simp [m1, updCn_cns, hc, r1]
    have hfin : Act.eff v (.updateCn o n) s.mem = s1.mem.updCn n.id fun q => { q with procs := ids n.procs } := by
      rw [es1]; simp only [m1, updCn_comp, Act.eff]
    rw [hfin]
    refine yields_seq_cons _ _ s1 _ _ ?_ (fun s2 es2 n2 => ⟨s2, rfl, es2, n2⟩)
    by_cases heq : r1.procs = n.procs.map (·.id)
    · refine ⟨s1, by simp [hc1, heq], ?_, n1⟩
      symm; apply updCn_noop
      intro q hq; rw [hc1] at hq; cases hq
      have : r.procs = ids n.procs := heq
      cases r; simp [r1, ids] at this ⊢; exact this.symm
    · obtain ⟨a1, b1⟩ := remProcsCnAll v n.id r1.procs s1.mem ⟨r1, hc1, rfl⟩
      have hs1 : ((s1.mem.updCn n.id fun c => { c with procs := [] }).cns n.id).isSome := by
        rw [updCn_cns, hc1]; rfl
      obtain ⟨a2, b2⟩ := addProcsCn v n.id (ids n.procs) _ hs1
      have y1 := yields_svcs (r1.procs.map (svcCnRemProc v n.id)) s1 n1 a1
      rw [b1] at y1
      obtain ⟨s2, f1, f2, f3⟩ := y1
      have y2 := yields_svcs ((ids n.procs).map (svcCnAddProc v n.id)) s2 f3 (by rw [f2]; exact a2)
      rw [f2, b2, updCn_comp] at y2
      obtain ⟨s3, g1, g2, g3⟩ := y2
      refine ⟨s3, ?_, ?_, g3⟩
      · simp only [hc1, heq, if_false, hcopies, if_true, seqM]
        have hr : (r1.procs.map fun x => (svcCnRemProc v n.id x).run) = (r1.procs.map (svcCnRemProc v n.id)).map Svc.run := by
          simp [List.map_map, Function.comp_def]
        have ha : (n.procs.map fun x => (svcCnAddProc v n.id x.id).run) = ((ids n.procs).map (svcCnAddProc v n.id)).map Svc.run := by
          simp [ids, List.map_map, Function.comp_def]
        rw [hr, f1]; simp only []; rw [ha, g1]
      · rw [g2]; congr 1

theorem del_none_eq {α} (m : Map α) (k : Id) (h : m k = none) : m.del k = m := by
  funext j; by_cases e : j = k <;> simp [Map.del, e, h]

/-- **every action**: without store failures, under its precondition, the action succeeds and
its effect on memory is `Act.eff`. -/
theorem act_yields (v : Variant) (a : Act) (s : St) (h : NoFail s) (hpre : a.pre v s.mem) :
    Yields (a.run v) s (a.eff v s.mem) := by
  cases a with
  | createPl c prov => exact yields_createPl v c prov s h hpre
  | deletePl c prov =>
    simp only [Act.run, createPlUndo, Act.eff]
    refine yields_ignoreNf_del _ s h _ ?_ (fun _ => rfl) ?_
    · cases hp : s.mem.pls c.id <;> simp [svcPlDelete, preHasPl, hp]
    · intro hn
      cases hp : s.mem.pls c.id with
      | none => simp [svcPlDelete, hp]
      | some p => simp [svcPlDelete, preHasPl, hp] at hn
  | updatePl o n => exact yields_updatePl v o n s h hpre
  | createCn c pid => exact yields_createCn v c pid s h hpre
  | deleteCn c pid =>
    simp only [Act.run, createCnUndo, Act.eff]
    refine yields_ignoreNf_del _ s h _ ?_ (fun _ => rfl) ?_
    · cases hp : s.mem.cns c.id <;> simp [svcCnDelete, preHasCn, hp]
    · intro hn
      cases hp : s.mem.cns c.id with
      | none => exact Mem.ext' rfl (del_none_eq _ _ hp).symm rfl rfl
      | some p => simp [svcCnDelete, preHasCn, hp] at hn
  | updateCn o n => exact yields_updateCn v o n s h hpre
  | createPr c pt par =>
    obtain ⟨hw, hk⟩ := hpre
    simp only [Act.run, createPrDo]
    have : (svcPrCreate c.id c.plugin pt par c.settings c.workers 1 c.cond).pre s.mem = none := by
      simp [svcPrCreate, hk, Int.not_lt.2 hw]
    exact yields_run _ s h this
  | deletePr c pt par =>
    simp only [Act.run, createPrUndo, Act.eff]
    refine yields_ignoreNf_del _ s h _ ?_ (fun _ => rfl) ?_
    · cases hp : s.mem.prs c.id <;> simp [svcPrDelete, preHasPr, hp]
    · intro hn
      cases hp : s.mem.prs c.id with
      | none => exact Mem.ext' rfl rfl (del_none_eq _ _ hp).symm rfl
      | some p => simp [svcPrDelete, preHasPr, hp] at hn
  | updatePr o n =>
    obtain ⟨hs, hg⟩ := hpre
    simp only [Act.run, updatePrRun]
    have hp : (svcPrUpdate v n.id n.plugin n.settings n.workers (if v.condUpdated then some n.cond else none)).pre s.mem = none := by
      cases hr : s.mem.prs n.id with
      | none => simp [hr] at hs
      | some r => simp [svcPrUpdate, hr, hg]
    have := yields_run _ s h hp
    have he : (svcPrUpdate v n.id n.plugin n.settings n.workers (if v.condUpdated then some n.cond else none)).upd s.mem
        = Act.eff v (.updatePr o n) s.mem := by
      simp only [svcPrUpdate, Act.eff]
      cases v.condUpdated <;> rfl
    rw [he] at this; exact this

/-- memory after a list of actions, and what makes all of them succeed. -/
def effAll (v : Variant) (m : Mem) : List Act → Mem
  | [] => m
  | a :: r => effAll v (a.eff v m) r

def PreAll (v : Variant) (m : Mem) : List Act → Prop
  | [] => True
  | a :: r => a.pre v m ∧ PreAll v (a.eff v m) r

theorem effAll_append (v : Variant) (m : Mem) (a b : List Act) : effAll v m (a ++ b) = effAll v (effAll v m a) b := by
  induction a generalizing m with
  | nil => rfl
  | cons x r ih => simp [effAll, ih]

theorem preAll_append (v : Variant) (m : Mem) (a b : List Act) :
    PreAll v m (a ++ b) ↔ PreAll v m a ∧ PreAll v (effAll v m a) b := by
  induction a generalizing m with
  | nil => simp [PreAll, effAll]
  | cons x r ih => simp [PreAll, effAll, ih, and_assoc]

theorem execActs_yields (v : Variant) (acts : List Act) : ∀ (done : List Act) (s : St), NoFail s → PreAll v s.mem acts →
    ∃ s' d, execActs v acts done s = (none, d, s') ∧ s'.mem = effAll v s.mem acts ∧ NoFail s' := by
  induction acts with
  | nil => intro done s h _; exact ⟨s, done, rfl, rfl, h⟩
  | cons a r ih =>
    intro done s h hp
    obtain ⟨s1, e1, e2, e3⟩ := act_yields v a s h hp.1
    obtain ⟨s2, d, f1, f2, f3⟩ := ih (a :: done) s1 e3 (by rw [e2]; exact hp.2)
    exact ⟨s2, d, by simp only [execActs, e1]; exact f1, by rw [f2, e2]; rfl, f3⟩

/-- the import as a whole: with the exported old config, if every action's precondition holds
along the way, `importPipeline` succeeds and memory is the fold of the closed-form effects. -/
theorem importPipeline_yields (v : Variant) (c : PipeCfg) (prov : Nat) (s : St) (old : Option PipeCfg)
    (h : NoFail s) (hex : exportPl v s.mem c.id = .ok old) (hp : PreAll v s.mem (build v prov old c)) :
    Yields (importPipeline v c prov) s (effAll v s.mem (build v prov old c)) := by
  obtain ⟨s', d, e1, e2, e3⟩ := execActs_yields v (build v prov old c) [] s h hp
  refine ⟨s', ?_, e2, e3⟩
  unfold importPipeline; rw [hex]; simp only [e1]

end Conduit.Ctl
