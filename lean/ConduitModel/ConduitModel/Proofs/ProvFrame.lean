import ConduitModel.Proofs.ProvConv

/-!
C15 convergence, frame: what a successful import leaves alone (every entity whose id is neither
in the exported old configuration nor in the new one) and what it removes (every entity of the
old configuration whose id the new one does not mention).
-/
namespace Conduit.Ctl

def Act.plId : Act → Option Id
  | .createPl c _ => some c.id
  | .deletePl c _ => some c.id
  | .updatePl _ n => some n.id
  | _ => none

theorem eff_pls_other_id (v : Variant) (a : Act) (m : Mem) (j : Id) (h : a.plId ≠ some j) : (a.eff v m).pls j = m.pls j := by
  cases a <;> simp only [Act.eff, Act.plId] at h ⊢
  case createPl c p =>
    have e : j ≠ c.id := fun e => h (by rw [e])
    simp [Map.set, e]
  case deletePl c p =>
    have e : j ≠ c.id := fun e => h (by rw [e])
    simp only [svcPlDelete]; split
    · rfl
    · simp [Map.del, e]
  case updatePl o n =>
    have e : j ≠ n.id := fun e => h (by rw [e])
    split
    · rfl
    · simp [Map.set, e]
  case updateCn o n => rw [updCn_pls']
  case updatePr o n => rw [updPr_pls']

theorem effAll_pls_other_id (v : Variant) (L : List Act) : ∀ (m : Mem) (j : Id), (∀ a ∈ L, a.plId ≠ some j) →
    (effAll v m L).pls j = m.pls j := by
  induction L with
  | nil => intro m j _; rfl
  | cons a r ih =>
    intro m j h
    simp only [effAll]
    rw [ih _ j (fun b hb => h b (List.mem_cons_of_mem _ hb)), eff_pls_other_id v a m j (h a List.mem_cons_self)]

/-! ## which entries the action list is about -/

/-- ids of all processors of the exported old configuration. -/
def oldProcIds (old : Option PipeCfg) : List Id := (old.map (·.procIds)).getD []

theorem prGroup_ids (v : Variant) (pt par : Nat) (ol ps : List ProcCfg) :
    ∀ a ∈ prGroup v pt par ol ps, a.plId = none ∧ a.cnId = none ∧ ∀ y, a.prId = some y → y ∈ ids ps := by
  intro a ha
  unfold prGroup at ha
  obtain ⟨pn, hpn, ha⟩ := List.mem_flatMap.1 ha
  obtain ⟨h1, h2, h3⟩ := preparePr_ids v (findProc ol pn.id) (some pn) pt par pn.id
    (fun po h => (findProc_id _ _ _ h).1) (fun _ h => by cases h; rfl) a ha
  refine ⟨?_, h2, ?_⟩
  · cases a <;> simp [Act.isPl] at h3 <;> rfl
  · intro y hy; rw [h1] at hy; cases hy; exact List.mem_map_of_mem hpn

theorem cnGroup_ids (v : Variant) (pid : Id) (oc cs : List ConnCfg) :
    ∀ a ∈ cnGroup v pid oc cs, a.plId = none ∧ (∀ x, a.cnId = some x → x ∈ cids cs) ∧
      ∀ y, a.prId = some y → y ∈ allProcIds cs := by
  intro a ha
  unfold cnGroup at ha
  obtain ⟨cn, hcn, ha⟩ := List.mem_flatMap.1 ha
  rcases List.mem_append.1 ha with ha | ha
  · obtain ⟨h1, h2, h3⟩ := prepareCn_ids (findConn oc cn.id) (some cn) pid cn.id
      (fun co h => (findConn_mem _ _ _ h).1) (fun _ h => by cases h; rfl) a ha
    refine ⟨?_, ?_, ?_⟩
    · cases a <;> simp [Act.isPl] at h3 <;> rfl
    · intro x hx; rw [h1] at hx; cases hx; exact List.mem_map_of_mem hcn
    · intro y hy; rw [h2] at hy; cases hy
  · obtain ⟨h1, h2, h3⟩ := prGroup_ids v 1 cn.id _ cn.procs a ha
    refine ⟨h1, ?_, ?_⟩
    · intro x hx; rw [h2] at hx; cases hx
    · intro y hy; exact List.mem_flatMap.2 ⟨cn, hcn, h3 y hy⟩

theorem preparePl_plId (prov : Nat) (old : Option PipeCfg) (c : PipeCfg) :
    ∀ a ∈ preparePl prov old (some c), a.plId = some c.id := by
  intro a ha
  unfold preparePl at ha
  split at ha
  · rename_i n heq; cases heq; simp at ha; subst ha; rfl
  · rename_i heq; cases heq
  · rename_i o n heq; cases heq
    split at ha
    · cases ha
    · simp at ha; subst ha; rfl
  · cases ha

/-- the actions after the deletion pass are about the new configuration's ids only. -/
theorem newPart_ids (v : Variant) (prov : Nat) (old : Option PipeCfg) (c : PipeCfg) :
    ∀ a ∈ preparePl prov old (some c) ++ (cnGroup v c.id (oldConns old) c.conns ++ prGroup v 2 c.id (oldProcs old) c.procs),
      (∀ j, a.plId = some j → j = c.id) ∧ (∀ x, a.cnId = some x → x ∈ cids c.conns) ∧
      (∀ y, a.prId = some y → y ∈ c.procIds) := by
  intro a ha
  rcases List.mem_append.1 ha with ha | ha
  · obtain ⟨_, h2, h3⟩ := preparePl_ids prov old (some c) a ha
    refine ⟨fun j hj => ?_, fun x hx => ?_, fun y hy => ?_⟩
    · rw [preparePl_plId prov old c a ha] at hj; cases hj; rfl
    · rw [h3] at hx; cases hx
    · rw [h2] at hy; cases hy
  · rcases List.mem_append.1 ha with ha | ha
    · obtain ⟨h1, h2, h3⟩ := cnGroup_ids v c.id _ c.conns a ha
      refine ⟨fun j hj => ?_, h2, fun y hy => ?_⟩
      · rw [h1] at hj; cases hj
      · exact List.mem_append.2 (Or.inl (h3 y hy))
    · obtain ⟨h1, h2, h3⟩ := prGroup_ids v 2 c.id _ c.procs a ha
      refine ⟨fun j hj => ?_, fun x hx => ?_, fun y hy => ?_⟩
      · rw [h1] at hj; cases hj
      · rw [h2] at hx; cases hx
      · exact List.mem_append.2 (Or.inr (h3 y hy))

/-- the deletion pass is about the old configuration's ids only. -/
theorem delActs_ids (v : Variant) (old : Option PipeCfg) (c : PipeCfg) :
    ∀ a ∈ delActs v old c, a.plId = none ∧ (∀ x, a.cnId = some x → x ∈ cids (oldConns old)) ∧
      (∀ y, a.prId = some y → y ∈ oldProcIds old) := by
  intro a ha
  cases old with
  | none => cases ha
  | some o =>
    have ha' : a ∈ buildOldFwd v o (some c) := List.mem_reverse.1 ha
    rcases buildOld_mem v o c a ha' with ⟨co, hco, _, rfl⟩ | ⟨co, hco, po, hpo, _, rfl⟩ | ⟨po, hpo, _, rfl⟩
    · refine ⟨rfl, fun x hx => ?_, fun y hy => by cases hy⟩
      simp only [Act.cnId, Option.some.injEq] at hx; subst hx
      exact List.mem_map_of_mem hco
    · refine ⟨rfl, fun x hx => (by cases hx), fun y hy => ?_⟩
      simp only [Act.prId, Option.some.injEq] at hy; subst hy
      exact List.mem_append.2 (Or.inl (List.mem_flatMap.2 ⟨co, hco, List.mem_map_of_mem hpo⟩))
    · refine ⟨rfl, fun x hx => (by cases hx), fun y hy => ?_⟩
      simp only [Act.prId, Option.some.injEq] at hy; subst hy
      exact List.mem_append.2 (Or.inr (List.mem_map_of_mem hpo))

/-- Frame of the import: every pipeline other than `c.id`, every connector and every processor
whose id is neither in the old (exported) nor in the new configuration is left exactly as it was. -/
theorem build_frame (v : Variant) (prov : Nat) (m : Mem) (c : PipeCfg) (old : Option PipeCfg) :
    (∀ j, j ≠ c.id → (effAll v m (build v prov old c)).pls j = m.pls j) ∧
    (∀ x, x ∉ cids (oldConns old) → x ∉ cids c.conns → (effAll v m (build v prov old c)).cns x = m.cns x) ∧
    (∀ y, y ∉ oldProcIds old → y ∉ c.procIds → (effAll v m (build v prov old c)).prs y = m.prs y) := by
  rw [build_split]
  have hall : ∀ a ∈ delActs v old c ++ (preparePl prov old (some c) ++
      (cnGroup v c.id (oldConns old) c.conns ++ prGroup v 2 c.id (oldProcs old) c.procs)),
      (∀ j, a.plId = some j → j = c.id) ∧ (∀ x, a.cnId = some x → x ∈ cids (oldConns old) ∨ x ∈ cids c.conns) ∧
      (∀ y, a.prId = some y → y ∈ oldProcIds old ∨ y ∈ c.procIds) := by
    intro a ha
    rcases List.mem_append.1 ha with ha | ha
    · obtain ⟨h1, h2, h3⟩ := delActs_ids v old c a ha
      exact ⟨fun j hj => (by rw [h1] at hj; cases hj), fun x hx => Or.inl (h2 x hx), fun y hy => Or.inl (h3 y hy)⟩
    · obtain ⟨h1, h2, h3⟩ := newPart_ids v prov old c a ha
      exact ⟨h1, fun x hx => Or.inr (h2 x hx), fun y hy => Or.inr (h3 y hy)⟩
  refine ⟨fun j hj => ?_, fun x h1 h2 => ?_, fun y h1 h2 => ?_⟩
  · exact effAll_pls_other_id v _ m j (fun a ha e => hj ((hall a ha).1 j e))
  · exact effAll_cns_other v _ m x (fun a ha e => ((hall a ha).2.1 x e).elim h1 h2)
  · exact effAll_prs_other v _ m y (fun a ha e => ((hall a ha).2.2 y e).elim h1 h2)

/-! ## what the import removes -/

theorem effAll_cns_deleted (v : Variant) (x : Id) : ∀ (L : List Act) (m : Mem),
    (∀ a ∈ L, a.cnId = some x → ∃ co pid, a = .deleteCn co pid) →
    (m.cns x = none ∨ ∃ a ∈ L, a.cnId = some x) → (effAll v m L).cns x = none := by
  intro L
  induction L with
  | nil =>
    intro m _ h
    rcases h with h | ⟨a, ha, _⟩
    · exact h
    · cases ha
  | cons a r ih =>
    intro m hdel h
    simp only [effAll]
    apply ih _ (fun b hb => hdel b (List.mem_cons_of_mem _ hb))
    by_cases hx : a.cnId = some x
    · obtain ⟨co, pid, rfl⟩ := hdel a List.mem_cons_self hx
      simp only [Act.cnId, Option.some.injEq] at hx; subst hx
      exact Or.inl (by simp [Act.eff, Map.del])
    · rw [eff_cns_other v a m x hx]
      rcases h with h | ⟨b, hb, hbx⟩
      · exact Or.inl h
      · rcases List.mem_cons.1 hb with rfl | hb
        · exact absurd hbx hx
        · exact Or.inr ⟨b, hb, hbx⟩

theorem effAll_prs_deleted (v : Variant) (y : Id) : ∀ (L : List Act) (m : Mem),
    (∀ a ∈ L, a.prId = some y → ∃ po pt par, a = .deletePr po pt par) →
    (m.prs y = none ∨ ∃ a ∈ L, a.prId = some y) → (effAll v m L).prs y = none := by
  intro L
  induction L with
  | nil =>
    intro m _ h
    rcases h with h | ⟨a, ha, _⟩
    · exact h
    · cases ha
  | cons a r ih =>
    intro m hdel h
    simp only [effAll]
    apply ih _ (fun b hb => hdel b (List.mem_cons_of_mem _ hb))
    by_cases hy : a.prId = some y
    · obtain ⟨po, pt, par, rfl⟩ := hdel a List.mem_cons_self hy
      simp only [Act.prId, Option.some.injEq] at hy; subst hy
      exact Or.inl (by simp [Act.eff, Map.del])
    · rw [eff_prs_other v a m y hy]
      rcases h with h | ⟨b, hb, hby⟩
      · exact Or.inl h
      · rcases List.mem_cons.1 hb with rfl | hb
        · exact absurd hby hy
        · exact Or.inr ⟨b, hb, hby⟩

theorem findConn_none_of_not_mem (l : List ConnCfg) (i : Id) (h : i ∉ cids l) : findConn l i = none := by
  unfold findConn
  rw [List.find?_eq_none]
  intro z hz e
  exact h (by simp only [decide_eq_true_eq] at e; rw [← e]; exact List.mem_map_of_mem hz)

theorem findProc_none_of_not_mem (l : List ProcCfg) (i : Id) (h : i ∉ ids l) : findProc l i = none := by
  unfold findProc
  rw [List.find?_eq_none]
  intro z hz e
  exact h (by simp only [decide_eq_true_eq] at e; rw [← e]; exact List.mem_map_of_mem hz)

theorem oldProcsOf_sub (cs : List ConnCfg) (x : Id) : ∀ y ∈ ids (oldProcsOf cs x), y ∈ allProcIds cs := by
  intro y hy
  unfold oldProcsOf at hy
  cases hf : findConn cs x with
  | none => simp [hf, ids] at hy
  | some co =>
    simp only [hf, Option.map_some, Option.getD_some] at hy
    exact List.mem_flatMap.2 ⟨co, (findConn_mem _ _ _ hf).2, hy⟩

/-- Everything the old (exported) configuration has and the new one does not mention is gone
after the import: connectors and processors (of the pipeline and of its connectors). -/
theorem build_gone (v : Variant) (prov : Nat) (m : Mem) (c o : PipeCfg) :
    (∀ co ∈ o.conns, co.id ∉ cids c.conns → (effAll v m (build v prov (some o) c)).cns co.id = none) ∧
    (∀ y ∈ o.procIds, y ∉ c.procIds → (effAll v m (build v prov (some o) c)).prs y = none) := by
  rw [build_split, effAll_append]
  have hnew := newPart_ids v prov (some o) c
  have hmem : ∀ a ∈ delActs v (some o) c, _ := fun a ha => buildOld_mem v o c a (List.mem_reverse.1 ha)
  constructor
  · intro co hco hnot
    rw [effAll_cns_other v _ _ co.id (fun a ha e => hnot ((hnew a ha).2.1 _ e))]
    apply effAll_cns_deleted
    · intro a ha hx
      rcases hmem a ha with ⟨co', _, _, rfl⟩ | ⟨_, _, _, _, _, rfl⟩ | ⟨_, _, _, rfl⟩
      · exact ⟨_, _, rfl⟩
      · cases hx
      · cases hx
    · refine Or.inr ⟨.deleteCn co o.id, List.mem_reverse.2 ?_, rfl⟩
      unfold buildOldFwd
      refine List.mem_append.2 (Or.inl (List.mem_flatMap.2 ⟨co, hco, List.mem_append.2 (Or.inl ?_)⟩))
      simp [findConn_none_of_not_mem c.conns co.id hnot, prepareCn]
  · intro y hy hnot
    rw [effAll_prs_other v _ _ y (fun a ha e => hnot ((hnew a ha).2.2 _ e))]
    have hnotc : y ∉ allProcIds c.conns := fun h => hnot (List.mem_append.2 (Or.inl h))
    have hnotp : y ∉ ids c.procs := fun h => hnot (List.mem_append.2 (Or.inr h))
    apply effAll_prs_deleted
    · intro a ha hx
      rcases hmem a ha with ⟨co', _, _, rfl⟩ | ⟨_, _, _, _, _, rfl⟩ | ⟨_, _, _, rfl⟩
      · cases hx
      · exact ⟨_, _, _, rfl⟩
      · exact ⟨_, _, _, rfl⟩
    · rcases List.mem_append.1 hy with hy | hy
      · obtain ⟨co, hco, hy⟩ := List.mem_flatMap.1 hy
        obtain ⟨po, hpo, rfl⟩ := List.mem_map.1 hy
        refine Or.inr ⟨.deletePr po 1 co.id, List.mem_reverse.2 ?_, rfl⟩
        unfold buildOldFwd
        refine List.mem_append.2 (Or.inl (List.mem_flatMap.2 ⟨co, hco, List.mem_append.2 (Or.inr
          (List.mem_flatMap.2 ⟨po, hpo, ?_⟩))⟩))
        have hn : findProc (oldProcsOf c.conns co.id) po.id = none :=
          findProc_none_of_not_mem _ _ (fun h => hnotc (oldProcsOf_sub c.conns co.id _ h))
        unfold oldProcsOf at hn
        simp [hn, preparePr]
      · obtain ⟨po, hpo, rfl⟩ := List.mem_map.1 hy
        refine Or.inr ⟨.deletePr po 2 o.id, List.mem_reverse.2 ?_, rfl⟩
        unfold buildOldFwd
        refine List.mem_append.2 (Or.inr (List.mem_flatMap.2 ⟨po, hpo, ?_⟩))
        simp [findProc_none_of_not_mem c.procs po.id hnotp, preparePr]

/-! ## references intact ⇒ `Export` cannot fail -/

theorem exportProcs_total (v : Variant) (m : Mem) : ∀ (idl : List Id), (∀ i ∈ idl, (m.prs i).isSome) →
    ∃ l, exportProcs v m idl = .ok l := by
  intro idl
  induction idl with
  | nil => intro _; exact ⟨[], rfl⟩
  | cons i rest ih =>
    intro h
    obtain ⟨l, hl⟩ := ih (fun j hj => h j (List.mem_cons_of_mem _ hj))
    have hi := h i List.mem_cons_self
    cases hr : m.prs i with
    | none => rw [hr] at hi; cases hi
    | some r => exact ⟨procToCfg v i r :: l, by simp only [exportProcs, hr, hl]⟩

theorem exportConns_total (v : Variant) (m : Mem) : ∀ (idl : List Id),
    (∀ i ∈ idl, ∃ r, m.cns i = some r ∧ ∀ y ∈ r.procs, (m.prs y).isSome) →
    ∃ l, exportConns v m idl = .ok l := by
  intro idl
  induction idl with
  | nil => intro _; exact ⟨[], rfl⟩
  | cons i rest ih =>
    intro h
    obtain ⟨l, hl⟩ := ih (fun j hj => h j (List.mem_cons_of_mem _ hj))
    obtain ⟨r, hr, hrp⟩ := h i List.mem_cons_self
    obtain ⟨ps, hps⟩ := exportProcs_total v m r.procs hrp
    exact ⟨{ id := i, typ := r.typ, plugin := r.plugin, name := r.name, settings := r.settings, procs := ps } :: l,
      by simp only [exportConns, hr, hps, hl]⟩

/-- with the references below the pipeline intact, `Export` succeeds (with `none` for "no such pipeline"). -/
theorem exportPl_total (v : Variant) (m : Mem) (pid : Id) (hrefs : PlRefs m pid) : ∃ old, exportPl v m pid = .ok old := by
  unfold exportPl
  cases hp : m.pls pid with
  | none => exact ⟨none, rfl⟩
  | some p =>
    obtain ⟨cs, hcs⟩ := exportConns_total v m p.conns (fun x hx => by
      obtain ⟨r, hr, _, hrp⟩ := hrefs.conn p x hp hx
      exact ⟨r, hr, fun y hy => by obtain ⟨q, hq, _⟩ := hrp y hy; rw [hq]; rfl⟩)
    obtain ⟨ps, hps⟩ := exportProcs_total v m p.procs (fun y hy => by
      obtain ⟨q, hq, _⟩ := hrefs.proc p y hp hy; rw [hq]; rfl)
    exact ⟨some { id := pid, name := p.name, desc := p.desc, dlq := p.dlq, conns := cs, procs := ps }, by simp only [hcs, hps]⟩

/-! ## the downward references of every pipeline survive an import -/

/-- the references below every pipeline are intact. -/
def DownRefs (m : Mem) : Prop := ∀ pid, PlRefs m pid

theorem downRefs_of_refs (m : Mem) (h : Refs m) : DownRefs m := fun pid => plRefs_of_refs m h pid

/-- The ids of `c` are not in use under another pipeline: a connector id of `c` that exists
belongs to pipeline `c.id`, a processor id of `c` that exists hangs below pipeline `c.id`.
(The real service builds the entity ids from the pipeline id: `<pipeline>:<connector>`,
`<pipeline>:<connector>:<processor>`.) -/
structure CfgOwned (m : Mem) (c : PipeCfg) : Prop where
  cn : ∀ x ∈ cids c.conns, ∀ r, m.cns x = some r → r.pipeline = c.id
  pr : ∀ y ∈ c.procIds, ∀ q, m.prs y = some q →
    (q.ptype = 2 ∧ q.parent = c.id) ∨ (q.ptype = 1 ∧ ∃ r, m.cns q.parent = some r ∧ r.pipeline = c.id)

theorem plRefs_other (v : Variant) (prov : Nat) (m : Mem) (c : PipeCfg) (old : Option PipeCfg) (pid : Id)
    (hne : pid ≠ c.id) (hex : exportPl v m c.id = .ok old) (hc : PlRefs m c.id) (h : PlRefs m pid)
    (ho : CfgOwned m c) : PlRefs (effAll v m (build v prov old c)) pid := by
  obtain ⟨f1, f2, f3⟩ := build_frame v prov m c old
  -- connectors / processors of the old configuration, with parents
  have holdc : ∀ x ∈ cids (oldConns old), ∃ r, m.cns x = some r ∧ r.pipeline = c.id := by
    intro x hx
    cases old with
    | none => simp [oldConns, cids] at hx
    | some o =>
      obtain ⟨co, hco, rfl⟩ := List.mem_map.1 hx
      obtain ⟨r, hr, _, hpp, _⟩ := (exportPl_parents v m c.id o hc hex).1 co hco
      exact ⟨r, hr, hpp⟩
  have holdp : ∀ y ∈ oldProcIds old, ∃ q, m.prs y = some q ∧
      ((q.ptype = 2 ∧ q.parent = c.id) ∨ (q.ptype = 1 ∧ q.parent ∈ cids (oldConns old))) := by
    intro y hy
    cases old with
    | none => simp [oldProcIds] at hy
    | some o =>
      obtain ⟨h1, h2⟩ := exportPl_parents v m c.id o hc hex
      rcases List.mem_append.1 hy with hy | hy
      · obtain ⟨co, hco, hy⟩ := List.mem_flatMap.1 hy
        obtain ⟨po, hpo, rfl⟩ := List.mem_map.1 hy
        obtain ⟨_, _, _, _, hq⟩ := h1 co hco
        obtain ⟨q, hq1, _, a, b⟩ := hq po hpo
        exact ⟨q, hq1, Or.inr ⟨a, by rw [b]; exact List.mem_map_of_mem hco⟩⟩
      · obtain ⟨po, hpo, rfl⟩ := List.mem_map.1 hy
        obtain ⟨q, hq1, _, a, b⟩ := h2 po hpo
        exact ⟨q, hq1, Or.inl ⟨a, b⟩⟩
  constructor
  · intro p cid hp hcid
    rw [f1 pid hne] at hp
    obtain ⟨r, hr, hpp, hrp⟩ := h.conn p cid hp hcid
    have hc1 : cid ∉ cids (oldConns old) := by
      intro hin
      obtain ⟨r', hr', hpp'⟩ := holdc cid hin
      rw [hr] at hr'; cases hr'
      exact hne (hpp.symm.trans hpp')
    have hc2 : cid ∉ cids c.conns := fun hin => hne (hpp.symm.trans (ho.cn cid hin r hr))
    refine ⟨r, by rw [f2 cid hc1 hc2]; exact hr, hpp, ?_⟩
    intro rid hrid
    obtain ⟨q, hq, a, b⟩ := hrp rid hrid
    have hp1 : rid ∉ oldProcIds old := by
      intro hin
      obtain ⟨q', hq', hcase⟩ := holdp rid hin
      rw [hq] at hq'; cases hq'
      rcases hcase with ⟨a', _⟩ | ⟨_, b'⟩
      · rw [a] at a'; cases a'
      · rw [b] at b'; exact hc1 b'
    have hp2 : rid ∉ c.procIds := by
      intro hin
      rcases ho.pr rid hin q hq with ⟨a', _⟩ | ⟨_, r', hr', hpp'⟩
      · rw [a] at a'; cases a'
      · rw [b, hr] at hr'; cases hr'
        exact hne (hpp.symm.trans hpp')
    exact ⟨q, by rw [f3 rid hp1 hp2]; exact hq, a, b⟩
  · intro p rid hp hrid
    rw [f1 pid hne] at hp
    obtain ⟨q, hq, a, b⟩ := h.proc p rid hp hrid
    have hp1 : rid ∉ oldProcIds old := by
      intro hin
      obtain ⟨q', hq', hcase⟩ := holdp rid hin
      rw [hq] at hq'; cases hq'
      rcases hcase with ⟨_, b'⟩ | ⟨a', _⟩
      · exact hne (b.symm.trans b')
      · rw [a] at a'; cases a'
    have hp2 : rid ∉ c.procIds := by
      intro hin
      rcases ho.pr rid hin q hq with ⟨_, b'⟩ | ⟨a', _⟩
      · exact hne (b.symm.trans b')
      · rw [a] at a'; cases a'
    exact ⟨q, by rw [f3 rid hp1 hp2]; exact hq, a, b⟩

/-- a successful import keeps the references below every pipeline intact. -/
theorem downRefs_import (v : Variant) (prov : Nat) (m : Mem) (c : PipeCfg) (old : Option PipeCfg)
    (h : ConvReady v m c old) (hd : DownRefs m) (ho : CfgOwned m c) : DownRefs (effAll v m (build v prov old c)) := by
  intro pid
  by_cases hne : pid = c.id
  · subst hne
    obtain ⟨_, t1, t2⟩ := converge_mem v prov m c old h
    exact plRefs_of_target _ c t1 t2
  · exact plRefs_other v prov m c old pid hne h.exp (hd c.id) (hd pid) ho

end Conduit.Ctl
