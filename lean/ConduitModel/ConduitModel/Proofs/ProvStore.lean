import ConduitModel.Proofs.ProvEff

/-!
C15 convergence, store side: with no store failure, every program of the import keeps the open
transaction an exact copy of memory, so the commit of a successful import leaves
store = memory.
-/
namespace Conduit.Ctl

/-- without store failure, the program keeps the open transaction a copy of memory. -/
def TxAgree (prog : M Unit) : Prop :=
  ∀ s, NoFail s → s.tx = some (KV.ofMem s.mem) →
    NoFail (prog s).2 ∧ (prog s).2.tx = some (KV.ofMem (prog s).2.mem) ∧ (prog s).2.kv = s.kv

theorem txAgree_run (f : Svc) (hf : Footprint f) : TxAgree f.run := by
  intro s hn ht
  cases hp : f.pre s.mem with
  | some e => rw [Svc.run_pre_err hp]; exact ⟨hn, ht, rfl⟩
  | none =>
    rw [run_nofail_ok f s hn hp]
    exact ⟨hn.stepOk f, stepOk_tx_agree f hf s ht, (stepOk_tx_some f s _ ht).2⟩

theorem txAgree_id : TxAgree (fun s => (.ok (), s)) := fun _ hn ht => ⟨hn, ht, rfl⟩

theorem txAgree_seqM (l : List (M Unit)) (h : ∀ a ∈ l, TxAgree a) : TxAgree (seqM l) := by
  induction l with
  | nil => intro s hn ht; exact ⟨hn, ht, rfl⟩
  | cons a rest ih =>
    intro s hn ht
    obtain ⟨h1, h2, h3⟩ := h a List.mem_cons_self s hn ht
    simp only [seqM]
    rcases hr : a s with ⟨r, s'⟩
    rw [hr] at h1 h2 h3
    cases r with
    | error e => exact ⟨h1, h2, h3⟩
    | ok u =>
      cases u
      obtain ⟨g1, g2, g3⟩ := ih (fun b hb => h b (List.mem_cons_of_mem _ hb)) s' h1 h2
      exact ⟨g1, g2, by rw [g3, h3]⟩

theorem txAgree_ignoreNf (a : M Unit) (h : TxAgree a) : TxAgree (ignoreNf a) := by
  intro s hn ht
  obtain ⟨h1, h2, h3⟩ := h s hn ht
  unfold ignoreNf
  split <;> simp_all

macro "fp_any" : tactic =>
  `(tactic| first
    | exact fp_updPl _ _ _ _ _ | exact fp_updCn _ _ _ _ | exact fp_updPr _ _ _ _
    | exact fp_plCreate _ _ _ _ | exact fp_plUpdate _ _ _ _ | exact fp_plDelete _
    | exact fp_cnCreate _ _ _ _ _ _ _ _ | exact fp_cnDelete _
    | exact fp_prCreate _ _ _ _ _ _ _ _ | exact fp_prDelete _)

theorem txAgree_aliased (v : Variant) (cid : Id) : ∀ fuel i backing, TxAgree (aliasedRemoveLoop v cid fuel i backing) := by
  intro fuel
  induction fuel with
  | zero => intro i b s hn ht; exact ⟨hn, ht, rfl⟩
  | succ n ih =>
    intro i b s hn ht
    simp only [aliasedRemoveLoop]
    split
    · exact ⟨hn, ht, rfl⟩
    · obtain ⟨h1, h2, h3⟩ := txAgree_run (svcCnRemProc v cid ‹Id›) (by fp_any) s hn ht
      split
      · rename_i heq; rw [heq] at h1 h2 h3; exact ⟨h1, h2, h3⟩
      · rename_i heq; rw [heq] at h1 h2 h3
        obtain ⟨g1, g2, g3⟩ := ih _ _ _ h1 h2
        exact ⟨g1, g2, by rw [g3, h3]⟩

theorem txAgree_act_run (v : Variant) (a : Act) : TxAgree (a.run v) := by
  have hcreatePl : ∀ c prov, TxAgree (createPlDo v c prov) := by
    intro c prov
    refine txAgree_seqM _ ?_
    intro a ha
    simp only [List.mem_append, List.mem_cons, List.mem_map, List.not_mem_nil, or_false] at ha
    rcases ha with ((rfl | rfl) | ⟨x, _, rfl⟩) | ⟨x, _, rfl⟩ <;> exact txAgree_run _ (by fp_any)
  have hcreateCn : ∀ c pid, TxAgree (createCnDo v c pid) := by
    intro c pid
    refine txAgree_seqM _ ?_
    intro a ha
    simp only [List.mem_cons, List.mem_map] at ha
    rcases ha with rfl | ⟨x, _, rfl⟩ <;> exact txAgree_run _ (by fp_any)
  have hupdPl : ∀ c, TxAgree (updatePlRun v c) := by
    intro c
    refine txAgree_seqM _ ?_
    intro a ha
    simp only [List.mem_cons, List.not_mem_nil, or_false] at ha
    rcases ha with rfl | rfl | rfl | rfl
    · exact txAgree_run _ (by fp_any)
    · exact txAgree_run _ (by fp_any)
    · intro s hn ht
      simp only
      split
      · exact ⟨hn, ht, rfl⟩
      · split
        · exact ⟨hn, ht, rfl⟩
        · refine txAgree_seqM _ ?_ s hn ht
          intro a ha
          simp only [List.mem_append, List.mem_map] at ha
          rcases ha with ⟨x, _, rfl⟩ | ⟨x, _, rfl⟩ <;> exact txAgree_run _ (by fp_any)
    · intro s hn ht
      simp only
      split
      · exact ⟨hn, ht, rfl⟩
      · split
        · exact ⟨hn, ht, rfl⟩
        · refine txAgree_seqM _ ?_ s hn ht
          intro a ha
          simp only [List.mem_append, List.mem_map] at ha
          rcases ha with ⟨x, _, rfl⟩ | ⟨x, _, rfl⟩ <;> exact txAgree_run _ (by fp_any)
  have hupdCn : ∀ c, TxAgree (updateCnRun v c) := by
    intro c
    refine txAgree_seqM _ ?_
    intro a ha
    simp only [List.mem_cons, List.not_mem_nil, or_false] at ha
    rcases ha with rfl | rfl
    · exact txAgree_run _ (by fp_any)
    · intro s hn ht
      simp only
      split
      · exact ⟨hn, ht, rfl⟩
      · split
        · exact ⟨hn, ht, rfl⟩
        · refine txAgree_seqM _ ?_ s hn ht
          intro a ha
          simp only [List.mem_cons, List.not_mem_nil, or_false] at ha
          rcases ha with rfl | rfl
          · split
            · refine txAgree_seqM _ ?_
              intro a ha
              obtain ⟨x, _, rfl⟩ := List.mem_map.1 ha
              exact txAgree_run _ (by fp_any)
            · exact txAgree_aliased _ _ _ _ _
          · refine txAgree_seqM _ ?_
            intro a ha
            obtain ⟨x, _, rfl⟩ := List.mem_map.1 ha
            exact txAgree_run _ (by fp_any)
  cases a <;> simp only [Act.run, createPlUndo, createCnUndo, createPrDo, createPrUndo, updatePrRun]
  all_goals first
    | exact hcreatePl _ _
    | exact hupdPl _
    | exact hcreateCn _ _
    | exact hupdCn _
    | exact txAgree_ignoreNf _ (txAgree_run _ (by fp_any))
    | exact txAgree_run _ (by fp_any)

theorem execActs_txAgree (v : Variant) (l : List Act) : ∀ (done : List Act) (s : St), NoFail s →
    s.tx = some (KV.ofMem s.mem) →
    (execActs v l done s).2.2.tx = some (KV.ofMem (execActs v l done s).2.2.mem) ∧ (execActs v l done s).2.2.kv = s.kv := by
  induction l with
  | nil => intro done s _ ht; exact ⟨ht, rfl⟩
  | cons a rest ih =>
    intro done s hn ht
    obtain ⟨h1, h2, h3⟩ := txAgree_act_run v a s hn ht
    simp only [execActs]
    rcases hr : a.run v s with ⟨r, s'⟩
    rw [hr] at h1 h2 h3
    cases r with
    | error e => exact ⟨h2, h3⟩
    | ok u =>
      cases u
      obtain ⟨g2, g3⟩ := ih (a :: done) s' h1 h2
      exact ⟨g2, by rw [g3, h3]⟩

/-- a successful import inside a transaction that was a copy of memory leaves it a copy of memory. -/
theorem importPipeline_txAgree (v : Variant) (c : PipeCfg) (prov : Nat) (s s' : St) (hn : NoFail s)
    (ht : s.tx = some (KV.ofMem s.mem)) (hok : importPipeline v c prov s = (.ok (), s')) :
    s'.tx = some (KV.ofMem s'.mem) ∧ s'.kv = s.kv := by
  unfold importPipeline at hok
  split at hok
  · simp at hok
  · rename_i old _
    obtain ⟨h2, h3⟩ := execActs_txAgree v (build v prov old c) [] s hn ht
    rcases hr : execActs v (build v prov old c) [] s with ⟨r, done, s1⟩
    rw [hr] at h2 h3 hok
    cases r with
    | none => simp at hok; subst hok; exact ⟨h2, h3⟩
    | some e => simp at hok

end Conduit.Ctl
