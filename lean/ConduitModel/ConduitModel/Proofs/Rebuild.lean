import ConduitModel.Spec.Rebuild
import ConduitModel.Proofs.TreeBuilt

/-!
# Reservations made by a build attempt (helper lemmas for Props/C11Build.lean)
-/
namespace Conduit.Rebuild
open Conduit.Funnel

/-- processor ids of the connectors of kind `k`, in reservation order -/
def kindProcIds (k : ConnKind) (cs : List ConnCfg) : List Nat :=
  ((cs.filter (·.kind = k)).map fun c => procIds c.procs).flatten

theorem kindProcIds_cons (k : ConnKind) (c : ConnCfg) (cs : List ConnCfg) :
    kindProcIds k (c :: cs) = if c.kind = k then procIds c.procs ++ kindProcIds k cs else kindProcIds k cs := by
  unfold kindProcIds
  by_cases h : c.kind = k <;> simp [List.filter_cons, h]

/-- a successful `reserve` -/
theorem reserve_ok (ps : List ProcRef) : ∀ (held h : List Nat), reserve held ps = (none, h) →
    h = (procIds ps).reverse ++ held ∧ (procIds ps).Nodup ∧ ∀ x ∈ procIds ps, x ∉ held := by
  induction ps with
  | nil => intro held h e; simp only [reserve, Prod.mk.injEq, true_and] at e; subst e; simp [procIds]
  | cons p ps ih =>
    intro held h e
    obtain ⟨id, found⟩ := p
    rw [reserve] at e
    cases found with
    | false => simp at e
    | true =>
      simp only [Bool.not_true, Bool.false_eq_true, if_false] at e
      cases hc : held.contains id with
      | true => rw [hc] at e; simp at e
      | false =>
        rw [hc] at e
        simp only [Bool.false_eq_true, if_false] at e
        obtain ⟨h1, h2, h3⟩ := ih (id :: held) h e
        have hid : id ∉ held := by simpa using hc
        refine ⟨by simp [procIds, h1], ?_, ?_⟩
        · simp only [procIds, List.map_cons]
          exact List.nodup_cons.mpr ⟨fun hm => h3 id hm (List.mem_cons_self ..), h2⟩
        · intro x hx
          simp only [procIds, List.map_cons] at hx
          rcases List.mem_cons.mp hx with rfl | hx
          · exact hid
          · exact fun hm => h3 x hx (List.mem_cons_of_mem _ hm)

/-- a failed `reserve` keeps what it reserved before the failure: a prefix of the list -/
theorem reserve_err (ps : List ProcRef) : ∀ (held h : List Nat) (e : BuildErr), reserve held ps = (some e, h) →
    ∃ pre, pre <+: procIds ps ∧ h = pre.reverse ++ held := by
  induction ps with
  | nil => intro held h e he; simp [reserve] at he
  | cons p ps ih =>
    intro held h e he
    obtain ⟨id, found⟩ := p
    rw [reserve] at he
    cases found with
    | false =>
      simp only [Bool.not_false, if_true, Prod.mk.injEq] at he
      exact ⟨[], List.nil_prefix, by simp [he.2]⟩
    | true =>
      simp only [Bool.not_true, Bool.false_eq_true, if_false] at he
      cases hc : held.contains id with
      | true =>
        rw [hc] at he
        simp only [if_true, Prod.mk.injEq] at he
        exact ⟨[], List.nil_prefix, by simp [he.2]⟩
      | false =>
        rw [hc] at he
        simp only [Bool.false_eq_true, if_false] at he
        obtain ⟨pre, hp, hh⟩ := ih (id :: held) h e he
        refine ⟨id :: pre, ?_, by simp [hh]⟩
        simp only [procIds, List.map_cons]
        exact List.cons_prefix_cons.mpr ⟨rfl, hp⟩

theorem nodup_append_disj {a b : List Nat} (ha : a.Nodup) (hb : b.Nodup) (hd : ∀ x ∈ b, x ∉ a) : (a ++ b).Nodup :=
  nodup_append_of ha hb hd

/-- a successful `reserveConns` -/
theorem reserveConns_ok (k : ConnKind) (hk : k ≠ .missing) (openC : List Nat) (cs : List ConnCfg) : ∀ (held h : List Nat),
    reserveConns k openC held cs = (none, h) →
    h = (kindProcIds k cs).reverse ++ held ∧ (kindProcIds k cs).Nodup ∧ ∀ x ∈ kindProcIds k cs, x ∉ held := by
  induction cs with
  | nil => intro held h e; simp only [reserveConns, Prod.mk.injEq, true_and] at e; subst e; simp [kindProcIds]
  | cons c cs ih =>
    intro held h e
    rw [reserveConns] at e
    by_cases hm : c.kind = .missing
    · simp [hm] at e
    · simp only [hm, if_false] at e
      by_cases hck : c.kind = k
      · simp only [hck, ne_eq, not_true_eq_false, if_false] at e
        have ho : openC.contains c.id = false := by
          cases ho : openC.contains c.id with
          | false => rfl
          | true => rw [ho] at e; simp at e
        rw [ho] at e
        simp only [Bool.false_eq_true, if_false] at e
        rcases hr : reserve held c.procs with ⟨eo, h1⟩
        rw [hr] at e
        cases eo with
        | some e' => simp at e
        | none =>
          simp only at e
          obtain ⟨p1, p2, p3⟩ := reserve_ok c.procs held h1 hr
          obtain ⟨q1, q2, q3⟩ := ih h1 h e
          rw [kindProcIds_cons, if_pos hck]
          refine ⟨by rw [q1, p1]; simp, ?_, ?_⟩
          · refine nodup_append_disj p2 q2 (fun x hx hm' => q3 x hx ?_)
            rw [p1]; exact List.mem_append_left _ (List.mem_reverse.mpr hm')
          · intro x hx
            rcases List.mem_append.mp hx with hx | hx
            · exact p3 x hx
            · exact fun hm' => q3 x hx (by rw [p1]; exact List.mem_append_right _ hm')
      · simp only [ne_eq, hck, not_false_eq_true, if_true] at e
        rw [kindProcIds_cons, if_neg hck]
        exact ih held h e

/-- whatever happens, `reserve` / `reserveConns` only ADD reservations in front of `held` -/
theorem reserve_suffix (ps : List ProcRef) : ∀ (held : List Nat), ∃ a, (reserve held ps).2 = a ++ held := by
  induction ps with
  | nil => intro held; exact ⟨[], rfl⟩
  | cons p ps ih =>
    intro held
    obtain ⟨id, found⟩ := p
    rw [reserve]
    cases found with
    | false => exact ⟨[], rfl⟩
    | true =>
      simp only [Bool.not_true, Bool.false_eq_true, if_false]
      cases hc : held.contains id with
      | true => exact ⟨[], by simp⟩
      | false =>
        simp only [Bool.false_eq_true, if_false]
        obtain ⟨a, ha⟩ := ih (id :: held)
        exact ⟨a ++ [id], by rw [ha]; simp⟩

theorem added_append (a held : List Nat) : added held (a ++ held) = a := by
  simp [added]

theorem kindProcIds_source (cs : List ConnCfg) : kindProcIds .source cs = srcProcIds cs := by
  have e : (fun x : ConnCfg => decide (x.kind = ConnKind.source)) = (fun x => x.kind == ConnKind.source) := by
    funext x; cases x.kind <;> rfl
  simp only [kindProcIds, srcProcIds, srcConns, e]

theorem kindProcIds_dest (cs : List ConnCfg) : kindProcIds .dest cs = dstProcIds cs := by
  have e : (fun x : ConnCfg => decide (x.kind = ConnKind.dest)) = (fun x => x.kind == ConnKind.dest) := by
    funext x; cases x.kind <;> rfl
  simp only [kindProcIds, dstProcIds, dstConns, e]

end Conduit.Rebuild
