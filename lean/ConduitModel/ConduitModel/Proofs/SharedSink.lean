import ConduitModel.Model.SharedSink

/-!
Invariants of the shared-sink protocol (Model/SharedSink.lean) and their preservation by every
step: `Inv` (lock / program counters / poison / ownership of the outstanding acks) and `LogInv`
(the ghost log of every root is serial; entries of a worker are in hand-off order).
-/
namespace Conduit.SharedSink

structure Inv (R : Nat) (s : St) : Prop where
  holdsLock : ∀ w r, (s.bpc w r).holds = true → s.lock r = some w
  lockHolds : ∀ w r, s.lock r = some w → (s.bpc w r).holds = true
  runClean : ∀ w r, s.bpc w r = .running → s.poison r = false
  idleOut : ∀ w r, s.wpc w ≠ .fanned → s.bpc w r = .idle
  idleHigh : ∀ w r, R ≤ r → s.bpc w r = .idle
  pendOwn : ∀ r d t, t ∈ s.pend r d → s.poison r = true ∨
    (s.lock r ≠ none ∧ ∀ w, s.lock r = some w → (s.bpc w r = .running ∨ s.bpc w r = .failedSub) ∧ t = (w, s.seq w))
  pendLive : ∀ r d, s.poison r = false → s.pend r d ≠ [] →
    (s.lock r ≠ none ∧ ∀ w, s.lock r = some w → s.bpc w r = .failedSub) ∨ d ∈ s.live r
  noForeign : s.foreign = false
  latch : ∀ r, s.errEnded r = true → s.poison r = true ∨ (s.lock r ≠ none ∧ ∀ w, s.lock r = some w → s.bpc w r = .failedSub)

theorem inv_init (R : Nat) : Inv R init := by
  constructor <;> simp [init, BPc.holds]



theorem si_fanStart {R s s'} (w) (h : Inv R s) (hs : step R s (.fanStart w) = some s') : Inv R s' := by
  obtain ⟨h1, h2, h3, h4, h5, h6, h7, h8, h9⟩ := h
  simp only [step] at hs <;> (repeat' split at hs) <;> (try cases hs) <;>
    (constructor <;> (try grind [upd, upd2, BPc.holds, BPc.isDone, BPc.isOk]))

theorem si_acquire {R s s'} (w r) (h : Inv R s) (hs : step R s (.acquire w r) = some s') : Inv R s' := by
  obtain ⟨h1, h2, h3, h4, h5, h6, h7, h8, h9⟩ := h
  simp only [step] at hs <;> (repeat' split at hs) <;> (try cases hs) <;>
    (constructor <;> (try grind [upd, upd2, BPc.holds, BPc.isDone, BPc.isOk]))

theorem pend_nil_of_held {R s} (h : Inv R s) {w r : Nat} (hb : s.bpc w r = .held) (hp : s.poison r = false) (d : Nat) :
    s.pend r d = [] := by
  cases hpe : s.pend r d with
  | nil => rfl
  | cons t ts =>
    have hl := h.holdsLock w r (by rw [hb]; rfl)
    rcases h.pendOwn r d t (by rw [hpe]; simp) with hp' | ⟨_, hw⟩
    · rw [hp] at hp'; cases hp'
    · have := (hw w hl).1; rw [hb] at this; rcases this with h | h <;> cases h

theorem si_checkPoison {R s s'} (w r) (h : Inv R s) (hs : step R s (.checkPoison w r) = some s') : Inv R s' := by
  have hnil := @pend_nil_of_held R s h w r
  obtain ⟨h1, h2, h3, h4, h5, h6, h7, h8, h9⟩ := h
  simp only [step] at hs
  split at hs
  · rename_i hb
    split at hs
    · cases hs
      constructor <;> grind [upd, upd2, BPc.holds, BPc.isDone, BPc.isOk]
    · rename_i hp
      have hnil := hnil hb (by simpa using hp)
      cases hs
      constructor <;> grind [upd, upd2, BPc.holds, BPc.isDone, BPc.isOk]
  · cases hs

theorem si_procCall {R s s'} (w r) (h : Inv R s) (hs : step R s (.procCall w r) = some s') : Inv R s' := by
  obtain ⟨h1, h2, h3, h4, h5, h6, h7, h8, h9⟩ := h
  simp only [step] at hs <;> (repeat' split at hs) <;> (try cases hs) <;>
    (constructor <;> (try grind [upd, upd2, BPc.holds, BPc.isDone, BPc.isOk]))

theorem si_write {R s s'} (w r d k ok pz) (h : Inv R s) (hs : step R s (.write w r d k ok pz) = some s') : Inv R s' := by
  obtain ⟨h1, h2, h3, h4, h5, h6, h7, h8, h9⟩ := h
  simp only [step] at hs <;> (repeat' split at hs) <;> (try cases hs) <;>
    (constructor <;> (try grind [upd, upd2, BPc.holds, BPc.isDone, BPc.isOk]))

theorem si_ackRead {R s s'} (w r d n) (h : Inv R s) (hs : step R s (.ackRead w r d n) = some s') : Inv R s' := by
  obtain ⟨h1, h2, h3, h4, h5, h6, h7, h8, h9⟩ := h
  simp only [step] at hs <;> (repeat' split at hs) <;> (try cases hs) <;>
    (constructor <;> (try grind [upd, upd2, BPc.holds, BPc.isDone, BPc.isOk]))

theorem pend_nil_of_subEnd_ok {R s} (h : Inv R s) {w r : Nat} (hb : s.bpc w r = .running)
    (hg : (s.live r).all (fun d => (s.pend r d).isEmpty) = true) (d : Nat) : s.pend r d = [] := by
  cases hpe : s.pend r d with
  | nil => rfl
  | cons t ts =>
    have hl := h.holdsLock w r (by rw [hb]; rfl)
    rcases h.pendLive r d (h.runClean w r hb) (by rw [hpe]; simp) with ⟨_, hw⟩ | hm
    · have := hw w hl; rw [hb] at this; cases this
    · rw [List.all_eq_true] at hg
      have := hg d hm
      rw [hpe] at this; cases this

theorem si_subEnd {R s s'} (w r ok) (h : Inv R s) (hs : step R s (.subEnd w r ok) = some s') : Inv R s' := by
  have hnil := @pend_nil_of_subEnd_ok R s h w r
  obtain ⟨h1, h2, h3, h4, h5, h6, h7, h8, h9⟩ := h
  simp only [step] at hs
  split at hs
  · rename_i hc
    cases ok with
    | true =>
      have hnil := hnil hc.1 (hc.2 rfl)
      cases hs
      constructor <;> grind [upd, upd2, BPc.holds, BPc.isDone, BPc.isOk]
    | false =>
      cases hs
      constructor <;> grind [upd, upd2, BPc.holds, BPc.isDone, BPc.isOk]
  · cases hs

theorem si_setPoison {R s s'} (w r) (h : Inv R s) (hs : step R s (.setPoison w r) = some s') : Inv R s' := by
  obtain ⟨h1, h2, h3, h4, h5, h6, h7, h8, h9⟩ := h
  simp only [step] at hs <;> (repeat' split at hs) <;> (try cases hs) <;>
    (constructor <;> (try grind [upd, upd2, BPc.holds, BPc.isDone, BPc.isOk]))

theorem si_release {R s s'} (w r) (h : Inv R s) (hs : step R s (.release w r) = some s') : Inv R s' := by
  obtain ⟨h1, h2, h3, h4, h5, h6, h7, h8, h9⟩ := h
  simp only [step] at hs <;> (repeat' split at hs) <;> (try cases hs) <;>
    (constructor <;> (try grind [upd, upd2, BPc.holds, BPc.isDone, BPc.isOk]))

theorem si_join {R s s'} (w) (h : Inv R s) (hs : step R s (.join w) = some s') : Inv R s' := by
  obtain ⟨h1, h2, h3, h4, h5, h6, h7, h8, h9⟩ := h
  simp only [step, List.all_eq_true, List.mem_range] at hs
  split at hs
  · rename_i hc
    have hnh : ∀ r, (s.bpc w r).holds = false := by
      intro r
      by_cases hr : r < R
      · have := hc.2 r hr; revert this; cases s.bpc w r <;> simp [BPc.isDone, BPc.holds]
      · rw [h5 w r (by omega)]; rfl
    have hnl : ∀ r, s.lock r ≠ some w := fun r hl => by have := h2 w r hl; rw [hnh r] at this; cases this
    cases hs
    constructor <;> grind [upd, upd2, BPc.holds, BPc.isDone, BPc.isOk]
  · cases hs

theorem si_ownStep {R s s'} (w) (h : Inv R s) (hs : step R s (.ownStep w) = some s') : Inv R s' := by
  obtain ⟨h1, h2, h3, h4, h5, h6, h7, h8, h9⟩ := h
  simp only [step] at hs <;> (repeat' split at hs) <;> (try cases hs) <;>
    (constructor <;> (try grind [upd, upd2, BPc.holds, BPc.isDone, BPc.isOk]))

theorem si_fail {R s s'} (w) (h : Inv R s) (hs : step R s (.fail w) = some s') : Inv R s' := by
  obtain ⟨h1, h2, h3, h4, h5, h6, h7, h8, h9⟩ := h
  simp only [step] at hs <;> (repeat' split at hs) <;> (try cases hs) <;>
    (constructor <;> (try grind [upd, upd2, BPc.holds, BPc.isDone, BPc.isOk]))

theorem si_finish {R s s'} (w) (h : Inv R s) (hs : step R s (.finish w) = some s') : Inv R s' := by
  obtain ⟨h1, h2, h3, h4, h5, h6, h7, h8, h9⟩ := h
  simp only [step] at hs <;> (repeat' split at hs) <;> (try cases hs) <;>
    (constructor <;> (try grind [upd, upd2, BPc.holds, BPc.isDone, BPc.isOk]))


theorem step_inv {R s s'} (e : Ev) (h : Inv R s) (hs : step R s e = some s') : Inv R s' := by
  cases e with
  | fanStart w => exact si_fanStart w h hs
  | acquire w r => exact si_acquire w r h hs
  | checkPoison w r => exact si_checkPoison w r h hs
  | procCall w r => exact si_procCall w r h hs
  | write w r d k ok pz => exact si_write w r d k ok pz h hs
  | ackRead w r d n => exact si_ackRead w r d n h hs
  | subEnd w r ok => exact si_subEnd w r ok h hs
  | setPoison w r => exact si_setPoison w r h hs
  | release w r => exact si_release w r h hs
  | join w => exact si_join w h hs
  | ownStep w => exact si_ownStep w h hs
  | fail w => exact si_fail w h hs
  | finish w => exact si_finish w h hs

/-! ## the ghost logs -/

structure LogInv (s : St) : Prop where
  serial : ∀ r, Serial (s.rlog r) (openOn s r)
  entryBound : ∀ r e, e ∈ s.rlog r → e.tag.2 ≤ s.seq e.tag.1 ∧
    (s.wpc e.tag.1 = .fanned → (s.bpc e.tag.1 r).entered = false → e.tag.2 < s.seq e.tag.1)
  entrySorted : ∀ r w, ((s.rlog r).filterMap (REv.entryOf w)).Pairwise (· < ·)

theorem loginv_init : LogInv init := by
  refine ⟨fun r => ?_, ?_, ?_⟩
  · exact Serial.nil
  · intro r e he; simp [init] at he
  · intro r w; simp [init]

theorem openOn_congr {s s' : St} {r : Nat} (hl : s'.lock r = s.lock r)
    (hb : ∀ w, s.lock r = some w → (s'.bpc w r = .running ↔ s.bpc w r = .running) ∧
      (s.bpc w r = .running → s'.seq w = s.seq w)) : openOn s' r = openOn s r := by
  unfold openOn
  rw [hl]
  cases h : s.lock r with
  | none => rfl
  | some w =>
    obtain ⟨h1, h2⟩ := hb w h
    by_cases hr : s.bpc w r = .running
    · simp [hr, h1.mpr hr, h2 hr]
    · have : ¬ s'.bpc w r = .running := fun h' => hr (h1.mp h')
      simp [hr, this]

theorem openOn_running {s : St} {w r : Nat} (hl : s.lock r = some w) (hb : s.bpc w r = .running) :
    openOn s r = some (w, s.seq w) := by simp [openOn, hl, hb]

theorem openOn_not_running {s : St} {w r : Nat} (hl : s.lock r = some w) (hb : s.bpc w r ≠ .running) :
    openOn s r = none := by simp [openOn, hl, hb]

theorem entryOf_some {w a : Nat} {e : REv} (h : e.entryOf w = some a) : e.tag.1 = w ∧ e.tag.2 = a := by
  cases e <;> simp [REv.entryOf] at h <;> (obtain ⟨h1, h2⟩ := h; exact ⟨h1, h2⟩)

/-- a step that does not touch the logs, the locks' holders' `running` status or their sequence
numbers keeps `LogInv` (given the entry bound is re-established) -/
theorem loginv_of_same_log {s s' : St} (hl : LogInv s) (hlog : s'.rlog = s.rlog)
    (hopen : ∀ r, openOn s' r = openOn s r)
    (hb : ∀ r e, e ∈ s.rlog r → e.tag.2 ≤ s'.seq e.tag.1 ∧
      (s'.wpc e.tag.1 = .fanned → (s'.bpc e.tag.1 r).entered = false → e.tag.2 < s'.seq e.tag.1)) : LogInv s' := by
  refine ⟨fun r => ?_, ?_, ?_⟩
  · rw [hlog, hopen]; exact hl.serial r
  · rw [hlog]; exact hb
  · rw [hlog]; exact hl.entrySorted

/-- a step of the branch (w, r) that appends `e` to the log of root r -/
theorem loginv_of_append {s s' : St} {w r : Nat} {e : REv} (hl : LogInv s)
    (hlog : s'.rlog = upd s.rlog r (s.rlog r ++ [e]))
    (hopen : ∀ r', r' ≠ r → openOn s' r' = openOn s r')
    (hser : Serial (s.rlog r ++ [e]) (openOn s' r))
    (hseq : s'.seq = s.seq) (hwpc : s'.wpc = s.wpc)
    (hbpc : ∀ a b, (a, b) ≠ (w, r) → s'.bpc a b = s.bpc a b)
    (hent : (s'.bpc w r).entered = true) (htag : e.tag = (w, s.seq w))
    (hsort : ∀ a, e.entryOf w = some a → ∀ x ∈ (s.rlog r).filterMap (REv.entryOf w), x < a)
    (hother : ∀ w', w' ≠ w → e.entryOf w' = none) : LogInv s' := by
  refine ⟨fun r' => ?_, ?_, ?_⟩
  · rw [hlog]
    by_cases hr : r' = r
    · subst hr; simpa [upd] using hser
    · rw [hopen r' hr]; simpa [upd, hr] using hl.serial r'
  · intro r' x hx
    rw [hlog] at hx
    rw [hseq, hwpc]
    by_cases hr : r' = r
    · subst hr
      simp only [upd, if_true, List.mem_append, List.mem_singleton] at hx
      rcases hx with hx | hx
      · obtain ⟨b1, b2⟩ := hl.entryBound r' x hx
        refine ⟨b1, fun hf hne => ?_⟩
        by_cases hw : x.tag.1 = w
        · rw [hw] at hne; rw [hent] at hne; cases hne
        · rw [hbpc x.tag.1 r' (by intro h; exact hw (congrArg Prod.fst h))] at hne
          exact b2 hf hne
      · subst hx
        rw [htag]
        refine ⟨Nat.le_refl _, fun _ hne => ?_⟩
        simp only at hne
        rw [hent] at hne; cases hne
    · simp only [upd, hr, if_false] at hx
      obtain ⟨b1, b2⟩ := hl.entryBound r' x hx
      refine ⟨b1, fun hf hne => ?_⟩
      rw [hbpc x.tag.1 r' (by intro h; exact hr (congrArg Prod.snd h))] at hne
      exact b2 hf hne
  · intro r' w'
    rw [hlog]
    by_cases hr : r' = r
    · subst hr
      simp only [upd, if_true, List.filterMap_append]
      by_cases hw : w' = w
      · subst hw
        rw [List.pairwise_append]
        refine ⟨hl.entrySorted r' w', ?_, ?_⟩
        · cases h : e.entryOf w' <;> simp [List.filterMap, h]
        · intro x hx y hy
          cases h : e.entryOf w' with
          | none => simp [List.filterMap, h] at hy
          | some a =>
            simp [List.filterMap, h] at hy
            subst hy
            exact hsort y h x hx
      · simp [List.filterMap, hother w' hw]
        exact hl.entrySorted r' w'
    · simp only [upd, hr, if_false]; exact hl.entrySorted r' w'

theorem fanned_of_not_idle {R s} (h : Inv R s) {w r : Nat} (hb : s.bpc w r ≠ .idle) : s.wpc w = .fanned := by
  cases hw : s.wpc w with
  | fanned => rfl
  | _ => exact absurd (h.idleOut w r (by rw [hw]; simp)) hb

theorem entries_lt {R s} (h : Inv R s) (hl : LogInv s) {w r : Nat} (hb : s.bpc w r = .held) :
    ∀ x ∈ (s.rlog r).filterMap (REv.entryOf w), x < s.seq w := by
  intro x hx
  rw [List.mem_filterMap] at hx
  obtain ⟨e, he, hex⟩ := hx
  obtain ⟨t1, t2⟩ := entryOf_some hex
  have := (hl.entryBound r e he).2
  rw [t1, t2] at this
  exact this (fanned_of_not_idle h (by rw [hb]; simp)) (by rw [hb]; rfl)

theorem li_checkPoison {R s s'} (w r) (h : Inv R s) (hl : LogInv s) (hs : step R s (.checkPoison w r) = some s') : LogInv s' := by
  have hlt := @entries_lt R s h hl w r
  simp only [step] at hs
  split at hs
  · rename_i hc
    have hlk := h.holdsLock w r (by rw [hc]; rfl)
    have hopen : openOn s r = none := openOn_not_running hlk (by rw [hc]; simp)
    have l1 := hl.serial r
    rw [hopen] at l1
    split at hs
    · cases hs
      refine loginv_of_append (w := w) (r := r) hl rfl
        (fun r' hr => openOn_congr (by rfl) (by grind [upd2])) ?_ rfl rfl (by grind [upd2]) (by simp [upd2, BPc.entered]) rfl
        ?_ (fun w' hw => by simp [REv.entryOf]; exact fun h => hw h.symm)
      · simp [openOn, hlk, upd2]
        exact Serial.refuse l1
      · intro a ha; simp [REv.entryOf] at ha; subst ha; exact hlt hc
    · cases hs
      refine loginv_of_append (w := w) (r := r) hl rfl
        (fun r' hr => openOn_congr (by rfl) (by grind [upd2])) ?_ rfl rfl (by grind [upd2]) (by simp [upd2, BPc.entered]) rfl
        ?_ (fun w' hw => by simp [REv.entryOf]; exact fun h => hw h.symm)
      · simp [openOn, hlk, upd2]
        exact Serial.enter l1
      · intro a ha; simp [REv.entryOf] at ha; subst ha; exact hlt hc
  · cases hs

theorem li_procCall {R s s'} (w r) (h : Inv R s) (hl : LogInv s) (hs : step R s (.procCall w r) = some s') : LogInv s' := by
  simp only [step] at hs
  split at hs
  · rename_i hc
    have hc1 : s.bpc w r = .running := hc
    have hlk := h.holdsLock w r (by rw [hc1]; rfl)
    have l1 := hl.serial r
    rw [openOn_running hlk hc1] at l1
    cases hs
    refine loginv_of_append (w := w) (r := r) hl rfl
      (fun r' hr => openOn_congr (by rfl) (by grind)) ?_ rfl rfl (fun _ _ _ => rfl) (by simp [hc1, BPc.entered]) rfl
      (fun a ha => by simp [REv.entryOf] at ha) (fun _ _ => rfl)
    simp only [openOn, hlk, hc1, if_true]
    exact Serial.body l1 rfl rfl
  · cases hs

theorem li_write {R s s'} (w r d k ok pz) (h : Inv R s) (hl : LogInv s) (hs : step R s (.write w r d k ok pz) = some s') : LogInv s' := by
  simp only [step] at hs
  split at hs
  · rename_i hc
    have hc1 : s.bpc w r = .running := hc.1
    have hlk := h.holdsLock w r (by rw [hc1]; rfl)
    have l1 := hl.serial r
    rw [openOn_running hlk hc1] at l1
    cases hs
    refine loginv_of_append (w := w) (r := r) hl rfl
      (fun r' hr => openOn_congr (by rfl) (by grind)) ?_ rfl rfl (fun _ _ _ => rfl) (by simp [hc1, BPc.entered]) rfl
      (fun a ha => by simp [REv.entryOf] at ha) (fun _ _ => rfl)
    simp only [openOn, hlk, hc1, if_true]
    exact Serial.body l1 rfl rfl
  · cases hs

theorem li_ackRead {R s s'} (w r d n) (h : Inv R s) (hl : LogInv s) (hs : step R s (.ackRead w r d n) = some s') : LogInv s' := by
  simp only [step] at hs
  split at hs
  · rename_i hc
    have hc1 : s.bpc w r = .running := hc.1
    have hlk := h.holdsLock w r (by rw [hc1]; rfl)
    have l1 := hl.serial r
    rw [openOn_running hlk hc1] at l1
    cases hs
    refine loginv_of_append (w := w) (r := r) hl rfl
      (fun r' hr => openOn_congr (by rfl) (by grind)) ?_ rfl rfl (fun _ _ _ => rfl) (by simp [hc1, BPc.entered]) rfl
      (fun a ha => by simp [REv.entryOf] at ha) (fun _ _ => rfl)
    simp only [openOn, hlk, hc1, if_true]
    exact Serial.body l1 rfl rfl
  · cases hs

theorem li_subEnd {R s s'} (w r ok) (h : Inv R s) (hl : LogInv s) (hs : step R s (.subEnd w r ok) = some s') : LogInv s' := by
  simp only [step] at hs
  split at hs
  · rename_i hc
    have hc1 : s.bpc w r = .running := hc.1
    have hlk := h.holdsLock w r (by rw [hc1]; rfl)
    have l1 := hl.serial r
    rw [openOn_running hlk hc1] at l1
    cases hs
    refine loginv_of_append (w := w) (r := r) hl rfl
      (fun r' hr => openOn_congr (by rfl) (by grind [upd2])) ?_ rfl rfl (by grind [upd2]) (by cases ok <;> simp [upd2, BPc.entered]) rfl
      (fun a ha => by simp [REv.entryOf] at ha) (fun _ _ => rfl)
    cases ok <;> simp [openOn, hlk, upd2] <;> exact Serial.exit l1
  · cases hs


theorem li_same {R s s'} (e : Ev) (h : Inv R s) (hl : LogInv s) (hs : step R s e = some s')
    (he : match e with | .fanStart _ | .setPoison _ _ | .join _ | .ownStep _ | .fail _ | .finish _ => True | _ => False) :
    LogInv s' := by
  obtain ⟨h1, h2, h3, h4, h5, h6, h7, h8, h9⟩ := h
  have l2 := hl.entryBound
  cases e <;> simp only at he <;>
    simp only [step, List.all_eq_true, List.mem_range] at hs <;> (repeat' split at hs) <;> (try cases hs) <;>
    (refine loginv_of_same_log hl rfl (fun r => openOn_congr (by rfl) (by grind [upd, upd2, BPc.holds, BPc.isDone])) (by grind [upd, upd2, BPc.holds, BPc.entered, BPc.isDone]))

theorem li_acquire {R s s'} (w r) (_h : Inv R s) (hl : LogInv s) (hs : step R s (.acquire w r) = some s') : LogInv s' := by
  have l2 := hl.entryBound
  simp only [step] at hs
  split at hs
  · rename_i hc
    cases hs
    refine loginv_of_same_log hl rfl (fun r' => ?_) (by grind [upd, upd2, BPc.entered])
    by_cases hr : r' = r
    · subst hr
      rw [openOn_not_running (w := w) (by simp [upd]) (by simp [upd2])]
      simp [openOn, hc.2]
    · exact openOn_congr (by simp [upd, hr]) (by grind [upd, upd2])
  · cases hs

theorem li_release {R s s'} (w r) (h : Inv R s) (hl : LogInv s) (hs : step R s (.release w r) = some s') : LogInv s' := by
  have l2 := hl.entryBound
  simp only [step] at hs
  split at hs
  · rename_i res hc
    cases hs
    have hlk := h.holdsLock w r (by rw [hc]; rfl)
    refine loginv_of_same_log hl rfl (fun r' => ?_) (by grind [upd, upd2, BPc.entered])
    by_cases hr : r' = r
    · subst hr
      rw [openOn_not_running (s := s) hlk (by rw [hc]; simp)]
      simp [openOn, upd]
    · exact openOn_congr (by simp [upd, hr]) (by grind [upd, upd2])
  · cases hs


theorem step_loginv {R s s'} (e : Ev) (h : Inv R s) (hl : LogInv s) (hs : step R s e = some s') : LogInv s' := by
  cases e with
  | fanStart w => exact li_same _ h hl hs trivial
  | acquire w r => exact li_acquire w r h hl hs
  | checkPoison w r => exact li_checkPoison w r h hl hs
  | procCall w r => exact li_procCall w r h hl hs
  | write w r d k ok pz => exact li_write w r d k ok pz h hl hs
  | ackRead w r d n => exact li_ackRead w r d n h hl hs
  | subEnd w r ok => exact li_subEnd w r ok h hl hs
  | setPoison w r => exact li_same _ h hl hs trivial
  | release w r => exact li_release w r h hl hs
  | join w => exact li_same _ h hl hs trivial
  | ownStep w => exact li_same _ h hl hs trivial
  | fail w => exact li_same _ h hl hs trivial
  | finish w => exact li_same _ h hl hs trivial

/-! ## serial logs are concatenations of blocks; the latch is monotone -/

/-- a serial log is a concatenation of complete visits plus, if a sub-pass is open, its prefix -/
theorem Serial.blocks {l : List REv} {o : Option Tag} (h : Serial l o) :
    ∃ (blocks : List (List REv)) (tail : List REv), l = blocks.flatten ++ tail ∧ (∀ b ∈ blocks, Block b) ∧
      (o = none → tail = []) ∧
      (∀ t, o = some t → ∃ body, tail = .enter t :: body ∧ ∀ x ∈ body, x.isBody = true ∧ x.tag = t) := by
  induction h with
  | nil => exact ⟨[], [], rfl, by simp, fun _ => rfl, fun t h => (by cases h)⟩
  | @enter l t _ ih =>
    obtain ⟨bs, tl, e, hb, hn, _⟩ := ih
    have := hn rfl; subst this
    exact ⟨bs, [.enter t], by simp [e], hb, fun h => (by cases h),
      fun t' h => (by cases h; exact ⟨[], rfl, by simp⟩)⟩
  | @refuse l t _ ih =>
    obtain ⟨bs, tl, e, hb, hn, _⟩ := ih
    have := hn rfl; subst this
    refine ⟨bs ++ [[.refuse t]], [], by simp [e], ?_, fun _ => rfl, fun t' h => (by cases h)⟩
    intro b hm
    rcases List.mem_append.mp hm with hm | hm
    · exact hb b hm
    · rw [List.mem_singleton.mp hm]; exact Block.refuse t
  | @body l t x _ hbody htag ih =>
    obtain ⟨bs, tl, e, hb, _, hs⟩ := ih
    obtain ⟨body, ht, hall⟩ := hs t rfl
    refine ⟨bs, tl ++ [x], by simp [e], hb, fun h => (by cases h), fun t' h => ?_⟩
    cases h
    refine ⟨body ++ [x], by simp [ht], fun y hy => ?_⟩
    rcases List.mem_append.mp hy with hy | hy
    · exact hall y hy
    · rw [List.mem_singleton.mp hy]; exact ⟨hbody, htag⟩
  | @exit l t ok _ ih =>
    obtain ⟨bs, tl, e, hb, _, hs⟩ := ih
    obtain ⟨body, ht, hall⟩ := hs t rfl
    refine ⟨bs ++ [tl ++ [.exit t ok]], [], by simp [e], ?_, fun _ => rfl, fun t' h => (by cases h)⟩
    intro b hm
    rcases List.mem_append.mp hm with hm | hm
    · exact hb b hm
    · rw [List.mem_singleton.mp hm, ht]; exact Block.pass t body ok hall

/-- `errEnded` (a sub-pass on the root returned an error) and `poison` are never reset -/
theorem latch_mono_step {R : Nat} {s s' : St} {e : Ev} (hs : step R s e = some s') (r : Nat) :
    (s.errEnded r = true → s'.errEnded r = true) ∧ (s.poison r = true → s'.poison r = true) := by
  cases e <;> simp only [step] at hs <;> (repeat' split at hs) <;> (try cases hs) <;>
    (constructor <;> intro hh <;> simp_all [upd] <;> (try split) <;> simp_all)

/-! ## runs -/

theorem run_cons (R : Nat) (s : St) (e : Ev) (es : List Ev) :
    run R s (e :: es) = (step R s e).bind fun s' => run R s' es := rfl

theorem run_append (R : Nat) (s : St) (a b : List Ev) :
    run R s (a ++ b) = (run R s a).bind fun s' => run R s' b := by
  induction a generalizing s with
  | nil => simp [run]
  | cons e es ih =>
    simp only [List.cons_append, run_cons]
    cases step R s e with
    | none => rfl
    | some s1 => simpa using ih s1

theorem latch_mono_run {R : Nat} {s s' : St} (evs : List Ev) (hr : run R s evs = some s') (r : Nat) :
    (s.errEnded r = true → s'.errEnded r = true) ∧ (s.poison r = true → s'.poison r = true) := by
  induction evs generalizing s with
  | nil => cases hr; exact ⟨id, id⟩
  | cons e es ih =>
    rw [run_cons] at hr
    cases hs : step R s e with
    | none => rw [hs] at hr; cases hr
    | some s1 =>
      rw [hs] at hr
      have a := latch_mono_step hs r
      have b := ih hr
      exact ⟨fun h => b.1 (a.1 h), fun h => b.2 (a.2 h)⟩

theorem run_inv {R : Nat} {s s' : St} (evs : List Ev) (h : Inv R s ∧ LogInv s) (hr : run R s evs = some s') :
    Inv R s' ∧ LogInv s' := by
  induction evs generalizing s with
  | nil => cases hr; exact h
  | cons e es ih =>
    rw [run_cons] at hr
    cases hs : step R s e with
    | none => rw [hs] at hr; cases hr
    | some s1 => rw [hs] at hr; exact ih ⟨step_inv e h.1 hs, step_loginv e h.1 h.2 hs⟩ hr

theorem reach_inv {R : Nat} {s : St} (h : Reach R s) : Inv R s ∧ LogInv s := by
  obtain ⟨evs, he⟩ := h
  exact run_inv evs ⟨inv_init R, loginv_init⟩ he

theorem Reach.after {R : Nat} {s s' : St} (h : Reach R s) (evs : List Ev) (hr : run R s evs = some s') : Reach R s' := by
  obtain ⟨e0, he⟩ := h
  exact ⟨e0 ++ evs, by rw [run_append, he]; exact hr⟩

theorem Reach.step {R : Nat} {s s' : St} {e : Ev} (h : Reach R s) (hs : step R s e = some s') : Reach R s' :=
  h.after [e] (by rw [run_cons, hs]; rfl)

end Conduit.SharedSink
