import ConduitModel.Model.SrcAck

/-!
Invariants of M3 (source-ack / persister event system), proved for every event list.
`Inv` — sequence-number level (no hypothesis on the Ack events).
-/
namespace Conduit.SrcAck

/-! ### drain -/

theorem drain_append (d : Nat) : ∀ l : List AckRec, (drain d l).1 ++ (drain d l).2 = l
  | [] => rfl
  | a :: rest => by
    unfold drain
    by_cases h : a.seq ≤ d
    · simp only [h, if_true, List.cons_append, drain_append d rest]
    · simp only [h, if_false, List.nil_append]

theorem drain_fst_le (d : Nat) : ∀ l : List AckRec, ∀ a ∈ (drain d l).1, a.seq ≤ d
  | [] => by intro a h; simp [drain] at h
  | b :: rest => by
    intro a h
    unfold drain at h
    by_cases hb : b.seq ≤ d
    · simp only [hb, if_true, List.mem_cons] at h
      rcases h with h | h
      · subst h; exact hb
      · exact drain_fst_le d rest a h
    · simp [hb] at h

theorem drain_all (d : Nat) : ∀ l : List AckRec, (∀ a ∈ l, a.seq ≤ d) → (drain d l).2 = []
  | [] => by intro _; rfl
  | b :: rest => by
    intro h
    unfold drain
    have hb : b.seq ≤ d := h b (List.mem_cons_self ..)
    simp only [hb, if_true]
    exact drain_all d rest (fun a ha => h a (List.mem_cons_of_mem _ ha))

theorem drain_snd_sub (d : Nat) (l : List AckRec) : ∀ a ∈ (drain d l).2, a ∈ l := by
  intro a h
  have := drain_append d l
  rw [← this]; exact List.mem_append_right _ h

theorem drain_fst_sub (d : Nat) (l : List AckRec) : ∀ a ∈ (drain d l).1, a ∈ l := by
  intro a h
  have := drain_append d l
  rw [← this]; exact List.mem_append_left _ h

/-! ### generations -/

theorem getLast?_eq_idx {α} (l : List α) : l.getLast? = l[l.length - 1]? := by
  exact List.getLast?_eq_getElem? ..

/-- `pos` is set exactly when at least one Ack produced the value -/
def PosSome (x : Stored) : Prop := x.pos.isSome = true ↔ 0 < x.seq

/-- sequence-level invariant -/
structure Inv (s : St) : Prop where
  instLe : s.inst.seq ≤ s.nextSeq
  storeLe : s.store.seq ≤ s.inst.seq
  batchEq : ∀ b, s.batch = some b → b.1 = s.inst ∧ ∀ q, b.2 = some q → q = s.inst.seq
  gensSnap : ∀ (i : Nat) g, s.gens[i]? = some g → g.snap.seq ≤ s.inst.seq ∧ ∀ q, g.cb = some q → q = g.snap.seq
  gensOk : ∀ (i : Nat) g, s.gens[i]? = some g → g.stat = .ok → g.snap.seq ≤ s.store.seq
  gensWr : ∀ (i : Nat) g, s.gens[i]? = some g → g.stat = .writing → s.store.seq ≤ g.snap.seq ∧ i + 1 = s.gens.length
  durLe : s.durable ≤ s.store.seq
  outLe : ∀ a, a ∈ s.deferred ∨ a ∈ s.delivered → a.seq ≤ s.store.seq
  allLe : ∀ a, a ∈ s.delivered ∨ a ∈ s.deferred ∨ a ∈ s.pending → a.seq ≤ s.nextSeq ∧ 1 ≤ a.seq
  pendLe : ∀ a ∈ s.pending, a.seq ≤ s.inst.seq
  chain : (s.delivered ++ (s.deferred ++ s.pending)).Pairwise (fun a b => a.seq < b.seq)
  commitsLe : ∀ x ∈ s.commits, x.seq ≤ s.store.seq
  commitsSorted : s.commits.Pairwise (fun a b => a.seq ≤ b.seq)
  commitsLast : s.commits.getLast? = none ∨ s.commits.getLast? = some s.store
  prefixI : s.droppedG = [] → s.deliveredI ++ (s.deferred ++ (s.dropped ++ s.pending)) = s.ackedI
  delISub : ∀ a ∈ s.deliveredI, a ∈ s.delivered
  psInst : PosSome s.inst
  psStore : PosSome s.store
  psGens : ∀ (i : Nat) g, s.gens[i]? = some g → PosSome g.snap
  commitsNone : s.commits = [] → s.store.seq = 0
  droppedClosed : s.closed = false → s.dropped = []

theorem inv_init : Inv init := by
  constructor <;> simp [init, PosSome]

/-- events that leave every field `Inv` talks about untouched -/
macro "frame " hi:ident : tactic =>
  `(tactic| exact ⟨($hi).instLe, ($hi).storeLe, ($hi).batchEq, ($hi).gensSnap, ($hi).gensOk, ($hi).gensWr,
      ($hi).durLe, ($hi).outLe, ($hi).allLe, ($hi).pendLe, ($hi).chain, ($hi).commitsLe, ($hi).commitsSorted,
      ($hi).commitsLast, ($hi).prefixI, ($hi).delISub, ($hi).psInst, ($hi).psStore, ($hi).psGens, ($hi).commitsNone, ($hi).droppedClosed⟩)

theorem noWriting_iff (s : St) : noWriting s = true ↔ ∀ (i : Nat) g, s.gens[i]? = some g → g.stat ≠ .writing := by
  unfold noWriting
  rw [List.all_eq_true]
  constructor
  · intro h i g hg
    have := h g (List.mem_of_getElem? hg)
    simpa using this
  · intro h g hg
    obtain ⟨i, hi, rfl⟩ := List.mem_iff_getElem.mp hg
    have := h i _ (List.getElem?_eq_getElem hi)
    simpa using this

/-- `persist` (new batch entry = current instance state, callback seq = its seq) -/
theorem inv_persist {c : Cfg} {s : St} (hi : Inv s) (cb : Option Nat) (hcb : ∀ q, cb = some q → q = s.inst.seq) :
    Inv (persist c s cb) := by
  refine ⟨hi.instLe, hi.storeLe, ?_, hi.gensSnap, hi.gensOk, hi.gensWr, hi.durLe, hi.outLe, hi.allLe, hi.pendLe,
    hi.chain, hi.commitsLe, hi.commitsSorted, hi.commitsLast, hi.prefixI, hi.delISub, hi.psInst, hi.psStore, hi.psGens,
    hi.commitsNone, hi.droppedClosed⟩
  intro b hb
  simp only [persist, Option.some.injEq] at hb
  subst hb
  exact ⟨rfl, hcb⟩

/-- `triggerFlush` with batch `b` -/
theorem inv_doTrigger {s : St} (hi : Inv s) (b : Stored × Option Nat) (hb : s.batch = some b)
    (hw : noWriting s = true) : Inv (doTrigger s b) := by
  have hbe := hi.batchEq b hb
  have hnw := (noWriting_iff s).mp hw
  refine ⟨hi.instLe, hi.storeLe, ?_, ?_, ?_, ?_, hi.durLe, hi.outLe, hi.allLe, hi.pendLe,
    hi.chain, hi.commitsLe, hi.commitsSorted, hi.commitsLast, hi.prefixI, hi.delISub, hi.psInst, hi.psStore, ?_,
    hi.commitsNone, hi.droppedClosed⟩
  rotate_right
  · intro i g hg
    simp only [doTrigger] at hg
    rw [List.getElem?_append] at hg
    split at hg
    · exact hi.psGens i g hg
    · cases hh : i - s.gens.length with
      | zero => rw [hh] at hg; simp at hg; subst hg; simp only; rw [hbe.1]; exact hi.psInst
      | succ n => rw [hh] at hg; simp at hg
  · intro b' h; simp [doTrigger] at h
  · intro i g hg
    simp only [doTrigger] at hg
    rw [List.getElem?_append] at hg
    split at hg
    · exact hi.gensSnap i g hg
    · rename_i hlt
      have : i - s.gens.length = 0 := by
        cases hh : i - s.gens.length with
        | zero => rfl
        | succ n => rw [hh] at hg; simp at hg
      rw [this] at hg
      simp only [List.getElem?_cons_zero, Option.some.injEq] at hg
      subst hg
      simp only
      rw [hbe.1]
      exact ⟨Nat.le_refl _, hbe.2⟩
  · intro i g hg hs
    simp only [doTrigger] at hg
    rw [List.getElem?_append] at hg
    split at hg
    · exact hi.gensOk i g hg hs
    · cases hh : i - s.gens.length with
      | zero => rw [hh] at hg; simp at hg; subst hg; simp at hs
      | succ n => rw [hh] at hg; simp at hg
  · intro i g hg hs
    simp only [doTrigger] at hg ⊢
    rw [List.getElem?_append] at hg
    split at hg
    · exact absurd hs (hnw i g hg)
    · rename_i hlt
      cases hh : i - s.gens.length with
      | zero =>
        rw [hh] at hg; simp at hg; subst hg
        simp only [List.length_append, List.length_cons, List.length_nil]
        rw [hbe.1]
        exact ⟨hi.storeLe, by omega⟩
      | succ n => rw [hh] at hg; simp at hg

/-- updating generation `i` without touching `snap`/`cb`, to a non-ok non-writing status or same status -/
theorem inv_setGen {s : St} (hi : Inv s) (i : Nat) (g g' : Gen) (hg : s.gens[i]? = some g)
    (hsnap : g'.snap = g.snap) (hcb : g'.cb = g.cb)
    (hok : g'.stat = .ok → g.stat = .ok) (hwr : g'.stat = .writing → g.stat = .writing) :
    Inv (setGen s i g') := by
  refine ⟨hi.instLe, hi.storeLe, hi.batchEq, ?_, ?_, ?_, hi.durLe, hi.outLe, hi.allLe, hi.pendLe,
    hi.chain, hi.commitsLe, hi.commitsSorted, hi.commitsLast, hi.prefixI, hi.delISub, hi.psInst, hi.psStore, ?_,
    hi.commitsNone, hi.droppedClosed⟩
  rotate_right
  · intro j h hj
    simp only [setGen, List.getElem?_set] at hj
    split at hj
    · split at hj
      · simp only [Option.some.injEq] at hj; subst hj
        rw [hsnap]; exact hi.psGens i g hg
      · simp at hj
    · exact hi.psGens j h hj
  · intro j h hj
    simp only [setGen, List.getElem?_set] at hj
    split at hj
    · split at hj
      · simp only [Option.some.injEq] at hj; subst hj
        rw [hsnap, hcb]; exact hi.gensSnap i g hg
      · simp at hj
    · exact hi.gensSnap j h hj
  · intro j h hj hs
    simp only [setGen, List.getElem?_set] at hj
    split at hj
    · split at hj
      · simp only [Option.some.injEq] at hj; subst hj
        rw [hsnap]; exact hi.gensOk i g hg (hok hs)
      · simp at hj
    · exact hi.gensOk j h hj hs
  · intro j h hj hs
    simp only [setGen, List.getElem?_set, List.length_set] at hj ⊢
    split at hj
    · split at hj
      · rename_i heq _
        simp only [Option.some.injEq] at hj; subst hj
        rw [hsnap]; subst heq; exact hi.gensWr i g hg (hwr hs)
      · simp at hj
    · exact hi.gensWr j h hj hs

theorem pairwise_snoc {l : List AckRec} {a : AckRec} (h : l.Pairwise (fun a b => a.seq < b.seq))
    (hlt : ∀ x ∈ l, x.seq < a.seq) : (l ++ [a]).Pairwise (fun a b => a.seq < b.seq) := by
  rw [List.pairwise_append]
  refine ⟨h, List.pairwise_singleton _ _, ?_⟩
  intro x hx y hy
  simp only [List.mem_singleton] at hy; subst hy
  exact hlt x hx

/-- `Source.Ack` with a non-empty position list, followed by `Persist` -/
theorem inv_ack {c : Cfg} {s : St} (hi : Inv s) (ps : List Pos) (last : Pos) :
    Inv (persist c { s with nextSeq := s.nextSeq + 1, inst := ⟨s.nextSeq + 1, some last⟩,
                            pending := s.pending ++ [⟨s.nextSeq + 1, ps⟩],
                            ackedI := s.ackedI ++ [⟨s.nextSeq + 1, ps⟩],
                            handled := s.handled ++ ps } (some (s.nextSeq + 1))) := by
  have h1 := hi.instLe
  have h2 := hi.storeLe
  refine ⟨Nat.le_refl _, ?_, ?_, ?_, hi.gensOk, hi.gensWr, hi.durLe, hi.outLe, ?_, ?_, ?_,
    hi.commitsLe, hi.commitsSorted, hi.commitsLast, ?_, hi.delISub, ?_, hi.psStore, hi.psGens, hi.commitsNone, hi.droppedClosed⟩
  rotate_right
  · show PosSome ⟨s.nextSeq + 1, some last⟩
    simp [PosSome]
  · show s.store.seq ≤ s.nextSeq + 1
    omega
  · intro b hb
    simp only [persist, Option.some.injEq] at hb
    subst hb
    exact ⟨rfl, by intro q hq; simp at hq; exact hq.symm⟩
  · intro i g hg
    have := hi.gensSnap i g hg
    exact ⟨by show g.snap.seq ≤ s.nextSeq + 1; omega, this.2⟩
  · intro a ha
    show a.seq ≤ s.nextSeq + 1 ∧ 1 ≤ a.seq
    simp only [persist, List.mem_append, List.mem_singleton] at ha
    rcases ha with ha | ha | ha | ha
    · have := hi.allLe a (Or.inl ha); omega
    · have := hi.allLe a (Or.inr (Or.inl ha)); omega
    · have := hi.allLe a (Or.inr (Or.inr ha)); omega
    · subst ha; exact ⟨Nat.le_refl _, Nat.succ_pos _⟩
  · intro a ha
    show a.seq ≤ s.nextSeq + 1
    simp only [persist, List.mem_append, List.mem_singleton] at ha
    rcases ha with ha | ha
    · have := hi.pendLe a ha; omega
    · subst ha; exact Nat.le_refl _
  · show (s.delivered ++ (s.deferred ++ (s.pending ++ [({ seq := s.nextSeq + 1, ps := ps } : AckRec)]))).Pairwise _
    rw [← List.append_assoc, ← List.append_assoc, List.append_assoc s.delivered]
    apply pairwise_snoc hi.chain
    intro x hx
    simp only [List.mem_append] at hx
    have : x.seq ≤ s.nextSeq := by
      refine (hi.allLe x ?_).1
      rcases hx with hx | hx | hx
      · exact Or.inl hx
      · exact Or.inr (Or.inl hx)
      · exact Or.inr (Or.inr hx)
    show x.seq < s.nextSeq + 1
    omega
  · intro hd
    show s.deliveredI ++ (s.deferred ++ (s.dropped ++ (s.pending ++ [({ seq := s.nextSeq + 1, ps := ps } : AckRec)]))) = s.ackedI ++ [_]
    rw [← hi.prefixI hd]
    simp [List.append_assoc]

/-- `flushNow` committed the running generation -/
theorem inv_commit {s : St} (hi : Inv s) (g : Gen) (hg : s.gens[s.gens.length - 1]? = some g)
    (hw : g.stat = .writing) :
    Inv { setGen s (s.gens.length - 1) { g with stat := .ok } with store := g.snap, commits := s.commits ++ [g.snap] } := by
  have hwr := hi.gensWr _ g hg hw
  have hsn := hi.gensSnap _ g hg
  refine ⟨hi.instLe, hsn.1, hi.batchEq, ?_, ?_, ?_, Nat.le_trans hi.durLe hwr.1, ?_, hi.allLe, hi.pendLe,
    hi.chain, ?_, ?_, ?_, hi.prefixI, hi.delISub, hi.psInst, hi.psGens _ g hg, ?_, ?_, hi.droppedClosed⟩
  rotate_right 2
  · intro j h hj
    simp only [setGen, List.getElem?_set] at hj
    split at hj
    · split at hj
      · simp only [Option.some.injEq] at hj; subst hj; exact hi.psGens _ g hg
      · simp at hj
    · exact hi.psGens j h hj
  · intro h; simp at h
  · intro j h hj
    simp only [setGen, List.getElem?_set] at hj
    split at hj
    · split at hj
      · simp only [Option.some.injEq] at hj; subst hj; exact hsn
      · simp at hj
    · exact hi.gensSnap j h hj
  · intro j h hj hs
    simp only [setGen, List.getElem?_set] at hj
    split at hj
    · split at hj
      · simp only [Option.some.injEq] at hj; subst hj; exact Nat.le_refl _
      · simp at hj
    · exact Nat.le_trans (hi.gensOk j h hj hs) hwr.1
  · intro j h hj hs
    simp only [setGen, List.getElem?_set] at hj
    split at hj
    · split at hj
      · simp only [Option.some.injEq] at hj; subst hj; simp at hs
      · simp at hj
    · rename_i hne
      have := (hi.gensWr j h hj hs).2
      omega
  · intro a ha
    exact Nat.le_trans (hi.outLe a ha) hwr.1
  · intro x hx
    simp only [List.mem_append, List.mem_singleton] at hx
    rcases hx with hx | hx
    · exact Nat.le_trans (hi.commitsLe x hx) hwr.1
    · subst hx; exact Nat.le_refl _
  · show (s.commits ++ [g.snap]).Pairwise _
    rw [List.pairwise_append]
    refine ⟨hi.commitsSorted, List.pairwise_singleton _ _, ?_⟩
    intro x hx y hy
    simp only [List.mem_singleton] at hy; subst hy
    exact Nat.le_trans (hi.commitsLe x hx) hwr.1
  · right; simp

/-- `onPersistFlushed(seq, nil)` for a sequence number covered by the committed store -/
theorem inv_onFlushedOk {s : St} (hi : Inv s) (seq : Nat) (hseq : seq ≤ s.store.seq) : Inv (onFlushedOk s seq) := by
  have hd : (if seq > s.durable then seq else s.durable) ≤ s.store.seq := by
    split
    · exact hseq
    · exact hi.durLe
  generalize hdd : (if seq > s.durable then seq else s.durable) = d at hd
  have happ := drain_append d s.pending
  unfold onFlushedOk
  simp only [hdd]
  by_cases hc : s.closed = true
  · simp only [hc, if_true]
    refine ⟨hi.instLe, hi.storeLe, hi.batchEq, hi.gensSnap, hi.gensOk, hi.gensWr, hd, hi.outLe, ?_, ?_, ?_,
      hi.commitsLe, hi.commitsSorted, hi.commitsLast, ?_, hi.delISub, hi.psInst, hi.psStore, hi.psGens, hi.commitsNone,
      by intro hh; simp at hh⟩
    · intro a ha
      apply hi.allLe
      rcases ha with ha | ha | ha
      · exact Or.inl ha
      · exact Or.inr (Or.inl ha)
      · exact Or.inr (Or.inr (drain_snd_sub d _ a ha))
    · intro a ha; exact hi.pendLe a (drain_snd_sub d _ a ha)
    · have hch := hi.chain
      rw [← happ] at hch
      refine List.Pairwise.sublist ?_ hch
      apply List.Sublist.append_left
      apply List.Sublist.append_left
      exact List.sublist_append_right _ _
    · intro hdr
      show s.deliveredI ++ (s.deferred ++ ((s.dropped ++ (drain d s.pending).1) ++ (drain d s.pending).2)) = s.ackedI
      rw [List.append_assoc s.dropped, happ]; exact hi.prefixI hdr
  · simp only [hc, Bool.false_eq_true, if_false]
    refine ⟨hi.instLe, hi.storeLe, hi.batchEq, hi.gensSnap, hi.gensOk, hi.gensWr, hd, ?_, ?_, ?_, ?_,
      hi.commitsLe, hi.commitsSorted, hi.commitsLast, ?_, hi.delISub, hi.psInst, hi.psStore, hi.psGens, hi.commitsNone,
      fun _ => hi.droppedClosed (by simpa using hc)⟩
    · intro a ha
      simp only [List.mem_append] at ha
      rcases ha with (ha | ha) | ha
      · exact hi.outLe a (Or.inl ha)
      · exact Nat.le_trans (drain_fst_le d _ a ha) hd
      · exact hi.outLe a (Or.inr ha)
    · intro a ha
      apply hi.allLe
      simp only [List.mem_append] at ha
      rcases ha with ha | (ha | ha) | ha
      · exact Or.inl ha
      · exact Or.inr (Or.inl ha)
      · exact Or.inr (Or.inr (drain_fst_sub d _ a ha))
      · exact Or.inr (Or.inr (drain_snd_sub d _ a ha))
    · intro a ha; exact hi.pendLe a (drain_snd_sub d _ a ha)
    · show (s.delivered ++ ((s.deferred ++ (drain d s.pending).1) ++ (drain d s.pending).2)).Pairwise _
      rw [List.append_assoc s.deferred, happ]; exact hi.chain
    · intro hdr
      show s.deliveredI ++ ((s.deferred ++ (drain d s.pending).1) ++ (s.dropped ++ (drain d s.pending).2)) = s.ackedI
      have hdn : s.dropped = [] := hi.droppedClosed (by simpa using hc)
      rw [hdn, List.nil_append, List.append_assoc s.deferred, happ]
      have := hi.prefixI hdr
      rw [hdn, List.nil_append] at this; exact this

/-- an undelivered ack is dropped from the head of the delivery queue -/
theorem inv_dropHead {c : Cfg} {s : St} (hi : Inv s) (a : AckRec) (rest : List AckRec) (hd : s.deferred = a :: rest) :
    Inv (dropHead c s a rest) := by
  refine ⟨hi.instLe, hi.storeLe, hi.batchEq, hi.gensSnap, hi.gensOk, hi.gensWr, hi.durLe, ?_, ?_, hi.pendLe, ?_,
    hi.commitsLe, hi.commitsSorted, hi.commitsLast, ?_, hi.delISub, hi.psInst, hi.psStore, hi.psGens, hi.commitsNone, hi.droppedClosed⟩
  · intro x hx
    apply hi.outLe
    rcases hx with hx | hx
    · left; rw [hd]; exact List.mem_cons_of_mem _ hx
    · exact Or.inr hx
  · intro x hx
    apply hi.allLe
    rcases hx with hx | hx | hx
    · exact Or.inl hx
    · right; left; rw [hd]; exact List.mem_cons_of_mem _ hx
    · exact Or.inr (Or.inr hx)
  · have := hi.chain
    rw [hd] at this
    refine List.Pairwise.sublist ?_ this
    apply List.Sublist.append_left
    exact List.Sublist.cons _ (List.Sublist.refl _)
  · intro h
    simp [dropHead] at h

/-- a delivery succeeded: head of the queue moves to `delivered` -/
theorem inv_deliverOk {s : St} (hi : Inv s) (a : AckRec) (rest : List AckRec) (hd : s.deferred = a :: rest) :
    Inv { s with deferred := rest, delivered := s.delivered ++ [a], deliveredI := s.deliveredI ++ [a], attempt := 0 } := by
  refine ⟨hi.instLe, hi.storeLe, hi.batchEq, hi.gensSnap, hi.gensOk, hi.gensWr, hi.durLe, ?_, ?_, hi.pendLe, ?_,
    hi.commitsLe, hi.commitsSorted, hi.commitsLast, ?_, ?_, hi.psInst, hi.psStore, hi.psGens, hi.commitsNone, hi.droppedClosed⟩
  · intro x hx
    apply hi.outLe
    simp only [List.mem_append, List.mem_singleton] at hx
    rcases hx with hx | hx | hx
    · left; rw [hd]; exact List.mem_cons_of_mem _ hx
    · exact Or.inr hx
    · subst hx; left; rw [hd]; exact List.mem_cons_self ..
  · intro x hx
    apply hi.allLe
    simp only [List.mem_append, List.mem_singleton] at hx
    rcases hx with (hx | hx) | hx | hx
    · exact Or.inl hx
    · subst hx; right; left; rw [hd]; exact List.mem_cons_self ..
    · right; left; rw [hd]; exact List.mem_cons_of_mem _ hx
    · exact Or.inr (Or.inr hx)
  · have := hi.chain
    rw [hd] at this
    show ((s.delivered ++ [a]) ++ (rest ++ s.pending)).Pairwise _
    simpa [List.append_assoc] using this
  · intro h
    have := hi.prefixI h
    rw [hd] at this
    show (s.deliveredI ++ [a]) ++ (rest ++ (s.dropped ++ s.pending)) = s.ackedI
    simpa [List.append_assoc] using this
  · intro x hx
    simp only [List.mem_append, List.mem_singleton] at hx ⊢
    rcases hx with hx | hx
    · exact Or.inl (hi.delISub x hx)
    · exact Or.inr hx

/-- restart from the committed store -/
theorem inv_restart {s : St} (hi : Inv s) :
    Inv { init with nextSeq := s.nextSeq, inst := s.store, store := s.store,
                    handled := s.handled, delivered := s.delivered,
                    commits := s.commits, opened := s.opened ++ [s.store.pos], teardowns := 0 } := by
  refine ⟨Nat.le_trans hi.storeLe hi.instLe, Nat.le_refl _, ?_, ?_, ?_, ?_, Nat.zero_le _, ?_, ?_, ?_, ?_,
    hi.commitsLe, hi.commitsSorted, hi.commitsLast, ?_, ?_, hi.psStore, hi.psStore, ?_, hi.commitsNone, fun _ => rfl⟩
  rotate_right
  · intro i g hg; simp [init] at hg
  · intro b hb; simp [init] at hb
  · intro i g hg; simp [init] at hg
  · intro i g hg; simp [init] at hg
  · intro i g hg; simp [init] at hg
  · intro a ha
    simp only [init, List.not_mem_nil, false_or] at ha
    exact hi.outLe a (Or.inr ha)
  · intro a ha
    simp only [init, List.not_mem_nil, or_false] at ha
    exact hi.allLe a (Or.inl ha)
  · intro a ha; simp [init] at ha
  · have := hi.chain
    simp only [init, List.append_nil]
    exact (List.pairwise_append.mp this).1
  · intro _; simp [init]
  · intro a ha; simp [init] at ha

theorem inv_step {c : Cfg} {s s' : St} {e : Ev} (hi : Inv s) (h : step c s e = some s') : Inv s' := by
  cases e with
  | openPersist =>
    simp only [step] at h
    split at h
    · injection h with h; subst h; exact inv_persist hi none (by simp)
    · simp at h
  | ack ps =>
    simp only [step] at h
    split at h
    · split at h
      · injection h with h; subst h; frame hi
      · injection h with h; subst h; exact inv_ack hi ps _
    · simp at h
  | trigger =>
    simp only [step] at h
    split at h
    · rename_i b hb
      split at h
      · rename_i hc
        injection h with h; subst h; exact inv_doTrigger hi b hb hc.2
      · simp at h
    · simp at h
  | flushRes r =>
    simp only [step] at h
    split at h
    · rename_i g hg
      rw [getLast?_eq_idx] at hg
      split at h
      · rename_i hc
        cases r with
        | ok => simp only at h; injection h with h; subst h; exact inv_commit hi g hg hc.2
        | setFail =>
          simp only at h; injection h with h; subst h
          exact inv_setGen hi _ g _ hg rfl rfl (by simp) (by simp)
        | commitFail =>
          simp only at h; injection h with h; subst h
          exact inv_setGen hi _ g _ hg rfl rfl (by simp) (by simp)
        | txFail =>
          simp only at h; injection h with h; subst h
          refine inv_setGen hi _ g _ hg rfl rfl ?_ ?_
          · intro h; simp only at h; split at h <;> simp at h
          · intro h; simp only at h; split at h <;> simp at h
      · simp at h
    · simp at h
  | callback i =>
    simp only [step] at h
    split at h
    · rename_i g hg
      split at h
      · rename_i hc
        split at h
        · rename_i hst
          have hs1 : Inv (setGen s i { g with cbSt := .done }) :=
            inv_setGen hi i g _ hg rfl rfl (by simp) (by simp)
          split at h
          · rename_i seq hcb
            injection h with h; subst h
            apply inv_onFlushedOk hs1
            have := (hi.gensSnap i g hg).2 seq hcb
            rw [this]
            exact hi.gensOk i g hg hst
          · injection h with h; subst h; exact hs1
        · injection h with h; subst h
          exact inv_setGen hi i g _ hg rfl rfl (by simp) (by simp)
        · simp at h
      · simp at h
    · simp at h
  | errReadP i =>
    simp only [step] at h
    split at h
    · rename_i g hg
      split at h
      · injection h with h; subst h
        exact inv_setGen hi i g _ hg rfl rfl (by simp) (by simp)
      · simp at h
    · simp at h
  | deliver ok =>
    simp only [step] at h
    split at h
    · rename_i a rest hd
      split at h
      · split at h
        · split at h
          · simp at h
          · injection h with h; subst h; exact inv_deliverOk hi a rest hd
        · split at h
          · injection h with h; subst h; exact inv_dropHead hi a rest hd
          · split at h
            · injection h with h; subst h
              have := inv_dropHead (c := c) hi a rest hd
              frame this
            · injection h with h; subst h; frame hi
      · simp at h
    · simp at h
  | backoffAbort =>
    simp only [step] at h
    split at h
    · rename_i a rest hd
      split at h
      · injection h with h; subst h; exact inv_dropHead hi a rest hd
      · simp at h
    · simp at h
  | discard =>
    simp only [step] at h
    split at h
    · rename_i a rest hd
      split at h
      · injection h with h; subst h; exact inv_dropHead hi a rest hd
      · simp at h
    · simp at h
  | errReadS =>
    simp only [step] at h
    split at h
    · injection h with h; subst h; frame hi
    · simp at h
  | dgExit =>
    simp only [step] at h
    split at h
    · injection h with h; subst h; frame hi
    · simp at h
  | tdBegin =>
    simp only [step] at h
    split at h
    · injection h with h; subst h; frame hi
    · simp at h
  | tdFlush =>
    simp only [step] at h
    split at h
    · split at h
      · injection h with h; subst h; frame hi
      · rename_i b hb
        split at h
        · rename_i hw
          injection h with h; subst h
          have := inv_doTrigger hi b hb hw
          frame this
        · simp at h
    · simp at h
  | tdSnap =>
    simp only [step] at h
    split at h
    · injection h with h; subst h; frame hi
    · simp at h
  | tdWaited t =>
    simp only [step] at h
    split at h
    · split at h
      · split at h
        · injection h with h; subst h; frame hi
        · split at h
          · injection h with h; subst h; frame hi
          · split at h
            · split at h
              · injection h with h; subst h; frame hi
              · simp at h
            · simp at h
      · simp at h
    · simp at h
  | closeQueue =>
    simp only [step] at h
    split at h
    · injection h with h; subst h
      exact ⟨hi.instLe, hi.storeLe, hi.batchEq, hi.gensSnap, hi.gensOk, hi.gensWr, hi.durLe, hi.outLe, hi.allLe,
        hi.pendLe, hi.chain, hi.commitsLe, hi.commitsSorted, hi.commitsLast, hi.prefixI, hi.delISub, hi.psInst,
        hi.psStore, hi.psGens, hi.commitsNone, by intro hh; simp at hh⟩
    · simp at h
  | tdDrained t =>
    simp only [step] at h
    split at h
    · injection h with h; subst h; frame hi
    · simp at h
  | stopStream =>
    simp only [step] at h
    split at h
    · injection h with h; subst h; frame hi
    · simp at h
  | join =>
    simp only [step] at h
    split at h
    · injection h with h; subst h; frame hi
    · simp at h
  | pluginTeardown ok =>
    simp only [step] at h
    split at h
    · split at h
      · injection h with h; subst h; frame hi
      · rename_i b hb
        split at h
        · rename_i hw
          injection h with h; subst h
          have h1 : Inv { s with pluginUp := false, teardowns := s.teardowns + 1, td := Td.done ok } := by frame hi
          exact inv_doTrigger h1 b hb hw
        · simp at h
    · simp at h
  | waitPersisted =>
    simp only [step] at h
    split at h
    · split at h
      · injection h with h; subst h; frame hi
      · split at h
        · injection h with h; subst h; frame hi
        · simp at h
    · simp at h
  | crash =>
    simp only [step] at h
    split at h
    · injection h with h; subst h; frame hi
    · simp at h
  | restart =>
    simp only [step] at h
    split at h
    · injection h with h; subst h; exact inv_restart hi
    · simp at h

theorem inv_run {c : Cfg} : ∀ (evs : List Ev) (s s' : St), Inv s → run c s evs = some s' → Inv s'
  | [], s, s', hi, h => by simp only [run, Option.some.injEq] at h; subst h; exact hi
  | e :: es, s, s', hi, h => by
    simp only [run] at h
    split at h
    · rename_i s1 hs1
      exact inv_run es s1 s' (inv_step hi hs1) h
    · simp at h

theorem inv_reach {c : Cfg} {s : St} (h : Reach c s) : Inv s := by
  obtain ⟨evs, h⟩ := h
  exact inv_run evs _ _ inv_init h

end Conduit.SrcAck
