import ConduitModel.Proofs.SrcAckPos

/-!
Composition of the connector-side event system M3 with an engine: the engine-side hypothesis of
C02(v)/C03 (`runO` / `ReachO`: every `Source.Ack` continues the read order without a gap) is
DISCHARGED from a statement about the engine's ack calls alone.

`acksOf evs` is the list of `Source.Ack` calls of an event list; `ChunksFrom p cs` says that the calls
`cs`, one after the other, acknowledge exactly the records read after position `p`, in read order,
nothing skipped, nothing repeated, no call empty.  The engines establish `ChunksFrom` (arch v2:
`Props/EndToEnd.lean` from `C04_v2_run_acks_prefix`); this file proves that it is all M3 needs.
-/
namespace Conduit.SrcAck

/-- the `Source.Ack` calls of an event list, in order -/
def acksOf : List Ev → List (List Pos)
  | [] => []
  | .ack ps :: es => ps :: acksOf es
  | _ :: es => acksOf es

/-- consecutive ack calls continuing the read order after read index `p` -/
def ChunksFrom : Nat → List (List Pos) → Prop
  | _, [] => True
  | p, c :: cs => c ≠ [] ∧ c = List.range' (p + 1) c.length ∧ ChunksFrom (p + c.length) cs

theorem acksOf_cons_ack (ps : List Pos) (es : List Ev) : acksOf (.ack ps :: es) = ps :: acksOf es := rfl

theorem acksOf_cons_other {e : Ev} (es : List Ev) (h : ∀ ps, e ≠ .ack ps) : acksOf (e :: es) = acksOf es := by
  cases e <;> first | rfl | exact absurd rfl (h _)

/-- `ChunksFrom` in closed form: no call is empty and the concatenation is the read sequence -/
theorem chunksFrom_iff (p : Nat) (cs : List (List Pos)) :
    ChunksFrom p cs ↔ (∀ c ∈ cs, c ≠ []) ∧ cs.flatten = List.range' (p + 1) cs.flatten.length := by
  induction cs generalizing p with
  | nil => simp [ChunksFrom]
  | cons c cs ih =>
    simp only [ChunksFrom, List.mem_cons, forall_eq_or_imp, List.flatten_cons, List.length_append, ih]
    constructor
    · rintro ⟨hne, hc, hall, hfl⟩
      refine ⟨⟨hne, hall⟩, ?_⟩
      have h2 : p + c.length + 1 = p + 1 + c.length := by omega
      rw [← List.range'_append_1, ← h2, ← hfl, ← hc]
    · rintro ⟨⟨hne, hall⟩, hfl⟩
      have h2 : p + c.length + 1 = p + 1 + c.length := by omega
      rw [← List.range'_append_1] at hfl
      have hl : c.length = (List.range' (p + 1) c.length).length := by simp
      obtain ⟨h1, h3⟩ := List.append_inj hfl hl
      exact ⟨hne, h1, hall, by rw [h2]; exact h3⟩

theorem onFlushedOk_inst (s : St) (seq : Nat) : (onFlushedOk s seq).inst = s.inst := by
  unfold onFlushedOk
  by_cases h : s.closed = true <;> simp [h]

/-- only `Source.Ack` and a process restart change the connector's in-memory position -/
theorem step_inst {c : Cfg} {s s' : St} {e : Ev} (h : step c s e = some s') (h1 : ∀ ps, e ≠ .ack ps)
    (h2 : e ≠ .restart) : s'.inst = s.inst := by
  cases e with
  | ack ps => exact absurd rfl (h1 ps)
  | restart => exact absurd rfl h2
  | _ =>
    simp only [step] at h
    repeat' split at h
    all_goals first
      | (injection h with h; subst h; simp [setGen, onFlushedOk]; done)
      | (injection h with h; subst h; rfl)
      | (injection h with h; subst h; rw [onFlushedOk_inst]; rfl)
      | (subst h; rfl)
      | (subst h; rw [onFlushedOk_inst]; rfl)
      | (simp at h; done)

/-- a `Source.Ack` call that continues the read order moves the in-memory position to its last record -/
theorem step_ack_inst {c : Cfg} {s s' : St} {ps : List Pos} (h : step c s (.ack ps) = some s')
    (hne : ps ≠ []) (hps : ps = List.range' (s.inst.posN + 1) ps.length) :
    s'.inst.posN = s.inst.posN + ps.length := by
  have hlast : ps.getLast? = some (s.inst.posN + ps.length) := by
    have hpos : 0 < ps.length := List.length_pos_iff.mpr hne
    rw [hps, List.getLast?_range']
    simp only [List.length_range']
    rw [if_neg (by omega)]
    congr 1
    omega
  simp only [step] at h
  split at h
  · rw [hlast] at h
    injection h with h
    subst h
    simp [persist, Stored.posN]
  · simp at h

theorem ackOk_of_chunk {s : St} {ps : List Pos} (hne : ps ≠ [])
    (hps : ps = List.range' (s.inst.posN + 1) ps.length) : ackOk s ps = true := by
  simp only [ackOk, Bool.and_eq_true, bne_iff_ne, ne_eq, beq_iff_eq]
  exact ⟨hne, hps⟩

/-- **Composition, one incarnation.** From any state, along any event list without a process restart
whose `Source.Ack` calls continue the read order (`ChunksFrom`), every behaviour of M3 is a behaviour
under the engine-side hypothesis: `run` and `runO` coincide. -/
theorem runO_of_chunks {c : Cfg} : ∀ (evs : List Ev) (s s' : St), Ev.restart ∉ evs →
    ChunksFrom s.inst.posN (acksOf evs) → run c s evs = some s' → runO c s evs = some s'
  | [], s, s', _, _, h => by simpa [runO, run] using h
  | e :: es, s, s', hnr, hch, h => by
    simp only [run] at h
    split at h
    · rename_i s1 hs1
      have hnr' : Ev.restart ∉ es := fun hm => hnr (List.mem_cons_of_mem _ hm)
      by_cases hack : ∃ ps, e = .ack ps
      · obtain ⟨ps, rfl⟩ := hack
        rw [acksOf_cons_ack] at hch
        obtain ⟨hne, hps, hrest⟩ := hch
        have hok : evOk s (.ack ps) = true := ackOk_of_chunk hne hps
        simp only [runO, hok, if_true, hs1]
        apply runO_of_chunks es s1 s' hnr' _ h
        rw [step_ack_inst hs1 hne hps]
        exact hrest
      · have hna : ∀ ps, e ≠ .ack ps := fun ps hp => hack ⟨ps, hp⟩
        rw [acksOf_cons_other es hna] at hch
        have hok : evOk s e = true := by
          cases e <;> first | rfl | exact absurd rfl (hna _)
        simp only [runO, hok, if_true, hs1]
        apply runO_of_chunks es s1 s' hnr' _ h
        rw [step_inst hs1 hna (fun hr => hnr (hr ▸ List.mem_cons_self))]
        exact hch
    · simp at h

theorem runO_append {c : Cfg} : ∀ (e1 e2 : List Ev) (s s1 s2 : St), runO c s e1 = some s1 →
    runO c s1 e2 = some s2 → runO c s (e1 ++ e2) = some s2
  | [], e2, s, s1, s2, h1, h2 => by
    simp only [runO, Option.some.injEq] at h1; subst h1; simpa using h2
  | e :: es, e2, s, s1, s2, h1, h2 => by
    simp only [runO] at h1
    simp only [List.cons_append, runO]
    split at h1
    · rename_i hok
      rw [if_pos hok]
      split at h1
      · rename_i sx hsx
        exact runO_append es e2 sx s1 s2 h1 h2
      · simp at h1
    · simp at h1

/-- an incarnation fed by an order-preserving engine keeps the state inside `ReachO` -/
theorem ReachO.incarnation {c : Cfg} {s s' : St} (hr : ReachO c s) (evs : List Ev) (hnr : Ev.restart ∉ evs)
    (hch : ChunksFrom s.inst.posN (acksOf evs)) (h : run c s evs = some s') : ReachO c s' := by
  obtain ⟨e0, h0⟩ := hr
  exact ⟨e0 ++ evs, runO_append e0 evs init s s' h0 (runO_of_chunks evs s s' hnr hch h)⟩

/-- the process restart itself carries no engine-side obligation -/
theorem ReachO.restart {c : Cfg} {s s' : St} (hr : ReachO c s) (h : step c s .restart = some s') : ReachO c s' := by
  obtain ⟨e0, h0⟩ := hr
  refine ⟨e0 ++ [.restart], runO_append e0 [.restart] init s s' h0 ?_⟩
  simp [runO, evOk, h]

/-- `incs`: the event lists of successive process incarnations (a `restart` between any two). Each
incarnation's engine acknowledges, in read order and without a gap, the records read after the position
the connector was (re)opened with — which is all the engines guarantee (`Props/EndToEnd.lean`). -/
def IncsFed (c : Cfg) : St → List (List Ev) → Prop
  | _, [] => True
  | s, inc :: rest => Ev.restart ∉ inc ∧ ChunksFrom s.inst.posN (acksOf inc) ∧
      ∀ s1 s2, run c s inc = some s1 → step c s1 .restart = some s2 → IncsFed c s2 rest

/-- events of a whole history: incarnations joined by restarts -/
def joinIncs : List (List Ev) → List Ev
  | [] => []
  | [inc] => inc
  | inc :: rest => inc ++ .restart :: joinIncs rest

theorem run_append {c : Cfg} : ∀ (e1 e2 : List Ev) (s s2 : St), run c s (e1 ++ e2) = some s2 →
    ∃ s1, run c s e1 = some s1 ∧ run c s1 e2 = some s2
  | [], e2, s, s2, h => ⟨s, rfl, by simpa using h⟩
  | e :: es, e2, s, s2, h => by
    simp only [List.cons_append, run] at h ⊢
    split at h
    · rename_i sx hsx

      exact run_append es e2 sx s2 h
    · simp at h

/-- **Composition, whole history (any number of crashes and restarts).** -/
theorem ReachO.incarnations {c : Cfg} : ∀ (incs : List (List Ev)) (s s' : St), ReachO c s → IncsFed c s incs →
    run c s (joinIncs incs) = some s' → ReachO c s'
  | [], s, s', hr, _, h => by simp only [joinIncs, run, Option.some.injEq] at h; subst h; exact hr
  | [inc], s, s', hr, hf, h => by
    simp only [joinIncs] at h
    exact hr.incarnation inc hf.1 hf.2.1 h
  | inc :: i2 :: rest, s, s', hr, hf, h => by
    simp only [joinIncs] at h
    obtain ⟨s1, h1, h2⟩ := run_append inc _ s s' h
    simp only [run] at h2
    split at h2
    · rename_i s2 hs2
      have hr1 := hr.incarnation inc hf.1 hf.2.1 h1
      exact ReachO.incarnations (i2 :: rest) s2 s' (hr1.restart hs2) (hf.2.2 s1 s2 h1 hs2) h2
    · simp at h2

/-- executable form of `ChunksFrom` -/
def chunksFromB : Nat → List (List Pos) → Bool
  | _, [] => true
  | p, c :: cs => c != [] && c == List.range' (p + 1) c.length && chunksFromB (p + c.length) cs

theorem chunksFromB_iff : ∀ (p : Nat) (cs : List (List Pos)), chunksFromB p cs = true ↔ ChunksFrom p cs
  | _, [] => by simp [chunksFromB, ChunksFrom]
  | p, c :: cs => by
    simp only [chunksFromB, ChunksFrom, Bool.and_eq_true, bne_iff_ne, ne_eq, beq_iff_eq, chunksFromB_iff (p + c.length) cs,
      and_assoc]

/-- executable form of `IncsFed` (the check a trace of incarnations can be given to) -/
def incsFedB (c : Cfg) : St → List (List Ev) → Bool
  | _, [] => true
  | s, inc :: rest => !inc.contains .restart && chunksFromB s.inst.posN (acksOf inc) &&
      match run c s inc with
      | none => true
      | some s1 => match step c s1 .restart with
        | none => true
        | some s2 => incsFedB c s2 rest

theorem incsFedB_sound {c : Cfg} : ∀ (incs : List (List Ev)) (s : St), incsFedB c s incs = true → IncsFed c s incs
  | [], _, _ => trivial
  | inc :: rest, s, h => by
    simp only [incsFedB, Bool.and_eq_true, Bool.not_eq_true', List.contains_eq_mem, decide_eq_false_iff_not] at h
    obtain ⟨⟨h1, h2⟩, h3⟩ := h
    refine ⟨h1, (chunksFromB_iff _ _).mp h2, ?_⟩
    intro s1 s2 e1 e2
    rw [e1] at h3
    simp only [e2] at h3
    exact incsFedB_sound rest s2 h3

end Conduit.SrcAck
