import ConduitModel.Proofs.SrcAckStop

/-!
Invariant of M3 along healthy runs (`runH`, the hypotheses of C06) and the post-condition of a
graceful stop.
-/
namespace Conduit.SrcAck

structure InvH (s : St) : Prop where
  alive : s.alive = true
  noDrop : s.dropped = [] ∧ s.droppedG = []
  gensOkW : ∀ (i : Nat) g, s.gens[i]? = some g → g.stat = .writing ∨ g.stat = .ok
  flushedB : s.td.rank ≤ 8 → s.batch = none
  waitIdx : ∀ og, s.td = .waiting og → og = (if s.gens.length = 0 then none else some (s.gens.length - 1))
  waitedP : s.td.rank ≤ 6 → s.pending = [] ∧ (∀ g, s.gens.getLast? = some g → g.stat = .ok ∧ g.cbSt = .done)
  drainedD : s.td.rank ≤ 4 → s.dgDone = true
  noEsc : s.escalating = false ∧ s.dgFailed = false

theorem invH_init : InvH init := by
  constructor <;> simp [init, Td.rank]

/-- the four invariants together -/
structure InvAll (s : St) : Prop where
  v : Inv s
  t : InvTd s
  b : InvB s
  h : InvH s

theorem drain_nil (d : Nat) : drain d [] = ([], []) := rfl

theorem invH_step {c : Cfg} {s s' : St} {e : Ev} (ha : InvAll s) (hok : evHealthy c s e = true)
    (h : step c s e = some s') : InvH s' := by
  obtain ⟨hv, ht, hb, hi⟩ := ha
  have ⟨h0, h1, h2, h3, h4, h5, h6, h7⟩ := hi
  cases e with
  | openPersist =>
    simp only [step] at h
    split at h
    · rename_i hc
      injection h with h; subst h
      have htd : s.td = .idle := hc.2.2.2.1
      refine ⟨h0, h1, h2, ?_, ?_, ?_, ?_, h7⟩ <;> simp [persist, htd, Td.rank]
    · simp at h
  | ack ps =>
    simp only [evHealthy, Bool.and_eq_true, beq_iff_eq, bne_iff_ne, ne_eq] at hok
    have htd : s.td = .idle := hok.1
    simp only [step] at h
    split at h
    · split at h
      · rename_i hl
        have : ps = [] := by simpa using hl
        exact absurd this hok.2
      · injection h with h; subst h
        refine ⟨h0, h1, h2, ?_, ?_, ?_, ?_, h7⟩ <;> simp [persist, htd, Td.rank]
    · simp at h
  | trigger =>
    simp only [step] at h
    split at h
    · rename_i b hbb
      split at h
      · injection h with h; subst h
        have hr : ¬ s.td.rank ≤ 8 := by
          intro hr; rw [h3 hr] at hbb; simp at hbb
        refine ⟨h0, h1, ?_, ?_, ?_, ?_, ?_, h7⟩
        · intro i g hg
          rcases getElem?_snoc_cases hg with hh | ⟨hh, _⟩
          · exact h2 i g hh
          · subst hh; left; rfl
        · intro hr'; exact absurd hr' hr
        · intro og hog
          have : s.td.rank = 7 := by rw [show s.td = .waiting og from hog]; rfl
          omega
        · intro hr'; exact absurd (by show s.td.rank ≤ 8; have : s.td.rank ≤ 6 := hr'; omega) hr
        · intro hr'; exact absurd (by show s.td.rank ≤ 8; have : s.td.rank ≤ 4 := hr'; omega) hr
      · simp at h
    · simp at h
  | flushRes r =>
    simp only [evHealthy, beq_iff_eq] at hok
    subst hok
    simp only [step] at h
    split at h
    · rename_i g hg
      split at h
      · rename_i hc
        injection h with h; subst h
        have hg' := hg
        rw [getLast?_eq_idx] at hg'
        have hr : ¬ s.td.rank ≤ 6 := by
          intro hr
          have := (h5 hr).2 g hg
          rw [hc.2] at this; simp at this
        refine ⟨h0, h1, ?_, h3, ?_, ?_, ?_, h7⟩
        · intro j x hj
          rcases getElem?_set_cases hj with ⟨_, hh⟩ | ⟨_, hh⟩
          · exact h2 j x hh
          · rw [hh]; right; rfl
        · intro og hog
          have := h4 og hog
          simpa [setGen] using this
        · intro hr'; exact absurd hr' hr
        · intro hr'; exact absurd (by show s.td.rank ≤ 6; have : s.td.rank ≤ 4 := hr'; omega) hr
      · simp at h
    · simp at h
  | callback i =>
    simp only [step] at h
    split at h
    · rename_i g hg
      split at h
      · rename_i hc
        have hnotlast : s.td.rank ≤ 6 → i + 1 ≠ s.gens.length := by
          intro hr heq
          have hgl : s.gens.getLast? = some g := by
            rw [getLast?_eq_idx]
            have : s.gens.length - 1 = i := by omega
            rw [this]; exact hg
          have := ((h5 hr).2 g hgl).2
          rw [hc.2] at this; simp at this
        have hset : ∀ g', g'.stat = g.stat → g'.snap = g.snap →
            InvH (setGen s i g') ∨ True := fun _ _ _ => Or.inr trivial
        have hcore : InvH (setGen s i { g with cbSt := .done }) := by
          refine ⟨h0, h1, ?_, h3, ?_, ?_, h6, h7⟩
          · intro j x hj
            rcases getElem?_set_cases hj with ⟨_, hh⟩ | ⟨_, hh⟩
            · exact h2 j x hh
            · rw [hh]; exact h2 i g hg
          · intro og hog
            have := h4 og hog
            simpa [setGen] using this
          · intro hr
            refine ⟨(h5 hr).1, ?_⟩
            intro x hx
            have hx' : (s.gens.set i { g with cbSt := .done }).getLast? = some x := hx
            rw [getLast?_set] at hx'
            split at hx'
            · rename_i heq; exact absurd heq (hnotlast hr)
            · exact (h5 hr).2 x hx'
        split at h
        · split at h
          · rename_i seq hcb
            injection h with h; subst h
            -- onFlushedOk: pending only shrinks; nothing is dropped because a closed queue
            -- implies an empty pending list on healthy runs
            have hclosedP : s.closed = true → s.pending = [] := by
              intro hcl
              have : s.td.rank ≤ 5 := by
                have := ht.clo; rw [hcl] at this; simpa using this.symm
              exact (h5 (by omega)).1
            by_cases hcl : s.closed = true
            · have hp := hclosedP hcl
              have : onFlushedOk (setGen s i { g with cbSt := .done }) seq =
                  { setGen s i { g with cbSt := .done } with
                      durable := if seq > s.durable then seq else s.durable } := by
                simp [onFlushedOk, setGen, hcl, hp, drain_nil, h1.1]
              rw [this]
              exact ⟨hcore.alive, hcore.noDrop, hcore.gensOkW, hcore.flushedB, hcore.waitIdx, hcore.waitedP,
                hcore.drainedD, hcore.noEsc⟩
            · have hcl' : s.closed = false := by simpa using hcl
              have hr : ¬ s.td.rank ≤ 5 := by
                intro hr
                have := ht.clo; rw [hcl'] at this
                simp at this; omega
              have e1 : (onFlushedOk (setGen s i { g with cbSt := .done }) seq).td = s.td := by
                simp [onFlushedOk, setGen, hcl']
              have e2 : (onFlushedOk (setGen s i { g with cbSt := .done }) seq).gens = s.gens.set i { g with cbSt := .done } := by
                simp [onFlushedOk, setGen, hcl']
              refine ⟨by simp [onFlushedOk, setGen, hcl', h0], by simp [onFlushedOk, setGen, hcl', h1.1, h1.2], ?_, ?_, ?_, ?_, ?_,
                by simp [onFlushedOk, setGen, hcl', h7.1, h7.2]⟩
              · rw [e2]; exact hcore.gensOkW
              · rw [e1]; intro hr'
                have := h3 hr'
                simp [onFlushedOk, setGen, hcl', this]
              · rw [e1, e2]; intro og hog
                have := h4 og hog
                simpa using this
              · rw [e1]; intro hr'
                have hpend := (h5 hr').1
                refine ⟨by simp [onFlushedOk, setGen, hcl', hpend, drain_nil], ?_⟩
                rw [e2]; exact (hcore.waitedP hr').2
              · rw [e1]; intro hr'; exact absurd (by omega) hr
          · injection h with h; subst h; exact hcore
        · rename_i hst
          have := h2 i g hg
          rw [hst] at this; simp at this
        · simp at h
      · simp at h
    · simp at h
  | errReadP i =>
    simp only [step] at h
    split at h
    · rename_i g hg
      split at h
      · rename_i hc
        have := h2 i g hg
        rw [hc.2.2] at this; simp at this
      · simp at h
    · simp at h
  | deliver ok =>
    simp only [evHealthy, Bool.or_eq_true, Bool.and_eq_true, Bool.not_eq_true', decide_eq_true_eq] at hok
    simp only [step] at h
    split at h
    · split at h
      · split at h
        · split at h
          · simp at h
          · injection h with h; subst h
            exact ⟨h0, h1, h2, h3, h4, h5, h6, h7⟩
        · rename_i hnok
          have hok' : s.streamStopped = false ∧ s.attempt + 1 < c.maxRetries := by
            rcases hok with hok | hok
            · exact absurd hok hnok
            · exact hok
          split at h
          · rename_i hss; rw [hok'.1] at hss; simp at hss
          · split at h
            · rename_i hge; omega
            · injection h with h; subst h
              exact ⟨h0, h1, h2, h3, h4, h5, h6, h7⟩
      · simp at h
    · simp at h
  | backoffAbort => simp [evHealthy] at hok
  | discard => simp [evHealthy] at hok
  | errReadS =>
    simp only [step] at h
    split at h
    · rename_i hc; rw [h7.1] at hc; simp at hc
    · simp at h
  | dgExit =>
    simp only [step] at h
    split at h
    · injection h with h; subst h
      exact ⟨h0, h1, h2, h3, h4, h5, fun _ => rfl, h7⟩
    · simp at h
  | tdBegin =>
    simp only [step] at h
    split at h
    · injection h with h; subst h
      refine ⟨h0, h1, h2, ?_, ?_, ?_, ?_, h7⟩ <;> simp [Td.rank]
    · simp at h
  | tdFlush =>
    simp only [step] at h
    split at h
    · rename_i hc
      split at h
      · rename_i hbn
        injection h with h; subst h
        refine ⟨h0, h1, h2, fun _ => hbn, ?_, ?_, ?_, h7⟩ <;> simp [Td.rank]
      · rename_i b hbb
        split at h
        · injection h with h; subst h
          refine ⟨h0, h1, ?_, fun _ => rfl, ?_, ?_, ?_, h7⟩
          · intro i g hg
            rcases getElem?_snoc_cases hg with hh | ⟨hh, _⟩
            · exact h2 i g hh
            · subst hh; left; rfl
          · intro og hog; simp at hog
          · intro hr; simp [Td.rank] at hr
          · intro hr; simp [Td.rank] at hr
        · simp at h
    · simp at h
  | tdSnap =>
    simp only [step] at h
    split at h
    · rename_i hc
      injection h with h; subst h
      have hr : s.td.rank ≤ 8 := by rw [hc.2]; simp [Td.rank]
      refine ⟨h0, h1, h2, fun _ => h3 hr, ?_, ?_, ?_, h7⟩
      · intro og hog
        simp only [Td.waiting.injEq] at hog
        exact hog.symm
      · intro hr; simp [Td.rank] at hr
      · intro hr; simp [Td.rank] at hr
    · simp at h
  | tdWaited t =>
    simp only [evHealthy, Bool.not_eq_true'] at hok
    subst hok
    simp only [step] at h
    split at h
    · rename_i og htd
      have hbn : s.batch = none := h3 (by rw [htd]; simp [Td.rank])
      have hog := h4 og htd
      -- the process is alive and no timeout fired: only the `match og` is left
      rw [if_pos h0] at h
      simp only [Bool.false_eq_true, if_false] at h
      have hfin : (s.pending = [] ∧ ∀ g, s.gens.getLast? = some g → g.stat = .ok ∧ g.cbSt = .done) →
          InvH { s with td := .waited } := by
        intro hp
        refine ⟨h0, h1, h2, fun _ => hbn, ?_, fun _ => hp, ?_, h7⟩
        · intro og' hog'; simp at hog'
        · intro hr; simp [Td.rank] at hr
      cases og with
      | none =>
        -- no generation was ever triggered
        simp only at h
        injection h with h; subst h
        apply hfin
        have hlen : s.gens.length = 0 := by
          by_cases hl : s.gens.length = 0
          · exact hl
          · simp [hl] at hog
        have hnil : s.gens = [] := List.length_eq_zero_iff.mp hlen
        refine ⟨?_, by intro g hg; rw [hnil] at hg; simp at hg⟩
        by_cases hp : s.pending = []
        · exact hp
        · obtain ⟨g, hg, _⟩ := (hb.pendCb hp).2 hbn
          rw [hnil] at hg; simp at hg
      | some i =>
        simp only at h
        cases hgi : s.gens[i]? with
        | none => rw [hgi] at h; simp at h
        | some g =>
          rw [hgi] at h
          simp only at h
          by_cases hd : g.writeDone = true ∧ g.callbacksDone = true
          · rw [if_pos hd] at h
            injection h with h; subst h
            apply hfin
            have hlen : s.gens.length ≠ 0 := by
              intro hl; simp [hl] at hog
            simp only [hlen, if_false, Option.some.injEq] at hog
            have hgl : s.gens.getLast? = some g := by
              rw [getLast?_eq_idx, ← hog]; exact hgi
            have hstat : g.stat = .ok ∧ g.cbSt = .done := by
              obtain ⟨hwd, hcd⟩ := hd
              simp only [Gen.writeDone, bne_iff_ne, ne_eq] at hwd
              simp only [Gen.callbacksDone, Bool.and_eq_true, Bool.or_eq_true, beq_iff_eq] at hcd
              refine ⟨?_, hcd.2⟩
              rcases h2 i g hgi with hw | hk
              · exact absurd hw hwd
              · exact hk
            refine ⟨hb.lastDone hbn g hgl hstat.1 hstat.2, ?_⟩
            intro x hx
            rw [hgl] at hx
            rw [← Option.some.inj hx]; exact hstat
          · rw [if_neg hd] at h; simp at h
    · simp at h
  | closeQueue =>
    simp only [step] at h
    split at h
    · rename_i hc
      injection h with h; subst h
      have hr : s.td.rank ≤ 6 := by rw [hc.2]; simp [Td.rank]
      refine ⟨h0, h1, h2, fun _ => h3 (by omega), ?_, fun _ => h5 hr, ?_, h7⟩
      · intro og hog; simp at hog
      · intro hr'; simp [Td.rank] at hr'
    · simp at h
  | tdDrained t =>
    simp only [evHealthy, Bool.not_eq_true'] at hok
    subst hok
    simp only [step] at h
    split at h
    · rename_i hc
      injection h with h; subst h
      have hr : s.td.rank ≤ 6 := by rw [hc.2.1]; simp [Td.rank]
      have hd : s.dgDone = true := by
        rcases hc.2.2 with hf | hd
        · simp at hf
        · exact hd
      refine ⟨h0, h1, h2, fun _ => h3 (by omega), ?_, fun _ => h5 hr, fun _ => hd, h7⟩
      intro og hog; simp at hog
    · simp at h
  | stopStream =>
    simp only [step] at h
    split at h
    · rename_i hc
      injection h with h; subst h
      have hr : s.td.rank ≤ 4 := by rw [hc.2]; simp [Td.rank]
      refine ⟨h0, h1, h2, fun _ => h3 (by omega), ?_, fun _ => h5 (by omega), fun _ => h6 hr, ⟨rfl, h7.2⟩⟩
      intro og hog; simp at hog
    · simp at h
  | join =>
    simp only [step] at h
    split at h
    · rename_i hc
      injection h with h; subst h
      have hr : s.td.rank ≤ 4 := by rw [hc.2.1]; simp [Td.rank]
      refine ⟨h0, h1, h2, fun _ => h3 (by omega), ?_, fun _ => h5 (by omega), fun _ => h6 hr, h7⟩
      intro og hog; simp at hog
    · simp at h
  | pluginTeardown ok =>
    simp only [step] at h
    split at h
    · rename_i hc
      have hr : s.td.rank ≤ 4 := by rw [hc.2.1]; simp [Td.rank]
      have hbn := h3 (by omega)
      split at h
      · injection h with h; subst h
        refine ⟨h0, h1, h2, fun _ => hbn, ?_, fun _ => h5 (by omega), fun _ => h6 hr, h7⟩
        intro og hog; simp at hog
      · rename_i b hbb; rw [hbn] at hbb; simp at hbb
    · simp at h
  | waitPersisted =>
    simp only [step] at h
    (repeat' split at h) <;>
      first | (simp at h; done) | (injection h with h; subst h; exact ⟨h0, h1, h2, h3, h4, h5, h6, h7⟩)
  | crash => simp [evHealthy] at hok
  | restart =>
    simp only [step] at h
    split at h
    · rename_i hc; rw [h0] at hc; simp at hc
    · simp at h

theorem invAll_init : InvAll init := ⟨inv_init, invTd_init, invB_init, invH_init⟩

theorem invAll_run {c : Cfg} : ∀ (evs : List Ev) (s s' : St), InvAll s → runH c s evs = some s' → InvAll s'
  | [], s, s', hi, h => by simp only [runH, Option.some.injEq] at h; subst h; exact hi
  | e :: es, s, s', hi, h => by
    simp only [runH] at h
    split at h
    · rename_i hok
      split at h
      · rename_i s1 hs1
        exact invAll_run es s1 s' ⟨inv_step hi.v hs1, invTd_step hi.t hs1, invB_step hi.b hi.v hs1, invH_step hi hok hs1⟩ h
      · simp at h
    · simp at h

theorem invAll_reach {c : Cfg} {s : St} (h : ReachH c s) : InvAll s := by
  obtain ⟨evs, h⟩ := h
  exact invAll_run evs _ _ invAll_init h

theorem runH_run {c : Cfg} : ∀ (evs : List Ev) (s s' : St), runH c s evs = some s' → run c s evs = some s'
  | [], s, s', h => by simpa [runH, run] using h
  | e :: es, s, s', h => by
    simp only [runH] at h
    split at h
    · split at h
      · rename_i s1 hs1
        simp only [run, hs1]
        exact runH_run es s1 s' h
      · simp at h
    · simp at h

theorem ReachH.reach {c : Cfg} {s : St} (h : ReachH c s) : Reach c s := by
  obtain ⟨evs, h⟩ := h
  exact ⟨evs, runH_run evs _ _ h⟩

end Conduit.SrcAck
