import ConduitModel.Proofs.SrcAckStep
import ConduitModel.Spec.SrcAck

/-!
Soundness of the trace monitor (`Spec/SrcAck.lean`) with respect to the model, for the durability
clauses of C02/C03: along every run of M3 that satisfies the read-order hypothesis, the monitor fed
with the observations the run emits never raises one of the clauses

  C02:ack-delivered-before-durable   C02:store-went-backwards   C02:store-became-empty
  C03:stored-position-past-unhandled-record   C03:snapshot-reopens-at-other-position
  C03:reopened-at-other-than-stored-position

(PARTIAL: the ordering / prefix clauses `C02:ack-repeated-or-out-of-order`, `C04:ack-sequence-gap`
and the C06 clauses are tied to the theorems `C02_delivered_fifo`, `C02_delivered_prefix`,
`C06_stop_drained` only informally — the statement with those clauses included is the goal.)
-/
namespace Conduit.SrcAck

/-- what the process boundary shows of one model step taken in state `s` -/
def obsOf (s : St) : Ev → List Obs
  | .ack ps => [.ack ps]
  | .flushRes .ok =>
    match s.gens.getLast? with
    | some g => [.commit g.snap.pos g.snap.pos]
    | none => []
  | .flushRes r => [.flushFail r]
  | .deliver true =>
    match s.deferred with
    | a :: _ => [.sack a.ps]
    | [] => []
  | .deliver false => [.sendFail]
  | .tdBegin => [.tdBegin]
  | .pluginTeardown ok => [.pluginTd ok, .tdRet ok]
  | .waitPersisted => [.waited]
  | .crash => [.crash]
  | .restart => [.reopen s.store.pos]
  | _ => []

/-- the observed trace of a hypothesis-respecting run -/
def traceO (c : Cfg) : St → List Ev → List Obs
  | _, [] => []
  | s, e :: es =>
    if evOk s e then
      match step c s e with
      | some s' => obsOf s e ++ traceO c s' es
      | none => []
    else []

def coreBad (w : String) : Bool :=
  w == "C02:ack-delivered-before-durable" || w == "C02:store-went-backwards" || w == "C02:store-became-empty" ||
  w == "C03:stored-position-past-unhandled-record" || w == "C03:snapshot-reopens-at-other-position" ||
  w == "C03:reopened-at-other-than-stored-position"

/-- the monitor has not raised a durability clause -/
def CoreClean (m : Mon) : Prop := ∀ w, m.bad = some w → coreBad w = false

/-- monitor state vs model state -/
structure Rel (m : Mon) (s : St) : Prop where
  com : m.committed = s.store.posN
  hmax : ∀ r ∈ s.handled, r ≤ m.handledMax

theorem flag_true (m : Mon) (w : String) : flag m true w = m := by
  simp [flag]

theorem flag_fields (m : Mon) (c : Bool) (w : String) :
    (flag m c w).committed = m.committed ∧ (flag m c w).handledMax = m.handledMax := by
  unfold flag; split <;> exact ⟨rfl, rfl⟩

/-- a flag keeps the monitor core-clean if its condition holds or its reason is not a core one -/
theorem flag_clean (m : Mon) (c : Bool) (w : String) (hw : c = true ∨ coreBad w = false) (h : CoreClean m) :
    CoreClean (flag m c w) := by
  unfold flag
  split
  · rename_i hcond
    rcases hw with hw | hw
    · simp [hw] at hcond
    · intro w' hw'
      simp only [Option.some.injEq] at hw'
      subst hw'; exact hw
  · exact h

theorem clean_congr {m m' : Mon} (hb : m'.bad = m.bad) (h : CoreClean m) : CoreClean m' := by
  intro w hw; rw [hb] at hw; exact h w hw

/-- what an observation must satisfy, against the monitor state, for no durability clause to fire -/
def coreOk (m : Mon) : Obs → Prop
  | .commit pos reopen => m.committed ≤ optN pos ∧ (pos.isSome = true ∨ m.committed = 0) ∧
      optN pos ≤ m.handledMax ∧ reopen = pos
  | .sack ps => maxL ps ≤ m.committed
  | .reopen pos => optN pos = m.committed
  | _ => True

theorem monStep_committed (st : Bool) (m : Mon) (o : Obs) :
    (monStep st m o).committed = (match o with | .commit pos _ => optN pos | _ => m.committed) := by
  cases o <;> simp only [monStep] <;> (try split) <;>
    simp only [(flag_fields _ _ _).1]

theorem monStep_handledMax (st : Bool) (m : Mon) (o : Obs) :
    (monStep st m o).handledMax = (match o with | .ack ps => max m.handledMax (maxL ps) | _ => m.handledMax) := by
  cases o <;> simp only [monStep] <;> (try split) <;>
    simp only [(flag_fields _ _ _).2]

theorem monStep_clean (st : Bool) (m : Mon) (o : Obs) (h : CoreClean m) (hok : coreOk m o) :
    CoreClean (monStep st m o) := by
  cases o with
  | commit pos reopen =>
    obtain ⟨c1, c2, c3, c4⟩ := hok
    simp only [monStep]
    apply clean_congr (m := flag (flag (flag (flag (flag m _ _) _ _) _ _) _ _) _ _) rfl
    apply flag_clean _ _ _ (Or.inr (by decide))
    apply flag_clean _ _ _ (Or.inl (by simp [c4]))
    apply flag_clean _ _ _ (Or.inl (by
      simp only [(flag_fields _ _ _).2, decide_eq_true_eq]; exact c3))
    apply flag_clean _ _ _ (Or.inl (by
      simp only [(flag_fields _ _ _).1]
      rcases c2 with c2 | c2
      · simp [c2]
      · simp [c2]))
    exact flag_clean _ _ _ (Or.inl (by simpa using c1)) h
  | sack ps =>
    simp only [monStep]
    apply clean_congr (m := flag (flag (flag (flag m _ _) _ _) _ _) _ _) rfl
    apply flag_clean _ _ _ (Or.inr (by decide))
    apply flag_clean _ _ _ (Or.inr (by decide))
    apply flag_clean _ _ _ (Or.inr (by decide))
    exact flag_clean _ _ _ (Or.inl (by have h0 : maxL ps ≤ m.committed := hok; simpa using h0)) h
  | reopen pos =>
    simp only [monStep]
    apply clean_congr (m := flag m _ _) rfl
    exact flag_clean _ _ _ (Or.inl (by simp [show optN pos = m.committed from hok])) h
  | pluginTd ok =>
    simp only [monStep]
    apply clean_congr (m := flag m _ _) rfl
    exact flag_clean _ _ _ (Or.inr (by decide)) h
  | tdRet ok =>
    simp only [monStep]
    split
    · apply clean_congr (m := flag (flag (flag m _ _) _ _) _ _) rfl
      apply flag_clean _ _ _ (Or.inr (by decide))
      apply flag_clean _ _ _ (Or.inr (by decide))
      exact flag_clean _ _ _ (Or.inr (by decide)) h
    · apply clean_congr (m := flag m _ _) rfl
      exact flag_clean _ _ _ (Or.inr (by decide)) h
  | waitHang =>
    simp only [monStep]
    exact flag_clean _ _ _ (Or.inr (by decide)) h
  | ack ps => exact clean_congr (m := m) rfl h
  | tdBegin => exact clean_congr (m := m) rfl h
  | ackRet => exact h
  | flushFail r => exact h
  | sendFail => exact h
  | waited => exact clean_congr (m := m) rfl h
  | crash => exact h
  | emit p => exact clean_congr (m := m) rfl h
  | stopRet pos =>
    simp only [monStep]
    exact flag_clean _ _ _ (Or.inr (by decide)) h
  | nodeEnded => exact h
  | nodeHang =>
    simp only [monStep]
    exact flag_clean _ _ _ (Or.inr (by decide)) h

theorem le_maxL_aux : ∀ (l : List Nat) (b x : Nat), x ≤ b ∨ x ∈ l → x ≤ l.foldl max b
  | [], b, x, h => by
    rcases h with h | h
    · simpa using h
    · simp at h
  | y :: ys, b, x, h => by
    simp only [List.foldl_cons]
    apply le_maxL_aux ys
    rcases h with h | h
    · left; exact Nat.le_trans h (Nat.le_max_left _ _)
    · simp only [List.mem_cons] at h
      rcases h with h | h
      · left; subst h; exact Nat.le_max_right _ _
      · right; exact h

theorem le_maxL {l : List Nat} {x : Nat} (h : x ∈ l) : x ≤ maxL l :=
  le_maxL_aux l 0 x (Or.inr h)

theorem maxL_le_aux : ∀ (l : List Nat) (b m : Nat), b ≤ m → (∀ x ∈ l, x ≤ m) → l.foldl max b ≤ m
  | [], b, m, hb, _ => by simpa using hb
  | y :: ys, b, m, hb, h => by
    simp only [List.foldl_cons]
    apply maxL_le_aux ys
    · exact Nat.max_le.mpr ⟨hb, h y (List.mem_cons_self ..)⟩
    · intro x hx; exact h x (List.mem_cons_of_mem _ hx)

theorem maxL_le {l : List Nat} {m : Nat} (h : ∀ x ∈ l, x ≤ m) : maxL l ≤ m :=
  maxL_le_aux l 0 m (Nat.zero_le _) h

/-- the handled set grows exactly by the positions of an Ack -/
theorem step_handled {c : Cfg} {s s' : St} {e : Ev} (h : step c s e = some s') :
    s'.handled = s.handled ∨ (∃ ps, e = .ack ps ∧ s'.handled = s.handled ++ ps) := by
  cases e <;> simp only [step] at h <;> (repeat' split at h) <;>
    first
    | (simp at h; done)
    | (injection h with h; subst h
       first
       | (left; rfl)
       | (left; by_cases hc : s.closed = true <;> simp [onFlushedOk, setGen, hc]; done)
       | (right; exact ⟨_, rfl, rfl⟩))

theorem optN_eq (x : Stored) : optN x.pos = x.posN := rfl

/-- folding observations that the monitor state accepts -/
theorem fold_obs (st : Bool) : ∀ (os : List Obs) (m : Mon) (s' : St),
    CoreClean m →
    (∀ m', m'.committed = m.committed → m'.handledMax = m.handledMax → ∀ o ∈ os, coreOk m' o) →
    (∀ o ∈ os, (match o with | .commit _ _ => False | .ack _ => False | _ => True)) →
    m.committed = s'.store.posN → (∀ r ∈ s'.handled, r ≤ m.handledMax) →
    Rel (os.foldl (monStep st) m) s' ∧ CoreClean (os.foldl (monStep st) m)
  | [], m, s', hc, _, _, h1, h2 => ⟨⟨h1, h2⟩, hc⟩
  | o :: os, m, s', hc, hok, hq, h1, h2 => by
    simp only [List.foldl_cons]
    have hqo := hq o (List.mem_cons_self ..)
    have e1 : (monStep st m o).committed = m.committed := by
      rw [monStep_committed]; cases o <;> simp_all
    have e2 : (monStep st m o).handledMax = m.handledMax := by
      rw [monStep_handledMax]; cases o <;> simp_all
    apply fold_obs st os (monStep st m o) s'
    · exact monStep_clean st m o hc (hok m rfl rfl o (List.mem_cons_self ..))
    · intro m' h3 h4 o' ho'
      exact hok m' (by rw [h3, e1]) (by rw [h4, e2]) o' (List.mem_cons_of_mem _ ho')
    · intro o' ho'; exact hq o' (List.mem_cons_of_mem _ ho')
    · rw [e1]; exact h1
    · intro r hr; rw [e2]; exact h2 r hr

/-- one step of the model, its observations through the monitor -/
theorem mon_step {c : Cfg} {s s' : St} {e : Ev} {m : Mon} (strict : Bool)
    (hi : InvO s) (hv : Inv s) (hs : step c s e = some s') (hr : Rel m s) (hc : CoreClean m) :
    Rel ((obsOf s e).foldl (monStep strict) m) s' ∧ CoreClean ((obsOf s e).foldl (monStep strict) m) := by
  have hstore := step_store hs
  have hhand := step_handled hs
  -- events other than Ack and a successful flush leave store and handled set alone
  have same : (∀ ps, e ≠ .ack ps) → e ≠ .flushRes .ok → s'.store = s.store ∧ s'.handled = s.handled := by
    intro h1 h2
    refine ⟨?_, ?_⟩
    · rcases hstore with h | ⟨_, _, _, _, h⟩
      · exact h
      · exact absurd h h2
    · rcases hhand with h | ⟨ps, he, _⟩
      · exact h
      · exact absurd he (h1 ps)
  -- … and what they show passes the durability clauses
  have quiet : (∀ ps, e ≠ .ack ps) → e ≠ .flushRes .ok →
      (∀ m', m'.committed = m.committed → m'.handledMax = m.handledMax → ∀ o ∈ obsOf s e, coreOk m' o) →
      (∀ o ∈ obsOf s e, (match o with | .commit _ _ => False | .ack _ => False | _ => True)) →
      Rel ((obsOf s e).foldl (monStep strict) m) s' ∧ CoreClean ((obsOf s e).foldl (monStep strict) m) := by
    intro h1 h2 h3 h4
    have := same h1 h2
    exact fold_obs strict _ m s' hc h3 h4 (by rw [this.1]; exact hr.com) (by rw [this.2]; exact hr.hmax)
  cases e with
  | ack ps =>
    have hst : s'.store = s.store := by
      rcases hstore with h | ⟨_, _, _, _, h⟩
      · exact h
      · cases h
    have hh : s'.handled = s.handled ∨ s'.handled = s.handled ++ ps := by
      rcases hhand with h | ⟨ps', he, h⟩
      · exact Or.inl h
      · cases he; exact Or.inr h
    simp only [obsOf, List.foldl_cons, List.foldl_nil]
    refine ⟨⟨by rw [monStep_committed, hst]; exact hr.com, ?_⟩, monStep_clean strict m _ hc trivial⟩
    intro r hrm
    rw [monStep_handledMax]
    show r ≤ max m.handledMax (maxL ps)
    rcases hh with h | h
    · rw [h] at hrm; exact Nat.le_trans (hr.hmax r hrm) (Nat.le_max_left _ _)
    · rw [h, List.mem_append] at hrm
      rcases hrm with h1 | h1
      · exact Nat.le_trans (hr.hmax r h1) (Nat.le_max_left _ _)
      · exact Nat.le_trans (le_maxL h1) (Nat.le_max_right _ _)
  | flushRes r =>
    cases r with
    | ok =>
      have hh : s'.handled = s.handled := by
        rcases hhand with h | ⟨_, he, _⟩
        · exact h
        · cases he
      have hg : ∃ g, s.gens.getLast? = some g ∧ g.stat = .writing ∧ s'.store = g.snap := by
        rcases hstore with h | ⟨g, h1, h2, h3, _⟩
        · -- the store did not change: still the committed value is the snapshot (it was equal)
          simp only [step] at hs
          split at hs
          · rename_i g hg
            split at hs
            · rename_i hcnd
              injection hs with hs; subst hs
              exact ⟨g, hg, hcnd.2, rfl⟩
            · simp at hs
          · simp at hs
        · exact ⟨g, h1, h2, h3⟩
      obtain ⟨g, hg, hw, hst⟩ := hg
      have hgi : s.gens[s.gens.length - 1]? = some g := by rw [← getLast?_eq_idx]; exact hg
      simp only [obsOf, hg, List.foldl_cons, List.foldl_nil]
      have c1 : m.committed ≤ optN g.snap.pos := by
        rw [hr.com, optN_eq]; exact hi.gensWrPos _ g hgi hw
      have c2 : g.snap.pos.isSome = true ∨ m.committed = 0 := by
        by_cases h0 : m.committed = 0
        · exact Or.inr h0
        · left
          have hpos : 0 < s.store.posN := by rw [← hr.com]; omega
          have hsome : s.store.pos.isSome = true := by
            cases hp : s.store.pos with
            | none => simp [Stored.posN, hp] at hpos
            | some _ => rfl
          have hseq : 0 < s.store.seq := hv.psStore.mp hsome
          have hle := (hv.gensWr _ g hgi hw).1
          exact (hv.psGens _ g hgi).mpr (by omega)
      have c3 : optN g.snap.pos ≤ m.handledMax := by
        rw [optN_eq]
        by_cases h0 : g.snap.posN = 0
        · omega
        · exact hr.hmax _ (hi.covGens _ g hgi g.snap.posN (by omega) (Nat.le_refl _))
      refine ⟨⟨by rw [monStep_committed, hst]; rfl, ?_⟩, monStep_clean strict m _ hc ⟨c1, c2, c3, rfl⟩⟩
      intro r hrm
      rw [monStep_handledMax, hh] at *
      exact hr.hmax r hrm
    | setFail => exact quiet (by intro ps h; cases h) (by intro h; cases h) (by intro m' _ _ o ho; simp [obsOf] at ho; subst ho; trivial) (by intro o ho; simp [obsOf] at ho; subst ho; trivial)
    | commitFail => exact quiet (by intro ps h; cases h) (by intro h; cases h) (by intro m' _ _ o ho; simp [obsOf] at ho; subst ho; trivial) (by intro o ho; simp [obsOf] at ho; subst ho; trivial)
    | txFail => exact quiet (by intro ps h; cases h) (by intro h; cases h) (by intro m' _ _ o ho; simp [obsOf] at ho; subst ho; trivial) (by intro o ho; simp [obsOf] at ho; subst ho; trivial)
  | deliver ok =>
    cases ok with
    | false => exact quiet (by intro ps h; cases h) (by intro h; cases h) (by intro m' _ _ o ho; simp [obsOf] at ho; subst ho; trivial) (by intro o ho; simp [obsOf] at ho; subst ho; trivial)
    | true =>
      cases hd : s.deferred with
      | nil => simp [step, hd] at hs
      | cons a rest =>
        apply quiet (by intro ps h; cases h) (by intro h; cases h)
        · intro m' h1 _ o ho
          simp only [obsOf, hd, List.mem_singleton] at ho
          subst ho
          show maxL a.ps ≤ m'.committed
          rw [h1, hr.com]
          apply maxL_le
          intro p hp
          exact hi.outPos a (Or.inl (by rw [hd]; exact List.mem_cons_self ..)) p hp
        · intro o ho
          simp only [obsOf, hd, List.mem_singleton] at ho
          subst ho; trivial
  | restart =>
    apply quiet (by intro ps h; cases h) (by intro h; cases h)
    · intro m' h1 _ o ho
      simp only [obsOf, List.mem_singleton] at ho
      subst ho
      show optN s.store.pos = m'.committed
      rw [h1, hr.com]; rfl
    · intro o ho
      simp only [obsOf, List.mem_singleton] at ho
      subst ho; trivial
  | pluginTeardown ok =>
    apply quiet (by intro ps h; cases h) (by intro h; cases h)
    · intro m' _ _ o ho
      simp only [obsOf, List.mem_cons, List.not_mem_nil, or_false] at ho
      rcases ho with ho | ho <;> (subst ho; trivial)
    · intro o ho
      simp only [obsOf, List.mem_cons, List.not_mem_nil, or_false] at ho
      rcases ho with ho | ho <;> (subst ho; trivial)
  | tdBegin => exact quiet (by intro ps h; cases h) (by intro h; cases h) (by intro m' _ _ o ho; simp [obsOf] at ho; subst ho; trivial) (by intro o ho; simp [obsOf] at ho; subst ho; trivial)
  | waitPersisted => exact quiet (by intro ps h; cases h) (by intro h; cases h) (by intro m' _ _ o ho; simp [obsOf] at ho; subst ho; trivial) (by intro o ho; simp [obsOf] at ho; subst ho; trivial)
  | crash => exact quiet (by intro ps h; cases h) (by intro h; cases h) (by intro m' _ _ o ho; simp [obsOf] at ho; subst ho; trivial) (by intro o ho; simp [obsOf] at ho; subst ho; trivial)
  | _ => exact quiet (by intro ps h; cases h) (by intro h; cases h) (by intro m' _ _ o ho; simp [obsOf] at ho) (by intro o ho; simp [obsOf] at ho)

theorem mon_run {c : Cfg} (strict : Bool) : ∀ (evs : List Ev) (s : St) (m : Mon),
    InvO s → Inv s → Rel m s → CoreClean m → CoreClean ((traceO c s evs).foldl (monStep strict) m)
  | [], _, m, _, _, _, hc => by simpa [traceO] using hc
  | e :: es, s, m, hi, hv, hr, hc => by
    simp only [traceO]
    split
    · rename_i hok
      split
      · rename_i s' hs
        rw [List.foldl_append]
        have := mon_step (m := m) strict hi hv hs hr hc
        exact mon_run strict es s' _ (invO_step hi hv hok hs) (inv_step hv hs) this.1 this.2
      · simpa using hc
    · simpa using hc

end Conduit.SrcAck
