import ConduitModel.Proofs.SrcAck

/-!
Position-level invariant of M3 under the engine-side read-order hypothesis (`runO`): what is
stored / snapshotted / delivered, compared by read index, and the set of handled records.
-/
namespace Conduit.SrcAck

/-- every record at or before `x` has been handed to `Source.Ack` at some time -/
def Cov (s : St) (x : Stored) : Prop := ∀ r : Nat, 1 ≤ r → r ≤ x.posN → r ∈ s.handled

structure InvO (s : St) : Prop where
  covInst : Cov s s.inst
  covStore : Cov s s.store
  covGens : ∀ (i : Nat) g, s.gens[i]? = some g → Cov s g.snap
  covOpened : ∀ o ∈ s.opened, ∀ r : Nat, 1 ≤ r → r ≤ o.getD 0 → r ∈ s.handled
  psInst : PosSome s.inst
  psStore : PosSome s.store
  psGens : ∀ (i : Nat) g, s.gens[i]? = some g → PosSome g.snap
  storePosLe : s.store.posN ≤ s.inst.posN
  gensPosLe : ∀ (i : Nat) g, s.gens[i]? = some g → g.snap.posN ≤ s.inst.posN
  gensOkPos : ∀ (i : Nat) g, s.gens[i]? = some g → g.stat = .ok → g.snap.posN ≤ s.store.posN
  gensWrPos : ∀ (i : Nat) g, s.gens[i]? = some g → g.stat = .writing → s.store.posN ≤ g.snap.posN
  outPos : ∀ a, a ∈ s.deferred ∨ a ∈ s.delivered → ∀ p : Nat, p ∈ a.ps → p ≤ s.store.posN
  pendInst : ∀ a ∈ s.pending, ∀ p : Nat, p ∈ a.ps → p ≤ s.inst.posN
  pendStore : ∀ a ∈ s.pending, a.seq ≤ s.store.seq → ∀ p : Nat, p ∈ a.ps → p ≤ s.store.posN
  pendGens : ∀ a ∈ s.pending, ∀ (i : Nat) g, s.gens[i]? = some g → a.seq ≤ g.snap.seq → ∀ p : Nat, p ∈ a.ps → p ≤ g.snap.posN
  commitsPos : ∀ x ∈ s.commits, x.posN ≤ s.store.posN
  commitsPosSorted : s.commits.Pairwise (fun a b => a.posN ≤ b.posN)
  openedLast : s.alive = true → s.opened.getLast? = some s.inst.pos ∨ s.fresh = false
  ackedPos : ∀ a ∈ s.ackedI, ∀ p : Nat, p ∈ a.ps → 1 ≤ p

theorem invO_init : InvO init := by
  constructor <;> simp [init, Cov, PosSome, Stored.posN] <;> omega

macro "frameO " hi:ident : tactic =>
  `(tactic| exact ⟨($hi).covInst, ($hi).covStore, ($hi).covGens, ($hi).covOpened, ($hi).psInst, ($hi).psStore,
      ($hi).psGens, ($hi).storePosLe, ($hi).gensPosLe, ($hi).gensOkPos, ($hi).gensWrPos, ($hi).outPos,
      ($hi).pendInst, ($hi).pendStore, ($hi).pendGens, ($hi).commitsPos, ($hi).commitsPosSorted,
      ($hi).openedLast, ($hi).ackedPos⟩)

theorem getElem?_snoc_cases {α} {l : List α} {x y : α} {i : Nat} (h : (l ++ [x])[i]? = some y) :
    l[i]? = some y ∨ (y = x ∧ i = l.length) := by
  rw [List.getElem?_append] at h
  split at h
  · exact Or.inl h
  · rename_i hlt
    cases hh : i - l.length with
    | zero =>
      rw [hh] at h
      simp only [List.getElem?_cons_zero, Option.some.injEq] at h
      exact Or.inr ⟨h.symm, by omega⟩
    | succ n => rw [hh] at h; simp at h

theorem getElem?_set_cases {α} {l : List α} {x y : α} {i j : Nat} (h : (l.set i x)[j]? = some y) :
    (j ≠ i ∧ l[j]? = some y) ∨ (j = i ∧ y = x) := by
  rw [List.getElem?_set] at h
  split at h
  · rename_i heq
    split at h
    · simp only [Option.some.injEq] at h; exact Or.inr ⟨heq.symm, h.symm⟩
    · simp at h
  · rename_i hne
    exact Or.inl ⟨fun hh => hne hh.symm, h⟩

/-- `persist`: only the batch changes (and `fresh`) -/
theorem invO_persist {c : Cfg} {s : St} (hi : InvO s) (cb : Option Nat) : InvO (persist c s cb) := by
  refine ⟨hi.covInst, hi.covStore, hi.covGens, hi.covOpened, hi.psInst, hi.psStore,
      hi.psGens, hi.storePosLe, hi.gensPosLe, hi.gensOkPos, hi.gensWrPos, hi.outPos,
      hi.pendInst, hi.pendStore, hi.pendGens, hi.commitsPos, hi.commitsPosSorted, ?_, hi.ackedPos⟩
  intro _; right; rfl

theorem invO_doTrigger {s : St} (hi : InvO s) (hv : Inv s) (b : Stored × Option Nat) (hb : s.batch = some b) :
    InvO (doTrigger s b) := by
  have hbe := (hv.batchEq b hb).1
  refine ⟨hi.covInst, hi.covStore, ?_, hi.covOpened, hi.psInst, hi.psStore,
      ?_, hi.storePosLe, ?_, ?_, ?_, hi.outPos,
      hi.pendInst, hi.pendStore, ?_, hi.commitsPos, hi.commitsPosSorted, hi.openedLast, hi.ackedPos⟩
  · intro i g hg
    rcases getElem?_snoc_cases hg with h | ⟨h, _⟩
    · exact hi.covGens i g h
    · subst h; simp only; rw [hbe]; exact hi.covInst
  · intro i g hg
    rcases getElem?_snoc_cases hg with h | ⟨h, _⟩
    · exact hi.psGens i g h
    · subst h; simp only; rw [hbe]; exact hi.psInst
  · intro i g hg
    rcases getElem?_snoc_cases hg with h | ⟨h, _⟩
    · exact hi.gensPosLe i g h
    · subst h; simp only; rw [hbe]; exact Nat.le_refl _
  · intro i g hg hs
    rcases getElem?_snoc_cases hg with h | ⟨h, _⟩
    · exact hi.gensOkPos i g h hs
    · subst h; simp at hs
  · intro i g hg hs
    rcases getElem?_snoc_cases hg with h | ⟨h, _⟩
    · exact hi.gensWrPos i g h hs
    · subst h; simp only; rw [hbe]; exact hi.storePosLe
  · intro a ha i g hg hle
    rcases getElem?_snoc_cases hg with h | ⟨h, _⟩
    · exact hi.pendGens a ha i g h hle
    · subst h; simp only; rw [hbe]; exact hi.pendInst a ha

theorem invO_setGen {s : St} (hi : InvO s) (i : Nat) (g g' : Gen) (hg : s.gens[i]? = some g)
    (hsnap : g'.snap = g.snap)
    (hok : g'.stat = .ok → g.stat = .ok) (hwr : g'.stat = .writing → g.stat = .writing) :
    InvO (setGen s i g') := by
  refine ⟨hi.covInst, hi.covStore, ?_, hi.covOpened, hi.psInst, hi.psStore,
      ?_, hi.storePosLe, ?_, ?_, ?_, hi.outPos,
      hi.pendInst, hi.pendStore, ?_, hi.commitsPos, hi.commitsPosSorted, hi.openedLast, hi.ackedPos⟩
  · intro j h hj
    rcases getElem?_set_cases hj with ⟨_, h1⟩ | ⟨h1, h2⟩
    · exact hi.covGens j h h1
    · rw [h2, hsnap]; exact hi.covGens _ g hg
  · intro j h hj
    rcases getElem?_set_cases hj with ⟨_, h1⟩ | ⟨h1, h2⟩
    · exact hi.psGens j h h1
    · rw [h2, hsnap]; exact hi.psGens _ g hg
  · intro j h hj
    rcases getElem?_set_cases hj with ⟨_, h1⟩ | ⟨h1, h2⟩
    · exact hi.gensPosLe j h h1
    · rw [h2, hsnap]; exact hi.gensPosLe _ g hg
  · intro j h hj hs
    rcases getElem?_set_cases hj with ⟨_, h1⟩ | ⟨h1, h2⟩
    · exact hi.gensOkPos j h h1 hs
    · rw [h2] at hs ⊢; rw [hsnap]; exact hi.gensOkPos _ g hg (hok hs)
  · intro j h hj hs
    rcases getElem?_set_cases hj with ⟨_, h1⟩ | ⟨h1, h2⟩
    · exact hi.gensWrPos j h h1 hs
    · rw [h2] at hs ⊢; rw [hsnap]; exact hi.gensWrPos _ g hg (hwr hs)
  · intro a ha j h hj hle
    rcases getElem?_set_cases hj with ⟨_, h1⟩ | ⟨h1, h2⟩
    · exact hi.pendGens a ha j h h1 hle
    · rw [h2] at hle ⊢; rw [hsnap] at hle ⊢; exact hi.pendGens a ha _ g hg hle

theorem ackOk_spec {s : St} {ps : List Pos} (h : ackOk s ps = true) :
    ps ≠ [] ∧ (∀ p : Nat, p ∈ ps ↔ s.inst.posN + 1 ≤ p ∧ p < s.inst.posN + 1 + ps.length) ∧
    ps.getLast? = some (s.inst.posN + ps.length) := by
  simp only [ackOk, Bool.and_eq_true, bne_iff_ne, ne_eq, beq_iff_eq] at h
  obtain ⟨hne, heq⟩ := h
  refine ⟨hne, ?_, ?_⟩
  · intro p
    conv => lhs; rw [heq]
    rw [List.mem_range'_1]
  · have hl : 0 < ps.length := List.length_pos_iff.mpr hne
    rw [List.getLast?_eq_getElem?]
    conv => lhs; rw [heq]
    rw [List.getElem?_range']
    · simp only [List.length_range']
      congr 1; omega
    · simp only [List.length_range']; omega

theorem invO_ack {c : Cfg} {s : St} (hi : InvO s) (hv : Inv s) (ps : List Pos) (last : Pos)
    (hok : ackOk s ps = true) (hl : ps.getLast? = some last) :
    InvO (persist c { s with nextSeq := s.nextSeq + 1, inst := ⟨s.nextSeq + 1, some last⟩,
                              pending := s.pending ++ [⟨s.nextSeq + 1, ps⟩],
                              ackedI := s.ackedI ++ [⟨s.nextSeq + 1, ps⟩],
                              handled := s.handled ++ ps } (some (s.nextSeq + 1))) := by
  obtain ⟨hne, hmem, hlast⟩ := ackOk_spec hok
  have hle : last = s.inst.posN + ps.length := by rw [hl] at hlast; exact Option.some.inj hlast
  have h1 := hv.instLe
  have h2 := hv.storeLe
  have hnew : Stored.posN ⟨s.nextSeq + 1, some last⟩ = s.inst.posN + ps.length := by
    simp [Stored.posN, hle]
  have hmono : ∀ x, Cov s x → ∀ r : Nat, 1 ≤ r → r ≤ x.posN → r ∈ s.handled ++ ps :=
    fun x hx r h1 h2 => List.mem_append_left _ (hx r h1 h2)
  refine ⟨?_, hmono _ hi.covStore, fun i g hg => hmono _ (hi.covGens i g hg), ?_, ?_, hi.psStore,
      hi.psGens, ?_, ?_, hi.gensOkPos, hi.gensWrPos, hi.outPos,
      ?_, ?_, ?_, hi.commitsPos, hi.commitsPosSorted, ?_, ?_⟩
  · intro r hr1 hr2
    show r ∈ s.handled ++ ps
    replace hr2 : r ≤ Stored.posN ⟨s.nextSeq + 1, some last⟩ := hr2
    rw [hnew] at hr2
    by_cases hh : r ≤ s.inst.posN
    · exact List.mem_append_left _ (hi.covInst r hr1 hh)
    · apply List.mem_append_right; rw [hmem]; omega
  · intro o ho r hr1 hr2
    exact List.mem_append_left _ (hi.covOpened o ho r hr1 hr2)
  · show PosSome ⟨s.nextSeq + 1, some last⟩
    simp [PosSome]
  · show s.store.posN ≤ Stored.posN ⟨s.nextSeq + 1, some last⟩
    have := hi.storePosLe
    rw [hnew]; omega
  · intro i g hg
    show g.snap.posN ≤ Stored.posN ⟨s.nextSeq + 1, some last⟩
    have := hi.gensPosLe i g hg
    rw [hnew]; omega
  · intro a ha p hp
    show p ≤ Stored.posN ⟨s.nextSeq + 1, some last⟩
    rw [hnew]
    simp only [persist, List.mem_append, List.mem_singleton] at ha
    rcases ha with ha | ha
    · have := hi.pendInst a ha p hp
      omega
    · subst ha
      have := (hmem p).mp hp
      omega
  · intro a ha hseq p hp
    simp only [persist, List.mem_append, List.mem_singleton] at ha
    rcases ha with ha | ha
    · exact hi.pendStore a ha hseq p hp
    · subst ha
      have : s.nextSeq + 1 ≤ s.store.seq := hseq
      omega
  · intro a ha i g hg hseq p hp
    simp only [persist, List.mem_append, List.mem_singleton] at ha
    rcases ha with ha | ha
    · exact hi.pendGens a ha i g hg hseq p hp
    · subst ha
      have : s.nextSeq + 1 ≤ g.snap.seq := hseq
      have := (hv.gensSnap i g hg).1
      omega
  · intro _; right; rfl
  · intro a ha p hp
    simp only [persist, List.mem_append, List.mem_singleton] at ha
    rcases ha with ha | ha
    · exact hi.ackedPos a ha p hp
    · subst ha
      have := (hmem p).mp hp
      omega

theorem invO_commit {s : St} (hi : InvO s) (hv : Inv s) (g : Gen) (hg : s.gens[s.gens.length - 1]? = some g)
    (hw : g.stat = .writing) :
    InvO { setGen s (s.gens.length - 1) { g with stat := .ok } with store := g.snap, commits := s.commits ++ [g.snap] } := by
  have hwr := hi.gensWrPos _ g hg hw
  have hidx := (hv.gensWr _ g hg hw).2
  refine ⟨hi.covInst, hi.covGens _ g hg, ?_, hi.covOpened, hi.psInst, hi.psGens _ g hg,
      ?_, hi.gensPosLe _ g hg, ?_, ?_, ?_, ?_,
      hi.pendInst, ?_, ?_, ?_, ?_, hi.openedLast, hi.ackedPos⟩
  · intro j h hj
    rcases getElem?_set_cases hj with ⟨_, h1⟩ | ⟨h1, h2⟩
    · exact hi.covGens j h h1
    · rw [h2]; exact hi.covGens _ g hg
  · intro j h hj
    rcases getElem?_set_cases hj with ⟨_, h1⟩ | ⟨h1, h2⟩
    · exact hi.psGens j h h1
    · rw [h2]; exact hi.psGens _ g hg
  · intro j h hj
    rcases getElem?_set_cases hj with ⟨_, h1⟩ | ⟨h1, h2⟩
    · exact hi.gensPosLe j h h1
    · rw [h2]; exact hi.gensPosLe _ g hg
  · intro j h hj hs
    rcases getElem?_set_cases hj with ⟨_, h1⟩ | ⟨h1, h2⟩
    · exact Nat.le_trans (hi.gensOkPos j h h1 hs) hwr
    · rw [h2]; exact Nat.le_refl _
  · intro j h hj hs
    rcases getElem?_set_cases hj with ⟨hne, h1⟩ | ⟨h1, h2⟩
    · have := (hv.gensWr j h h1 hs).2
      omega
    · rw [h2] at hs; simp at hs
  · intro a ha p hp
    exact Nat.le_trans (hi.outPos a ha p hp) hwr
  · intro a ha hseq p hp
    exact hi.pendGens a ha _ g hg hseq p hp
  · intro a ha j h hj hle
    rcases getElem?_set_cases hj with ⟨_, h1⟩ | ⟨h1, h2⟩
    · exact hi.pendGens a ha j h h1 hle
    · rw [h2] at hle ⊢; exact hi.pendGens a ha _ g hg hle
  · intro x hx
    simp only [List.mem_append, List.mem_singleton] at hx
    rcases hx with hx | hx
    · exact Nat.le_trans (hi.commitsPos x hx) hwr
    · subst hx; exact Nat.le_refl _
  · show (s.commits ++ [g.snap]).Pairwise _
    rw [List.pairwise_append]
    refine ⟨hi.commitsPosSorted, List.pairwise_singleton _ _, ?_⟩
    intro x hx y hy
    simp only [List.mem_singleton] at hy; subst hy
    exact Nat.le_trans (hi.commitsPos x hx) hwr

theorem invO_onFlushedOk {s : St} (hi : InvO s) (hv : Inv s) (i : Nat) (g : Gen) (hg : s.gens[i]? = some g)
    (hst : g.stat = .ok) : InvO (onFlushedOk s g.snap.seq) := by
  generalize hdd : (if g.snap.seq > s.durable then g.snap.seq else s.durable) = d
  have hnew : ∀ a ∈ (drain d s.pending).1, ∀ p : Nat, p ∈ a.ps → p ≤ s.store.posN := by
    intro a ha p hp
    have hle := drain_fst_le d _ a ha
    have hin := drain_fst_sub d _ a ha
    by_cases hq : a.seq ≤ g.snap.seq
    · exact Nat.le_trans (hi.pendGens a hin i g hg hq p hp) (hi.gensOkPos i g hg hst)
    · have : a.seq ≤ s.durable := by
        rw [← hdd] at hle; split at hle <;> omega
      exact hi.pendStore a hin (Nat.le_trans this hv.durLe) p hp
  unfold onFlushedOk
  simp only [hdd]
  have hsub := drain_snd_sub d s.pending
  by_cases hc : s.closed = true
  · simp only [hc, if_true]
    exact ⟨hi.covInst, hi.covStore, hi.covGens, hi.covOpened, hi.psInst, hi.psStore,
      hi.psGens, hi.storePosLe, hi.gensPosLe, hi.gensOkPos, hi.gensWrPos, hi.outPos,
      fun a ha => hi.pendInst a (hsub a ha), fun a ha => hi.pendStore a (hsub a ha),
      fun a ha => hi.pendGens a (hsub a ha), hi.commitsPos, hi.commitsPosSorted, hi.openedLast, hi.ackedPos⟩
  · simp only [hc, Bool.false_eq_true, if_false]
    refine ⟨hi.covInst, hi.covStore, hi.covGens, hi.covOpened, hi.psInst, hi.psStore,
      hi.psGens, hi.storePosLe, hi.gensPosLe, hi.gensOkPos, hi.gensWrPos, ?_,
      fun a ha => hi.pendInst a (hsub a ha), fun a ha => hi.pendStore a (hsub a ha),
      fun a ha => hi.pendGens a (hsub a ha), hi.commitsPos, hi.commitsPosSorted, hi.openedLast, hi.ackedPos⟩
    intro a ha p hp
    simp only [List.mem_append] at ha
    rcases ha with (ha | ha) | ha
    · exact hi.outPos a (Or.inl ha) p hp
    · exact hnew a ha p hp
    · exact hi.outPos a (Or.inr ha) p hp

theorem invO_dropHead {c : Cfg} {s : St} (hi : InvO s) (a : AckRec) (rest : List AckRec) (hd : s.deferred = a :: rest) :
    InvO (dropHead c s a rest) := by
  refine ⟨hi.covInst, hi.covStore, hi.covGens, hi.covOpened, hi.psInst, hi.psStore,
      hi.psGens, hi.storePosLe, hi.gensPosLe, hi.gensOkPos, hi.gensWrPos, ?_,
      hi.pendInst, hi.pendStore, hi.pendGens, hi.commitsPos, hi.commitsPosSorted, hi.openedLast, hi.ackedPos⟩
  intro x hx
  apply hi.outPos
  rcases hx with hx | hx
  · left; rw [hd]; exact List.mem_cons_of_mem _ hx
  · exact Or.inr hx

theorem invO_deliverOk {s : St} (hi : InvO s) (a : AckRec) (rest : List AckRec) (hd : s.deferred = a :: rest) :
    InvO { s with deferred := rest, delivered := s.delivered ++ [a], deliveredI := s.deliveredI ++ [a], attempt := 0 } := by
  refine ⟨hi.covInst, hi.covStore, hi.covGens, hi.covOpened, hi.psInst, hi.psStore,
      hi.psGens, hi.storePosLe, hi.gensPosLe, hi.gensOkPos, hi.gensWrPos, ?_,
      hi.pendInst, hi.pendStore, hi.pendGens, hi.commitsPos, hi.commitsPosSorted, hi.openedLast, hi.ackedPos⟩
  intro x hx
  apply hi.outPos
  simp only [List.mem_append, List.mem_singleton] at hx
  rcases hx with hx | hx | hx
  · left; rw [hd]; exact List.mem_cons_of_mem _ hx
  · exact Or.inr hx
  · subst hx; left; rw [hd]; exact List.mem_cons_self ..

theorem invO_restart {s : St} (hi : InvO s) :
    InvO { init with nextSeq := s.nextSeq, inst := s.store, store := s.store,
                     handled := s.handled, delivered := s.delivered,
                     commits := s.commits, opened := s.opened ++ [s.store.pos], teardowns := 0 } := by
  refine ⟨hi.covStore, hi.covStore, ?_, ?_, hi.psStore, hi.psStore,
      ?_, Nat.le_refl _, ?_, ?_, ?_, ?_,
      ?_, ?_, ?_, hi.commitsPos, hi.commitsPosSorted, ?_, ?_⟩
  · intro i g hg; simp [init] at hg
  · intro o ho r hr1 hr2
    simp only [List.mem_append, List.mem_singleton] at ho
    rcases ho with ho | ho
    · exact hi.covOpened o ho r hr1 hr2
    · subst ho; exact hi.covStore r hr1 hr2
  · intro i g hg; simp [init] at hg
  · intro i g hg; simp [init] at hg
  · intro i g hg; simp [init] at hg
  · intro i g hg; simp [init] at hg
  · intro a ha p hp
    simp only [init, List.not_mem_nil, false_or] at ha
    exact hi.outPos a (Or.inr ha) p hp
  · intro a ha; simp [init] at ha
  · intro a ha; simp [init] at ha
  · intro a ha; simp [init] at ha
  · intro _; left; simp
  · intro a ha; simp [init] at ha

theorem invO_step {c : Cfg} {s s' : St} {e : Ev} (hi : InvO s) (hv : Inv s) (hok : evOk s e = true)
    (h : step c s e = some s') : InvO s' := by
  cases e with
  | openPersist =>
    simp only [step] at h
    split at h
    · injection h with h; subst h; exact invO_persist hi none
    · simp at h
  | ack ps =>
    simp only [step] at h
    split at h
    · split at h
      · injection h with h; subst h
        refine ⟨hi.covInst, hi.covStore, hi.covGens, hi.covOpened, hi.psInst, hi.psStore,
          hi.psGens, hi.storePosLe, hi.gensPosLe, hi.gensOkPos, hi.gensWrPos, hi.outPos,
          hi.pendInst, hi.pendStore, hi.pendGens, hi.commitsPos, hi.commitsPosSorted, ?_, hi.ackedPos⟩
        intro hh; simp at hh
      · rename_i last hl
        injection h with h; subst h; exact invO_ack hi hv ps last hok hl
    · simp at h
  | trigger =>
    simp only [step] at h
    split at h
    · rename_i b hb
      split at h
      · injection h with h; subst h; exact invO_doTrigger hi hv b hb
      · simp at h
    · simp at h
  | flushRes r =>
    simp only [step] at h
    split at h
    · rename_i g hg
      rw [getLast?_eq_idx] at hg
      split at h
      · rename_i hc
        cases r with
        | ok => simp only at h; injection h with h; subst h; exact invO_commit hi hv g hg hc.2
        | setFail =>
          simp only at h; injection h with h; subst h
          exact invO_setGen hi _ g _ hg rfl (by simp) (by simp)
        | commitFail =>
          simp only at h; injection h with h; subst h
          exact invO_setGen hi _ g _ hg rfl (by simp) (by simp)
        | txFail =>
          simp only at h; injection h with h; subst h
          refine invO_setGen hi _ g _ hg rfl ?_ ?_
          · intro h; simp only at h; split at h <;> simp at h
          · intro h; simp only at h; split at h <;> simp at h
      · simp at h
    · simp at h
  | callback i =>
    simp only [step] at h
    split at h
    · rename_i g hg
      split at h
      · rename_i hc
        split at h
        · rename_i hst
          have hs1 : Inv (setGen s i { g with cbSt := .done }) :=
            inv_setGen hv i g _ hg rfl rfl (by simp) (by simp)
          have hs1O : InvO (setGen s i { g with cbSt := .done }) :=
            invO_setGen hi i g _ hg rfl (by simp) (by simp)
          split at h
          · rename_i seq hcb
            injection h with h; subst h
            have hq := (hv.gensSnap i g hg).2 seq hcb
            have hg' : (setGen s i { g with cbSt := .done }).gens[i]? = some { g with cbSt := .done } := by
              have hlt : i < s.gens.length := by
                rcases Nat.lt_or_ge i s.gens.length with h | h
                · exact h
                · rw [List.getElem?_eq_none h] at hg; simp at hg
              simp [setGen, hlt]
            rw [hq]
            exact invO_onFlushedOk hs1O hs1 i { g with cbSt := .done } hg' hst
          · injection h with h; subst h; exact hs1O
        · injection h with h; subst h
          exact invO_setGen hi i g _ hg rfl (by simp) (by simp)
        · simp at h
      · simp at h
    · simp at h
  | errReadP i =>
    simp only [step] at h
    split at h
    · rename_i g hg
      split at h
      · injection h with h; subst h
        exact invO_setGen hi i g _ hg rfl (by simp) (by simp)
      · simp at h
    · simp at h
  | deliver ok =>
    simp only [step] at h
    split at h
    · rename_i a rest hd
      split at h
      · split at h
        · split at h
          · simp at h
          · injection h with h; subst h; exact invO_deliverOk hi a rest hd
        · split at h
          · injection h with h; subst h; exact invO_dropHead hi a rest hd
          · split at h
            · injection h with h; subst h
              have := invO_dropHead (c := c) hi a rest hd
              frameO this
            · injection h with h; subst h; frameO hi
      · simp at h
    · simp at h
  | backoffAbort =>
    simp only [step] at h
    split at h
    · rename_i a rest hd
      split at h
      · injection h with h; subst h; exact invO_dropHead hi a rest hd
      · simp at h
    · simp at h
  | discard =>
    simp only [step] at h
    split at h
    · rename_i a rest hd
      split at h
      · injection h with h; subst h; exact invO_dropHead hi a rest hd
      · simp at h
    · simp at h
  | errReadS =>
    simp only [step] at h
    split at h
    · injection h with h; subst h; frameO hi
    · simp at h
  | dgExit =>
    simp only [step] at h
    split at h
    · injection h with h; subst h; frameO hi
    · simp at h
  | tdBegin =>
    simp only [step] at h
    split at h
    · injection h with h; subst h; frameO hi
    · simp at h
  | tdFlush =>
    simp only [step] at h
    split at h
    · split at h
      · injection h with h; subst h; frameO hi
      · rename_i b hb
        split at h
        · injection h with h; subst h
          have := invO_doTrigger hi hv b hb
          frameO this
        · simp at h
    · simp at h
  | tdSnap =>
    simp only [step] at h
    split at h
    · injection h with h; subst h; frameO hi
    · simp at h
  | tdWaited t =>
    simp only [step] at h
    split at h
    · split at h
      · split at h
        · injection h with h; subst h; frameO hi
        · split at h
          · injection h with h; subst h; frameO hi
          · split at h
            · split at h
              · injection h with h; subst h; frameO hi
              · simp at h
            · simp at h
      · simp at h
    · simp at h
  | closeQueue =>
    simp only [step] at h
    split at h
    · injection h with h; subst h; frameO hi
    · simp at h
  | tdDrained t =>
    simp only [step] at h
    split at h
    · injection h with h; subst h; frameO hi
    · simp at h
  | stopStream =>
    simp only [step] at h
    split at h
    · injection h with h; subst h; frameO hi
    · simp at h
  | join =>
    simp only [step] at h
    split at h
    · injection h with h; subst h; frameO hi
    · simp at h
  | pluginTeardown ok =>
    simp only [step] at h
    split at h
    · split at h
      · injection h with h; subst h; frameO hi
      · rename_i b hb
        split at h
        · injection h with h; subst h
          have h1 : InvO { s with pluginUp := false, teardowns := s.teardowns + 1, td := Td.done ok } := by frameO hi
          have h2 : Inv { s with pluginUp := false, teardowns := s.teardowns + 1, td := Td.done ok } := by frame hv
          exact invO_doTrigger h1 h2 b hb
        · simp at h
    · simp at h
  | waitPersisted =>
    simp only [step] at h
    split at h
    · split at h
      · injection h with h; subst h; frameO hi
      · split at h
        · injection h with h; subst h; frameO hi
        · simp at h
    · simp at h
  | crash =>
    simp only [step] at h
    split at h
    · injection h with h; subst h
      refine ⟨hi.covInst, hi.covStore, hi.covGens, hi.covOpened, hi.psInst, hi.psStore,
          hi.psGens, hi.storePosLe, hi.gensPosLe, hi.gensOkPos, hi.gensWrPos, hi.outPos,
          hi.pendInst, hi.pendStore, hi.pendGens, hi.commitsPos, hi.commitsPosSorted, ?_, hi.ackedPos⟩
      intro hh; simp at hh
    · simp at h
  | restart =>
    simp only [step] at h
    split at h
    · injection h with h; subst h; exact invO_restart hi
    · simp at h

theorem invO_run {c : Cfg} : ∀ (evs : List Ev) (s s' : St), InvO s → Inv s → runO c s evs = some s' → InvO s' ∧ Inv s'
  | [], s, s', hi, hv, h => by simp only [runO, Option.some.injEq] at h; subst h; exact ⟨hi, hv⟩
  | e :: es, s, s', hi, hv, h => by
    simp only [runO] at h
    split at h
    · rename_i hok
      split at h
      · rename_i s1 hs1
        exact invO_run es s1 s' (invO_step hi hv hok hs1) (inv_step hv hs1) h
      · simp at h
    · simp at h

theorem invO_reach {c : Cfg} {s : St} (h : ReachO c s) : InvO s ∧ Inv s := by
  obtain ⟨evs, h⟩ := h
  exact invO_run evs _ _ invO_init inv_init h

/-- a hypothesis-respecting run is a run -/
theorem runO_run {c : Cfg} : ∀ (evs : List Ev) (s s' : St), runO c s evs = some s' → run c s evs = some s'
  | [], s, s', h => by simpa [runO, run] using h
  | e :: es, s, s', h => by
    simp only [runO] at h
    split at h
    · split at h
      · rename_i s1 hs1
        simp only [run, hs1]
        exact runO_run es s1 s' h
      · simp at h
    · simp at h

theorem ReachO.reach {c : Cfg} {s : St} (h : ReachO c s) : Reach c s := by
  obtain ⟨evs, h⟩ := h
  exact ⟨evs, runO_run evs _ _ h⟩

end Conduit.SrcAck
