import ConduitModel.Proofs.SrcAckHealthy

/-!
Progress of a graceful stop in M3 (C06 "the stop always completes while plugins and store
respond"): in every state of a healthy run in which `Source.Teardown` has begun and not yet
returned, some event that satisfies the C06 hypotheses (no timeout, no failure) is enabled and
strictly decreases the variant `V` — so under weak fairness Teardown returns.
-/
namespace Conduit.SrcAck

/-! ### two more invariants of every run -/

/-- a pending threshold flush has a batch to take; a callback only ever blocks on `errs` for a
failed generation -/
structure InvC (s : St) : Prop where
  mustB : s.mustTrigger = true → s.batch ≠ none
  blockedF : ∀ (i : Nat) g, s.gens[i]? = some g → g.cbSt = .blocked → g.stat = .failed

theorem invC_init : InvC init := by
  constructor <;> simp [init]

theorem invC_snoc {s : St} (hi : InvC s) (x : Gen) (hx : x.cbSt = .notRun) :
    ∀ (i : Nat) g, (s.gens ++ [x])[i]? = some g → g.cbSt = .blocked → g.stat = .failed := by
  intro i g hg hb
  rcases getElem?_snoc_cases hg with h | ⟨h, _⟩
  · exact hi.blockedF i g h hb
  · subst h; rw [hx] at hb; simp at hb

theorem invC_set {s : St} (hi : InvC s) (i : Nat) (g' : Gen) (hg' : g'.cbSt = .blocked → g'.stat = .failed) :
    ∀ (j : Nat) g, (s.gens.set i g')[j]? = some g → g.cbSt = .blocked → g.stat = .failed := by
  intro j g hg hb
  rcases getElem?_set_cases hg with ⟨_, h⟩ | ⟨_, h⟩
  · exact hi.blockedF j g h hb
  · rw [h] at hb ⊢; exact hg' hb

theorem invC_step {c : Cfg} {s s' : St} {e : Ev} (hi : InvC s) (hb : InvB s) (h : step c s e = some s') : InvC s' := by
  have ⟨c1, c2⟩ := hi
  cases e with
  | flushRes r =>
    simp only [step] at h
    split at h
    · rename_i g hg
      rw [getLast?_eq_idx] at hg
      split at h
      · rename_i hc
        have hnr := hb.wrNotRun _ g hg hc.2
        cases r <;> (simp only at h; injection h with h; subst h) <;>
          exact ⟨c1, invC_set hi _ _ (by intro hbk; simp [hnr] at hbk)⟩
      · simp at h
    · simp at h
  | callback i =>
    simp only [step] at h
    split at h
    · rename_i g hg
      split at h
      · split at h
        · split at h
          · injection h with h; subst h
            have e1 : ∀ q, (onFlushedOk (setGen s i { g with cbSt := .done }) q).gens = s.gens.set i { g with cbSt := .done } := by
              intro q; exact (onFlushedOk_proj _ q).1
            have e2 : ∀ q, (onFlushedOk (setGen s i { g with cbSt := .done }) q).batch = s.batch := by
              intro q; exact (onFlushedOk_proj _ q).2.1
            have e3 : ∀ q, (onFlushedOk (setGen s i { g with cbSt := .done }) q).mustTrigger = s.mustTrigger := by
              intro q; by_cases hcl : s.closed = true <;> simp [onFlushedOk, setGen, hcl]
            exact ⟨by rw [e3, e2]; exact c1, by rw [e1]; exact invC_set hi _ _ (by intro hbk; simp at hbk)⟩
          · injection h with h; subst h
            exact ⟨c1, invC_set hi _ _ (by intro hbk; simp at hbk)⟩
        · rename_i hst
          injection h with h; subst h
          exact ⟨c1, invC_set hi _ _ (by intro _; exact hst)⟩
        · simp at h
      · simp at h
    · simp at h
  | errReadP i =>
    simp only [step] at h
    split at h
    · split at h
      · injection h with h; subst h
        exact ⟨c1, invC_set hi _ _ (by intro hbk; simp at hbk)⟩
      · simp at h
    · simp at h
  | trigger =>
    simp only [step] at h
    split at h
    · split at h
      · injection h with h; subst h
        exact ⟨by intro hm; simp [doTrigger] at hm, invC_snoc hi _ rfl⟩
      · simp at h
    · simp at h
  | tdFlush =>
    simp only [step] at h
    split at h
    · split at h
      · injection h with h; subst h; exact ⟨c1, c2⟩
      · split at h
        · injection h with h; subst h
          exact ⟨by intro hm; simp [doTrigger] at hm, invC_snoc hi _ rfl⟩
        · simp at h
    · simp at h
  | pluginTeardown ok =>
    simp only [step] at h
    split at h
    · split at h
      · injection h with h; subst h; exact ⟨c1, c2⟩
      · split at h
        · injection h with h; subst h
          exact ⟨by intro hm; simp [doTrigger] at hm, invC_snoc (s := { s with pluginUp := false, teardowns := s.teardowns + 1, td := Td.done ok }) ⟨c1, c2⟩ _ rfl⟩
        · simp at h
    · simp at h
  | openPersist =>
    simp only [step] at h
    split at h
    · injection h with h; subst h; exact ⟨by intro _; simp [persist], c2⟩
    · simp at h
  | ack ps =>
    simp only [step] at h
    split at h
    · split at h
      · injection h with h; subst h; exact ⟨c1, c2⟩
      · injection h with h; subst h; exact ⟨by intro _; simp [persist], c2⟩
    · simp at h
  | restart =>
    simp only [step] at h
    split at h
    · injection h with h; subst h; exact ⟨by simp [init], by simp [init]⟩
    · simp at h
  | _ =>
    simp only [step] at h
    (repeat' split at h) <;> first | (simp at h; done) | (injection h with h; subst h; exact ⟨c1, c2⟩)

/-! ### the variant -/

def b2n (b : Bool) : Nat := if b then 1 else 0

/-- the callback of the latest generation has not run yet -/
def lastNotRun (s : St) : Bool :=
  match s.gens.getLast? with
  | some g => g.cbSt == .notRun
  | none => false

/-- remaining statements of Teardown (weight 100 each), then: a batch still to be flushed, a write in
flight, the latest callback outstanding, acks awaiting durability / delivery, the delivery
goroutine still running -/
def V (s : St) : Nat :=
  100 * s.td.rank + 8 * b2n s.batch.isSome + 4 * b2n (!noWriting s) + 2 * b2n (lastNotRun s) +
  4 * s.pending.length + 3 * s.deferred.length + b2n (!s.dgDone)

theorem b2n_le (b : Bool) : b2n b ≤ 1 := by cases b <;> simp [b2n]

theorem noWriting_false {s : St} (h : noWriting s = false) (hv : Inv s) :
    ∃ g, s.gens.getLast? = some g ∧ g.stat = .writing := by
  have : ¬ ∀ (i : Nat) g, s.gens[i]? = some g → g.stat ≠ .writing := by
    intro hall
    have := (noWriting_iff s).mpr hall
    rw [h] at this; simp at this
  have : ∃ (i : Nat) (g : Gen), s.gens[i]? = some g ∧ g.stat = .writing := by
    apply Classical.byContradiction
    intro hne
    apply this
    intro i g hg hw
    exact hne ⟨i, g, hg, hw⟩
  obtain ⟨i, g, hg, hw⟩ := this
  have hidx := (hv.gensWr i g hg hw).2
  refine ⟨g, ?_, hw⟩
  rw [getLast?_eq_idx]
  have : s.gens.length - 1 = i := by omega
  rw [this]; exact hg

/-- committing the running generation leaves no generation writing -/
theorem noWriting_after_commit {s : St} (hv : Inv s) (g : Gen) (hg : s.gens.getLast? = some g) (x : Gen)
    (hx : x.stat ≠ .writing) : (s.gens.set (s.gens.length - 1) x).all (fun g => g.stat != .writing) = true := by
  rw [List.all_eq_true]
  intro y hy
  obtain ⟨j, hj, rfl⟩ := List.mem_iff_getElem.mp hy
  have hj' : (s.gens.set (s.gens.length - 1) x)[j]? = some (s.gens.set (s.gens.length - 1) x)[j] :=
    List.getElem?_eq_getElem hj
  rcases getElem?_set_cases hj' with ⟨hne, h1⟩ | ⟨_, h2⟩
  · have : (s.gens.set (s.gens.length - 1) x)[j].stat ≠ .writing := by
      intro hw
      have := (hv.gensWr j _ h1 hw).2
      omega
    simpa using this
  · rw [h2]; simpa using hx

theorem drain_length (d : Nat) (l : List AckRec) : (drain d l).1.length + (drain d l).2.length = l.length := by
  have := congrArg List.length (drain_append d l)
  simpa using this

/-- the variant as a function of the fields it reads -/
theorem V_eq {s t : St} (h1 : t.td = s.td) (h2 : t.batch = s.batch) (h3 : t.pending = s.pending)
    (h4 : t.deferred = s.deferred) (h5 : t.dgDone = s.dgDone) :
    V t = 100 * s.td.rank + 8 * b2n s.batch.isSome + 4 * b2n (!noWriting t) + 2 * b2n (lastNotRun t) +
      4 * s.pending.length + 3 * s.deferred.length + b2n (!s.dgDone) := by
  simp only [V, h1, h2, h3, h4, h5]

/-- a write is in flight: the store answers (successfully) and the variant drops -/
theorem prog_flush {c : Cfg} {s : St} (hv : Inv s) (hal : s.alive = true) (hw : noWriting s = false) :
    ∃ s', evHealthy c s (.flushRes .ok) = true ∧ step c s (.flushRes .ok) = some s' ∧ V s' < V s := by
  obtain ⟨g, hg, hgw⟩ := noWriting_false hw hv
  have hlen : s.gens.length ≠ 0 := by
    intro h0
    have : s.gens = [] := List.length_eq_zero_iff.mp h0
    rw [this] at hg; simp at hg
  -- the successor state, and what the variant reads of it
  have key : ∀ t : St, t = { setGen s (s.gens.length - 1) { g with stat := .ok } with
        store := g.snap, commits := s.commits ++ [g.snap] } → V t < V s := by
    intro t ht
    have hnw : noWriting t = true := by
      rw [ht]; exact noWriting_after_commit hv g hg _ (by simp)
    have hln : lastNotRun t = lastNotRun s := by
      rw [ht]
      simp only [lastNotRun, setGen]
      rw [getLast?_set, hg]
      have : s.gens.length - 1 + 1 = s.gens.length := by omega
      simp [this]
    rw [V_eq (s := s) (t := t) (by rw [ht]; rfl) (by rw [ht]; rfl) (by rw [ht]; rfl) (by rw [ht]; rfl) (by rw [ht]; rfl)]
    simp only [V, hnw, hln, hw]
    simp [b2n]
  exact ⟨_, by simp [evHealthy], by simp [step, hg, hal, hgw], key _ rfl⟩

theorem noWriting_congr {s t : St} (h : t.gens = s.gens) : noWriting t = noWriting s := by
  simp only [noWriting, h]

theorem lastNotRun_congr {s t : St} (h : t.gens = s.gens) : lastNotRun t = lastNotRun s := by
  simp only [lastNotRun, h]

/-- a statement of Teardown was executed and nothing the variant counts grew -/
theorem V_phase {s t : St} (hr : t.td.rank < s.td.rank) (h2 : t.batch = s.batch) (h3 : t.pending = s.pending)
    (h4 : t.deferred = s.deferred) (h5 : t.dgDone = s.dgDone) (h6 : t.gens = s.gens) : V t < V s := by
  simp only [V, h2, h3, h4, h5, noWriting_congr h6, lastNotRun_congr h6]
  omega

/-- `triggerFlush` took the batch (possibly as part of a Teardown statement that lowers the rank by `k`) -/
theorem V_trigger {s t : St} (b : Stored × Option Nat) (hb : s.batch = some b) (hr : t.td.rank ≤ s.td.rank)
    (h2 : t.batch = none) (h3 : t.pending = s.pending) (h4 : t.deferred = s.deferred) (h5 : t.dgDone = s.dgDone)
    (hnw : noWriting s = true) : V t < V s := by
  have a1 := b2n_le (!noWriting t)
  have a2 := b2n_le (lastNotRun t)
  simp only [V, hb, h2, h3, h4, h5, hnw]
  simp only [b2n, Option.isSome_some, Option.isSome_none, if_true, Bool.not_true, Bool.false_eq_true, if_false]
  simp only [b2n] at a1 a2
  omega

theorem set_all_stat {l : List Gen} {i : Nat} {g x : Gen} (hg : l[i]? = some g) (hx : x.stat = g.stat) :
    (l.set i x).all (fun g => g.stat != .writing) = l.all (fun g => g.stat != .writing) := by
  induction l generalizing i with
  | nil => simp
  | cons y ys ih =>
    cases i with
    | zero =>
      simp only [List.getElem?_cons_zero, Option.some.injEq] at hg
      subst hg
      simp [List.set, hx]
    | succ n =>
      simp only [List.getElem?_cons_succ] at hg
      simp only [List.set, List.all_cons, ih hg]

/-- the callback of the latest (committed) generation runs: its acks move on, the variant drops -/
theorem prog_callback {c : Cfg} {s : St} (ht : InvTd s) (hal : s.alive = true) (g : Gen)
    (hg : s.gens.getLast? = some g) (hst : g.stat = .ok) (hnr : g.cbSt = .notRun) (hcl : s.closed = false) :
    ∃ s', evHealthy c s (.callback (s.gens.length - 1)) = true ∧
      step c s (.callback (s.gens.length - 1)) = some s' ∧ V s' < V s := by
  have hgi : s.gens[s.gens.length - 1]? = some g := by rw [← getLast?_eq_idx]; exact hg
  have hlen : s.gens.length ≠ 0 := by
    intro h0
    have : s.gens = [] := List.length_eq_zero_iff.mp h0
    rw [this] at hg; simp at hg
  have hlast1 : s.gens.length - 1 + 1 = s.gens.length := by omega
  have hlnr : lastNotRun s = true := by simp [lastNotRun, hg, hnr]
  -- what the variant reads of a successor whose generations are `set last {g with done}`
  have key : ∀ t : St, t.td = s.td → t.batch = s.batch → t.dgDone = s.dgDone →
      t.gens = s.gens.set (s.gens.length - 1) { g with cbSt := .done } →
      4 * t.pending.length + 3 * t.deferred.length ≤ 4 * s.pending.length + 3 * s.deferred.length →
      V t < V s := by
    intro t h1 h2 h5 h6 hle
    have hnw : noWriting t = noWriting s := by
      simp only [noWriting, h6]
      exact set_all_stat hgi rfl
    have hln : lastNotRun t = false := by
      simp only [lastNotRun, h6]
      rw [getLast?_set]
      simp [hlast1]
    simp only [V, h1, h2, h5, hnw, hln, hlnr]
    simp only [b2n, if_true, Bool.false_eq_true, if_false]
    omega
  cases hcb : g.cb with
  | none =>
    refine ⟨setGen s (s.gens.length - 1) { g with cbSt := .done }, by simp [evHealthy],
      by simp [step, hgi, hal, hnr, hst, hcb], key _ rfl rfl rfl rfl (Nat.le_refl _)⟩
  | some q =>
    refine ⟨onFlushedOk (setGen s (s.gens.length - 1) { g with cbSt := .done }) q, by simp [evHealthy],
      by simp [step, hgi, hal, hnr, hst, hcb], ?_⟩
    have hd := drain_length (if q > s.durable then q else s.durable) s.pending
    apply key
    · simp [onFlushedOk, setGen, hcl]
    · simp [onFlushedOk, setGen, hcl]
    · simp [onFlushedOk, setGen, hcl]
    · simp [onFlushedOk, setGen, hcl]
    · simp only [onFlushedOk, setGen, hcl, Bool.false_eq_true, if_false, List.length_append]
      omega

/-- C06 progress: Teardown has begun and not returned ⇒ a healthy event is enabled that lowers `V` -/
theorem teardown_progress {c : Cfg} {s : St} (ha : InvAll s) (hc : InvC s)
    (hmid : 1 ≤ s.td.rank ∧ s.td.rank ≤ 9) :
    ∃ e s', evHealthy c s e = true ∧ step c s e = some s' ∧ V s' < V s := by
  obtain ⟨hv, ht, hb, hh⟩ := ha
  have hal := hh.alive
  cases htd : s.td with
  | idle => rw [htd] at hmid; simp [Td.rank] at hmid
  | done ok => rw [htd] at hmid; simp [Td.rank] at hmid
  | begun =>
    by_cases hw : noWriting s = true
    · by_cases hm : s.mustTrigger = true
      · -- the threshold flush an Ack is waiting for
        cases hbt : s.batch with
        | none => exact absurd hbt (hc.mustB hm)
        | some b =>
          exact ⟨.trigger, doTrigger s b, rfl, by simp [step, hbt, hal, hw],
            V_trigger b hbt (Nat.le_refl _) rfl rfl rfl rfl hw⟩
      · cases hbt : s.batch with
        | none =>
          refine ⟨.tdFlush, { s with td := .flushed }, rfl, by simp [step, hal, htd, hm, hbt], ?_⟩
          exact V_phase (by simp [htd, Td.rank]) rfl rfl rfl rfl rfl
        | some b =>
          refine ⟨.tdFlush, { doTrigger s b with td := .flushed }, rfl, by simp [step, hal, htd, hm, hbt, hw], ?_⟩
          exact V_trigger b hbt (by simp [htd, Td.rank]) rfl rfl rfl rfl hw
    · have hw' : noWriting s = false := by simpa using hw
      obtain ⟨s', h1, h2, h3⟩ := prog_flush (c := c) hv hal hw'
      exact ⟨_, s', h1, h2, h3⟩
  | flushed =>
    refine ⟨.tdSnap, { s with td := .waiting (if s.gens.length = 0 then none else some (s.gens.length - 1)) }, rfl,
      by simp [step, hal, htd], ?_⟩
    exact V_phase (by simp [htd, Td.rank]) rfl rfl rfl rfl rfl
  | waiting og =>
    have hog := hh.waitIdx og htd
    by_cases hlen : s.gens.length = 0
    · -- nothing was ever flushed
      simp only [hlen, if_true] at hog
      subst hog
      refine ⟨.tdWaited false, { s with td := .waited }, rfl, by simp [step, htd, hal], ?_⟩
      exact V_phase (by simp [htd, Td.rank]) rfl rfl rfl rfl rfl
    · simp only [hlen, if_false] at hog
      subst hog
      have hgl : ∃ g, s.gens.getLast? = some g := by
        cases hq : s.gens.getLast? with
        | none => have : s.gens = [] := by simpa using hq
                  rw [this] at hlen; simp at hlen
        | some g => exact ⟨g, rfl⟩
      obtain ⟨g, hg⟩ := hgl
      have hgi : s.gens[s.gens.length - 1]? = some g := by rw [← getLast?_eq_idx]; exact hg
      rcases hh.gensOkW _ g hgi with hwr | hok
      · -- the final flush is still being written
        have hw' : noWriting s = false := by
          cases hq : noWriting s with
          | false => rfl
          | true =>
            have := (noWriting_iff s).mp hq _ g hgi
            exact absurd hwr this
        obtain ⟨s', h1, h2, h3⟩ := prog_flush (c := c) hv hal hw'
        exact ⟨_, s', h1, h2, h3⟩
      · cases hcs : g.cbSt with
        | notRun =>
          have hcl : s.closed = false := by rw [ht.clo, htd]; simp [Td.rank]
          obtain ⟨s', h1, h2, h3⟩ := prog_callback (c := c) ht hal g hg hok hcs hcl
          exact ⟨_, s', h1, h2, h3⟩
        | blocked =>
          have := hc.blockedF _ g hgi hcs
          rw [hok] at this; simp at this
        | done =>
          refine ⟨.tdWaited false, { s with td := .waited }, rfl, ?_, ?_⟩
          · simp [step, htd, hal, hgi, Gen.writeDone, Gen.callbacksDone, hok, hcs]
          · exact V_phase (by simp [htd, Td.rank]) rfl rfl rfl rfl rfl
  | waited =>
    refine ⟨.closeQueue, { s with closed := true, td := .closedQ }, rfl, by simp [step, hal, htd], ?_⟩
    exact V_phase (by simp [htd, Td.rank]) rfl rfl rfl rfl rfl
  | closedQ =>
    by_cases hdg : s.dgDone = true
    · refine ⟨.tdDrained false, { s with td := .drained }, rfl, by simp [step, hal, htd, hdg], ?_⟩
      exact V_phase (by simp [htd, Td.rank]) rfl rfl rfl rfl rfl
    · have hdg' : s.dgDone = false := by simpa using hdg
      have hup : s.pluginUp = true := by rw [ht.pup, htd]; rfl
      have hss : s.streamStopped = false := by rw [ht.sst, htd]; simp [Td.rank]
      have hcl : s.closed = true := by rw [ht.clo, htd]; simp [Td.rank]
      cases hdf : s.deferred with
      | nil =>
        refine ⟨.dgExit, { s with dgDone := true }, rfl,
          by simp [step, hal, hdg', hcl, hdf, hh.noEsc.1], ?_⟩
        simp only [V, noWriting, lastNotRun, hdg']
        simp [b2n]
      | cons a rest =>
        refine ⟨.deliver true,
          { s with deferred := rest, delivered := s.delivered ++ [a], deliveredI := s.deliveredI ++ [a], attempt := 0 },
          by simp [evHealthy], by simp [step, hdf, hal, hdg', hh.noEsc.1, hh.noEsc.2, hup, hss], ?_⟩
        simp only [V, noWriting, lastNotRun, hdf, List.length_cons]
        omega
  | drained =>
    refine ⟨.stopStream, { s with streamStopped := true, escalating := false, td := .stopped }, rfl,
      by simp [step, hal, htd], ?_⟩
    exact V_phase (by simp [htd, Td.rank]) rfl rfl rfl rfl rfl
  | stopped =>
    have hdg : s.dgDone = true := hh.drainedD (by rw [htd]; simp [Td.rank])
    refine ⟨.join, { s with td := .joined }, rfl, by simp [step, hal, htd, hdg], ?_⟩
    exact V_phase (by simp [htd, Td.rank]) rfl rfl rfl rfl rfl
  | joined =>
    have hbn : s.batch = none := hh.flushedB (by rw [htd]; simp [Td.rank])
    have hm : s.mustTrigger = false := by
      cases hq : s.mustTrigger with
      | false => rfl
      | true => exact absurd hbn (hc.mustB hq)
    refine ⟨.pluginTeardown true, { s with pluginUp := false, teardowns := s.teardowns + 1, td := .done true },
      by simp [evHealthy], by simp [step, hal, htd, hm, hbn], ?_⟩
    exact V_phase (by simp [htd, Td.rank]) rfl rfl rfl rfl rfl

/-- `InvC` along healthy runs (it holds along every run) -/
theorem invC_runH {c : Cfg} : ∀ (evs : List Ev) (s s' : St), InvC s → InvAll s → runH c s evs = some s' → InvC s'
  | [], s, s', hi, _, h => by simp only [runH, Option.some.injEq] at h; subst h; exact hi
  | e :: es, s, s', hi, ha, h => by
    simp only [runH] at h
    split at h
    · rename_i hok
      split at h
      · rename_i s1 hs1
        exact invC_runH es s1 s' (invC_step hi ha.b hs1)
          ⟨inv_step ha.v hs1, invTd_step ha.t hs1, invB_step ha.b ha.v hs1, invH_step ha hok hs1⟩ h
      · simp at h
    · simp at h

theorem invC_reachH {c : Cfg} {s : St} (h : ReachH c s) : InvC s := by
  obtain ⟨evs, h⟩ := h
  exact invC_runH evs _ _ invC_init invAll_init h

end Conduit.SrcAck
