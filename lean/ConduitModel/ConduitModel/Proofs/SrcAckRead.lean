import ConduitModel.Proofs.SrcAckStep

/-!
Read side of M3 (`rstep`): what `Source.Stop` returns and the v1 `SourceNode` stop protocol.
Invariant for the code shape `fallback = false` (Stop returns exactly the plugin's reply).
-/
namespace Conduit.SrcAck

/-- the positions the plugin was opened with change only by a restart -/
theorem step_opened {c : Cfg} {s s' : St} {e : Ev} (h : step c s e = some s') (hne : e ≠ .restart) :
    s'.opened = s.opened := by
  cases e <;> simp only [step] at h <;> (repeat' split at h) <;>
    first
    | (simp at h; done)
    | (exact absurd rfl hne)
    | (injection h with h; subst h
       first
       | rfl
       | (by_cases hc : s.closed = true <;> simp [onFlushedOk, setGen, hc]))

structure RInv (s : RSt) : Prop where
  qLast : ∀ p, s.r.q.getLast? = some p → s.r.out = some p
  qNil : s.r.q = [] → s.r.nlast = s.r.out
  fet : ∀ r, s.r.fetched = some r → r = s.r.out
  outGt : ∀ p, s.r.out = some p → openPos s.m < p
  ctlNE : s.r.ctl = true → s.r.ended = false → ∃ r, s.r.fetched = some r ∧ r ≠ s.r.nlast

theorem rinv_init : RInv rinit := by
  constructor <;> simp [rinit]

theorem rinv_step {c : Cfg} {s s' : RSt} {e : REv} (hi : RInv s) (h : rstep c false s e = some s') : RInv s' := by
  obtain ⟨h1, h2, h3, h4, h5⟩ := hi
  cases e with
  | m e =>
    -- M3 events leave the read side alone, except a restart (new run)
    by_cases hr : e = .restart
    · subst hr
      simp only [rstep, Option.map_eq_some_iff] at h
      obtain ⟨m', _, rfl⟩ := h
      constructor <;> simp
    · have hm : ∃ m', step c s.m e = some m' ∧ s' = { s with m := m' } := by
        cases e <;> simp only [rstep] at h <;>
          first
          | (exact absurd rfl hr)
          | (split at h
             · simp only [Option.map_eq_some_iff] at h
               obtain ⟨m', hm, rfl⟩ := h; exact ⟨m', hm, rfl⟩
             · simp at h)
          | (simp only [Option.map_eq_some_iff] at h
             obtain ⟨m', hm, rfl⟩ := h; exact ⟨m', hm, rfl⟩)
      obtain ⟨m', hm, rfl⟩ := hm
      have ho : openPos m' = openPos s.m := by simp only [openPos, step_opened hm hr]
      exact ⟨h1, h2, h3, fun p hp => by rw [ho]; exact h4 p hp, h5⟩
  | emit p =>
    simp only [rstep] at h
    split at h
    · rename_i hc
      injection h with h; subst h
      refine ⟨?_, ?_, ?_, ?_, ?_⟩
      · intro x hx; simp at hx; simp [hx]
      · intro hq; simp at hq
      · intro r hr; simp only at hr; rw [hc.2.2.1] at hr; simp at hr
      · intro x hx; simp only [Option.some.injEq] at hx; subst hx; exact hc.2.2.2.1
      · intro hcl hen
        obtain ⟨r, hr, _⟩ := h5 hcl hen
        rw [hc.2.2.1] at hr; simp at hr
    · simp at h
  | nodeRead =>
    simp only [rstep] at h
    split at h
    · rename_i p rest hq
      split at h
      · rename_i hc
        injection h with h; subst h
        refine ⟨?_, ?_, h3, h4, ?_⟩
        · intro x hx
          apply h1 x
          rw [hq]
          cases rest with
          | nil => simp at hx
          | cons y ys => simpa [List.getLast?_cons_cons] using hx
        · intro hrest
          simp only at hrest
          subst hrest
          exact (h1 p (by rw [hq]; rfl)).symm
        · intro hcl hen
          simp only at hcl hen
          have hold : s.r.ended = false := by simpa using hc.2
          obtain ⟨r, hr, _⟩ := h5 hcl hold
          refine ⟨r, hr, ?_⟩
          intro heq
          simp only [hcl, hr, Bool.true_and, heq] at hen
          simp at hen
      · simp at h
    · simp at h
  | stopRpc =>
    simp only [rstep] at h
    split at h
    · rename_i hc
      injection h with h; subst h
      refine ⟨h1, h2, ?_, h4, ?_⟩
      · intro r hr; simpa [stopResult] using hr.symm
      · intro hcl hen
        obtain ⟨r, hr, _⟩ := h5 hcl hen
        rw [hc.2.2.2] at hr; simp at hr
    · simp at h
  | ctl =>
    simp only [rstep] at h
    split at h
    · rename_i pos hf
      split at h
      · injection h with h; subst h
        refine ⟨h1, h2, h3, h4, ?_⟩
        intro _ hen
        refine ⟨pos, hf, ?_⟩
        intro heq
        simp [heq] at hen
      · simp at h
    · simp at h

theorem rinv_reach {c : Cfg} {s : RSt} (h : RReach c false s) : RInv s := by
  obtain ⟨evs, h⟩ := h
  have : ∀ (evs : List REv) (a b : RSt), RInv a → rrun c false a evs = some b → RInv b := by
    intro evs
    induction evs with
    | nil => intro a b hi h; simp only [rrun, Option.some.injEq] at h; subst h; exact hi
    | cons e es ih =>
      intro a b hi h
      simp only [rrun] at h
      split at h
      · rename_i a1 ha1; exact ih a1 b (rinv_step hi ha1) h
      · simp at h
  exact this evs _ _ rinv_init h

end Conduit.SrcAck
