import ConduitModel.Proofs.SrcAckPos

/-!
What a single step of M3 can change (frame lemmas, by exhaustive case analysis of `step`).
-/
namespace Conduit.SrcAck

theorem onFlushedOk_store (s : St) (q : Nat) : (onFlushedOk s q).store = s.store := by
  by_cases hc : s.closed = true <;> simp [onFlushedOk, hc]

theorem onFlushedOk_commits (s : St) (q : Nat) : (onFlushedOk s q).commits = s.commits := by
  by_cases hc : s.closed = true <;> simp [onFlushedOk, hc]

theorem onFlushedOk_delivered (s : St) (q : Nat) : (onFlushedOk s q).delivered = s.delivered := by
  by_cases hc : s.closed = true <;> simp [onFlushedOk, hc]

/-- the committed store changes only by a successful flush of the running generation -/
theorem step_store {c : Cfg} {s s' : St} {e : Ev} (h : step c s e = some s') :
    s'.store = s.store ∨
    (∃ g, s.gens.getLast? = some g ∧ g.stat = .writing ∧ s'.store = g.snap ∧ e = .flushRes .ok) := by
  cases e <;> simp only [step] at h <;> (repeat' split at h) <;>
    first
    | (simp at h; done)
    | (injection h with h; subst h; first | (left; rfl) | (left; exact onFlushedOk_store _ _) | skip)
  all_goals (rename_i hg hc _; exact Or.inr ⟨_, hg, hc.2, rfl, rfl⟩)

/-- the commit history is append-only and grows exactly by the committed snapshot -/
theorem step_commits {c : Cfg} {s s' : St} {e : Ev} (h : step c s e = some s') :
    s'.commits = s.commits ∨ (s'.commits = s.commits ++ [s'.store] ∧ e = .flushRes .ok) := by
  cases e <;> simp only [step] at h <;> (repeat' split at h) <;>
    first
    | (simp at h; done)
    | (injection h with h; subst h; first | (left; rfl) | (left; exact onFlushedOk_commits _ _) | skip)
  all_goals exact Or.inr ⟨rfl, rfl⟩

/-- the plugin's ack history is append-only and grows exactly by a successful Send of the head
of the delivery queue -/
theorem step_delivered {c : Cfg} {s s' : St} {e : Ev} (h : step c s e = some s') :
    s'.delivered = s.delivered ∨
    (∃ a rest, s.deferred = a :: rest ∧ s'.delivered = s.delivered ++ [a] ∧ e = .deliver true) := by
  cases e <;> simp only [step] at h <;> (repeat' split at h) <;>
    first
    | (simp at h; done)
    | (injection h with h; subst h; first | (left; rfl) | (left; exact onFlushedOk_delivered _ _) | skip)
  all_goals (rename_i hd _ hok _; subst hok; exact Or.inr ⟨_, _, hd, rfl, rfl⟩)

end Conduit.SrcAck
