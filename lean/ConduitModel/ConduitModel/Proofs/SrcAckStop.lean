import ConduitModel.Proofs.SrcAckStep

/-!
Invariants of M3 about `Source.Teardown` (C06): control-flow facts (`InvTd`, every event list) and
the bookkeeping that makes the final flush cover every pending ack (`InvB`, every event list).
-/
namespace Conduit.SrcAck

/-! ### last generation under `set` / append -/

theorem getLast?_set {α} (l : List α) (i : Nat) (x : α) :
    (l.set i x).getLast? = if i + 1 = l.length then some x else l.getLast? := by
  rw [getLast?_eq_idx, getLast?_eq_idx, List.length_set, List.getElem?_set]
  by_cases h : i + 1 = l.length
  · have h1 : l.length - 1 = i := by omega
    have h2 : i < l.length := by omega
    simp [h, h1, h2]
  · simp only [h, if_false]
    by_cases h2 : i = l.length - 1
    · have : l.length = 0 := by omega
      have hl : l = [] := List.length_eq_zero_iff.mp this
      subst hl; simp
    · simp [h2]

/-- control-flow invariant of Teardown -/
structure InvTd (s : St) : Prop where
  tdn : s.teardowns = if s.td.isDone then 1 else 0
  pup : s.pluginUp = !s.td.isDone
  dgd : s.dgDone = true → s.deferred = [] ∧ s.closed = true
  clo : s.closed = decide (s.td.rank ≤ 5)
  sst : s.streamStopped = decide (s.td.rank ≤ 3)
  tea : s.tearing = decide (s.td.rank ≤ 9)
  jnd : s.td.rank ≤ 2 → s.dgDone = true
  esc : s.streamStopped = true → s.escalating = false
  swd : s.swDone = true → s.td.isDone = true

theorem invTd_init : InvTd init := by
  constructor <;> simp [init, Td.isDone, Td.rank]

theorem onFlushedOk_closed_deferred (s : St) (q : Nat) (h : s.closed = true) :
    (onFlushedOk s q).deferred = s.deferred := by
  simp [onFlushedOk, h]

theorem onFlushedOk_td (s : St) (q : Nat) :
    (onFlushedOk s q).td = s.td ∧ (onFlushedOk s q).teardowns = s.teardowns ∧
    (onFlushedOk s q).pluginUp = s.pluginUp ∧ (onFlushedOk s q).dgDone = s.dgDone ∧
    (onFlushedOk s q).closed = s.closed ∧ (onFlushedOk s q).streamStopped = s.streamStopped ∧
    (onFlushedOk s q).tearing = s.tearing ∧ (onFlushedOk s q).escalating = s.escalating ∧
    (onFlushedOk s q).swDone = s.swDone := by
  by_cases hc : s.closed = true <;> simp [onFlushedOk, hc]

theorem invTd_onFlushedOk {s : St} (hi : InvTd s) (q : Nat) : InvTd (onFlushedOk s q) := by
  obtain ⟨h1, h2, h3, h4, h5, h6, h7, h8, h9⟩ := onFlushedOk_td s q
  refine ⟨by rw [h1, h2]; exact hi.tdn, by rw [h1, h3]; exact hi.pup, ?_, by rw [h1, h5]; exact hi.clo,
    by rw [h1, h6]; exact hi.sst, by rw [h1, h7]; exact hi.tea, by rw [h1, h4]; exact hi.jnd,
    by rw [h6, h8]; exact hi.esc, by rw [h1, h9]; exact hi.swd⟩
  intro hd
  rw [h4] at hd
  have := hi.dgd hd
  rw [h5, onFlushedOk_closed_deferred s q this.2]
  exact this

set_option maxHeartbeats 4000000 in
theorem invTd_step {c : Cfg} {s s' : St} {e : Ev} (hi : InvTd s) (h : step c s e = some s') : InvTd s' := by
  have ⟨a1, a2, a3, a4, a5, a6, a7, a8, a9⟩ := hi
  cases e <;> simp only [step] at h <;> (repeat' split at h) <;>
    first
    | (simp at h; done)
    | (injection h with h; subst h
       first
       | exact ⟨a1, a2, a3, a4, a5, a6, a7, a8, a9⟩
       | exact invTd_onFlushedOk (s := setGen s _ _) ⟨a1, a2, a3, a4, a5, a6, a7, a8, a9⟩ _
       | (constructor <;> simp [init, Td.isDone, Td.rank]; done)
       | (clear hi; constructor <;> simp_all [persist, doTrigger, setGen, dropHead]; done)
       | (clear hi; constructor <;> simp_all [Td.isDone, Td.rank, persist, doTrigger, setGen, dropHead]))

theorem invTd_reach {c : Cfg} {s : St} (h : Reach c s) : InvTd s := by
  obtain ⟨evs, h⟩ := h
  have : ∀ (evs : List Ev) (s s' : St), InvTd s → run c s evs = some s' → InvTd s' := by
    intro evs
    induction evs with
    | nil => intro s s' hi h; simp only [run, Option.some.injEq] at h; subst h; exact hi
    | cons e es ih =>
      intro s s' hi h
      simp only [run] at h
      split at h
      · rename_i s1 hs1; exact ih s1 s' (invTd_step hi hs1) h
      · simp at h
  exact this evs _ _ invTd_init h

/-! ### the final flush covers every pending ack -/

structure InvB (s : St) : Prop where
  bnone : s.batch = none → (s.gens = [] → s.inst = s.store) ∧ (∀ g, s.gens.getLast? = some g → g.snap = s.inst)
  lastOk : ∀ g, s.gens.getLast? = some g → g.stat = .ok → s.store = g.snap
  pendCb : s.pending ≠ [] → (∀ b, s.batch = some b → b.2 = some s.inst.seq) ∧
    (s.batch = none → ∃ g, s.gens.getLast? = some g ∧ g.cb = some s.inst.seq)
  wrNotRun : ∀ (i : Nat) g, s.gens[i]? = some g → g.stat = .writing → g.cbSt = .notRun
  lastDone : s.batch = none → ∀ g, s.gens.getLast? = some g → g.stat = .ok → g.cbSt = .done → s.pending = []
  lastAck : ∀ a, s.ackedI.getLast? = some a → s.inst = ⟨a.seq, a.ps.getLast?⟩
  freshP : s.fresh = true → s.pending = []

theorem invB_init : InvB init := by
  constructor <;> simp [init]

macro "frameB " hi:ident : tactic =>
  `(tactic| exact ⟨($hi).bnone, ($hi).lastOk, ($hi).pendCb, ($hi).wrNotRun, ($hi).lastDone, ($hi).lastAck, ($hi).freshP⟩)

theorem invB_openPersist {c : Cfg} {s : St} (hi : InvB s) (hf : s.fresh = true) : InvB (persist c s none) := by
  have hp := hi.freshP hf
  refine ⟨?_, hi.lastOk, ?_, hi.wrNotRun, ?_, hi.lastAck, ?_⟩
  · intro h; simp [persist] at h
  · intro h; exact absurd hp h
  · intro h; simp [persist] at h
  · intro h; simp [persist] at h

theorem invB_ack {c : Cfg} {s : St} (hi : InvB s) (ps : List Pos) (last : Pos) (hl : ps.getLast? = some last) :
    InvB (persist c { s with nextSeq := s.nextSeq + 1, inst := ⟨s.nextSeq + 1, some last⟩,
                             pending := s.pending ++ [⟨s.nextSeq + 1, ps⟩],
                             ackedI := s.ackedI ++ [⟨s.nextSeq + 1, ps⟩],
                             handled := s.handled ++ ps } (some (s.nextSeq + 1))) := by
  refine ⟨?_, hi.lastOk, ?_, hi.wrNotRun, ?_, ?_, ?_⟩
  · intro h; simp [persist] at h
  · intro _
    refine ⟨?_, ?_⟩
    · intro b hb; simp only [persist, Option.some.injEq] at hb; subst hb; rfl
    · intro h; simp [persist] at h
  · intro h; simp [persist] at h
  · intro a ha
    simp only [persist, List.getLast?_append, List.getLast?_singleton, Option.some_or, Option.some.injEq] at ha
    subst ha
    show (⟨s.nextSeq + 1, some last⟩ : Stored) = ⟨s.nextSeq + 1, ps.getLast?⟩
    rw [hl]
  · intro h; simp [persist] at h

theorem invB_doTrigger {s : St} (hi : InvB s) (hv : Inv s) (b : Stored × Option Nat) (hb : s.batch = some b) :
    InvB (doTrigger s b) := by
  have hbe := hv.batchEq b hb
  refine ⟨?_, ?_, ?_, ?_, ?_, hi.lastAck, hi.freshP⟩
  · intro _
    refine ⟨?_, ?_⟩
    · intro h; simp [doTrigger] at h
    · intro g hg
      simp only [doTrigger, List.getLast?_append, List.getLast?_singleton, Option.some_or, Option.some.injEq] at hg
      subst hg; exact hbe.1
  · intro g hg hs
    simp only [doTrigger, List.getLast?_append, List.getLast?_singleton, Option.some_or, Option.some.injEq] at hg
    subst hg; simp at hs
  · intro hp
    refine ⟨?_, ?_⟩
    · intro b' h; simp [doTrigger] at h
    · intro _
      refine ⟨{ snap := b.1, cb := b.2, stat := .writing, cbSt := .notRun }, by simp [doTrigger], ?_⟩
      exact (hi.pendCb hp).1 b hb
  · intro i g hg hs
    rcases getElem?_snoc_cases hg with h | ⟨h, _⟩
    · exact hi.wrNotRun i g h hs
    · subst h; rfl
  · intro _ g hg hs
    simp only [doTrigger, List.getLast?_append, List.getLast?_singleton, Option.some_or, Option.some.injEq] at hg
    subst hg; simp at hs

/-- generation `i` gets a new status / callback state; `snap` and `cb` stay -/
theorem invB_setGen {s : St} (hi : InvB s) (i : Nat) (g g' : Gen) (hg : s.gens[i]? = some g)
    (hsnap : g'.snap = g.snap) (hcb : g'.cb = g.cb)
    (hok : g'.stat = .ok → g.stat = .ok ∧ (g'.cbSt = .done → g.cbSt = .done))
    (hwr : g'.stat = .writing → g.stat = .writing ∧ g'.cbSt = g.cbSt) :
    InvB (setGen s i g') := by
  have hlt : i < s.gens.length := by
    rcases Nat.lt_or_ge i s.gens.length with h | h
    · exact h
    · rw [List.getElem?_eq_none h] at hg; simp at hg
  have hlast : ∀ x, (s.gens.set i g').getLast? = some x →
      (x = g' ∧ s.gens.getLast? = some g) ∨ (s.gens.getLast? = some x) := by
    intro x hx
    rw [getLast?_set] at hx
    split at hx
    · rename_i heq
      left
      refine ⟨(Option.some.inj hx).symm, ?_⟩
      rw [getLast?_eq_idx]
      have : s.gens.length - 1 = i := by omega
      rw [this]; exact hg
    · exact Or.inr hx
  refine ⟨?_, ?_, ?_, ?_, ?_, hi.lastAck, hi.freshP⟩
  · intro hb
    have := hi.bnone hb
    refine ⟨?_, ?_⟩
    · intro h
      have : s.gens = [] := by
        have := congrArg List.length h
        simp [setGen] at this
        exact this
      rw [this] at hg; simp at hg
    · intro x hx
      rcases hlast x hx with ⟨h1, h2⟩ | h2
      · rw [h1, hsnap]; exact this.2 g h2
      · exact this.2 x h2
  · intro x hx hs
    rcases hlast x hx with ⟨h1, h2⟩ | h2
    · rw [h1] at hs ⊢; rw [hsnap]; exact hi.lastOk g h2 (hok hs).1
    · exact hi.lastOk x h2 hs
  · intro hp
    have := hi.pendCb hp
    refine ⟨this.1, ?_⟩
    intro hb
    obtain ⟨x, hx, hxc⟩ := this.2 hb
    show ∃ y, (s.gens.set i g').getLast? = some y ∧ _
    rw [getLast?_set]
    split
    · rename_i heq
      refine ⟨g', rfl, ?_⟩
      have : s.gens.getLast? = some g := by
        rw [getLast?_eq_idx]
        have : s.gens.length - 1 = i := by omega
        rw [this]; exact hg
      rw [this] at hx
      have := Option.some.inj hx
      rw [hcb, this]; exact hxc
    · exact ⟨x, hx, hxc⟩
  · intro j x hj hs
    rcases getElem?_set_cases hj with ⟨_, h1⟩ | ⟨h1, h2⟩
    · exact hi.wrNotRun j x h1 hs
    · rw [h2] at hs ⊢
      have := hwr hs
      rw [this.2]; exact hi.wrNotRun i g hg this.1
  · intro hb x hx hs hd
    rcases hlast x hx with ⟨h1, h2⟩ | h2
    · rw [h1] at hs hd
      have := hok hs
      exact hi.lastDone hb g h2 this.1 (this.2 hd)
    · exact hi.lastDone hb x h2 hs hd

theorem invB_commit {s : St} (hi : InvB s) (g : Gen) (hg : s.gens[s.gens.length - 1]? = some g)
    (hw : g.stat = .writing) :
    InvB { setGen s (s.gens.length - 1) { g with stat := .ok } with store := g.snap, commits := s.commits ++ [g.snap] } := by
  have hlt : s.gens.length - 1 < s.gens.length := by
    rcases Nat.lt_or_ge (s.gens.length - 1) s.gens.length with h | h
    · exact h
    · rw [List.getElem?_eq_none h] at hg; simp at hg
  have hgl : s.gens.getLast? = some g := by rw [getLast?_eq_idx]; exact hg
  have hlast : (s.gens.set (s.gens.length - 1) { g with stat := .ok }).getLast? = some { g with stat := .ok } := by
    rw [getLast?_set]; simp; omega
  refine ⟨?_, ?_, ?_, ?_, ?_, hi.lastAck, hi.freshP⟩
  · intro hb
    refine ⟨?_, ?_⟩
    · intro h
      have := congrArg List.length h
      simp [setGen] at this
      rw [this] at hg; simp at hg
    · intro x hx
      have : x = { g with stat := .ok } := by
        have h2 : (s.gens.set (s.gens.length - 1) { g with stat := .ok }).getLast? = some x := hx
        rw [hlast] at h2; exact (Option.some.inj h2).symm
      rw [this]; exact (hi.bnone hb).2 g hgl
  · intro x hx _
    have : x = { g with stat := .ok } := by
      have h2 : (s.gens.set (s.gens.length - 1) { g with stat := .ok }).getLast? = some x := hx
      rw [hlast] at h2; exact (Option.some.inj h2).symm
    rw [this]
  · intro hp
    have := hi.pendCb hp
    refine ⟨this.1, ?_⟩
    intro hb
    obtain ⟨x, hx, hxc⟩ := this.2 hb
    rw [hgl] at hx
    refine ⟨{ g with stat := .ok }, hlast, ?_⟩
    rw [← Option.some.inj hx] at hxc; exact hxc
  · intro j x hj hs
    rcases getElem?_set_cases hj with ⟨_, h1⟩ | ⟨h1, h2⟩
    · exact hi.wrNotRun j x h1 hs
    · rw [h2] at hs; simp at hs
  · intro _ x hx _ hd
    have : x = { g with stat := .ok } := by
      have h2 : (s.gens.set (s.gens.length - 1) { g with stat := .ok }).getLast? = some x := hx
      rw [hlast] at h2; exact (Option.some.inj h2).symm
    rw [this] at hd
    have := hi.wrNotRun _ g hg hw
    simp [this] at hd

theorem onFlushedOk_proj (s : St) (q : Nat) :
    (onFlushedOk s q).gens = s.gens ∧ (onFlushedOk s q).batch = s.batch ∧ (onFlushedOk s q).inst = s.inst ∧
    (onFlushedOk s q).ackedI = s.ackedI ∧ (onFlushedOk s q).fresh = s.fresh ∧
    (onFlushedOk s q).pending = (drain (if q > s.durable then q else s.durable) s.pending).2 := by
  by_cases hc : s.closed = true <;> simp [onFlushedOk, hc]

/-- generation `i` (committed) is marked "callback done" and the pending queue shrinks to `p'` -/
theorem invB_callbackCore {s : St} (hi : InvB s) (i : Nat) (g : Gen) (hg : s.gens[i]? = some g)
    (hst : g.stat = .ok) (p' : List AckRec)
    (hdrain : s.pending ≠ [] → g.cb = some s.inst.seq → i + 1 = s.gens.length → s.batch = none → p' = [])
    (hnil : s.pending = [] → p' = []) :
    InvB { setGen s i { g with cbSt := .done } with pending := p' } := by
  have hlt : i < s.gens.length := by
    rcases Nat.lt_or_ge i s.gens.length with h | h
    · exact h
    · rw [List.getElem?_eq_none h] at hg; simp at hg
  have hlast : ∀ x, (s.gens.set i { g with cbSt := .done }).getLast? = some x →
      (x = { g with cbSt := .done } ∧ s.gens.getLast? = some g ∧ i + 1 = s.gens.length) ∨ (s.gens.getLast? = some x ∧ i + 1 ≠ s.gens.length) := by
    intro x hx
    rw [getLast?_set] at hx
    split at hx
    · rename_i heq
      left
      refine ⟨(Option.some.inj hx).symm, ?_, heq⟩
      rw [getLast?_eq_idx]
      have : s.gens.length - 1 = i := by omega
      rw [this]; exact hg
    · rename_i hne; exact Or.inr ⟨hx, hne⟩
  refine ⟨?_, ?_, ?_, ?_, ?_, hi.lastAck, ?_⟩
  · intro hb
    have := hi.bnone hb
    refine ⟨?_, ?_⟩
    · intro h
      have := congrArg List.length h
      simp [setGen] at this
      rw [this] at hg; simp at hg
    · intro x hx
      rcases hlast x hx with ⟨h1, h2, _⟩ | ⟨h2, _⟩
      · rw [h1]; exact this.2 g h2
      · exact this.2 x h2
  · intro x hx hs
    rcases hlast x hx with ⟨h1, h2, _⟩ | ⟨h2, _⟩
    · rw [h1]; exact hi.lastOk g h2 hst
    · exact hi.lastOk x h2 hs
  · intro hp
    have hp0 : s.pending ≠ [] := by
      intro h0; exact hp (hnil h0)
    have := hi.pendCb hp0
    refine ⟨this.1, ?_⟩
    intro hb
    obtain ⟨x, hx, hxc⟩ := this.2 hb
    show ∃ y, (s.gens.set i { g with cbSt := .done }).getLast? = some y ∧ _
    rw [getLast?_set]
    split
    · rename_i heq
      refine ⟨_, rfl, ?_⟩
      have : s.gens.getLast? = some g := by
        rw [getLast?_eq_idx]
        have : s.gens.length - 1 = i := by omega
        rw [this]; exact hg
      rw [this] at hx
      rw [← Option.some.inj hx] at hxc; exact hxc
    · exact ⟨x, hx, hxc⟩
  · intro j x hj hs
    rcases getElem?_set_cases hj with ⟨_, h1⟩ | ⟨h1, h2⟩
    · exact hi.wrNotRun j x h1 hs
    · rw [h2] at hs; simp [hst] at hs
  · intro hb x hx hs hd
    show p' = []
    rcases hlast x hx with ⟨h1, h2, h3⟩ | ⟨h2, _⟩
    · by_cases hp0 : s.pending = []
      · exact hnil hp0
      · obtain ⟨y, hy, hyc⟩ := (hi.pendCb hp0).2 hb
        rw [h2] at hy
        rw [← Option.some.inj hy] at hyc
        exact hdrain hp0 hyc h3 hb
    · exact hnil (hi.lastDone hb x h2 hs hd)
  · intro hf; exact hnil (hi.freshP hf)

theorem invB_callbackNone {s : St} (hi : InvB s) (i : Nat) (g : Gen) (hg : s.gens[i]? = some g)
    (hst : g.stat = .ok) (hcb : g.cb = none) : InvB (setGen s i { g with cbSt := .done }) := by
  have := invB_callbackCore hi i g hg hst s.pending (by intro _ hc; rw [hcb] at hc; simp at hc) (fun h => h)
  exact this

theorem invB_callbackSome {s : St} (hi : InvB s) (hv : Inv s) (i : Nat) (g : Gen) (hg : s.gens[i]? = some g)
    (hst : g.stat = .ok) (q : Nat) (hcb : g.cb = some q) :
    InvB (onFlushedOk (setGen s i { g with cbSt := .done }) q) := by
  obtain ⟨h1, h2, h3, h4, h5, h6⟩ := onFlushedOk_proj (setGen s i { g with cbSt := .done }) q
  have hc := invB_callbackCore hi i g hg hst (drain (if q > s.durable then q else s.durable) s.pending).2
    (by
      intro _ hc _ _
      rw [hcb] at hc
      have hq : q = s.inst.seq := Option.some.inj hc
      apply drain_all
      intro a ha
      have := hv.pendLe a ha
      split <;> omega) (by intro h; rw [h]; rfl)
  have hs := onFlushedOk_store (setGen s i { g with cbSt := .done }) q
  have b1 := hc.bnone
  have b2 := hc.lastOk
  have b3 := hc.pendCb
  have b4 := hc.wrNotRun
  have b5 := hc.lastDone
  have b6 := hc.lastAck
  have b7 := hc.freshP
  simp only [setGen] at h1 h2 h3 h4 h5 h6 hs b1 b2 b3 b4 b5 b6 b7
  constructor
  · simp only [setGen, h1, h2, h3, hs]; exact b1
  · simp only [setGen, h1, hs]; exact b2
  · simp only [setGen, h1, h2, h3, h6]; exact b3
  · simp only [setGen, h1]; exact b4
  · simp only [setGen, h1, h2, h6]; exact b5
  · simp only [setGen, h3, h4]; exact b6
  · simp only [setGen, h5, h6]; exact b7

theorem invB_restart {s : St} :
    InvB { init with nextSeq := s.nextSeq, inst := s.store, store := s.store,
                     handled := s.handled, delivered := s.delivered,
                     commits := s.commits, opened := s.opened ++ [s.store.pos], teardowns := 0 } := by
  constructor <;> simp [init]

theorem invB_step {c : Cfg} {s s' : St} {e : Ev} (hi : InvB s) (hv : Inv s) (h : step c s e = some s') : InvB s' := by
  cases e with
  | openPersist =>
    simp only [step] at h
    split at h
    · rename_i hc
      injection h with h; subst h; exact invB_openPersist hi hc.2.1
    · simp at h
  | ack ps =>
    simp only [step] at h
    split at h
    · split at h
      · injection h with h; subst h; frameB hi
      · rename_i last hl
        injection h with h; subst h; exact invB_ack hi ps last hl
    · simp at h
  | trigger =>
    simp only [step] at h
    split at h
    · rename_i b hb
      split at h
      · injection h with h; subst h; exact invB_doTrigger hi hv b hb
      · simp at h
    · simp at h
  | flushRes r =>
    simp only [step] at h
    split at h
    · rename_i g hg
      rw [getLast?_eq_idx] at hg
      split at h
      · rename_i hc
        cases r with
        | ok => simp only at h; injection h with h; subst h; exact invB_commit hi g hg hc.2
        | setFail =>
          simp only at h; injection h with h; subst h
          exact invB_setGen hi _ g _ hg rfl rfl (by simp) (by simp)
        | commitFail =>
          simp only at h; injection h with h; subst h
          exact invB_setGen hi _ g _ hg rfl rfl (by simp) (by simp)
        | txFail =>
          simp only at h; injection h with h; subst h
          refine invB_setGen hi _ g _ hg rfl rfl ?_ ?_
          · intro h; simp only at h; split at h <;> simp at h
          · intro h; simp only at h; split at h <;> simp at h
      · simp at h
    · simp at h
  | callback i =>
    simp only [step] at h
    split at h
    · rename_i g hg
      split at h
      · split at h
        · rename_i hst
          split at h
          · rename_i seq hcb
            injection h with h; subst h
            exact invB_callbackSome hi hv i g hg hst seq hcb
          · rename_i hcb
            injection h with h; subst h
            exact invB_callbackNone hi i g hg hst hcb
        · rename_i hst
          injection h with h; subst h
          exact invB_setGen hi i g _ hg rfl rfl (by simp [hst]) (by simp [hst])
        · simp at h
      · simp at h
    · simp at h
  | errReadP i =>
    simp only [step] at h
    split at h
    · rename_i g hg
      split at h
      · rename_i hc
        injection h with h; subst h
        exact invB_setGen hi i g _ hg rfl rfl (by simp [hc.2.2]) (by simp [hc.2.2])
      · simp at h
    · simp at h
  | deliver ok =>
    simp only [step] at h
    (repeat' split at h) <;> first | (simp at h; done) | (injection h with h; subst h; frameB hi)
  | backoffAbort =>
    simp only [step] at h
    (repeat' split at h) <;> first | (simp at h; done) | (injection h with h; subst h; frameB hi)
  | discard =>
    simp only [step] at h
    (repeat' split at h) <;> first | (simp at h; done) | (injection h with h; subst h; frameB hi)
  | errReadS =>
    simp only [step] at h
    (repeat' split at h) <;> first | (simp at h; done) | (injection h with h; subst h; frameB hi)
  | dgExit =>
    simp only [step] at h
    (repeat' split at h) <;> first | (simp at h; done) | (injection h with h; subst h; frameB hi)
  | tdBegin =>
    simp only [step] at h
    (repeat' split at h) <;> first | (simp at h; done) | (injection h with h; subst h; frameB hi)
  | tdFlush =>
    simp only [step] at h
    split at h
    · split at h
      · injection h with h; subst h; frameB hi
      · rename_i b hb
        split at h
        · injection h with h; subst h
          have := invB_doTrigger hi hv b hb
          frameB this
        · simp at h
    · simp at h
  | tdSnap =>
    simp only [step] at h
    (repeat' split at h) <;> first | (simp at h; done) | (injection h with h; subst h; frameB hi)
  | tdWaited t =>
    simp only [step] at h
    (repeat' split at h) <;> first | (simp at h; done) | (injection h with h; subst h; frameB hi)
  | closeQueue =>
    simp only [step] at h
    (repeat' split at h) <;> first | (simp at h; done) | (injection h with h; subst h; frameB hi)
  | tdDrained t =>
    simp only [step] at h
    (repeat' split at h) <;> first | (simp at h; done) | (injection h with h; subst h; frameB hi)
  | stopStream =>
    simp only [step] at h
    (repeat' split at h) <;> first | (simp at h; done) | (injection h with h; subst h; frameB hi)
  | join =>
    simp only [step] at h
    (repeat' split at h) <;> first | (simp at h; done) | (injection h with h; subst h; frameB hi)
  | pluginTeardown ok =>
    simp only [step] at h
    split at h
    · split at h
      · injection h with h; subst h; frameB hi
      · rename_i b hb
        split at h
        · injection h with h; subst h
          have h1 : InvB { s with pluginUp := false, teardowns := s.teardowns + 1, td := Td.done ok } := by frameB hi
          have h2 : Inv { s with pluginUp := false, teardowns := s.teardowns + 1, td := Td.done ok } := by frame hv
          exact invB_doTrigger h1 h2 b hb
        · simp at h
    · simp at h
  | waitPersisted =>
    simp only [step] at h
    (repeat' split at h) <;> first | (simp at h; done) | (injection h with h; subst h; frameB hi)
  | crash =>
    simp only [step] at h
    (repeat' split at h) <;> first | (simp at h; done) | (injection h with h; subst h; frameB hi)
  | restart =>
    simp only [step] at h
    split at h
    · injection h with h; subst h; exact invB_restart
    · simp at h

end Conduit.SrcAck
