import ConduitModel.Spec.Codec
import ConduitModel.Proofs.Base64
import ConduitModel.Proofs.Json
import ConduitModel.Proofs.Time

/-! Helper lemmas: the field decoders invert the field encoders; canonical maps survive
`SMap.ofList` and the `any` re-marshal; the three document decoders invert their encoders. -/
namespace Conduit.Codec

/-! ### canonical maps -/

theorem SMap.ins_append {α : Type} (k : Str) (v : α) : ∀ (acc : SMap α),
    (∀ kv ∈ acc, keyLt kv.1 k = true) → SMap.ins k v acc = acc ++ [(k, v)]
  | [], _ => rfl
  | (k', v') :: t, h => by
    have h1 : keyLt k' k = true := h (k', v') (by simp)
    have ih := SMap.ins_append k v t (fun kv hkv => h kv (by simp [hkv]))
    simp [SMap.ins, h1, ih]

theorem SMap.foldl_ins_sorted {α : Type} : ∀ (l acc : SMap α), SMap.Sorted (acc ++ l) →
    l.foldl (fun m kv => SMap.ins kv.1 kv.2 m) acc = acc ++ l
  | [], acc, _ => by simp
  | (k, v) :: t, acc, h => by
    have hk : ∀ kv ∈ acc, keyLt kv.1 k = true := by
      intro kv hkv
      have := List.pairwise_append.mp h
      exact this.2.2 kv hkv (k, v) (by simp)
    have h' : SMap.Sorted ((acc ++ [(k, v)]) ++ t) := by simpa [SMap.Sorted] using h
    simp only [List.foldl]
    rw [SMap.ins_append k v acc hk, SMap.foldl_ins_sorted t _ h']
    simp

/-- a canonical map is rebuilt unchanged from its own member list. -/
theorem SMap.ofList_sorted {α : Type} (m : SMap α) (h : SMap.Sorted m) : SMap.ofList m = m := by
  have := SMap.foldl_ins_sorted m [] (by simpa using h)
  simpa [SMap.ofList] using this

theorem SMap.sorted_map {α β : Type} (f : α → β) (m : SMap α) (h : SMap.Sorted m) :
    SMap.Sorted (m.map fun kv => (kv.1, f kv.2)) := by
  unfold SMap.Sorted at *
  rw [List.pairwise_map]
  exact h

/-! ### field codecs -/

@[simp] theorem except_ok_bind {ε α β : Type} (a : α) (f : α → Except ε β) : (Except.ok a >>= f) = f a := rfl
@[simp] theorem except_map_ok {ε α β : Type} (a : α) (f : α → β) : f <$> (Except.ok a : Except ε α) = Except.ok (f a) := rfl
@[simp] theorem except_pure {ε α : Type} (a : α) : (pure a : Except ε α) = Except.ok a := rfl

theorem decInt_encInt (n : Int64) : decInt (encInt n) = .ok n := by
  simp [decInt, encInt, Int64.ofInt_toInt]

theorem decStrs_map (l : List Str) : decStrs (l.map Json.str) = .ok l := by
  induction l with
  | nil => rfl
  | cons s t ih => simp [decStrs, decStr, ih]

theorem decStrList_enc (l : Option (List Str)) : decStrList (encStrList l) = .ok l := by
  cases l with
  | none => rfl
  | some l => simp [encStrList, decStrList, decStrs_map]

theorem decStrMembers_map (m : SMap Str) :
    decStrMembers (m.map fun kv => (kv.1, Json.str kv.2)) = .ok m := by
  induction m with
  | nil => rfl
  | cons kv t ih => cases kv; simp [decStrMembers, decStr, ih]

theorem decStrMap_enc (m : Option (SMap Str)) (h : optSorted m) : decStrMap (encStrMap m) = .ok m := by
  cases m with
  | none => rfl
  | some m =>
    simp only [encStrMap, decStrMap, decStrMembers_map]
    show Except.ok (some (SMap.ofList m)) = _
    rw [SMap.ofList_sorted m h]

theorem decBytes_enc (b : Option Bytes) : decBytes (encBytes b) = .ok b := by
  cases b with
  | none => rfl
  | some b => simp [encBytes, decBytes, b64Decode_encode]

theorem decBytesMembers_map (m : SMap (Option Bytes)) :
    decBytesMembers (m.map fun kv => (kv.1, encBytes kv.2)) = .ok m := by
  induction m with
  | nil => rfl
  | cons kv t ih => cases kv; simp [decBytesMembers, decBytes_enc, ih]

theorem decBytesMap_enc (m : Option (SMap (Option Bytes))) (h : optSorted m) :
    decBytesMap (encBytesMap m) = .ok m := by
  cases m with
  | none => rfl
  | some m =>
    simp only [encBytesMap, decBytesMap, decBytesMembers_map]
    show Except.ok (some (SMap.ofList m)) = _
    rw [SMap.ofList_sorted m h]

theorem decTime_enc (t : Time) (h : t.valid = true) : decTime (encTime t) = .ok t := by
  simp [decTime, encTime, parseTime_formatTime t h]

/-! ### the `any` re-marshal of connector state -/

theorem reany_encBytes (b : Option Bytes) : (encBytes b).reany = encBytes b := by
  cases b <;> simp [encBytes, Json.reany]

theorem reanyMembers_sorted : ∀ (l acc : SMap Json), SMap.Sorted (acc ++ l) → (∀ kv ∈ l, kv.2.reany = kv.2) →
    Json.reanyMembers acc l = acc ++ l
  | [], acc, _, _ => by simp [Json.reanyMembers]
  | (k, v) :: t, acc, h, hv => by
    have hk : ∀ kv ∈ acc, keyLt kv.1 k = true := by
      intro kv hkv
      have := List.pairwise_append.mp h
      exact this.2.2 kv hkv (k, v) (by simp)
    have h' : SMap.Sorted ((acc ++ [(k, v)]) ++ t) := by simpa [SMap.Sorted] using h
    have e : v.reany = v := hv (k, v) (by simp)
    simp only [Json.reanyMembers, e]
    rw [SMap.ins_append k v acc hk, reanyMembers_sorted t _ h' (fun kv hkv => hv kv (by simp [hkv]))]
    simp

theorem reany_encBytesMap (m : Option (SMap (Option Bytes))) (h : optSorted m) :
    (encBytesMap m).reany = encBytesMap m := by
  cases m with
  | none => simp [encBytesMap, Json.reany]
  | some m =>
    simp only [encBytesMap, Json.reany]
    congr 1
    have hs := SMap.sorted_map encBytes m h
    have := reanyMembers_sorted (m.map fun kv => (kv.1, encBytes kv.2)) [] (by simpa using hs) (by
      intro kv hkv
      simp only [List.mem_map] at hkv
      obtain ⟨a, _, rfl⟩ := hkv
      exact reany_encBytes a.2)
    simpa using this

/-! ### documents -/

theorem decConnConfig_enc (c : ConnConfig) (h : optSorted c.settings) : decConnConfig (encConnConfig c) = .ok c := by
  cases c with
  | mk name settings =>
    have := decStrMap_enc settings h
    simp (config := {decide := true}) [decConnConfig, encConnConfig, decObj, Json.field, decStr, this]

theorem decConnState_enc (type : Int64) (st : ConnState) (hs : st.sorted) (hm : st.fits type) :
    decConnState type (encConnState st) = .ok st := by
  cases st with
  | none => rfl
  | source p =>
    simp only [ConnState.fits] at hm
    subst hm
    have e : (encConnState (.source p)).reany = encConnState (.source p) := by
      simp [encConnState, Json.reany, Json.reanyMembers, SMap.ins, reany_encBytes]
    simp only [decConnState, encConnState] at e ⊢
    simp (config := {decide := true}) [e, decObj, Json.field, decBytes_enc]
  | destination ps =>
    simp only [ConnState.fits] at hm
    simp only [ConnState.sorted] at hs
    subst hm
    have e : (encConnState (.destination ps)).reany = encConnState (.destination ps) := by
      simp [encConnState, Json.reany, Json.reanyMembers, SMap.ins, reany_encBytesMap ps hs]
    simp only [decConnState, encConnState] at e ⊢
    simp (config := {decide := true}) [e, decObj, Json.field, decBytesMap_enc ps hs]

theorem decConn_encConn (x : ConnInstance) (h : x.WF) : decConn (encConn x) = .ok x := by
  obtain ⟨h1, h2, h3, h4, h5, h6⟩ := h
  cases x with
  | mk id type config pipelineID plugin processorIDs state provisionedBy createdAt updatedAt lastActiveConfig =>
    have e1 := decConnConfig_enc config h1
    have e2 := decConnConfig_enc lastActiveConfig h2
    have e3 := decConnState_enc type state h3 h6
    have e4 := decTime_enc createdAt h4
    have e5 := decTime_enc updatedAt h5
    simp (config := {decide := true}) [decConn, encConn, encConnWith, Json.field, decStr, decInt_encInt,
      decStrList_enc, e1, e2, e3, e4, e5]

theorem decPipe_encPipe (x : PipeInstance) (h : x.WF) : decPipe (encPipe x) = .ok x := by
  obtain ⟨h1, h2, h3⟩ := h
  cases x with
  | mk id config error createdAt updatedAt provisionedBy dlq connectorIDs processorIDs status =>
    cases config; cases dlq
    have e1 := decStrMap_enc _ h1
    have e2 := decTime_enc createdAt h2
    have e3 := decTime_enc updatedAt h3
    simp (config := {decide := true}) [decPipe, encPipe, Json.field, decStr, decObj, decInt_encInt,
      decStrList_enc, e1, e2, e3]

theorem decProc_encProc (x : ProcInstance) (h : x.WF) : decProc (encProc x) = .ok x := by
  obtain ⟨h1, h2, h3⟩ := h
  cases x with
  | mk id createdAt updatedAt provisionedBy plugin condition parent config =>
    cases parent; cases config
    have e1 := decStrMap_enc _ h1
    have e2 := decTime_enc createdAt h2
    have e3 := decTime_enc updatedAt h3
    simp (config := {decide := true}) [decProc, encProc, Json.field, decStr, decObj, decInt_encInt, e1, e2, e3]

/-! ### every member list has a canonical map -/

theorem quote_injective {a b : Str} (h : quote a = quote b) : a = b := by
  have h1 := unquote_quote a
  rw [h, unquote_quote] at h1
  exact (Option.some.inj h1).symm

theorem keyLt_trans {a b c : Str} (h1 : keyLt a b = true) (h2 : keyLt b c = true) : keyLt a c = true := by
  simp only [keyLt, decide_eq_true_eq] at *
  exact List.lt_trans h1 h2

theorem keyLt_irrefl (a : Str) : keyLt a a = false := by
  simp only [keyLt, decide_eq_false_iff_not]
  exact List.lt_irrefl _

/-- trichotomy of goccy's member order: two different keys are ordered one way or the other. -/
theorem keyLt_total {a b : Str} (h1 : keyLt a b = false) (h2 : a ≠ b) : keyLt b a = true := by
  simp only [keyLt, decide_eq_true_eq, decide_eq_false_iff_not] at *
  apply Classical.byContradiction
  intro h3
  have e : quote a = quote b := List.le_antisymm (List.not_lt.mp h3) (List.not_lt.mp h1)
  exact h2 (quote_injective e)

theorem SMap.ins_keys {α : Type} (k : Str) (v : α) : ∀ (m : SMap α) (kv : Str × α), kv ∈ SMap.ins k v m → kv.1 = k ∨ kv ∈ m
  | [], kv, h => by simp [SMap.ins] at h; simp [h]
  | (k', v') :: t, kv, h => by
    unfold SMap.ins at h
    by_cases h1 : keyLt k' k = true
    · simp only [h1, if_true, List.mem_cons] at h
      rcases h with h | h
      · simp [h]
      · rcases SMap.ins_keys k v t kv h with h | h
        · exact Or.inl h
        · exact Or.inr (by simp [h])
    · by_cases h2 : k' = k
      · subst h2
        simp [h1] at h
        rcases h with h | h
        · simp [h]
        · exact Or.inr (by simp [h])
      · simp [h1, h2] at h
        rcases h with h | h | h
        · simp [h]
        · exact Or.inr (by simp [h])
        · exact Or.inr (by simp [h])

theorem SMap.ins_sorted {α : Type} (k : Str) (v : α) : ∀ (m : SMap α), SMap.Sorted m → SMap.Sorted (SMap.ins k v m)
  | [], _ => by simp [SMap.ins, SMap.Sorted]
  | (k', v') :: t, h => by
    have ht : SMap.Sorted t := (List.pairwise_cons.mp h).2
    have hh : ∀ kv ∈ t, keyLt k' kv.1 = true := (List.pairwise_cons.mp h).1
    unfold SMap.ins
    by_cases h1 : keyLt k' k = true
    · simp only [h1, if_true]
      apply List.pairwise_cons.mpr
      refine ⟨?_, SMap.ins_sorted k v t ht⟩
      intro kv hkv
      rcases SMap.ins_keys k v t kv hkv with e | e
      · rw [e]; exact h1
      · exact hh kv e
    · have h1' : keyLt k' k = false := by simpa using h1
      by_cases h2 : k' = k
      · subst h2
        simp [h1]
        exact List.pairwise_cons.mpr ⟨hh, ht⟩
      · simp [h1, h2]
        have hlt : keyLt k k' = true := keyLt_total h1' h2
        apply List.pairwise_cons.mpr
        refine ⟨?_, h⟩
        intro kv hkv
        simp only [List.mem_cons] at hkv
        rcases hkv with e | e
        · rw [e]; exact hlt
        · exact keyLt_trans hlt (hh kv e)

/-- every member list (any order, duplicates allowed) has a canonical representation. -/
theorem SMap.ofList_is_sorted {α : Type} (l : List (Str × α)) : SMap.Sorted (SMap.ofList l) := by
  unfold SMap.ofList
  have : ∀ (l : List (Str × α)) (acc : SMap α), SMap.Sorted acc →
      SMap.Sorted (l.foldl (fun m kv => SMap.ins kv.1 kv.2 m) acc) := by
    intro l
    induction l with
    | nil => intro acc h; exact h
    | cons kv t ih => intro acc h; exact ih _ (SMap.ins_sorted kv.1 kv.2 acc h)
  exact this l [] (by simp [SMap.Sorted])

/-! ### member order of a document does not matter to the decoders -/

theorem field_perm {l1 l2 : List (Str × Json)} (h : l1.Perm l2) :
    (l1.map (·.1)).Nodup → ∀ k : Str, Json.field k l1 = Json.field k l2 := by
  induction h with
  | nil => intro _ _; rfl
  | cons x _ ih =>
    intro hn k
    obtain ⟨xk, xv⟩ := x
    simp only [List.map_cons, List.nodup_cons] at hn
    simp only [Json.field, ih hn.2 k]
  | swap x y l =>
    intro hn k
    obtain ⟨xk, xv⟩ := x
    obtain ⟨yk, yv⟩ := y
    simp only [List.map_cons, List.nodup_cons, List.mem_cons, not_or] at hn
    simp only [Json.field]
    by_cases h1 : yk = k <;> by_cases h2 : xk = k <;> simp [h1, h2]
    exact absurd (h1.trans h2.symm) hn.1.1
  | trans p _ ih1 ih2 =>
    intro hn k
    have hn2 := (List.Perm.nodup_iff (p.map (·.1))).mp hn
    rw [ih1 hn k, ih2 hn2 k]

theorem decConn_perm {l1 l2 : List (Str × Json)} (h : l1.Perm l2) (hn : (l1.map (·.1)).Nodup) :
    decConn (.obj l1) = decConn (.obj l2) := by
  have hf := field_perm h hn
  simp only [decConn, pure_bind, hf]

theorem decPipe_perm {l1 l2 : List (Str × Json)} (h : l1.Perm l2) (hn : (l1.map (·.1)).Nodup) :
    decPipe (.obj l1) = decPipe (.obj l2) := by
  have hf := field_perm h hn
  simp only [decPipe, pure_bind, hf]

theorem decProc_perm {l1 l2 : List (Str × Json)} (h : l1.Perm l2) (hn : (l1.map (·.1)).Nodup) :
    decProc (.obj l1) = decProc (.obj l2) := by
  have hf := field_perm h hn
  simp only [decProc, pure_bind, hf]

/-! ### store keys -/

theorem trimKey_storeKey (pre : String) (id : Str) : trimKey pre (storeKey pre id) = id := by
  simp [trimKey, storeKey]

/-! ### restart -/

theorem mem_lifecycleStarts (l : List PipeInstance) (id : Str) :
    id ∈ lifecycleStarts l ↔ ∃ q ∈ l, q.status = statusSystemStopped ∧ q.id = id := by
  simp [lifecycleStarts, and_assoc]

theorem eq_of_mem_of_id_eq : ∀ (ps : List PipeInstance), (ps.map (·.id)).Nodup → ∀ a ∈ ps, ∀ b ∈ ps, a.id = b.id → a = b
  | [], _, a, ha, _, _, _ => by simp at ha
  | x :: t, hn, a, ha, b, hb, e => by
    simp only [List.map_cons, List.nodup_cons, List.mem_map, not_exists, not_and] at hn
    simp only [List.mem_cons] at ha hb
    rcases ha with ha | ha <;> rcases hb with hb | hb
    · rw [ha, hb]
    · subst ha; exact absurd e.symm (hn.1 b hb)
    · subst hb; exact absurd e (hn.1 a ha)
    · exact eq_of_mem_of_id_eq t hn.2 a ha b hb e

end Conduit.Codec
